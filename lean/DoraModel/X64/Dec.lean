/-!
# C07 — reference decoder for the x86-64 subset the assemblers emit (hand-written specification)

My reading of the Intel SDM vol. 2 (instruction format ch. 2, opcode maps app. A), 64-bit mode only. It is written
independently of the encoder: it knows nothing of `dora-asm`, imports nothing from the generated model, and is
validated against `llvm-mc --disassemble` (LLVM 14) on every byte string the sweeps produce.

`decode : List UInt8 → Option (Instr × List UInt8)` reads one instruction and returns the unread rest.
Outside the subset (or for an encoding that is #UD, e.g. `lock` on a register form) the answer is `none`.
All arithmetic is on `Nat`/`Int` (`UInt8.toNat`) so that `decide +kernel` evaluates it quickly.
-/
set_option linter.constructorNameAsVariable false
namespace Dora.X64.Dec

abbrev Bytes := List UInt8

/-- operand width: 8 / 16 / 32 / 64 bits -/
inductive W | b | w | l | q
  deriving DecidableEq, Repr

def W.bits : W → Nat
  | .b => 8 | .w => 16 | .l => 32 | .q => 64

inductive Opnd
  /-- low `w` bits of general register `n` (0–15) -/
  | reg (w : W) (n : Nat)
  /-- `ah ch dh bh` (n = 4..7), only reachable without a REX prefix -/
  | regHi (n : Nat)
  | xmm (n : Nat)
  /-- `disp(base, index, scale)`; scale ∈ {1,2,4,8} -/
  | mem (base : Option Nat) (index : Option (Nat × Nat)) (disp : Int)
  /-- `disp(%rip)` -/
  | ripRel (disp : Int)
  /-- immediate, as the signed value at the operand size (shift counts / rounding modes: 0–255) -/
  | imm (v : Int)
  /-- branch displacement relative to the end of the instruction -/
  | rel (d : Int)
  deriving BEq, ReflBEq, LawfulBEq, Repr

inductive Mnem
  | add | or | adc | sbb | and | sub | xor | cmp | test | mov | movabs | movsx | movzx | movsxd | lea | xchg | xadd
  | cmpxchg | imul | mul | div | idiv | neg | not | rol | ror | rcl | rcr | shl | shr | sar | push | pop | call | jmp
  | jcc | setcc | cmovcc | ret | nop | int3 | cdq | cqo | mfence | lzcnt | tzcnt | popcnt | bsf | bsr
  | movups | movupd | movss | movsd | movaps | movapd | cvtsi2ss | cvtsi2sd | cvttss2si | cvttsd2si
  | ucomiss | ucomisd | sqrtss | sqrtsd | sqrtps | sqrtpd | andps | andpd | xorps | xorpd
  | addss | addsd | addps | addpd | mulss | mulsd | mulps | mulpd | subss | subsd | subps | subpd
  | divss | divsd | divps | divpd | cvtss2sd | cvtsd2ss | movd | movq | pxor | roundss | roundsd
  deriving DecidableEq, Repr

/-- one decoded instruction. `ops` in Intel order (destination first). `sz` = operand-size attribute where the
mnemonic alone does not fix it; `cc` = condition code of `jcc/setcc/cmovcc`; `vex` = VEX-encoded (AVX) form. -/
structure Instr where
  mnem : Mnem
  sz : Option W := none
  ops : List Opnd := []
  cc : Option Nat := none
  lock : Bool := false
  vex : Bool := false
  deriving BEq, ReflBEq, LawfulBEq, Repr

/-! ## fields -/

def sx8 (b : UInt8) : Int := if b.toNat < 128 then (b.toNat : Int) else (b.toNat : Int) - 256

def le16u (b0 b1 : UInt8) : Nat := b0.toNat + 256 * b1.toNat
def le32u (b0 b1 b2 b3 : UInt8) : Nat := b0.toNat + 256 * (b1.toNat + 256 * (b2.toNat + 256 * b3.toNat))
def sxN (bits : Nat) (v : Nat) : Int := if v < 2 ^ (bits - 1) then (v : Int) else (v : Int) - (2 ^ bits : Nat)

def rdImm8 : Bytes → Option (Int × Bytes)
  | b :: r => some (sx8 b, r)
  | _ => none
def rdImm8u : Bytes → Option (Int × Bytes)
  | b :: r => some ((b.toNat : Int), r)
  | _ => none
def rdImm16 : Bytes → Option (Int × Bytes)
  | b0 :: b1 :: r => some (sxN 16 (le16u b0 b1), r)
  | _ => none
def rdImm32 : Bytes → Option (Int × Bytes)
  | b0 :: b1 :: b2 :: b3 :: r => some (sxN 32 (le32u b0 b1 b2 b3), r)
  | _ => none
def rdImm64 : Bytes → Option (Int × Bytes)
  | b0 :: b1 :: b2 :: b3 :: b4 :: b5 :: b6 :: b7 :: r =>
    some (sxN 64 (le32u b0 b1 b2 b3 + 4294967296 * le32u b4 b5 b6 b7), r)
  | _ => none

/-- immediate of an `Iz` operand: imm16 / imm32 / imm32 sign-extended to 64 -/
def rdImmZ : W → Bytes → Option (Int × Bytes)
  | .b, bs => rdImm8 bs
  | .w, bs => rdImm16 bs
  | _, bs => rdImm32 bs

/-! ## prefixes -/

structure Pfx where
  opsz : Bool := false
  /-- 0 none, 2 = F2, 3 = F3 -/
  rep : Nat := 0
  lock : Bool := false
  deriving DecidableEq, Repr

/-- legacy prefixes (66, F2, F3, F0) in any order, each at most once; F2 and F3 exclude each other -/
def prefixes : Nat → Pfx → Bytes → Option (Pfx × Bytes)
  | 0, p, bs => some (p, bs)
  | n + 1, p, b :: r =>
    if b.toNat = 0x66 then (if p.opsz then none else prefixes n { p with opsz := true } r)
    else if b.toNat = 0xF2 then (if p.rep ≠ 0 then none else prefixes n { p with rep := 2 } r)
    else if b.toNat = 0xF3 then (if p.rep ≠ 0 then none else prefixes n { p with rep := 3 } r)
    else if b.toNat = 0xF0 then (if p.lock then none else prefixes n { p with lock := true } r)
    else some (p, b :: r)
  | _ + 1, p, [] => some (p, [])

structure Rex where
  present : Bool := false
  w : Bool := false
  r : Bool := false
  x : Bool := false
  b : Bool := false
  deriving DecidableEq, Repr

def Rex.ofByte (v : Nat) : Rex :=
  { present := true, w := v / 8 % 2 = 1, r := v / 4 % 2 = 1, x := v / 2 % 2 = 1, b := v % 2 = 1 }

def ext (hi : Bool) (n : Nat) : Nat := if hi then n + 8 else n

/-! ## ModRM / SIB / displacement -/

inductive RM
  | reg (n : Nat)
  | mem (o : Opnd)
  deriving Repr

def rdDisp (mod : Nat) : Bytes → Option (Int × Bytes)
  | bs => if mod = 0 then some (0, bs) else if mod = 1 then rdImm8 bs else rdImm32 bs

/-- the r/m operand for given `mod` and `rm` fields of the ModRM byte: optional SIB byte, displacement -/
def decodeRM (rx rb : Bool) (mod rm : Nat) (rest : Bytes) : Option (RM × Bytes) :=
  if mod = 3 then some (.reg (ext rb rm), rest)
  else if rm = 4 then
    match rest with
    | [] => none
    | s :: rest =>
      let scale := 2 ^ (s.toNat / 64)
      let idx := ext rx (s.toNat / 8 % 8)
      let base := s.toNat % 8
      let index := if idx = 4 then none else some (idx, scale)
      if base = 5 ∧ mod = 0 then
        match rdImm32 rest with
        | some (d, rest) => some (.mem (.mem none index d), rest)
        | none => none
      else
        match rdDisp mod rest with
        | some (d, rest) => some (.mem (.mem (some (ext rb base)) index d), rest)
        | none => none
  else if rm = 5 ∧ mod = 0 then
    match rdImm32 rest with
    | some (d, rest) => some (.mem (.ripRel d), rest)
    | none => none
  else
    match rdDisp mod rest with
    | some (d, rest) => some (.mem (.mem (some (ext rb rm)) none d), rest)
    | none => none

/-- ModRM byte (mod = bits 7–6, reg = bits 5–3, rm = bits 2–0), then the r/m operand.
Returns (reg field 0–7, r/m operand, rest). -/
def decodeModRM (rx rb : Bool) : Bytes → Option (Nat × RM × Bytes)
  | [] => none
  | m :: rest =>
    match decodeRM rx rb (m.toNat / 64) (m.toNat % 8) rest with
    | some (rm, rest) => some (m.toNat / 8 % 8, rm, rest)
    | none => none

/-- 8-bit register number `n`: without REX 4–7 are `ah ch dh bh`, with any REX `spl bpl sil dil` -/
def byteReg (rexPresent : Bool) (n : Nat) : Opnd :=
  if !rexPresent && decide (4 ≤ n) && decide (n < 8) then .regHi n else .reg .b n

def gpr (w : W) (rexPresent : Bool) (n : Nat) : Opnd :=
  match w with
  | .b => byteReg rexPresent n
  | _ => .reg w n

def rmGpr (w : W) (rexPresent : Bool) : RM → Opnd
  | .reg n => gpr w rexPresent n
  | .mem o => o

def rmXmm : RM → Opnd
  | .reg n => .xmm n
  | .mem o => o

def RM.isMem : RM → Bool
  | .mem _ => true
  | .reg _ => false

/-! ## one-byte and 0F opcode maps -/

def osz (p : Pfx) (x : Rex) : W := if x.w then .q else if p.opsz then .w else .l

def aluOp (n : Nat) : Mnem :=
  match n with
  | 0 => .add | 1 => .or | 2 => .adc | 3 => .sbb | 4 => .and | 5 => .sub | 6 => .xor | _ => .cmp

def shiftOp (n : Nat) : Mnem :=
  match n with
  | 0 => .rol | 1 => .ror | 2 => .rcl | 3 => .rcr | 4 => .shl | 5 => .shr | 6 => .shl | _ => .sar

def lockable (m : Mnem) : Bool :=
  match m with
  | .add | .or | .adc | .sbb | .and | .sub | .xor | .xchg | .xadd | .cmpxchg | .neg | .not => true
  | _ => false

/-- `lock` is only legal on a lockable instruction with a memory destination -/
def finish (p : Pfx) (i : Instr) (destIsMem : Bool) (rest : Bytes) : Option (Instr × Bytes) :=
  if p.lock then
    if lockable i.mnem && destIsMem then some ({ i with lock := true }, rest) else none
  else some (i, rest)

/-- `op E, G` / `op G, E` with both operands of width `w` -/
def rmr (p : Pfx) (x : Rex) (m : Mnem) (w : W) (gFirst : Bool) (bs : Bytes) : Option (Instr × Bytes) :=
  match decodeModRM x.x x.b bs with
  | none => none
  | some (reg, rm, rest) =>
    let e := rmGpr w x.present rm
    let g := gpr w x.present (ext x.r reg)
    finish p { mnem := m, sz := some w, ops := if gFirst then [g, e] else [e, g] } (!gFirst && rm.isMem) rest

/-- `op E, imm` -/
def rmi (p : Pfx) (x : Rex) (m : Mnem) (w : W) (rm : RM) (rd : Bytes → Option (Int × Bytes)) (bs : Bytes) :
    Option (Instr × Bytes) :=
  match rd bs with
  | none => none
  | some (v, rest) => finish p { mnem := m, sz := some w, ops := [rmGpr w x.present rm, .imm v] } rm.isMem rest

/-- one-operand `op E` -/
def rm1 (p : Pfx) (x : Rex) (m : Mnem) (w : W) (rm : RM) (rest : Bytes) : Option (Instr × Bytes) :=
  finish p { mnem := m, sz := some w, ops := [rmGpr w x.present rm] } rm.isMem rest

def noRep (p : Pfx) : Bool := p.rep = 0

def op1 (p : Pfx) (x : Rex) (opc : Nat) (bs : Bytes) : Option (Instr × Bytes) :=
  let w := osz p x
  if !noRep p then none
  else if opc < 0x40 then
    let m := aluOp (opc / 8)
    let f := opc % 8
    if f = 0 then rmr p x m .b false bs
    else if f = 1 then rmr p x m w false bs
    else if f = 2 then rmr p x m .b true bs
    else if f = 3 then rmr p x m w true bs
    else if f = 4 then
      match rdImm8 bs with
      | some (v, rest) => finish p { mnem := m, sz := some .b, ops := [.reg .b 0, .imm v] } false rest
      | none => none
    else if f = 5 then
      match rdImmZ w bs with
      | some (v, rest) => finish p { mnem := m, sz := some w, ops := [.reg w 0, .imm v] } false rest
      | none => none
    else none
  else if 0x50 ≤ opc ∧ opc < 0x58 then
    if p.opsz then none else finish p { mnem := .push, sz := some .q, ops := [.reg .q (ext x.b (opc - 0x50))] } false bs
  else if 0x58 ≤ opc ∧ opc < 0x60 then
    if p.opsz then none else finish p { mnem := .pop, sz := some .q, ops := [.reg .q (ext x.b (opc - 0x58))] } false bs
  else if opc = 0x63 then
    if !x.w then none else
    match decodeModRM x.x x.b bs with
    | some (reg, rm, rest) =>
      finish p { mnem := .movsxd, sz := some .q, ops := [.reg .q (ext x.r reg), rmGpr .l x.present rm] } false rest
    | none => none
  else if 0x70 ≤ opc ∧ opc < 0x80 then
    match rdImm8 bs with
    | some (d, rest) => finish p { mnem := .jcc, cc := some (opc - 0x70), ops := [.rel d] } false rest
    | none => none
  else if opc = 0x80 ∨ opc = 0x81 ∨ opc = 0x83 then
    match decodeModRM x.x x.b bs with
    | some (reg, rm, rest) =>
      if opc = 0x80 then rmi p x (aluOp reg) .b rm rdImm8 rest
      else if opc = 0x81 then rmi p x (aluOp reg) w rm (rdImmZ w) rest
      else rmi p x (aluOp reg) w rm rdImm8 rest
    | none => none
  else if opc = 0x84 then rmr p x .test .b false bs
  else if opc = 0x85 then rmr p x .test w false bs
  else if opc = 0x86 then rmr p x .xchg .b false bs
  else if opc = 0x87 then rmr p x .xchg w false bs
  else if opc = 0x88 then rmr p x .mov .b false bs
  else if opc = 0x89 then rmr p x .mov w false bs
  else if opc = 0x8A then rmr p x .mov .b true bs
  else if opc = 0x8B then rmr p x .mov w true bs
  else if opc = 0x8D then
    match decodeModRM x.x x.b bs with
    | some (reg, .mem o, rest) => finish p { mnem := .lea, sz := some w, ops := [.reg w (ext x.r reg), o] } false rest
    | _ => none
  else if opc = 0x90 then
    if x.b ∨ p.opsz then none else finish p { mnem := .nop } false bs
  else if opc = 0x99 then
    if p.opsz then none else finish p { mnem := if x.w then .cqo else .cdq } false bs
  else if opc = 0xA8 then
    match rdImm8 bs with
    | some (v, rest) => finish p { mnem := .test, sz := some .b, ops := [.reg .b 0, .imm v] } false rest
    | none => none
  else if opc = 0xA9 then
    match rdImmZ w bs with
    | some (v, rest) => finish p { mnem := .test, sz := some w, ops := [.reg w 0, .imm v] } false rest
    | none => none
  else if 0xB8 ≤ opc ∧ opc < 0xC0 then
    if x.w then
      match rdImm64 bs with
      | some (v, rest) => finish p { mnem := .movabs, sz := some .q, ops := [.reg .q (ext x.b (opc - 0xB8)), .imm v] } false rest
      | none => none
    else
      match rdImmZ w bs with
      | some (v, rest) => finish p { mnem := .mov, sz := some w, ops := [.reg w (ext x.b (opc - 0xB8)), .imm v] } false rest
      | none => none
  else if opc = 0xC1 then
    match decodeModRM x.x x.b bs with
    | some (reg, rm, rest) => rmi p x (shiftOp reg) w rm rdImm8u rest
    | none => none
  else if opc = 0xD3 then
    match decodeModRM x.x x.b bs with
    | some (reg, rm, rest) =>
      finish p { mnem := shiftOp reg, sz := some w, ops := [rmGpr w x.present rm, .reg .b 1] } false rest
    | none => none
  else if opc = 0xC3 then finish p { mnem := .ret } false bs
  else if opc = 0xC6 ∨ opc = 0xC7 then
    match decodeModRM x.x x.b bs with
    | some (reg, rm, rest) =>
      if reg ≠ 0 then none
      else if opc = 0xC6 then rmi p x .mov .b rm rdImm8 rest
      else rmi p x .mov w rm (rdImmZ w) rest
    | none => none
  else if opc = 0xCC then finish p { mnem := .int3 } false bs
  else if opc = 0xE8 then
    match rdImm32 bs with
    | some (d, rest) => finish p { mnem := .call, ops := [.rel d] } false rest
    | none => none
  else if opc = 0xE9 then
    match rdImm32 bs with
    | some (d, rest) => finish p { mnem := .jmp, ops := [.rel d] } false rest
    | none => none
  else if opc = 0xEB then
    match rdImm8 bs with
    | some (d, rest) => finish p { mnem := .jmp, ops := [.rel d] } false rest
    | none => none
  else if opc = 0xF6 ∨ opc = 0xF7 then
    let w' := if opc = 0xF6 then W.b else w
    match decodeModRM x.x x.b bs with
    | some (reg, rm, rest) =>
      if reg = 0 then rmi p x .test w' rm (rdImmZ w') rest
      else if reg = 2 then rm1 p x .not w' rm rest
      else if reg = 3 then rm1 p x .neg w' rm rest
      else if reg = 4 then rm1 p x .mul w' rm rest
      else if reg = 5 then rm1 p x .imul w' rm rest
      else if reg = 6 then rm1 p x .div w' rm rest
      else if reg = 7 then rm1 p x .idiv w' rm rest
      else none
    | none => none
  else if opc = 0xFF then
    if p.opsz then none else
    match decodeModRM x.x x.b bs with
    | some (reg, rm, rest) =>
      if reg = 2 then finish p { mnem := .call, sz := some .q, ops := [rmGpr .q x.present rm] } false rest
      else if reg = 4 then finish p { mnem := .jmp, sz := some .q, ops := [rmGpr .q x.present rm] } false rest
      else none
    | none => none
  else none

/-- mandatory prefix of an SSE opcode: 0 none, 1 = 66, 2 = F2, 3 = F3 -/
def mandatory (p : Pfx) : Nat := if p.rep ≠ 0 then p.rep else if p.opsz then 1 else 0

/-- scalar/packed family `ps pd sd ss` by mandatory prefix -/
def sseFam (mp : Nat) (ps pd sd ss : Mnem) : Mnem :=
  match mp with
  | 0 => ps | 1 => pd | 2 => sd | _ => ss

/-- `op xmm(G), xmm/m(E)` (or the reverse) -/
def sseRR (vex : Bool) (x : Rex) (m : Mnem) (eFirst : Bool) (bs : Bytes) : Option (Instr × Bytes) :=
  match decodeModRM x.x x.b bs with
  | some (reg, rm, rest) =>
    let g := Opnd.xmm (ext x.r reg)
    let e := rmXmm rm
    some ({ mnem := m, ops := if eFirst then [e, g] else [g, e], vex := vex }, rest)
  | none => none

def op0F (p : Pfx) (x : Rex) (opc : Nat) (bs : Bytes) : Option (Instr × Bytes) :=
  let w := osz p x
  let mp := mandatory p
  let sse := !p.lock && !x.w
  if opc = 0x10 ∨ opc = 0x11 then
    if !sse then none else sseRR false x (sseFam mp .movups .movupd .movsd .movss) (opc = 0x11) bs
  else if opc = 0x28 ∨ opc = 0x29 then
    if !sse ∨ mp > 1 then none else sseRR false x (if mp = 0 then .movaps else .movapd) (opc = 0x29) bs
  else if opc = 0x2A then
    if p.lock ∨ mp < 2 ∨ p.opsz then none else
    match decodeModRM x.x x.b bs with
    | some (reg, rm, rest) =>
      let gw := if x.w then W.q else W.l
      some ({ mnem := if mp = 2 then .cvtsi2sd else .cvtsi2ss, sz := some gw,
              ops := [.xmm (ext x.r reg), rmGpr gw x.present rm] }, rest)
    | none => none
  else if opc = 0x2C then
    if p.lock ∨ mp < 2 ∨ p.opsz then none else
    match decodeModRM x.x x.b bs with
    | some (reg, rm, rest) =>
      let gw := if x.w then W.q else W.l
      some ({ mnem := if mp = 2 then .cvttsd2si else .cvttss2si, sz := some gw,
              ops := [.reg gw (ext x.r reg), rmXmm rm] }, rest)
    | none => none
  else if opc = 0x2E then
    if !sse ∨ mp > 1 then none else sseRR false x (if mp = 0 then .ucomiss else .ucomisd) false bs
  else if opc = 0x51 then
    if !sse then none else sseRR false x (sseFam mp .sqrtps .sqrtpd .sqrtsd .sqrtss) false bs
  else if opc = 0x54 then
    if !sse ∨ mp > 1 then none else sseRR false x (if mp = 0 then .andps else .andpd) false bs
  else if opc = 0x57 then
    if !sse ∨ mp > 1 then none else sseRR false x (if mp = 0 then .xorps else .xorpd) false bs
  else if opc = 0x58 then
    if !sse then none else sseRR false x (sseFam mp .addps .addpd .addsd .addss) false bs
  else if opc = 0x59 then
    if !sse then none else sseRR false x (sseFam mp .mulps .mulpd .mulsd .mulss) false bs
  else if opc = 0x5A then
    if !sse ∨ mp < 2 then none else sseRR false x (if mp = 2 then .cvtsd2ss else .cvtss2sd) false bs
  else if opc = 0x5C then
    if !sse then none else sseRR false x (sseFam mp .subps .subpd .subsd .subss) false bs
  else if opc = 0x5E then
    if !sse then none else sseRR false x (sseFam mp .divps .divpd .divsd .divss) false bs
  else if opc = 0x6E ∨ opc = 0x7E then
    if p.lock ∨ mp ≠ 1 then none else
    match decodeModRM x.x x.b bs with
    | some (reg, rm, rest) =>
      let gw := if x.w then W.q else W.l
      let e := rmGpr gw x.present rm
      let g := Opnd.xmm (ext x.r reg)
      some ({ mnem := if x.w then .movq else .movd, sz := some gw, ops := if opc = 0x6E then [g, e] else [e, g] }, rest)
    | none => none
  else if opc = 0xEF then
    if !sse ∨ mp ≠ 1 then none else sseRR false x .pxor false bs
  else if !(noRep p) ∧ ¬ (opc = 0xB8 ∨ opc = 0xBC ∨ opc = 0xBD) then none
  else if 0x40 ≤ opc ∧ opc < 0x50 then
    match decodeModRM x.x x.b bs with
    | some (reg, rm, rest) =>
      finish p { mnem := .cmovcc, cc := some (opc - 0x40), sz := some w,
                 ops := [.reg w (ext x.r reg), rmGpr w x.present rm] } false rest
    | none => none
  else if 0x80 ≤ opc ∧ opc < 0x90 then
    match rdImm32 bs with
    | some (d, rest) => finish p { mnem := .jcc, cc := some (opc - 0x80), ops := [.rel d] } false rest
    | none => none
  else if 0x90 ≤ opc ∧ opc < 0xA0 then
    match decodeModRM x.x x.b bs with
    | some (_, rm, rest) =>
      finish p { mnem := .setcc, cc := some (opc - 0x90), sz := some .b, ops := [rmGpr .b x.present rm] } false rest
    | none => none
  else if opc = 0xAE then
    match bs with
    | m :: rest => if m.toNat / 8 = 0x1E ∧ !x.present ∧ !p.opsz then finish p { mnem := .mfence } false rest else none
    | [] => none
  else if opc = 0xAF then rmr p x .imul w true bs
  else if opc = 0xB0 then rmr p x .cmpxchg .b false bs
  else if opc = 0xB1 then rmr p x .cmpxchg w false bs
  else if opc = 0xC0 then rmr p x .xadd .b false bs
  else if opc = 0xC1 then rmr p x .xadd w false bs
  else if opc = 0xB6 ∨ opc = 0xB7 ∨ opc = 0xBE ∨ opc = 0xBF then
    match decodeModRM x.x x.b bs with
    | some (reg, rm, rest) =>
      let sw := if opc = 0xB6 ∨ opc = 0xBE then W.b else W.w
      finish p { mnem := if opc < 0xB8 then .movzx else .movsx, sz := some w,
                 ops := [.reg w (ext x.r reg), rmGpr sw x.present rm] } false rest
    | none => none
  else if opc = 0xB8 then
    if p.rep ≠ 3 then none else rmr p x .popcnt w true bs
  else if opc = 0xBC then
    if p.rep = 2 then none else rmr p x (if p.rep = 3 then .tzcnt else .bsf) w true bs
  else if opc = 0xBD then
    if p.rep = 2 then none else rmr p x (if p.rep = 3 then .lzcnt else .bsr) w true bs
  else none

def op0F3A (p : Pfx) (x : Rex) (opc : Nat) (bs : Bytes) : Option (Instr × Bytes) :=
  if (opc = 0x0A ∨ opc = 0x0B) ∧ mandatory p = 1 ∧ !p.lock ∧ !x.w then
    match sseRR false x (if opc = 0x0A then .roundss else .roundsd) false bs with
    | some (i, rest) =>
      match rdImm8u rest with
      | some (v, rest) => some ({ i with ops := i.ops ++ [.imm v] }, rest)
      | none => none
    | none => none
  else none

/-! ## VEX -/

/-- VEX-encoded subset. `map` 1 = 0F, 3 = 0F3A; `pp` 0 none, 1 = 66, 2 = F3, 3 = F2; `v` = the register in vvvv
(already un-inverted); L must be 0 (128-bit / scalar). -/
def opVex (x : Rex) (map pp v : Nat) (l : Bool) (opc : Nat) (bs : Bytes) : Option (Instr × Bytes) :=
  if l then none else
  match decodeModRM x.x x.b bs with
  | none => none
  | some (reg, rm, rest) =>
    let g := Opnd.xmm (ext x.r reg)
    let e := rmXmm rm
    let vv := Opnd.xmm v
    let three (m : Mnem) : Option (Instr × Bytes) := some ({ mnem := m, ops := [g, vv, e], vex := true }, rest)
    let two (m : Mnem) (eFirst : Bool) : Option (Instr × Bytes) :=
      if v ≠ 0 then none else some ({ mnem := m, ops := if eFirst then [e, g] else [g, e], vex := true }, rest)
    -- pp as the legacy mandatory-prefix number: 0 none, 1 = 66, 2 = F2, 3 = F3
    let mp := if pp = 2 then 3 else if pp = 3 then 2 else pp
    if map = 1 then
      if opc = 0x10 ∨ opc = 0x11 then
        if x.w then none
        else if mp ≥ 2 ∧ !rm.isMem then
          -- vmovss/vmovsd xmm1, xmm2, xmm3 (both opcodes; 0x11 swaps the roles of reg and r/m)
          some ({ mnem := if mp = 2 then .movsd else .movss, ops := if opc = 0x10 then [g, vv, e] else [e, vv, g],
                  vex := true }, rest)
        else two (sseFam mp .movups .movupd .movsd .movss) (opc = 0x11)
      else if opc = 0x28 ∨ opc = 0x29 then
        if x.w ∨ mp > 1 then none else two (if mp = 0 then .movaps else .movapd) (opc = 0x29)
      else if opc = 0x2A then
        if mp < 2 then none else
        let gw := if x.w then W.q else W.l
        some ({ mnem := if mp = 2 then .cvtsi2sd else .cvtsi2ss, sz := some gw,
                ops := [g, vv, rmGpr gw true rm], vex := true }, rest)
      else if opc = 0x2C then
        if mp < 2 ∨ v ≠ 0 then none else
        let gw := if x.w then W.q else W.l
        some ({ mnem := if mp = 2 then .cvttsd2si else .cvttss2si, sz := some gw,
                ops := [.reg gw (ext x.r reg), e], vex := true }, rest)
      else if opc = 0x2E then
        if x.w ∨ mp > 1 then none else two (if mp = 0 then .ucomiss else .ucomisd) false
      else if opc = 0x51 then if x.w then none else
        (if mp ≥ 2 then three (if mp = 2 then .sqrtsd else .sqrtss) else two (if mp = 0 then .sqrtps else .sqrtpd) false)
      else if opc = 0x54 then if x.w ∨ mp > 1 then none else three (if mp = 0 then .andps else .andpd)
      else if opc = 0x57 then if x.w ∨ mp > 1 then none else three (if mp = 0 then .xorps else .xorpd)
      else if opc = 0x58 then if x.w then none else three (sseFam mp .addps .addpd .addsd .addss)
      else if opc = 0x59 then if x.w then none else three (sseFam mp .mulps .mulpd .mulsd .mulss)
      else if opc = 0x5A then if x.w ∨ mp < 2 then none else three (if mp = 2 then .cvtsd2ss else .cvtss2sd)
      else if opc = 0x5C then if x.w then none else three (sseFam mp .subps .subpd .subsd .subss)
      else if opc = 0x5E then if x.w then none else three (sseFam mp .divps .divpd .divsd .divss)
      else if opc = 0x6E ∨ opc = 0x7E then
        if mp ≠ 1 ∨ v ≠ 0 then none else
        let gw := if x.w then W.q else W.l
        let e' := rmGpr gw true rm
        some ({ mnem := if x.w then .movq else .movd, sz := some gw,
                ops := if opc = 0x6E then [g, e'] else [e', g], vex := true }, rest)
      else none
    else if map = 3 then
      if (opc = 0x0A ∨ opc = 0x0B) ∧ mp = 1 ∧ !x.w then
        match rdImm8u rest with
        | some (i, rest) =>
          some ({ mnem := if opc = 0x0A then .roundss else .roundsd, ops := [g, vv, e, .imm i], vex := true }, rest)
        | none => none
      else none
    else none

/-! ## the decoder -/

def decode (bs : Bytes) : Option (Instr × Bytes) :=
  match prefixes 4 {} bs with
  | none => none
  | some (p, bs) =>
    match bs with
    | [] => none
    | b :: rest =>
      if b.toNat = 0xC5 then
        -- two-byte VEX: no legacy prefix / REX may precede it
        if p ≠ {} then none else
        match rest with
        | v1 :: opc :: rest =>
          let n := v1.toNat
          opVex { present := true, r := n / 128 = 0 } 1 (n % 4) (15 - n / 8 % 16) (n / 4 % 2 = 1) opc.toNat rest
        | _ => none
      else if b.toNat = 0xC4 then
        if p ≠ {} then none else
        match rest with
        | v1 :: v2 :: opc :: rest =>
          let n := v1.toNat
          let k := v2.toNat
          opVex { present := true, r := n / 128 = 0, x := n / 64 % 2 = 0, b := n / 32 % 2 = 0, w := k / 128 = 1 }
            (n % 32) (k % 4) (15 - k / 8 % 16) (k / 4 % 2 = 1) opc.toNat rest
        | _ => none
      else
        -- optional REX, then the opcode
        let (x, bs) := if 0x40 ≤ b.toNat ∧ b.toNat < 0x50 then (Rex.ofByte b.toNat, rest) else (({} : Rex), b :: rest)
        match bs with
        | [] => none
        | o :: rest =>
          if o.toNat = 0x0F then
            match rest with
            | [] => none
            | o2 :: rest =>
              if o2.toNat = 0x3A then
                match rest with
                | o3 :: rest => op0F3A p x o3.toNat rest
                | [] => none
              else if o2.toNat = 0x38 then none
              else op0F p x o2.toNat rest
          else op1 p x o.toNat rest

/-- decode a whole buffer, instruction after instruction (fuel = number of bytes) -/
def decodeAll : Nat → Bytes → Option (List Instr)
  | _, [] => some []
  | 0, _ => none
  | n + 1, bs =>
    match decode bs with
    | none => none
    | some (i, rest) =>
      match decodeAll n rest with
      | some is => some (i :: is)
      | none => none

end Dora.X64.Dec
