/-!
# C07 — support definitions for the regenerated x86-64 encoder model (`DoraModel/Gen/X64.lean`)

Hand-written. Contains only what the translator `tools/rs2lean_x64.py` assumes about Rust itself
(`as` casts, `!`, checked `usize` subtraction, `assert!`) and the model of
`dora-asm/src/lib.rs` (`AssemblerBuffer`: code bytes, position, label table). Core Lean only.

Rust type ↦ Lean type: `u8/u32/u64 ↦ UInt8/UInt32/UInt64` (wrapping, as Rust in release; the additions
in x64.rs cannot overflow), `i8/i32/i64 ↦ Int8/Int32/Int64`, `usize ↦ Nat` (subtraction checked: Rust
panics on underflow in the pinned debug profile), `isize ↦ Int`, `bool ↦ Bool`.
-/
namespace Dora.X64

abbrev Bytes := List UInt8

/-- Rust `e as T`. Instances follow Rust's truncate / sign-extend / zero-extend rules. -/
class RCast (α : Type) (β : Type) where
  cast : α → β

instance : RCast Bool UInt8 := ⟨fun b => if b then 1 else 0⟩
instance : RCast UInt8 UInt8 := ⟨id⟩
instance : RCast UInt8 UInt32 := ⟨UInt8.toUInt32⟩
instance : RCast UInt8 Nat := ⟨UInt8.toNat⟩
instance : RCast UInt32 UInt8 := ⟨UInt32.toUInt8⟩
instance : RCast UInt32 UInt32 := ⟨id⟩
instance : RCast UInt32 Int32 := ⟨UInt32.toInt32⟩
instance : RCast UInt32 Nat := ⟨UInt32.toNat⟩
instance : RCast Int8 UInt8 := ⟨Int8.toUInt8⟩
instance : RCast Int32 UInt32 := ⟨Int32.toUInt32⟩
instance : RCast Int32 Int8 := ⟨Int32.toInt8⟩
instance : RCast Int32 UInt8 := ⟨fun x => x.toInt8.toUInt8⟩
instance : RCast Int64 UInt8 := ⟨fun x => x.toInt8.toUInt8⟩
instance : RCast Int64 UInt32 := ⟨fun x => x.toInt32.toUInt32⟩
instance : RCast Int64 UInt64 := ⟨Int64.toUInt64⟩
instance : RCast Int64 Int8 := ⟨Int64.toInt8⟩
instance : RCast Int64 Int32 := ⟨Int64.toInt32⟩
instance : RCast Nat Int := ⟨Int.ofNat⟩
instance : RCast Int UInt8 := ⟨UInt8.ofInt⟩
instance : RCast Int UInt32 := ⟨UInt32.ofInt⟩

/-- Rust unary `!`: logical on `bool`, bitwise complement on integers. -/
class RNot (α : Type) where
  rnot : α → α
instance : RNot Bool := ⟨not⟩
instance : RNot UInt8 := ⟨fun x => ~~~x⟩

/-- `assert!(c)` / `debug_assert!(c)` (the pinned profile is a debug build). -/
@[inline] def rassert {m : Type → Type} [Monad m] [MonadExcept String m] (c : Bool) (msg : String) : m Unit :=
  if c then pure () else throw msg

/-- `a - b` on `usize`: panics on underflow in a debug build. -/
@[inline] def usub {m : Type → Type} [Monad m] [MonadExcept String m] (a b : Nat) : m Nat :=
  if b ≤ a then pure (a - b) else throw "attempt to subtract with overflow"

/-- `a % b` on `usize`: division by zero panics. -/
@[inline] def umod {m : Type → Type} [Monad m] [MonadExcept String m] (a b : Nat) : m Nat :=
  if b = 0 then throw "attempt to calculate the remainder with a divisor of zero" else pure (a % b)

/-- `xs[i]` (bounds checked) -/
@[inline] def getIdx {m : Type → Type} [Monad m] [MonadExcept String m] {α : Type} (xs : List α) (i : Nat) : m α :=
  match xs[i]? with
  | some v => pure v
  | none => throw "index out of bounds"

/-- `xs[i] = v` (bounds checked) -/
@[inline] def setIdx {m : Type → Type} [Monad m] [MonadExcept String m] {α : Type} (xs : List α) (i : Nat) (v : α) : m (List α) :=
  if i < xs.length then pure (xs.set i v) else throw "index out of bounds"

/-- `&xs[a..b]` (bounds checked) -/
@[inline] def sliceRange {m : Type → Type} [Monad m] [MonadExcept String m] {α : Type} (xs : List α) (a b : Nat) : m (List α) :=
  if a ≤ b ∧ b ≤ xs.length then pure ((xs.take b).drop a) else throw "slice index out of range"

/-- `&xs[a..]` (bounds checked) -/
@[inline] def sliceFrom {m : Type → Type} [Monad m] [MonadExcept String m] {α : Type} (xs : List α) (a : Nat) : m (List α) :=
  if a ≤ xs.length then pure (xs.drop a) else throw "slice index out of range"

/-- `Option::expect` -/
@[inline] def expectSome {m : Type → Type} [Monad m] [MonadExcept String m] {α : Type} (o : Option α) (msg : String) : m α :=
  match o with
  | some v => pure v
  | none => throw msg

/-- `usize → u32` through `try_into().unwrap()`. -/
@[inline] def toU32 {m : Type → Type} [Monad m] [MonadExcept String m] (a : Nat) : m UInt32 :=
  if a < 4294967296 then pure (UInt32.ofNat a) else throw "try_into: out of range"

/-! ## `dora-asm/src/lib.rs` — `AssemblerBuffer` (hand transcription; tied by the correspondence run) -/

/-- `pub struct Label(usize)` -/
structure Label where
  idx : Nat
  deriving DecidableEq, Repr

/-- `enum JumpDistance` of x64.rs -/
inductive JumpDistance
  | Near
  | Far
  deriving DecidableEq, Repr

/-- `struct ForwardJump` of x64.rs -/
structure ForwardJump where
  offset : UInt32
  label : Label
  distance : JumpDistance
  deriving DecidableEq, Repr

/-- `AssemblerX64 { unresolved_jumps, buffer: AssemblerBuffer { code, position, labels }, has_avx2 }`, flattened. -/
structure Asm where
  code : Bytes := []
  position : Nat := 0
  labels : List (Option UInt32) := []
  unresolved_jumps : List ForwardJump := []
  has_avx2 : Bool := false
  deriving Repr

abbrev X64 := StateT Asm (Except String)

/-- `AssemblerX64::new(has_avx2)` -/
def Asm.new (has_avx2 : Bool) : Asm := { has_avx2 := has_avx2 }

/-- overwrite `bs` at index `pos` of `code`; `none` when the slice is too short (Rust: `write_*` on a slice → `unwrap` panics) -/
def overwrite : Bytes → Nat → Bytes → Option Bytes
  | code, _, [] => some code
  | [], _, _ :: _ => none
  | _ :: cs, 0, b :: bs => (overwrite cs 0 bs).map (b :: ·)
  | c :: cs, p + 1, bs => (overwrite cs p bs).map (c :: ·)

namespace Buf

/-- the common shape of `AssemblerBuffer::emit_u8/u32/u64/u128`: append at the end, overwrite elsewhere -/
def emitBytes (bs : Bytes) : X64 Unit := fun s =>
  if s.position = s.code.length then
    .ok ((), { s with code := s.code ++ bs, position := s.position + bs.length })
  else if s.position < s.code.length then
    match overwrite s.code s.position bs with
    | some c => .ok ((), { s with code := c, position := s.position + bs.length })
    | none => .error "emit: write past the end of the buffer"
  else .error "emit: position past the end of the buffer"

def le32 (v : UInt32) : Bytes := [v.toUInt8, (v >>> 8).toUInt8, (v >>> 16).toUInt8, (v >>> 24).toUInt8]
def le64 (v : UInt64) : Bytes :=
  [v.toUInt8, (v >>> 8).toUInt8, (v >>> 16).toUInt8, (v >>> 24).toUInt8,
   (v >>> 32).toUInt8, (v >>> 40).toUInt8, (v >>> 48).toUInt8, (v >>> 56).toUInt8]

/-- `AssemblerBuffer::emit_u8` (via `AssemblerX64::emit_u8`) -/
def emit_u8 (value : UInt8) : X64 Unit := emitBytes [value]
/-- `AssemblerBuffer::emit_u32`, little endian -/
def emit_u32 (value : UInt32) : X64 Unit := emitBytes (le32 value)
/-- `AssemblerBuffer::emit_u64`, little endian -/
def emit_u64 (value : UInt64) : X64 Unit := emitBytes (le64 value)

/-- `AssemblerBuffer::position` -/
def position : X64 Nat := fun s => .ok (s.position, s)
/-- `AssemblerBuffer::set_position` -/
def set_position (pos : Nat) : X64 Unit := fun s => .ok ((), { s with position := pos })
/-- `AssemblerBuffer::set_position_end` -/
def set_position_end : X64 Unit := fun s => .ok ((), { s with position := s.code.length })
/-- `self.buffer.code.len()` -/
def code_len : X64 Nat := fun s => .ok (s.code.length, s)
/-- `self.has_avx2` -/
def has_avx2 : X64 Bool := fun s => .ok (s.has_avx2, s)

/-- `AssemblerBuffer::create_label` -/
def create_label : X64 Label := fun s =>
  .ok (⟨s.labels.length⟩, { s with labels := s.labels ++ [none] })

/-- `AssemblerBuffer::create_and_bind_label` -/
def create_and_bind_label : X64 Label := fun s =>
  if s.position < 4294967296 then
    .ok (⟨s.labels.length⟩, { s with labels := s.labels ++ [some (UInt32.ofNat s.position)] })
  else .error "try_into: out of range"

/-- `AssemblerBuffer::bind_label` (`assert!(self.labels[idx].is_none())`) -/
def bind_label (lbl : Label) : X64 Unit := fun s =>
  match s.labels[lbl.idx]? with
  | none => .error "index out of bounds"
  | some (some _) => .error "assertion failed: self.labels[idx].is_none()"
  | some none =>
    if s.position < 4294967296 then
      .ok ((), { s with labels := s.labels.set lbl.idx (some (UInt32.ofNat s.position)) })
    else .error "try_into: out of range"

/-- `AssemblerBuffer::offset` -/
def offset (lbl : Label) : X64 (Option UInt32) := fun s =>
  match s.labels[lbl.idx]? with
  | none => .error "index out of bounds"
  | some o => .ok (o, s)

/-- `self.unresolved_jumps.push(j)` -/
def push_jump (j : ForwardJump) : X64 Unit := fun s =>
  .ok ((), { s with unresolved_jumps := s.unresolved_jumps ++ [j] })

/-- `std::mem::replace(&mut self.unresolved_jumps, Vec::new())` -/
def take_jumps : X64 (List ForwardJump) := fun s =>
  .ok (s.unresolved_jumps, { s with unresolved_jumps := [] })

/-- `while c { body }` with explicit fuel (the translator names the bound); running out of fuel is an error -/
def whileFuel : Nat → X64 Bool → X64 Unit → X64 Unit
  | 0, c, _ => do if (← c) then throw "while: fuel exhausted" else pure ()
  | n + 1, c, b => do if (← c) then (do b; whileFuel n c b) else pure ()

end Buf

/-- bytes a method leaves in a fresh assembler: `AssemblerX64::new(avx); m; code` -/
def enc (avx : Bool) (m : X64 Unit) : Except String Bytes :=
  match m.run (Asm.new avx) with
  | .ok (_, s) => .ok s.code
  | .error e => .error e

end Dora.X64
