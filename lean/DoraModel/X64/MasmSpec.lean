import DoraModel.Gen.Masm
/-!
# Vocabulary of the machine-leg theorems of C01 (`DoraModel/Props/C01Masm.lean`)

Small definitions only, so that the property statements stay readable; nothing here is proved.
Core Lean only.
-/
namespace Dora.Masm.Spec
open Dora.X64.Sem Dora.Masm

/-- the integer `z` is representable as a signed (two's complement) `w`-bit number: `-2^(w-1) ≤ z < 2^(w-1)` -/
def fitsS (w : Nat) (z : Int) : Prop := -(2 : Int) ^ (w - 1) ≤ z ∧ z < (2 : Int) ^ (w - 1)

instance (w : Nat) (z : Int) : Decidable (fitsS w z) := by unfold fitsS; infer_instance

/-- `s'` differs from `s` at most in the registers listed in `cl` (and in the flags); memory is unchanged -/
def sameExcept (cl : List Reg) (s s' : State) : Prop := (∀ r, r ∉ cl → s'.get r = s.get r) ∧ s'.mem = s.mem

/-- the number the trap trampoline receives in `edi` for a trap kind (`trap as i64` of `MacroAssembler::trap`) -/
def trapNo (t : Trap) : Nat := t.toInt.toNat

/-- the relation a `CondCode` stands for, on the two compared `w`-bit values (signed ones through `toInt`: `slt`/`sle`,
    unsigned ones through `toNat`: `ult`/`ule`); `Zero`/`NonZero` are the x86 aliases of `Equal`/`NotEqual` -/
def relHolds {w : Nat} (c : CondCode) (a b : BitVec w) : Bool :=
  match c with
  | .Zero | .Equal => a == b
  | .NonZero | .NotEqual => a != b
  | .Less => a.slt b
  | .LessEq => a.sle b
  | .Greater => b.slt a
  | .GreaterEq => b.sle a
  | .UnsignedLess => a.ult b
  | .UnsignedLessEq => a.ule b
  | .UnsignedGreater => b.ult a
  | .UnsignedGreaterEq => b.ule a

/-- the outcome is neither "outside the specification" (`bad`: an undefined flag was read, an immediate the encoder
    refuses, a jump to an unbound label, ran off the end) nor a divide error `#DE` -/
def Outcome.defined : Outcome → Prop
  | .done _ => True
  | .trap _ _ => True
  | .de _ => False
  | .bad _ => False

end Dora.Masm.Spec
