import DoraModel.X64.ArrayShape0
import DoraModel.X64.ArrayShape1
import DoraModel.X64.ArrayShape2
import DoraModel.X64.ArrayShape3
/-!
# C07 — `Address::array`: from the relative per-method statement to the constructor

`leaf_array`: a method that satisfies its relative statement (`AddrLeaf` for every REX.X/REX.B and all six lengths)
decodes to its Spec entry for every address built by `Address::array` — all 16 bases, every index the constructor
accepts (all but rsp and r12), all four scales, **every** i32 displacement. `address_array_refuses`: rsp and r12 as
index are refused by the constructor (`assert_ne!`), so the method call is refused, not mis-encoded.
-/
set_option linter.unusedSimpArgs false
set_option maxRecDepth 4000
namespace Dora.X64
open Dora.X64.Dec

theorem array_shape (base index : Fin 16) (hi : index.val ≠ 4 ∧ index.val ≠ 12) (scale : Fin 4) (disp : Int32) :
    (Address.array (R base) (R index) (Sn scale.val) disp).map
      (shapeOKm (decide (8 ≤ index.val)) (decide (8 ≤ base.val))) = .ok true := by
  revert index
  refine forall_fin16 (p := fun b => ∀ index : Fin 16, (index.val ≠ 4 ∧ index.val ≠ 12) →
      (Address.array (Rn b) (R index) (Sn scale.val) disp).map (shapeOKm (decide (8 ≤ index.val)) (decide (8 ≤ b))) = .ok true)
    ?_ ?_ ?_ ?_ ?_ ?_ ?_ ?_ ?_ ?_ ?_ ?_ ?_ ?_ ?_ ?_ base
  · exact fun i hi => array_shape0 i hi scale disp
  · exact fun i hi => array_shape1 i hi scale disp
  · exact fun i hi => array_shape2 i hi scale disp
  · exact fun i hi => array_shape3 i hi scale disp
  · exact fun i hi => array_shape4 i hi scale disp
  · exact fun i hi => array_shape5 i hi scale disp
  · exact fun i hi => array_shape6 i hi scale disp
  · exact fun i hi => array_shape7 i hi scale disp
  · exact fun i hi => array_shape8 i hi scale disp
  · exact fun i hi => array_shape9 i hi scale disp
  · exact fun i hi => array_shape10 i hi scale disp
  · exact fun i hi => array_shape11 i hi scale disp
  · exact fun i hi => array_shape12 i hi scale disp
  · exact fun i hi => array_shape13 i hi scale disp
  · exact fun i hi => array_shape14 i hi scale disp
  · exact fun i hi => array_shape15 i hi scale disp

/-- every base, every index but rsp/r12, every scale, every i32 displacement of `Address::array` -/
theorem leaf_array {e : Address → Except String Dec.Bytes} {want' : AddrReq → Option (Instr × Dec.Bytes)} {g : Bool}
    (reg : Fin 8) (base index : Fin 16) (hi : index.val ≠ 4 ∧ index.val ≠ 12) (scale : Fin 4) (disp : Int32)
    (hl : ∀ (rx rb : Bool) (len : Fin 6), AddrLeaf e want' g reg.val rx rb (len.val + 1)) :
    MethodOk e want' g (Address.array (R base) (R index) (Sn scale.val) disp) (.arr (R base) (R index) (Sn scale.val) disp) :=
  leaf_array_of reg (array_shape base index hi scale disp) (by simp only [AddrReq.opnd, R_toNat, Sn_scale])
    (fun tail => address_array_decodes base index hi scale disp tail) (hl _ _)

/-- `Address::array` refuses rsp and r12 as index (`assert_ne!`): for every base, scale and displacement -/
theorem address_array_refuses (base index : Fin 16) (hi : index.val = 4 ∨ index.val = 12) (scale : Fin 4) (disp : Int32) :
    isError (Address.array (R base) (R index) (Sn scale.val) disp) = true := by
  have hidx : index = 4 ∨ index = 12 := by
    rcases hi with h | h
    · exact Or.inl (Fin.ext h)
    · exact Or.inr (Fin.ext h)
  revert scale
  refine forall_fin16 (p := fun b => ∀ scale : Fin 4, isError (Address.array (Rn b) (R index) (Sn scale.val) disp) = true)
    ?_ ?_ ?_ ?_ ?_ ?_ ?_ ?_ ?_ ?_ ?_ ?_ ?_ ?_ ?_ ?_ base
  all_goals
    intro scale
    refine forall_fin4 (p := fun s => isError (Address.array (Rn _) (R index) (Sn s) disp) = true) ?_ ?_ ?_ ?_ scale
  all_goals
    rcases hidx with h | h <;> subst h <;> addr_classes_plain Address.array disp

/-- a constructor call that is refused makes the method call refused -/
theorem methodOk_refused {e : Address → Except String Dec.Bytes} {c : Except String Address}
    (h : isError c = true) : isError (viaCtor e c) = true := by
  cases c with
  | error err => rfl
  | ok a => cases h

end Dora.X64
