import DoraModel.X64.Lemmas
import DoraModel.X64.DecO
/-!
# C07 — per-method statements for address-taking methods, relative to the ModRM interface

`AddrOkR m spec guard` says: for every destination register, both `has_avx2` values, every *shape* of `Address`
(REX.X/REX.B bits, 1–6 encoded bytes, arbitrary byte values) and every requested memory operand `req`:
if the reference decoder reads the bytes `emit_address` emits for that address — with the address's own REX bits — as
`req` (this is exactly what the `address_*_decodes` interface lemmas establish for the four constructors), then the bytes
of the whole method decode to the Spec entry with operand `req`, nothing left over; and the call is refused when the
method's `has_avx2` guard fails. The proofs split only over registers / REX bits / length; the address bytes stay symbolic.
-/
set_option linter.unusedSimpArgs false
namespace Dora.X64
open Dora.X64.Dec

/-- the `rex` field `set_modrm`/`set_sib` leave in an `Address` for given REX.X / REX.B -/
def rexByte (rx rb : Bool) : UInt8 :=
  (if rx || rb then 0x40 else 0) ||| (if rx then 2 else 0) ||| (if rb then 1 else 0)

/-- an `Address` value of a given shape: REX.X / REX.B, number of encoded bytes, the six byte slots -/
def mkAddr (rx rb : Bool) (len : Nat) (b0 b1 b2 b3 b4 b5 : UInt8) : Address :=
  ⟨rexByte rx rb, UInt8.ofNat len, [b0, b1, b2, b3, b4, b5]⟩

/-- the bytes `emit_address reg a` emits -/
def addrBytes (reg : Nat) (a : Address) : Dec.Bytes :=
  match enc false (emit_address (UInt8.ofNat reg) a) with
  | .ok bs => bs
  | .error _ => []

/-- "the decoder reads the address bytes (reg field `reg`) as the memory operand `req`, whatever follows" -/
def ReadsAs (rx rb : Bool) (reg : Nat) (a : Address) (req : AddrReq) : Prop :=
  ∀ tail, decodeModRM rx rb (addrBytes reg a ++ tail) = some (reg, .mem req.opnd, tail)

theorem via_oracle {e : Except String Dec.Bytes} {rx rb : Bool} {T : Dec.Bytes} {r : Option (Nat × RM × Dec.Bytes)}
    {X : Except String (Option (Instr × Dec.Bytes))}
    (h : decodeModRM rx rb T = r)
    (hA : e.map decode = e.map (fun bs => bodyOf bs (decodeModRM rx rb T)))
    (hB : e.map (fun bs => bodyOf bs r) = X) : e.map decode = X := by
  rw [hA, h]; exact hB

theorem forall_fin6 {p : Nat → Prop} (h0 : p 0) (h1 : p 1) (h2 : p 2) (h3 : p 3) (h4 : p 4) (h5 : p 5) (d : Fin 6) :
    p d.val :=
  match d with
  | ⟨0, _⟩ => h0 | ⟨1, _⟩ => h1 | ⟨2, _⟩ => h2 | ⟨3, _⟩ => h3 | ⟨4, _⟩ => h4 | ⟨5, _⟩ => h5
  | ⟨n + 6, h⟩ => absurd h (by omega)

/-- statement for one concrete (register, REX bits, length): used as the motive of the finite splits -/
def AddrLeaf (e : Address → Except String Dec.Bytes) (want' : AddrReq → Option (Instr × Dec.Bytes)) (g : Bool)
    (reg : Nat) (rx rb : Bool) (len : Nat) : Prop :=
  ∀ (b0 b1 b2 b3 b4 b5 : UInt8) (req : AddrReq), ReadsAs rx rb reg (mkAddr rx rb len b0 b1 b2 b3 b4 b5) req →
    (g = true → (e (mkAddr rx rb len b0 b1 b2 b3 b4 b5)).map decode = .ok (want' req)) ∧
    (g = false → isError (e (mkAddr rx rb len b0 b1 b2 b3 b4 b5)) = true)

/-- close one `AddrLeaf` goal (all parameters concrete) -/
macro "addr_leaf" : tactic => `(tactic| (
  intro b0 b1 b2 b3 b4 b5 req h
  constructor
  · first
    | (intro hg; exact absurd hg (by decide))
    | (intro _; exact via_oracle (h []) (by kernel_rfl) (by kernel_rfl))
  · first
    | (intro hg; exact absurd hg (by decide))
    | (intro _; kernel_rfl)))

/-- register operand `d`, both REX bits, all six lengths -/
macro "addr_split" : tactic => `(tactic| (
  intro rx rb len
  cases rx <;> cases rb <;>
    (refine forall_fin6 (p := fun l => AddrLeaf _ _ _ _ _ _ (l + 1)) ?_ ?_ ?_ ?_ ?_ ?_ len <;> addr_leaf)))

/-- methods `m(reg, address)` / `m(address, reg)` with a general register -/
def AddrOkR (m : Register → Address → X64 Unit) (spec : Register → AddrReq → SpecResult) (guard : Bool → Bool) : Prop :=
  ∀ (avx : Bool) (dest : Fin 16) (rx rb : Bool) (len : Fin 6),
    AddrLeaf (fun a => enc avx (m (R dest) a)) (fun req => want (spec (R dest) req)) (guard avx) (dest.val % 8) rx rb (len.val + 1)

/-- the same with an XMM register -/
def AddrOkX (m : XmmRegister → Address → X64 Unit) (spec : XmmRegister → AddrReq → SpecResult) (guard : Bool → Bool) : Prop :=
  ∀ (avx : Bool) (dest : Fin 16) (rx rb : Bool) (len : Fin 6),
    AddrLeaf (fun a => enc avx (m (X dest) a)) (fun req => want (spec (X dest) req)) (guard avx) (dest.val % 8) rx rb (len.val + 1)

end Dora.X64
