/-!
# x86-64 micro-semantics of the instructions the baseline arithmetic helpers emit (C01, machine leg)

Hand-written specification, imports nothing, executable.  It is *validated*, not derived: `checks/c01_masm.py`
assembles the same instruction lists with the real `dora-asm` encoder, executes them natively on the host CPU
(`harness/crates/c01m`) and compares registers, flags and exit with `run` below (`drv_c01m`).

Reading of the Intel SDM (vol. 1 §3.4.3, vol. 2 per instruction):

* sixteen 64-bit general registers; a 32-bit destination write zero-extends into the upper half, an 8-bit write
  (`setcc`) keeps bits 8..63;
* flags CF, ZF, SF, OF, PF (AF is not modelled: nothing here reads it).  A flag the SDM leaves *undefined* is `none`;
  reading an undefined flag (`jcc`, `setcc`, `cmovcc`) is the outcome `bad`, never a guess;
* `add/sub/cmp/neg`: CF = unsigned carry/borrow, OF = signed overflow (core `BitVec.uaddOverflow`, `saddOverflow`,
  `usubOverflow`, `ssubOverflow`, `negOverflow` are exactly these predicates on the integer readings);
  `and/or/xor/test`: CF = OF = 0;  `imul r, r`: CF = OF = "the exact signed product does not fit", SF/ZF/PF undefined;
  `not`, `mov*`, `lea`, `cdq/cqo`, `setcc`, `cmovcc`, `jcc`, `jmp` leave the flags alone;
* shifts mask the count to 5 (32-bit operand) or 6 bits; masked count 0 changes no flag (a 32-bit destination is still
  rewritten, i.e. zero-extended); otherwise CF = last bit shifted out, SF/ZF/PF from the result, OF defined only for
  count 1 (`shl`: msb(result) ⊕ CF, `shr`: msb(operand), `sar`: 0);
* `idiv`: dividend `rdx:rax` (`edx:eax`), truncating division; `#DE` when the divisor is 0 or the quotient does not fit;
  all flags undefined afterwards;
* immediates of the `*_ri` forms other than `movq_ri` are 32-bit sign-extended ones: a value outside Int32 is `bad`
  (the encoder asserts);
* memory: only 8-byte loads (`movq_ra`) occur; `mem a` is the quad word at address `a`.

Pseudo-instructions: `bind l` (a label position), `call_trap` (the call of the runtime's trap trampoline with the
trap number in `edi`: ends the run with `trap`), `done` (end of the sequence under test).
-/
namespace Dora.X64.Sem

abbrev Reg := Fin 16

def rax : Reg := 0
def rcx : Reg := 1
def rdx : Reg := 2
def rdi : Reg := 7

/-- condition codes by their hardware number 0..15 (SDM vol. 1 app. B) -/
inductive Cond
  | o | no | b | ae | e | ne | be | a | s | ns | p | np | l | ge | le | g
  deriving DecidableEq, Repr, Inhabited

def Cond.code : Cond → Nat
  | .o => 0 | .no => 1 | .b => 2 | .ae => 3 | .e => 4 | .ne => 5 | .be => 6 | .a => 7
  | .s => 8 | .ns => 9 | .p => 10 | .np => 11 | .l => 12 | .ge => 13 | .le => 14 | .g => 15

def Cond.ofCode : Nat → Cond
  | 0 => .o | 1 => .no | 2 => .b | 3 => .ae | 4 => .e | 5 => .ne | 6 => .be | 7 => .a
  | 8 => .s | 9 => .ns | 10 => .p | 11 => .np | 12 => .l | 13 => .ge | 14 => .le | _ => .g

/-- `none` = undefined -/
structure Flags where
  cf : Option Bool := none
  zf : Option Bool := none
  sf : Option Bool := none
  of : Option Bool := none
  pf : Option Bool := none
  deriving DecidableEq, Repr, Inhabited

structure State where
  regs : Reg → BitVec 64
  fl : Flags := {}
  /-- the quad word stored at an address -/
  mem : BitVec 64 → BitVec 64 := fun _ => 0

def State.get (s : State) (r : Reg) : BitVec 64 := s.regs r
def State.set (s : State) (r : Reg) (v : BitVec 64) : State :=
  { s with regs := fun x => if x = r then v else s.regs x }
def State.setFl (s : State) (f : Flags) : State := { s with fl := f }

def lo32 (v : BitVec 64) : BitVec 32 := v.setWidth 32
def lo8 (v : BitVec 64) : BitVec 8 := v.setWidth 8
/-- 32-bit destination write: zero-extends -/
def State.set32 (s : State) (r : Reg) (v : BitVec 32) : State := s.set r (v.setWidth 64)
/-- 8-bit destination write: bits 8..63 are kept -/
def State.set8 (s : State) (r : Reg) (v : BitVec 8) : State :=
  s.set r ((s.get r &&& 0xFFFFFFFFFFFFFF00#64) ||| v.setWidth 64)

structure Label where
  idx : Nat
  deriving DecidableEq, Repr, Inhabited

/-- memory operand `[base + index*scale + disp]` -/
structure Addr where
  base : Option Reg := none
  index : Option (Reg × Nat) := none
  disp : Int := 0
  deriving DecidableEq, Repr, Inhabited

/-- the instructions; constructor names are the `AssemblerX64` method names, operands in the same order -/
inductive Instr
  | addq_rr (a b : Reg) | addl_rr (a b : Reg) | addq_ri (a : Reg) (i : Int) | addl_ri (a : Reg) (i : Int)
  | subq_rr (a b : Reg) | subl_rr (a b : Reg) | subq_ri (a : Reg) (i : Int)
  | imulq_rr (a b : Reg) | imull_rr (a b : Reg)
  | negq (a : Reg) | negl (a : Reg) | notq (a : Reg) | notl (a : Reg)
  | andq_rr (a b : Reg) | andl_rr (a b : Reg) | andq_ri (a : Reg) (i : Int)
  | orq_rr (a b : Reg) | orl_rr (a b : Reg)
  | xorq_rr (a b : Reg) | xorl_rr (a b : Reg) | xorl_ri (a : Reg) (i : Int)
  | cmpq_rr (a b : Reg) | cmpl_rr (a b : Reg) | cmpb_rr (a b : Reg) | cmpq_ri (a : Reg) (i : Int) | cmpl_ri (a : Reg) (i : Int)
  | testq_rr (a b : Reg) | testl_rr (a b : Reg) | testb_rr (a b : Reg)
  | movq_rr (a b : Reg) | movl_rr (a b : Reg) | movq_ri (a : Reg) (i : Int) | movl_ri (a : Reg) (i : Int)
  | movsxlq_rr (a b : Reg) | movzxb_rr (a b : Reg)
  | movq_ra (a : Reg) (m : Addr) | lea (a : Reg) (m : Addr)
  | cdq | cqo | idivq_r (a : Reg) | idivl_r (a : Reg)
  | shlq_r (a : Reg) | shll_r (a : Reg) | shrq_r (a : Reg) | shrl_r (a : Reg) | sarq_r (a : Reg) | sarl_r (a : Reg)
  | shlq_ri (a : Reg) (i : Int) | shll_ri (a : Reg) (i : Int) | shrq_ri (a : Reg) (i : Int) | shrl_ri (a : Reg) (i : Int)
  | sarq_ri (a : Reg) (i : Int) | sarl_ri (a : Reg) (i : Int)
  | setcc_r (c : Cond) (a : Reg) | cmovl (c : Cond) (a b : Reg) | cmovq (c : Cond) (a b : Reg)
  | jcc (c : Cond) (l : Label) | jmp (l : Label) | bind (l : Label)
  | nop | call_trap | done
  deriving DecidableEq, Repr, Inhabited

/-! ## flags -/

/-- PF: set when the low byte of the result has an even number of 1 bits -/
def parity {n : Nat} (r : BitVec n) : Bool :=
  !(r.getLsbD 0 ^^ r.getLsbD 1 ^^ r.getLsbD 2 ^^ r.getLsbD 3 ^^ r.getLsbD 4 ^^ r.getLsbD 5 ^^ r.getLsbD 6 ^^ r.getLsbD 7)

/-- ZF/SF/PF from the result, CF/OF as given -/
def szp {n : Nat} (r : BitVec n) (cf of : Option Bool) : Flags :=
  { cf := cf, of := of, zf := some (r == 0), sf := some r.msb, pf := some (parity r) }

def addOp {n : Nat} (a b : BitVec n) : BitVec n × Flags :=
  (a + b, szp (a + b) (some (BitVec.uaddOverflow a b)) (some (BitVec.saddOverflow a b)))

def subOp {n : Nat} (a b : BitVec n) : BitVec n × Flags :=
  (a - b, szp (a - b) (some (BitVec.usubOverflow a b)) (some (BitVec.ssubOverflow a b)))

def negOp {n : Nat} (a : BitVec n) : BitVec n × Flags :=
  (-a, szp (-a) (some (a != 0)) (some (BitVec.negOverflow a)))

def imulOp {n : Nat} (a b : BitVec n) : BitVec n × Flags :=
  (a * b, { cf := some (BitVec.smulOverflow a b), of := some (BitVec.smulOverflow a b) })

def logicOp {n : Nat} (r : BitVec n) : BitVec n × Flags := (r, szp r (some false) (some false))

/-- `shl` by an already masked count -/
def shlOp {n : Nat} (a : BitVec n) (c : Nat) (old : Flags) : BitVec n × Flags :=
  if c = 0 then (a, old) else
    let r := a <<< c
    let cf := a.getLsbD (n - c)
    (r, szp r (some cf) (if c = 1 then some (r.msb != cf) else none))

def shrOp {n : Nat} (a : BitVec n) (c : Nat) (old : Flags) : BitVec n × Flags :=
  if c = 0 then (a, old) else
    let r := a >>> c
    (r, szp r (some (a.getLsbD (c - 1))) (if c = 1 then some a.msb else none))

def sarOp {n : Nat} (a : BitVec n) (c : Nat) (old : Flags) : BitVec n × Flags :=
  if c = 0 then (a, old) else
    let r := a.sshiftRight c
    (r, szp r (some (a.getLsbD (c - 1))) (if c = 1 then some false else none))

/-- `rdx:rax / d`: `none` is `#DE` -/
def idivOp {n : Nat} (hi lo d : BitVec n) : Option (BitVec n × BitVec n) :=
  let dividend : Int := (hi ++ lo).toInt
  let dv : Int := d.toInt
  if dv = 0 then none else
    let q := Int.tdiv dividend dv
    let r := Int.tmod dividend dv
    if q < -(2 : Int) ^ (n - 1) ∨ (2 : Int) ^ (n - 1) ≤ q then none
    else some (BitVec.ofInt n q, BitVec.ofInt n r)

/-- all bits equal to the sign bit (what `cdq`/`cqo` put into `edx`/`rdx`) -/
def signFill {n : Nat} (a : BitVec n) : BitVec n := if a.msb then BitVec.allOnes n else 0

def Cond.eval (c : Cond) (f : Flags) : Option Bool :=
  match c with
  | .o => f.of
  | .no => f.of.map not
  | .b => f.cf
  | .ae => f.cf.map not
  | .e => f.zf
  | .ne => f.zf.map not
  | .be => do let c ← f.cf; let z ← f.zf; pure (c || z)
  | .a => do let c ← f.cf; let z ← f.zf; pure (!(c || z))
  | .s => f.sf
  | .ns => f.sf.map not
  | .p => f.pf
  | .np => f.pf.map not
  | .l => do let s ← f.sf; let o ← f.of; pure (s != o)
  | .ge => do let s ← f.sf; let o ← f.of; pure (s == o)
  | .le => do let z ← f.zf; let s ← f.sf; let o ← f.of; pure (z || (s != o))
  | .g => do let z ← f.zf; let s ← f.sf; let o ← f.of; pure (!(z || (s != o)))

/-! ## one instruction -/

inductive StepR
  | next (s : State)
  | jump (l : Label) (s : State)
  /-- `call_trap`: the trap number is the low half of `rdi` -/
  | trap (s : State)
  /-- `#DE` raised by `idiv`; the state is the one before the instruction -/
  | de (s : State)
  | done (s : State)
  /-- outside the specification: undefined flag read, immediate the encoder refuses, … -/
  | bad (why : String)

/- the upper bound comes first and as `≤`: for a symbolic non-negative `i` (a `Nat` cast) the evaluation of the first test is then
   stuck at once; `i < 2^63` would make the kernel unfold `Nat.sub (i+1) 2^63` in unary when it re-checks a definitional step -/
def fitsI32 (i : Int) : Bool := decide (i ≤ 2147483647) && decide (-2147483648 ≤ i)
def fitsI64 (i : Int) : Bool := decide (i ≤ 9223372036854775807) && decide (-9223372036854775808 ≤ i)

def effAddr (s : State) (m : Addr) : BitVec 64 :=
  (match m.base with | some b => s.get b | none => 0)
  + (match m.index with | some (i, k) => s.get i * BitVec.ofNat 64 k | none => 0)
  + BitVec.ofInt 64 m.disp

def bin64 (f : BitVec 64 → BitVec 64 → BitVec 64 × Flags) (s : State) (a : Reg) (y : BitVec 64) : StepR :=
  let r := f (s.get a) y
  .next ((s.set a r.1).setFl r.2)

def bin32 (f : BitVec 32 → BitVec 32 → BitVec 32 × Flags) (s : State) (a : Reg) (y : BitVec 32) : StepR :=
  let r := f (lo32 (s.get a)) y
  .next ((s.set32 a r.1).setFl r.2)

/-- compare-like: flags only -/
def flg {n : Nat} (r : BitVec n × Flags) (s : State) : StepR := .next (s.setFl r.2)

def imm32 (i : Int) (k : Unit → StepR) : StepR := if fitsI32 i then k () else .bad "immediate does not fit 32 bits"
def imm8 (i : Int) (k : Unit → StepR) : StepR := if decide (0 ≤ i) && decide (i < 256) then k () else .bad "shift count is not a byte"

def sh64 (f : BitVec 64 → Nat → Flags → BitVec 64 × Flags) (s : State) (a : Reg) (count : Nat) : StepR :=
  let r := f (s.get a) (count % 64) s.fl
  .next ((s.set a r.1).setFl r.2)

def sh32 (f : BitVec 32 → Nat → Flags → BitVec 32 × Flags) (s : State) (a : Reg) (count : Nat) : StepR :=
  let r := f (lo32 (s.get a)) (count % 32) s.fl
  .next ((s.set32 a r.1).setFl r.2)

/-- the count register `cl` -/
def clOf (s : State) : Nat := (lo8 (s.get rcx)).toNat

def onCond (c : Cond) (s : State) (k : Bool → StepR) : StepR :=
  match c.eval s.fl with
  | some b => k b
  | none => .bad "undefined flag read"

def step (s : State) : Instr → StepR
  | .addq_rr a b => bin64 addOp s a (s.get b)
  | .addl_rr a b => bin32 addOp s a (lo32 (s.get b))
  | .addq_ri a i => imm32 i fun _ => bin64 addOp s a (BitVec.ofInt 64 i)
  | .addl_ri a i => imm32 i fun _ => bin32 addOp s a (BitVec.ofInt 32 i)
  | .subq_rr a b => bin64 subOp s a (s.get b)
  | .subl_rr a b => bin32 subOp s a (lo32 (s.get b))
  | .subq_ri a i => imm32 i fun _ => bin64 subOp s a (BitVec.ofInt 64 i)
  | .imulq_rr a b => bin64 imulOp s a (s.get b)
  | .imull_rr a b => bin32 imulOp s a (lo32 (s.get b))
  | .negq a => bin64 (fun x _ => negOp x) s a 0
  | .negl a => bin32 (fun x _ => negOp x) s a 0
  | .notq a => .next (s.set a (~~~ s.get a))
  | .notl a => .next (s.set32 a (~~~ lo32 (s.get a)))
  | .andq_rr a b => bin64 (fun x y => logicOp (x &&& y)) s a (s.get b)
  | .andl_rr a b => bin32 (fun x y => logicOp (x &&& y)) s a (lo32 (s.get b))
  | .andq_ri a i => imm32 i fun _ => bin64 (fun x y => logicOp (x &&& y)) s a (BitVec.ofInt 64 i)
  | .orq_rr a b => bin64 (fun x y => logicOp (x ||| y)) s a (s.get b)
  | .orl_rr a b => bin32 (fun x y => logicOp (x ||| y)) s a (lo32 (s.get b))
  | .xorq_rr a b => bin64 (fun x y => logicOp (x ^^^ y)) s a (s.get b)
  | .xorl_rr a b => bin32 (fun x y => logicOp (x ^^^ y)) s a (lo32 (s.get b))
  | .xorl_ri a i => imm32 i fun _ => bin32 (fun x y => logicOp (x ^^^ y)) s a (BitVec.ofInt 32 i)
  | .cmpq_rr a b => flg (subOp (s.get a) (s.get b)) s
  | .cmpl_rr a b => flg (subOp (lo32 (s.get a)) (lo32 (s.get b))) s
  | .cmpb_rr a b => flg (subOp (lo8 (s.get a)) (lo8 (s.get b))) s
  | .cmpq_ri a i => imm32 i fun _ => flg (subOp (s.get a) (BitVec.ofInt 64 i)) s
  | .cmpl_ri a i => imm32 i fun _ => flg (subOp (lo32 (s.get a)) (BitVec.ofInt 32 i)) s
  | .testq_rr a b => flg (logicOp (s.get a &&& s.get b)) s
  | .testl_rr a b => flg (logicOp (lo32 (s.get a) &&& lo32 (s.get b))) s
  | .testb_rr a b => flg (logicOp (lo8 (s.get a) &&& lo8 (s.get b))) s
  | .movq_rr a b => .next (s.set a (s.get b))
  | .movl_rr a b => .next (s.set32 a (lo32 (s.get b)))
  | .movq_ri a i =>
    if fitsI64 i then .next (s.set a (BitVec.ofInt 64 i))
    else .bad "immediate does not fit 64 bits"
  | .movl_ri a i => imm32 i fun _ => .next (s.set32 a (BitVec.ofInt 32 i))
  | .movsxlq_rr a b => .next (s.set a ((lo32 (s.get b)).signExtend 64))
  | .movzxb_rr a b => .next (s.set a ((lo8 (s.get b)).setWidth 64))
  | .movq_ra a m => .next (s.set a (s.mem (effAddr s m)))
  | .lea a m => .next (s.set a (effAddr s m))
  | .cdq => .next (s.set32 rdx (signFill (lo32 (s.get rax))))
  | .cqo => .next (s.set rdx (signFill (s.get rax)))
  | .idivq_r a =>
    match idivOp (s.get rdx) (s.get rax) (s.get a) with
    | none => .de s
    | some (q, r) => .next (((s.set rax q).set rdx r).setFl {})
  | .idivl_r a =>
    match idivOp (lo32 (s.get rdx)) (lo32 (s.get rax)) (lo32 (s.get a)) with
    | none => .de s
    | some (q, r) => .next (((s.set32 rax q).set32 rdx r).setFl {})
  | .shlq_r a => sh64 shlOp s a (clOf s)
  | .shll_r a => sh32 shlOp s a (clOf s)
  | .shrq_r a => sh64 shrOp s a (clOf s)
  | .shrl_r a => sh32 shrOp s a (clOf s)
  | .sarq_r a => sh64 sarOp s a (clOf s)
  | .sarl_r a => sh32 sarOp s a (clOf s)
  | .shlq_ri a i => imm8 i fun _ => sh64 shlOp s a i.toNat
  | .shll_ri a i => imm8 i fun _ => sh32 shlOp s a i.toNat
  | .shrq_ri a i => imm8 i fun _ => sh64 shrOp s a i.toNat
  | .shrl_ri a i => imm8 i fun _ => sh32 shrOp s a i.toNat
  | .sarq_ri a i => imm8 i fun _ => sh64 sarOp s a i.toNat
  | .sarl_ri a i => imm8 i fun _ => sh32 sarOp s a i.toNat
  | .setcc_r c a => onCond c s fun b => .next (s.set8 a (if b then 1 else 0))
  | .cmovl c a b => onCond c s fun t => .next (s.set32 a (lo32 (if t then s.get b else s.get a)))
  | .cmovq c a b => onCond c s fun t => .next (if t then s.set a (s.get b) else s)
  | .jcc c l => onCond c s fun t => if t then .jump l s else .next s
  | .jmp l => .jump l s
  | .bind _ => .next s
  | .nop => .next s
  | .call_trap => .trap s
  | .done => .done s

/-! ## a list of instructions with labels -/

inductive Outcome
  /-- reached `done` -/
  | done (s : State)
  /-- reached `call_trap` with this trap number in `edi` -/
  | trap (n : Nat) (s : State)
  /-- `#DE` -/
  | de (s : State)
  | bad (why : String)

/-- position of `bind l` -/
def findLabel (prog : List Instr) (l : Label) : Option Nat :=
  match prog.findIdx? (· == .bind l) with
  | some i => some i
  | none => none

def run (prog : List Instr) : Nat → Nat → State → Outcome
  | 0, _, _ => .bad "out of fuel"
  | fuel + 1, pc, s =>
    match prog[pc]? with
    | none => .bad "ran past the end"
    | some i =>
      match step s i with
      | .next s' => run prog fuel (pc + 1) s'
      | .jump l s' =>
        match findLabel prog l with
        | some p => run prog fuel p s'
        | none => .bad "unbound label"
      | .trap s' => .trap (lo32 (s'.get rdi)).toNat s'
      | .de s' => .de s'
      | .done s' => .done s'
      | .bad w => .bad w

/-- run from the first instruction; every instruction is executed at most once plus jumps, `2·length + 2` is ample for
    the forward-only jumps of the helpers -/
def exec (prog : List Instr) (s : State) : Outcome := run prog (2 * prog.length + 2) 0 s

end Dora.X64.Sem
