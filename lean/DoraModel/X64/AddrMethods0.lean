import DoraModel.X64.Lemmas
/-! C07 — a representative address-taking method, proved for every register, every base and **every** i32 displacement
of `Address::offset` (piece of Props/C07.lean; the other address-taking methods are compared by the sweep only). -/
set_option linter.unusedSimpArgs false
set_option maxRecDepth 4000
namespace Dora.X64
open Dora.X64 Dora.X64.Dec

set_option maxHeartbeats 4000000 in
theorem movq_ra_offset_all (avx : Bool) (reg base : Fin 16) (disp : Int32) :
    viaOffset avx (fun a => movq_ra (R reg) a) (R base) disp = .ok (want (Spec.movq_ra (R reg) (.off (R base) disp))) := by
  revert avx base
  refine forall_fin16 (p := fun d => ∀ (avx : Bool) (base : Fin 16),
      viaOffset avx (fun a => movq_ra (Rn d) a) (R base) disp = .ok (want (Spec.movq_ra (Rn d) (.off (R base) disp))))
    ?_ ?_ ?_ ?_ ?_ ?_ ?_ ?_ ?_ ?_ ?_ ?_ ?_ ?_ ?_ ?_ reg
  all_goals
    intro avx base
    revert avx
    refine forall_fin16 (p := fun b => ∀ (avx : Bool),
      viaOffset avx (fun a => movq_ra (Rn _) a) (Rn b) disp = .ok (want (Spec.movq_ra (Rn _) (.off (Rn b) disp))))
      ?_ ?_ ?_ ?_ ?_ ?_ ?_ ?_ ?_ ?_ ?_ ?_ ?_ ?_ ?_ ?_ base
  all_goals
    intro avx
    change viaOffset _ _ _ _ = .ok (some ({ mnem := .mov, sz := some .q, ops := [.reg .q _, Opnd.mem (some _) none disp.toInt] }, []))
    unfold viaOffset
    cases avx
    all_goals addr_classes Address.offset disp

end Dora.X64
