import DoraModel.X64.Lemmas
/-! C07 — a representative address-taking method, proved for every register, every base and **every** i32 displacement
of `Address::offset` (piece of Props/C07.lean; the other address-taking methods are compared by the sweep only). -/
set_option linter.unusedSimpArgs false
set_option maxRecDepth 4000
namespace Dora.X64
open Dora.X64 Dora.X64.Dec

set_option maxHeartbeats 4000000 in
theorem movq_ar_offset_all (avx : Bool) (reg base : Fin 16) (disp : Int32) :
    viaOffset avx (fun a => movq_ar a (R reg)) (R base) disp = .ok (want (Spec.movq_ar (.off (R base) disp) (R reg))) := by
  revert avx base
  refine forall_fin16 (p := fun d => ∀ (avx : Bool) (base : Fin 16),
      viaOffset avx (fun a => movq_ar a (Rn d)) (R base) disp = .ok (want (Spec.movq_ar (.off (R base) disp) (Rn d))))
    ?_ ?_ ?_ ?_ ?_ ?_ ?_ ?_ ?_ ?_ ?_ ?_ ?_ ?_ ?_ ?_ reg
  all_goals
    intro avx base
    revert avx
    refine forall_fin16 (p := fun b => ∀ (avx : Bool),
      viaOffset avx (fun a => movq_ar a (Rn _)) (Rn b) disp = .ok (want (Spec.movq_ar (.off (Rn b) disp) (Rn _))))
      ?_ ?_ ?_ ?_ ?_ ?_ ?_ ?_ ?_ ?_ ?_ ?_ ?_ ?_ ?_ ?_ base
  all_goals
    intro avx
    change viaOffset _ _ _ _ = .ok (some ({ mnem := .mov, sz := some .q, ops := [Opnd.mem (some _) none disp.toInt, .reg .q _] }, []))
    unfold viaOffset
    cases avx
    all_goals addr_classes Address.offset disp

end Dora.X64
