import DoraModel.X64.Dec
/-!
# C07 — AT&T-style text of a decoded instruction (driver only; used to compare the reference decoder with llvm-mc)

Not part of any theorem. The check normalises both this text and llvm-mc's through the same Python parser, so only the
information content matters: mnemonic + size suffix, operands in AT&T order, immediates decimal, memory operands always
written `disp(%base,%index,scale)` (empty parts omitted). A trailing `#<bits>` gives the width modulo which immediates
are to be compared (llvm prints 32-bit immediates unsigned).
-/
set_option linter.constructorNameAsVariable false
namespace Dora.X64.Dec

def r64Names : List String := ["rax", "rcx", "rdx", "rbx", "rsp", "rbp", "rsi", "rdi"]
def r32Names : List String := ["eax", "ecx", "edx", "ebx", "esp", "ebp", "esi", "edi"]
def r16Names : List String := ["ax", "cx", "dx", "bx", "sp", "bp", "si", "di"]
def r8Names : List String := ["al", "cl", "dl", "bl", "spl", "bpl", "sil", "dil"]
def r8hNames : List String := ["?", "?", "?", "?", "ah", "ch", "dh", "bh"]

def regName (w : W) (n : Nat) : String :=
  if n < 8 then
    match w with
    | .q => r64Names.getD n "?" | .l => r32Names.getD n "?" | .w => r16Names.getD n "?" | .b => r8Names.getD n "?"
  else
    "r" ++ toString n ++ (match w with | .q => "" | .l => "d" | .w => "w" | .b => "b")

def suffix : W → String
  | .b => "b" | .w => "w" | .l => "l" | .q => "q"

def ccName (n : Nat) : String :=
  ["o", "no", "b", "ae", "e", "ne", "be", "a", "s", "ns", "p", "np", "l", "ge", "le", "g"].getD n "?"

def Opnd.att (indirect : Bool) : Opnd → String
  | .reg w n => (if indirect then "*%" else "%") ++ regName w n
  | .regHi n => "%" ++ r8hNames.getD n "?"
  | .xmm n => "%xmm" ++ toString n
  | .mem b i d =>
    (if indirect then "*" else "") ++ toString d ++ "(" ++
      (match b with | some b => "%" ++ regName .q b | none => "") ++
      (match i with | some (i, s) => ",%" ++ regName .q i ++ "," ++ toString s | none => "") ++ ")"
  | .ripRel d => toString d ++ "(%rip)"
  | .imm v => "$" ++ toString v
  | .rel d => toString d

def widthOf : Opnd → Option W
  | .reg w _ => some w
  | .regHi _ => some .b
  | _ => none

def Mnem.base (m : Mnem) : String :=
  let s := (reprStr m)
  -- "Dora.X64.Dec.Mnem.add" → "add"
  (s.splitOn ".").getLast!

def Instr.mnemText (i : Instr) : String :=
  let sfx := match i.sz with | some w => suffix w | none => ""
  let cc := ccName (i.cc.getD 16)
  match i.mnem with
  | .movabs => "movabsq"
  | .movsx => "movs" ++ (match i.ops with | [_, s] => (match widthOf s with | some w => suffix w | none => "b") | _ => "?") ++ sfx
  | .movzx => "movz" ++ (match i.ops with | [_, s] => (match widthOf s with | some w => suffix w | none => "b") | _ => "?") ++ sfx
  | .movsxd => "movslq"
  | .jcc => "j" ++ cc
  | .setcc => "set" ++ cc
  | .cmovcc => "cmov" ++ cc ++ sfx
  | .ret => "retq"
  | .cdq => "cltd"
  | .cqo => "cqto"
  | .call => "callq"
  | .jmp => (match i.ops with | [.rel _] => "jmp" | _ => "jmpq")
  | .nop | .int3 | .mfence => i.mnem.base
  | .cvtsi2ss | .cvtsi2sd | .cvttss2si | .cvttsd2si | .movd | .movq =>
    (if i.vex then "v" else "") ++ i.mnem.base
  | m =>
    if i.vex then "v" ++ m.base
    else m.base ++ sfx

/-- `mnemonic op, op … #bits` in AT&T operand order -/
def Instr.att (i : Instr) : String :=
  let indirect := (i.mnem == .call || i.mnem == .jmp) && (match i.ops with | [.rel _] => false | _ => true)
  let ops := i.ops.reverse.map (Opnd.att indirect)
  let bits := match i.sz with | some w => w.bits | none => 64
  (if i.lock then "lock " else "") ++ i.mnemText ++ (if ops.isEmpty then "" else " " ++ ", ".intercalate ops)
    ++ " #" ++ toString bits

end Dora.X64.Dec
