import DoraModel.X64.Spec
/-!
# C07 — the executable form of the per-method statement

`okOrRefused r guard spec = true` says: if the method's guard (its `assert!`s on the operands / `has_avx2`) holds,
the call succeeded and the emitted bytes decode — under the reference decoder — to exactly the requested instruction
with nothing left over; if the guard does not hold the call was refused (an error), not mis-encoded.
-/
namespace Dora.X64
open Dora.X64.Dec

/-- register operands of the theorems: all 16 general / XMM registers -/
def Rn (n : Nat) : Register := ⟨UInt8.ofNat n⟩
def Xn (n : Nat) : XmmRegister := ⟨UInt8.ofNat n⟩
def R (n : Fin 16) : Register := Rn n.val
def X (n : Fin 16) : XmmRegister := Xn n.val
/-- condition operands: every variant of `Condition`, by declaration index -/
def Cn (n : Nat) : Condition := Condition.all.getD n .Overflow
def C (n : Fin 28) : Condition := Cn n.val

/-! Finite quantifiers as folds over literal lists (the kernel evaluates these much faster than the `Fin` instances). -/
def bools : List Bool := [false, true]
def regs : List Nat := [0, 1, 2, 3, 4, 5, 6, 7, 8, 9, 10, 11, 12, 13, 14, 15]
def conds : List Nat := [0, 1, 2, 3, 4, 5, 6, 7, 8, 9, 10, 11, 12, 13, 14, 15, 16, 17, 18, 19, 20, 21, 22, 23, 24, 25, 26, 27]

theorem inBool {p : Bool → Bool} (h : bools.all p = true) (a : Bool) : p a = true := by
  simp only [bools, List.all_cons, List.all_nil, Bool.and_true, Bool.and_eq_true] at h
  cases a
  · exact h.1
  · exact h.2

theorem in16 {p : Nat → Bool} (h : regs.all p = true) (d : Fin 16) : p d.val = true := by
  rw [List.all_eq_true] at h
  apply h
  have := d.isLt
  simp only [regs, List.mem_cons, List.mem_nil_iff, or_false]
  omega

theorem in28 {p : Nat → Bool} (h : conds.all p = true) (d : Fin 28) : p d.val = true := by
  rw [List.all_eq_true] at h
  apply h
  have := d.isLt
  simp only [conds, List.mem_cons, List.mem_nil_iff, or_false]
  omega

def decodesTo (bs : Bytes) (i : Instr) : Bool := decode bs == some (i, [])

def okOrRefused (r : Except String Bytes) (guard : Bool) (spec : SpecResult) : Bool :=
  match r, spec with
  | .ok bs, .plain i => guard && decodesTo bs i
  | .error _, _ => !guard
  | _, _ => false

theorem okOrRefused_ok {r guard i} (h : okOrRefused r guard (.plain i) = true) (hg : guard = true) :
    ∃ bs, r = .ok bs ∧ decode bs = some (i, []) := by
  cases r with
  | error e => simp [okOrRefused, hg] at h
  | ok bs =>
    refine ⟨bs, rfl, ?_⟩
    simp only [okOrRefused, decodesTo, hg, Bool.true_and] at h
    exact eq_of_beq h

theorem okOrRefused_refused {r guard s} (h : okOrRefused r guard s = true) (hg : guard = false) :
    ∃ e, r = .error e := by
  cases r with
  | error e => exact ⟨e, rfl⟩
  | ok bs => cases s <;> simp [okOrRefused, hg] at h

end Dora.X64
