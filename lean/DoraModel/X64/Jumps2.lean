import DoraModel.X64.Jumps
/-!
# C07 — label resolution in general, part 2: displacement arithmetic, the decoder on the four jump encodings with a
symbolic displacement field, and `overwrite` / `Buf.emitBytes` in the middle of the buffer.
-/
namespace Dora.X64
open Dora.X64.Dec

/-! ## displacement fields -/

/-- the byte `distance as u8` of a backward rel8 jump reads back as `distance` -/
theorem sx8_ofInt (x : Int) (h1 : -128 ≤ x) (h2 : x < 128) : sx8 (UInt8.ofInt x) = x := by
  unfold sx8 UInt8.ofInt
  rw [UInt8.toNat_ofNat']
  simp only [Nat.reducePow]
  omega

/-- the `u32` `distance as u32` of a backward rel32 jump reads back as `distance` -/
theorem sxN32_ofInt (x : Int) (h1 : -2147483648 ≤ x) (h2 : x < 2147483648) : sxN 32 (UInt32.ofInt x).toNat = x := by
  unfold sxN UInt32.ofInt
  rw [UInt32.toNat_ofNat']
  simp only [Nat.reducePow, Nat.add_one_sub_one]
  omega

theorem toInt_toInt32 (q : UInt32) : q.toInt32.toInt = (q.toNat : Int).bmod (2 ^ 32) := by
  rw [← Int32.toInt_toBitVec, BitVec.toInt_eq_toNat_bmod]
  rfl

/-- `(lbl_offset as i32) - ((jump.offset as i32) + k)` is the exact integer difference below 2^31 -/
theorem patch_distance (q off : UInt32) (k : Int32) (hk : 0 ≤ k.toInt) (hq : q.toNat < 2147483648)
    (ho : (off.toNat : Int) + k.toInt < 2147483648) :
    (q.toInt32 - (off.toInt32 + k)).toInt = (q.toNat : Int) - ((off.toNat : Int) + k.toInt) := by
  rw [Int32.toInt_sub, Int32.toInt_add, toInt_toInt32, toInt_toInt32]
  simp only [Int.bmod, Nat.reducePow]
  have := q.toNat_lt
  have := off.toNat_lt
  split <;> split <;> split <;> omega

/-! ## the reference decoder on the jump encodings, displacement bytes symbolic -/

theorem decode_jmp8 (b : UInt8) (rest : Bytes) :
    decode (0xEB :: b :: rest) = some ({ mnem := .jmp, ops := [.rel (sx8 b)] }, rest) := by kernel_rfl

theorem decode_jmp32 (b0 b1 b2 b3 : UInt8) (rest : Bytes) :
    decode (0xE9 :: b0 :: b1 :: b2 :: b3 :: rest)
      = some ({ mnem := .jmp, ops := [.rel (sxN 32 (le32u b0 b1 b2 b3))] }, rest) := by kernel_rfl

theorem decode_jcc8 (c : Condition) (b : UInt8) (rest : Bytes) :
    decode ((0x70 + c.int) :: b :: rest) = some ({ mnem := .jcc, cc := some (ccOf c), ops := [.rel (sx8 b)] }, rest) := by
  cases c <;> kernel_rfl

theorem decode_jcc32 (c : Condition) (b0 b1 b2 b3 : UInt8) (rest : Bytes) :
    decode (0x0F :: (0x80 + c.int) :: b0 :: b1 :: b2 :: b3 :: rest)
      = some ({ mnem := .jcc, cc := some (ccOf c), ops := [.rel (sxN 32 (le32u b0 b1 b2 b3))] }, rest) := by
  cases c <;> kernel_rfl

/-! ## writing in the middle of the buffer -/

theorem overwrite_here (old new post : Bytes) (h : old.length = new.length) :
    overwrite (old ++ post) 0 new = some (new ++ post) := by
  induction new generalizing old with
  | nil =>
    cases old with
    | nil => cases post <;> rfl
    | cons a as => simp at h
  | cons b bs ih =>
    cases old with
    | nil => simp at h
    | cons a as =>
      simp only [List.length_cons, Nat.add_right_cancel_iff] at h
      simp only [List.cons_append, overwrite, ih as h, Option.map_some]

theorem overwrite_mid (pre old new post : Bytes) (h : old.length = new.length) :
    overwrite (pre ++ (old ++ post)) pre.length new = some (pre ++ (new ++ post)) := by
  induction pre with
  | nil => simpa using overwrite_here old new post h
  | cons a as ih =>
    cases new with
    | nil =>
      cases old with
      | nil => simp [overwrite]
      | cons _ _ => simp at h
    | cons b bs =>
      simp only [List.cons_append, List.length_cons, overwrite, ih, Option.map_some]

/-- `emitBytes` with the position inside the buffer: exactly the bytes `[pre.length, pre.length + new.length)` change -/
theorem emitBytes_mid (pre old new post : Bytes) (s : Asm) (hc : s.code = pre ++ (old ++ post)) (hp : s.position = pre.length)
    (h : old.length = new.length) (hne : old ≠ []) :
    Buf.emitBytes new s = .ok ((), { s with code := pre ++ (new ++ post), position := pre.length + new.length }) := by
  have hlt : pre.length < (pre ++ (old ++ post)).length := by
    cases old with
    | nil => exact absurd rfl hne
    | cons a as => simp only [List.length_append, List.length_cons]; omega
  unfold Buf.emitBytes
  rw [hc, hp, overwrite_mid pre old new post h]
  simp only [Nat.ne_of_lt hlt, hlt, if_true, if_false]
