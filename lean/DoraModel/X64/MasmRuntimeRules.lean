/-!
# Hand models of two rules of the RUNTIME that the baseline generator's allocation sequences must agree with

Transcribed by hand (core Lean only); `checks/c01_masm.py` compares the constants and the comparison operators below with the Rust
source text on every run (finding key `corr:remembered-rule`).

* `dora-runtime/src/gc/swiper.rs`, `impl Collector for Swiper`:
  `fn alloc_object(&self, rt, size)`: `if size < LARGE_OBJECT_SIZE { self.alloc_normal(rt, size) } else { self.alloc_large(rt, size) }`
  `fn initial_metadata_value(&self, size, is_readonly) -> (bool, bool)` (= `(is_marked, is_remembered)`):
  `if is_readonly { assert!(size < LARGE_OBJECT_SIZE); (true, false) } else if size < LARGE_OBJECT_SIZE { (false, true) } else { (false, false) }`
  `pub const LARGE_OBJECT_SIZE: usize = dora_compiler::LARGE_OBJECT_SIZE;` (= `32 * K`, `K = 1024`, dora-compiler/src/abi.rs)
* `dora-runtime/src/mirror.rs`, `HeaderWord::compute_word`: `… | (is_remembered as usize) << REMEMBERED_BIT_SHIFT`,
  `pub const REMEMBERED_BIT_SHIFT: usize = dora_compiler::REMEMBERED_BIT_SHIFT;` (= 33, abi.rs)
-/
namespace Dora.Runtime

/-- `LARGE_OBJECT_SIZE` -/
def largeObjectSize : Nat := 32 * 1024
/-- `REMEMBERED_BIT_SHIFT` -/
def rememberedBitShift : Nat := 33

/-- `Swiper::alloc_object`: the object goes to the large-object space -/
def allocatedLarge (size : Nat) : Bool := !decide (size < largeObjectSize)

/-- `Swiper::initial_metadata_value`: `(is_marked, is_remembered)`; `none` is the failed `assert!` -/
def initialMetadata (size : Nat) (isReadonly : Bool) : Option (Bool × Bool) :=
  if isReadonly then (if size < largeObjectSize then some (true, false) else none)
  else if size < largeObjectSize then some (false, true)
  else some (false, false)

/-- the remembered bit of `HeaderWord::compute_word` as a 64-bit word -/
def rememberedWord (isRemembered : Bool) : BitVec 64 := (if isRemembered then 1#64 else 0#64) <<< rememberedBitShift

end Dora.Runtime
