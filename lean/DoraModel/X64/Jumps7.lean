import DoraModel.X64.Jumps6
/-!
# C07 — label resolution in general, part 7: reading the layout at one operation, and decoding a jump segment.
-/
namespace Dora.X64
open Dora.X64.Dec
set_option linter.unusedSimpArgs false

theorem layout_at (L : List (Option UInt32)) (ops : List JOp) : ∀ (b : Nat) (segs : List Bytes) (ps : List Nat) (i : Nat) (op : JOp),
    Layout L b ops segs ps → ops[i]? = some op →
    ∃ pre seg rest p, ps[i]? = some p ∧ segs[i]? = some seg ∧ segs.flatten = pre ++ (seg ++ rest) ∧ p = b + pre.length ∧
      OpSeg L p op seg := by
  induction ops with
  | nil => intro b segs ps i op _ hi; simp at hi
  | cons o ops ih =>
    intro b segs ps i op hl hi
    cases segs with
    | nil => cases ps <;> simp only [Layout] at hl
    | cons seg segs =>
      cases ps with
      | nil => simp only [Layout] at hl
      | cons p ps =>
        obtain ⟨hp, hs, hrest⟩ := hl
        cases i with
        | zero =>
          simp only [List.getElem?_cons_zero, Option.some.injEq] at hi
          subst hi
          exact ⟨[], seg, segs.flatten, p, rfl, rfl, by simp, by simp [hp], by rw [hp]; exact hs⟩
        | succ i =>
          simp only [List.getElem?_cons_succ] at hi
          obtain ⟨pre, sg, rest, p', h1, h2, h3, h4, h5⟩ := ih _ segs ps i op hrest hi
          refine ⟨seg ++ pre, sg, rest, p', by simpa using h1, by simpa using h2, ?_, ?_, h5⟩
          · simp only [List.flatten_cons, h3, List.append_assoc]
          · rw [h4, List.length_append]; omega

theorem decode_seg (op : JOp) (l : Nat) (far : Bool) (f : Bytes) (d : Int) (rest : Bytes)
    (ht : op.target = some l) (hf : FieldOk far f d) (hfar : far = true → op.allowsFar = true) :
    ∃ t, op.spec = .toLabel t ⟨l⟩ ∧ decode ((op.opc far ++ f) ++ rest) = some (retarget t d, rest) := by
  unfold FieldOk at hf
  cases far with
  | false =>
    simp only [Bool.false_eq_true, if_false] at hf
    obtain ⟨b0, rfl, rfl⟩ := hf
    cases op with
    | raw bs => cases ht
    | bind l' => cases ht
    | jmp l' => cases ht; exact ⟨_, rfl, decode_jmp8 b0 rest⟩
    | jmpNear l' => cases ht; exact ⟨_, rfl, decode_jmp8 b0 rest⟩
    | jcc c l' => cases ht; exact ⟨_, rfl, decode_jcc8 c b0 rest⟩
    | jccNear c l' => cases ht; exact ⟨_, rfl, decode_jcc8 c b0 rest⟩
  | true =>
    simp only [if_true] at hf
    obtain ⟨b0, b1, b2, b3, rfl, rfl⟩ := hf
    cases op with
    | raw bs => cases ht
    | bind l' => cases ht
    | jmp l' => cases ht; exact ⟨_, rfl, decode_jmp32 b0 b1 b2 b3 rest⟩
    | jmpNear l' => have := hfar rfl; cases this
    | jcc c l' => cases ht; exact ⟨_, rfl, decode_jcc32 c b0 b1 b2 b3 rest⟩
    | jccNear c l' => have := hfar rfl; cases this
