import DoraModel.Wait.MtxInv12
/-! # C09 — the invariants hold in every reachable state; running a trace stays reachable -/
namespace Dora.Wait.Mtx

variable {n : Nat} {s : State}

theorem Reach.basic (hr : Reach n s) : Basic s := by
  induction hr with
  | init => exact ⟨by simp [Mtx.init], by simp [Mtx.init], by simp [Mtx.init]⟩
  | step _ ha ih => obtain ⟨pc, _, hst⟩ := accept_stepAt ha; exact basic_step ih hst

theorem Reach.kinv (hr : Reach n s) : KInv s := by
  induction hr with
  | init =>
    have : (List.replicate n PC.idle).countP holds = 0 := by
      rw [List.countP_eq_zero]; intro a ha; rw [List.eq_of_mem_replicate ha]; simp [holds]
    exact ⟨by simp [Mtx.init, this], by simp [Mtx.init, this]⟩
  | step _ ha ih => obtain ⟨pc, hpc, hst⟩ := accept_stepAt ha; exact kinv_step ih hpc hst

theorem Reach.rinv (hr : Reach n s) : RInv s := by
  induction hr with
  | init =>
    constructor
    · intro u hu; simp [Mtx.init, List.getElem?_replicate] at hu
    · intro t r u ht; simp [Mtx.init, List.getElem?_replicate] at ht
  | step hprev ha ih => obtain ⟨pc, hpc, hst⟩ := accept_stepAt ha; exact rinv_step hprev.basic ih hpc hst

def runTrace (s : State) : List Event → Option State
  | [] => some s
  | e :: rest => match accept s e with
    | .ok s' => runTrace s' rest
    | .error _ => none

theorem Reach.run {s s' : State} (hr : Reach n s) : ∀ (es : List Event), runTrace s es = some s' → Reach n s' := by
  intro es
  induction es generalizing s with
  | nil => intro h; simp [runTrace] at h; subst h; exact hr
  | cons e rest ih =>
    intro h
    simp only [runTrace] at h
    split at h
    · rename_i s1 h1; exact ih (Reach.step hr h1) h
    · cases h


theorem Reach.cinv (hr : Reach n s) (hnp : s.pcs.countP isPanicked = 0) : CInv s := by
  induction hr with
  | init =>
    have z : ∀ p : PC → Bool, p PC.idle = false → (List.replicate n PC.idle).countP p = 0 := by
      intro p hp; rw [List.countP_eq_zero]; intro a ha; rw [List.eq_of_mem_replicate ha, hp]; simp
    refine ⟨?_, ?_, ?_⟩
    · show (List.replicate n PC.idle).countP holdsWL ≤ _; rw [z holdsWL rfl]; exact Nat.zero_le _
    · show 0 < (List.replicate n PC.idle).countP isEq2C → _; rw [z isEq2C rfl]; intro h; cases h
    · show 0 < ([] : List Nat).length → _; intro h; cases h
  | step _ ha ih =>
    obtain ⟨pc, hpc, hst⟩ := accept_stepAt ha
    exact cinv_step (ih (nopanic_back hpc hst hnp)) hpc hst hnp

theorem Reach.sinv (hr : Reach n s) : SInv s := by
  induction hr with
  | init =>
    constructor
    · intro u k f hu; simp [Mtx.init, List.getElem?_replicate] at hu
    · intro u k hu; simp [Mtx.init, List.getElem?_replicate] at hu
  | step _ ha ih => obtain ⟨pc, hpc, hst⟩ := accept_stepAt ha; exact sinv_step ih hpc hst

theorem Reach.qinv (hr : Reach n s) (hnp : s.pcs.countP isPanicked = 0) : QInv s := by
  induction hr with
  | init =>
    refine ⟨⟨List.nodup_nil, fun u hu => by cases hu⟩, ⟨List.nodup_nil, fun u hu => by cases hu⟩, ?_⟩
    intro u hu; simp [Mtx.init, List.getElem?_replicate] at hu
  | step hprev ha ih =>
    obtain ⟨pc, hpc, hst⟩ := accept_stepAt ha
    exact qinv_step (ih (nopanic_back hpc hst hnp)) hprev.sinv hpc hst hnp

theorem Reach.jinv (hr : Reach n s) (hnp : s.pcs.countP isPanicked = 0) : JInv s := by
  induction hr with
  | init =>
    have z : ∀ p : PC → Bool, p PC.idle = false → (List.replicate n PC.idle).countP p = 0 := by
      intro p hp; rw [List.countP_eq_zero]; intro a ha; rw [List.eq_of_mem_replicate ha, hp]; simp
    refine ⟨?_, ?_⟩
    · show 0 < (List.replicate n PC.idle).countP isEq2M → _; rw [z isEq2M rfl]; intro h; cases h
    · show 0 < ([] : List Nat).length → _; intro h; cases h
  | step hprev ha ih =>
    obtain ⟨pc, hpc, hst⟩ := accept_stepAt ha
    have hnp0 := nopanic_back hpc hst hnp
    exact jinv_step (ih hnp0) (hprev.cinv hnp0) (hprev.qinv hnp0) hpc hst hnp

theorem Reach.wle (hr : Reach n s) : s.w ≤ 2 := by
  induction hr with
  | init => simp [Mtx.init]
  | step _ ha ih => obtain ⟨pc, _, hst⟩ := accept_stepAt ha; exact wle_step ih hst

/-- no reachable state has a panicked thread -/
theorem Reach.nopanic (hr : Reach n s) : s.pcs.countP isPanicked = 0 := by
  induction hr with
  | init => rw [List.countP_eq_zero]; intro a ha; simp [Mtx.init] at ha; rw [ha.2]; simp [isPanicked]
  | step hprev ha ih =>
    obtain ⟨pc, hpc, hst⟩ := accept_stepAt ha
    exact nopanic_step hprev.kinv hprev.basic (hprev.qinv ih) hprev.wle ih hpc hst

end Dora.Wait.Mtx
