import DoraModel.Wait.MtxInv8
/-! # C09 — invariant Q is inductive -/
namespace Dora.Wait.Mtx

theorem qinv_pop' {s : State} {t u hd : Nat} {k : Kind} {a : Bool} {r : Ret} {rest : List Nat} (hs : QInv s)
    (hpc : s.pcs[t]? = some (PC.wk1 k a r)) (hq : queueOf s k = hd :: rest) (hne : ¬ hd ≠ u) (hbu : s.b[u]? = some true) :
    QInv { setQueue s k rest with b := s.b.set u false, pcs := s.pcs.set t (PC.wk2 k a r u) } := by
  have : hd = u := Decidable.of_not_not hne
  subst this; exact qinv_pop hs hpc hq hbu

set_option maxHeartbeats 4000000 in
theorem qinv_step {s s' : State} {t : Nat} {pc : PC} {a : Act} (hs : QInv s) (hS : SInv s) (hpc : s.pcs[t]? = some pc)
    (h : stepAt s t pc a = .ok s') (hnp : s'.pcs.countP isPanicked = 0) : QInv s' := by
  cases a <;> cases pc <;> simp only [stepAt] at h <;> (try (simp at h; done))
  all_goals (repeat' split at h)
  all_goals (try (simp at h; done))
  all_goals (simp only [Except.ok.injEq] at h; subst h)
  all_goals (try contradiction)
  all_goals (try (exact hs))
  all_goals (try (exact absurd hnp (Nat.ne_of_gt (panic_pos hpc _))))
  all_goals (clear hnp)
  all_goals (try (exact qinv_enq hs hpc ‹_›))
  all_goals (try (exact qinv_pop' hs hpc ‹_› ‹_› ‹_›))
  all_goals (try (exact qinv_stop _ hs hpc))
  all_goals (try (refine qinv_sig hs hpc ‹_› ‹_› rfl rfl rfl rfl rfl ?_ ?_ <;> cls))
  all_goals (try (refine qinv_set hs hpc rfl rfl rfl rfl ?_ ?_ <;> cls))
  all_goals (try (refine qinv_leave hs hpc rfl rfl rfl rfl ?_; have := hS.flag _ _ _ hpc; simp_all; done))

end Dora.Wait.Mtx
