import DoraModel.Wait.MtxInv6
/-! # C09 — invariant S is inductive -/
namespace Dora.Wait.Mtx

theorem not_not_true {b : Bool} (h : ¬ (!b) = true) : b = true := by cases b <;> simp_all

theorem not_sleeping_of {s : State} {u : Nat} {pc : PC} (heq : s.pcs[u]? = some pc) (h : ¬ isSleeping pc = true) :
    ∀ k1, s.pcs[u]? ≠ some (PC.sleeping k1) := by
  intro k1 hk; rw [heq] at hk; cases hk; exact h rfl

theorem not_sleeping_none {s : State} {u : Nat} (heq : s.pcs[u]? = none) :
    ∀ k1, s.pcs[u]? ≠ some (PC.sleeping k1) := by
  intro k1 hk; rw [heq] at hk; cases hk

macro "sc0" : tactic => `(tactic| first
  | (intros; rename_i h; cases h; done)
  | (intros; rename_i h; cases h; assumption))
macro "sc" : tactic => `(tactic| first
  | sc0
  | (cases ‹Ret› <;> sc0)
  | (cases ‹Kind› <;> sc0)
  | (cases ‹Kind› <;> cases ‹Bool› <;> sc0)
  | (cases ‹Ctx› <;> sc0))

set_option maxHeartbeats 4000000 in
theorem sinv_step {s s' : State} {t : Nat} {pc : PC} {a : Act} (hs : SInv s) (hpc : s.pcs[t]? = some pc)
    (h : stepAt s t pc a = .ok s') : SInv s' := by
  cases a <;> cases pc <;> simp only [stepAt] at h <;> (try (simp at h; done))
  all_goals (repeat' split at h)
  all_goals (try (simp at h; done))
  all_goals (simp only [Except.ok.injEq] at h; subst h)
  all_goals (try contradiction)
  all_goals (try (exact hs))
  all_goals (try (exact sinv_enq hs hpc rfl rfl))
  all_goals (try (exact sinv_pop hs hpc (not_not_true ‹_›) rfl rfl))
  all_goals (try (exact sinv_stop _ hs hpc))
  all_goals (try (refine sinv_sig hs hpc ‹_› ‹_› rfl rfl ?_ ?_ <;> (intros; intro h; cases h)))
  all_goals (try (refine sinv_sig_none hs hpc ?_ rfl rfl ?_ ?_ <;>
    first | (intros; intro h; cases h; done) | exact not_sleeping_of ‹_› ‹_› | exact not_sleeping_none ‹_›
          | (intro k1 hk; simp_all [isSleeping]; done)))
  all_goals (try (refine sinv_set hs hpc rfl rfl ?_ ?_ ?_ <;>
    first | sc | (intros; rename_i h; cases h; exact hs.flag _ _ _ hpc)
          | (intros; have := hs.flag _ _ _ hpc; simp_all; done)))

end Dora.Wait.Mtx
