import DoraModel.Wait.MtxInv11
/-! # C09 — no `assert` of thread.dora / `assert!` of the runtime can fail (no thread ever reaches `panicked`) -/
namespace Dora.Wait.Mtx

theorem ul_w_ne_zero {s : State} {t : Nat} {c : Ctx} (hK : KInv s) (hpc : s.pcs[t]? = some (PC.ul c)) : s.w ≠ 0 := by
  intro h0
  have := hK.zero.mp h0
  have hpos : 0 < s.pcs.countP holds := List.countP_pos_iff.mpr ⟨_, List.mem_of_getElem? hpc, rfl⟩
  omega

theorem eq2_flag {s : State} {t : Nat} {k : Kind} (hB : Basic s) (hQ : QInv s) (hpc : s.pcs[t]? = some (PC.eq2 k)) :
    s.b[t]? = some false := by
  have hlt : t < s.b.length := by rw [hB.lb, ← hB.lp]; exact lt_of_getElem? hpc
  cases hb : s.b[t] with
  | false => rw [List.getElem?_eq_getElem hlt, hb]
  | true =>
    exfalso
    have hbt : s.b[t]? = some true := by rw [List.getElem?_eq_getElem hlt, hb]
    rcases hQ.bq t hbt with h | h
    · obtain ⟨_, pc, h1, h2⟩ := hQ.qm.2 t h; rw [hpc] at h1; cases h1; cases k <;> simp [mtxPhase] at h2
    · obtain ⟨_, pc, h1, h2⟩ := hQ.qc.2 t h; rw [hpc] at h1; cases h1; cases k <;> simp [condPhase] at h2

theorem head_flag {s : State} {k : Kind} {hd : Nat} {rest : List Nat} (hQ : QInv s) (hq : queueOf s k = hd :: rest) :
    s.b[hd]? = some true := by
  cases k
  · have : s.q = hd :: rest := hq
    exact (hQ.qm.2 hd (by rw [this]; simp)).1
  · have : s.cq = hd :: rest := hq
    exact (hQ.qc.2 hd (by rw [this]; simp)).1

theorem npf_set {s s' : State} {t : Nat} {pc pc' : PC} (h0 : s.pcs.countP isPanicked = 0) (hpc : s.pcs[t]? = some pc)
    (hp : s'.pcs = s.pcs.set t pc') (hx : isPanicked pc' = false) : s'.pcs.countP isPanicked = 0 := by
  have g := countP_ge isPanicked hpc
  rw [hp, countP_set_eq isPanicked hpc, hx]; simp only [Bool.toNat_false]; omega

theorem npf_sig {s s' : State} {t u : Nat} {pc pc' pcu : PC} (h0 : s.pcs.countP isPanicked = 0) (hpc : s.pcs[t]? = some pc)
    (hu : s.pcs[u]? = some pcu) (hsl : isSleeping pcu = true) (hns : isSleeping pc = false)
    (hp : s'.pcs = (s.pcs.set u (wokenOf s u)).set t pc') (hx : isPanicked pc' = false) :
    s'.pcs.countP isPanicked = 0 := by
  have hut : u ≠ t := by intro h; subst h; rw [hu] at hpc; cases hpc; rw [hsl] at hns; cases hns
  have g := countP_ge isPanicked hpc
  rw [hp, countP_set_set_eq isPanicked hpc hu hut _ _ (by cases pcu <;> simp [isSleeping] at hsl; rfl) rfl, hx]
  simp only [Bool.toNat_false]; omega

theorem npf_stop {s : State} {t : Nat} (h0 : s.pcs.countP isPanicked = 0) (hpc : s.pcs[t]? = some PC.st1) :
    ((s.pcs.map (wakeJ t)).set t PC.st2).countP isPanicked = 0 := by
  have h1 : (s.pcs.map (wakeJ t))[t]? = some (wakeJ t PC.st1) := by simp [hpc]
  rw [countP_set_eq isPanicked h1, countP_map_congr isPanicked (wakeJ t) (wakeJ_class isPanicked (fun _ _ => rfl) (fun _ _ => rfl) t),
    show isPanicked (wakeJ t PC.st1) = false from rfl, show isPanicked PC.st2 = false from rfl]
  simp only [Bool.toNat_false]; omega

/-- the lock word only ever holds 0, 1, 2 -/
theorem wle_step {s s' : State} {t : Nat} {pc : PC} {a : Act} (hw : s.w ≤ 2) (h : stepAt s t pc a = .ok s') : s'.w ≤ 2 := by
  cases a <;> cases pc <;> simp only [stepAt] at h <;> (try (simp at h; done))
  all_goals (repeat' split at h)
  all_goals (try (simp at h; done))
  all_goals (simp only [Except.ok.injEq] at h; subst h)
  all_goals (try contradiction)
  all_goals (first | exact hw | (simp [State.setPc]; done) | (simp [State.setPc]; exact hw))

set_option maxHeartbeats 4000000 in
theorem nopanic_step {s s' : State} {t : Nat} {pc : PC} {a : Act} (hK : KInv s) (hB : Basic s) (hQ : QInv s)
    (hw : s.w ≤ 2) (h0 : s.pcs.countP isPanicked = 0) (hpc : s.pcs[t]? = some pc)
    (h : stepAt s t pc a = .ok s') : s'.pcs.countP isPanicked = 0 := by
  cases a <;> cases pc <;> simp only [stepAt] at h <;> (try (simp at h; done))
  all_goals (repeat' split at h)
  all_goals (try (simp at h; done))
  all_goals (simp only [Except.ok.injEq] at h; subst h)
  all_goals (try contradiction)
  all_goals (try (exact h0))
  all_goals (try (exact npf_stop h0 hpc))
  all_goals (try (refine npf_sig h0 hpc ‹_› ‹_› rfl rfl ?_; (first | rfl | (cases ‹Bool› <;> rfl))))
  all_goals (try (refine npf_set h0 hpc rfl ?_; (first | rfl | (cases ‹Ret› <;> rfl) | (cases ‹Kind› <;> rfl) | (cases ‹Kind› <;> cases ‹Bool› <;> rfl) | (cases ‹Ctx› <;> rfl))))
  all_goals (try (refine npf_set h0 hpc (by simp) ?_; (first | rfl | (cases ‹Kind› <;> rfl))))
  all_goals (try (exfalso; omega))
  all_goals (try (exfalso; have := ul_w_ne_zero hK hpc; omega))
  all_goals (try (exact absurd (eq2_flag hB hQ hpc) ‹_›))
  all_goals (try (exfalso; have := head_flag hQ ‹_›; simp_all; done))

end Dora.Wait.Mtx
