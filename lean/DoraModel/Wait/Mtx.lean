/-!
# C09 — model of the mutex / condition / join protocol
(`pkgs/std/thread.dora`: `Mutex::{lock_op, lock_slow, transition_to_locked_contended, unlock_op, unlock_slow}`,
`Condition::{wait, notify_one, notify_all}`; `dora-runtime/src/runtime/waitlists.rs`:
`WaitLists::{block, enqueue, conditionally_enqueue, wakeup, wakeup_all}`; `dora-runtime/src/threads.rs`:
`DoraThread::{block, prepare_for_waitlist, set_waitlist_successor, remove_from_waitlist, stop, join}`)

Transition system for `n` threads, ONE mutex (lock word `w ∈ {0,1,2}`, FIFO wait queue `q`) and ONE condition
(`waiters` word `cw`, FIFO queue `cq`), the wait-table lock `wl`, a per-thread `blocking` flag `b`, a
per-thread `running` flag (join data).  Granularity: one operation of the sync shim per step (DESIGN
Appendix A.3), with two reductions that are justified by mutual exclusion of the per-thread
`blocking_data.blocking` mutex `B_u` (its protected data is touched only while it is held):
* a critical section on `B_u` executed by the holder of the wait-table lock
  (`prepare_for_waitlist`, `set_waitlist_successor`, `remove_from_waitlist`) is ONE step, taken at its
  `unlock B_u` event; it is enabled only while `u` itself is not inside its own `B_u` section (pc `blk1`);
* `DoraThread::block` reads the flag once per lock acquisition (pc `blk1 k f` remembers it).
The linked list threaded through `(blocking, next)` and the `(head, tail)` entry of the wait table are
abstracted to the lists `q` / `cq` (the acceptor checks that the real code touches exactly the model's
tail on enqueue and the model's head on wake-up; the table itself is `Hmap.lean`).
`park`/`unpark` of `parked_scope` (CAS on the thread state byte) belong to C04; here they are stutter events.

`accept : State → Event → Except String State`: the event resolves all nondeterminism.  A failing `assert`
of thread.dora / `assert!` of the runtime is the pc `panicked` (never a default value).
Imports nothing outside core Lean.
-/
namespace Dora.Wait.Mtx

/-- which wait queue: the mutex's or the condition's -/
inductive Kind where
  | mtx | cond
  deriving DecidableEq, Repr, Hashable, Inhabited

/-- `unlock_op` called directly (`plain`) or from inside `Condition::wait` (`cwait`) -/
inductive Ctx where
  | plain | cwait
  deriving DecidableEq, Repr, Hashable, Inhabited

/-- where a call returns to: outside the mutex, inside the critical section, or on to `block()` (the
`unlock_op` inside `Condition::wait`) -/
inductive Ret where
  | idle | crit | block
  deriving DecidableEq, Repr, Hashable, Inhabited

/-- program counter of one thread; `[WL]` = holds the wait-table lock -/
inductive PC where
  /-- not holding the mutex, between operations -/
  | idle
  /-- inside the critical section (between a successful acquiring CAS and `unlock_op`) -/
  | crit
  /-- after `stop` -/
  | fin
  /-- an `assert` failed; `h` = the thread owned the mutex at that moment (it stays locked) -/
  | panicked (h : Bool)
  /-- `lock_op`: before `compare_exchange(UNLOCKED, LOCKED)` -/
  | lk0
  /-- `lock_slow`: before `compare_exchange(LOCKED, LOCKED_CONTENDED)` -/
  | slow0
  /-- `lock_slow`: before `compare_exchange(UNLOCKED, LOCKED_CONTENDED)` -/
  | slow2
  /-- `WaitLists::block` / `enqueue`: before `self.data.lock()` -/
  | eq0 (k : Kind)
  /-- [WL] before the closure: `mutex.state.load` (mtx) / `condition.state.store(1)` (cond) -/
  | eq1 (k : Kind)
  /-- [WL] `append_to_waitlist` pending -/
  | eq2 (k : Kind)
  /-- [WL] before the guard is dropped; `queued` = the thread has been appended -/
  | eq3 (k : Kind) (queued : Bool)
  /-- `DoraThread::block`: before `blocking.lock()` -/
  | blkA (k : Kind)
  /-- holds `B_t`; `f` = the flag read -/
  | blk1 (k : Kind) (f : Bool)
  /-- inside `cv_blocking.wait` -/
  | sleeping (k : Kind)
  /-- signalled (or spuriously woken); has to re-acquire `B_t` -/
  | wokenB (k : Kind)
  /-- `unlock_op`: before `exchange(UNLOCKED)` -/
  | ul (c : Ctx)
  /-- `wakeup` / `wakeup_all`: before `self.data.lock()` -/
  | wk0 (k : Kind) (all : Bool) (r : Ret)
  /-- [WL] before the next `remove_from_waitlist` (or, queue empty / one woken, before the guard drop) -/
  | wk1 (k : Kind) (all : Bool) (r : Ret)
  /-- [WL] popped `u`; before `cv_blocking.notify_one()` of `u` -/
  | wk2 (k : Kind) (all : Bool) (r : Ret) (u : Nat)
  /-- [WL] `wakeup` woke one; before the guard is dropped -/
  | wk3 (r : Ret)
  /-- `notify_one`: before `waiters.get()` -/
  | no0 (r : Ret)
  /-- `notify_all`: before `waiters.get()` -/
  | na0 (r : Ret)
  /-- `notify_all`: before `waiters.set(0)` -/
  | na1 (r : Ret)
  /-- `join(u)`: before `running.lock()` -/
  | jn0 (r : Ret) (u : Nat)
  /-- holds `J_u`; `f` = `*running` read -/
  | jn1 (r : Ret) (u : Nat) (f : Bool)
  /-- inside `cv_stopped.wait` -/
  | jsl (r : Ret) (u : Nat)
  /-- woken; has to re-acquire `J_u` -/
  | jwk (r : Ret) (u : Nat)
  /-- `stop`: before `running.lock()` -/
  | st0
  /-- holds `J_t`; before `*running = false; cv_stopped.notify_all()` -/
  | st1
  /-- holds `J_t`; before the guard is dropped -/
  | st2
  /-- simulated collection (`visit_roots`): before `self.data.lock()` -/
  | gc0 (r : Ret)
  /-- [WL] inside `visit_roots` -/
  | gc1 (r : Ret)
  deriving DecidableEq, Repr, Hashable, Inhabited

/-- names of the harness' `call` marks -/
inductive Call where
  | lock | unlock | cwait | n1 | nall | join (u : Nat) | stop | gc
  deriving DecidableEq, Repr, Hashable, Inhabited

inductive Act where
  /-- `call` mark: the thread starts an operation -/
  | call (c : Call)
  /-- CAS on the lock word: value seen, value written (`none` = failed) -/
  | casW (rd : Nat) (wr : Option Nat)
  /-- `exchange(UNLOCKED)` on the lock word: value seen -/
  | swapW (rd : Nat)
  | loadW (rd : Nat)
  | loadCW (rd : Nat)
  | storeCW (v : Nat)
  | lockWL
  | unlockWL
  /-- lock / unlock of thread `u`'s `blocking` mutex -/
  | lockB (u : Nat)
  | unlockB (u : Nat)
  /-- `cv_blocking.wait` (own condvar): releases `B_t` and sleeps, atomically -/
  | waitB
  | relockB
  | spurB
  /-- `cv_blocking.notify_one()` of thread `u`; `woken` = the thread the scheduler woke -/
  | sigB (u : Nat) (woken : Option Nat)
  | lockJ (u : Nat)
  | unlockJ (u : Nat)
  | waitJ (u : Nat)
  | relockJ (u : Nat)
  | spurJ (u : Nat)
  /-- `cv_stopped.notify_all()`; `k` = number woken -/
  | naJ (k : Nat)
  /-- park / unpark CAS on the thread's own state byte (C04's protocol; stutter here) -/
  | casS
  deriving DecidableEq, Repr, Hashable, Inhabited

structure Event where
  tid : Nat
  act : Act
  deriving DecidableEq, Repr, Hashable

structure State where
  n : Nat
  /-- lock word -/
  w : Nat
  /-- the condition's `waiters` word -/
  cw : Nat
  /-- wait queue of the mutex / of the condition (head first) -/
  q : List Nat
  cq : List Nat
  /-- per-thread `blocking` flag -/
  b : List Bool
  /-- per-thread `running` flag of the join data -/
  running : List Bool
  /-- owner of the wait-table lock -/
  wl : Option Nat
  pcs : List PC
  deriving DecidableEq, Repr, Hashable

def init (n : Nat) : State :=
  { n := n, w := 0, cw := 0, q := [], cq := [], b := List.replicate n false,
    running := List.replicate n true, wl := none, pcs := List.replicate n .idle }

def State.setPc (s : State) (t : Nat) (pc : PC) : State := { s with pcs := s.pcs.set t pc }

def retPc : Ret → PC
  | .idle => .idle
  | .crit => .crit
  | .block => .blkA .cond

def queueOf (s : State) : Kind → List Nat
  | .mtx => s.q
  | .cond => s.cq

def setQueue (s : State) (k : Kind) (l : List Nat) : State :=
  match k with
  | .mtx => { s with q := l }
  | .cond => { s with cq := l }

def isBlk1 : PC → Bool
  | .blk1 _ _ => true
  | _ => false

/-- `B_u` is not held by `u` itself -/
def bFree (s : State) (u : Nat) : Bool :=
  match s.pcs[u]? with
  | some pc => !isBlk1 pc
  | none => false

def holdsJ (u : Nat) (t : Nat) : PC → Bool
  | .jn1 _ v _ => v == u
  | .st1 => t == u
  | .st2 => t == u
  | _ => false

/-- `J_u` is free: nobody is inside a `running.lock()` section of thread `u`'s join data -/
def jFree (s : State) (u : Nat) : Bool :=
  (List.range s.pcs.length).all (fun t => match s.pcs[t]? with | some pc => !holdsJ u t pc | none => true)

def isJsl (u : Nat) : PC → Bool
  | .jsl _ v => v == u
  | _ => false

def wakeJ (u : Nat) : PC → PC
  | .jsl r v => if v = u then .jwk r v else .jsl r v
  | p => p

def isPanicked : PC → Bool
  | .panicked _ => true
  | _ => false

def isSleeping : PC → Bool
  | .sleeping _ => true
  | _ => false

def sleepKind : PC → Kind
  | .sleeping k => k
  | _ => .mtx

/-- where `conditionally_enqueue` continues: `block()` (queued on the mutex), back into the `lock_slow` loop
(not queued), or on to `unlock_op` inside `Condition::wait` -/
def afterEnqueue : Kind → Bool → PC
  | .mtx, true => .blkA .mtx
  | .mtx, false => .slow2
  | .cond, _ => .ul .cwait

/-- the pc of a sleeping thread after it has been signalled -/
def wokenOf (s : State) (u : Nat) : PC :=
  .wokenB (match s.pcs[u]? with | some pc => sleepKind pc | none => .mtx)

/-- where the caller of a bare operation returns to -/
def retOf : PC → Option Ret
  | .idle => some .idle
  | .crit => some .crit
  | _ => none

/-- One step of thread `t` standing at `pc`. `.error` = the model does not allow this event here. -/
def stepAt (s : State) (t : Nat) (pc : PC) (a : Act) : Except String State :=
  match a with
  | .casS => .ok s
  | _ =>
  match pc with
  | .idle =>
    match a with
    | .call .lock => .ok (s.setPc t .lk0)
    | .call .n1 => .ok (s.setPc t (.no0 .idle))
    | .call .nall => .ok (s.setPc t (.na0 .idle))
    | .call (.join u) => if u < s.n ∧ u ≠ t then .ok (s.setPc t (.jn0 .idle u)) else .error "join of self / unknown thread"
    | .call .stop => .ok (s.setPc t .st0)
    | .call .gc => .ok (s.setPc t (.gc0 .idle))
    | _ => .error "idle: operation not possible"
  | .crit =>
    match a with
    | .call .unlock => .ok (s.setPc t (.ul .plain))
    | .call .cwait => .ok (s.setPc t (.eq0 .cond))
    | .call .n1 => .ok (s.setPc t (.no0 .crit))
    | .call .nall => .ok (s.setPc t (.na0 .crit))
    | .call (.join u) => if u < s.n ∧ u ≠ t then .ok (s.setPc t (.jn0 .crit u)) else .error "join of self / unknown thread"
    | .call .gc => .ok (s.setPc t (.gc0 .crit))
    | _ => .error "crit: operation not possible"
  -- ───────── lock_op / lock_slow
  | .lk0 =>
    match a with
    | .casW rd wr =>
      if rd ≠ s.w then .error "lk0: value seen differs from the lock word"
      else if rd = 0 then (if wr = some 1 then .ok { s with w := 1, pcs := s.pcs.set t .crit } else .error "lk0: CAS 0→1 must succeed")
      else if wr ≠ none then .error "lk0: CAS must fail"
      else if rd = 1 ∨ rd = 2 then .ok (s.setPc t .slow0) else .ok (s.setPc t (.panicked false))
    | _ => .error "lk0: expected CAS on the lock word"
  | .slow0 =>
    match a with
    | .casW rd wr =>
      if rd ≠ s.w then .error "slow0: value seen differs from the lock word"
      else if rd = 1 then (if wr = some 2 then .ok { s with w := 2, pcs := s.pcs.set t (.eq0 .mtx) } else .error "slow0: CAS 1→2 must succeed")
      else if wr ≠ none then .error "slow0: CAS must fail"
      else if rd = 0 then .ok (s.setPc t .slow2) else .ok (s.setPc t (.eq0 .mtx))
    | _ => .error "slow0: expected CAS on the lock word"
  | .slow2 =>
    match a with
    | .casW rd wr =>
      if rd ≠ s.w then .error "slow2: value seen differs from the lock word"
      else if rd = 0 then (if wr = some 2 then .ok { s with w := 2, pcs := s.pcs.set t .crit } else .error "slow2: CAS 0→2 must succeed")
      else if wr ≠ none then .error "slow2: CAS must fail"
      else .ok (s.setPc t .slow0)
    | _ => .error "slow2: expected CAS on the lock word"
  -- ───────── conditionally_enqueue
  | .eq0 k =>
    match a with
    | .lockWL => if s.wl = none then .ok { s with wl := some t, pcs := s.pcs.set t (.eq1 k) } else .error "eq0: wait-table lock is held"
    | _ => .error "eq0: expected lock of the wait table"
  | .eq1 k =>
    match k with
    | .mtx =>
      match a with
      | .loadW rd =>
        if rd ≠ s.w then .error "eq1: value seen differs from the lock word"
        else .ok (s.setPc t (if rd = 2 then .eq2 .mtx else .eq3 .mtx false))
      | _ => .error "eq1 mtx: expected load of the lock word"
    | .cond =>
      match a with
      | .storeCW v => if v = 1 then .ok { s with cw := 1, pcs := s.pcs.set t (.eq2 .cond) } else .error "eq1 cond: waiters.store(1)"
      | _ => .error "eq1 cond: expected store to waiters"
  | .eq2 k =>
    match a with
    -- set_waitlist_successor on the old tail (bookkeeping of the linked list; the model's queue is a list)
    | .lockB u =>
      if u = t then .ok s
      else if (queueOf s k).getLast? = some u then .ok s else .error "eq2: touches a thread that is not the tail of the queue"
    | .unlockB u =>
      if u ≠ t then (if (queueOf s k).getLast? = some u then .ok s else .error "eq2: touches a thread that is not the tail of the queue")
      else if s.b[t]? = some false then
        .ok { setQueue s k (queueOf s k ++ [t]) with b := s.b.set t true, pcs := s.pcs.set t (.eq3 k true) }
      else .ok (s.setPc t (.panicked (k == .cond)))   -- prepare_for_waitlist: assert!(!blocking && next.is_null())
    | _ => .error "eq2: expected the blocking-data bookkeeping"
  | .eq3 k queued =>
    match a with
    | .unlockWL =>
      .ok { s with wl := none, pcs := s.pcs.set t (afterEnqueue k queued) }
    | _ => .error "eq3: expected unlock of the wait table"
  -- ───────── DoraThread::block
  | .blkA k =>
    match a with
    | .lockB u =>
      if u = t then (match s.b[t]? with | some f => .ok (s.setPc t (.blk1 k f)) | none => .error "no such thread")
      else .error "blkA: locks another thread's blocking data"
    | _ => .error "blkA: expected lock of the own blocking data"
  | .blk1 k f =>
    match a with
    | .waitB => if f then .ok (s.setPc t (.sleeping k)) else .error "blk1: waits although the flag is clear"
    | .unlockB u =>
      if u = t ∧ f = false then .ok (s.setPc t (match k with | .mtx => .slow2 | .cond => .lk0))
      else .error "blk1: leaves although the flag is set"
    | _ => .error "blk1: expected wait or unlock"
  | .sleeping k =>
    match a with
    | .spurB => .ok (s.setPc t (.wokenB k))
    | _ => .error "sleeping: only a wake-up is possible"
  | .wokenB k =>
    match a with
    | .relockB => (match s.b[t]? with | some f => .ok (s.setPc t (.blk1 k f)) | none => .error "no such thread")
    | _ => .error "wokenB: expected relock"
  -- ───────── unlock_op
  | .ul c =>
    match a with
    | .swapW rd =>
      if rd ≠ s.w then .error "ul: value seen differs from the lock word"
      else if rd = 1 then .ok { s with w := 0, pcs := s.pcs.set t (match c with | .plain => .idle | .cwait => .blkA .cond) }
      else if rd = 2 then .ok { s with w := 0, pcs := s.pcs.set t (.wk0 .mtx false (match c with | .plain => .idle | .cwait => .block)) }
      else .ok { s with w := 0, pcs := s.pcs.set t (.panicked false) }   -- unlock_slow: assert(previous == LOCKED_CONTENDED)
    | _ => .error "ul: expected exchange on the lock word"
  -- ───────── wakeup / wakeup_all
  | .wk0 k all r =>
    match a with
    | .lockWL => if s.wl = none then .ok { s with wl := some t, pcs := s.pcs.set t (.wk1 k all r) } else .error "wk0: wait-table lock is held"
    | _ => .error "wk0: expected lock of the wait table"
  | .wk1 k all r =>
    match a with
    | .lockB u => if (queueOf s k).head? = some u then .ok s else .error "wk1: touches a thread that is not the head of the queue"
    | .unlockB u =>
      (match queueOf s k with
       | [] => .error "wk1: queue is empty"
       | hd :: rest =>
         if hd ≠ u then .error "wk1: wakes a thread that is not the head of the queue"
         else if !bFree s u then .error "wk1: the thread holds its own blocking data"
         else if s.b[u]? = some true then
           .ok { setQueue s k rest with b := s.b.set u false, pcs := s.pcs.set t (.wk2 k all r u) }
         else .ok (s.setPc t (.panicked (r == .crit))))  -- remove_from_waitlist: assert!(blocking)
    | .unlockWL =>
      if queueOf s k = [] then .ok { s with wl := none, pcs := s.pcs.set t (retPc r) }
      else .error "wk1: leaves although the queue is not empty (lost wake-up)"
    | _ => .error "wk1: expected remove_from_waitlist or unlock"
  | .wk2 k all r u =>
    match a with
    | .sigB v woken =>
      if v ≠ u then .error "wk2: signals another thread"
      else
        let asleep := match s.pcs[u]? with | some pc => isSleeping pc | none => false
        if asleep then
          (if woken = some u then
            .ok { s with pcs := (s.pcs.set u (wokenOf s u)).set t (if all then .wk1 k all r else .wk3 r) }
           else .error "wk2: the sleeping thread was not woken (lost signal)")
        else (if woken = none then .ok (s.setPc t (if all then .wk1 k all r else .wk3 r))
              else .error "wk2: a thread that is not sleeping was woken")
    | _ => .error "wk2: expected notify_one on the thread's condvar"
  | .wk3 r =>
    match a with
    | .unlockWL => .ok { s with wl := none, pcs := s.pcs.set t (retPc r) }
    | _ => .error "wk3: expected unlock of the wait table"
  -- ───────── Condition::notify_one / notify_all
  | .no0 r =>
    match a with
    | .loadCW rd =>
      if rd ≠ s.cw then .error "no0: value seen differs from waiters"
      else .ok (s.setPc t (if rd = 0 then retPc r else .wk0 .cond false r))
    | _ => .error "no0: expected load of waiters"
  | .na0 r =>
    match a with
    | .loadCW rd =>
      if rd ≠ s.cw then .error "na0: value seen differs from waiters"
      else .ok (s.setPc t (if rd = 0 then retPc r else .na1 r))
    | _ => .error "na0: expected load of waiters"
  | .na1 r =>
    match a with
    | .storeCW v => if v = 0 then .ok { s with cw := 0, pcs := s.pcs.set t (.wk0 .cond true r) } else .error "na1: waiters.set(0)"
    | _ => .error "na1: expected store to waiters"
  -- ───────── join / stop
  | .jn0 r u =>
    match a with
    | .lockJ v =>
      if v ≠ u then .error "jn0: locks another thread's join data"
      else if !jFree s u then .error "jn0: join data is locked"
      else (match s.running[u]? with | some f => .ok (s.setPc t (.jn1 r u f)) | none => .error "no such thread")
    | _ => .error "jn0: expected lock of the join data"
  | .jn1 r u f =>
    match a with
    | .waitJ v => if v = u ∧ f then .ok (s.setPc t (.jsl r u)) else .error "jn1: waits although the thread has stopped"
    | .unlockJ v => if v = u ∧ f = false then .ok (s.setPc t (retPc r)) else .error "jn1: returns although the thread is running"
    | _ => .error "jn1: expected wait or unlock"
  | .jsl r u =>
    match a with
    | .spurJ v => if v = u then .ok (s.setPc t (.jwk r u)) else .error "jsl: wrong condvar"
    | _ => .error "jsl: only a wake-up is possible"
  | .jwk r u =>
    match a with
    | .relockJ v =>
      if v ≠ u then .error "jwk: wrong mutex"
      else if !jFree s u then .error "jwk: join data is locked"
      else (match s.running[u]? with | some f => .ok (s.setPc t (.jn1 r u f)) | none => .error "no such thread")
    | _ => .error "jwk: expected relock"
  | .st0 =>
    match a with
    | .lockJ v => if v = t ∧ jFree s t then .ok (s.setPc t .st1) else .error "st0: join data is locked / wrong thread"
    | _ => .error "st0: expected lock of the own join data"
  | .st1 =>
    match a with
    | .naJ k =>
      if k = s.pcs.countP (isJsl t) then
        .ok { s with running := s.running.set t false, pcs := (s.pcs.map (wakeJ t)).set t .st2 }
      else .error "st1: number of woken joiners differs"
    | _ => .error "st1: expected notify_all"
  | .st2 =>
    match a with
    | .unlockJ v => if v = t then .ok (s.setPc t .fin) else .error "st2: wrong mutex"
    | _ => .error "st2: expected unlock"
  -- ───────── simulated collection
  | .gc0 r =>
    match a with
    | .lockWL => if s.wl = none then .ok { s with wl := some t, pcs := s.pcs.set t (.gc1 r) } else .error "gc0: wait-table lock is held"
    | _ => .error "gc0: expected lock of the wait table"
  | .gc1 r =>
    match a with
    | .unlockWL => .ok { s with wl := none, pcs := s.pcs.set t (retPc r) }
    | _ => .error "gc1: expected unlock of the wait table"
  | .fin => .error "fin: the thread has stopped"
  | .panicked _ => .error "panicked"

/-- Trace acceptor: one event of the real execution against the model. -/
def accept (s : State) (e : Event) : Except String State :=
  match s.pcs[e.tid]? with
  | none => .error "no such thread"
  | some pc => stepAt s e.tid pc e.act

/-- the harness' `ret` / `cs` marks: where the model must be when the real call returned -/
def markOk (s : State) (t : Nat) (mark arg : String) : Bool :=
  match s.pcs[t]? with
  | some .crit => (mark == "ret" && (arg == "lock" || arg == "cwait" || arg == "n1" || arg == "nall" || arg == "join" || arg == "gc"))
                  || mark == "cs"
  | some .idle => mark == "ret" && (arg == "unlock" || arg == "n1" || arg == "nall" || arg == "join" || arg == "gc")
  | some .fin => mark == "ret" && arg == "stop"
  | _ => false

end Dora.Wait.Mtx
