import DoraModel.Wait.MtxInv2
/-! # C09 — join returns only after stop -/
namespace Dora.Wait.Mtx

@[simp] theorem setQueue_b (s : State) (k : Kind) (l : List Nat) : (setQueue s k l).b = s.b := by cases k <;> rfl

/-- `running` is cleared only by `stop`'s step under the join lock, and a joiner that read `false` read the truth -/
structure RInv (s : State) : Prop where
  stopped : ∀ u : Nat, s.running[u]? = some false → s.pcs[u]? = some PC.st2 ∨ s.pcs[u]? = some PC.fin
  seen : ∀ (t : Nat) (r : Ret) (u : Nat), s.pcs[t]? = some (PC.jn1 r u false) → s.running[u]? = some false

theorem rinv_set {s s' : State} {t : Nat} {pc pc' : PC} (hr : RInv s) (hpc : s.pcs[t]? = some pc)
    (hp : s'.pcs = s.pcs.set t pc') (hrun : s'.running = s.running)
    (hst : pc = PC.st2 ∨ pc = PC.fin → pc' = PC.st2 ∨ pc' = PC.fin)
    (hjn : ∀ r u, pc' = PC.jn1 r u false → s.running[u]? = some false) : RInv s' := by
  have hlt : t < s.pcs.length := by
    rcases Nat.lt_or_ge t s.pcs.length with h | h
    · exact h
    · rw [List.getElem?_eq_none h] at hpc; cases hpc
  constructor
  · intro u hu
    rw [hrun] at hu
    rw [hp, List.getElem?_set]
    by_cases htu : t = u
    · subst htu
      simp only [if_true, hlt]
      have := hr.stopped t hu
      rw [hpc] at this
      have : pc = PC.st2 ∨ pc = PC.fin := by rcases this with h | h <;> cases h <;> simp
      rcases hst this with h | h <;> simp [h]
    · simp only [htu, if_false]; exact hr.stopped u hu
  · intro t' r u ht'
    rw [hrun]
    rw [hp, List.getElem?_set] at ht'
    by_cases htt : t = t'
    · subst htt
      simp only [if_true, hlt] at ht'
      cases ht'
      exact hjn r u rfl
    · simp only [htt, if_false] at ht'; exact hr.seen t' r u ht'

theorem lt_of_getElem? {α} {l : List α} {t : Nat} {x : α} (h : l[t]? = some x) : t < l.length := by
  rcases Nat.lt_or_ge t l.length with h1 | h1
  · exact h1
  · rw [List.getElem?_eq_none h1] at h; cases h

theorem rinv_sig {s s' : State} {t u : Nat} {pc pc' pcu : PC} (hr : RInv s) (hpc : s.pcs[t]? = some pc)
    (hu : s.pcs[u]? = some pcu) (hsl : isSleeping pcu = true)
    (hp : s'.pcs = (s.pcs.set u (wokenOf s u)).set t pc') (hrun : s'.running = s.running)
    (hst : pc ≠ PC.st2 ∧ pc ≠ PC.fin) (hjn : ∀ r v, pc' ≠ PC.jn1 r v false) : RInv s' := by
  have hlt := lt_of_getElem? hpc
  have hltu := lt_of_getElem? hu
  have hget : ∀ v, v ≠ t → v ≠ u → s'.pcs[v]? = s.pcs[v]? := by
    intro v h1 h2
    rw [hp, List.getElem?_set, if_neg (Ne.symm h1), List.getElem?_set, if_neg (Ne.symm h2)]
  have hgett : s'.pcs[t]? = some pc' := by rw [hp, List.getElem?_set]; simp [hlt]
  have hgetu : u ≠ t → s'.pcs[u]? = some (wokenOf s u) := by
    intro h; rw [hp, List.getElem?_set, if_neg (Ne.symm h), List.getElem?_set]; simp [hltu]
  constructor
  · intro v hv
    rw [hrun] at hv
    have hold := hr.stopped v hv
    by_cases hvt : v = t
    · subst hvt; rw [hpc] at hold
      rcases hold with h | h <;> cases h <;> simp at hst
    · by_cases hvu : v = u
      · subst hvu; rw [hu] at hold
        rcases hold with h | h <;> cases h <;> simp [isSleeping] at hsl
      · rw [hget v hvt hvu]; exact hold
  · intro t' r v ht'
    rw [hrun]
    by_cases h1 : t' = t
    · subst h1; rw [hgett] at ht'; cases ht'; exact absurd rfl (hjn r v)
    · by_cases h2 : t' = u
      · subst h2; rw [hgetu h1] at ht'; simp [wokenOf] at ht'
      · rw [hget t' h1 h2] at ht'; exact hr.seen t' r v ht'

theorem wakeJ_eq_jn1 {t : Nat} {x : PC} {r : Ret} {u : Nat} {f : Bool} (h : wakeJ t x = PC.jn1 r u f) : x = PC.jn1 r u f := by
  cases x <;> simp [wakeJ] at h ⊢
  · exact h
  · split at h <;> cases h

theorem wakeJ_st (t : Nat) (x : PC) (h : x = PC.st2 ∨ x = PC.fin) : wakeJ t x = x := by
  rcases h with h | h <;> subst h <;> rfl

theorem rinv_stop {s : State} {t : Nat} (hr : RInv s) (hpc : s.pcs[t]? = some PC.st1) (hlr : t < s.running.length) :
    RInv { s with running := s.running.set t false, pcs := (s.pcs.map (wakeJ t)).set t PC.st2 } := by
  have hlt := lt_of_getElem? hpc
  constructor
  · intro u hu
    simp only at hu ⊢
    rw [List.getElem?_set]
    by_cases htu : t = u
    · subst htu; simp [hlt]
    · rw [List.getElem?_set, if_neg htu] at hu
      simp only [htu, if_false, List.getElem?_map]
      rcases hr.stopped u hu with h | h <;> rw [h] <;> simp [wakeJ]
  · intro t' r u ht'
    simp only at ht' ⊢
    rw [List.getElem?_set] at ht'
    by_cases h1 : t = t'
    · subst h1; simp [hlt] at ht'
    · simp only [h1, if_false, List.getElem?_map] at ht'
      cases hx : s.pcs[t']? with
      | none => rw [hx] at ht'; simp at ht'
      | some x =>
        rw [hx] at ht'; simp only [Option.map_some, Option.some.injEq] at ht'
        have := wakeJ_eq_jn1 ht'
        subst this
        have hold := hr.seen t' r u hx
        rw [List.getElem?_set]
        by_cases h2 : t = u
        · subst h2; simp [hlr]
        · simp [h2, hold]

set_option maxHeartbeats 2000000 in
theorem rinv_step {s s' : State} {t : Nat} {pc : PC} {a : Act} (hb : Basic s) (hr : RInv s) (hpc : s.pcs[t]? = some pc)
    (h : stepAt s t pc a = .ok s') : RInv s' := by
  cases a <;> cases pc <;> simp only [stepAt] at h <;> (try (simp at h; done))
  all_goals (repeat' split at h)
  all_goals (try (simp at h; done))
  all_goals (simp only [Except.ok.injEq] at h; subst h)
  all_goals (try contradiction)
  all_goals (try (exact hr))
  all_goals (try (refine rinv_set hr hpc rfl (by first | rfl | simp) ?_ ?_ <;>
    first
      | (intro h; rcases h with h | h <;> cases h; done)
      | (intro r u h; cases h; done)
      | (simp; done)
      | (intro r u h; cases ‹Kind› <;> cases ‹Bool› <;> cases h; done)
      | (intro h; cases ‹Kind› <;> cases ‹Bool› <;> rcases h with h | h <;> cases h; done)
      | (intro r u h; cases ‹Ret› <;> cases h; done)
      | (intro h; cases ‹Ret› <;> rcases h with h | h <;> cases h; done)))
  all_goals (try (cases ‹Ret› <;> refine rinv_set hr hpc rfl rfl ?_ ?_ <;>
    first | (intro h; rcases h with h | h <;> cases h; done) | (intro r u h; cases h; done)))
  all_goals (try (refine rinv_set hr hpc rfl rfl ?_ ?_ <;>
    first | (intro h; rcases h with h | h <;> cases h; done) | (intro r' u' h; cases h; assumption)))
  all_goals (try (refine rinv_sig hr hpc ‹_› ‹_› rfl rfl ?_ ?_ <;>
    first | (constructor <;> intro h <;> cases h; done) | (intro r v h; cases h; done)))
  all_goals (exact rinv_stop hr hpc (by rw [hb.lr, ← hb.lp]; exact lt_of_getElem? hpc))

end Dora.Wait.Mtx
