import DoraModel.Wait.HmapLemmas2
/-! # C09 — wait table: specifications of `insert` / `remove` without rehash, and of `rehash` -/
namespace Dora.Wait.Hmap

/-- a table that is valid for the current addresses -/
structure Cur (m : Map) : Prop where
  pow2 : ∃ n, m.capacity = 2 ^ n
  len : m.data.length = m.capacity
  cnt : m.entries = m.data.countP (fun (e : Entry) => decide (1 < e.key))
  nodup : NoDup m.data
  hashed : Hashed m.data m.capacity
  del : m.deleted = tombstones m

/-- one slot rewritten: how the number of slots in a class changes -/
theorem countP_set_gen (q : Entry → Bool) {d : List Entry} {p : Nat} {e e' : Entry} (h : d[p]? = some e) :
    (d.set p e').countP q + (q e).toNat = d.countP q + (q e').toNat := by
  obtain ⟨hp, hpe⟩ := getElem_of_getElem? h
  rw [List.countP_set hp, hpe]
  have hpos : (q e).toNat ≤ d.countP q := by
    cases hq : q e
    · exact Nat.zero_le _
    · exact List.countP_pos_iff.mpr ⟨e, by rw [← hpe]; exact List.getElem_mem hp, hq⟩
  generalize d.countP q = c at hpos ⊢
  clear hp hpe h
  revert hpos
  cases q e <;> cases q e' <;> intro hpos <;>
    simp only [Bool.toNat_true, Bool.toNat_false, Bool.false_eq_true, ↓reduceIte] at hpos ⊢ <;> omega

def NoTomb (m : Map) : Prop := ∀ (i : Nat) (e : Entry), m.data[i]? = some e → e.key ≠ 1

theorem home_ok {m : Map} {n : Nat} (hc : m.capacity = 2 ^ n) (k : Nat) : home m k = .ok (k % m.capacity) := by
  have := pow2_pos ⟨n, hc⟩
  unfold home; rw [if_neg (by omega), home_mod k hc]

theorem skip_nonEmpty {d : List Entry} {k i : Nat} (h : ∃ e : Entry, d[i]? = some e ∧ Skip k e) : NonEmptyAt d i := by
  obtain ⟨e, he, hs⟩ := h
  exact ⟨e, he, by unfold Skip at hs; omega⟩

theorem insertCore_spec {m : Map} (hC : Cur m) (hlt : m.entries < m.capacity) (he : HasEmpty m)
    {k : Nat} (v : Nat) (hk : 1 < k) :
    ∃ m', insertCore m k v = .ok m' ∧ Cur m' ∧ m'.capacity = m.capacity ∧ m'.gcEpoch = m.gcEpoch ∧
      (∀ k' v', Lookup m' k' v' ↔ ((k' = k ∧ v' = v) ∨ (k' ≠ k ∧ Lookup m k' v'))) ∧
      ((∃ v0, Lookup m k v0) → m'.entries = m.entries ∧ m'.deleted = m.deleted) ∧
      ((∀ v0, ¬ Lookup m k v0) → m'.entries = m.entries + 1 ∧ m'.deleted ≤ m.deleted) ∧
      (NoTomb m → NoTomb m') := by
  obtain ⟨n, hc⟩ := hC.pow2
  have hcpos : 0 < m.capacity := pow2_pos ⟨n, hc⟩
  unfold insertCore
  rw [if_pos hlt, home_ok hc]
  simp only
  have hnt : ∀ (p : Nat), NoTomb m → NoTomb { m with data := m.data.set p ⟨k, v⟩ } := by
    intro p h i e hie
    simp only [List.getElem?_set] at hie
    split at hie
    · split at hie
      · cases hie; simp; omega
      · cases hie
    · exact h i e hie
  by_cases hpres : ∃ v0, Lookup m k v0
  · obtain ⟨v0, i, hl⟩ := hpres
    obtain ⟨d0, hd0, hidx, hskip⟩ := locate_found hC.len hC.nodup hC.hashed hl
    obtain ⟨acc', heq, _, _⟩ := insertLoop_skip hc k v d0 (m.capacity - d0) k none hskip
    rw [show m.capacity - d0 + d0 = m.capacity by omega] at heq
    have hp : i < m.data.length := (getElem_of_getElem? hl.1).1
    rw [heq, show m.capacity - d0 = (m.capacity - d0 - 1) + 1 by omega,
      insertLoop_stop_live hk (e := ⟨k, v0⟩) (by rw [hidx]; exact hl.1) rfl, hidx]
    obtain ⟨h1, h2, h3⟩ := set_spec (v := v) hk hp hC.nodup hC.hashed
      (fun j k' v' hj hne hkk => hne (by subst hkk; exact hC.nodup _ _ _ _ _ hj hl))
      (fun k' v' hj => by have := hj.1; rw [hl.1] at this; cases this; rfl)
      (by obtain ⟨D, hD, hDi, hpath⟩ := hC.hashed i k v0 hl; exact ⟨D, hD, hDi, hpath⟩)
    have hcnt := countP_set_live (e' := ⟨k, v⟩) hl.1
    have htomb := countP_set_gen (fun (e : Entry) => e.key == 1) (e' := ⟨k, v⟩) hl.1
    have hk1 : (k == 1) = false := by simp; omega
    simp only [hk1, Bool.toNat_false, Nat.add_zero] at htomb
    refine ⟨_, rfl, ⟨⟨n, hc⟩, by simp [hC.len], ?_, h1, h2, ?_⟩, rfl, rfl, h3, fun _ => ⟨rfl, rfl⟩, ?_, hnt i⟩
    · simp only [hk, hl.2, if_true] at hcnt
      have := hC.cnt
      simp only; omega
    · have := hC.del; unfold tombstones at this ⊢; simp only; omega
    · intro habs; exact absurd ⟨i, hl⟩ (habs v0)
  · have habs : ∀ v0, ¬ Lookup m k v0 := fun v0 h => hpres ⟨v0, h⟩
    obtain ⟨d0, e0, hd0, he0, hk0, hskip⟩ := locate_absent hC.len hk habs he
    obtain ⟨acc', heq, hnone, hsome⟩ := insertLoop_skip hc k v d0 (m.capacity - d0) k none hskip
    rw [show m.capacity - d0 + d0 = m.capacity by omega] at heq
    -- where the entry goes
    have hpI : ∃ (pI dI : Nat) (eI : Entry), acc'.getD ((k + d0) % m.capacity) = pI ∧
        dI ≤ d0 ∧ pI = (k + dI) % m.capacity ∧ m.data[pI]? = some eI ∧ eI.key ≤ 1 := by
      cases hacc : acc' with
      | none => exact ⟨_, d0, e0, rfl, Nat.le_refl _, rfl, he0, by omega⟩
      | some i0 =>
        rcases hsome i0 hacc with h | ⟨_, j, hj, hij, e, hei, hek⟩
        · cases h
        · exact ⟨i0, j, e, rfl, by omega, hij, hei, by omega⟩
    obtain ⟨pI, dI, eI, hpeq, hdI, hpI, heI, hkI⟩ := hpI
    rw [heq, show m.capacity - d0 = (m.capacity - d0 - 1) + 1 by omega,
      insertLoop_stop_empty he0 hk0 (by rw [hpeq]; exact heI), hpeq]
    have hp : pI < m.data.length := (getElem_of_getElem? heI).1
    obtain ⟨h1, h2, h3⟩ := set_spec (v := v) hk hp hC.nodup hC.hashed
      (fun j k' v' hj _ hkk => habs v' ⟨j, by subst hkk; exact hj⟩)
      (fun k' v' hj => by have := hj.1; rw [heI] at this; cases this; have := hj.2; simp at hkI; omega)
      ⟨dI, by omega, hpI.symm, fun j hj => skip_nonEmpty (hskip j (by omega))⟩
    have hcnt := countP_set_live (e' := ⟨k, v⟩) heI
    have htomb := countP_set_gen (fun (e : Entry) => e.key == 1) (e' := ⟨k, v⟩) heI
    have hk1 : (k == 1) = false := by simp; omega
    have hn : ¬ (1 < eI.key) := by omega
    simp only [hk1, Bool.toNat_false, Nat.add_zero] at htomb
    simp only [hk, hn, if_true, if_false] at hcnt
    have hcn := hC.cnt
    have hdl := hC.del
    unfold tombstones at hdl
    by_cases hI1 : eI.key = 1
    · have hb : (eI.key == 1) = true := by simp [hI1]
      rw [hb] at htomb; simp only [Bool.toNat_true] at htomb
      have hd : ¬ (m.deleted = 0) := by omega
      rw [if_pos hI1, if_neg hd]
      refine ⟨_, rfl, ⟨⟨n, hc⟩, by simp [hC.len], ?_, h1, h2, ?_⟩, rfl, rfl, h3, ?_, fun _ => ⟨rfl, by simp only; omega⟩, ?_⟩
      · simp only; omega
      · unfold tombstones; simp only; omega
      · intro ⟨v0, h⟩; exact absurd h (habs v0)
      · intro hT; exact absurd hI1 (hT pI eI heI)
    · have hb : (eI.key == 1) = false := by simp [hI1]
      rw [hb] at htomb; simp only [Bool.toNat_false, Nat.add_zero] at htomb
      rw [if_neg hI1]
      refine ⟨_, rfl, ⟨⟨n, hc⟩, by simp [hC.len], ?_, h1, h2, ?_⟩, rfl, rfl, h3, ?_, fun _ => ⟨rfl, Nat.le_refl _⟩, hnt pI⟩
      · simp only; omega
      · unfold tombstones; simp only; omega
      · intro ⟨v0, h⟩; exact absurd h (habs v0)

theorem removeLoop_spec {m : Map} (hC : Cur m) {k : Nat} (hk : 1 < k) (he : HasEmpty m) :
    ∃ r m', removeLoop m k m.capacity (k % m.capacity) = .ok (r, m') ∧ Cur m' ∧ m'.capacity = m.capacity ∧
      m'.gcEpoch = m.gcEpoch ∧ (∀ v, r = some v ↔ Lookup m k v) ∧
      (∀ k' v', Lookup m' k' v' ↔ (k' ≠ k ∧ Lookup m k' v')) ∧ m'.entries + m'.deleted ≤ m.entries + m.deleted ∧
      HasEmpty m' := by
  obtain ⟨n, hc⟩ := hC.pow2
  have hcpos : 0 < m.capacity := pow2_pos ⟨n, hc⟩
  by_cases hpres : ∃ v0, Lookup m k v0
  · obtain ⟨v0, i, hl⟩ := hpres
    obtain ⟨d0, hd0, hidx, hskip⟩ := locate_found hC.len hC.nodup hC.hashed hl
    have heq := removeLoop_skip hc k d0 (m.capacity - d0) k hskip
    rw [show m.capacity - d0 + d0 = m.capacity by omega] at heq
    have hp : i < m.data.length := (getElem_of_getElem? hl.1).1
    have hcnt := countP_set_live (e' := ⟨1, 0⟩) hl.1
    simp only [hl.2, if_true, show ¬ (1 < (⟨1, 0⟩ : Entry).key) by simp, if_false] at hcnt
    have hne : ¬ (m.entries = 0) := by have := hC.cnt; omega
    rw [heq, show m.capacity - d0 = (m.capacity - d0 - 1) + 1 by omega,
      removeLoop_stop hk (e := ⟨k, v0⟩) (by rw [hidx]; exact hl.1) (Or.inr rfl), hidx]
    have hk0 : ¬ ((⟨k, v0⟩ : Entry).key = 0) := by simp; omega
    rw [if_neg hk0, if_neg hne]
    obtain ⟨h1, h2, h3⟩ := del_spec hp hC.nodup hC.hashed hl
    have htomb := countP_set_gen (fun (e : Entry) => e.key == 1) (e' := ⟨1, 0⟩) hl.1
    have hk1 : (k == 1) = false := by simp; omega
    simp only [hk1, Bool.toNat_false, Nat.add_zero, show ((1 : Nat) == 1) = true from rfl, Bool.toNat_true] at htomb
    refine ⟨_, _, rfl, ⟨⟨n, hc⟩, by simp [hC.len], ?_, h1, h2, ?_⟩, rfl, rfl, ?_, h3, by simp only; omega, ?_⟩
    · have := hC.cnt; simp only; omega
    · have := hC.del; unfold tombstones at this ⊢; simp only; omega
    · intro v; constructor
      · intro h; cases h; exact ⟨i, hl⟩
      · rintro ⟨j, hj⟩
        have := hC.nodup _ _ _ _ _ hj hl
        subst this
        have := hj.1; rw [hl.1] at this; cases this; rfl
    · obtain ⟨ie, ee, hee, hk0'⟩ := he
      refine ⟨ie, ee, ?_, hk0'⟩
      simp only [List.getElem?_set]
      have : i ≠ ie := by
        intro h; subst h; rw [hl.1] at hee; cases hee; simp at hk0'; omega
      simp [this, hee]
  · have habs : ∀ v0, ¬ Lookup m k v0 := fun v0 h => hpres ⟨v0, h⟩
    obtain ⟨d0, e0, hd0, he0, hk0, hskip⟩ := locate_absent hC.len hk habs he
    have heq := removeLoop_skip hc k d0 (m.capacity - d0) k hskip
    rw [show m.capacity - d0 + d0 = m.capacity by omega] at heq
    rw [heq, show m.capacity - d0 = (m.capacity - d0 - 1) + 1 by omega,
      removeLoop_stop hk he0 (Or.inl hk0), if_pos hk0]
    refine ⟨none, m, rfl, hC, rfl, rfl, ?_, ?_, Nat.le_refl _, he⟩
    · intro v; constructor
      · intro h; cases h
      · intro h; exact absurd h (habs v)
    · intro k' v'; constructor
      · intro h; refine ⟨?_, h⟩; intro hkk; subst hkk; exact habs v' h
      · intro h; exact h.2

/-! ## counting slots -/

theorem count_split : ∀ d : List Entry, (∀ e, e ∈ d → e.key ≠ 0) →
    d.countP (fun (e : Entry) => decide (1 < e.key)) + d.countP (fun (e : Entry) => e.key == 1) = d.length := by
  intro d
  induction d with
  | nil => intro _; rfl
  | cons a rest ih =>
    intro h
    have h1 := ih (fun e he => h e (List.mem_cons_of_mem _ he))
    have ha := h a (List.mem_cons_self)
    simp only [List.countP_cons, List.length_cons]
    by_cases hk : 1 < a.key
    · have : ¬ (a.key = 1) := by omega
      simp [hk, this]; omega
    · have : a.key = 1 := by omega
      simp [this]; omega

theorem hasEmpty_of_counts {m : Map} (hlen : m.data.length = m.capacity)
    (hcnt : m.entries = m.data.countP (fun (e : Entry) => decide (1 < e.key)))
    (h : m.entries + tombstones m < m.capacity) : HasEmpty m := by
  apply Classical.byContradiction
  intro hne
  have hall : ∀ e, e ∈ m.data → e.key ≠ 0 := by
    intro e he h0
    obtain ⟨i, hi⟩ := List.getElem?_of_mem he
    exact hne ⟨i, e, hi, h0⟩
  have := count_split m.data hall
  unfold tombstones at h
  omega

theorem tombstones_zero {m : Map} (h : NoTomb m) : tombstones m = 0 := by
  unfold tombstones
  rw [List.countP_eq_zero]
  intro e he
  obtain ⟨i, hi⟩ := List.getElem?_of_mem he
  have := h i e hi
  simp [this]

/-! ## rehash -/

theorem rehashLoop_spec (ep c : Nat) : ∀ (rest : List Entry) (nm : Map), Cur nm → NoTomb nm →
    nm.capacity = c → nm.gcEpoch = ep →
    (∀ e, e ∈ rest → 1 < e.key → ∀ v, ¬ Lookup nm e.key v) →
    rest.Pairwise (fun a b => 1 < a.key → a.key ≠ b.key) →
    nm.entries + rest.countP (fun (e : Entry) => decide (1 < e.key)) ≤ c - c / 4 →
    ∃ nm', rehashLoop rest nm = .ok nm' ∧ Cur nm' ∧ NoTomb nm' ∧ nm'.capacity = c ∧ nm'.gcEpoch = ep ∧
      nm'.entries = nm.entries + rest.countP (fun (e : Entry) => decide (1 < e.key)) ∧
      (∀ k v, Lookup nm' k v ↔ (Lookup nm k v ∨ (⟨k, v⟩ ∈ rest ∧ 1 < k))) := by
  intro rest
  induction rest with
  | nil =>
    intro nm hC hT hcap hep _ _ _
    exact ⟨nm, rfl, hC, hT, hcap, hep, by simp, by intro k v; simp⟩
  | cons a rest ih =>
    intro nm hC hT hcap hep habs hpw hload
    rw [List.pairwise_cons] at hpw
    simp only [List.countP_cons] at hload ⊢
    unfold rehashLoop
    by_cases ha : 1 < a.key
    · simp only [ha, if_true, decide_true] at hload ⊢
      have hcpos : 0 < nm.capacity := pow2_pos hC.pow2
      have hd0 : nm.deleted = 0 := by rw [hC.del, tombstones_zero hT]
      have hnov : overflow nm = false := by unfold overflow; simp; omega
      have hlt : nm.entries < nm.capacity := by omega
      have hE : HasEmpty nm := hasEmpty_of_counts hC.len hC.cnt (by rw [tombstones_zero hT]; omega)
      have habsa : ∀ v0, ¬ Lookup nm a.key v0 := habs a List.mem_cons_self ha
      obtain ⟨nm1, h1, hC1, hcap1, hep1, hlk1, _, hent1, hT1⟩ := insertCore_spec hC hlt hE a.val ha
      unfold insertNR
      simp only [hnov, h1]
      obtain ⟨nm', h2, hC2, hT2, hcap2, hep2, hent2, hlk2⟩ := ih nm1 hC1 (hT1 hT) (by omega) (by omega)
        (by
          intro e he hek v hl
          rcases (hlk1 e.key v).mp hl with ⟨h3, _⟩ | ⟨_, h3⟩
          · exact hpw.1 e he ha h3.symm
          · exact habs e (List.mem_cons_of_mem _ he) hek v h3)
        hpw.2 (by rw [(hent1 habsa).1]; omega)
      refine ⟨nm', h2, hC2, hT2, hcap2, hep2, by rw [hent2, (hent1 habsa).1]; omega, ?_⟩
      intro k v
      rw [hlk2, hlk1]
      constructor
      · rintro ((⟨h3, h4⟩ | ⟨_, h3⟩) | ⟨h3, h4⟩)
        · subst h3; subst h4; exact Or.inr ⟨List.mem_cons_self, ha⟩
        · exact Or.inl h3
        · exact Or.inr ⟨List.mem_cons_of_mem _ h3, h4⟩
      · rintro (h3 | ⟨h3, h4⟩)
        · by_cases hk : k = a.key
          · subst hk; exact absurd h3 (habsa v)
          · exact Or.inl (Or.inr ⟨hk, h3⟩)
        · rcases List.mem_cons.mp h3 with h5 | h5
          · exact Or.inl (Or.inl (by rw [← h5]; exact ⟨rfl, rfl⟩))
          · exact Or.inr ⟨h5, h4⟩
    · simp only [ha, if_false, decide_false] at hload ⊢
      obtain ⟨nm', h2, hC2, hT2, hcap2, hep2, hent2, hlk2⟩ := ih nm hC hT hcap hep
        (fun e he => habs e (List.mem_cons_of_mem _ he)) hpw.2 (by simpa using hload)
      refine ⟨nm', h2, hC2, hT2, hcap2, hep2, by simpa using hent2, ?_⟩
      intro k v
      rw [hlk2]
      constructor
      · rintro (h3 | ⟨h3, h4⟩)
        · exact Or.inl h3
        · exact Or.inr ⟨List.mem_cons_of_mem _ h3, h4⟩
      · rintro (h3 | ⟨h3, h4⟩)
        · exact Or.inl h3
        · rcases List.mem_cons.mp h3 with h5 | h5
          · exact absurd (by rw [← h5]; exact h4) ha
          · exact Or.inr ⟨h5, h4⟩

end Dora.Wait.Hmap
