import DoraModel.Wait.Mtx
/-!
# C09 — executable forms of the protocol invariants

`mutual_exclusion`, `join_after_stop`, … are theorems (Props/C09.lean).  The invariants below are the ones
the no-lost-wake-up argument of DESIGN A.3 rests on; they are stated here as `Bool` functions and evaluated
by the driver on EVERY model state visited while accepting the traces of the real code (a `false` is a
rejected trace).  Those that are also proved are marked; the others are compared only.
-/
namespace Dora.Wait.Mtx

def pcAt (s : State) (u : Nat) : PC := s.pcs.getD u .idle

def threads (s : State) : List Nat := List.range s.pcs.length

/-- the thread is inside a section of the wait-table lock -/
def holdsWL : PC → Bool
  | .eq1 _ | .eq2 _ | .eq3 _ _ | .wk1 _ _ _ | .wk2 _ _ _ _ | .wk3 _ | .gc1 _ => true
  | _ => false

/-- (WL) only the owner of the wait-table lock is inside one of its sections -/
def chkWL (s : State) : Bool := (threads s).all fun u => !holdsWL (pcAt s u) || s.wl == some u

/-- where a thread queued on the mutex can be -/
def mtxPhase : PC → Bool
  | .eq3 .mtx true | .blkA .mtx | .blk1 .mtx _ | .sleeping .mtx | .wokenB .mtx => true
  | _ => false

/-- where a thread queued on the condition can be (it still has to release the mutex, then blocks) -/
def condPhase : PC → Bool
  | .eq3 .cond true | .ul .cwait | .wk0 .mtx false .block | .wk1 .mtx false .block | .wk2 .mtx false .block _
  | .wk3 .block | .blkA .cond | .blk1 .cond _ | .sleeping .cond | .wokenB .cond => true
  | _ => false

/-- (Q) queues are duplicate-free, disjoint, every queued thread has its `blocking` flag set and is in the
matching phase of its code; a set flag means queued; a flag read under `B_t` is current -/
def chkQ (s : State) : Bool :=
  s.q.all (fun u => s.b.getD u false && mtxPhase (pcAt s u)) &&
  s.cq.all (fun u => s.b.getD u false && condPhase (pcAt s u)) &&
  (s.q ++ s.cq).eraseDups.length == (s.q ++ s.cq).length &&
  (threads s).all (fun u => !s.b.getD u false || (s.q ++ s.cq).contains u) &&
  (threads s).all (fun u => match pcAt s u with | .blk1 _ f => s.b.getD u false == f | _ => true)

def isPendingNotify : PC → Bool
  | .wk0 .mtx false _ | .wk1 .mtx false _ => true
  | _ => false

def isWk0 (k : Kind) (all : Bool) : PC → Bool
  | .wk0 k' all' _ => k' == k && all' == all
  | _ => false

/-- in the slow path of `lock_op` (will retry the acquiring CAS unless it is queued) -/
def slowPath : PC → Bool
  | .slow0 | .slow2 | .eq0 .mtx | .eq1 .mtx | .eq2 .mtx | .eq3 .mtx _ | .blkA .mtx | .blk1 .mtx _
  | .sleeping .mtx | .wokenB .mtx => true
  | _ => false

/-- (E) a thread that has decided to enqueue (it saw the expected value under the wait-table lock) is
covered: the value is still there, or whoever changed it is on its way to the wait table -/
def chkE (s : State) : Bool :=
  (threads s).all fun u => match pcAt s u with
    | .eq2 .mtx => s.w == 2 || s.pcs.any (isWk0 .mtx false)
    | .eq2 .cond => s.cw != 0 || s.pcs.any (isWk0 .cond true)
    | _ => true

/-- (J) no lost wake-up on the mutex: a non-empty queue is covered by a contended lock word (whose owner
will notify), by a notifier between its exchange and its pop, or by a slow-path thread that is not queued -/
def chkJ (s : State) : Bool :=
  s.q.isEmpty || s.w == 2 || s.pcs.any isPendingNotify ||
  (threads s).any (fun u => slowPath (pcAt s u) && !s.q.contains u)

/-- (S) no lost signal: a thread asleep in `cv_blocking.wait` with a cleared flag has a signal pending -/
def chkS (s : State) : Bool :=
  (threads s).all fun u => !(isSleeping (pcAt s u) && !s.b.getD u false) ||
    s.pcs.any (fun pc => match pc with | .wk2 _ _ _ v => v == u | _ => false)

def inFlightNotifyAll : PC → Bool
  | .wk0 .cond true _ | .wk1 .cond true _ | .wk2 .cond true _ _ => true
  | _ => false

/-- (W) `waiters = 0` implies the condition's queue is empty, except while a `notify_all` is between its
store and the end of its sweep -/
def chkW (s : State) : Bool := s.cq.isEmpty || s.cw != 0 || s.pcs.any inFlightNotifyAll

def chkNoPanic (s : State) : Bool := !s.pcs.any isPanicked

/-- name of the first violated invariant -/
def invCheck (s : State) : Option String :=
  if !chkNoPanic s then some "no-panic"
  else if !chkWL s then some "WL"
  else if !chkQ s then some "Q"
  else if !chkE s then some "E"
  else if !chkJ s then some "J(no-lost-wakeup)"
  else if !chkS s then some "S(no-lost-signal)"
  else if !chkW s then some "W(waiters)"
  else none

end Dora.Wait.Mtx
