import DoraModel.Wait.MtxInv
/-! # C09 — mutual exclusion is inductive -/
namespace Dora.Wait.Mtx

@[simp] theorem setQueue_w (s : State) (k : Kind) (l : List Nat) : (setQueue s k l).w = s.w := by cases k <;> rfl
@[simp] theorem setQueue_pcs (s : State) (k : Kind) (l : List Nat) : (setQueue s k l).pcs = s.pcs := by cases k <;> rfl
@[simp] theorem setQueue_cw (s : State) (k : Kind) (l : List Nat) : (setQueue s k l).cw = s.cw := by cases k <;> rfl
@[simp] theorem setQueue_wl (s : State) (k : Kind) (l : List Nat) : (setQueue s k l).wl = s.wl := by cases k <;> rfl
@[simp] theorem setQueue_running (s : State) (k : Kind) (l : List Nat) : (setQueue s k l).running = s.running := by cases k <;> rfl
@[simp] theorem setQueue_n (s : State) (k : Kind) (l : List Nat) : (setQueue s k l).n = s.n := by cases k <;> rfl

theorem kinv_same {s s' : State} (hk : KInv s) (hc : s'.pcs.countP holds = s.pcs.countP holds)
    (hw : s'.w = 0 ↔ s.w = 0) : KInv s' :=
  ⟨by rw [hc]; exact hk.le1, by rw [hc, hw]; exact hk.zero⟩

theorem kinv_set {s s' : State} {t : Nat} {pc pc' : PC} (hk : KInv s) (hpc : s.pcs[t]? = some pc)
    (hp : s'.pcs = s.pcs.set t pc') (hh : holds pc' = holds pc) (hw : s'.w = s.w) : KInv s' :=
  kinv_same hk (by rw [hp, countP_set_same holds hpc hh]) (by rw [hw])

theorem kinv_acquire {s s' : State} {t : Nat} {pc pc' : PC} (hk : KInv s) (hpc : s.pcs[t]? = some pc)
    (hp : s'.pcs = s.pcs.set t pc') (hx : holds pc = false) (hy : holds pc' = true) (hw0 : s.w = 0) (hw' : s'.w ≠ 0) :
    KInv s' := by
  have h0 := hk.zero.mp hw0
  have hc : s'.pcs.countP holds = s.pcs.countP holds + 1 := by rw [hp, countP_set_ft holds hpc hx hy]
  exact ⟨by omega, by constructor <;> intro h <;> omega⟩

theorem kinv_release {s s' : State} {t : Nat} {pc pc' : PC} (hk : KInv s) (hpc : s.pcs[t]? = some pc)
    (hp : s'.pcs = s.pcs.set t pc') (hx : holds pc = true) (hy : holds pc' = false) (hw' : s'.w = 0) :
    KInv s' := by
  have hc : s'.pcs.countP holds + 1 = s.pcs.countP holds := by rw [hp, countP_set_tf holds hpc hx hy]
  have := hk.le1
  exact ⟨by omega, by constructor <;> intro h <;> omega⟩

theorem kinv_sig {s s' : State} {t u : Nat} {pc pc' pcu : PC} (hk : KInv s) (hpc : s.pcs[t]? = some pc)
    (hu : s.pcs[u]? = some pcu) (hsl : isSleeping pcu = true)
    (hp : s'.pcs = (s.pcs.set u (wokenOf s u)).set t pc') (hh : holds pc' = holds pc) (hw : s'.w = s.w) : KInv s' := by
  have hpcu : holds pcu = false := by cases pcu <;> simp [isSleeping] at hsl <;> rfl
  have hwk : holds (wokenOf s u) = false := rfl
  have h1 : (s.pcs.set u (wokenOf s u)).countP holds = s.pcs.countP holds :=
    countP_set_same holds hu (by rw [hwk, hpcu])
  refine kinv_same hk ?_ (by rw [hw])
  rw [hp]
  by_cases hut : u = t
  · subst hut
    rw [hu] at hpc; cases hpc
    have hlt : u < s.pcs.length := by
      rcases Nat.lt_or_ge u s.pcs.length with h | h
      · exact h
      · rw [List.getElem?_eq_none h] at hu; cases hu
    have h2 : (s.pcs.set u (wokenOf s u))[u]? = some (wokenOf s u) := by simp [hlt]
    rw [countP_set_same holds h2 (by rw [hh, hwk, hpcu]), h1]
  · have h2 : (s.pcs.set u (wokenOf s u))[t]? = some pc := by rw [List.getElem?_set]; simp [hut, hpc]
    rw [countP_set_same holds h2 hh, h1]

set_option maxHeartbeats 2000000 in
theorem kinv_step {s s' : State} {t : Nat} {pc : PC} {a : Act} (hk : KInv s) (hpc : s.pcs[t]? = some pc)
    (h : stepAt s t pc a = .ok s') : KInv s' := by
  cases a <;> cases pc <;> simp only [stepAt] at h <;> (try (simp at h; done))
  all_goals (repeat' split at h)
  all_goals (try (simp at h; done))
  all_goals (simp only [Except.ok.injEq] at h; subst h)
  all_goals (try contradiction)
  all_goals (try (exact hk))
  all_goals (try (refine kinv_set hk hpc rfl ?_ ?_ <;>
    first | rfl | (simp [State.setPc, holds, holds_retPc, afterEnqueue]; done) | (cases ‹Ret› <;> rfl) | (cases ‹Kind› <;> cases ‹Bool› <;> rfl)))
  all_goals (try (refine kinv_set hk hpc rfl ?_ rfl; first | (cases ‹Kind› <;> rfl) | (cases ‹Ret› <;> rfl)))
  case casW.lk0.isFalse.isTrue.isTrue => exact kinv_acquire hk hpc rfl rfl rfl (by omega) (by simp)
  case casW.slow0.isFalse.isTrue.isTrue =>
    exact kinv_same hk (by simp [countP_set_same holds hpc (show holds (PC.eq0 Kind.mtx) = holds PC.slow0 from rfl)])
      (by simp; omega)
  case casW.slow2.isFalse.isTrue.isTrue => exact kinv_acquire hk hpc rfl rfl rfl (by omega) (by simp)
  case swapW.ul.isFalse.isFalse.isFalse => exact kinv_release hk hpc rfl rfl rfl rfl
  case naJ.st1.isTrue =>
    refine kinv_same hk ?_ (by simp)
    have h1 : (List.map (wakeJ t) s.pcs)[t]? = some (wakeJ t PC.st1) := by simp [hpc]
    simp only
    rw [countP_set_same holds h1 (by rfl), countP_map_wakeJ]
  all_goals (try (exact kinv_release hk hpc rfl rfl rfl rfl))
  all_goals (exact kinv_sig hk hpc (by assumption) (by assumption) rfl rfl rfl)

end Dora.Wait.Mtx
