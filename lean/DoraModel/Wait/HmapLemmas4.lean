import DoraModel.Wait.HmapLemmas3
/-! # C09 — wait table: `rehash`, `capacity_for_entries`, and the three public operations -/
namespace Dora.Wait.Hmap

theorem capLoop_spec (e : Nat) : ∀ (fuel cap n : Nat), cap = 2 ^ n → 8 ≤ cap → e ≤ fuel + (cap - cap / 4) →
    (∃ n', capLoop e fuel cap = 2 ^ n') ∧ e ≤ capLoop e fuel cap - capLoop e fuel cap / 4 ∧
      8 ≤ capLoop e fuel cap := by
  intro fuel
  induction fuel with
  | zero => intro cap n hc h8 he; exact ⟨⟨n, hc⟩, by simpa [capLoop] using he, h8⟩
  | succ fuel ih =>
    intro cap n hc h8 he
    unfold capLoop
    by_cases hgt : e > cap - cap / 4
    · rw [if_pos hgt]
      exact ih (cap * 2) (n + 1) (by rw [hc, Nat.pow_succ]) (by omega) (by omega)
    · rw [if_neg hgt]
      exact ⟨⟨n, hc⟩, by omega, h8⟩

theorem capacityForEntries_spec (e : Nat) :
    (∃ n, capacityForEntries e = 2 ^ n) ∧ e ≤ capacityForEntries e - capacityForEntries e / 4 ∧
      8 ≤ capacityForEntries e :=
  capLoop_spec e e 8 3 (by decide) (by decide) (by omega)

theorem live_replicate_false {c i k v : Nat} : ¬ Live (List.replicate c (⟨0, 0⟩ : Entry)) i k v := by
  intro ⟨h1, h2⟩
  rw [List.getElem?_replicate] at h1
  split at h1
  · cases h1; omega
  · cases h1

theorem lookup_iff_mem {m : Map} (k v : Nat) : Lookup m k v ↔ ((⟨k, v⟩ : Entry) ∈ m.data ∧ 1 < k) := by
  constructor
  · rintro ⟨i, h1, h2⟩; exact ⟨List.mem_of_getElem? h1, h2⟩
  · rintro ⟨h1, h2⟩; obtain ⟨i, hi⟩ := List.getElem?_of_mem h1; exact ⟨i, hi, h2⟩

theorem rehash_spec {m : Map} (ep : Nat)
    (hcnt : m.entries = m.data.countP (fun (e : Entry) => decide (1 < e.key))) (hnd : NoDup m.data)
    {c n : Nat} (hc : c = 2 ^ n) (hload : m.entries ≤ c - c / 4) :
    ∃ m', rehash m ep c = .ok m' ∧ Cur m' ∧ NoTomb m' ∧ m'.capacity = c ∧ m'.gcEpoch = ep ∧
      m'.entries = m.entries ∧ m'.deleted = 0 ∧ (∀ k v, Lookup m' k v ↔ Lookup m k v) := by
  have hC0 : Cur (withCapacity c ep) := by
    refine ⟨⟨n, hc⟩, by simp [withCapacity], ?_, ?_, ?_, ?_⟩
    · simp only [withCapacity]
      symm; rw [List.countP_eq_zero]
      intro a ha; rw [List.eq_of_mem_replicate ha]; simp
    · intro i j k v w hi _; exact absurd hi live_replicate_false
    · intro i k v hi; exact absurd hi live_replicate_false
    · simp only [withCapacity, tombstones]
      symm; rw [List.countP_eq_zero]
      intro a ha; rw [List.eq_of_mem_replicate ha]; simp
  have hT0 : NoTomb (withCapacity c ep) := by
    intro i e he
    simp only [withCapacity, List.getElem?_replicate] at he
    split at he
    · cases he; simp
    · cases he
  have hpw : m.data.Pairwise (fun a b => 1 < a.key → a.key ≠ b.key) := by
    rw [List.pairwise_iff_getElem]
    intro i j hi hj hij ha heq
    have h1 : Live m.data i m.data[i].key m.data[i].val := live_eta (List.getElem?_eq_getElem hi) ha
    have h2 : Live m.data j m.data[i].key m.data[j].val := by
      have := live_eta (List.getElem?_eq_getElem hj) (by rw [← heq]; exact ha)
      rwa [← heq] at this
    have := hnd _ _ _ _ _ h1 h2
    omega
  obtain ⟨m', h1, hC, hT, hcap, hep, hent, hlk⟩ := rehashLoop_spec ep c m.data (withCapacity c ep) hC0 hT0 rfl rfl
    (fun e _ _ v ⟨i, hl⟩ => live_replicate_false hl) hpw (by simp only [withCapacity]; omega)
  refine ⟨m', h1, hC, hT, hcap, hep, by rw [hent]; simp only [withCapacity]; omega,
    by rw [hC.del, tombstones_zero hT], ?_⟩
  intro k v
  rw [hlk]
  constructor
  · rintro (⟨i, hl⟩ | h)
    · exact absurd hl live_replicate_false
    · exact (lookup_iff_mem k v).mpr h
  · intro h; exact Or.inr ((lookup_iff_mem k v).mp h)

theorem WInv.cur {ep : Nat} {m : Map} (h : WInv ep m) (hep : m.gcEpoch = ep) (hc : m.capacity ≠ 0) : Cur m := by
  rcases h.pow2 with h0 | ⟨_, hp⟩
  · exact absurd h0 hc
  · exact ⟨hp, h.len, h.cnt, h.nodup, h.hashed hep, h.del⟩

theorem Cur.winv {ep : Nat} {m : Map} (h : Cur m) (h8 : 8 ≤ m.capacity)
    (hl : m.entries + m.deleted ≤ m.capacity - m.capacity / 4) :
    WInv ep m := ⟨Or.inr ⟨h8, h.pow2⟩, h.len, h.cnt, h.nodup, fun _ => h.hashed, h.del, hl⟩

/-- the termination argument of the probe loops: a table of capacity > 0 always has an EMPTY slot -/
theorem winv_hasEmpty {ep : Nat} {m : Map} (h : WInv ep m) (hc : m.capacity ≠ 0) : HasEmpty m := by
  have h8 : 8 ≤ m.capacity := by rcases h.pow2 with h1 | h1; exact absurd h1 hc; exact h1.1
  have hl := h.load
  exact hasEmpty_of_counts h.len h.cnt (by rw [← h.del]; omega)

theorem Cur.hasEmpty_of_noTomb {m : Map} (h : Cur m) (hT : NoTomb m) (hlt : m.entries < m.capacity) : HasEmpty m :=
  hasEmpty_of_counts h.len h.cnt (by rw [tombstones_zero hT]; omega)

theorem no_lookup_of_entries_zero {ep : Nat} {m : Map} (h : WInv ep m) (h0 : m.entries = 0) (k v : Nat) : ¬ Lookup m k v := by
  rintro ⟨i, h1, h2⟩
  have := h.cnt
  rw [h0] at this
  have := (List.countP_eq_zero.mp this.symm) ⟨k, v⟩ (List.mem_of_getElem? h1)
  simp at this; omega

theorem entries_le_cap {ep : Nat} {m : Map} (h : WInv ep m) : m.entries ≤ m.capacity := by
  have := h.load; omega

/-- `get` returns what the abstract map returns; it may rehash but changes nothing abstractly -/
theorem get_spec {ep : Nat} {m : Map} (h : WInv ep m) {k : Nat} (hk : 1 < k) :
    ∃ r m', get m ep k = .ok (r, m') ∧ (∀ v, r = some v ↔ Lookup m k v) ∧ WInv ep m' ∧
      (∀ k' v', Lookup m' k' v' ↔ Lookup m k' v') := by
  have hE : m.capacity = 0 ∨ HasEmpty m := by
    by_cases hc : m.capacity = 0
    · exact Or.inl hc
    · exact Or.inr (winv_hasEmpty h hc)
  unfold get
  by_cases h0 : m.entries = 0
  · rw [if_pos h0]
    refine ⟨none, m, rfl, ?_, h, fun _ _ => Iff.rfl⟩
    intro v; constructor
    · intro h1; cases h1
    · intro h1; exact absurd h1 (no_lookup_of_entries_zero h h0 k v)
  · rw [if_neg h0]
    have hcap : m.capacity ≠ 0 := by have := entries_le_cap h; omega
    obtain ⟨h8, n, hc⟩ : 8 ≤ m.capacity ∧ ∃ n, m.capacity = 2 ^ n := by
      rcases h.pow2 with h1 | h1
      · exact absurd h1 hcap
      · exact h1
    -- the table the probe loop runs on
    have hm1 : ∃ m1, (if invalidatedByGc m ep then rehash m ep m.capacity else .ok m) = .ok m1 ∧ Cur m1 ∧
        HasEmpty m1 ∧ m1.capacity = m.capacity ∧ m1.entries = m.entries ∧ m1.deleted ≤ m.deleted ∧ m1.gcEpoch = ep ∧
        (∀ k' v', Lookup m1 k' v' ↔ Lookup m k' v') := by
      by_cases hinv : m.gcEpoch = ep
      · have : invalidatedByGc m ep = false := by simp [invalidatedByGc, hinv]
        rw [this]
        refine ⟨m, rfl, h.cur hinv hcap, ?_, rfl, rfl, Nat.le_refl _, hinv, fun _ _ => Iff.rfl⟩
        rcases hE with h1 | h1
        · exact absurd h1 hcap
        · exact h1
      · have : invalidatedByGc m ep = true := by simp [invalidatedByGc, hinv]
        rw [this]
        obtain ⟨m1, h1, hC, hT, hcap1, hep1, hent1, hdel1, hlk1⟩ :=
          rehash_spec ep h.cnt h.nodup hc (by have := h.load; omega)
        refine ⟨m1, h1, hC, hC.hasEmpty_of_noTomb hT ?_, hcap1, hent1, by omega, hep1, hlk1⟩
        have := h.load; omega
    obtain ⟨m1, he1, hC1, hE1, hcap1, hent1, hdel1, hep1, hlk1⟩ := hm1
    rw [he1]
    obtain ⟨n1, hc1⟩ := hC1.pow2
    simp only [home_ok hc1]
    have hw1 : WInv ep m1 := hC1.winv (by omega) (by rw [hcap1, hent1]; have := h.load; omega)
    by_cases hpres : ∃ v0, Lookup m k v0
    · obtain ⟨v0, hl0⟩ := hpres
      obtain ⟨i, hl⟩ := (hlk1 k v0).mpr hl0
      rw [getLoop_found hc1 hC1.len hC1.nodup hC1.hashed hl]
      refine ⟨some v0, m1, rfl, ?_, hw1, hlk1⟩
      intro v; constructor
      · intro h1; cases h1; exact hl0
      · intro h1
        obtain ⟨j, hj⟩ := (hlk1 k v).mpr h1
        have := hC1.nodup _ _ _ _ _ hj hl
        subst this
        have := hj.1; rw [hl.1] at this; cases this; rfl
    · have habs : ∀ v, ¬ Lookup m1 k v := fun v hv => hpres ⟨v, (hlk1 k v).mp hv⟩
      rw [getLoop_absent hc1 hC1.len hk habs hE1]
      refine ⟨none, m1, rfl, ?_, hw1, hlk1⟩
      intro v; constructor
      · intro h1; cases h1
      · intro h1; exact absurd ⟨v, h1⟩ hpres

/-- `insert` updates the abstract map at `k` and preserves `WInv` (NOT `HasEmpty`: see Props/C09) -/
theorem insert_spec {ep : Nat} {m : Map} (h : WInv ep m) {k : Nat} (v : Nat) (hk : 1 < k) :
    ∃ m', insert m ep k v = .ok m' ∧ WInv ep m' ∧
      (∀ k' v', Lookup m' k' v' ↔ ((k' = k ∧ v' = v) ∨ (k' ≠ k ∧ Lookup m k' v'))) := by
  have hE : m.capacity = 0 ∨ HasEmpty m := by
    by_cases hc : m.capacity = 0
    · exact Or.inl hc
    · exact Or.inr (winv_hasEmpty h hc)
  unfold insert
  have hm1 : ∃ m1, (if (invalidatedByGc m ep || overflow m) = true then rehash m ep (capacityForEntries (m.entries + 1)) else .ok m)
        = .ok m1 ∧ Cur m1 ∧ HasEmpty m1 ∧ 8 ≤ m1.capacity ∧ m1.entries + m1.deleted + 1 ≤ m1.capacity - m1.capacity / 4 ∧
        m1.gcEpoch = ep ∧ (∀ k' v', Lookup m1 k' v' ↔ Lookup m k' v') := by
    by_cases hre : (invalidatedByGc m ep || overflow m) = true
    · rw [if_pos hre]
      obtain ⟨⟨n, hc⟩, hl, h8⟩ := capacityForEntries_spec (m.entries + 1)
      obtain ⟨m1, h1, hC, hT, hcap1, hep1, hent1, hdel1, hlk1⟩ := rehash_spec ep h.cnt h.nodup hc (by omega)
      exact ⟨m1, h1, hC, hC.hasEmpty_of_noTomb hT (by omega), by omega, by rw [hcap1, hent1, hdel1]; exact hl, hep1, hlk1⟩
    · rw [if_neg hre]
      simp only [Bool.or_eq_true, not_or, Bool.not_eq_true] at hre
      have hinv : m.gcEpoch = ep := by simpa [invalidatedByGc] using hre.1
      have hov : m.entries + m.deleted + 1 ≤ m.capacity - m.capacity / 4 := by
        have := hre.2; unfold overflow at this; simp at this; omega
      have hcap : m.capacity ≠ 0 := by omega
      have h8 : 8 ≤ m.capacity := by rcases h.pow2 with h1 | h1; exact absurd h1 hcap; exact h1.1
      refine ⟨m, rfl, h.cur hinv hcap, ?_, h8, hov, hinv, fun _ _ => Iff.rfl⟩
      rcases hE with h1 | h1
      · exact absurd h1 hcap
      · exact h1
  obtain ⟨m1, he1, hC1, hE1, h81, hov1, hep1, hlk1⟩ := hm1
  simp only [Bool.or_eq_true] at he1 ⊢
  rw [he1]
  obtain ⟨m', h1, hC', hcap', hep', hlk', hpres, habs, _⟩ := insertCore_spec hC1 (by omega) hE1 v hk
  refine ⟨m', h1, hC'.winv (by omega) ?_, ?_⟩
  · rw [hcap']
    by_cases hp : ∃ v0, Lookup m1 k v0
    · rw [(hpres hp).1, (hpres hp).2]; omega
    · have := habs (fun v0 hv => hp ⟨v0, hv⟩); omega
  · intro k' v'; rw [hlk', hlk1]

/-- `remove` returns the abstract value and erases `k`; preserves `WInv` and `HasEmpty` -/
theorem remove_spec {ep : Nat} {m : Map} (h : WInv ep m) (hcap : m.capacity ≠ 0) {k : Nat} (hk : 1 < k) :
    ∃ r m', remove m ep k = .ok (r, m') ∧ (∀ v, r = some v ↔ Lookup m k v) ∧ WInv ep m' ∧
      (∀ k' v', Lookup m' k' v' ↔ (k' ≠ k ∧ Lookup m k' v')) ∧ m'.capacity ≠ 0 := by
  have hE : HasEmpty m := winv_hasEmpty h hcap
  unfold remove
  have hm1 : ∃ m1, (if (invalidatedByGc m ep || underflow m) = true then rehash m ep (capacityForEntries m.entries) else .ok m)
        = .ok m1 ∧ Cur m1 ∧ HasEmpty m1 ∧ 8 ≤ m1.capacity ∧ m1.entries + m1.deleted ≤ m1.capacity - m1.capacity / 4 ∧
        m1.gcEpoch = ep ∧ (∀ k' v', Lookup m1 k' v' ↔ Lookup m k' v') := by
    by_cases hre : (invalidatedByGc m ep || underflow m) = true
    · rw [if_pos hre]
      obtain ⟨⟨n, hc⟩, hl, h8⟩ := capacityForEntries_spec m.entries
      obtain ⟨m1, h1, hC, hT, hcap1, hep1, hent1, hdel1, hlk1⟩ := rehash_spec ep h.cnt h.nodup hc hl
      exact ⟨m1, h1, hC, hC.hasEmpty_of_noTomb hT (by omega), by omega, by rw [hcap1, hent1, hdel1]; exact hl, hep1, hlk1⟩
    · rw [if_neg hre]
      simp only [Bool.or_eq_true, not_or, Bool.not_eq_true] at hre
      have hinv : m.gcEpoch = ep := by simpa [invalidatedByGc] using hre.1
      have h8 : 8 ≤ m.capacity := by rcases h.pow2 with h1 | h1; exact absurd h1 hcap; exact h1.1
      exact ⟨m, rfl, h.cur hinv hcap, hE, h8, h.load, hinv, fun _ _ => Iff.rfl⟩
  obtain ⟨m1, he1, hC1, hE1, h81, hl1, hep1, hlk1⟩ := hm1
  simp only [Bool.or_eq_true] at he1 ⊢
  rw [he1]
  obtain ⟨n1, hc1⟩ := hC1.pow2
  simp only [home_ok hc1]
  obtain ⟨r, m', h1, hC', hcap', hep', hr, hlk', hent', hE'⟩ := removeLoop_spec hC1 hk hE1
  refine ⟨r, m', h1, ?_, hC'.winv (by omega) (by rw [hcap']; omega), ?_, by omega⟩
  · intro v; rw [hr, hlk1]
  · intro k' v'; rw [hlk', hlk1]

/-- a moving collection rewrites the live keys in place through an injective address map; the table then
represents the re-keyed abstract map, and `WInv` holds for any later epoch (the next access rehashes) -/
theorem relocate_spec {ep ep' : Nat} {m : Map} (h : WInv ep m) (hep : m.gcEpoch ≠ ep') (f : Nat → Nat)
    (hinj : ∀ k k' v v', Lookup m k v → Lookup m k' v' → f k = f k' → k = k')
    (hpos : ∀ k v, Lookup m k v → 1 < f k) :
    WInv ep' (relocate f m) ∧ (∀ k' v, Lookup (relocate f m) k' v ↔ ∃ k, f k = k' ∧ Lookup m k v) ∧
      (HasEmpty m → HasEmpty (relocate f m)) := by
  have hlive : ∀ i k' v, Live (relocate f m).data i k' v ↔ ∃ k, f k = k' ∧ Live m.data i k v := by
    intro i k' v
    unfold Live relocate
    simp only [List.getElem?_map]
    constructor
    · rintro ⟨h1, h2⟩
      cases he : m.data[i]? with
      | none => rw [he] at h1; cases h1
      | some e =>
        rw [he] at h1
        simp only [Option.map_some] at h1
        by_cases hl : 1 < e.key
        · rw [if_pos hl] at h1; cases h1
          exact ⟨e.key, rfl, by cases e; rfl, hl⟩
        · rw [if_neg hl] at h1; cases h1; exact absurd h2 hl
    · rintro ⟨k, hk, h1, h2⟩
      subst hk
      rw [h1]
      simp only [Option.map_some, if_pos h2]
      exact ⟨trivial, hpos k v ⟨i, h1, h2⟩⟩
  have htomb : tombstones (relocate f m) = tombstones m := by
    simp only [tombstones, relocate, List.countP_map]
    apply List.countP_congr
    intro e he
    obtain ⟨i, hi⟩ := List.getElem?_of_mem he
    by_cases hl : 1 < e.key
    · have := hpos e.key e.val ⟨i, live_eta hi hl⟩
      have h1 : ¬ (e.key = 1) := by omega
      have h2 : ¬ (f e.key = 1) := by omega
      simp [hl, h1, h2]
    · simp [hl]
  refine ⟨⟨h.pow2, by simp [relocate, h.len], ?_, ?_, fun hh => absurd hh hep, by rw [htomb]; exact h.del, h.load⟩, ?_, ?_⟩
  · show m.entries = _
    rw [h.cnt]
    simp only [relocate, List.countP_map]
    apply List.countP_congr
    intro e he
    obtain ⟨i, hi⟩ := List.getElem?_of_mem he
    by_cases hl : 1 < e.key
    · have := hpos e.key e.val ⟨i, live_eta hi hl⟩
      simp [hl, this]
    · simp [hl]
  · intro i j k' v w hi hj
    obtain ⟨k1, hk1, hl1⟩ := (hlive i k' v).mp hi
    obtain ⟨k2, hk2, hl2⟩ := (hlive j k' w).mp hj
    have := hinj k1 k2 v w ⟨i, hl1⟩ ⟨j, hl2⟩ (by rw [hk1, hk2])
    subst this
    exact h.nodup _ _ _ _ _ hl1 hl2
  · intro k' v
    constructor
    · rintro ⟨i, hi⟩
      obtain ⟨k, hk, hl⟩ := (hlive i k' v).mp hi
      exact ⟨k, hk, i, hl⟩
    · rintro ⟨k, hk, i, hl⟩
      exact ⟨i, (hlive i k' v).mpr ⟨k, hk, hl⟩⟩
  · rintro ⟨i, e, he, h0⟩
    refine ⟨i, e, ?_, h0⟩
    simp only [relocate, List.getElem?_map, he, Option.map_some]
    have : ¬ (1 < e.key) := by omega
    rw [if_neg this]

theorem winv_new (ep : Nat) : WInv ep new := by
  refine ⟨Or.inl rfl, rfl, rfl, ?_, ?_, rfl, by decide⟩
  · intro i j k v w hi _; have := hi.1; simp [new] at this
  · intro _ i k v hi; have := hi.1; simp [new] at this

theorem repr_new : Repr new (fun _ => none) := by
  intro k v _
  constructor
  · intro h; cases h
  · rintro ⟨i, h, _⟩; simp [new] at h

end Dora.Wait.Hmap
