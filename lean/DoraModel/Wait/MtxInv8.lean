import DoraModel.Wait.MtxInv7
/-! # C09 — queue / flag consistency (invariant Q of DESIGN A.3): definitions and one lemma per step shape -/
namespace Dora.Wait.Mtx

/-- `l` is a duplicate-free list of threads whose `blocking` flag is set and whose pc is in phase `ph` -/
def QOk (s : State) (l : List Nat) (ph : PC → Bool) : Prop :=
  l.Nodup ∧ ∀ u, u ∈ l → s.b[u]? = some true ∧ ∃ pc, s.pcs[u]? = some pc ∧ ph pc = true

/-- Q: both wait queues are duplicate-free lists of flagged threads in the matching phase of their code, and a
set flag means queued -/
structure QInv (s : State) : Prop where
  qm : QOk s s.q mtxPhase
  qc : QOk s s.cq condPhase
  bq : ∀ u : Nat, s.b[u]? = some true → u ∈ s.q ∨ u ∈ s.cq

theorem qok_sub {s s' : State} {l l' : List Nat} {ph : PC → Bool} (h : QOk s l ph) (hnd : l'.Nodup)
    (hsub : ∀ u, u ∈ l' → u ∈ l) (hb : ∀ u, u ∈ l' → s'.b[u]? = s.b[u]?)
    (hp : ∀ u, u ∈ l' → ∀ pc, s.pcs[u]? = some pc → ph pc = true → ∃ pc', s'.pcs[u]? = some pc' ∧ ph pc' = true) :
    QOk s' l' ph := by
  refine ⟨hnd, ?_⟩
  intro u hu
  obtain ⟨h1, pc, h2, h3⟩ := h.2 u (hsub u hu)
  exact ⟨by rw [hb u hu]; exact h1, hp u hu pc h2 h3⟩

theorem phases_disjoint (pc : PC) (h1 : mtxPhase pc = true) (h2 : condPhase pc = true) : False := by
  cases pc <;> simp [mtxPhase, condPhase] at h1 h2
  all_goals (first | (rename_i k _; cases k <;> simp_all [mtxPhase, condPhase]) | (rename_i k; cases k <;> simp_all [mtxPhase, condPhase]) | skip)

/-- the stepping thread stays in its phase (if it is in one); flags and queues untouched -/
theorem qinv_set {s s' : State} {t : Nat} {pc pc' : PC} (hs : QInv s) (hpc : s.pcs[t]? = some pc)
    (hp : s'.pcs = s.pcs.set t pc') (hb : s'.b = s.b) (hq : s'.q = s.q) (hcq : s'.cq = s.cq)
    (h1 : mtxPhase pc = true → mtxPhase pc' = true) (h2 : condPhase pc = true → condPhase pc' = true) : QInv s' := by
  have key : ∀ (l : List Nat) (ph : PC → Bool), (ph pc = true → ph pc' = true) → QOk s l ph → QOk s' l ph := by
    intro l ph hph h
    refine qok_sub h h.1 (fun _ hu => hu) (fun u _ => by rw [hb]) ?_
    intro u _ pcu hpu hphu
    rw [hp]
    by_cases hut : u = t
    · subst hut; rw [hpc] at hpu; cases hpu; exact ⟨pc', get_set_self _ hpc, hph hphu⟩
    · exact ⟨pcu, by rw [get_set_ne _ hut]; exact hpu, hphu⟩
  exact ⟨by rw [hq]; exact key _ _ h1 hs.qm, by rw [hcq]; exact key _ _ h2 hs.qc, by rw [hb, hq, hcq]; exact hs.bq⟩

/-- the stepping thread has a cleared flag, hence is in no queue: it may go anywhere -/
theorem qinv_leave {s s' : State} {t : Nat} {pc pc' : PC} (hs : QInv s) (hpc : s.pcs[t]? = some pc)
    (hp : s'.pcs = s.pcs.set t pc') (hb : s'.b = s.b) (hq : s'.q = s.q) (hcq : s'.cq = s.cq)
    (hbf : s.b[t]? = some false) : QInv s' := by
  have key : ∀ (l : List Nat) (ph : PC → Bool), QOk s l ph → QOk s' l ph := by
    intro l ph h
    refine qok_sub h h.1 (fun _ hu => hu) (fun u _ => by rw [hb]) ?_
    intro u hu pcu hpu hphu
    have hut : u ≠ t := by
      intro h'; subst h'; have := (h.2 u hu).1; rw [hbf] at this; cases this
    exact ⟨pcu, by rw [hp, get_set_ne _ hut]; exact hpu, hphu⟩
  exact ⟨by rw [hq]; exact key _ _ hs.qm, by rw [hcq]; exact key _ _ hs.qc, by rw [hb, hq, hcq]; exact hs.bq⟩

theorem nodup_snoc {l : List Nat} {t : Nat} (h : l.Nodup) (ht : t ∉ l) : (l ++ [t]).Nodup := by
  rw [List.nodup_append]
  refine ⟨h, by simp, ?_⟩
  intro a ha b hb hab
  simp at hb; subst hb; subst hab; exact ht ha

/-- `append_to_waitlist` -/
theorem qinv_enq {s : State} {t : Nat} {k : Kind} (hs : QInv s) (hpc : s.pcs[t]? = some (PC.eq2 k))
    (hbt : s.b[t]? = some false) :
    QInv { setQueue s k (queueOf s k ++ [t]) with b := s.b.set t true, pcs := s.pcs.set t (PC.eq3 k true) } := by
  have hnq : t ∉ s.q := by
    intro h; have := (hs.qm.2 t h).1; rw [hbt] at this; cases this
  have hncq : t ∉ s.cq := by
    intro h; have := (hs.qc.2 t h).1; rw [hbt] at this; cases this
  have hlt : t < s.b.length := lt_of_getElem? hbt
  have old : ∀ (l : List Nat) (ph : PC → Bool), t ∉ l → QOk s l ph →
      QOk { setQueue s k (queueOf s k ++ [t]) with b := s.b.set t true, pcs := s.pcs.set t (PC.eq3 k true) } l ph := by
    intro l ph hnl h
    refine qok_sub h h.1 (fun _ hu => hu) ?_ ?_
    · intro u hu
      have hut : u ≠ t := by intro h'; subst h'; exact hnl hu
      show (s.b.set t true)[u]? = _; exact get_set_ne _ hut
    · intro u hu pcu hpu hphu
      have hut : u ≠ t := by intro h'; subst h'; exact hnl hu
      exact ⟨pcu, by show (s.pcs.set t _)[u]? = _; rw [get_set_ne _ hut]; exact hpu, hphu⟩
  have new : ∀ (l : List Nat) (ph : PC → Bool), t ∉ l → ph (PC.eq3 k true) = true → QOk s l ph →
      QOk { setQueue s k (queueOf s k ++ [t]) with b := s.b.set t true, pcs := s.pcs.set t (PC.eq3 k true) } (l ++ [t]) ph := by
    intro l ph hnl hph h
    have ho := old l ph hnl h
    refine ⟨nodup_snoc h.1 hnl, ?_⟩
    intro u hu
    rcases List.mem_append.mp hu with h1 | h1
    · exact ho.2 u h1
    · simp at h1; subst h1
      exact ⟨by show (s.b.set u true)[u]? = _; simp [hlt], PC.eq3 k true, get_set_self _ hpc, hph⟩
  cases k
  · refine ⟨new _ _ hnq rfl hs.qm, old _ _ hncq hs.qc, ?_⟩
    intro u hu
    by_cases hut : u = t
    · subst hut; exact Or.inl (by show u ∈ s.q ++ [u]; simp)
    · have : s.b[u]? = some true := by
        have h' : (s.b.set t true)[u]? = some true := hu
        rwa [get_set_ne _ hut] at h'
      rcases hs.bq u this with h1 | h1
      · exact Or.inl (by show u ∈ s.q ++ [t]; simp [h1])
      · exact Or.inr h1
  · refine ⟨old _ _ hnq hs.qm, new _ _ hncq rfl hs.qc, ?_⟩
    intro u hu
    by_cases hut : u = t
    · subst hut; exact Or.inr (by show u ∈ s.cq ++ [u]; simp)
    · have : s.b[u]? = some true := by
        have h' : (s.b.set t true)[u]? = some true := hu
        rwa [get_set_ne _ hut] at h'
      rcases hs.bq u this with h1 | h1
      · exact Or.inl h1
      · exact Or.inr (by show u ∈ s.cq ++ [t]; simp [h1])

/-- `remove_from_waitlist` of the head `u` of queue `k` by thread `t` -/
theorem qinv_pop {s : State} {t u : Nat} {k : Kind} {a : Bool} {r : Ret} {rest : List Nat} (hs : QInv s)
    (hpc : s.pcs[t]? = some (PC.wk1 k a r)) (hq : queueOf s k = u :: rest) (hbu : s.b[u]? = some true) :
    QInv { setQueue s k rest with b := s.b.set u false, pcs := s.pcs.set t (PC.wk2 k a r u) } := by
  have hlt : u < s.b.length := lt_of_getElem? hbu
  have hph : ∀ ph : PC → Bool, (ph = mtxPhase ∨ ph = condPhase) → ph (PC.wk1 k a r) = true → ph (PC.wk2 k a r u) = true := by
    intro ph hp h
    rcases hp with rfl | rfl
    · cases k <;> cases a <;> cases r <;> simp [mtxPhase] at h
    · cases k <;> cases a <;> cases r <;> simp [condPhase] at h ⊢
  have key : ∀ (l l' : List Nat) (ph : PC → Bool), (ph = mtxPhase ∨ ph = condPhase) → l'.Nodup → (∀ v, v ∈ l' → v ∈ l) →
      u ∉ l' → QOk s l ph →
      QOk { setQueue s k rest with b := s.b.set u false, pcs := s.pcs.set t (PC.wk2 k a r u) } l' ph := by
    intro l l' ph hp hnd hsub hnu h
    refine qok_sub h hnd hsub ?_ ?_
    · intro v hv
      have hvu : v ≠ u := by intro h'; subst h'; exact hnu hv
      show (s.b.set u false)[v]? = _; exact get_set_ne _ hvu
    · intro v hv pcv hpv hphv
      show ∃ pc', (s.pcs.set t (PC.wk2 k a r u))[v]? = some pc' ∧ _
      by_cases hvt : v = t
      · subst hvt; rw [hpc] at hpv; cases hpv
        exact ⟨_, get_set_self _ hpc, hph ph hp hphv⟩
      · exact ⟨pcv, by rw [get_set_ne _ hvt]; exact hpv, hphv⟩
  have hbq : ∀ v, (s.b.set u false)[v]? = some true → v ≠ u ∧ s.b[v]? = some true := by
    intro v hv
    by_cases hvu : v = u
    · subst hvu; simp [hlt] at hv
    · exact ⟨hvu, by rwa [get_set_ne _ hvu] at hv⟩
  cases k
  · -- the mutex queue loses its head
    have hq' : s.q = u :: rest := hq
    have hnd := hs.qm.1; rw [hq', List.nodup_cons] at hnd
    have hucq : u ∉ s.cq := by
      intro h
      obtain ⟨_, pc1, hp1, hph1⟩ := hs.qm.2 u (by rw [hq']; simp)
      obtain ⟨_, pc2, hp2, hph2⟩ := hs.qc.2 u h
      rw [hp1] at hp2; cases hp2
      exact phases_disjoint _ hph1 hph2
    refine ⟨key s.q rest _ (Or.inl rfl) hnd.2 (fun v hv => by rw [hq']; simp [hv]) hnd.1 hs.qm,
      key s.cq s.cq _ (Or.inr rfl) hs.qc.1 (fun _ hv => hv) hucq hs.qc, ?_⟩
    intro v hv
    obtain ⟨hvu, hbv⟩ := hbq v hv
    rcases hs.bq v hbv with h1 | h1
    · rw [hq'] at h1; simp [hvu] at h1; exact Or.inl h1
    · exact Or.inr h1
  · have hq' : s.cq = u :: rest := hq
    have hnd := hs.qc.1; rw [hq', List.nodup_cons] at hnd
    have huq : u ∉ s.q := by
      intro h
      obtain ⟨_, pc1, hp1, hph1⟩ := hs.qm.2 u h
      obtain ⟨_, pc2, hp2, hph2⟩ := hs.qc.2 u (by rw [hq']; simp)
      rw [hp1] at hp2; cases hp2
      exact phases_disjoint _ hph1 hph2
    refine ⟨key s.q s.q _ (Or.inl rfl) hs.qm.1 (fun _ hv => hv) huq hs.qm,
      key s.cq rest _ (Or.inr rfl) hnd.2 (fun v hv => by rw [hq']; simp [hv]) hnd.1 hs.qc, ?_⟩
    intro v hv
    obtain ⟨hvu, hbv⟩ := hbq v hv
    rcases hs.bq v hbv with h1 | h1
    · exact Or.inl h1
    · rw [hq'] at h1; simp [hvu] at h1; exact Or.inr h1

/-- `notify_one` that wakes the sleeping thread `u`: `u` stays in its phase (`sleeping k → wokenB k`) -/
theorem qinv_sig {s s' : State} {t u : Nat} {pc pc' pcu : PC} (hs : QInv s) (hpc : s.pcs[t]? = some pc)
    (hu : s.pcs[u]? = some pcu) (hsl : isSleeping pcu = true)
    (hp : s'.pcs = (s.pcs.set u (wokenOf s u)).set t pc') (hb : s'.b = s.b) (hq : s'.q = s.q) (hcq : s'.cq = s.cq)
    (hns : isSleeping pc = false)
    (h1 : mtxPhase pc = true → mtxPhase pc' = true) (h2 : condPhase pc = true → condPhase pc' = true) : QInv s' := by
  have hut : u ≠ t := by intro h; subst h; rw [hu] at hpc; cases hpc; rw [hsl] at hns; cases hns
  have hwk : ∀ ph : PC → Bool, (ph = mtxPhase ∨ ph = condPhase) → ph pcu = true → ph (wokenOf s u) = true := by
    intro ph hp h
    unfold wokenOf; rw [hu]
    cases pcu <;> simp [isSleeping] at hsl
    rename_i k
    rcases hp with rfl | rfl <;> cases k <;> simp_all [mtxPhase, condPhase, sleepKind]
  have key : ∀ (l : List Nat) (ph : PC → Bool), (ph = mtxPhase ∨ ph = condPhase) → (ph pc = true → ph pc' = true) →
      QOk s l ph → QOk s' l ph := by
    intro l ph hph hpp h
    refine qok_sub h h.1 (fun _ hv => hv) (fun v _ => by rw [hb]) ?_
    intro v _ pcv hpv hphv
    rw [hp]
    by_cases hvt : v = t
    · subst hvt; rw [hpc] at hpv; cases hpv
      exact ⟨pc', get_set_self _ (by rw [get_set_ne _ (Ne.symm hut)]; exact hpc), hpp hphv⟩
    · rw [get_set_ne _ hvt]
      by_cases hvu : v = u
      · subst hvu; rw [hu] at hpv; cases hpv
        exact ⟨_, get_set_self _ hu, hwk ph hph hphv⟩
      · exact ⟨pcv, by rw [get_set_ne _ hvu]; exact hpv, hphv⟩
  exact ⟨by rw [hq]; exact key _ _ (Or.inl rfl) h1 hs.qm, by rw [hcq]; exact key _ _ (Or.inr rfl) h2 hs.qc,
    by rw [hb, hq, hcq]; exact hs.bq⟩

/-- `stop`: only joiners are touched -/
theorem qinv_stop {s : State} {t : Nat} (rr : List Bool) (hs : QInv s) (hpc : s.pcs[t]? = some PC.st1) :
    QInv { s with running := rr, pcs := (s.pcs.map (wakeJ t)).set t PC.st2 } := by
  have key : ∀ (l : List Nat) (ph : PC → Bool), (ph = mtxPhase ∨ ph = condPhase) → QOk s l ph →
      QOk { s with running := rr, pcs := (s.pcs.map (wakeJ t)).set t PC.st2 } l ph := by
    intro l ph hph h
    refine qok_sub h h.1 (fun _ hv => hv) (fun v _ => rfl) ?_
    intro v _ pcv hpv hphv
    have hvt : v ≠ t := by
      intro h'; subst h'; rw [hpc] at hpv; cases hpv
      rcases hph with rfl | rfl <;> simp [mtxPhase, condPhase] at hphv
    refine ⟨pcv, ?_, hphv⟩
    show ((s.pcs.map (wakeJ t)).set t PC.st2)[v]? = some pcv
    rw [get_set_ne _ hvt, List.getElem?_map, hpv]
    cases pcv <;> first | rfl | (rcases hph with rfl | rfl <;> simp [mtxPhase, condPhase] at hphv)
  exact ⟨key _ _ (Or.inl rfl) hs.qm, key _ _ (Or.inr rfl) hs.qc, hs.bq⟩

end Dora.Wait.Mtx
