import DoraModel.Wait.Mtx
/-! # C09 — invariants of the mutex / condition / join protocol model -/
namespace Dora.Wait.Mtx

/-- states reachable from `init n` through events the acceptor allows -/
inductive Reach (n : Nat) : State → Prop
  | init : Reach n (init n)
  | step {s s' : State} {e : Event} : Reach n s → accept s e = .ok s' → Reach n s'

theorem accept_stepAt {s s' : State} {e : Event} (h : accept s e = .ok s') :
    ∃ pc, s.pcs[e.tid]? = some pc ∧ stepAt s e.tid pc e.act = .ok s' := by
  unfold accept at h
  split at h
  · simp at h
  · exact ⟨_, by assumption, h⟩

/-- shape of one step: which lists change how -/
structure Basic (s : State) : Prop where
  lp : s.pcs.length = s.n
  lb : s.b.length = s.n
  lr : s.running.length = s.n

set_option maxHeartbeats 1000000 in
theorem basic_step {s s' : State} {t : Nat} {pc : PC} {a : Act} (hb : Basic s)
    (h : stepAt s t pc a = .ok s') : Basic s' := by
  obtain ⟨h1, h2, h3⟩ := hb
  cases a <;> cases pc <;> simp only [stepAt] at h <;> (try (simp at h; done))
  all_goals (repeat' split at h)
  all_goals (try (simp at h; done))
  all_goals (simp only [Except.ok.injEq] at h; subst h)
  all_goals (first
    | exact ⟨h1, h2, h3⟩
    | (constructor <;> simp [State.setPc, setQueue, h1, h2, h3] <;> (try (cases ‹Kind› <;> simp [h1,h2,h3]))))

/-! ## counting lemmas -/

theorem countP_set_same {α} (p : α → Bool) {l : List α} {t : Nat} {x y : α} (h : l[t]? = some x) (hp : p y = p x) :
    (l.set t y).countP p = l.countP p := by
  have ht : t < l.length := by
    rcases Nat.lt_or_ge t l.length with h1 | h1
    · exact h1
    · rw [List.getElem?_eq_none h1] at h; cases h
  have hx : l[t] = x := by rw [List.getElem?_eq_getElem ht] at h; cases h; rfl
  rw [List.countP_set ht, hx, hp]
  have : (if p x = true then 1 else 0) ≤ l.countP p := by
    split
    · rename_i hh; exact List.countP_pos_iff.mpr ⟨x, by rw [← hx]; exact List.getElem_mem ht, hh⟩
    · omega
  omega

theorem countP_set_ft {α} (p : α → Bool) {l : List α} {t : Nat} {x y : α} (h : l[t]? = some x)
    (hx : p x = false) (hy : p y = true) : (l.set t y).countP p = l.countP p + 1 := by
  have ht : t < l.length := by
    rcases Nat.lt_or_ge t l.length with h1 | h1
    · exact h1
    · rw [List.getElem?_eq_none h1] at h; cases h
  have hx' : l[t] = x := by rw [List.getElem?_eq_getElem ht] at h; cases h; rfl
  rw [List.countP_set ht, hx', hx, hy]; simp

theorem countP_set_tf {α} (p : α → Bool) {l : List α} {t : Nat} {x y : α} (h : l[t]? = some x)
    (hx : p x = true) (hy : p y = false) : (l.set t y).countP p + 1 = l.countP p := by
  have ht : t < l.length := by
    rcases Nat.lt_or_ge t l.length with h1 | h1
    · exact h1
    · rw [List.getElem?_eq_none h1] at h; cases h
  have hx' : l[t] = x := by rw [List.getElem?_eq_getElem ht] at h; cases h; rfl
  have : 0 < l.countP p := List.countP_pos_iff.mpr ⟨x, by rw [← hx']; exact List.getElem_mem ht, hx⟩
  rw [List.countP_set ht, hx', hx, hy]; simp; omega

/-! ## mutual exclusion -/

def retHolds : Ret → Bool
  | .crit => true
  | _ => false

/-- the thread owns the mutex: it is between a successful acquiring CAS and its releasing exchange -/
def holds : PC → Bool
  | .crit => true
  | .ul _ => true
  | .eq0 k => k == .cond
  | .eq1 k => k == .cond
  | .eq2 k => k == .cond
  | .eq3 k _ => k == .cond
  | .wk0 _ _ r => retHolds r
  | .wk1 _ _ r => retHolds r
  | .wk2 _ _ r _ => retHolds r
  | .wk3 r => retHolds r
  | .no0 r => retHolds r
  | .na0 r => retHolds r
  | .na1 r => retHolds r
  | .jn0 r _ => retHolds r
  | .jn1 r _ _ => retHolds r
  | .jsl r _ => retHolds r
  | .jwk r _ => retHolds r
  | .gc0 r => retHolds r
  | .gc1 r => retHolds r
  | .panicked h => h
  | _ => false

theorem holds_retPc (r : Ret) : holds (retPc r) = retHolds r := by cases r <;> rfl

theorem holds_wakeJ (u : Nat) (pc : PC) : holds (wakeJ u pc) = holds pc := by
  cases pc <;> try rfl
  case jsl r v =>
    show holds (if v = u then PC.jwk r v else PC.jsl r v) = _
    by_cases h : v = u
    · rw [if_pos h]; rfl
    · rw [if_neg h]

theorem countP_map_wakeJ (u : Nat) (l : List PC) : (l.map (wakeJ u)).countP holds = l.countP holds := by
  rw [List.countP_map]
  apply List.countP_congr
  intro x _
  simp [holds_wakeJ]

/-- the lock word is 0 exactly when nobody owns the mutex, and at most one thread owns it -/
structure KInv (s : State) : Prop where
  le1 : s.pcs.countP holds ≤ 1
  zero : s.w = 0 ↔ s.pcs.countP holds = 0

end Dora.Wait.Mtx
