import DoraModel.Wait.MtxInv4
/-! # C09 — invariant W is inductive -/
namespace Dora.Wait.Mtx

/-- closes `p X = true → p Y = true` / `p X = false` for the four classifiers on concrete pcs -/
macro "cls0" : tactic => `(tactic| first | rfl | (intro h; first | exact h | (cases h; done) | assumption | (exfalso; simp_all; done)) | (exfalso; simp_all; done))

theorem panic_pos {l : List PC} {t : Nat} {x : PC} (h : l[t]? = some x) (b : Bool) :
    0 < (l.set t (PC.panicked b)).countP isPanicked := by
  have ht := lt_of_getElem? h
  exact List.countP_pos_iff.mpr ⟨PC.panicked b, by
    rw [List.mem_iff_getElem?]; exact ⟨t, by simp [ht]⟩, rfl⟩
macro "cls" : tactic => `(tactic| first
  | cls0
  | (cases ‹Kind› <;> cls0)
  | (cases ‹Ret› <;> cls0)
  | (cases ‹Bool› <;> cls0)
  | (cases ‹Kind› <;> cases ‹Bool› <;> cls0)
  | (cases ‹Kind› <;> cases ‹Ret› <;> cls0)
  | (cases ‹Kind› <;> cases ‹Bool› <;> cases ‹Ret› <;> cls0)
  | (cases ‹Kind› <;> cases ‹Bool› <;> cases ‹Bool› <;> cls0))

set_option maxHeartbeats 4000000 in
theorem cinv_step {s s' : State} {t : Nat} {pc : PC} {a : Act} (hc : CInv s) (hpc : s.pcs[t]? = some pc)
    (h : stepAt s t pc a = .ok s') (hnp : s'.pcs.countP isPanicked = 0) : CInv s' := by
  cases a <;> cases pc <;> simp only [stepAt] at h <;> (try (simp at h; done))
  all_goals (repeat' split at h)
  all_goals (try (simp at h; done))
  all_goals (simp only [Except.ok.injEq] at h; subst h)
  all_goals (try contradiction)
  all_goals (try (exact hc))
  all_goals (try (exact absurd hnp (Nat.ne_of_gt (panic_pos hpc _))))
  all_goals (clear hnp)
  all_goals (try (exact cinv_store1 hc hpc))
  all_goals (try (exact cinv_store0 hc hpc))
  all_goals (try (exact cinv_enq _ hc hpc))
  all_goals (try (exact cinv_pop _ hc hpc ‹_›))
  all_goals (try (exact cinv_stop _ hc hpc))
  all_goals (try (refine cinv_set hc hpc rfl rfl rfl rfl ?_ ?_ ?_ ?_ <;> cls))
  all_goals (try (refine cinv_lock hc hpc ‹_› rfl rfl rfl rfl ?_ ?_ <;> cls))
  all_goals (try (refine cinv_unlock hc hpc rfl rfl rfl rfl rfl ?_ ?_ ?_ ?_ <;> cls))
  all_goals (try (refine cinv_sig hc hpc ‹_› ‹_› rfl rfl rfl rfl ?_ ?_ ?_ ?_ ?_ <;> cls))

theorem np_set {s s' : State} {t : Nat} {pc pc' : PC} (hpc : s.pcs[t]? = some pc) (hp : s'.pcs = s.pcs.set t pc')
    (hx : isPanicked pc = false) (hnp : s'.pcs.countP isPanicked = 0) : s.pcs.countP isPanicked = 0 := by
  rw [hp, countP_set_eq isPanicked hpc, hx] at hnp
  simp only [Bool.toNat_false] at hnp; omega

theorem np_sig {s s' : State} {t u : Nat} {pc pc' pcu : PC} (hpc : s.pcs[t]? = some pc)
    (hu : s.pcs[u]? = some pcu) (hsl : isSleeping pcu = true)
    (hp : s'.pcs = (s.pcs.set u (wokenOf s u)).set t pc') (hns : isSleeping pc = false)
    (hx : isPanicked pc = false) (hnp : s'.pcs.countP isPanicked = 0) : s.pcs.countP isPanicked = 0 := by
  have hut : u ≠ t := by
    intro h; subst h; rw [hu] at hpc; cases hpc; rw [hsl] at hns; cases hns
  rw [hp, countP_set_set_eq isPanicked hpc hu hut _ _ (by cases pcu <;> simp [isSleeping] at hsl; rfl) rfl, hx] at hnp
  simp only [Bool.toNat_false] at hnp; omega

theorem np_stop {s : State} {t : Nat} (hpc : s.pcs[t]? = some PC.st1)
    (hnp : ((s.pcs.map (wakeJ t)).set t PC.st2).countP isPanicked = 0) : s.pcs.countP isPanicked = 0 := by
  have h1 : (s.pcs.map (wakeJ t))[t]? = some (wakeJ t PC.st1) := by simp [hpc]
  rw [countP_set_eq isPanicked h1, countP_map_congr isPanicked (wakeJ t) (wakeJ_class isPanicked (fun _ _ => rfl) (fun _ _ => rfl) t)] at hnp
  rw [show isPanicked (wakeJ t PC.st1) = false from rfl, show isPanicked PC.st2 = false from rfl] at hnp
  simp only [Bool.toNat_false] at hnp; omega

set_option maxHeartbeats 4000000 in
/-- a panicked thread stays panicked: a state without one comes from a state without one -/
theorem nopanic_back {s s' : State} {t : Nat} {pc : PC} {a : Act} (hpc : s.pcs[t]? = some pc)
    (h : stepAt s t pc a = .ok s') (hnp : s'.pcs.countP isPanicked = 0) : s.pcs.countP isPanicked = 0 := by
  cases a <;> cases pc <;> simp only [stepAt] at h <;> (try (simp at h; done))
  all_goals (repeat' split at h)
  all_goals (try (simp at h; done))
  all_goals (simp only [Except.ok.injEq] at h; subst h)
  all_goals (try contradiction)
  all_goals (try (exact hnp))
  all_goals (try (exact np_set hpc rfl rfl hnp))
  all_goals (try (exact np_set hpc (setQueue_pcs _ _ _ ▸ rfl) rfl hnp))
  all_goals (try (exact np_sig hpc ‹_› ‹_› rfl rfl rfl hnp))
  all_goals (try (exact np_stop hpc hnp))

end Dora.Wait.Mtx
