import DoraModel.Wait.MtxInv9
/-! # C09 — no lost wake-up on the mutex (invariant J of DESIGN A.3): definitions and one lemma per step shape -/
namespace Dora.Wait.Mtx

def isEq2M : PC → Bool
  | .eq2 .mtx => true
  | _ => false

/-- `unlock_op` saw `LOCKED_CONTENDED`; before it takes the wait-table lock -/
def isWk0M : PC → Bool
  | .wk0 .mtx false _ => true
  | _ => false

/-- E: a locker that has seen `LOCKED_CONTENDED` under the wait-table lock and is about to queue itself is covered:
the word is still 2, or whoever reset it is on its way to the wait table.
J: a non-empty mutex queue is covered by a contended word (its owner will notify), by a notifier between its
exchange and its pop, or by a slow-path thread that is not queued (`q.length < #slow-path threads`; every queued
thread is a distinct slow-path thread by Q). -/
structure JInv (s : State) : Prop where
  e : 0 < s.pcs.countP isEq2M → s.w = 2 ∨ 0 < s.pcs.countP isWk0M
  j : 0 < s.q.length → s.w = 2 ∨ 0 < s.pcs.countP isPendingNotify ∨ s.q.length < s.pcs.countP slowPath

theorem wk0M_le_pending (l : List PC) : l.countP isWk0M ≤ l.countP isPendingNotify :=
  List.countP_mono_left (by
    intro x _ hx
    cases x with
    | wk0 k all r => cases k <;> cases all <;> first | rfl | (simp [isWk0M] at hx)
    | _ => simp [isWk0M] at hx)

theorem eq2M_le_WL (l : List PC) : l.countP isEq2M ≤ l.countP holdsWL :=
  List.countP_mono_left (by
    intro x _ hx
    cases x with
    | eq2 k => rfl
    | _ => simp [isEq2M] at hx)

theorem mtxPhase_slow (pc : PC) (h : mtxPhase pc = true) : slowPath pc = true := by
  cases pc <;> simp [mtxPhase] at h <;> (try rfl)
  all_goals (first | (rename_i k _; cases k <;> simp_all [mtxPhase, slowPath]) | (rename_i k; cases k <;> simp_all [mtxPhase, slowPath]))

/-- distinct threads with a pc in class `p` are at most as many as there are pcs in class `p` -/
theorem len_le_countP (p : PC → Bool) (hidle : p PC.idle = false) : ∀ (q : List Nat) (l : List PC), q.Nodup →
    (∀ u, u ∈ q → ∃ pc, l[u]? = some pc ∧ p pc = true) → q.length ≤ l.countP p := by
  intro q
  induction q with
  | nil => intro l _ _; exact Nat.zero_le _
  | cons u rest ih =>
    intro l hnd h
    rw [List.nodup_cons] at hnd
    obtain ⟨pc, hpc, hp⟩ := h u (by simp)
    have h1 := countP_set_tf p hpc hp hidle
    have := ih (l.set u PC.idle) hnd.2 (by
      intro v hv
      have hvu : v ≠ u := by intro h'; subst h'; exact hnd.1 hv
      obtain ⟨pcv, hpv, hpp⟩ := h v (by simp [hv])
      exact ⟨pcv, by rw [get_set_ne _ hvu]; exact hpv, hpp⟩)
    simp only [List.length_cons]; omega

theorem q_le_slow {s : State} (hq : QInv s) : s.q.length ≤ s.pcs.countP slowPath :=
  len_le_countP slowPath rfl s.q s.pcs hq.qm.1 (by
    intro u hu
    obtain ⟨_, pc, hpc, hph⟩ := hq.qm.2 u hu
    exact ⟨pc, hpc, mtxPhase_slow pc hph⟩)

theorem countP_set_set_same {α} (p : α → Bool) {l : List α} {t u : Nat} {x xu : α} (h : l[t]? = some x)
    (hu : l[u]? = some xu) (hut : u ≠ t) (x' y : α) (hpx : p x' = p xu) :
    ((l.set u x').set t y).countP p = l.countP p - (p x).toNat + (p y).toNat := by
  have h1 : (l.set u x')[t]? = some x := by rw [List.getElem?_set]; simp [hut, h]
  have g := countP_ge p hu
  rw [countP_set_eq p h1, countP_set_eq p hu, hpx]
  omega

/-- the lock word is (set to) 2: everything is covered -/
theorem jinv_w2 {s' : State} (h : s'.w = 2) : JInv s' := ⟨fun _ => Or.inl h, fun _ => Or.inl h⟩

/-- a step of `t` that leaves the queue alone; the lock word may change only if it was not 2 -/
theorem jinv_set {s s' : State} {t : Nat} {pc pc' : PC} (hj : JInv s) (hpc : s.pcs[t]? = some pc)
    (hp : s'.pcs = s.pcs.set t pc') (hw : s'.w = s.w ∨ s.w ≠ 2) (hq : s'.q = s.q)
    (h1 : isEq2M pc' = true → isEq2M pc = true) (h2 : isWk0M pc = true → isWk0M pc' = true)
    (h3 : isPendingNotify pc = true → isPendingNotify pc' = true)
    (h4 : slowPath pc = true → slowPath pc' = true) : JInv s' := by
  obtain ⟨e, j⟩ := hj
  have g1 := countP_ge isEq2M hpc; have g2 := countP_ge isWk0M hpc
  have g3 := countP_ge isPendingNotify hpc; have g4 := countP_ge slowPath hpc
  have i1 := toNat_le_of_imp h1; have i2 := toNat_le_of_imp h2
  have i3 := toNat_le_of_imp h3; have i4 := toNat_le_of_imp h4
  refine ⟨?_, ?_⟩
  · rw [hp, countP_set_eq isEq2M hpc, countP_set_eq isWk0M hpc]
    intro h
    rcases e (by omega) with h' | h'
    · rcases hw with hw | hw
      · exact Or.inl (by rw [hw]; exact h')
      · exact absurd h' hw
    · exact Or.inr (by omega)
  · rw [hp, hq, countP_set_eq isPendingNotify hpc, countP_set_eq slowPath hpc]
    intro h
    rcases j h with h' | h' | h'
    · rcases hw with hw | hw
      · exact Or.inl (by rw [hw]; exact h')
      · exact absurd h' hw
    · exact Or.inr (Or.inl (by omega))
    · exact Or.inr (Or.inr (by omega))

/-- `unlock_op` saw 2: the thread is now a pending notifier -/
theorem jinv_swap2 {s s' : State} {t : Nat} {pc : PC} {r : Ret} (hpc : s.pcs[t]? = some pc)
    (hp : s'.pcs = s.pcs.set t (PC.wk0 .mtx false r)) : JInv s' := by
  have a1 : 0 < s'.pcs.countP isWk0M := by
    rw [hp, countP_set_eq isWk0M hpc, show isWk0M (PC.wk0 .mtx false r) = true from rfl]; simp only [Bool.toNat_true]; omega
  have a2 := wk0M_le_pending s'.pcs
  exact ⟨fun _ => Or.inr a1, fun _ => Or.inr (Or.inl (by omega))⟩

/-- taking the wait-table lock: nobody is at `eq2` then -/
theorem jinv_lock {s s' : State} {t : Nat} {pc pc' : PC} (hj : JInv s) (hc : CInv s) (hpc : s.pcs[t]? = some pc)
    (hwl0 : s.wl = none) (hp : s'.pcs = s.pcs.set t pc') (hw : s'.w = s.w) (hq : s'.q = s.q)
    (h1 : isEq2M pc' = false)
    (h3 : isPendingNotify pc = true → isPendingNotify pc' = true)
    (h4 : slowPath pc = true → slowPath pc' = true) : JInv s' := by
  obtain ⟨e, j⟩ := hj
  have c1 := hc.wl1; rw [hwl0] at c1; simp at c1
  have c1' : s.pcs.countP holdsWL = 0 := by rw [List.countP_eq_zero]; intro a ha; simp [c1 a ha]
  have m1 := eq2M_le_WL s.pcs
  have g1 := countP_ge isEq2M hpc
  have g3 := countP_ge isPendingNotify hpc; have g4 := countP_ge slowPath hpc
  have i3 := toNat_le_of_imp h3; have i4 := toNat_le_of_imp h4
  refine ⟨?_, ?_⟩
  · rw [hp, countP_set_eq isEq2M hpc, h1]; simp only [Bool.toNat_false]; intro h; omega
  · rw [hp, hq, hw, countP_set_eq isPendingNotify hpc, countP_set_eq slowPath hpc]
    intro h
    rcases j h with h' | h' | h'
    · exact Or.inl h'
    · exact Or.inr (Or.inl (by omega))
    · exact Or.inr (Or.inr (by omega))

/-- dropping the wait-table lock -/
theorem jinv_unlock {s s' : State} {t : Nat} {pc pc' : PC} (hj : JInv s) (hpc : s.pcs[t]? = some pc)
    (hp : s'.pcs = s.pcs.set t pc') (hw : s'.w = s.w) (hq : s'.q = s.q)
    (h1 : isEq2M pc' = false) (h2 : isWk0M pc = false)
    (h3 : isPendingNotify pc = true → s.q = [])
    (h4 : slowPath pc = true → slowPath pc' = true) : JInv s' := by
  obtain ⟨e, j⟩ := hj
  have g1 := countP_ge isEq2M hpc
  have g3 := countP_ge isPendingNotify hpc; have g4 := countP_ge slowPath hpc
  have i4 := toNat_le_of_imp h4
  refine ⟨?_, ?_⟩
  · rw [hp, hw, countP_set_eq isEq2M hpc, countP_set_eq isWk0M hpc, h1, h2]
    simp only [Bool.toNat_false]
    intro h; exact (e (by omega)).imp id (by omega)
  · rw [hq, hw]
    by_cases hpn : isPendingNotify pc = true
    · rw [h3 hpn]; intro h; cases h
    · have : isPendingNotify pc = false := by simpa using hpn
      rw [hp, countP_set_eq isPendingNotify hpc, countP_set_eq slowPath hpc, this]
      simp only [Bool.toNat_false]
      intro h
      rcases j h with h' | h' | h'
      · exact Or.inl h'
      · exact Or.inr (Or.inl (by omega))
      · exact Or.inr (Or.inr (by omega))

@[simp] theorem setQueue_q_mtx (s : State) (l : List Nat) : (setQueue s .mtx l).q = l := rfl
@[simp] theorem setQueue_q_cond (s : State) (l : List Nat) : (setQueue s .cond l).q = s.q := rfl

/-- `append_to_waitlist`: for the mutex queue this is where E pays off -/
theorem jinv_enq {s : State} {t : Nat} {k : Kind} (bb : List Bool) (hj : JInv s) (hpc : s.pcs[t]? = some (PC.eq2 k)) :
    JInv { setQueue s k (queueOf s k ++ [t]) with b := bb, pcs := s.pcs.set t (PC.eq3 k true) } := by
  obtain ⟨e, j⟩ := hj
  have g1 := countP_ge isEq2M hpc
  have m := wk0M_le_pending s.pcs
  have e2' : isEq2M (PC.eq3 k true) = false := rfl
  have e3 : isWk0M (PC.eq2 k) = false := rfl
  have e3' : isWk0M (PC.eq3 k true) = false := rfl
  have e4 : isPendingNotify (PC.eq2 k) = false := rfl
  have e4' : isPendingNotify (PC.eq3 k true) = false := rfl
  have e5 : slowPath (PC.eq3 k true) = slowPath (PC.eq2 k) := by cases k <;> rfl
  refine ⟨?_, ?_⟩
  · dsimp only
    rw [setQueue_w, countP_set_eq isEq2M hpc, countP_set_eq isWk0M hpc, e2', e3, e3']
    simp only [Bool.toNat_false]
    intro h; exact (e (by omega)).imp id (by omega)
  · dsimp only
    rw [setQueue_w, countP_set_eq isPendingNotify hpc, countP_set_eq slowPath hpc, e4, e4', e5]
    have g4 := countP_ge slowPath hpc
    simp only [Bool.toNat_false]
    cases k
    · rw [setQueue_q_mtx]
      intro _
      rw [show isEq2M (PC.eq2 .mtx) = true from rfl] at g1; simp only [Bool.toNat_true] at g1
      rcases e (by omega) with h' | h'
      · exact Or.inl h'
      · exact Or.inr (Or.inl (by omega))
    · rw [setQueue_q_cond]
      intro h
      rcases j h with h' | h' | h'
      · exact Or.inl h'
      · exact Or.inr (Or.inl (by omega))
      · exact Or.inr (Or.inr (by omega))

/-- `remove_from_waitlist` of the head: the rest of the queue is shorter than the number of slow-path threads -/
theorem jinv_pop {s : State} {t u : Nat} {k : Kind} {a : Bool} {r : Ret} {hd : Nat} {rest : List Nat} (bb : List Bool)
    (hj : JInv s) (hQ : QInv s) (hpc : s.pcs[t]? = some (PC.wk1 k a r)) (hq : queueOf s k = hd :: rest) :
    JInv { setQueue s k rest with b := bb, pcs := s.pcs.set t (PC.wk2 k a r u) } := by
  obtain ⟨e, j⟩ := hj
  have hL := q_le_slow hQ
  have e1 : isEq2M (PC.wk1 k a r) = false := rfl
  have e1' : isEq2M (PC.wk2 k a r u) = false := rfl
  have e2 : isWk0M (PC.wk1 k a r) = false := rfl
  have e2' : isWk0M (PC.wk2 k a r u) = false := rfl
  have e4 : slowPath (PC.wk1 k a r) = false := rfl
  have e4' : slowPath (PC.wk2 k a r u) = false := rfl
  have e3' : isPendingNotify (PC.wk2 k a r u) = false := rfl
  refine ⟨?_, ?_⟩
  · dsimp only
    rw [setQueue_w, countP_set_eq isEq2M hpc, countP_set_eq isWk0M hpc, e1, e1', e2, e2']
    simp only [Bool.toNat_false]
    intro h; exact (e (by omega)).imp id (by omega)
  · dsimp only
    rw [setQueue_w, countP_set_eq isPendingNotify hpc, countP_set_eq slowPath hpc, e3', e4, e4']
    simp only [Bool.toNat_false]
    cases k
    · rw [setQueue_q_mtx]
      have : s.q = hd :: rest := hq
      rw [this] at hL; simp only [List.length_cons] at hL
      intro _; exact Or.inr (Or.inr (by omega))
    · rw [setQueue_q_cond]
      have hpn : isPendingNotify (PC.wk1 .cond a r) = false := rfl
      rw [hpn]; simp only [Bool.toNat_false]
      intro h
      rcases j h with h' | h' | h'
      · exact Or.inl h'
      · exact Or.inr (Or.inl (by omega))
      · exact Or.inr (Or.inr (by omega))

/-- `notify_one` that wakes the sleeping thread `u` (`sleeping k → wokenB k`: same classes) -/
theorem jinv_sig {s s' : State} {t u : Nat} {pc pc' pcu : PC} (hj : JInv s) (hpc : s.pcs[t]? = some pc)
    (hu : s.pcs[u]? = some pcu) (hsl : isSleeping pcu = true)
    (hp : s'.pcs = (s.pcs.set u (wokenOf s u)).set t pc') (hw : s'.w = s.w) (hq : s'.q = s.q)
    (hns : isSleeping pc = false)
    (h1 : isEq2M pc' = true → isEq2M pc = true) (h2 : isWk0M pc = true → isWk0M pc' = true)
    (h3 : isPendingNotify pc = true → isPendingNotify pc' = true)
    (h4 : slowPath pc = true → slowPath pc' = true) : JInv s' := by
  have hut : u ≠ t := by intro h; subst h; rw [hu] at hpc; cases hpc; rw [hsl] at hns; cases hns
  have hcls : ∀ p : PC → Bool, (∀ k, p (.wokenB k) = p (.sleeping k)) →
      s'.pcs.countP p = s.pcs.countP p - (p pc).toNat + (p pc').toNat := by
    intro p hpk
    rw [hp]
    refine countP_set_set_same p hpc hu hut _ _ ?_
    unfold wokenOf; rw [hu]
    cases pcu <;> simp [isSleeping] at hsl
    exact hpk _
  obtain ⟨e, j⟩ := hj
  have g1 := countP_ge isEq2M hpc; have g2 := countP_ge isWk0M hpc
  have g3 := countP_ge isPendingNotify hpc; have g4 := countP_ge slowPath hpc
  have i1 := toNat_le_of_imp h1; have i2 := toNat_le_of_imp h2
  have i3 := toNat_le_of_imp h3; have i4 := toNat_le_of_imp h4
  refine ⟨?_, ?_⟩
  · rw [hw, hcls isEq2M (fun _ => rfl), hcls isWk0M (fun _ => rfl)]
    intro h; exact (e (by omega)).imp id (by omega)
  · rw [hw, hq, hcls isPendingNotify (fun _ => rfl), hcls slowPath (fun k => by cases k <;> rfl)]
    intro h
    rcases j h with h' | h' | h'
    · exact Or.inl h'
    · exact Or.inr (Or.inl (by omega))
    · exact Or.inr (Or.inr (by omega))

/-- `stop` -/
theorem jinv_stop {s : State} {t : Nat} (rr : List Bool) (hj : JInv s) (hpc : s.pcs[t]? = some PC.st1) :
    JInv { s with running := rr, pcs := (s.pcs.map (wakeJ t)).set t PC.st2 } := by
  obtain ⟨e, j⟩ := hj
  have h1 : (s.pcs.map (wakeJ t))[t]? = some (wakeJ t PC.st1) := by simp [hpc]
  have hs : ∀ p : PC → Bool, (∀ r u, p (.jsl r u) = false) → (∀ r u, p (.jwk r u) = false) → p .st1 = false → p .st2 = false →
      ((s.pcs.map (wakeJ t)).set t PC.st2).countP p = s.pcs.countP p := by
    intro p a b c d
    rw [countP_set_eq p h1, countP_map_congr p (wakeJ t) (wakeJ_class p a b t)]
    simp [wakeJ, c, d]
  refine ⟨?_, ?_⟩
  · dsimp only; rw [hs isEq2M (fun _ _ => rfl) (fun _ _ => rfl) rfl rfl, hs isWk0M (fun _ _ => rfl) (fun _ _ => rfl) rfl rfl]; exact e
  · dsimp only; rw [hs isPendingNotify (fun _ _ => rfl) (fun _ _ => rfl) rfl rfl, hs slowPath (fun _ _ => rfl) (fun _ _ => rfl) rfl rfl]; exact j

end Dora.Wait.Mtx
