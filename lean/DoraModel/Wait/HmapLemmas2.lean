import DoraModel.Wait.HmapLemmas
/-! # C09 — wait table: `insert` / `remove` probe loops and the single-operation specifications -/
namespace Dora.Wait.Hmap

theorem insertLoop_skip {m : Map} {n : Nat} (hc : m.capacity = 2 ^ n) (k v : Nat) :
    ∀ (D f a : Nat) (acc : Option Nat),
      (∀ j, j < D → ∃ e : Entry, m.data[(a + j) % m.capacity]? = some e ∧ Skip k e) →
      ∃ acc', insertLoop m k v (f + D) (a % m.capacity) acc = insertLoop m k v f ((a + D) % m.capacity) acc' ∧
        (acc' = none → acc = none) ∧
        (∀ i, acc' = some i → acc = some i ∨
          (acc = none ∧ ∃ j, j < D ∧ i = (a + j) % m.capacity ∧ ∃ e : Entry, m.data[i]? = some e ∧ e.key = 1)) := by
  intro D
  induction D with
  | zero => intro f a acc _; exact ⟨acc, rfl, fun h => h, fun i h => Or.inl h⟩
  | succ D ih =>
    intro f a acc h
    obtain ⟨e, he, hs⟩ := h 0 (by omega)
    rw [Nat.add_zero] at he
    have hrest : ∀ j, j < D → ∃ e : Entry, m.data[(a + 1 + j) % m.capacity]? = some e ∧ Skip k e := by
      intro j hj
      have := h (j + 1) (by omega)
      rwa [show a + (j + 1) = a + 1 + j by omega] at this
    rw [show f + (D + 1) = f + D + 1 by omega, show a + (D + 1) = a + 1 + D by omega]
    rcases hs with h1 | ⟨h1, h2⟩
    · -- deleted slot: remembered if it is the first one
      have hstep : insertLoop m k v (f + D + 1) (a % m.capacity) acc =
          insertLoop m k v (f + D) ((a + 1) % m.capacity)
            (match acc with | none => some (a % m.capacity) | some i => some i) := by
        conv => lhs; unfold insertLoop
        simp only [he]
        rw [show next m (a % m.capacity) = (a + 1) % m.capacity from next_mod a hc]
        have hn : ¬ (1 < e.key) := by omega
        simp [h1]
        try rfl
      obtain ⟨acc', heq, hnone, hsome⟩ := ih f (a + 1) _ hrest
      refine ⟨acc', by rw [hstep, heq], ?_, ?_⟩
      · intro hn; have := hnone hn; cases acc <;> simp at this
      · intro i hi
        rcases hsome i hi with h3 | ⟨h3, _⟩
        · cases acc with
          | none =>
            simp at h3
            exact Or.inr ⟨rfl, 0, by omega, by simp [← h3], e, by rw [← h3]; exact he, h1⟩
          | some i0 => simp at h3; exact Or.inl (by rw [h3])
        · cases acc <;> simp at h3
    · have hstep : insertLoop m k v (f + D + 1) (a % m.capacity) acc =
          insertLoop m k v (f + D) ((a + 1) % m.capacity) acc := by
        conv => lhs; unfold insertLoop
        simp only [he]
        rw [show next m (a % m.capacity) = (a + 1) % m.capacity from next_mod a hc]
        simp [h1, h2]
      obtain ⟨acc', heq, hnone, hsome⟩ := ih f (a + 1) acc hrest
      refine ⟨acc', by rw [hstep, heq], hnone, ?_⟩
      intro i hi
      rcases hsome i hi with h3 | ⟨h3, j, hj, hij, hdel⟩
      · exact Or.inl h3
      · exact Or.inr ⟨h3, j + 1, by omega, by rw [hij, show a + 1 + j = a + (j + 1) by omega], hdel⟩

theorem insertLoop_stop_live {m : Map} {k v : Nat} (hk : 1 < k) {f idx : Nat} {acc : Option Nat} {e : Entry}
    (he : m.data[idx]? = some e) (hs : e.key = k) :
    insertLoop m k v (f + 1) idx acc = .ok { m with data := m.data.set idx ⟨k, v⟩ } := by
  unfold insertLoop
  simp only [he]
  have hk0 : ¬ (k = 0) := by omega
  simp only [hs, hk, if_true]

theorem insertLoop_stop_empty {m : Map} {k v : Nat} {f idx : Nat} {acc : Option Nat} {e eI : Entry}
    (he : m.data[idx]? = some e) (hs : e.key = 0) (hI : m.data[acc.getD idx]? = some eI) :
    insertLoop m k v (f + 1) idx acc =
      if eI.key = 1 then
        (if m.deleted = 0 then .error (.panic "deleted -= 1 overflows")
         else .ok { m with data := m.data.set (acc.getD idx) ⟨k, v⟩, entries := m.entries + 1, deleted := m.deleted - 1 })
      else .ok { m with data := m.data.set (acc.getD idx) ⟨k, v⟩, entries := m.entries + 1 } := by
  unfold insertLoop
  simp only [he]
  cases acc <;> simp [hs] <;> simp at hI <;> simp [hI]

theorem removeLoop_skip {m : Map} {n : Nat} (hc : m.capacity = 2 ^ n) (k : Nat) :
    ∀ (D f a : Nat), (∀ j, j < D → ∃ e : Entry, m.data[(a + j) % m.capacity]? = some e ∧ Skip k e) →
      removeLoop m k (f + D) (a % m.capacity) = removeLoop m k f ((a + D) % m.capacity) := by
  intro D
  induction D with
  | zero => intro f a _; rfl
  | succ D ih =>
    intro f a h
    obtain ⟨e, he, hs⟩ := h 0 (by omega)
    rw [Nat.add_zero] at he
    have hstep : removeLoop m k (f + D + 1) (a % m.capacity) = removeLoop m k (f + D) ((a + 1) % m.capacity) := by
      conv => lhs; unfold removeLoop
      simp only [he]
      rw [show next m (a % m.capacity) = (a + 1) % m.capacity from next_mod a hc]
      rcases hs with h1 | ⟨h1, h2⟩
      · simp [h1]
      · simp [h1, h2]
    rw [show f + (D + 1) = f + D + 1 by omega, hstep, ih f (a + 1)]
    · rw [show a + 1 + D = a + (D + 1) by omega]
    · intro j hj
      have := h (j + 1) (by omega)
      rwa [show a + (j + 1) = a + 1 + j by omega] at this

theorem removeLoop_stop {m : Map} {k : Nat} (hk : 1 < k) {f idx : Nat} {e : Entry}
    (he : m.data[idx]? = some e) (hs : Stop k e) :
    removeLoop m k (f + 1) idx =
      if e.key = 0 then .ok (none, m)
      else if m.entries = 0 then .error (.panic "entries -= 1 overflows")
      else .ok (some e.val, { m with data := m.data.set idx ⟨1, 0⟩, entries := m.entries - 1, deleted := m.deleted + 1 }) := by
  unfold removeLoop
  simp only [he]
  rcases hs with h0 | h1
  · have hn : ¬ (1 < e.key) := by omega
    have hn1 : ¬ (e.key = 1) := by omega
    simp [h0]
    try rfl
  · have hk0 : ¬ (k = 0) := by omega
    simp only [h1, hk, hk0, if_false, if_true]

/-! ## locating a key -/

theorem locate_found {m : Map} (hlen : m.data.length = m.capacity)
    (hnd : NoDup m.data) (hh : Hashed m.data m.capacity) {k v i : Nat} (hl : Live m.data i k v) :
    ∃ d0, d0 < m.capacity ∧ (k + d0) % m.capacity = i ∧
      (∀ j, j < d0 → ∃ e : Entry, m.data[(k + j) % m.capacity]? = some e ∧ Skip k e) := by
  obtain ⟨D, hD, hDi, hpath⟩ := hh i k v hl
  have hk := hl.2
  obtain ⟨d0, e0, hd0, he0, hs0, hskip, hmin⟩ := probe_decomp hlen k
    ⟨D, hD, ⟨k, v⟩, by rw [hDi]; exact hl.1, Or.inr rfl⟩
  have hle : d0 ≤ D := hmin D ⟨⟨k, v⟩, by rw [hDi]; exact hl.1, Or.inr rfl⟩
  have hne : e0.key ≠ 0 := by
    rcases Nat.lt_or_ge d0 D with h | h
    · obtain ⟨e, he, hne⟩ := hpath d0 h
      rw [he0] at he; cases he; exact hne
    · have : d0 = D := by omega
      subst this; rw [hDi, hl.1] at he0; cases he0; simp; omega
  have hkey : e0.key = k := by rcases hs0 with h | h; exact absurd h hne; exact h
  have hl0 : Live m.data ((k + d0) % m.capacity) k e0.val := by
    have := live_eta he0 (by omega); rwa [hkey] at this
  exact ⟨d0, hd0, hnd _ _ _ _ _ hl0 hl, hskip⟩

theorem locate_absent {m : Map} (hlen : m.data.length = m.capacity)
    {k : Nat} (hk : 1 < k) (habs : ∀ v, ¬ Lookup m k v) (he : HasEmpty m) :
    ∃ d0 e0, d0 < m.capacity ∧ m.data[(k + d0) % m.capacity]? = some e0 ∧ e0.key = 0 ∧
      (∀ j, j < d0 → ∃ e : Entry, m.data[(k + j) % m.capacity]? = some e ∧ Skip k e) := by
  obtain ⟨ie, ee, hee, hk0⟩ := he
  have hie : ie < m.capacity := by
    rw [← hlen]; exact (getElem_of_getElem? hee).1
  obtain ⟨D, hD, hDi⟩ := exists_offset k hie
  obtain ⟨d0, e0, hd0, he0, hs0, hskip, _⟩ := probe_decomp hlen k
    ⟨D, hD, ee, by rw [hDi]; exact hee, Or.inl hk0⟩
  refine ⟨d0, e0, hd0, he0, ?_, hskip⟩
  rcases hs0 with h | h
  · exact h
  · exact absurd ⟨_, by have := live_eta he0 (by omega); rwa [h] at this⟩ (habs e0.val)

end Dora.Wait.Hmap
