import DoraModel.Wait.Hmap
/-!
# C09 — the wait table refines a finite map: definitions and lemmas

`Lookup m k v` ("some slot holds the live entry `k ↦ v`") is the abstraction relation; an abstract map
`a : Nat → Option Nat` is represented by `m` when `a k = some v ↔ Lookup m k v` (`Repr`).
`WInv ep m` is the invariant; it implies `HasEmpty m` ("an EMPTY slot exists", what makes the probe loops
terminate) for every table of capacity > 0, because tombstones count towards the load factor (`winv_hasEmpty`).
-/
namespace Dora.Wait.Hmap

/-- slot `i` holds the live entry `k ↦ v` -/
def Live (d : List Entry) (i k v : Nat) : Prop := d[i]? = some ⟨k, v⟩ ∧ 1 < k

/-- the table maps `k` to `v` -/
def Lookup (m : Map) (k v : Nat) : Prop := ∃ i, Live m.data i k v

/-- `m` represents the abstract map `a` (keys are object addresses, `> 1`) -/
def Repr (m : Map) (a : Nat → Option Nat) : Prop := ∀ k v, 1 < k → (a k = some v ↔ Lookup m k v)

/-- no key is stored twice -/
def NoDup (d : List Entry) : Prop := ∀ i j k v w, Live d i k v → Live d j k w → i = j

def NonEmptyAt (d : List Entry) (i : Nat) : Prop := ∃ e : Entry, d[i]? = some e ∧ e.key ≠ 0

/-- every live entry is reachable from its home slot through non-empty slots -/
def Hashed (d : List Entry) (c : Nat) : Prop :=
  ∀ i k v, Live d i k v → ∃ D, D < c ∧ (k + D) % c = i ∧ ∀ j, j < D → NonEmptyAt d ((k + j) % c)

/-- an EMPTY slot exists (termination argument of the three probe loops) -/
def HasEmpty (m : Map) : Prop := ∃ (i : Nat) (e : Entry), m.data[i]? = some e ∧ e.key = 0

/-- what every operation preserves -/
structure WInv (ep : Nat) (m : Map) : Prop where
  pow2 : m.capacity = 0 ∨ (8 ≤ m.capacity ∧ ∃ n, m.capacity = 2 ^ n)
  len : m.data.length = m.capacity
  cnt : m.entries = m.data.countP (fun (e : Entry) => decide (1 < e.key))
  nodup : NoDup m.data
  /-- only a table built under the current epoch is hashed by the current addresses -/
  hashed : m.gcEpoch = ep → Hashed m.data m.capacity
  /-- the `deleted` counter is the number of tombstones -/
  del : m.deleted = tombstones m
  /-- live entries and tombstones together stay below the load limit: an EMPTY slot always exists -/
  load : m.entries + m.deleted ≤ m.capacity - m.capacity / 4

/-! ## arithmetic of the probe sequence -/

theorem home_mod {c n : Nat} (k : Nat) (hc : c = 2 ^ n) : k &&& (c - 1) = k % c := by
  subst hc; exact Nat.and_two_pow_sub_one_eq_mod k n

theorem next_mod {c n : Nat} (a : Nat) (hc : c = 2 ^ n) : (a % c + 1) &&& (c - 1) = (a + 1) % c := by
  rw [home_mod _ hc, Nat.add_mod a 1 c, Nat.add_mod (a % c) 1 c, Nat.mod_mod]

theorem exists_offset {c i : Nat} (h : Nat) (hi : i < c) : ∃ D, D < c ∧ (h + D) % c = i := by
  have hc : 0 < c := by omega
  have hlt : h % c < c := Nat.mod_lt _ hc
  have key : ∀ D, (h + D) % c = (h % c + D) % c := by
    intro D; rw [Nat.add_mod h D c, Nat.add_mod (h % c) D c, Nat.mod_mod]
  by_cases hle : h % c ≤ i
  · refine ⟨i - h % c, by omega, ?_⟩
    rw [key]
    have : h % c + (i - h % c) = i := by omega
    rw [this]; exact Nat.mod_eq_of_lt hi
  · refine ⟨c - h % c + i, by omega, ?_⟩
    rw [key]
    have : h % c + (c - h % c + i) = c + i := by omega
    rw [this, Nat.add_mod_left]; exact Nat.mod_eq_of_lt hi

theorem first_stop (P : Nat → Prop) (D : Nat) (h : P D) : ∃ d0, d0 ≤ D ∧ P d0 ∧ ∀ j, j < d0 → ¬ P j := by
  induction D using Nat.strongRecOn with
  | ind D ih =>
    by_cases hex : ∃ j, j < D ∧ P j
    · obtain ⟨j, hj, hpj⟩ := hex
      obtain ⟨d0, hd0, hp, hmin⟩ := ih j hj hpj
      exact ⟨d0, by omega, hp, hmin⟩
    · exact ⟨D, Nat.le_refl _, h, fun j hj hpj => hex ⟨j, hj, hpj⟩⟩

theorem pow2_pos {c : Nat} (h : ∃ n, c = 2 ^ n) : 0 < c := by
  obtain ⟨n, rfl⟩ := h; exact Nat.two_pow_pos n

/-! ## the probe loops -/

/-- the loop passes over this slot when looking for `k` -/
def Skip (k : Nat) (e : Entry) : Prop := e.key = 1 ∨ (1 < e.key ∧ e.key ≠ k)

/-- the loop ends at this slot when looking for `k` -/
def Stop (k : Nat) (e : Entry) : Prop := e.key = 0 ∨ e.key = k

theorem skip_or_stop (k : Nat) (e : Entry) : Skip k e ∨ Stop k e := by
  unfold Skip Stop; omega

theorem getLoop_skip {m : Map} {n : Nat} (hc : m.capacity = 2 ^ n) (k : Nat) :
    ∀ (D f a : Nat), (∀ j, j < D → ∃ e, m.data[(a + j) % m.capacity]? = some e ∧ Skip k e) →
      getLoop m k (f + D) (a % m.capacity) = getLoop m k f ((a + D) % m.capacity) := by
  intro D
  induction D with
  | zero => intro f a _; rfl
  | succ D ih =>
    intro f a h
    obtain ⟨e, he, hs⟩ := h 0 (by omega)
    rw [Nat.add_zero] at he
    have hstep : getLoop m k (f + D + 1) (a % m.capacity) = getLoop m k (f + D) ((a + 1) % m.capacity) := by
      conv => lhs; unfold getLoop
      simp only [he]
      rw [show next m (a % m.capacity) = (a + 1) % m.capacity from next_mod a hc]
      rcases hs with h1 | ⟨h1, h2⟩
      · simp [h1]
      · simp [h1, h2]
    rw [show f + (D + 1) = f + D + 1 by omega, hstep, ih f (a + 1)]
    · rw [show a + 1 + D = a + (D + 1) by omega]
    · intro j hj
      have := h (j + 1) (by omega)
      rwa [show a + (j + 1) = a + 1 + j by omega] at this

theorem getLoop_stop {m : Map} {k : Nat} (hk : 1 < k) {f idx : Nat} {e : Entry}
    (he : m.data[idx]? = some e) (hs : Stop k e) :
    getLoop m k (f + 1) idx = .ok (if e.key = 0 then none else some e.val) := by
  unfold getLoop
  simp only [he]
  rcases hs with h0 | h1
  · simp [h0]
  · have : e.key ≠ 0 := by omega
    simp [h1, hk]
    omega

/-- the probe sequence of `k` reaches a slot where the loop ends; the first such slot -/
theorem probe_decomp {m : Map} (hlen : m.data.length = m.capacity) (k : Nat)
    (hex : ∃ D, D < m.capacity ∧ ∃ e, m.data[(k + D) % m.capacity]? = some e ∧ Stop k e) :
    ∃ d0 e0, d0 < m.capacity ∧ m.data[(k + d0) % m.capacity]? = some e0 ∧ Stop k e0 ∧
      (∀ j, j < d0 → ∃ e, m.data[(k + j) % m.capacity]? = some e ∧ Skip k e) ∧
      (∀ D, (∃ e, m.data[(k + D) % m.capacity]? = some e ∧ Stop k e) → d0 ≤ D) := by
  obtain ⟨D, hD, hP⟩ := hex
  obtain ⟨d0, hd0, ⟨e0, he0, hs0⟩, hmin⟩ :=
    first_stop (fun j => ∃ e, m.data[(k + j) % m.capacity]? = some e ∧ Stop k e) D hP
  refine ⟨d0, e0, by omega, he0, hs0, ?_, ?_⟩
  · intro j hj
    have hlt : (k + j) % m.capacity < m.data.length := by rw [hlen]; exact Nat.mod_lt _ (by omega)
    refine ⟨m.data[(k + j) % m.capacity], List.getElem?_eq_getElem hlt, ?_⟩
    rcases skip_or_stop k (m.data[(k + j) % m.capacity]) with h | h
    · exact h
    · exact absurd ⟨_, List.getElem?_eq_getElem hlt, h⟩ (hmin j hj)
  · intro D' hD'
    rcases Nat.lt_or_ge D' d0 with h | h
    · exact absurd hD' (hmin D' h)
    · exact h

theorem live_eta {d : List Entry} {i : Nat} {e : Entry} (he : d[i]? = some e) (h1 : 1 < e.key) :
    Live d i e.key e.val := ⟨by cases e; exact he, h1⟩

theorem getLoop_found {m : Map} {n : Nat} (hc : m.capacity = 2 ^ n) (hlen : m.data.length = m.capacity)
    (hnd : NoDup m.data) (hh : Hashed m.data m.capacity) {k v i : Nat} (hl : Live m.data i k v) :
    getLoop m k m.capacity (k % m.capacity) = .ok (some v) := by
  obtain ⟨D, hD, hDi, hpath⟩ := hh i k v hl
  have hk := hl.2
  obtain ⟨d0, e0, hd0, he0, hs0, hskip, hmin⟩ := probe_decomp hlen k
    ⟨D, hD, ⟨k, v⟩, by rw [hDi]; exact hl.1, Or.inr rfl⟩
  have hle : d0 ≤ D := hmin D ⟨⟨k, v⟩, by rw [hDi]; exact hl.1, Or.inr rfl⟩
  have hne : e0.key ≠ 0 := by
    rcases Nat.lt_or_ge d0 D with h | h
    · obtain ⟨e, he, hne⟩ := hpath d0 h
      rw [he0] at he; cases he; exact hne
    · have : d0 = D := by omega
      subst this; rw [hDi, hl.1] at he0; cases he0; simp; omega
  have hkey : e0.key = k := by rcases hs0 with h | h; exact absurd h hne; exact h
  have hl0 : Live m.data ((k + d0) % m.capacity) k e0.val := by
    have := live_eta he0 (by omega); rwa [hkey] at this
  have hidx := hnd _ _ _ _ _ hl0 hl
  have hv : e0.val = v := by
    have h1 := hl0.1; rw [hidx, hl.1] at h1; cases h1; rfl
  have h := getLoop_skip hc k d0 (m.capacity - d0) k hskip
  rw [show m.capacity - d0 + d0 = m.capacity by omega] at h
  rw [h, show m.capacity - d0 = (m.capacity - d0 - 1) + 1 by omega, getLoop_stop hk he0 hs0]
  simp [hne, hv]

theorem getLoop_absent {m : Map} {n : Nat} (hc : m.capacity = 2 ^ n) (hlen : m.data.length = m.capacity)
    {k : Nat} (hk : 1 < k) (habs : ∀ v, ¬ Lookup m k v) (he : HasEmpty m) :
    getLoop m k m.capacity (k % m.capacity) = .ok none := by
  obtain ⟨ie, ee, hee, hk0⟩ := he
  have hie : ie < m.capacity := by
    rw [← hlen]
    rcases Nat.lt_or_ge ie m.data.length with h | h
    · exact h
    · rw [List.getElem?_eq_none h] at hee; cases hee
  obtain ⟨D, hD, hDi⟩ := exists_offset k hie
  obtain ⟨d0, e0, hd0, he0, hs0, hskip, _⟩ := probe_decomp hlen k
    ⟨D, hD, ee, by rw [hDi]; exact hee, Or.inl hk0⟩
  have h0 : e0.key = 0 := by
    rcases hs0 with h | h
    · exact h
    · exact absurd ⟨_, by have := live_eta he0 (by omega); rwa [h] at this⟩ (habs e0.val)
  have h := getLoop_skip hc k d0 (m.capacity - d0) k hskip
  rw [show m.capacity - d0 + d0 = m.capacity by omega] at h
  rw [h, show m.capacity - d0 = (m.capacity - d0 - 1) + 1 by omega, getLoop_stop hk he0 hs0]
  simp [h0]

/-! ## writing one slot -/

theorem live_set_ne {d : List Entry} {p i : Nat} (e' : Entry) (h : i ≠ p) (k v : Nat) :
    Live (d.set p e') i k v ↔ Live d i k v := by
  unfold Live; rw [List.getElem?_set]; simp [Ne.symm h]

theorem live_set_eq {d : List Entry} {p : Nat} (hp : p < d.length) (k' v' k v : Nat) :
    Live (d.set p ⟨k', v'⟩) p k v ↔ (k = k' ∧ v = v' ∧ 1 < k') := by
  unfold Live; rw [List.getElem?_set]; simp [hp]
  constructor
  · rintro ⟨⟨h1, h2⟩, h3⟩; subst h1; subst h2; exact ⟨rfl, rfl, h3⟩
  · rintro ⟨h1, h2, h3⟩; subst h1; subst h2; exact ⟨⟨rfl, rfl⟩, h3⟩

theorem nonEmptyAt_set {d : List Entry} {p j : Nat} {e' : Entry} (he' : e'.key ≠ 0) (h : NonEmptyAt d j) :
    NonEmptyAt (d.set p e') j := by
  obtain ⟨e, he, hne⟩ := h
  unfold NonEmptyAt
  rw [List.getElem?_set]
  by_cases hpj : p = j
  · subst hpj
    have hp : p < d.length := by
      rcases Nat.lt_or_ge p d.length with h | h
      · exact h
      · rw [List.getElem?_eq_none h] at he; cases he
    simp [hp, he']
  · simp [hpj]; exact ⟨e, he, hne⟩

/-- writing `k ↦ v` into slot `p`, which lies on `k`'s probe path behind non-empty slots and is the only
slot that may already hold `k` -/
theorem set_spec {d : List Entry} {c p k v : Nat} (hk : 1 < k) (hp : p < d.length)
    (hnd : NoDup d) (hh : Hashed d c)
    (hother : ∀ i k' v', Live d i k' v' → i ≠ p → k' ≠ k)
    (hself : ∀ k' v', Live d p k' v' → k' = k)
    (hreach : ∃ D, D < c ∧ (k + D) % c = p ∧ ∀ j, j < D → NonEmptyAt d ((k + j) % c)) :
    NoDup (d.set p ⟨k, v⟩) ∧ Hashed (d.set p ⟨k, v⟩) c ∧
    (∀ k' v', (∃ i, Live (d.set p ⟨k, v⟩) i k' v') ↔ ((k' = k ∧ v' = v) ∨ (k' ≠ k ∧ ∃ i, Live d i k' v'))) := by
  have hne : (⟨k, v⟩ : Entry).key ≠ 0 := by simp; omega
  refine ⟨?_, ?_, ?_⟩
  · intro i j k1 v1 w1 hi hj
    by_cases hip : i = p <;> by_cases hjp : j = p
    · omega
    · subst hip
      rw [live_set_eq hp] at hi
      rw [live_set_ne _ hjp] at hj
      exact absurd hi.1 (hother j k1 w1 hj hjp)
    · subst hjp
      rw [live_set_eq hp] at hj
      rw [live_set_ne _ hip] at hi
      exact absurd hj.1 (hother i k1 v1 hi hip)
    · rw [live_set_ne _ hip] at hi; rw [live_set_ne _ hjp] at hj
      exact hnd _ _ _ _ _ hi hj
  · intro i k1 v1 hi
    by_cases hip : i = p
    · subst hip
      rw [live_set_eq hp] at hi
      obtain ⟨D, hD, hDp, hpath⟩ := hreach
      rw [hi.1]
      exact ⟨D, hD, hDp, fun j hj => nonEmptyAt_set hne (hpath j hj)⟩
    · rw [live_set_ne _ hip] at hi
      obtain ⟨D, hD, hDp, hpath⟩ := hh i k1 v1 hi
      exact ⟨D, hD, hDp, fun j hj => nonEmptyAt_set hne (hpath j hj)⟩
  · intro k' v'
    constructor
    · rintro ⟨i, hi⟩
      by_cases hip : i = p
      · subst hip; rw [live_set_eq hp] at hi; exact Or.inl ⟨hi.1, hi.2.1⟩
      · rw [live_set_ne _ hip] at hi
        exact Or.inr ⟨hother i k' v' hi hip, i, hi⟩
    · rintro (⟨h1, h2⟩ | ⟨h1, i, hi⟩)
      · exact ⟨p, by rw [live_set_eq hp]; exact ⟨h1, h2, hk⟩⟩
      · have hip : i ≠ p := by
          intro h; subst h; exact h1 (hself k' v' hi)
        exact ⟨i, by rw [live_set_ne _ hip]; exact hi⟩

/-- turning the live slot `p` (key `k`) into a tombstone -/
theorem del_spec {d : List Entry} {c p k vold : Nat} (hp : p < d.length)
    (hnd : NoDup d) (hh : Hashed d c) (hl : Live d p k vold) :
    NoDup (d.set p ⟨1, 0⟩) ∧ Hashed (d.set p ⟨1, 0⟩) c ∧
    (∀ k' v', (∃ i, Live (d.set p ⟨1, 0⟩) i k' v') ↔ (k' ≠ k ∧ ∃ i, Live d i k' v')) := by
  have hne : (⟨1, 0⟩ : Entry).key ≠ 0 := by simp
  have hnot : ∀ k1 v1, ¬ Live (d.set p ⟨1, 0⟩) p k1 v1 := by
    intro k1 v1 h; rw [live_set_eq hp] at h; omega
  refine ⟨?_, ?_, ?_⟩
  · intro i j k1 v1 w1 hi hj
    by_cases hip : i = p
    · subst hip; exact absurd hi (hnot _ _)
    · by_cases hjp : j = p
      · subst hjp; exact absurd hj (hnot _ _)
      · rw [live_set_ne _ hip] at hi; rw [live_set_ne _ hjp] at hj
        exact hnd _ _ _ _ _ hi hj
  · intro i k1 v1 hi
    by_cases hip : i = p
    · subst hip; exact absurd hi (hnot _ _)
    · rw [live_set_ne _ hip] at hi
      obtain ⟨D, hD, hDp, hpath⟩ := hh i k1 v1 hi
      exact ⟨D, hD, hDp, fun j hj => nonEmptyAt_set hne (hpath j hj)⟩
  · intro k' v'
    constructor
    · rintro ⟨i, hi⟩
      by_cases hip : i = p
      · subst hip; exact absurd hi (hnot _ _)
      · rw [live_set_ne _ hip] at hi
        refine ⟨?_, i, hi⟩
        intro hkk; subst hkk
        exact hip (hnd _ _ _ _ _ hi hl)
    · rintro ⟨h1, i, hi⟩
      have hip : i ≠ p := by
        intro h; subst h
        have := hi.1; rw [hl.1] at this; cases this; exact h1 rfl
      exact ⟨i, by rw [live_set_ne _ hip]; exact hi⟩

theorem getElem_of_getElem? {d : List Entry} {p : Nat} {e : Entry} (h : d[p]? = some e) :
    ∃ hp : p < d.length, d[p] = e := by
  rcases Nat.lt_or_ge p d.length with hp | hp
  · exact ⟨hp, by rw [List.getElem?_eq_getElem hp] at h; cases h; rfl⟩
  · rw [List.getElem?_eq_none hp] at h; cases h

theorem countP_set_live {d : List Entry} {p : Nat} {e e' : Entry} (h : d[p]? = some e) :
    (d.set p e').countP (fun (x : Entry) => decide (1 < x.key)) + (if 1 < e.key then 1 else 0) =
    d.countP (fun (x : Entry) => decide (1 < x.key)) + (if 1 < e'.key then 1 else 0) := by
  obtain ⟨hp, hpe⟩ := getElem_of_getElem? h
  rw [List.countP_set hp, hpe]
  have hpos : (if decide (1 < e.key) = true then 1 else 0) ≤ d.countP (fun (x : Entry) => decide (1 < x.key)) := by
    split
    · rename_i hh
      apply List.countP_pos_iff.mpr
      exact ⟨e, by rw [← hpe]; exact List.getElem_mem hp, hh⟩
    · omega
  simp only [decide_eq_true_eq] at hpos ⊢
  omega

end Dora.Wait.Hmap
