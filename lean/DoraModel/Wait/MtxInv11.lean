import DoraModel.Wait.MtxInv10
/-! # C09 — invariant J is inductive -/
namespace Dora.Wait.Mtx

set_option maxHeartbeats 4000000 in
theorem jinv_step {s s' : State} {t : Nat} {pc : PC} {a : Act} (hj : JInv s) (hc : CInv s) (hQ : QInv s)
    (hpc : s.pcs[t]? = some pc) (h : stepAt s t pc a = .ok s') (hnp : s'.pcs.countP isPanicked = 0) : JInv s' := by
  cases a <;> cases pc <;> simp only [stepAt] at h <;> (try (simp at h; done))
  all_goals (repeat' split at h)
  all_goals (try (simp at h; done))
  all_goals (simp only [Except.ok.injEq] at h; subst h)
  all_goals (try contradiction)
  all_goals (try (exact hj))
  all_goals (try (exact absurd hnp (Nat.ne_of_gt (panic_pos hpc _))))
  all_goals (clear hnp)
  all_goals (try (exact jinv_w2 rfl))
  all_goals (try (exact jinv_swap2 hpc rfl))
  all_goals (try (exact jinv_enq _ hj hpc))
  all_goals (try (exact jinv_pop _ hj hQ hpc ‹_›))
  all_goals (try (exact jinv_stop _ hj hpc))
  all_goals (try (refine jinv_sig hj hpc ‹_› ‹_› rfl rfl rfl rfl ?_ ?_ ?_ ?_ <;> cls))
  all_goals (try (refine jinv_set hj hpc rfl ?_ rfl ?_ ?_ ?_ ?_ <;>
    first | (left; rfl) | (right; show s.w ≠ 2; omega) | cls))
  all_goals (try (refine jinv_lock hj hc hpc ‹_› rfl rfl rfl ?_ ?_ ?_ <;> cls))
  all_goals (try (refine jinv_unlock hj hpc rfl rfl rfl ?_ ?_ ?_ ?_ <;> cls))
  all_goals (try (refine jinv_w2 ?_; show s.w = 2; omega))

/-- if every thread with a pc in class `p` is in `q`, there are at most `q.length` of them -/
theorem countP_le_len (p : PC → Bool) (hidle : p PC.idle = false) : ∀ (q : List Nat) (l : List PC),
    (∀ u pc, l[u]? = some pc → p pc = true → u ∈ q) → l.countP p ≤ q.length := by
  intro q
  induction q with
  | nil =>
    intro l h
    have : l.countP p = 0 := by
      rw [List.countP_eq_zero]
      intro a ha hp
      obtain ⟨u, hu⟩ := List.getElem?_of_mem ha
      exact absurd (h u a hu hp) (by simp)
    omega
  | cons u rest ih =>
    intro l h
    cases hu : l[u]? with
    | none =>
      have := ih l (by
        intro v pc hv hp
        have := h v pc hv hp
        rcases List.mem_cons.mp this with h1 | h1
        · subst h1; rw [hu] at hv; cases hv
        · exact h1)
      simp only [List.length_cons]; omega
    | some x =>
      have h1 := countP_set_eq p hu PC.idle
      rw [hidle] at h1; simp only [Bool.toNat_false, Nat.add_zero] at h1
      have hb := toNat_le_one (p x)
      have := ih (l.set u PC.idle) (by
        intro v pc hv hp
        by_cases hvu : v = u
        · subst hvu; rw [get_set_self _ hu] at hv; cases hv; rw [hidle] at hp; cases hp
        · rw [get_set_ne _ hvu] at hv
          have := h v pc hv hp
          rcases List.mem_cons.mp this with h2 | h2
          · exact absurd h2 hvu
          · exact h2)
      simp only [List.length_cons]; omega

/-- more slow-path threads than queued ones: one of them is not queued -/
theorem exists_awake {s : State} (h : s.q.length < s.pcs.countP slowPath) :
    ∃ (u : Nat) (pc : PC), s.pcs[u]? = some pc ∧ slowPath pc = true ∧ u ∉ s.q := by
  apply Classical.byContradiction
  intro hne
  have := countP_le_len slowPath rfl s.q s.pcs (by
    intro u pc hu hp
    apply Classical.byContradiction
    intro hnq
    exact hne ⟨u, pc, hu, hp, hnq⟩)
  omega

end Dora.Wait.Mtx
