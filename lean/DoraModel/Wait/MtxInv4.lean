import DoraModel.Wait.MtxInv3
import DoraModel.Wait.MtxCheck
/-! # C09 — the condition's `waiters` word covers its queue (invariant W of DESIGN A.3), inductively -/
namespace Dora.Wait.Mtx

def isEq2C : PC → Bool
  | .eq2 .cond => true
  | _ => false

/-- `notify_all` after its `waiters.set(0)`, before it takes the wait-table lock -/
def isWk0CA : PC → Bool
  | .wk0 .cond true _ => true
  | _ => false

/-- WL: at most the owner is inside a wait-table section; E: a thread about to append itself to the condition's
queue is covered by `waiters ≠ 0` or by a `notify_all` that still has to take the lock; W: a non-empty
queue is covered by `waiters ≠ 0` or by a `notify_all` in flight. -/
structure CInv (s : State) : Prop where
  wl1 : s.pcs.countP holdsWL ≤ s.wl.toList.length
  e : 0 < s.pcs.countP isEq2C → 0 < s.cw ∨ 0 < s.pcs.countP isWk0CA
  w : 0 < s.cq.length → 0 < s.cw ∨ 0 < s.pcs.countP inFlightNotifyAll

theorem countP_ge {α} (p : α → Bool) {l : List α} {t : Nat} {x : α} (h : l[t]? = some x) :
    (p x).toNat ≤ l.countP p := by
  cases hp : p x
  · simp
  · exact List.countP_pos_iff.mpr ⟨x, List.mem_of_getElem? h, hp⟩

theorem countP_set_eq {α} (p : α → Bool) {l : List α} {t : Nat} {x : α} (h : l[t]? = some x) (y : α) :
    (l.set t y).countP p = l.countP p - (p x).toNat + (p y).toNat := by
  have ht := lt_of_getElem? h
  have hx : l[t] = x := by rw [List.getElem?_eq_getElem ht] at h; cases h; rfl
  rw [List.countP_set ht, hx]
  cases p x <;> cases p y <;> simp

theorem countP_set_set_eq {α} (p : α → Bool) {l : List α} {t u : Nat} {x xu : α} (h : l[t]? = some x)
    (hu : l[u]? = some xu) (hut : u ≠ t) (x' y : α) (hpx : p xu = false) (hpx' : p x' = false) :
    ((l.set u x').set t y).countP p = l.countP p - (p x).toNat + (p y).toNat := by
  have h1 : (l.set u x')[t]? = some x := by rw [List.getElem?_set]; simp [hut, h]
  rw [countP_set_eq p h1, countP_set_eq p hu, hpx, hpx']
  simp

theorem countP_map_congr {α} (p : α → Bool) (f : α → α) (hf : ∀ x, p (f x) = p x) (l : List α) :
    (l.map f).countP p = l.countP p := by
  rw [List.countP_map]; apply List.countP_congr; intro x _; simp [hf]

theorem wakeJ_class (p : PC → Bool) (hj : ∀ r u, p (.jsl r u) = false) (hk : ∀ r u, p (.jwk r u) = false)
    (t : Nat) (x : PC) : p (wakeJ t x) = p x := by
  cases x <;> try rfl
  case jsl r v =>
    show p (if v = t then PC.jwk r v else PC.jsl r v) = _
    by_cases h : v = t
    · rw [if_pos h, hj, hk]
    · rw [if_neg h]

@[simp] theorem setQueue_cq_mtx (s : State) (l : List Nat) : (setQueue s .mtx l).cq = s.cq := rfl
@[simp] theorem setQueue_cq_cond (s : State) (l : List Nat) : (setQueue s .cond l).cq = l := rfl
@[simp] theorem queueOf_cond (s : State) : queueOf s .cond = s.cq := rfl

theorem toNat_le_of_imp {a b : Bool} (h : a = true → b = true) : a.toNat ≤ b.toNat := by
  cases a <;> cases b <;> simp at h ⊢

theorem toNat_le_one (a : Bool) : a.toNat ≤ 1 := by cases a <;> simp

theorem eq2C_le_WL (l : List PC) : l.countP isEq2C ≤ l.countP holdsWL :=
  List.countP_mono_left (by intro x _ hx; cases x <;> simp_all [isEq2C, holdsWL])

theorem wk0CA_le_inFl (l : List PC) : l.countP isWk0CA ≤ l.countP inFlightNotifyAll :=
  List.countP_mono_left (by
    intro x hm hx
    cases x with
    | wk0 k all r => cases k <;> cases all <;> first | rfl | (simp [isWk0CA] at hx)
    | _ => simp [isWk0CA] at hx)

theorem wl_len_le_one (s : State) : s.wl.toList.length ≤ 1 := by cases s.wl <;> simp

/-- a step of `t` that leaves `cw`, `cq`, `wl` alone, does not enter a wait-table section or `eq2 cond`, and
does not leave the in-flight classes -/
theorem cinv_set {s s' : State} {t : Nat} {pc pc' : PC} (hc : CInv s) (hpc : s.pcs[t]? = some pc)
    (hp : s'.pcs = s.pcs.set t pc') (hcw : s'.cw = s.cw) (hcq : s'.cq = s.cq) (hwl : s'.wl = s.wl)
    (h1 : holdsWL pc' = true → holdsWL pc = true) (h2 : isEq2C pc' = true → isEq2C pc = true)
    (h3 : isWk0CA pc = true → isWk0CA pc' = true)
    (h4 : inFlightNotifyAll pc = true → inFlightNotifyAll pc' = true) : CInv s' := by
  obtain ⟨c1, c2, c3⟩ := hc
  have g1 := countP_ge holdsWL hpc; have g2 := countP_ge isEq2C hpc
  have g3 := countP_ge isWk0CA hpc; have g4 := countP_ge inFlightNotifyAll hpc
  have i1 := toNat_le_of_imp h1; have i2 := toNat_le_of_imp h2
  have i3 := toNat_le_of_imp h3; have i4 := toNat_le_of_imp h4
  refine ⟨?_, ?_, ?_⟩
  · rw [hp, hwl, countP_set_eq holdsWL hpc]; omega
  · rw [hp, hcw, countP_set_eq isEq2C hpc, countP_set_eq isWk0CA hpc]; omega
  · rw [hp, hcw, hcq, countP_set_eq inFlightNotifyAll hpc]; omega

/-- taking the wait-table lock -/
theorem cinv_lock {s s' : State} {t : Nat} {pc pc' : PC} (hc : CInv s) (hpc : s.pcs[t]? = some pc)
    (hwl0 : s.wl = none) (hp : s'.pcs = s.pcs.set t pc') (hcw : s'.cw = s.cw) (hcq : s'.cq = s.cq)
    (hwl : s'.wl = some t) (h2 : isEq2C pc' = false)
    (h4 : inFlightNotifyAll pc = true → inFlightNotifyAll pc' = true) : CInv s' := by
  obtain ⟨c1, c2, c3⟩ := hc
  rw [hwl0] at c1; simp at c1
  have g4 := countP_ge inFlightNotifyAll hpc
  have i4 := toNat_le_of_imp h4
  have m1 := eq2C_le_WL s.pcs
  have b1 := toNat_le_one (holdsWL pc')
  have g1 := countP_ge holdsWL hpc; have g2 := countP_ge isEq2C hpc
  have c1' : s.pcs.countP holdsWL = 0 := by
    rw [List.countP_eq_zero]; intro a ha; simp [c1 a ha]
  refine ⟨?_, ?_, ?_⟩
  · rw [hp, hwl, countP_set_eq holdsWL hpc]; simp; omega
  · rw [hp, countP_set_eq isEq2C hpc, h2]; simp; omega
  · rw [hp, hcw, hcq, countP_set_eq inFlightNotifyAll hpc]; omega

/-- dropping the wait-table lock -/
theorem cinv_unlock {s s' : State} {t : Nat} {pc pc' : PC} (hc : CInv s) (hpc : s.pcs[t]? = some pc)
    (hH : holdsWL pc = true) (hp : s'.pcs = s.pcs.set t pc') (hcw : s'.cw = s.cw) (hcq : s'.cq = s.cq)
    (hwl : s'.wl = none) (h1 : holdsWL pc' = false) (h2 : isEq2C pc' = false)
    (h3 : isWk0CA pc = false) (h4 : inFlightNotifyAll pc = true → s.cq = []) : CInv s' := by
  obtain ⟨c1, c2, c3⟩ := hc
  have g1 := countP_ge holdsWL hpc; have g2 := countP_ge isEq2C hpc
  have g3 := countP_ge isWk0CA hpc; have g4 := countP_ge inFlightNotifyAll hpc
  have w1 := wl_len_le_one s
  refine ⟨?_, ?_, ?_⟩
  · rw [hp, hwl, countP_set_eq holdsWL hpc, hH, h1]; simp; omega
  · rw [hp, hcw, countP_set_eq isEq2C hpc, countP_set_eq isWk0CA hpc, h2, h3]; simp; omega
  · rw [hcq]
    by_cases hin : inFlightNotifyAll pc = true
    · rw [h4 hin]; simp
    · have : inFlightNotifyAll pc = false := by simpa using hin
      rw [hp, hcw, countP_set_eq inFlightNotifyAll hpc, this]; simp; omega

/-- `condition.state.store(1)` under the wait-table lock -/
theorem cinv_store1 {s : State} {t : Nat} (hc : CInv s) (hpc : s.pcs[t]? = some (PC.eq1 .cond)) :
    CInv { s with cw := 1, pcs := s.pcs.set t (PC.eq2 .cond) } := by
  obtain ⟨c1, c2, c3⟩ := hc
  have g1 := countP_ge holdsWL hpc
  refine ⟨?_, fun _ => Or.inl (Nat.lt_succ_self 0), fun _ => Or.inl (Nat.lt_succ_self 0)⟩
  show ((s.pcs.set t (PC.eq2 .cond)).countP holdsWL ≤ s.wl.toList.length)
  rw [countP_set_eq holdsWL hpc]
  rw [show holdsWL (PC.eq1 .cond) = true from rfl] at g1 ⊢
  rw [show holdsWL (PC.eq2 .cond) = true from rfl]
  simp only [Bool.toNat_true] at g1 ⊢; omega

/-- `waiters.set(0)` of `notify_all`: from now on it is in flight -/
theorem cinv_store0 {s : State} {t : Nat} {r : Ret} (hc : CInv s) (hpc : s.pcs[t]? = some (PC.na1 r)) :
    CInv { s with cw := 0, pcs := s.pcs.set t (PC.wk0 .cond true r) } := by
  obtain ⟨c1, c2, c3⟩ := hc
  refine ⟨?_, fun _ => Or.inr ?_, fun _ => Or.inr ?_⟩
  · show ((s.pcs.set t (PC.wk0 .cond true r)).countP holdsWL ≤ s.wl.toList.length)
    rw [countP_set_eq holdsWL hpc, show holdsWL (PC.na1 r) = false from rfl, show holdsWL (PC.wk0 .cond true r) = false from rfl]
    simp only [Bool.toNat_false]; omega
  · show 0 < (s.pcs.set t (PC.wk0 .cond true r)).countP isWk0CA
    rw [countP_set_eq isWk0CA hpc, show isWk0CA (PC.wk0 .cond true r) = true from rfl]
    simp only [Bool.toNat_true]; omega
  · show 0 < (s.pcs.set t (PC.wk0 .cond true r)).countP inFlightNotifyAll
    rw [countP_set_eq inFlightNotifyAll hpc, show inFlightNotifyAll (PC.wk0 .cond true r) = true from rfl]
    simp only [Bool.toNat_true]; omega

/-- `append_to_waitlist` -/
theorem cinv_enq {s : State} {t : Nat} {k : Kind} (bb : List Bool) (hc : CInv s) (hpc : s.pcs[t]? = some (PC.eq2 k)) :
    CInv { setQueue s k (queueOf s k ++ [t]) with b := bb, pcs := s.pcs.set t (PC.eq3 k true) } := by
  obtain ⟨c1, c2, c3⟩ := hc
  have g1 := countP_ge holdsWL hpc; have g2 := countP_ge isEq2C hpc
  have m := wk0CA_le_inFl s.pcs
  have e1 : holdsWL (PC.eq2 k) = true := rfl
  have e1' : holdsWL (PC.eq3 k true) = true := rfl
  have e2' : isEq2C (PC.eq3 k true) = false := rfl
  have e3 : isWk0CA (PC.eq2 k) = false := rfl
  have e3' : isWk0CA (PC.eq3 k true) = false := rfl
  have e4 : inFlightNotifyAll (PC.eq2 k) = false := rfl
  have e4' : inFlightNotifyAll (PC.eq3 k true) = false := rfl
  refine ⟨?_, ?_, ?_⟩
  · dsimp only
    rw [setQueue_wl, countP_set_eq holdsWL hpc, e1, e1']
    rw [e1] at g1
    simp only [Bool.toNat_true] at g1 ⊢; omega
  · dsimp only
    rw [setQueue_cw, countP_set_eq isEq2C hpc, countP_set_eq isWk0CA hpc, e2', e3, e3']
    simp only [Bool.toNat_false]
    intro h; exact (c2 (by omega)).imp id (by omega)
  · dsimp only
    rw [setQueue_cw, countP_set_eq inFlightNotifyAll hpc, e4, e4']
    simp only [Bool.toNat_false]
    cases k
    · rw [setQueue_cq_mtx]; intro h; exact (c3 h).imp id (by omega)
    · intro _
      rw [show isEq2C (PC.eq2 .cond) = true from rfl] at g2
      simp only [Bool.toNat_true] at g2
      exact (c2 (by omega)).imp id (by omega)

/-- `remove_from_waitlist` of the head -/
theorem cinv_pop {s : State} {t u : Nat} {k : Kind} {all : Bool} {r : Ret} {hd : Nat} {rest : List Nat} (bb : List Bool)
    (hc : CInv s) (hpc : s.pcs[t]? = some (PC.wk1 k all r)) (hq : queueOf s k = hd :: rest) :
    CInv { setQueue s k rest with b := bb, pcs := s.pcs.set t (PC.wk2 k all r u) } := by
  obtain ⟨c1, c2, c3⟩ := hc
  have g1 := countP_ge holdsWL hpc
  have g4 := countP_ge inFlightNotifyAll hpc
  have e1 : holdsWL (PC.wk1 k all r) = true := rfl
  have e1' : holdsWL (PC.wk2 k all r u) = true := rfl
  have e2 : isEq2C (PC.wk1 k all r) = false := rfl
  have e2' : isEq2C (PC.wk2 k all r u) = false := rfl
  have e3 : isWk0CA (PC.wk1 k all r) = false := rfl
  have e3' : isWk0CA (PC.wk2 k all r u) = false := rfl
  have hsame : inFlightNotifyAll (PC.wk2 k all r u) = inFlightNotifyAll (PC.wk1 k all r) := by
    cases k <;> cases all <;> rfl
  refine ⟨?_, ?_, ?_⟩
  · dsimp only
    rw [setQueue_wl, countP_set_eq holdsWL hpc, e1, e1']
    rw [e1] at g1
    simp only [Bool.toNat_true] at g1 ⊢; omega
  · dsimp only
    rw [setQueue_cw, countP_set_eq isEq2C hpc, countP_set_eq isWk0CA hpc, e2, e2', e3, e3']
    simp only [Bool.toNat_false]
    intro h; exact (c2 (by omega)).imp id (by omega)
  · dsimp only
    rw [setQueue_cw, countP_set_eq inFlightNotifyAll hpc, hsame]
    have hcq : 0 < (setQueue s k rest).cq.length → 0 < s.cq.length := by
      cases k
      · rw [setQueue_cq_mtx]; exact id
      · intro _; have : s.cq = hd :: rest := hq; rw [this]; exact Nat.succ_pos _
    intro h; exact (c3 (hcq h)).imp id (by omega)

/-- `cv_blocking.notify_one()` that wakes the sleeping thread `u` -/
theorem cinv_sig {s s' : State} {t u : Nat} {pc pc' pcu : PC} (hc : CInv s) (hpc : s.pcs[t]? = some pc)
    (hu : s.pcs[u]? = some pcu) (hsl : isSleeping pcu = true)
    (hp : s'.pcs = (s.pcs.set u (wokenOf s u)).set t pc') (hcw : s'.cw = s.cw) (hcq : s'.cq = s.cq) (hwl : s'.wl = s.wl)
    (h1 : holdsWL pc' = true → holdsWL pc = true) (h2 : isEq2C pc' = true → isEq2C pc = true)
    (h3 : isWk0CA pc = true → isWk0CA pc' = true)
    (h4 : inFlightNotifyAll pc = true → inFlightNotifyAll pc' = true) (hns : isSleeping pc = false) : CInv s' := by
  have hut : u ≠ t := by
    intro h; subst h; rw [hu] at hpc; cases hpc; rw [hsl] at hns; cases hns
  have hs : ∀ p : PC → Bool, (∀ k, p (.sleeping k) = false) → (∀ k, p (.wokenB k) = false) →
      s'.pcs.countP p = s.pcs.countP p - (p pc).toNat + (p pc').toNat := by
    intro p hp1 hp2
    rw [hp]
    exact countP_set_set_eq p hpc hu hut _ _ (by cases pcu <;> simp [isSleeping] at hsl; exact hp1 _) (hp2 _)
  obtain ⟨c1, c2, c3⟩ := hc
  have g1 := countP_ge holdsWL hpc; have g2 := countP_ge isEq2C hpc
  have g3 := countP_ge isWk0CA hpc; have g4 := countP_ge inFlightNotifyAll hpc
  have i1 := toNat_le_of_imp h1; have i2 := toNat_le_of_imp h2
  have i3 := toNat_le_of_imp h3; have i4 := toNat_le_of_imp h4
  refine ⟨?_, ?_, ?_⟩
  · rw [hwl, hs holdsWL (fun _ => rfl) (fun _ => rfl)]; omega
  · rw [hcw, hs isEq2C (fun _ => rfl) (fun _ => rfl), hs isWk0CA (fun _ => rfl) (fun _ => rfl)]; omega
  · rw [hcw, hcq, hs inFlightNotifyAll (fun _ => rfl) (fun _ => rfl)]; omega

/-- `stop`: `*running = false; cv_stopped.notify_all()` -/
theorem cinv_stop {s : State} {t : Nat} (rr : List Bool) (hc : CInv s) (hpc : s.pcs[t]? = some PC.st1) :
    CInv { s with running := rr, pcs := (s.pcs.map (wakeJ t)).set t PC.st2 } := by
  obtain ⟨c1, c2, c3⟩ := hc
  have h1 : (s.pcs.map (wakeJ t))[t]? = some (wakeJ t PC.st1) := by simp [hpc]
  have hs : ∀ p : PC → Bool, (∀ r u, p (.jsl r u) = false) → (∀ r u, p (.jwk r u) = false) → p .st1 = false → p .st2 = false →
      ((s.pcs.map (wakeJ t)).set t PC.st2).countP p = s.pcs.countP p := by
    intro p a b c d
    rw [countP_set_eq p h1, countP_map_congr p (wakeJ t) (wakeJ_class p a b t)]
    simp [wakeJ, c, d]
  refine ⟨?_, ?_, ?_⟩
  · simp only; rw [hs holdsWL (fun _ _ => rfl) (fun _ _ => rfl) rfl rfl]; exact c1
  · simp only; rw [hs isEq2C (fun _ _ => rfl) (fun _ _ => rfl) rfl rfl, hs isWk0CA (fun _ _ => rfl) (fun _ _ => rfl) rfl rfl]; exact c2
  · simp only; rw [hs inFlightNotifyAll (fun _ _ => rfl) (fun _ _ => rfl) rfl rfl]; exact c3

end Dora.Wait.Mtx
