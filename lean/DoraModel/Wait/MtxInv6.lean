import DoraModel.Wait.MtxInv5
/-! # C09 — no lost signal (invariant S of DESIGN A.3): a thread asleep in `cv_blocking.wait` whose flag has been
cleared has a `notify_one` on its condvar pending -/
namespace Dora.Wait.Mtx

structure SInv (s : State) : Prop where
  /-- the flag value read under `B_t` is current (nobody can change it while `t` holds `B_t`) -/
  flag : ∀ (u : Nat) (k : Kind) (f : Bool), s.pcs[u]? = some (PC.blk1 k f) → s.b[u]? = some f
  /-- asleep with a cleared flag ⇒ the popper has not yet issued its `notify_one` -/
  sig : ∀ (u : Nat) (k : Kind), s.pcs[u]? = some (PC.sleeping k) → s.b[u]? = some false →
    ∃ (t : Nat) (k' : Kind) (a : Bool) (r : Ret), s.pcs[t]? = some (PC.wk2 k' a r u)

theorem get_set_self {α} {l : List α} {t : Nat} {x : α} (y : α) (h : l[t]? = some x) : (l.set t y)[t]? = some y := by
  have := lt_of_getElem? h; simp [this]

theorem get_set_ne {α} {l : List α} {t u : Nat} (y : α) (h : u ≠ t) : (l.set t y)[u]? = l[u]? := by
  rw [List.getElem?_set]; simp [Ne.symm h]

/-- a step of `t` that leaves the flags alone and does not leave a `wk2` -/
theorem sinv_set {s s' : State} {t : Nat} {pc pc' : PC} (hs : SInv s) (hpc : s.pcs[t]? = some pc)
    (hp : s'.pcs = s.pcs.set t pc') (hb : s'.b = s.b)
    (hb1 : ∀ k f, pc' = PC.blk1 k f → s.b[t]? = some f)
    (hsl : ∀ k, pc' = PC.sleeping k → s.b[t]? = some true)
    (hwk : ∀ k a r u, pc = PC.wk2 k a r u → pc' = PC.wk2 k a r u) : SInv s' := by
  constructor
  · intro u k f hu
    rw [hb]; rw [hp] at hu
    by_cases hut : u = t
    · subst hut; rw [get_set_self _ hpc] at hu; cases hu; exact hb1 k f rfl
    · rw [get_set_ne _ hut] at hu; exact hs.flag u k f hu
  · intro u k hu hbu
    rw [hb] at hbu; rw [hp] at hu ⊢
    by_cases hut : u = t
    · subst hut; rw [get_set_self _ hpc] at hu; cases hu
      have := hsl k rfl; rw [this] at hbu; cases hbu
    · rw [get_set_ne _ hut] at hu
      obtain ⟨t0, k', a, r, ht0⟩ := hs.sig u k hu hbu
      by_cases h0 : t0 = t
      · subst h0; rw [hpc] at ht0; cases ht0
        exact ⟨t0, k', a, r, by rw [get_set_self _ hpc, hwk k' a r u rfl]⟩
      · exact ⟨t0, k', a, r, by rw [get_set_ne _ h0]; exact ht0⟩

/-- `append_to_waitlist`: the thread sets its own flag -/
theorem sinv_enq {s s' : State} {t : Nat} {k : Kind} (hs : SInv s) (hpc : s.pcs[t]? = some (PC.eq2 k))
    (hp : s'.pcs = s.pcs.set t (PC.eq3 k true)) (hb : s'.b = s.b.set t true) : SInv s' := by
  constructor
  · intro u k1 f hu
    rw [hp] at hu
    by_cases hut : u = t
    · subst hut; rw [get_set_self _ hpc] at hu; cases hu
    · rw [get_set_ne _ hut] at hu; rw [hb, get_set_ne _ hut]; exact hs.flag u k1 f hu
  · intro u k1 hu hbu
    rw [hp] at hu ⊢
    by_cases hut : u = t
    · subst hut; rw [get_set_self _ hpc] at hu; cases hu
    · rw [get_set_ne _ hut] at hu; rw [hb, get_set_ne _ hut] at hbu
      obtain ⟨t0, k', a, r, ht0⟩ := hs.sig u k1 hu hbu
      have h0 : t0 ≠ t := by intro h; subst h; rw [hpc] at ht0; cases ht0
      exact ⟨t0, k', a, r, by rw [get_set_ne _ h0]; exact ht0⟩

/-- `remove_from_waitlist`: the popper clears `u`'s flag (under `B_u`) and owes it a `notify_one` -/
theorem sinv_pop {s s' : State} {t u : Nat} {k : Kind} {a : Bool} {r : Ret} (hs : SInv s)
    (hpc : s.pcs[t]? = some (PC.wk1 k a r)) (hfree : bFree s u = true)
    (hp : s'.pcs = s.pcs.set t (PC.wk2 k a r u)) (hb : s'.b = s.b.set u false) : SInv s' := by
  have hnb : ∀ k1 f, s.pcs[u]? ≠ some (PC.blk1 k1 f) := by
    intro k1 f h; unfold bFree at hfree; rw [h] at hfree; simp [isBlk1] at hfree
  constructor
  · intro v k1 f hv
    rw [hp] at hv
    by_cases hvt : v = t
    · subst hvt; rw [get_set_self _ hpc] at hv; cases hv
    · rw [get_set_ne _ hvt] at hv
      have hvu : v ≠ u := by intro h; subst h; exact hnb k1 f hv
      rw [hb, get_set_ne _ hvu]; exact hs.flag v k1 f hv
  · intro v k1 hv hbv
    rw [hp] at hv ⊢
    by_cases hvt : v = t
    · subst hvt; rw [get_set_self _ hpc] at hv; cases hv
    · rw [get_set_ne _ hvt] at hv
      by_cases hvu : v = u
      · subst hvu; exact ⟨t, k, a, r, get_set_self _ hpc⟩
      · rw [hb, get_set_ne _ hvu] at hbv
        obtain ⟨t0, k', a', r', ht0⟩ := hs.sig v k1 hv hbv
        have h0 : t0 ≠ t := by intro h; subst h; rw [hpc] at ht0; cases ht0
        exact ⟨t0, k', a', r', by rw [get_set_ne _ h0]; exact ht0⟩

/-- `notify_one` on `u`'s condvar while `u` sleeps: `u` wakes up -/
theorem sinv_sig {s s' : State} {t u : Nat} {k : Kind} {a : Bool} {r : Ret} {pc' pcu : PC} (hs : SInv s)
    (hpc : s.pcs[t]? = some (PC.wk2 k a r u)) (hu : s.pcs[u]? = some pcu) (hsl : isSleeping pcu = true)
    (hp : s'.pcs = (s.pcs.set u (wokenOf s u)).set t pc') (hb : s'.b = s.b)
    (h1 : ∀ k f, pc' ≠ PC.blk1 k f) (h2 : ∀ k, pc' ≠ PC.sleeping k) : SInv s' := by
  have hut : u ≠ t := by intro h; subst h; rw [hu] at hpc; cases hpc; simp [isSleeping] at hsl
  have hget : ∀ v, v ≠ t → v ≠ u → s'.pcs[v]? = s.pcs[v]? := by
    intro v a1 a2; rw [hp, get_set_ne _ a1, get_set_ne _ a2]
  have hgt : s'.pcs[t]? = some pc' := by
    rw [hp]; exact get_set_self _ (by rw [get_set_ne _ (Ne.symm hut)]; exact hpc)
  have hgu : s'.pcs[u]? = some (wokenOf s u) := by rw [hp, get_set_ne _ hut]; exact get_set_self _ hu
  constructor
  · intro v k1 f hv
    rw [hb]
    by_cases hvt : v = t
    · subst hvt; rw [hgt] at hv; cases hv; exact absurd rfl (h1 k1 f)
    · by_cases hvu : v = u
      · subst hvu; rw [hgu] at hv; simp [wokenOf] at hv
      · rw [hget v hvt hvu] at hv; exact hs.flag v k1 f hv
  · intro v k1 hv hbv
    rw [hb] at hbv
    by_cases hvt : v = t
    · subst hvt; rw [hgt] at hv; cases hv; exact absurd rfl (h2 k1)
    · by_cases hvu : v = u
      · subst hvu; rw [hgu] at hv; simp [wokenOf] at hv
      · rw [hget v hvt hvu] at hv
        obtain ⟨t0, k', a', r', ht0⟩ := hs.sig v k1 hv hbv
        have h0 : t0 ≠ t := by intro h; subst h; rw [hpc] at ht0; cases ht0; exact hvu rfl
        have h0u : t0 ≠ u := by
          intro h; subst h; rw [hu] at ht0; cases ht0; simp [isSleeping] at hsl
        exact ⟨t0, k', a', r', by rw [hget t0 h0 h0u]; exact ht0⟩

/-- `notify_one` on `u`'s condvar while `u` is not (yet) asleep: nothing to wake, and nothing is owed any more -/
theorem sinv_sig_none {s s' : State} {t u : Nat} {k : Kind} {a : Bool} {r : Ret} {pc' : PC} (hs : SInv s)
    (hpc : s.pcs[t]? = some (PC.wk2 k a r u)) (hns : ∀ k1, s.pcs[u]? ≠ some (PC.sleeping k1))
    (hp : s'.pcs = s.pcs.set t pc') (hb : s'.b = s.b)
    (h1 : ∀ k f, pc' ≠ PC.blk1 k f) (h2 : ∀ k, pc' ≠ PC.sleeping k) : SInv s' := by
  constructor
  · intro v k1 f hv
    rw [hb]; rw [hp] at hv
    by_cases hvt : v = t
    · subst hvt; rw [get_set_self _ hpc] at hv; cases hv; exact absurd rfl (h1 k1 f)
    · rw [get_set_ne _ hvt] at hv; exact hs.flag v k1 f hv
  · intro v k1 hv hbv
    rw [hb] at hbv; rw [hp] at hv ⊢
    by_cases hvt : v = t
    · subst hvt; rw [get_set_self _ hpc] at hv; cases hv; exact absurd rfl (h2 k1)
    · rw [get_set_ne _ hvt] at hv
      obtain ⟨t0, k', a', r', ht0⟩ := hs.sig v k1 hv hbv
      have h0 : t0 ≠ t := by
        intro h; subst h; rw [hpc] at ht0; cases ht0; exact hns k1 hv
      exact ⟨t0, k', a', r', by rw [get_set_ne _ h0]; exact ht0⟩

theorem wakeJ_eq_of {t : Nat} {x y : PC} (h : wakeJ t x = y) (hy : ∀ r u, y ≠ PC.jwk r u) (hy' : ∀ r u, y ≠ PC.jsl r u) : x = y := by
  cases x <;> try exact h
  case jsl r v =>
    change (if v = t then PC.jwk r v else PC.jsl r v) = y at h
    split at h
    · exact absurd h.symm (hy r v)
    · exact absurd h.symm (hy' r v)

/-- `stop`: only joiners are touched -/
theorem sinv_stop {s : State} {t : Nat} (rr : List Bool) (hs : SInv s) (hpc : s.pcs[t]? = some PC.st1) :
    SInv { s with running := rr, pcs := (s.pcs.map (wakeJ t)).set t PC.st2 } := by
  have hback : ∀ (v : Nat) (y : PC), (∀ r u, y ≠ PC.jwk r u) → (∀ r u, y ≠ PC.jsl r u) → y ≠ PC.st2 →
      ((s.pcs.map (wakeJ t)).set t PC.st2)[v]? = some y → s.pcs[v]? = some y := by
    intro v y a1 a2 a3 hv
    by_cases hvt : v = t
    · subst hvt
      have : (s.pcs.map (wakeJ v))[v]? = some (wakeJ v PC.st1) := by simp [hpc]
      rw [get_set_self _ this] at hv; cases hv; exact absurd rfl a3
    · rw [get_set_ne _ hvt, List.getElem?_map] at hv
      cases hx : s.pcs[v]? with
      | none => rw [hx] at hv; cases hv
      | some x => rw [hx] at hv; simp only [Option.map_some, Option.some.injEq] at hv; rw [wakeJ_eq_of hv a1 a2]
  have hfwd : ∀ (v : Nat) (y : PC), (∀ r u, y ≠ PC.jsl r u) → y ≠ PC.st1 → s.pcs[v]? = some y →
      ((s.pcs.map (wakeJ t)).set t PC.st2)[v]? = some y := by
    intro v y a1 a2 hv
    have hvt : v ≠ t := by intro h; subst h; rw [hpc] at hv; cases hv; exact a2 rfl
    rw [get_set_ne _ hvt, List.getElem?_map, hv]
    cases y <;> first | rfl | exact absurd rfl (a1 _ _)
  constructor
  · intro u k f hu
    exact hs.flag u k f (hback u _ (fun _ _ h => by cases h) (fun _ _ h => by cases h) (fun h => by cases h) hu)
  · intro u k hu hbu
    obtain ⟨t0, k', a, r, ht0⟩ := hs.sig u k
      (hback u _ (fun _ _ h => by cases h) (fun _ _ h => by cases h) (fun h => by cases h) hu) hbu
    exact ⟨t0, k', a, r, hfwd t0 _ (fun _ _ h => by cases h) (fun h => by cases h) ht0⟩

end Dora.Wait.Mtx
