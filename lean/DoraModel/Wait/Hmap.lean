/-!
# C09 — model of `ObjectHashMap` (dora-runtime/src/runtime/waitlists.rs, lines 160–371)

The wait table: open addressing, linear probing, tombstones, capacity a power of two, rehash when the
load factor is exceeded / undershot and whenever a collection has happened since the table was built
(`gc_epoch`), because keys are object addresses and a moving collector rewrites them in place
(`visit_roots` hands out the slots of the live keys).

Transcribed function by function (the Rust name is in each doc comment).  Conventions:
* a slot is `(key, value)`; `key = 0` is `EMPTY`, `key = 1` is `DELETED`, `key > 1` is a live entry — exactly
  the Rust encoding (`is_live / is_deleted / is_empty`);
* `get_runtime().gc_epoch()` is the parameter `ep` of every operation;
* `assert!`, `debug_assert!`, arithmetic overflow (`capacity - 1` with `capacity = 0`; the pinned profile has
  overflow checks) and out-of-bounds indexing are `Err.panic`, never a default value;
* the three probe loops are `loop { … }` without a bound in Rust.  Here they get `capacity` units of fuel:
  the loop does not change the table while probing and visits `idx, idx+1, …` modulo `capacity`, so after
  `capacity` iterations without leaving it has seen every slot and will never leave: `Err.diverge` means
  "the Rust loop does not terminate" (the harness watchdog's `!hang`);
* `rehash` re-inserts through `insert`, which could in principle rehash the *new* map again; that nested
  case is `Err.nested` (proved impossible under the invariant; the correspondence run would show it as a
  disagreement).
Values are `Nat` (the Rust type is generic; nothing depends on the value).

Imports nothing outside core Lean (the driver links as a native executable).
-/
namespace Dora.Wait.Hmap

inductive Err where
  /-- a failing `assert!`/`debug_assert!`, an arithmetic overflow or an index out of bounds -/
  | panic (site : String)
  /-- the unbounded Rust probe loop never returns -/
  | diverge
  /-- a rehash triggered while a rehash re-inserts (not modelled) -/
  | nested
  deriving DecidableEq, Repr, Inhabited

/-- `HashMapEntry<T>` -/
structure Entry where
  key : Nat
  val : Nat
  deriving DecidableEq, Repr, Inhabited

/-- `ObjectHashMap<T>` (`data: Box<[HashMapEntry<T>]>, entries, deleted, capacity, gc_epoch`) -/
structure Map where
  data : List Entry
  entries : Nat
  /-- number of `DELETED` slots (tombstones); counts towards the load factor -/
  deleted : Nat
  capacity : Nat
  gcEpoch : Nat
  deriving DecidableEq, Repr, Inhabited

/-- `MIN_CAPACITY` -/
def minCapacity : Nat := 8

/-- `ObjectHashMap::new` -/
def new : Map := { data := [], entries := 0, deleted := 0, capacity := 0, gcEpoch := 0 }

/-- `ObjectHashMap::with_capacity` (`HashMapEntry::default()` = key `Address::null()` = `EMPTY`) -/
def withCapacity (capacity ep : Nat) : Map :=
  { data := List.replicate capacity ⟨0, 0⟩, entries := 0, deleted := 0, capacity := capacity, gcEpoch := ep }

/-- the loop of `capacity_for_entries`: `while entries > capacity - (capacity / 4) { capacity *= 2; }` -/
def capLoop (entries : Nat) : Nat → Nat → Nat
  | 0, capacity => capacity
  | fuel + 1, capacity =>
    if entries > capacity - capacity / 4 then capLoop entries fuel (capacity * 2) else capacity

/-- `capacity_for_entries` (fuel `entries` suffices: `capLoop_spec`) -/
def capacityForEntries (entries : Nat) : Nat := capLoop entries entries minCapacity

/-- `overflow` -/
def overflow (m : Map) : Bool := m.entries + m.deleted + 1 > m.capacity - m.capacity / 4

/-- `underflow` -/
def underflow (m : Map) : Bool := m.entries < m.capacity / 4

/-- `invalidated_by_gc` -/
def invalidatedByGc (m : Map) (ep : Nat) : Bool := m.gcEpoch != ep

/-- `hash & (self.capacity - 1)` with `hash = key.to_usize()` -/
def home (m : Map) (key : Nat) : Except Err Nat :=
  if m.capacity = 0 then .error (.panic "capacity - 1 overflows") else .ok (key &&& (m.capacity - 1))

/-- `idx = (idx + 1) & (self.capacity - 1)` -/
def next (m : Map) (idx : Nat) : Nat := (idx + 1) &&& (m.capacity - 1)

/-- the probe loop of `get` -/
def getLoop (m : Map) (key : Nat) : Nat → Nat → Except Err (Option Nat)
  | 0, _ => .error .diverge
  | fuel + 1, idx =>
    match m.data[idx]? with
    | none => .error (.panic "index out of bounds")
    | some e =>
      if 1 < e.key then
        (if e.key = key then .ok (some e.val) else getLoop m key fuel (next m idx))
      else if e.key = 1 then getLoop m key fuel (next m idx)
      else .ok none

/-- the probe loop of `insert` (`acc` = `insert_idx`).  `debug_assert!(self.is_empty(insert_idx) ||
self.is_deleted(insert_idx))` is not transcribed: `insert_idx` is either the index just seen empty or an
index seen deleted earlier in the same loop, and the loop does not write before this point. -/
def insertLoop (m : Map) (key val : Nat) : Nat → Nat → Option Nat → Except Err Map
  | 0, _, _ => .error .diverge
  | fuel + 1, idx, acc =>
    match m.data[idx]? with
    | none => .error (.panic "index out of bounds")
    | some e =>
      if 1 < e.key then
        (if e.key = key then .ok { m with data := m.data.set idx ⟨key, val⟩ }
         else insertLoop m key val fuel (next m idx) acc)
      else if e.key = 1 then
        insertLoop m key val fuel (next m idx) (match acc with | none => some idx | some i => some i)
      else
        let i := match acc with | none => idx | some i => i
        -- `if self.is_deleted(insert_idx) { self.deleted -= 1; }`
        match m.data[i]? with
        | none => .error (.panic "index out of bounds")
        | some e' =>
          if e'.key = 1 then
            (if m.deleted = 0 then .error (.panic "deleted -= 1 overflows")
             else .ok { m with data := m.data.set i ⟨key, val⟩, entries := m.entries + 1, deleted := m.deleted - 1 })
          else .ok { m with data := m.data.set i ⟨key, val⟩, entries := m.entries + 1 }

/-- the probe loop of `remove` (the slot keeps an uninitialised value in Rust; unobservable, `0` here) -/
def removeLoop (m : Map) (key : Nat) : Nat → Nat → Except Err (Option Nat × Map)
  | 0, _ => .error .diverge
  | fuel + 1, idx =>
    match m.data[idx]? with
    | none => .error (.panic "index out of bounds")
    | some e =>
      if 1 < e.key then
        (if e.key = key then
          (if m.entries = 0 then .error (.panic "entries -= 1 overflows")
           else .ok (some e.val, { m with data := m.data.set idx ⟨1, 0⟩, entries := m.entries - 1, deleted := m.deleted + 1 }))
         else removeLoop m key fuel (next m idx))
      else if e.key = 1 then removeLoop m key fuel (next m idx)
      else .ok (none, m)

/-- `insert` after its `maybe_rehash_on_insert` line: `assert!(self.entries < self.capacity)` + the loop -/
def insertCore (m : Map) (key val : Nat) : Except Err Map :=
  if m.entries < m.capacity then
    match home m key with
    | .error e => .error e
    | .ok h => insertLoop m key val m.capacity h none
  else .error (.panic "assert!(self.entries < self.capacity)")

/-- `new_map.insert(entry.key, entry.value)` inside `rehash`: `new_map` was built under the current epoch, so
only `overflow()` could trigger a nested rehash -/
def insertNR (m : Map) (key val : Nat) : Except Err Map :=
  if overflow m then .error .nested else insertCore m key val

/-- the `for idx in 0..self.data.len()` loop of `rehash` -/
def rehashLoop : List Entry → Map → Except Err Map
  | [], nm => .ok nm
  | e :: rest, nm =>
    if 1 < e.key then
      match insertNR nm e.key e.val with
      | .error x => .error x
      | .ok nm' => rehashLoop rest nm'
    else rehashLoop rest nm

/-- `rehash(new_capacity)` -/
def rehash (m : Map) (ep newCapacity : Nat) : Except Err Map :=
  rehashLoop m.data (withCapacity newCapacity ep)

/-- `get` (with `maybe_rehash_on_get`); returns the value found and the map (which may have been rehashed) -/
def get (m : Map) (ep key : Nat) : Except Err (Option Nat × Map) :=
  if m.entries = 0 then .ok (none, m) else
  match (if invalidatedByGc m ep then rehash m ep m.capacity else .ok m) with
  | .error x => .error x
  | .ok m1 =>
    match home m1 key with
    | .error x => .error x
    | .ok h =>
      match getLoop m1 key m1.capacity h with
      | .error x => .error x
      | .ok r => .ok (r, m1)

/-- `insert` (with `maybe_rehash_on_insert`) -/
def insert (m : Map) (ep key val : Nat) : Except Err Map :=
  match (if invalidatedByGc m ep || overflow m then rehash m ep (capacityForEntries (m.entries + 1)) else .ok m) with
  | .error x => .error x
  | .ok m1 => insertCore m1 key val

/-- `remove` (with `maybe_rehash_on_remove`) -/
def remove (m : Map) (ep key : Nat) : Except Err (Option Nat × Map) :=
  match (if invalidatedByGc m ep || underflow m then rehash m ep (capacityForEntries m.entries) else .ok m) with
  | .error x => .error x
  | .ok m1 =>
    match home m1 key with
    | .error x => .error x
    | .ok h => removeLoop m1 key m1.capacity h

/-- what a moving collection does to the table through `visit_roots`: the key of every LIVE slot is
rewritten in place to the object's new address; nothing else changes (the epoch is the runtime's). -/
def relocate (f : Nat → Nat) (m : Map) : Map :=
  { m with data := m.data.map (fun e => if 1 < e.key then ⟨f e.key, e.val⟩ else e) }

/-- number of `DELETED` slots -/
def tombstones (m : Map) : Nat := m.data.countP (fun e => e.key == 1)

/-- number of `EMPTY` slots -/
def empties (m : Map) : Nat := m.data.countP (fun e => e.key == 0)

/-! ## operation sequences (driver and the concrete counterexample) -/

inductive Op where
  | ins (key val : Nat)
  | get (key : Nat)
  | rem (key : Nat)
  /-- the runtime's epoch advances (a collection that moved nothing in the table) -/
  | epoch
  /-- a moving collection: `f k = 16 + 8 * ((((k - 16) / 8) * a + b) % 2^21)`, then the epoch advances -/
  | reloc (a b : Nat)
  deriving DecidableEq, Repr

/-- the harness' relocation function (a bijection on `{16 + 8x | x < 2^21}` for odd `a`) -/
def relocFn (a b k : Nat) : Nat := 16 + 8 * ((((k - 16) / 8) * a + b) % 2097152)

/-- result of one operation as the line protocol prints it -/
inductive Res where
  | ok
  | val (v : Option Nat)
  deriving DecidableEq, Repr

/-- one operation against (map, runtime epoch) -/
def step (m : Map) (ep : Nat) : Op → Except Err (Res × Map × Nat)
  | .ins k v => match insert m ep k v with
    | .error x => .error x
    | .ok m' => .ok (.ok, m', ep)
  | .get k => match get m ep k with
    | .error x => .error x
    | .ok (r, m') => .ok (.val r, m', ep)
  | .rem k => match remove m ep k with
    | .error x => .error x
    | .ok (r, m') => .ok (.val r, m', ep)
  | .epoch => .ok (.ok, m, ep + 1)
  | .reloc a b => .ok (.ok, relocate (relocFn a b) m, ep + 1)

/-- run a sequence from a state; stops at the first error -/
def run (m : Map) (ep : Nat) : List Op → Except Err (Map × Nat)
  | [] => .ok (m, ep)
  | o :: rest => match step m ep o with
    | .error x => .error x
    | .ok (_, m', ep') => run m' ep' rest

end Dora.Wait.Hmap
