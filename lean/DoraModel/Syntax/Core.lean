import DoraModel.Syntax.Tree
/-!
# The parser core (`/repo/dora-parser/src/parser.rs`): state and the eight core operations

Only these functions touch `events`, `token_idx` and `leading` (checked statically on every run by
checks/c16.py).  The grammar routines are *not* modelled: a grammar is an arbitrary client, i.e. an
arbitrary list of `Op`s; markers are event indices returned by `open`.
`unreachable!`, index errors and `usize` underflow are `CoreFail.panic`.
-/
namespace Dora.Syntax
open TokenKind

/-- the fields of `struct Parser` that the core functions use (`errors` is not needed for the tree) -/
structure PState where
  content : List Char
  tokens : Array TokenKind
  starts : Array Nat
  tokenIdx : Nat
  leading : Nat
  events : Array Event
  deriving Repr

inductive CoreFail where
  | panic
  | outOfFuel
  deriving DecidableEq, Repr

abbrev CoreM := Except CoreFail

namespace PState

/-- `Parser::common_init` -/
def init (content : List Char) (tokens : Array TokenKind) (starts : Array Nat) : PState :=
  { content, tokens, starts, tokenIdx := 0, leading := 0, events := #[] }

/-- `Parser::nth` -/
def nth (s : PState) (i : Nat) : TokenKind := (s.tokens[s.tokenIdx + i]?).getD EOF

/-- `Parser::current` -/
def current (s : PState) : TokenKind := s.nth 0

/-- `Parser::is_eof` -/
def isEof (s : PState) : Bool := s.current == EOF

/-- `Parser::token_start` -/
def tokenStart (s : PState) (idx : Nat) : Nat := (s.starts[idx]?).getD (utf8Len s.content)

/-- `Parser::token_end` -/
def tokenEnd (s : PState) (idx : Nat) : Nat := (s.starts[idx + 1]?).getD (utf8Len s.content)

/-- `Parser::current_span` as `(start, len)`; `token_len` is a `u32` subtraction -/
def currentSpan (s : PState) : Nat × Nat := (s.tokenStart s.tokenIdx, s.tokenEnd s.tokenIdx - s.tokenStart s.tokenIdx)

/-- `for _ in 0..n { self.events.push(Event::Advance) }` -/
def pushAdvances (evs : Array Event) : Nat → Array Event
  | 0 => evs
  | n + 1 => pushAdvances (evs.push .advance) n

/-- `Parser::open`; the marker is `events.len()` before the push -/
def «open» (s : PState) : PState × Nat := ({ s with events := s.events.push (.open []) }, s.events.size)

/-- `Parser::raw_advance` -/
def rawAdvance (s : PState) (isLeadingTrivia : Bool) : CoreM PState :=
  if s.current.isEof then .ok s
  else if ¬ (s.current.toNat ≤ EOF.toNat) then .error .panic       -- `debug_assert!(kind <= EOF)`
  else
    let s := { s with tokenIdx := s.tokenIdx + 1 }
    if isLeadingTrivia then .ok { s with leading := s.leading + 1 }
    else .ok { s with events := pushAdvances s.events (s.leading + 1), leading := 0 }

/-- `while self.current().is_trivia() { self.raw_advance(true) }`, at most `fuel` iterations -/
def skipTriviaLoop : Nat → PState → CoreM PState
  | fuel, s =>
    if s.current.isTrivia then
      match fuel with
      | 0 => .error .outOfFuel
      | fuel + 1 =>
        match rawAdvance s true with
        | .ok s' => skipTriviaLoop fuel s'
        | .error e => .error e
    else .ok s

/-- `Parser::skip_trivia` (every iteration moves `token_idx` forward, so `tokens.len()` iterations suffice) -/
def skipTrivia (s : PState) : CoreM PState := skipTriviaLoop s.tokens.size s

/-- `Parser::advance` -/
def advance (s : PState) : CoreM PState :=
  match rawAdvance s false with
  | .ok s' => skipTrivia s'
  | .error e => .error e

/-- `Parser::advance_by_all_trivia` -/
def advanceByAllTrivia (s : PState) : PState :=
  if s.leading > 0 then { s with events := pushAdvances s.events s.leading, leading := 0 } else s

/-- the `for idx in idx_start..self.token_idx` loop of `advance_by_trailing_trivia`: returns `emit_count`.
`n` = iterations left, `multiline` = `multiline_count`. Falling out of the loop leaves `emit_count = 0`. -/
def trailingLoop (s : PState) (idxStart : Nat) : Nat → Nat → Nat → CoreM Nat
  | 0, _, _ => .ok 0
  | n + 1, idx, multiline =>
    let currentCount := (idx - idxStart) + 1
    match s.tokens[idx]? with
    | none => .error .panic
    | some k =>
      if k = WHITESPACE then trailingLoop s idxStart n (idx + 1) multiline
      else if k = NEWLINE then .ok multiline
      else if k = LINE_COMMENT then .ok currentCount
      else if k = MULTILINE_COMMENT then
        match sliceBytes s.content (s.tokenStart idx) (s.tokenEnd idx) with
        | none => .error .panic
        | some text =>
          if text.any (fun c => c == '\n' || c == '\r') then .ok currentCount
          else trailingLoop s idxStart n (idx + 1) currentCount
      else .error .panic                                             -- `unreachable!()`

/-- `Parser::advance_by_trailing_trivia` -/
def advanceByTrailingTrivia (s : PState) : CoreM PState :=
  if s.leading = 0 then .ok s
  else if s.tokenIdx < s.leading then .error .panic                   -- `self.token_idx - leading` (usize)
  else
    match trailingLoop s (s.tokenIdx - s.leading) s.leading (s.tokenIdx - s.leading) 0 with
    | .error e => .error e
    | .ok emit =>
      if s.leading < emit then .error .panic                           -- `self.leading -= emit_count` (usize)
      else .ok { s with events := pushAdvances s.events emit, leading := s.leading - emit }

/-- the `while leading_count < self.leading` loop of `advance_by_non_leading_trivia`: returns the final
`leading_count`. `n` bounds the iterations (`leading - leading_count` at entry). -/
def nonLeadingLoop (s : PState) : Nat → Nat → Bool → Nat → Nat → CoreM Nat
  | 0, _, _, _, _ => .error .outOfFuel
  | n + 1, newlines, empty, leadingCount, lastLeadingCount =>
    if ¬ (leadingCount < s.leading) then .ok leadingCount
    else if s.tokenIdx < leadingCount + 1 then .error .panic           -- `self.token_idx - leading_count - 1` (usize)
    else
      match s.tokens[s.tokenIdx - leadingCount - 1]? with
      | none => .error .panic
      | some k =>
        if k = NEWLINE then
          if newlines > 0 && empty then .ok lastLeadingCount
          else nonLeadingLoop s n (newlines + 1) true (leadingCount + 1) leadingCount
        else if k = WHITESPACE then nonLeadingLoop s n newlines empty (leadingCount + 1) lastLeadingCount
        else if k = LINE_COMMENT ∨ k = MULTILINE_COMMENT then
          nonLeadingLoop s n newlines false (leadingCount + 1) lastLeadingCount
        else .error .panic                                           -- `unreachable!()`

/-- `Parser::advance_by_non_leading_trivia` -/
def advanceByNonLeadingTrivia (s : PState) : CoreM PState :=
  if s.leading = 0 then .ok s
  else
    match nonLeadingLoop s (s.leading + 1) 0 true 0 0 with
    | .error e => .error e
    | .ok leadingCount =>
      if s.leading < leadingCount then .error .panic                   -- `self.leading - leading_count` (usize)
      else
        let nonLeading := s.leading - leadingCount
        .ok { s with events := pushAdvances s.events nonLeading, leading := s.leading - nonLeading }

/-- `Parser::close(m, kind)`; `m` = `Marker.start` -/
def close (s : PState) (m : Nat) (kind : TokenKind) : CoreM PState :=
  match s.events[m]? with
  | some (.open kinds) =>
    let s := { s with events := s.events.setIfInBounds m (.open (kinds ++ [kind])) }
    match advanceByTrailingTrivia s with
    | .error e => .error e
    | .ok s => .ok { s with events := s.events.push .close }
  | _ => .error .panic                                                -- index / `unreachable!()`

end PState

/-- one call of a core function by a client (grammar routine) -/
inductive Op where
  | open
  | close (m : Nat) (kind : TokenKind)
  | advance
  | skipTrivia
  | rawAdvance (isLeadingTrivia : Bool)
  | advanceByAllTrivia
  | advanceByTrailingTrivia
  | advanceByNonLeadingTrivia
  deriving DecidableEq, Repr

def stepOp (s : PState) : Op → CoreM PState
  | .open => .ok s.open.1
  | .close m k => s.close m k
  | .advance => s.advance
  | .skipTrivia => s.skipTrivia
  | .rawAdvance b => s.rawAdvance b
  | .advanceByAllTrivia => .ok s.advanceByAllTrivia
  | .advanceByTrailingTrivia => s.advanceByTrailingTrivia
  | .advanceByNonLeadingTrivia => s.advanceByNonLeadingTrivia

def runOps : PState → List Op → CoreM PState
  | s, [] => .ok s
  | s, o :: os =>
    match stepOp s o with
    | .ok s' => runOps s' os
    | .error e => .error e

/-- `Parser::parse_file` with the grammar (`while !is_eof { parse_element() }`) replaced by an arbitrary
client op list: `open; skip_trivia; <client>; advance_by_all_trivia; close(m, ELEMENT_LIST)` -/
def parseFileOps (client : List Op) : List Op :=
  [.open, .skipTrivia] ++ client ++ [.advanceByAllTrivia, .close 0 ELEMENT_LIST]

/-- `Parser::parse` = `parse_file` + `into_file` (`build_tree`) for a client op list -/
def parseWith (content : List Char) (tokens : Array TokenKind) (starts : Array Nat) (client : List Op) :
    CoreM (Option Green) :=
  match runOps (PState.init content tokens starts) (parseFileOps client) with
  | .error e => .error e
  | .ok s => .ok (buildTree content tokens starts s.events.toList)

end Dora.Syntax
