import DoraModel.Syntax.Lex
/-!
# Events and the tree builder (`build_tree`, `/repo/dora-parser/src/parser.rs`; green tree: `green.rs`)

`Event` is the parser's private event type; `buildTree` is `build_tree`: a stack of `NodeBuilder`s,
`Open { kinds }` pushes its kinds in reverse, `Advance` appends the next token to the node on top,
`Close` pops a node into its parent.  Index errors, `expect`s and `assert!`s are `none`.
Text lengths are `Nat` (Rust: `u32`; the lexer refuses texts of 2^32 bytes and more).
-/
namespace Dora.Syntax
open TokenKind

/-- `enum Event` (parser.rs) -/
inductive Event where
  | open (kinds : List TokenKind)
  | advance
  | close
  deriving DecidableEq, Repr

/-- `GreenElement` / `GreenToken` / `GreenNode` (green.rs); `text` as characters -/
inductive Green where
  | token (kind : TokenKind) (text : List Char)
  | node (kind : TokenKind) (children : List Green) (textLen : Nat)
  deriving Repr

/-- `struct NodeBuilder`; `children` newest first -/
structure NodeBuilder where
  kind : TokenKind
  children : List Green
  textLen : Nat
  deriving Repr

/-- `GreenNode::text_length` for nodes, `token.text.len()` for tokens -/
def Green.len : Green → Nat
  | .token _ t => utf8Len t
  | .node _ _ n => n

/-- `build_green_node` -/
def buildGreenNode (b : NodeBuilder) : Green := .node b.kind b.children.reverse b.textLen

/-! ### `&content[start..end]`: byte-offset slicing of a `str`; `none` = the Rust panic
(out of range, `start > end`, or not on a char boundary) -/

def dropBytes : List Char → Nat → Option (List Char)
  | cs, 0 => some cs
  | [], _ + 1 => none
  | c :: cs, n + 1 => if c.utf8Size ≤ n + 1 then dropBytes cs (n + 1 - c.utf8Size) else none

def takeBytes : List Char → Nat → Option (List Char)
  | _, 0 => some []
  | [], _ + 1 => none
  | c :: cs, n + 1 =>
    if c.utf8Size ≤ n + 1 then (takeBytes cs (n + 1 - c.utf8Size)).map (c :: ·) else none

def sliceBytes (content : List Char) (a b : Nat) : Option (List Char) :=
  if a ≤ b then (dropBytes content a).bind (takeBytes · (b - a)) else none

/-- the stack (top first) and `token_idx` of `build_tree` -/
abbrev BState := List NodeBuilder × Nat

/-- one iteration of `for event in events` -/
def buildStep (content : List Char) (kinds : Array TokenKind) (starts : Array Nat) :
    BState → Event → Option BState
  | (stack, idx), .open ks =>
    -- `for kind in kinds.into_iter().rev() { stack.push(NodeBuilder { kind, [], 0 }) }`
    some (ks.reverse.foldl (fun st k => { kind := k, children := [], textLen := 0 } :: st) stack, idx)
  | (stack, idx), .advance =>
    match kinds[idx]?, starts[idx]? with
    | some kind, some start =>
      let stop := if h : idx + 1 < starts.size then starts[idx + 1] else utf8Len content
      match sliceBytes content start stop with       -- also covers `end - start` underflow
      | none => none
      | some text =>
        match stack with
        | [] => none                                  -- `expect("missing open node")`
        | b :: rest =>
          some ({ b with children := .token kind text :: b.children, textLen := b.textLen + (stop - start) } :: rest,
                idx + 1)
    | _, _ => none                                    -- index out of bounds
  | (stack, idx), .close =>
    match stack with
    | b :: p :: rest =>
      let n := buildGreenNode b
      some ({ p with children := n :: p.children, textLen := p.textLen + n.len } :: rest, idx)
    | _ => none                                       -- `expect("missing open node")` / `expect("missing parent node")`

def buildLoop (content : List Char) (kinds : Array TokenKind) (starts : Array Nat) :
    BState → List Event → Option BState
  | st, [] => some st
  | st, e :: es =>
    match buildStep content kinds starts st e with
    | none => none
    | some st' => buildLoop content kinds starts st' es

/-- `build_tree(content, tokens, token_starts, events)` -/
def buildTree (content : List Char) (kinds : Array TokenKind) (starts : Array Nat) (events : List Event) :
    Option Green :=
  match events.getLast? with
  | some .close =>                                     -- `events.pop().unwrap()`, `assert!(matches!(last, Close))`
    match buildLoop content kinds starts ([], 0) events.dropLast with
    | some ([b], _) =>                                 -- `assert_eq!(stack.len(), 1)`
      let n := buildGreenNode b
      if n.len = utf8Len content then some n else none -- `assert_eq!(node.text_length() as usize, content.len())`
    | _ => none
  | _ => none

/-! ### what is read off a green tree -/

mutual
/-- `GreenNode::to_string`: the token texts in order -/
def Green.text : Green → List Char
  | .token _ t => t
  | .node _ cs _ => Green.textList cs
def Green.textList : List Green → List Char
  | [] => []
  | g :: gs => g.text ++ Green.textList gs
end

mutual
/-- the tokens of the tree in order: kind and text -/
def Green.leaves : Green → List (TokenKind × List Char)
  | .token k t => [(k, t)]
  | .node _ cs _ => Green.leavesList cs
def Green.leavesList : List Green → List (TokenKind × List Char)
  | [] => []
  | g :: gs => g.leaves ++ Green.leavesList gs
end

/-- sum of the children's lengths as the red tree sees them -/
def lenSum : List Green → Nat
  | [] => 0
  | g :: gs => g.len + lenSum gs

mutual
/-- every node's stored `text_length` is the sum of its children's lengths -/
def Green.LenOk : Green → Prop
  | .token _ _ => True
  | .node _ cs n => n = lenSum cs ∧ Green.LenOkList cs
def Green.LenOkList : List Green → Prop
  | [] => True
  | g :: gs => g.LenOk ∧ Green.LenOkList gs
end

mutual
/-- The spans of the red tree (`SyntaxElementIter`, ast.rs): a child starts where its previous sibling ends
(`current_offset += element_len`, using the *stored* length of nodes), the first child where its parent starts.
Result: `(isToken, kind, start, len)` in pre-order. -/
def Green.spans : Green → Nat → List (Bool × TokenKind × Nat × Nat)
  | .token k t, off => [(true, k, off, utf8Len t)]
  | .node k cs n, off => (false, k, off, n) :: Green.spansList cs off
def Green.spansList : List Green → Nat → List (Bool × TokenKind × Nat × Nat)
  | [], _ => []
  | g :: gs, off => g.spans off ++ Green.spansList gs (off + g.len)
end

/-- the token spans of the red tree, in order -/
def Green.tokenSpans (g : Green) (off : Nat) : List (Nat × Nat) :=
  ((g.spans off).filter (·.1)).map (fun x => (x.2.2.1, x.2.2.2))

end Dora.Syntax
