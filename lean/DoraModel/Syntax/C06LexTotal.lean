import DoraModel.Syntax.LexLemmas
/-! Lemmas for C06: the lexer model never takes one of its `none` exits (the Rust `expect` / `unwrap` /
`assert!` / `unreachable!` / integer-underflow sites).  What C16 left open:

* operator-table coverage — every character of `operatorChars` has an arm in `read_operator`'s `match`;
* the `open_braces` stack discipline — every entry of the stack is ≥ 1, so `*open_braces_top -= 1` never
  underflows, and the continuation of a template string starts at an offset ≥ 1;
* every kind the lexer returns is `< EOF` (the `assert!(token < TokenKind::EOF)` of `lex`), which for
  identifiers means: every entry of the keyword table is a token kind below `EOF`.
-/
namespace Dora.Syntax
open TokenKind

/-- stack discipline of `Lexer::open_braces`: every counter on the stack is at least 1 -/
def BracesPos (s : LState) : Prop := ∀ b ∈ s.openBraces, 1 ≤ b

/-- "a token below `EOF`, and the braces stack is still well-formed" -/
def TokOk (x : Tok) : Prop := x.1.toNat < EOF.toNat ∧ BracesPos x.2

theorem BracesPos.eat {s : LState} (h : BracesPos s) : BracesPos s.eatChar := by
  unfold BracesPos; rw [braces_eatChar]; exact h

theorem BracesPos.setCursor {s : LState} (p : Cur) (h : BracesPos s) : BracesPos (s.setCursor p) := h

theorem BracesPos.report {s : LState} (e : LexErr) (n : Nat) (h : BracesPos s) : BracesPos (s.reportFrom e n) := h

@[simp] theorem braces_setCursor (s : LState) (p : Cur) : (s.setCursor p).openBraces = s.openBraces := rfl
@[simp] theorem braces_reportFrom (s : LState) (e : LexErr) (n : Nat) : (s.reportFrom e n).openBraces = s.openBraces := rfl

theorem braces_readDigits (s : LState) (b : Nat) : (readDigits s b).openBraces = s.openBraces := rfl
theorem braces_readIdentifierAsString (s : LState) : (readIdentifierAsString s).2.openBraces = s.openBraces := rfl

/-- every keyword is a token kind below `EOF` -/
theorem keywordTable_lt_eof : ∀ p ∈ keywordTable, p.2.toNat < EOF.toNat := by decide

theorem lookup_lt_eof (v : List Char) (k : TokenKind) (h : keywordTable.lookup v = some k) :
    k.toNat < EOF.toNat := by
  have : ∀ (tbl : List (List Char × TokenKind)), (∀ p ∈ tbl, p.2.toNat < EOF.toNat) →
      tbl.lookup v = some k → k.toNat < EOF.toNat := by
    intro tbl
    induction tbl with
    | nil => intro _ h; simp [List.lookup] at h
    | cons p tbl ih =>
      intro hall h
      obtain ⟨a, b⟩ := p
      rw [List.lookup_cons] at h
      cases hva : (v == a) with
      | true =>
        rw [hva] at h
        simp only [Option.some.injEq] at h
        subst h
        exact hall (a, b) (by simp)
      | false =>
        rw [hva] at h
        exact ih (fun q hq => hall q (by simp [hq])) h
  exact this keywordTable keywordTable_lt_eof h

theorem tokOk {k : TokenKind} {s : LState} (hk : k.toNat < EOF.toNat) (hb : BracesPos s) : TokOk (k, s) := ⟨hk, hb⟩

/-! ### the `read_*` functions that always return -/

theorem readNewline_ok (s : LState) (h : BracesPos s) : TokOk (readNewline s) := by
  unfold readNewline
  split
  · dsimp only
    split
    · exact tokOk (by decide) (h.eat.eat)
    · exact tokOk (by decide) (h.eat)
  · split
    · exact tokOk (by decide) (h.eat)
    · exact tokOk (by decide) (h)

theorem readWhiteSpace_ok (s : LState) (h : BracesPos s) : TokOk (readWhiteSpace s) := tokOk (by decide) (h)
theorem readLineComment_ok (s : LState) (h : BracesPos s) : TokOk (readLineComment s) := tokOk (by decide) (h)

theorem readMultilineComment_ok (s : LState) (h : BracesPos s) : TokOk (readMultilineComment s) := by
  unfold readMultilineComment
  refine tokOk (by decide) (?_)
  split
  · exact ((h.eat.eat.setCursor _).report _ _).eat.eat
  · exact (h.eat.eat.setCursor _).eat.eat

theorem readIdentifier_ok (s : LState) (h : BracesPos s) : TokOk (readIdentifier s) := by
  unfold readIdentifier
  simp only
  split
  · rename_i k hk
    exact ⟨lookup_lt_eof _ k hk, h⟩
  · split
    · exact tokOk (by decide) (h)
    · exact tokOk (by decide) (h)

theorem readCharLiteral_ok (s : LState) (h : BracesPos s) : TokOk (readCharLiteral s) := by
  unfold readCharLiteral
  simp only
  split
  · exact tokOk (by decide) ((h.eat.setCursor _).eat)
  · exact tokOk (by decide) ((h.eat.setCursor _).report _ _)

theorem braces_readNumberAsFloat (s : LState) : (readNumberAsFloat s).2.openBraces = s.openBraces := by
  unfold readNumberAsFloat
  dsimp only
  repeat' split
  all_goals simp [braces_readDigits, braces_readIdentifierAsString, braces_eatChar]

theorem readNumberAsFloat_kind (s : LState) : (readNumberAsFloat s).1 = FLOAT_LITERAL := rfl

theorem readNumberTail_ok (b : Nat) (s : LState) (h : BracesPos s) : TokOk (readNumberTail b s) := by
  unfold readNumberTail
  split
  · refine ⟨by rw [readNumberAsFloat_kind]; decide, ?_⟩
    unfold BracesPos; rw [braces_readNumberAsFloat]; exact h
  · dsimp only
    split
    · exact tokOk (by decide) (h)
    · exact tokOk (by decide) (h)

theorem readNumber_ok (s : LState) (h : BracesPos s) : TokOk (readNumber s) := by
  unfold readNumber
  apply readNumberTail_ok
  unfold BracesPos
  rw [braces_readDigits]
  unfold readNumberBase
  split
  · split
    · exact h.eat.eat
    · exact h.eat.eat
    · exact h
  · exact h

/-- the body of `read_string`: either a template start (pushes `1`) or a finished literal -/
theorem readStringBody_ok (start : Nat) (s : LState) (c : Bool) (h : BracesPos s) : TokOk (readStringBody start s c) := by
  unfold readStringBody
  split
  · refine tokOk (by decide) (?_)
    intro b hb
    simp only [List.mem_cons] at hb
    rcases hb with rfl | hb
    · exact Nat.le_refl 1
    · exact h b hb
  · rename_i r off _
    dsimp only
    have hs : BracesPos (if isQuote (s.setCursor (r, off)).curr = true then (s.setCursor (r, off)).eatChar
        else (s.setCursor (r, off)).reportFrom LexErr.unclosedString start) := by
      split
      · exact (h.setCursor _).eat
      · exact (h.setCursor _).report _ _
    cases c
    · exact tokOk (by decide) hs
    · exact tokOk (by decide) hs

/-! ### operators -/

theorem opEq_ok (s : LState) (n : Char) (a b : TokenKind) (ha : a.toNat < EOF.toNat) (hb : b.toNat < EOF.toNat)
    (h : BracesPos s) : TokOk (opEq s n a b) := by
  unfold opEq; split
  · exact ⟨hb, h.eat⟩
  · exact ⟨ha, h⟩

theorem opEq2_ok (s : LState) (n : Char) (a b : TokenKind) (c : Char) (d : TokenKind) (ha : a.toNat < EOF.toNat)
    (hb : b.toNat < EOF.toNat) (hd : d.toNat < EOF.toNat) (h : BracesPos s) : TokOk (opEq2 s n a b c d) := by
  unfold opEq2; split
  · exact ⟨hb, h.eat⟩
  · split
    · exact ⟨hd, h.eat⟩
    · exact ⟨ha, h⟩

theorem opColon_ok (s : LState) (n : Char) (h : BracesPos s) : TokOk (opColon s n) := by
  unfold opColon; split
  · exact tokOk (by decide) (h.eat)
  · exact tokOk (by decide) (h)

theorem opDot_ok (s : LState) (n m : Char) (h : BracesPos s) : TokOk (opDot s n m) := by
  unfold opDot; split
  · dsimp only; split
    · exact tokOk (by decide) (h.eat.eat)
    · exact tokOk (by decide) (h.eat)
  · exact tokOk (by decide) (h)

theorem opAssign_ok (s : LState) (n m : Char) (h : BracesPos s) : TokOk (opAssign s n m) := by
  unfold opAssign; split
  · dsimp only; split
    · exact tokOk (by decide) (h.eat.eat)
    · exact tokOk (by decide) (h.eat)
  · split
    · exact tokOk (by decide) (h.eat)
    · exact tokOk (by decide) (h)

theorem opLt_ok (s : LState) (n m : Char) (h : BracesPos s) : TokOk (opLt s n m) := by
  unfold opLt; split
  · exact tokOk (by decide) (h.eat)
  · split
    · dsimp only; split
      · exact tokOk (by decide) (h.eat.eat)
      · exact tokOk (by decide) (h.eat)
    · exact tokOk (by decide) (h)

theorem opGt_ok (s : LState) (n m : Char) (h : BracesPos s) : TokOk (opGt s n m) := by
  unfold opGt; split
  · exact tokOk (by decide) (h.eat)
  · split
    · dsimp only; split
      · exact tokOk (by decide) (h.eat.eat)
      · split
        · split
          · exact tokOk (by decide) (h.eat.eat.eat)
          · exact tokOk (by decide) (h.eat.eat)
        · exact tokOk (by decide) (h.eat)
    · exact tokOk (by decide) (h)

theorem opNot_ok (s : LState) (n m : Char) (h : BracesPos s) : TokOk (opNot s n m) := by
  unfold opNot; split
  · dsimp only; split
    · exact tokOk (by decide) (h.eat.eat)
    · exact tokOk (by decide) (h.eat)
  · exact tokOk (by decide) (h)

/-- `{`: the counter on top of the stack goes up -/
theorem opLBrace_ok (s : LState) (h : BracesPos s) : TokOk (opLBrace s) := by
  unfold opLBrace
  split
  · rename_i top more hb
    refine tokOk (by decide) (?_)
    intro b hb'
    simp only [List.mem_cons] at hb'
    rcases hb' with rfl | hb'
    · omega
    · exact h b (by rw [hb]; simp [hb'])
  · exact tokOk (by decide) (h)

/-- `}`: thanks to the stack discipline the decrement never underflows; when the counter reaches 0 the
template string continues, and the offset is ≥ 1 because the `}` itself has been eaten. -/
theorem opRBrace_ok (s : LState) (h : BracesPos s) (hoff : 1 ≤ s.offset) : ∃ x, opRBrace s = some x ∧ TokOk x := by
  unfold opRBrace
  split
  · rename_i top more hb
    have htop : 1 ≤ top := h top (by rw [hb]; simp)
    have hmore : ∀ b ∈ more, 1 ≤ b := fun b hb' => h b (by rw [hb]; simp [hb'])
    have hne : ¬ top = 0 := by omega
    simp only [hne, if_false]
    split
    · -- the closing brace of `${ … }`: the string continues
      unfold readString
      simp only [if_true]
      have ho : 1 ≤ ({ s with openBraces := more } : LState).offset := hoff
      simp only [ho, if_true]
      exact ⟨_, rfl, readStringBody_ok _ _ true hmore⟩
    · refine ⟨_, rfl, tokOk (by decide) ?_⟩
      intro b hb'
      simp only [List.mem_cons] at hb'
      rcases hb' with rfl | hb'
      · omega
      · exact hmore b hb'
  · exact ⟨_, rfl, tokOk (by decide) h⟩

/-- operator-table coverage: every character of `operatorChars` has an arm in the `match` of
`read_operator` (its `unreachable!()` is unreachable), and every arm returns a token below `EOF`. -/
theorem opDispatch_ok (s : LState) (ch n m : Char) (hop : operatorChars.contains ch = true) (h : BracesPos s)
    (hoff : 1 ≤ s.offset) : ∃ x, opDispatch s ch n m = some x ∧ TokOk x := by
  have hmem : ch ∈ operatorChars := by simpa using hop
  simp only [operatorChars, List.mem_cons, List.not_mem_nil, or_false] at hmem
  have E := opEq_ok s n
  have E2 := opEq2_ok s n
  rcases hmem with rfl | rfl | rfl | rfl | rfl | rfl | rfl | rfl | rfl | rfl | rfl | rfl | rfl | rfl | rfl | rfl | rfl |
    rfl | rfl | rfl | rfl | rfl | rfl
  all_goals unfold opDispatch
  all_goals simp only [Char.reduceBEq, Bool.false_eq_true, if_false, if_true]
  all_goals first
    | exact opRBrace_ok s h hoff
    | exact ⟨_, rfl, E _ _ (by decide) (by decide) h⟩
    | exact ⟨_, rfl, E2 _ _ _ _ (by decide) (by decide) (by decide) h⟩
    | exact ⟨_, rfl, opColon_ok s n h⟩
    | exact ⟨_, rfl, opDot_ok s n m h⟩
    | exact ⟨_, rfl, opAssign_ok s n m h⟩
    | exact ⟨_, rfl, opLt_ok s n m h⟩
    | exact ⟨_, rfl, opGt_ok s n m h⟩
    | exact ⟨_, rfl, opNot_ok s n m h⟩
    | exact ⟨_, rfl, opLBrace_ok s h⟩
    | exact ⟨_, rfl, tokOk (by decide) h⟩

theorem offset_eatChar_pos (s : LState) (c : Char) (hc : s.curr = some c) : 1 ≤ s.eatChar.offset := by
  obtain ⟨r, o, e, b⟩ := s
  cases r with
  | nil => simp [LState.curr] at hc
  | cons d r =>
    simp only [LState.eatChar]
    have := utf8Size_pos d
    omega

theorem readOperator_ok (s : LState) (c : Char) (hc : s.curr = some c) (hop : isOperator (some c) = true)
    (h : BracesPos s) : ∃ x, readOperator s = some x ∧ TokOk x := by
  unfold readOperator
  rw [hc]
  dsimp only
  exact opDispatch_ok _ c _ _ (by simpa [isOperator] using hop) h.eat (offset_eatChar_pos s c hc)

theorem readUnknownChar_ok (s : LState) (c : Char) (hc : s.curr = some c) (h : BracesPos s) :
    ∃ x, readUnknownChar s = some x ∧ TokOk x := by
  unfold readUnknownChar
  rw [hc]
  exact ⟨_, rfl, tokOk (by decide) (h.eat.report _ _)⟩

theorem readString_false_ok (s : LState) (hq : s.curr = some '"') (h : BracesPos s) :
    ∃ x, readString s false = some x ∧ TokOk x := by
  unfold readString
  simp only [Bool.false_eq_true, if_false, hq]
  exact ⟨_, rfl, readStringBody_ok _ _ false h.eat⟩

/-- `read_token` on a non-empty rest never hits one of its panic exits, returns a kind below `EOF`,
and keeps the braces stack well-formed. -/
theorem readToken_ok (s : LState) (hne : s.rest ≠ []) (h : BracesPos s) :
    ∃ x, readToken s = some x ∧ TokOk x := by
  unfold readToken
  cases hcur : s.curr with
  | none =>
    exfalso
    obtain ⟨r, o, e, b⟩ := s
    cases r with
    | nil => exact hne rfl
    | cons d r => simp [LState.curr] at hcur
  | some c =>
    dsimp only
    by_cases h1 : isNewline (some c) = true
    · rw [if_pos h1]; exact ⟨_, rfl, readNewline_ok s h⟩
    rw [if_neg h1]
    by_cases h2 : isWhitespace (some c) = true
    · rw [if_pos h2]; exact ⟨_, rfl, readWhiteSpace_ok s h⟩
    rw [if_neg h2]
    by_cases h3 : isDigit (some c) = true
    · rw [if_pos h3]; exact ⟨_, rfl, readNumber_ok s h⟩
    rw [if_neg h3]
    by_cases h4 : isLineComment s = true
    · rw [if_pos h4]; exact ⟨_, rfl, readLineComment_ok s h⟩
    rw [if_neg h4]
    by_cases h5 : isMultilineComment s = true
    · rw [if_pos h5]; exact ⟨_, rfl, readMultilineComment_ok s h⟩
    rw [if_neg h5]
    by_cases h6 : isIdentifierStart (some c) = true
    · rw [if_pos h6]; exact ⟨_, rfl, readIdentifier_ok s h⟩
    rw [if_neg h6]
    by_cases h7 : isQuote (some c) = true
    · rw [if_pos h7]
      have : c = '"' := by simpa [isQuote] using h7
      subst this
      exact readString_false_ok s hcur h
    rw [if_neg h7]
    by_cases h8 : isCharQuote (some c) = true
    · rw [if_pos h8]; exact ⟨_, rfl, readCharLiteral_ok s h⟩
    rw [if_neg h8]
    by_cases h9 : isOperator (some c) = true
    · rw [if_pos h9]; exact readOperator_ok s c hcur h9 h
    rw [if_neg h9]
    exact readUnknownChar_ok s c hcur h

/-- the token loop never ends in `panic`, for any fuel -/
theorem lexLoop_no_panic (fuel : Nat) (s : LState) (ks : List TokenKind) (ss : List Nat) (h : BracesPos s) :
    lexLoop fuel s ks ss ≠ .error .panic := by
  induction fuel generalizing s ks ss with
  | zero =>
    unfold lexLoop
    split
    · simp
    · simp
  | succ fuel ih =>
    unfold lexLoop
    split
    · simp
    · rename_i hr
      have hne : s.rest ≠ [] := by
        intro e; rw [e] at hr; simp at hr
      obtain ⟨⟨k, s'⟩, hx, hk, hb⟩ := readToken_ok s hne h
      simp only [hx]
      simp only at hk
      simp only [hk, if_true]
      exact ih s' _ _ hb

end Dora.Syntax
