import DoraModel.Syntax.LexLemmas
import DoraModel.Syntax.Tree
/-! Helper lemmas for the tree builder: what a stack of builders holds, and that each event keeps it. -/
namespace Dora.Syntax
open TokenKind

/-! ### byte slicing of a text that is cut into pieces -/

theorem dropBytes_append (a b : List Char) : dropBytes (a ++ b) (utf8Len a) = some b := by
  induction a with
  | nil => cases b <;> simp [utf8Len, dropBytes]
  | cons c a ih =>
    have hc := utf8Size_pos c
    simp only [List.cons_append, utf8Len]
    obtain ⟨n, hn⟩ : ∃ n, c.utf8Size + utf8Len a = n + 1 := ⟨c.utf8Size + utf8Len a - 1, by omega⟩
    rw [hn, dropBytes]
    have : c.utf8Size ≤ n + 1 := by omega
    simp only [this, if_true]
    have : n + 1 - c.utf8Size = utf8Len a := by omega
    rw [this, ih]

theorem takeBytes_append (a b : List Char) : takeBytes (a ++ b) (utf8Len a) = some a := by
  induction a with
  | nil => cases b <;> simp [utf8Len, takeBytes]
  | cons c a ih =>
    have hc := utf8Size_pos c
    simp only [List.cons_append, utf8Len]
    obtain ⟨n, hn⟩ : ∃ n, c.utf8Size + utf8Len a = n + 1 := ⟨c.utf8Size + utf8Len a - 1, by omega⟩
    rw [hn, takeBytes]
    have : c.utf8Size ≤ n + 1 := by omega
    simp only [this, if_true]
    have : n + 1 - c.utf8Size = utf8Len a := by omega
    rw [this, ih]
    rfl

theorem sliceBytes_mid (a t b : List Char) :
    sliceBytes (a ++ (t ++ b)) (utf8Len a) (utf8Len a + utf8Len t) = some t := by
  unfold sliceBytes
  simp only [Nat.le_add_right, if_true, dropBytes_append, Option.bind_some]
  have : utf8Len a + utf8Len t - utf8Len a = utf8Len t := by omega
  rw [this, takeBytes_append]

theorem offsetsFrom_getElem? (o : Nat) (ts : List (List Char)) (i : Nat) (h : i < ts.length) :
    (offsetsFrom o ts)[i]? = some (o + utf8Len (ts.take i).flatten) := by
  induction ts generalizing o i with
  | nil => simp at h
  | cons t ts ih =>
    cases i with
    | zero => simp [offsetsFrom, utf8Len]
    | succ i =>
      simp only [offsetsFrom, List.getElem?_cons_succ, List.take_succ_cons, List.flatten_cons, utf8Len_append]
      rw [ih _ _ (by simpa using h)]
      simp [Nat.add_assoc]

theorem take_succ_flatten (ts : List (List Char)) (i : Nat) (h : i < ts.length) :
    (ts.take (i + 1)).flatten = (ts.take i).flatten ++ ts[i] := by
  induction ts generalizing i with
  | nil => simp at h
  | cons t ts ih =>
    cases i with
    | zero => simp
    | succ i =>
      simp only [List.take_succ_cons, List.flatten_cons, List.getElem_cons_succ]
      rw [ih i (by simpa using h), List.append_assoc]

theorem flatten_split (ts : List (List Char)) (i : Nat) (h : i < ts.length) :
    ts.flatten = (ts.take i).flatten ++ (ts[i] ++ (ts.drop (i + 1)).flatten) := by
  induction ts generalizing i with
  | nil => simp at h
  | cons t ts ih =>
    cases i with
    | zero => simp
    | succ i =>
      simp only [List.take_succ_cons, List.flatten_cons, List.getElem_cons_succ, List.drop_succ_cons]
      rw [ih i (by simpa using h), List.append_assoc]

/-! ### green trees: lengths, texts, leaves, spans -/

mutual
theorem Green.len_eq_of_lenOk : ∀ g : Green, g.LenOk → g.len = utf8Len g.text
  | .token _ _, _ => by simp [Green.len, Green.text]
  | .node _ cs n, h => by
    simp only [Green.LenOk] at h
    simp only [Green.len, Green.text, h.1]
    exact lenSum_eq_of_lenOk cs h.2
theorem lenSum_eq_of_lenOk : ∀ cs : List Green, Green.LenOkList cs → lenSum cs = utf8Len (Green.textList cs)
  | [], _ => by simp [lenSum, Green.textList, utf8Len]
  | g :: gs, h => by
    simp only [Green.LenOkList] at h
    simp only [lenSum, Green.textList, utf8Len_append]
    rw [Green.len_eq_of_lenOk g h.1, lenSum_eq_of_lenOk gs h.2]
end

mutual
theorem Green.text_eq_leaves : ∀ g : Green, g.text = (g.leaves.map (·.2)).flatten
  | .token _ _ => by simp [Green.text, Green.leaves]
  | .node _ cs _ => by simp only [Green.text, Green.leaves]; exact Green.textList_eq_leaves cs
theorem Green.textList_eq_leaves : ∀ cs : List Green, Green.textList cs = ((Green.leavesList cs).map (·.2)).flatten
  | [] => by simp [Green.textList, Green.leavesList]
  | g :: gs => by
    simp only [Green.textList, Green.leavesList, List.map_append, List.flatten_append]
    rw [Green.text_eq_leaves g, Green.textList_eq_leaves gs]
end

theorem Green.leavesList_append (a b : List Green) :
    Green.leavesList (a ++ b) = Green.leavesList a ++ Green.leavesList b := by
  induction a with
  | nil => simp [Green.leavesList]
  | cons g a ih => simp [Green.leavesList, ih]

theorem lenSum_append (a b : List Green) : lenSum (a ++ b) = lenSum a + lenSum b := by
  induction a with
  | nil => simp [lenSum]
  | cons g a ih => simp [lenSum, ih, Nat.add_assoc]

theorem Green.lenOkList_append (a b : List Green) :
    Green.LenOkList (a ++ b) ↔ Green.LenOkList a ∧ Green.LenOkList b := by
  induction a with
  | nil => simp [Green.LenOkList]
  | cons g a ih => simp [Green.LenOkList, ih, and_assoc]

/-- token spans of consecutive pieces starting at `o` -/
def pieceSpans (o : Nat) (ts : List (List Char)) : List (Nat × Nat) :=
  (offsetsFrom o ts).zip (ts.map utf8Len)

theorem pieceSpans_append (o : Nat) (a b : List (List Char)) :
    pieceSpans o (a ++ b) = pieceSpans o a ++ pieceSpans (o + utf8Len a.flatten) b := by
  unfold pieceSpans
  rw [offsetsFrom_append, List.map_append, List.zip_append]
  simp [offsetsFrom_length]

mutual
theorem Green.tokenSpans_eq : ∀ (g : Green) (off : Nat), g.LenOk →
    g.tokenSpans off = pieceSpans off (g.leaves.map (·.2))
  | .token _ t, off, _ => by simp [Green.tokenSpans, Green.spans, Green.leaves, pieceSpans, offsetsFrom]
  | .node _ cs n, off, h => by
    simp only [Green.LenOk] at h
    have := Green.tokenSpansList_eq cs off h.2
    simp only [Green.tokenSpans, Green.spans, Green.leaves, List.filter_cons] at this ⊢
    simpa using this
theorem Green.tokenSpansList_eq : ∀ (cs : List Green) (off : Nat), Green.LenOkList cs →
    ((Green.spansList cs off).filter (·.1)).map (fun x => (x.2.2.1, x.2.2.2))
      = pieceSpans off ((Green.leavesList cs).map (·.2))
  | [], off, _ => by simp [Green.spansList, Green.leavesList, pieceSpans, offsetsFrom]
  | g :: gs, off, h => by
    simp only [Green.LenOkList] at h
    simp only [Green.spansList, Green.leavesList, List.filter_append, List.map_append]
    rw [pieceSpans_append]
    have h1 := Green.tokenSpans_eq g off h.1
    have h2 := Green.tokenSpansList_eq gs (off + g.len) h.2
    simp only [Green.tokenSpans] at h1
    rw [h1, h2, Green.len_eq_of_lenOk g h.1, Green.text_eq_leaves g]
end


/-! ### the builder stack -/

/-- the token table handed to `build_tree`: the text cut into non-empty pieces, their start offsets,
and one kind per piece plus `EOF` — what `lex_partition` guarantees for the lexer's output -/
structure TokTable (content : List Char) (kinds : Array TokenKind) (starts : Array Nat)
    (texts : List (List Char)) : Prop where
  flat : texts.flatten = content
  ne : ∀ t ∈ texts, t ≠ []
  starts_eq : starts.toList = offsetsFrom 0 texts
  kinds_len : kinds.size = texts.length + 1

def NodeBuilder.leaves (b : NodeBuilder) : List (TokenKind × List Char) := Green.leavesList b.children.reverse

/-- all tokens held by the stack (given top first), bottom builder first -/
def stackLeaves : List NodeBuilder → List (TokenKind × List Char)
  | [] => []
  | b :: rest => stackLeaves rest ++ b.leaves

def NodeBuilder.Ok (b : NodeBuilder) : Prop :=
  b.textLen = lenSum b.children.reverse ∧ Green.LenOkList b.children.reverse

def BInv (kinds : Array TokenKind) (texts : List (List Char)) (st : BState) : Prop :=
  st.2 ≤ texts.length ∧ (∀ b ∈ st.1, b.Ok) ∧ stackLeaves st.1 = (kinds.toList.zip texts).take st.2

theorem stackLeaves_pushEmpty (ks : List TokenKind) (st : List NodeBuilder) :
    stackLeaves (ks.foldl (fun st k => ({ kind := k, children := [], textLen := 0 } : NodeBuilder) :: st) st)
      = stackLeaves st ∧
    ((∀ b ∈ st, b.Ok) → ∀ b ∈ ks.foldl (fun st k => ({ kind := k, children := [], textLen := 0 } : NodeBuilder) :: st) st, b.Ok) := by
  induction ks generalizing st with
  | nil => exact ⟨rfl, fun h => h⟩
  | cons k ks ih =>
    simp only [List.foldl_cons]
    have := ih (({ kind := k, children := [], textLen := 0 } : NodeBuilder) :: st)
    refine ⟨by rw [this.1]; simp [stackLeaves, NodeBuilder.leaves, Green.leavesList], fun h => this.2 ?_⟩
    intro b hb
    rcases List.mem_cons.mp hb with rfl | hb
    · exact ⟨by simp [lenSum], by simp [Green.LenOkList]⟩
    · exact h b hb

theorem TokTable.size_starts {content kinds starts texts} (hT : TokTable content kinds starts texts) :
    starts.size = texts.length := by
  have := congrArg List.length hT.starts_eq
  simpa [offsetsFrom_length] using this

theorem TokTable.start_at {content kinds starts texts} (hT : TokTable content kinds starts texts)
    (i : Nat) (h : i < texts.length) : starts[i]? = some (utf8Len (texts.take i).flatten) := by
  have := offsetsFrom_getElem? 0 texts i h
  rw [← hT.starts_eq] at this
  simpa using this

theorem buildStep_inv {content kinds starts texts} (hT : TokTable content kinds starts texts)
    (st st' : BState) (e : Event) (hinv : BInv kinds texts st)
    (h : buildStep content kinds starts st e = some st') : BInv kinds texts st' := by
  obtain ⟨stack, idx⟩ := st
  obtain ⟨hidx, hok, hleaves⟩ := hinv
  cases e with
  | «open» ks =>
    simp only [buildStep, Option.some.injEq] at h
    subst h
    have := stackLeaves_pushEmpty ks.reverse stack
    exact ⟨hidx, this.2 hok, by simp only; rw [this.1]; exact hleaves⟩
  | close =>
    simp only [buildStep] at h
    split at h
    · rename_i b p rest
      simp only [Option.some.injEq] at h
      subst h
      refine ⟨hidx, ?_, ?_⟩
      · intro x hx
        rcases List.mem_cons.mp hx with rfl | hx
        · have hb := hok b (by simp)
          have hp := hok p (by simp)
          refine ⟨?_, ?_⟩
          · simp only [List.reverse_cons, lenSum_append, lenSum, buildGreenNode, Green.len, Nat.add_zero]
            rw [hp.1]
          · simp only [List.reverse_cons, Green.lenOkList_append, Green.LenOkList, buildGreenNode, Green.LenOk, and_true]
            exact ⟨hp.2, hb.1, hb.2⟩
        · exact hok x (by simp [hx])
      · simp only at hleaves ⊢
        rw [← hleaves]
        simp [stackLeaves, NodeBuilder.leaves, Green.leavesList_append, Green.leavesList, buildGreenNode,
          Green.leaves, List.append_assoc]
    · exact absurd h (by simp)
  | advance =>
    simp only [buildStep] at h
    split at h
    · rename_i kind start hk hs
      have hlt : idx < texts.length := by
        have : idx < starts.size := by
          rcases Nat.lt_or_ge idx starts.size with h' | h'
          · exact h'
          · simp [Array.getElem?_eq_none h'] at hs
        rwa [hT.size_starts] at this
      have hstart : start = utf8Len (texts.take idx).flatten := by
        have := hT.start_at idx hlt
        rw [hs] at this
        exact Option.some.inj this
      -- the end of the token
      have hstop : (if h : idx + 1 < starts.size then starts[idx + 1] else utf8Len content)
          = utf8Len (texts.take idx).flatten + utf8Len texts[idx] := by
        split
        · rename_i h1
          have h2 : idx + 1 < texts.length := by rwa [hT.size_starts] at h1
          have := hT.start_at (idx + 1) h2
          rw [Array.getElem?_eq_getElem h1] at this
          rw [Option.some.inj this, take_succ_flatten texts idx hlt, utf8Len_append]
        · rename_i h1
          have h2 : idx + 1 = texts.length := by rw [hT.size_starts] at h1; omega
          rw [← hT.flat]
          have : texts = texts.take (idx + 1) := by rw [h2]; simp
          conv => lhs; rw [this]
          rw [take_succ_flatten texts idx hlt, utf8Len_append]
      simp only [hstop] at h
      have hslice : sliceBytes content start (utf8Len (texts.take idx).flatten + utf8Len texts[idx]) = some texts[idx] := by
        rw [hstart, ← hT.flat, flatten_split texts idx hlt]
        exact sliceBytes_mid _ _ _
      rw [hslice] at h
      simp only at h
      split at h
      · exact absurd h (by simp)
      · rename_i b rest
        simp only [Option.some.injEq] at h
        subst h
        have hkind : kinds.toList[idx]? = some kind := by simpa using hk
        refine ⟨hlt, ?_, ?_⟩
        · intro x hx
          rcases List.mem_cons.mp hx with rfl | hx
          · have hb := hok b (by simp)
            refine ⟨?_, ?_⟩
            · simp only [List.reverse_cons, lenSum_append, lenSum, Green.len, Nat.add_zero]
              rw [hb.1, hstart]
              omega
            · simp only [List.reverse_cons, Green.lenOkList_append, Green.LenOkList, Green.LenOk, and_true]
              exact hb.2
          · exact hok x (by simp [hx])
        · simp only at hleaves ⊢
          have hz : (kinds.toList.zip texts)[idx]? = some (kind, texts[idx]) := by
            simp [List.getElem?_zip_eq_some, hkind, List.getElem?_eq_getElem hlt]
          rw [List.take_succ, hz, ← hleaves]
          simp [stackLeaves, NodeBuilder.leaves, Green.leavesList_append, Green.leavesList, Green.leaves,
            List.append_assoc]
    · exact absurd h (by simp)

theorem buildLoop_inv {content kinds starts texts} (hT : TokTable content kinds starts texts)
    (es : List Event) (st st' : BState) (hinv : BInv kinds texts st)
    (h : buildLoop content kinds starts st es = some st') : BInv kinds texts st' := by
  induction es generalizing st with
  | nil => simp only [buildLoop, Option.some.injEq] at h; exact h ▸ hinv
  | cons e es ih =>
    simp only [buildLoop] at h
    split at h
    · exact absurd h (by simp)
    · rename_i st1 h1
      exact ih st1 (buildStep_inv hT st st1 e hinv h1) h

/-- if the first `i` pieces already have the byte length of the whole text, there are no more pieces -/
theorem take_full_of_len {texts : List (List Char)} (hne : ∀ t ∈ texts, t ≠ []) (i : Nat) (hi : i ≤ texts.length)
    (h : utf8Len (texts.take i).flatten = utf8Len texts.flatten) : i = texts.length := by
  rcases Nat.lt_or_ge i texts.length with hlt | hge
  · exfalso
    have hs := flatten_split texts i hlt
    have hpos : 0 < utf8Len texts[i] := utf8Len_pos_of_ne_nil (hne _ (List.getElem_mem hlt))
    rw [hs, utf8Len_append, utf8Len_append] at h
    omega
  · omega

end Dora.Syntax
