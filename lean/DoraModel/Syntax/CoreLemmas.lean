import DoraModel.Syntax.TreeLemmas
import DoraModel.Syntax.Core
/-! Helper lemmas for the parser core: counting invariant (`#Advance events + leading = token_idx`) and
balance of the event list (every `Close` has an open kind slot before it), for any client. -/
namespace Dora.Syntax
open TokenKind

/-- number of `Advance` events -/
def advCount : List Event → Nat
  | [] => 0
  | .advance :: es => advCount es + 1
  | _ :: es => advCount es

/-- Scan an event list as `build_tree` does, tracking only the stack depth `d`:
`Close` needs depth ≥ `c`, `Advance` needs depth ≥ `a`. -/
def scan (c a : Nat) : Nat → List Event → Option Nat
  | d, [] => some d
  | d, .open ks :: es => scan c a (d + ks.length) es
  | d, .advance :: es => if a ≤ d then scan c a d es else none
  | d, .close :: es => if c ≤ d then scan c a (d - 1) es else none

theorem advCount_append (a b : List Event) : advCount (a ++ b) = advCount a + advCount b := by
  induction a with
  | nil => simp [advCount]
  | cons e a ih => cases e <;> simp [advCount, ih] <;> omega

theorem advCount_replicate (k : Nat) : advCount (List.replicate k .advance) = k := by
  induction k with
  | zero => rfl
  | succ k ih => simp [List.replicate_succ, advCount, ih]

theorem scan_append (c a d : Nat) (x y : List Event) :
    scan c a d (x ++ y) = (scan c a d x).bind (fun d' => scan c a d' y) := by
  induction x generalizing d with
  | nil => simp [scan]
  | cons e x ih =>
    cases e with
    | «open» ks => simp [scan, ih]
    | advance => simp only [List.cons_append, scan]; split <;> simp [ih]
    | close => simp only [List.cons_append, scan]; split <;> simp [ih]

theorem scan_replicate_adv (c a d k : Nat) (h : a ≤ d) : scan c a d (List.replicate k .advance) = some d := by
  induction k with
  | zero => rfl
  | succ k ih => simp [List.replicate_succ, scan, h, ih]

/-- one more level below everything: all checks pass with thresholds raised by one -/
theorem scan_shift (c a d d' : Nat) (hc : 1 ≤ c) (es : List Event) (h : scan c a d es = some d') :
    scan (c + 1) (a + 1) (d + 1) es = some (d' + 1) := by
  induction es generalizing d with
  | nil => simp only [scan, Option.some.injEq] at h ⊢; omega
  | cons e es ih =>
    cases e with
    | «open» ks =>
      simp only [scan] at h ⊢
      have := ih _ h
      rwa [show d + 1 + ks.length = d + ks.length + 1 by omega]
    | advance =>
      simp only [scan] at h ⊢
      split at h
      · rename_i h1; simp only [Nat.add_le_add_iff_right, h1, if_true]; exact ih _ h
      · exact absurd h (by simp)
    | close =>
      simp only [scan] at h ⊢
      split at h
      · rename_i h1
        simp only [Nat.add_le_add_iff_right, h1, if_true]
        have := ih _ h
        rwa [show d + 1 - 1 = d - 1 + 1 by omega]
      · exact absurd h (by simp)

/-- a deeper stack passes the same checks -/
theorem scan_mono (c a d d' : Nat) (hc : 1 ≤ c) (es : List Event) (h : scan c a d es = some d') :
    scan c a (d + 1) es = some (d' + 1) := by
  induction es generalizing d with
  | nil => simp only [scan, Option.some.injEq] at h ⊢; omega
  | cons e es ih =>
    cases e with
    | «open» ks =>
      simp only [scan] at h ⊢
      have := ih _ h
      rwa [show d + 1 + ks.length = d + ks.length + 1 by omega]
    | advance =>
      simp only [scan] at h ⊢
      split at h
      · rename_i h1
        have : a ≤ d + 1 := by omega
        simp only [this, if_true]; exact ih _ h
      · exact absurd h (by simp)
    | close =>
      simp only [scan] at h ⊢
      split at h
      · rename_i h1
        have : c ≤ d + 1 := by omega
        simp only [this, if_true]
        have := ih _ h
        rwa [show d + 1 - 1 = d - 1 + 1 by omega]
      · exact absurd h (by simp)

/-- `close(m, kind)`: one more kind in the `Open` at index `m` lifts everything after it by one level -/
theorem scan_set_open (c a : Nat) (hc : 1 ≤ c) (es : List Event) (m : Nat) (ks : List TokenKind) (k : TokenKind)
    (d d' : Nat) (hm : es[m]? = some (.open ks)) (h : scan c a d es = some d') :
    scan c a d (es.set m (.open (ks ++ [k]))) = some (d' + 1) := by
  induction es generalizing m d with
  | nil => simp at hm
  | cons e es ih =>
    cases m with
    | zero =>
      simp only [List.getElem?_cons_zero, Option.some.injEq] at hm
      subst hm
      simp only [List.set_cons_zero, scan, List.length_append, List.length_singleton] at h ⊢
      have := scan_mono c a _ _ hc es h
      rwa [show d + (ks.length + 1) = d + ks.length + 1 by omega]
    | succ m =>
      simp only [List.getElem?_cons_succ] at hm
      simp only [List.set_cons_succ]
      cases e with
      | «open» ks' => simp only [scan] at h ⊢; exact ih m _ hm h
      | advance =>
        simp only [scan] at h ⊢
        split at h
        · rename_i h1; simp only [h1, if_true]; exact ih m _ hm h
        · exact absurd h (by simp)
      | close =>
        simp only [scan] at h ⊢
        split at h
        · rename_i h1; simp only [h1, if_true]; exact ih m _ hm h
        · exact absurd h (by simp)

theorem advCount_set_open (es : List Event) (m : Nat) (ks ks' : List TokenKind)
    (hm : es[m]? = some (.open ks)) : advCount (es.set m (.open ks')) = advCount es := by
  induction es generalizing m with
  | nil => simp at hm
  | cons e es ih =>
    cases m with
    | zero =>
      simp only [List.getElem?_cons_zero, Option.some.injEq] at hm
      subst hm
      simp [advCount]
    | succ m =>
      simp only [List.getElem?_cons_succ] at hm
      cases e <;> simp [advCount, ih m hm]

/-! ### the core operations keep the invariant -/

theorem pushAdvances_toList (evs : Array Event) (k : Nat) :
    (PState.pushAdvances evs k).toList = evs.toList ++ List.replicate k .advance := by
  induction k generalizing evs with
  | zero => simp [PState.pushAdvances]
  | succ k ih =>
    simp only [PState.pushAdvances, ih, Array.toList_push, List.replicate_succ, List.append_assoc,
      List.singleton_append]

/-- `kinds[n]` is the only `EOF` -/
def EofLast (kinds : Array TokenKind) (n : Nat) : Prop :=
  kinds[n]? = some EOF ∧ ∀ i, i < n → kinds[i]? ≠ some EOF ∧ kinds[i]? ≠ none

/-- invariant of every state the parser core can reach after `parse_file`'s first `open` -/
structure CInv (content : List Char) (kinds : Array TokenKind) (starts : Array Nat) (n : Nat) (σ : PState) : Prop where
  content_eq : σ.content = content
  toks : σ.tokens = kinds
  starts_eq : σ.starts = starts
  count : advCount σ.events.toList + σ.leading = σ.tokenIdx
  le : σ.tokenIdx ≤ n
  bal : scan 1 0 0 σ.events.toList = some 0
  root : σ.events.toList.head? = some (.open [])

variable {content : List Char} {kinds : Array TokenKind} {starts : Array Nat} {n : Nat}

theorem CInv.pushAdv {σ : PState} (h : CInv content kinds starts n σ) (k l : Nat)
    (hk : advCount σ.events.toList + k + l = σ.tokenIdx) :
    CInv content kinds starts n { σ with events := PState.pushAdvances σ.events k, leading := l } := by
  refine ⟨h.content_eq, h.toks, h.starts_eq, ?_, h.le, ?_, ?_⟩
  · simp only [pushAdvances_toList, advCount_append, advCount_replicate]; exact hk
  · simp only [pushAdvances_toList, scan_append, h.bal, Option.bind_some]
    exact scan_replicate_adv 1 0 0 k (Nat.zero_le _)
  · simp only [pushAdvances_toList]
    have := h.root
    cases hl : σ.events.toList with
    | nil => rw [hl] at this; simp at this
    | cons e es => rw [hl] at this; simpa using this

theorem current_eof_of_idx {σ : PState} (h : CInv content kinds starts n σ) (he : EofLast kinds n) :
    (σ.current = EOF ↔ σ.tokenIdx = n) := by
  unfold PState.current PState.nth
  rw [h.toks, Nat.add_zero]
  constructor
  · intro hc
    rcases Nat.lt_or_ge σ.tokenIdx n with hlt | hge
    · have := he.2 _ hlt
      cases hk : kinds[σ.tokenIdx]? with
      | none => exact absurd hk this.2
      | some k => rw [hk] at hc; simp only [Option.getD_some] at hc; subst hc; exact absurd hk this.1
    · have := h.le; omega
  · intro hi; rw [hi, he.1]; rfl

theorem rawAdvance_inv {σ σ' : PState} (b : Bool) (h : CInv content kinds starts n σ) (he : EofLast kinds n)
    (hr : σ.rawAdvance b = .ok σ') : CInv content kinds starts n σ' := by
  unfold PState.rawAdvance at hr
  split at hr
  · cases hr; exact h
  · rename_i hne
    have hlt : σ.tokenIdx < n := by
      have h1 := h.le
      have h2 := (current_eof_of_idx h he)
      rcases Nat.lt_or_ge σ.tokenIdx n with h' | h'
      · exact h'
      · have : σ.tokenIdx = n := by omega
        have := h2.mpr this
        simp [TokenKind.isEof, this] at hne
    split at hr
    · cases hr
    · dsimp only at hr
      split at hr
      · cases hr
        refine ⟨h.content_eq, h.toks, h.starts_eq, ?_, ?_, h.bal, h.root⟩
        · show advCount σ.events.toList + (σ.leading + 1) = σ.tokenIdx + 1
          have := h.count; omega
        · show σ.tokenIdx + 1 ≤ n
          omega
      · cases hr
        have h0 : CInv content kinds starts n { σ with tokenIdx := σ.tokenIdx + 1, leading := σ.leading + 1 } := by
          refine ⟨h.content_eq, h.toks, h.starts_eq, ?_, ?_, h.bal, h.root⟩
          · show advCount σ.events.toList + (σ.leading + 1) = σ.tokenIdx + 1
            have := h.count; omega
          · show σ.tokenIdx + 1 ≤ n
            omega
        exact CInv.pushAdv h0 (σ.leading + 1) 0 (by
          show advCount σ.events.toList + (σ.leading + 1) + 0 = σ.tokenIdx + 1
          have := h.count; omega)

theorem skipTriviaLoop_inv (fuel : Nat) {σ σ' : PState} (h : CInv content kinds starts n σ) (he : EofLast kinds n)
    (hr : PState.skipTriviaLoop fuel σ = .ok σ') : CInv content kinds starts n σ' := by
  induction fuel generalizing σ with
  | zero =>
    unfold PState.skipTriviaLoop at hr
    split at hr
    · cases hr
    · cases hr; exact h
  | succ fuel ih =>
    unfold PState.skipTriviaLoop at hr
    split at hr
    · dsimp only at hr
      split at hr
      · rename_i s1 h1
        exact ih (rawAdvance_inv true h he h1) hr
      · cases hr
    · cases hr; exact h

theorem advance_inv {σ σ' : PState} (h : CInv content kinds starts n σ) (he : EofLast kinds n)
    (hr : σ.advance = .ok σ') : CInv content kinds starts n σ' := by
  unfold PState.advance at hr
  split at hr
  · rename_i s1 h1
    exact skipTriviaLoop_inv _ (rawAdvance_inv false h he h1) he hr
  · cases hr

theorem allTrivia_inv {σ : PState} (h : CInv content kinds starts n σ) :
    CInv content kinds starts n σ.advanceByAllTrivia := by
  unfold PState.advanceByAllTrivia
  split
  · exact h.pushAdv _ _ (by have := h.count; omega)
  · exact h

theorem trailing_inv {σ σ' : PState} (h : CInv content kinds starts n σ)
    (hr : σ.advanceByTrailingTrivia = .ok σ') : CInv content kinds starts n σ' := by
  unfold PState.advanceByTrailingTrivia at hr
  split at hr
  · cases hr; exact h
  · split at hr
    · cases hr
    · split at hr
      · cases hr
      · rename_i emit _
        split at hr
        · cases hr
        · cases hr
          exact h.pushAdv _ _ (by have := h.count; omega)

theorem nonLeading_inv {σ σ' : PState} (h : CInv content kinds starts n σ)
    (hr : σ.advanceByNonLeadingTrivia = .ok σ') : CInv content kinds starts n σ' := by
  unfold PState.advanceByNonLeadingTrivia at hr
  split at hr
  · cases hr; exact h
  · split at hr
    · cases hr
    · rename_i lc _
      split at hr
      · cases hr
      · cases hr
        exact h.pushAdv _ _ (by have := h.count; omega)

theorem open_inv {σ : PState} (h : CInv content kinds starts n σ) : CInv content kinds starts n σ.open.1 := by
  refine ⟨h.content_eq, h.toks, h.starts_eq, ?_, h.le, ?_, ?_⟩
  · simp only [PState.open, Array.toList_push, advCount_append, advCount]; exact h.count
  · simp only [PState.open, Array.toList_push, scan_append, h.bal, Option.bind_some, scan, List.length_nil, Nat.add_zero]
  · simp only [PState.open, Array.toList_push]
    have := h.root
    cases hl : σ.events.toList with
    | nil => rw [hl] at this; simp at this
    | cons e es => rw [hl] at this; simpa using this

/-- the state between the two halves of `close`: kind recorded, trailing trivia advanced, `Close` not yet pushed:
the scan ends at depth 1 -/
theorem close_inv {σ σ' : PState} (m : Nat) (k : TokenKind) (hm : m ≠ 0) (h : CInv content kinds starts n σ)
    (hr : σ.close m k = .ok σ') : CInv content kinds starts n σ' := by
  unfold PState.close at hr
  split at hr
  · rename_i ks hget
    have hget' : σ.events.toList[m]? = some (.open ks) := by simpa using hget
    dsimp only at hr
    split at hr
    · cases hr
    · rename_i s1 h1
      cases hr
      -- the state after recording the kind (depth 1 at the end instead of 0)
      let σ1 : PState := { σ with events := σ.events.setIfInBounds m (.open (ks ++ [k])) }
      have hbal1 : scan 1 0 0 σ1.events.toList = some 1 := by
        simp only [σ1, Array.toList_setIfInBounds]
        exact scan_set_open 1 0 (Nat.le_refl _) _ m ks k 0 0 hget' h.bal
      have hcount1 : advCount σ1.events.toList + σ1.leading = σ1.tokenIdx := by
        simp only [σ1, Array.toList_setIfInBounds, advCount_set_open _ m ks _ hget']
        exact h.count
      have hroot1 : σ1.events.toList.head? = some (.open []) := by
        simp only [σ1, Array.toList_setIfInBounds]
        have := h.root
        cases hl : σ.events.toList with
        | nil => rw [hl] at this; simp at this
        | cons e es =>
          rw [hl] at this
          cases m with
          | zero => exact absurd rfl hm
          | succ m => simpa using this
      -- trailing trivia: only `Advance`s appended
      have key : ∀ s1, σ1.advanceByTrailingTrivia = .ok s1 →
          s1.content = content ∧ s1.tokens = kinds ∧ s1.starts = starts ∧ s1.tokenIdx ≤ n ∧
          advCount s1.events.toList + s1.leading = s1.tokenIdx ∧
          scan 1 0 0 s1.events.toList = some 1 ∧ s1.events.toList.head? = some (.open []) := by
        intro s1 hs1
        unfold PState.advanceByTrailingTrivia at hs1
        have base : σ1.content = content ∧ σ1.tokens = kinds ∧ σ1.starts = starts ∧ σ1.tokenIdx ≤ n :=
          ⟨h.content_eq, h.toks, h.starts_eq, h.le⟩
        split at hs1
        · cases hs1; exact ⟨base.1, base.2.1, base.2.2.1, base.2.2.2, hcount1, hbal1, hroot1⟩
        · split at hs1
          · cases hs1
          · split at hs1
            · cases hs1
            · rename_i emit _
              split at hs1
              · cases hs1
              · cases hs1
                refine ⟨base.1, base.2.1, base.2.2.1, base.2.2.2, ?_, ?_, ?_⟩
                · simp only [pushAdvances_toList, advCount_append, advCount_replicate]; omega
                · simp only [pushAdvances_toList, scan_append, hbal1, Option.bind_some]
                  exact scan_replicate_adv 1 0 1 emit (Nat.zero_le _)
                · simp only [pushAdvances_toList]
                  cases hl : σ1.events.toList with
                  | nil => rw [hl] at hroot1; simp at hroot1
                  | cons e es => rw [hl] at hroot1; simpa using hroot1
      obtain ⟨c1, c2, c3, c4, c5, c6, c7⟩ := key s1 h1
      refine ⟨c1, c2, c3, ?_, c4, ?_, ?_⟩
      · simp only [Array.toList_push, advCount_append, advCount]; exact c5
      · simp only [Array.toList_push, scan_append, c6, Option.bind_some, scan]; rfl
      · simp only [Array.toList_push]
        cases hl : s1.events.toList with
        | nil => rw [hl] at c7; simp at c7
        | cons e es => rw [hl] at c7; simpa using c7
  · cases hr

/-- a client op list never closes the root marker (it never gets it: `parse_file` keeps `m` to itself) -/
def ClientOk (ops : List Op) : Prop := ∀ m k, Op.close m k ∈ ops → m ≠ 0

theorem stepOp_inv {σ σ' : PState} (o : Op) (ho : ∀ m k, o = .close m k → m ≠ 0)
    (h : CInv content kinds starts n σ) (he : EofLast kinds n)
    (hr : stepOp σ o = .ok σ') : CInv content kinds starts n σ' := by
  cases o with
  | «open» => simp only [stepOp] at hr; cases hr; exact open_inv h
  | close m k => exact close_inv m k (ho m k rfl) h hr
  | advance => exact advance_inv h he hr
  | skipTrivia => exact skipTriviaLoop_inv _ h he hr
  | rawAdvance b => exact rawAdvance_inv b h he hr
  | advanceByAllTrivia => simp only [stepOp] at hr; cases hr; exact allTrivia_inv h
  | advanceByTrailingTrivia => exact trailing_inv h hr
  | advanceByNonLeadingTrivia => exact nonLeading_inv h hr

theorem runOps_inv {σ σ' : PState} (ops : List Op) (hc : ClientOk ops)
    (h : CInv content kinds starts n σ) (he : EofLast kinds n)
    (hr : runOps σ ops = .ok σ') : CInv content kinds starts n σ' := by
  induction ops generalizing σ with
  | nil => simp only [runOps] at hr; cases hr; exact h
  | cons o ops ih =>
    simp only [runOps] at hr
    split at hr
    · rename_i s1 h1
      exact ih (fun m k hm => hc m k (by simp [hm]))
        (stepOp_inv o (fun m k e => hc m k (by simp [e])) h he h1) hr
    · cases hr


/-! ### a balanced event list with enough tokens is accepted by the tree builder -/

theorem TokTable.slice_at {texts : List (List Char)} (hT : TokTable content kinds starts texts)
    (idx : Nat) (hlt : idx < texts.length) :
    sliceBytes content (utf8Len (texts.take idx).flatten)
      (if h : idx + 1 < starts.size then starts[idx + 1] else utf8Len content) = some texts[idx] := by
  have hstop : (if h : idx + 1 < starts.size then starts[idx + 1] else utf8Len content)
      = utf8Len (texts.take idx).flatten + utf8Len texts[idx] := by
    split
    · rename_i h1
      have h2 : idx + 1 < texts.length := by rwa [hT.size_starts] at h1
      have := hT.start_at (idx + 1) h2
      rw [Array.getElem?_eq_getElem h1] at this
      rw [Option.some.inj this, take_succ_flatten texts idx hlt, utf8Len_append]
    · rename_i h1
      have h2 : idx + 1 = texts.length := by rw [hT.size_starts] at h1; omega
      rw [← hT.flat]
      have : texts = texts.take (idx + 1) := by rw [h2]; simp
      conv => lhs; rw [this]
      rw [take_succ_flatten texts idx hlt, utf8Len_append]
  rw [hstop, ← hT.flat, flatten_split texts idx hlt]
  exact sliceBytes_mid _ _ _

theorem pushEmpty_length (ks : List TokenKind) (st : List NodeBuilder) :
    (ks.foldl (fun st k => ({ kind := k, children := [], textLen := 0 } : NodeBuilder) :: st) st).length
      = st.length + ks.length := by
  induction ks generalizing st with
  | nil => rfl
  | cons k ks ih => simp only [List.foldl_cons, ih, List.length_cons]; omega

theorem buildLoop_ok {texts : List (List Char)} (hT : TokTable content kinds starts texts)
    (es : List Event) (stack : List NodeBuilder) (idx d' : Nat)
    (hscan : scan 2 1 stack.length es = some d') (hadv : idx + advCount es ≤ texts.length) :
    ∃ st', buildLoop content kinds starts (stack, idx) es = some (st', idx + advCount es) ∧ st'.length = d' := by
  induction es generalizing stack idx with
  | nil =>
    simp only [scan, Option.some.injEq] at hscan
    exact ⟨stack, by simp [buildLoop, advCount], hscan⟩
  | cons e es ih =>
    cases e with
    | «open» ks =>
      simp only [scan] at hscan
      simp only [advCount] at hadv ⊢
      have := ih (ks.reverse.foldl (fun st k => ({ kind := k, children := [], textLen := 0 } : NodeBuilder) :: st) stack)
        idx (by rw [pushEmpty_length]; simpa using hscan) hadv
      obtain ⟨st', h1, h2⟩ := this
      exact ⟨st', by simp only [buildLoop, buildStep]; exact h1, h2⟩
    | advance =>
      simp only [scan] at hscan
      simp only [advCount] at hadv ⊢
      split at hscan
      · rename_i h1
        have hlt : idx < texts.length := by omega
        have hk : idx < kinds.size := by rw [hT.kinds_len]; omega
        cases stack with
        | nil => simp at h1
        | cons b rest =>
          have hstep : buildStep content kinds starts (b :: rest, idx) .advance
              = some ({ b with children := .token kinds[idx] texts[idx] :: b.children,
                               textLen := b.textLen + ((if h : idx + 1 < starts.size then starts[idx + 1] else utf8Len content)
                                 - utf8Len (texts.take idx).flatten) } :: rest, idx + 1) := by
            simp only [buildStep, Array.getElem?_eq_getElem hk, hT.start_at idx hlt, hT.slice_at idx hlt]
          have := ih ({ b with children := .token kinds[idx] texts[idx] :: b.children,
                               textLen := b.textLen + ((if h : idx + 1 < starts.size then starts[idx + 1] else utf8Len content)
                                 - utf8Len (texts.take idx).flatten) } :: rest) (idx + 1) (by simpa using hscan) (by omega)
          obtain ⟨st', h3, h4⟩ := this
          refine ⟨st', ?_, h4⟩
          simp only [buildLoop, hstep]
          rw [h3]
          congr 2
          omega
      · exact absurd hscan (by simp)
    | close =>
      simp only [scan] at hscan
      simp only [advCount] at hadv ⊢
      split at hscan
      · rename_i h1
        match stack, h1, hscan with
        | b :: p :: rest, _, hscan =>
          have := ih ({ p with children := buildGreenNode b :: p.children, textLen := p.textLen + (buildGreenNode b).len } :: rest)
            idx (by simpa using hscan) hadv
          obtain ⟨st', h3, h4⟩ := this
          exact ⟨st', by simp only [buildLoop, buildStep]; exact h3, h4⟩
        | [_], h1, _ => simp at h1
        | [], h1, _ => simp at h1
      · exact absurd hscan (by simp)

end Dora.Syntax
