import DoraModel.Syntax.CoreLemmas
/-! Lemmas for C06 about the parser core model (`Core.lean`):

* the core has exactly one failure mode, the named panic — the model's loop bounds (`outOfFuel`) are never
  hit, for ANY state (no invariant needed) and any operation;
* every core operation keeps the token table and never moves `token_idx` backwards; `advance` away from
  `EOF` moves it forward;
* a model of the `parse_comma_list_items` loop with its "callback must advance" assertion, and the
  progress lemma: the loop ends within `tokens.len()` iterations.
-/
namespace Dora.Syntax
open TokenKind

/-! ### no other failure mode than `panic` -/

theorem rawAdvance_not_fuel (s : PState) (b : Bool) : s.rawAdvance b ≠ .error .outOfFuel := by
  unfold PState.rawAdvance
  split
  · simp
  · split
    · simp
    · try dsimp only
      split <;> simp

/-- `tokens` is untouched and `token_idx` does not decrease -/
def Mono (s s' : PState) : Prop := s'.tokens = s.tokens ∧ s.tokenIdx ≤ s'.tokenIdx

theorem Mono.refl (s : PState) : Mono s s := ⟨rfl, Nat.le_refl _⟩
theorem Mono.trans {a b c : PState} (h1 : Mono a b) (h2 : Mono b c) : Mono a c :=
  ⟨h2.1.trans h1.1, Nat.le_trans h1.2 h2.2⟩

theorem rawAdvance_mono (s s' : PState) (b : Bool) (h : s.rawAdvance b = .ok s') : Mono s s' := by
  unfold PState.rawAdvance at h
  split at h
  · cases h; exact Mono.refl _
  · split at h
    · cases h
    · split at h <;> (cases h; exact ⟨rfl, Nat.le_succ _⟩)

/-- away from `EOF`, `raw_advance` consumes exactly one token -/
theorem rawAdvance_progress (s s' : PState) (b : Bool) (hne : s.current.isEof = false) (h : s.rawAdvance b = .ok s') :
    s'.tokenIdx = s.tokenIdx + 1 := by
  unfold PState.rawAdvance at h
  simp only [hne, Bool.false_eq_true, if_false] at h
  split at h
  · cases h
  · try dsimp only at h
    split at h <;> (cases h; rfl)

theorem current_of_ge (s : PState) (h : s.tokens.size ≤ s.tokenIdx) : s.current = EOF := by
  unfold PState.current PState.nth
  have : s.tokens[s.tokenIdx + 0]? = none := by
    rw [Array.getElem?_eq_none_iff]; omega
  rw [this]; rfl

theorem isTrivia_ne_eof (k : TokenKind) (h : k.isTrivia = true) : k.isEof = false := by
  cases k <;> simp_all [TokenKind.isTrivia, TokenKind.isEof]

theorem lt_size_of_trivia (s : PState) (h : s.current.isTrivia = true) : s.tokenIdx < s.tokens.size := by
  by_cases hlt : s.tokenIdx < s.tokens.size
  · exact hlt
  · have := current_of_ge s (by omega)
    rw [this] at h
    exact absurd h (by decide)

theorem skipTriviaLoop_not_fuel (fuel : Nat) (s : PState) (hf : s.tokens.size - s.tokenIdx ≤ fuel) :
    PState.skipTriviaLoop fuel s ≠ .error .outOfFuel := by
  induction fuel generalizing s with
  | zero =>
    unfold PState.skipTriviaLoop
    split
    · rename_i ht
      have := lt_size_of_trivia s ht
      omega
    · simp
  | succ fuel ih =>
    unfold PState.skipTriviaLoop
    split
    · rename_i ht
      try dsimp only
      cases hr : s.rawAdvance true with
      | error e =>
        intro h
        cases h
        exact rawAdvance_not_fuel s true hr
      | ok s' =>
        try dsimp only
        have hm := rawAdvance_mono s s' true hr
        have hp := rawAdvance_progress s s' true (isTrivia_ne_eof _ ht) hr
        exact ih s' (by rw [hm.1, hp]; omega)
    · simp

theorem skipTriviaLoop_mono (fuel : Nat) (s s' : PState) (h : PState.skipTriviaLoop fuel s = .ok s') : Mono s s' := by
  induction fuel generalizing s with
  | zero =>
    unfold PState.skipTriviaLoop at h
    split at h
    · cases h
    · cases h; exact Mono.refl _
  | succ fuel ih =>
    unfold PState.skipTriviaLoop at h
    split at h
    · try dsimp only at h
      cases hr : s.rawAdvance true with
      | error e => rw [hr] at h; cases h
      | ok s1 =>
        rw [hr] at h
        exact (rawAdvance_mono s s1 true hr).trans (ih s1 h)
    · cases h; exact Mono.refl _

theorem skipTrivia_not_fuel (s : PState) : s.skipTrivia ≠ .error .outOfFuel :=
  skipTriviaLoop_not_fuel s.tokens.size s (Nat.sub_le _ _)

theorem advance_not_fuel (s : PState) : s.advance ≠ .error .outOfFuel := by
  unfold PState.advance
  cases hr : s.rawAdvance false with
  | error e => intro h; cases h; exact rawAdvance_not_fuel s false hr
  | ok s' => exact skipTrivia_not_fuel s'

theorem advance_mono (s s' : PState) (h : s.advance = .ok s') : Mono s s' := by
  unfold PState.advance at h
  cases hr : s.rawAdvance false with
  | error e => rw [hr] at h; cases h
  | ok s1 =>
    rw [hr] at h
    exact (rawAdvance_mono s s1 false hr).trans (skipTriviaLoop_mono _ s1 s' h)

/-- `advance` away from `EOF` consumes at least one token -/
theorem advance_progress (s s' : PState) (hne : s.isEof = false) (h : s.advance = .ok s') :
    s.tokenIdx < s'.tokenIdx := by
  unfold PState.advance at h
  cases hr : s.rawAdvance false with
  | error e => rw [hr] at h; cases h
  | ok s1 =>
    rw [hr] at h
    have h1 := rawAdvance_progress s s1 false (by simpa [PState.isEof, TokenKind.isEof] using hne) hr
    have h2 := skipTriviaLoop_mono _ s1 s' h
    have := h2.2
    omega

theorem trailingLoop_not_fuel (s : PState) (i0 n idx m : Nat) : s.trailingLoop i0 n idx m ≠ .error .outOfFuel := by
  induction n generalizing idx m with
  | zero => unfold PState.trailingLoop; simp
  | succ n ih =>
    unfold PState.trailingLoop
    try dsimp only
    split
    · simp
    · repeat' split
      all_goals first
        | exact ih _ _
        | simp

theorem trailing_not_fuel (s : PState) : s.advanceByTrailingTrivia ≠ .error .outOfFuel := by
  unfold PState.advanceByTrailingTrivia
  split
  · simp
  · split
    · simp
    · cases hr : s.trailingLoop (s.tokenIdx - s.leading) s.leading (s.tokenIdx - s.leading) 0 with
      | error e => intro h; cases h; exact trailingLoop_not_fuel s _ _ _ _ hr
      | ok emit => try dsimp only; split <;> simp

theorem trailing_mono (s s' : PState) (h : s.advanceByTrailingTrivia = .ok s') : Mono s s' := by
  unfold PState.advanceByTrailingTrivia at h
  split at h
  · cases h; exact Mono.refl _
  · split at h
    · cases h
    · split at h
      · cases h
      · try dsimp only at h
        split at h
        · cases h
        · cases h; exact ⟨rfl, Nat.le_refl _⟩

theorem nonLeadingLoop_not_fuel (s : PState) (fuel nl : Nat) (e : Bool) (lc last : Nat) (hf : s.leading - lc < fuel) :
    s.nonLeadingLoop fuel nl e lc last ≠ .error .outOfFuel := by
  induction fuel generalizing nl e lc last with
  | zero => omega
  | succ n ih =>
    unfold PState.nonLeadingLoop
    split
    · simp
    · rename_i hlt
      have hlt' : lc < s.leading := by simpa using hlt
      split
      · simp
      · split
        · simp
        · repeat' split
          all_goals first
            | exact ih _ _ _ _ (by omega)
            | simp

theorem nonLeading_not_fuel (s : PState) : s.advanceByNonLeadingTrivia ≠ .error .outOfFuel := by
  unfold PState.advanceByNonLeadingTrivia
  split
  · simp
  · cases hr : s.nonLeadingLoop (s.leading + 1) 0 true 0 0 with
    | error e => intro h; cases h; exact nonLeadingLoop_not_fuel s _ _ _ _ _ (by omega) hr
    | ok lc => try dsimp only; split <;> simp

theorem nonLeading_mono (s s' : PState) (h : s.advanceByNonLeadingTrivia = .ok s') : Mono s s' := by
  unfold PState.advanceByNonLeadingTrivia at h
  split at h
  · cases h; exact Mono.refl _
  · split at h
    · cases h
    · try dsimp only at h
      split at h
      · cases h
      · cases h; exact ⟨rfl, Nat.le_refl _⟩

theorem close_not_fuel (s : PState) (m : Nat) (k : TokenKind) : s.close m k ≠ .error .outOfFuel := by
  unfold PState.close
  split
  · try dsimp only
    split
    · rename_i e hr
      intro h; cases h
      exact trailing_not_fuel _ hr
    · simp
  · simp

theorem close_mono (s s' : PState) (m : Nat) (k : TokenKind) (h : s.close m k = .ok s') : Mono s s' := by
  unfold PState.close at h
  split at h
  · try dsimp only at h
    split at h
    · cases h
    · rename_i s1 hr
      cases h
      have := trailing_mono _ s1 hr
      exact ⟨this.1, this.2⟩
  · cases h

theorem allTrivia_mono (s : PState) : Mono s s.advanceByAllTrivia := by
  unfold PState.advanceByAllTrivia
  split
  · exact ⟨rfl, Nat.le_refl _⟩
  · exact Mono.refl s

/-- every core operation: never `outOfFuel` -/
theorem stepOp_not_fuel (s : PState) (o : Op) : stepOp s o ≠ .error .outOfFuel := by
  cases o with
  | «open» => simp [stepOp]
  | close m k => exact close_not_fuel s m k
  | advance => exact advance_not_fuel s
  | skipTrivia => exact skipTrivia_not_fuel s
  | rawAdvance b => exact rawAdvance_not_fuel s b
  | advanceByAllTrivia => simp [stepOp]
  | advanceByTrailingTrivia => exact trailing_not_fuel s
  | advanceByNonLeadingTrivia => exact nonLeading_not_fuel s

theorem stepOp_mono (s s' : PState) (o : Op) (h : stepOp s o = .ok s') : Mono s s' := by
  cases o with
  | «open» => simp only [stepOp, Except.ok.injEq] at h; subst h; exact ⟨rfl, Nat.le_refl _⟩
  | close m k => exact close_mono s s' m k h
  | advance => exact advance_mono s s' h
  | skipTrivia => exact skipTriviaLoop_mono _ s s' h
  | rawAdvance b => exact rawAdvance_mono s s' b h
  | advanceByAllTrivia => simp only [stepOp, Except.ok.injEq] at h; subst h; exact allTrivia_mono s
  | advanceByTrailingTrivia => exact trailing_mono s s' h
  | advanceByNonLeadingTrivia => exact nonLeading_mono s s' h

theorem runOps_not_fuel (s : PState) (ops : List Op) : runOps s ops ≠ .error .outOfFuel := by
  induction ops generalizing s with
  | nil => simp [runOps]
  | cons o os ih =>
    unfold runOps
    cases hr : stepOp s o with
    | error e => intro h; cases h; exact stepOp_not_fuel s o hr
    | ok s' => exact ih s'

theorem runOps_mono (s s' : PState) (ops : List Op) (h : runOps s ops = .ok s') : Mono s s' := by
  induction ops generalizing s with
  | nil => simp only [runOps, Except.ok.injEq] at h; subst h; exact Mono.refl s
  | cons o os ih =>
    unfold runOps at h
    cases hr : stepOp s o with
    | error e => rw [hr] at h; cases h
    | ok s1 => rw [hr] at h; exact (stepOp_mono s s1 o hr).trans (ih s1 h)

/-! ### the comma-list loop and its progress guard -/

/-- `Parser::expect(COMMA)` restricted to the core state: `eat` = `advance` if the current token is a comma,
otherwise an error is reported (no effect on the core state). -/
def expectComma (s : PState) : CoreM PState := if s.current = COMMA then s.advance else .ok s

/-- the part of one iteration after the callback returned `ret` in state `s2` (`s1` = state at
`pos_before_element`): `none` = `break`.  `assert!(self.token_idx > pos_before_element)` is the `panic` exit. -/
def afterItem (recovery : PState → Bool) (s1 s2 : PState) (ret : Bool) : CoreM (Option PState) :=
  if ret then
    if s2.tokenIdx > s1.tokenIdx then .ok (some s2) else .error .panic
  else if recovery s2 then .ok none
  else
    match s2.advance with
    | .ok s3 => .ok (some s3)
    | .error e => .error e

/-- the end of one iteration: `if !self.is(stop) { self.expect(COMMA) }; self.close(m_item, LIST_ITEM)`, then
the next iteration (`loop`) -/
def commaListTail (stop : TokenKind) (loop : PState → CoreM PState) (mItem : Nat) (s3 : PState) : CoreM PState :=
  match (if s3.current = stop then .ok s3 else expectComma s3) with
  | .error e => .error e
  | .ok s4 =>
    match s4.close mItem LIST_ITEM with
    | .error e => .error e
    | .ok s5 => loop s5

/-- `Parser::parse_comma_list_items`: `parse` is the callback — an arbitrary, adaptively chosen sequence of core
operations, returning the Rust `bool`; `recovery` is `self.is_set(recovery_set)`.  `fuel` bounds the iterations. -/
def commaListLoop (stop : TokenKind) (recovery : PState → Bool) (parse : PState → CoreM (PState × Bool)) :
    Nat → PState → CoreM PState
  | fuel, s =>
    if s.current = stop ∨ s.isEof = true then .ok s
    else
      match fuel with
      | 0 => .error .outOfFuel
      | fuel + 1 =>
        match parse s.open.1 with
        | .error e => .error e
        | .ok (s2, ret) =>
          match afterItem recovery s.open.1 s2 ret with
          | .error e => .error e
          | .ok none => .ok s2
          | .ok (some s3) => commaListTail stop (commaListLoop stop recovery parse fuel) s.open.2 s3

/-- what the callback may do: run core operations (hence `Mono`), and fail only by panicking -/
def ClientFn (parse : PState → CoreM (PState × Bool)) : Prop :=
  (∀ s s' b, parse s = .ok (s', b) → Mono s s') ∧ ∀ s, parse s ≠ .error .outOfFuel

theorem lt_size_of_not_eof (s : PState) (h : s.isEof = false) : s.tokenIdx < s.tokens.size := by
  by_cases hlt : s.tokenIdx < s.tokens.size
  · exact hlt
  · have := current_of_ge s (by omega)
    simp [PState.isEof, this] at h

theorem expectComma_mono (s s' : PState) (h : expectComma s = .ok s') : Mono s s' := by
  unfold expectComma at h
  split at h
  · exact advance_mono s s' h
  · cases h; exact Mono.refl _

theorem expectComma_not_fuel (s : PState) : expectComma s ≠ .error .outOfFuel := by
  unfold expectComma
  split
  · exact advance_not_fuel s
  · simp

/-! ### generic token loop -/

/-- `while cond(self) && !self.is_eof() { body(self) }` — the shape of every loop of the grammar
(`parse_file`, `parse_element_list`, `parse_block`, `parse_match`, modifier lists, …); `fuel` bounds the iterations. -/
def tokenLoop (cond : PState → Bool) (body : PState → CoreM PState) : Nat → PState → CoreM PState
  | fuel, s =>
    if cond s = false ∨ s.isEof = true then .ok s
    else
      match fuel with
      | 0 => .error .outOfFuel
      | fuel + 1 =>
        match body s with
        | .error e => .error e
        | .ok s' => tokenLoop cond body fuel s'

/-- a loop whose body consumes at least one token per iteration ends within `tokens.len() - token_idx`
iterations: it returns, or the body panicked. -/
theorem tokenLoop_not_fuel (cond : PState → Bool) (body : PState → CoreM PState)
    (hb : ∀ s s', s.isEof = false → body s = .ok s' → s'.tokens = s.tokens ∧ s.tokenIdx < s'.tokenIdx)
    (hf : ∀ s, body s ≠ .error .outOfFuel) (fuel : Nat) (s : PState) (hfuel : s.tokens.size - s.tokenIdx ≤ fuel) :
    tokenLoop cond body fuel s ≠ .error .outOfFuel := by
  induction fuel generalizing s with
  | zero =>
    unfold tokenLoop
    split
    · simp
    · rename_i hc
      have he : s.isEof = false := by
        cases h : s.isEof with
        | true => exact absurd (Or.inr h) hc
        | false => rfl
      have := lt_size_of_not_eof s he
      omega
  | succ fuel ih =>
    unfold tokenLoop
    split
    · simp
    · rename_i hc
      have he : s.isEof = false := by
        cases h : s.isEof with
        | true => exact absurd (Or.inr h) hc
        | false => rfl
      have hlt := lt_size_of_not_eof s he
      dsimp only
      cases hbody : body s with
      | error e => dsimp only; intro h; cases h; exact hf s hbody
      | ok s' =>
        dsimp only
        obtain ⟨h1, h2⟩ := hb s s' he hbody
        apply ih
        rw [h1]
        omega

theorem afterItem_spec (recovery : PState → Bool) (s1 s2 : PState) (ret : Bool) (h12 : s1.tokenIdx ≤ s2.tokenIdx) :
    afterItem recovery s1 s2 ret ≠ .error .outOfFuel ∧
    ∀ s3, afterItem recovery s1 s2 ret = .ok (some s3) →
      Mono s2 s3 ∧ (s1.tokenIdx < s3.tokenIdx ∨ s2.isEof = true) := by
  unfold afterItem
  cases ret with
  | true =>
    simp only [if_true]
    by_cases hadv : s2.tokenIdx > s1.tokenIdx
    · simp only [hadv, if_true]
      refine ⟨by simp, ?_⟩
      intro s3 h
      cases h
      exact ⟨Mono.refl _, Or.inl hadv⟩
    · simp only [hadv, if_false]
      exact ⟨by simp, by intro s3 h; cases h⟩
  | false =>
    simp only [Bool.false_eq_true, if_false]
    cases hrec : recovery s2 with
    | true => simp
    | false =>
      simp only [Bool.false_eq_true, if_false]
      cases hadv : s2.advance with
      | error e =>
        refine ⟨?_, by intro s3 h; cases h⟩
        intro h; cases h; exact advance_not_fuel s2 hadv
      | ok s3 =>
        refine ⟨by simp, ?_⟩
        intro s3' h
        cases h
        refine ⟨advance_mono s2 s3 hadv, ?_⟩
        cases he2 : s2.isEof with
        | true => exact Or.inr rfl
        | false => exact Or.inl (Nat.lt_of_le_of_lt h12 (advance_progress s2 s3 he2 hadv))

theorem commaListTail_not_fuel (stop : TokenKind) (loop : PState → CoreM PState) (mItem : Nat) (s3 : PState)
    (hl : ∀ s5, Mono s3 s5 → loop s5 ≠ .error .outOfFuel) :
    commaListTail stop loop mItem s3 ≠ .error .outOfFuel := by
  unfold commaListTail
  cases hcomma : (if s3.current = stop then Except.ok s3 else expectComma s3) with
  | error e =>
    intro h; cases h
    split at hcomma
    · cases hcomma
    · exact expectComma_not_fuel s3 hcomma
  | ok s4 =>
    have hm4 : Mono s3 s4 := by
      split at hcomma
      · cases hcomma; exact Mono.refl _
      · exact expectComma_mono s3 s4 hcomma
    dsimp only
    cases hclose : s4.close mItem LIST_ITEM with
    | error e => dsimp only; intro h; cases h; exact close_not_fuel _ _ _ hclose
    | ok s5 => dsimp only; exact hl s5 (hm4.trans (close_mono s4 s5 _ _ hclose))

/-- the token table ends in its only `EOF` (what the lexer produces: `C16.lex_partition`) -/
def EofOnlyLast (tokens : Array TokenKind) : Prop := ∀ i, tokens[i]? = some EOF → i + 1 = tokens.size

theorem isEof_of_mono {s s' : PState} (hE : EofOnlyLast s.tokens) (hm : Mono s s') (h : s.isEof = true) :
    s'.isEof = true := by
  by_cases hge : s'.tokens.size ≤ s'.tokenIdx
  · simp [PState.isEof, current_of_ge s' hge]
  · have hlt : s'.tokenIdx < s.tokens.size := by rw [← hm.1]; omega
    have hle := hm.2
    have hidx : s.tokenIdx < s.tokens.size := by omega
    have hcur : s.tokens[s.tokenIdx]? = some EOF := by
      simp only [PState.isEof, PState.current, PState.nth, Nat.add_zero, beq_iff_eq] at h
      rw [Array.getElem?_eq_getElem hidx] at h ⊢
      simpa using h
    have hlast := hE _ hcur
    have heq : s'.tokenIdx = s.tokenIdx := by omega
    simp only [PState.isEof, PState.current, PState.nth, Nat.add_zero, beq_iff_eq] at h ⊢
    rw [hm.1, heq]
    exact h

/-- The progress guard works: with a callback that only runs core operations, the loop never needs more
than `tokens.len() - token_idx` iterations — it returns or ends in the named panic. -/
theorem commaListLoop_not_fuel (stop : TokenKind) (recovery : PState → Bool) (parse : PState → CoreM (PState × Bool))
    (hp : ClientFn parse) (fuel : Nat) (s : PState) (hE : EofOnlyLast s.tokens)
    (hf : s.tokens.size - s.tokenIdx ≤ fuel) :
    commaListLoop stop recovery parse fuel s ≠ .error .outOfFuel := by
  induction fuel generalizing s with
  | zero =>
    unfold commaListLoop
    split
    · simp
    · rename_i hc
      have he : s.isEof = false := by
        cases h : s.isEof with
        | true => exact absurd (Or.inr h) hc
        | false => rfl
      have := lt_size_of_not_eof s he
      omega
  | succ fuel ih =>
    unfold commaListLoop
    split
    · simp
    · rename_i hc
      have he : s.isEof = false := by
        cases h : s.isEof with
        | true => exact absurd (Or.inr h) hc
        | false => rfl
      have hlt := lt_size_of_not_eof s he
      try dsimp only
      cases hparse : parse s.open.1 with
      | error e =>
        intro h; cases h
        exact hp.2 _ hparse
      | ok p =>
        obtain ⟨s2, ret⟩ := p
        have hm2 : Mono s s2 := (show Mono s s.open.1 from ⟨rfl, Nat.le_refl _⟩).trans (hp.1 _ _ _ hparse)
        try dsimp only
        have hspec := afterItem_spec recovery s.open.1 s2 ret (hp.1 _ _ _ hparse).2
        cases hai : afterItem recovery s.open.1 s2 ret with
        | error e => intro h; cases h; exact hspec.1 hai
        | ok r =>
          cases r with
          | none => simp
          | some s3 =>
            try dsimp only
            obtain ⟨hm3, hprog⟩ := hspec.2 s3 hai
            apply commaListTail_not_fuel
            intro s5 hm5
            have hm := (hm2.trans hm3).trans hm5
            rcases hprog with hprog | heof
            · apply ih _ (by rw [hm.1]; exact hE)
              have h5 := hm5.2
              have : s.tokenIdx < s3.tokenIdx := hprog
              rw [hm.1]
              omega
            · -- the callback had reached EOF: the next test ends the loop
              have : s5.isEof = true := isEof_of_mono (by rw [hm2.1]; exact hE) (hm3.trans hm5) heof
              unfold commaListLoop
              simp [this]

end Dora.Syntax
