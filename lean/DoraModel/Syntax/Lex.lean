import DoraModel.Syntax.TokenKind
/-!
# The lexer of dora-parser (`/repo/dora-parser/src/lexer.rs`), transcribed function by function

Text is `List Char` (Lean `Char` = Unicode scalar value = Rust `char`); offsets are UTF-8 byte offsets
(`Char.utf8Size` = `char::len_utf8`).  The lexer state is the Rust `Lexer` struct with
`content[offset..]` kept as the list of remaining characters `rest`.
Every `expect`/`unwrap`/`assert!`/`unreachable!` of the Rust code is a `none` here.

Not modelled: `offset()`'s `try_into::<u32>().expect("overflow")` — offsets are `Nat`; the statements are
about texts shorter than 2^32 bytes.
-/
namespace Dora.Syntax
open TokenKind

/-- UTF-8 byte length of a text (`str::len`). -/
def utf8Len : List Char → Nat
  | [] => 0
  | c :: cs => c.utf8Size + utf8Len cs

/-- the lexer variants of `ParseError` (error.rs) -/
inductive LexErr where
  | unknownChar (c : Char)
  | unclosedComment
  | unclosedString
  | unclosedChar
  deriving DecidableEq, Repr

/-- `ParseErrorWithLocation` restricted to lexer errors: `Span { start, len }` + error -/
structure LexError where
  start : Nat
  len : Nat
  err : LexErr
  deriving DecidableEq, Repr

/-- `struct Lexer`: `rest` = `content[offset..]`; `errors` newest first; `openBraces` top first. -/
structure LState where
  rest : List Char
  offset : Nat
  errors : List LexError
  openBraces : List Nat
  deriving Repr

namespace LState

/-- `Lexer::curr` -/
def curr (s : LState) : Option Char := s.rest.head?

/-- `Lexer::lookahead` -/
def lookahead (s : LState) : Option Char :=
  match s.rest with
  | _ :: c :: _ => some c
  | _ => none

/-- `Lexer::eat_char` (the returned char is `curr` before the call) -/
def eatChar (s : LState) : LState :=
  match s.rest with
  | [] => s
  | c :: r => { s with rest := r, offset := s.offset + c.utf8Size }

/-- `Lexer::span_from` + `report_error_at`: `Span::new(start, self.offset() - start)` -/
def reportFrom (s : LState) (e : LexErr) (start : Nat) : LState :=
  { s with errors := { start := start, len := s.offset - start, err := e } :: s.errors }

/-- move the cursor (result of one of the loops below) -/
def setCursor (s : LState) (p : List Char × Nat) : LState :=
  { s with rest := p.1, offset := p.2 }

end LState

/-! ### character classes (free functions at the end of lexer.rs) -/

/-- `char::to_digit(radix)` -/
def toDigit (c : Char) (radix : Nat) : Option Nat :=
  let v : Option Nat :=
    if '0' ≤ c ∧ c ≤ '9' then some (c.toNat - 48)
    else if 'a' ≤ c ∧ c ≤ 'z' then some (c.toNat - 97 + 10)
    else if 'A' ≤ c ∧ c ≤ 'Z' then some (c.toNat - 65 + 10)
    else none
  match v with
  | some d => if d < radix then some d else none
  | none => none

/-- `char::is_digit(radix)` -/
def charIsDigit (c : Char) (radix : Nat) : Bool := (toDigit c radix).isSome

/-- `char::is_whitespace`: the Unicode `White_Space` property (Rust std contract, trusted). -/
def charIsWhitespace (c : Char) : Bool :=
  let n := c.toNat
  (9 ≤ n && n ≤ 13) || n == 0x20 || n == 0x85 || n == 0xA0 || n == 0x1680 ||
  (0x2000 ≤ n && n ≤ 0x200A) || n == 0x2028 || n == 0x2029 || n == 0x202F || n == 0x205F || n == 0x3000

/-- `is_digit` -/
def isDigit (ch : Option Char) : Bool :=
  match ch with
  | some c => charIsDigit c 10
  | none => false

def charIsDigitOrUnderscore (base : Nat) (c : Char) : Bool := charIsDigit c base || c == '_'

/-- `is_digit_or_underscore` -/
def isDigitOrUnderscore (ch : Option Char) (base : Nat) : Bool :=
  match ch with
  | some c => charIsDigitOrUnderscore base c
  | none => false

def charIsWs (c : Char) : Bool := charIsWhitespace c && c != '\n' && c != '\r'

/-- `is_whitespace` -/
def isWhitespace (ch : Option Char) : Bool :=
  match ch with
  | some c => charIsWs c
  | none => false

def charIsNewline (c : Char) : Bool := c == '\n' || c == '\r'

/-- `is_newline` -/
def isNewline (ch : Option Char) : Bool :=
  match ch with
  | some c => charIsNewline c
  | none => false

/-- `is_quote` -/
def isQuote (ch : Option Char) : Bool := ch == some '"'

/-- `is_char_quote` -/
def isCharQuote (ch : Option Char) : Bool := ch == some '\''

/-- `is_operator` -/
def isOperator (ch : Option Char) : Bool :=
  match ch with
  | some c => operatorChars.contains c
  | none => false

def charIsIdentStart (c : Char) : Bool := ('a' ≤ c && c ≤ 'z') || ('A' ≤ c && c ≤ 'Z') || c == '_'

/-- `is_identifier_start` -/
def isIdentifierStart (ch : Option Char) : Bool :=
  match ch with
  | some c => charIsIdentStart c
  | none => false

def charIsIdent (c : Char) : Bool := charIsIdentStart c || charIsDigit c 10

/-- `is_identifier` -/
def isIdentifier (ch : Option Char) : Bool := isIdentifierStart ch || isDigit ch

/-! ### loops — each `while … { self.eat_char() }` of the Rust code, by structural recursion on `rest` -/

/-- `while p(self.curr()) { self.eat_char(); }` -/
def eatWhile (p : Char → Bool) : List Char → Nat → List Char × Nat
  | [], off => ([], off)
  | c :: r, off => if p c then eatWhile p r (off + c.utf8Size) else (c :: r, off)

/-- `while !self.curr().is_none() && !self.is_multi_comment_end() { self.eat_char(); }` -/
def commentLoop : List Char → Nat → List Char × Nat
  | [], off => ([], off)
  | c :: r, off =>
    if c == '*' && r.head? == some '/' then (c :: r, off) else commentLoop r (off + c.utf8Size)

/-- `while self.curr().is_some() && !is_char_quote(self.curr()) { self.read_escaped_char(); }`
with `read_escaped_char` = `if self.eat_char() == Some('\\') { self.eat_char(); }`.
The flag says "inside `read_escaped_char`, after a backslash: eat the next char whatever it is". -/
def charLoop : Bool → List Char → Nat → List Char × Nat
  | _, [], off => ([], off)
  | true, c :: r, off => charLoop false r (off + c.utf8Size)
  | false, c :: r, off =>
    if c == '\'' then (c :: r, off)
    else charLoop (c == '\\') r (off + c.utf8Size)

/-- how the loop of `read_string` ends: at `${` (both eaten), or with `curr` = `"` / at end of text -/
inductive StrExit where
  | template
  | stop
  deriving DecidableEq, Repr

/-- the `while` loop of `read_string` (incl. the early `return TEMPLATE_LITERAL`); flag as in `charLoop` -/
def stringLoop : Bool → List Char → Nat → StrExit × List Char × Nat
  | _, [], off => (.stop, [], off)
  | true, c :: r, off => stringLoop false r (off + c.utf8Size)
  | false, c :: r, off =>
    if c == '"' then (.stop, c :: r, off)
    else if c == '$' && r.head? == some '{' then (.template, r.tail, off + c.utf8Size + '{'.utf8Size)
    else stringLoop (c == '\\') r (off + c.utf8Size)

/-! ### the `read_*` methods -/

abbrev Tok := TokenKind × LState

/-- `read_unknown_char` -/
def readUnknownChar (s : LState) : Option Tok :=
  let start := s.offset
  match s.curr with
  | none => none                       -- `expect("missing char")`
  | some ch =>
    let s := s.eatChar
    some (UNKNOWN, s.reportFrom (.unknownChar ch) start)

/-- `read_white_space` -/
def readWhiteSpace (s : LState) : Tok :=
  (WHITESPACE, s.setCursor (eatWhile charIsWs s.rest s.offset))

/-- `read_newline` -/
def readNewline (s : LState) : Tok :=
  if s.curr == some '\r' then
    let s := s.eatChar
    if s.curr == some '\n' then (NEWLINE, s.eatChar) else (NEWLINE, s)
  else if s.curr == some '\n' then (NEWLINE, s.eatChar)
  else (NEWLINE, s)

/-- `read_line_comment` -/
def readLineComment (s : LState) : Tok :=
  (LINE_COMMENT, s.setCursor (eatWhile (fun c => !charIsNewline c) s.rest s.offset))

/-- `read_multiline_comment` -/
def readMultilineComment (s : LState) : Tok :=
  let start := s.offset
  let s := s.eatChar.eatChar
  let s := s.setCursor (commentLoop s.rest s.offset)
  let s := if s.curr.isNone then s.reportFrom .unclosedComment start else s
  (MULTILINE_COMMENT, s.eatChar.eatChar)

/-- `read_identifier_as_string`: the characters eaten and the new state -/
def readIdentifierAsString (s : LState) : List Char × LState :=
  (s.rest.takeWhile charIsIdent, s.setCursor (eatWhile charIsIdent s.rest s.offset))

/-- `read_identifier` -/
def readIdentifier (s : LState) : Tok :=
  let (value, s) := readIdentifierAsString s
  match keywordTable.lookup value with
  | some k => (k, s)
  | none => if value == ['_'] then (UNDERSCORE, s) else (IDENTIFIER, s)

/-- `read_char_literal` -/
def readCharLiteral (s : LState) : Tok :=
  let start := s.offset
  let s := s.eatChar
  let s := s.setCursor (charLoop false s.rest s.offset)
  if isCharQuote s.curr then (CHAR_LITERAL, s.eatChar)
  else (CHAR_LITERAL, s.reportFrom .unclosedChar start)

/-- `read_string` after its prologue: the loop, the closing quote or the error; `start` = start of the span -/
def readStringBody (start : Nat) (s : LState) (continuation : Bool) : Tok :=
  match stringLoop false s.rest s.offset with
  | (.template, r, off) =>
    (TEMPLATE_LITERAL, { s.setCursor (r, off) with openBraces := 1 :: s.openBraces })
  | (.stop, r, off) =>
    let s := s.setCursor (r, off)
    let s := if isQuote s.curr then s.eatChar else s.reportFrom .unclosedString start
    (if continuation then TEMPLATE_END_LITERAL else STRING_LITERAL, s)

/-- `read_string(continuation)` -/
def readString (s : LState) (continuation : Bool) : Option Tok :=
  if continuation then
    -- `start -= '}'.len_utf8() as u32` (u32 underflow panics in the pinned debug profile)
    if 1 ≤ s.offset then some (readStringBody (s.offset - 1) s true) else none
  else if s.curr == some '"' then some (readStringBody s.offset s.eatChar false)   -- `assert_eq!(self.curr(), Some('"'))`
  else none

/-! `read_operator`: one helper per arm of its `match ch` (the state is the one after the first `eat_char`;
`nch`/`nnch` are `self.curr()` / `self.lookahead()` at that point, `'x'` when absent) -/

/-- arms `X` / `X=`  (`+ * / % ^`) -/
def opEq (s : LState) (nch : Char) (plain withEq : TokenKind) : Tok :=
  if nch == '=' then (withEq, s.eatChar) else (plain, s)

/-- arms `X` / `X=` / `XY` (`- | & :`-like: a second alternative character) -/
def opEq2 (s : LState) (nch : Char) (plain withEq : TokenKind) (c2 : Char) (with2 : TokenKind) : Tok :=
  if nch == '=' then (withEq, s.eatChar) else if nch == c2 then (with2, s.eatChar) else (plain, s)

/-- arm `:` -/
def opColon (s : LState) (nch : Char) : Tok :=
  if nch == ':' then (COLON_COLON, s.eatChar) else (COLON, s)

/-- arm `.` -/
def opDot (s : LState) (nch nnch : Char) : Tok :=
  if nch == '.' then
    let s := s.eatChar
    if nnch == '.' then (DOT_DOT_DOT, s.eatChar) else (DOT_DOT, s)
  else (DOT, s)

/-- arm `=` -/
def opAssign (s : LState) (nch nnch : Char) : Tok :=
  if nch == '=' then
    let s := s.eatChar
    if nnch == '=' then (EQ_EQ_EQ, s.eatChar) else (EQ_EQ, s)
  else if nch == '>' then (DOUBLE_ARROW, s.eatChar)
  else (EQ, s)

/-- arm `<` -/
def opLt (s : LState) (nch nnch : Char) : Tok :=
  if nch == '=' then (LE, s.eatChar)
  else if nch == '<' then
    let s := s.eatChar
    if nnch == '=' then (LT_LT_EQ, s.eatChar) else (LT_LT, s)
  else (LT, s)

/-- arm `>` -/
def opGt (s : LState) (nch nnch : Char) : Tok :=
  if nch == '=' then (GE, s.eatChar)
  else if nch == '>' then
    let s := s.eatChar
    if nnch == '=' then (GT_GT_EQ, s.eatChar)
    else if nnch == '>' then
      let s := s.eatChar
      let n := s.curr.getD 'x'
      if n == '=' then (GT_GT_GT_EQ, s.eatChar) else (GT_GT_GT, s)
    else (GT_GT, s)
  else (GT, s)

/-- arm `!` -/
def opNot (s : LState) (nch nnch : Char) : Tok :=
  if nch == '=' then
    let s := s.eatChar
    if nnch == '=' then (NOT_EQ_EQ, s.eatChar) else (NOT_EQ, s)
  else (NOT, s)

/-- arm `{` -/
def opLBrace (s : LState) : Tok :=
  match s.openBraces with
  | top :: more => (L_BRACE, { s with openBraces := (top + 1) :: more })
  | [] => (L_BRACE, s)

/-- arm `}` -/
def opRBrace (s : LState) : Option Tok :=
  match s.openBraces with
  | top :: more =>
    if top = 0 then none              -- `*open_braces_top -= 1` on 0usize
    else if top - 1 = 0 then readString { s with openBraces := more } true
    else some (R_BRACE, { s with openBraces := (top - 1) :: more })
  | [] => some (R_BRACE, s)

/-- the `match ch { … }` of `read_operator` -/
def opDispatch (s : LState) (ch nch nnch : Char) : Option Tok :=
  if ch == '+' then some (opEq s nch ADD ADD_EQ)
  else if ch == '-' then some (opEq2 s nch SUB SUB_EQ '>' ARROW)
  else if ch == '*' then some (opEq s nch MUL MUL_EQ)
  else if ch == '/' then some (opEq s nch DIV DIV_EQ)
  else if ch == '%' then some (opEq s nch MODULO MOD_EQ)
  else if ch == '(' then some (L_PAREN, s)
  else if ch == ')' then some (R_PAREN, s)
  else if ch == '[' then some (L_BRACKET, s)
  else if ch == ']' then some (R_BRACKET, s)
  else if ch == '{' then some (opLBrace s)
  else if ch == '}' then opRBrace s
  else if ch == '|' then some (opEq2 s nch OR OR_EQ '|' OR_OR)
  else if ch == '&' then some (opEq2 s nch AND AND_EQ '&' AND_AND)
  else if ch == '^' then some (opEq s nch CARET CARET_EQ)
  else if ch == ',' then some (COMMA, s)
  else if ch == ';' then some (SEMICOLON, s)
  else if ch == ':' then some (opColon s nch)
  else if ch == '.' then some (opDot s nch nnch)
  else if ch == '=' then some (opAssign s nch nnch)
  else if ch == '<' then some (opLt s nch nnch)
  else if ch == '>' then some (opGt s nch nnch)
  else if ch == '!' then some (opNot s nch nnch)
  else if ch == '@' then some (AT, s)
  else none                            -- `unreachable!()`

/-- `read_operator` -/
def readOperator (s : LState) : Option Tok :=
  match s.curr with
  | none => none                        -- `self.curr().unwrap()`
  | some ch =>
    let s := s.eatChar
    let nch := s.curr.getD 'x'
    let nnch := s.lookahead.getD 'x'
    opDispatch s ch nch nnch

/-- `read_digits` -/
def readDigits (s : LState) (base : Nat) : LState :=
  s.setCursor (eatWhile (charIsDigitOrUnderscore base) s.rest s.offset)

/-- `read_number_as_float` -/
def readNumberAsFloat (s : LState) : Tok :=
  let s := s.eatChar
  let s := readDigits s 10
  let s :=
    if s.curr == some 'e' || s.curr == some 'E' then
      let s := s.eatChar
      let s := if s.curr == some '+' || s.curr == some '-' then s.eatChar else s
      readDigits s 10
    else s
  let s := if isIdentifierStart s.curr then (readIdentifierAsString s).2 else s
  (FLOAT_LITERAL, s)

/-- `read_number`, first statement: the base and the state after an `0x` / `0b` prefix -/
def readNumberBase (s : LState) : Nat × LState :=
  if s.curr == some '0' then
    match s.lookahead with
    | some 'x' => (16, s.eatChar.eatChar)
    | some 'b' => (2, s.eatChar.eatChar)
    | _ => (10, s)
  else (10, s)

/-- `read_number` after `read_digits(base)` -/
def readNumberTail (base : Nat) (s : LState) : Tok :=
  if base == 10 && s.curr == some '.' && isDigit s.lookahead then readNumberAsFloat s
  else
    let s := if isIdentifierStart s.curr then (readIdentifierAsString s).2 else s
    (INT_LITERAL, s)

/-- `read_number` -/
def readNumber (s : LState) : Tok :=
  let p := readNumberBase s
  readNumberTail p.1 (readDigits p.2 p.1)

/-- `is_line_comment` -/
def isLineComment (s : LState) : Bool := s.curr == some '/' && s.lookahead == some '/'
/-- `is_multiline_comment` -/
def isMultilineComment (s : LState) : Bool := s.curr == some '/' && s.lookahead == some '*'

/-- `read_token` -/
def readToken (s : LState) : Option Tok :=
  match s.curr with
  | none => none                         -- `expect("end of file reached")`
  | some c =>
    let ch := some c
    if isNewline ch then some (readNewline s)
    else if isWhitespace ch then some (readWhiteSpace s)
    else if isDigit ch then some (readNumber s)
    else if isLineComment s then some (readLineComment s)
    else if isMultilineComment s then some (readMultilineComment s)
    else if isIdentifierStart ch then some (readIdentifier s)
    else if isQuote ch then readString s false
    else if isCharQuote ch then some (readCharLiteral s)
    else if isOperator ch then readOperator s
    else readUnknownChar s

/-- `LexerResult` (errors in report order) -/
structure LexResult where
  kinds : List TokenKind
  starts : List Nat
  errors : List LexError
  deriving Repr

/-- why `lex` did not return: a Rust panic, or the model's loop bound was hit
(`lex_total` in Props/C16 shows that neither ever happens) -/
inductive LexFail where
  | panic
  | outOfFuel
  deriving DecidableEq, Repr

/-- the `while !lexer.is_eof()` loop of `lex`; `ks`/`ss` are the `tokens`/`starts` vectors, newest first.
`fuel` bounds the number of iterations (one token eats at least one character). -/
def lexLoop : Nat → LState → List TokenKind → List Nat → Except LexFail (LState × List TokenKind × List Nat)
  | fuel, s, ks, ss =>
    if s.rest.isEmpty then .ok (s, ks, ss)
    else
      match fuel with
      | 0 => .error .outOfFuel
      | fuel + 1 =>
        match readToken s with
        | none => .error .panic
        | some (k, s') =>
          if k.toNat < EOF.toNat then lexLoop fuel s' (k :: ks) (s.offset :: ss)   -- `assert!(token < TokenKind::EOF)`
          else .error .panic

/-- `Lexer::new` -/
def LState.init (cs : List Char) : LState := { rest := cs, offset := 0, errors := [], openBraces := [] }

/-- `pub fn lex(content: &str) -> LexerResult` -/
def lex (cs : List Char) : Except LexFail LexResult :=
  match lexLoop cs.length (LState.init cs) [] [] with
  | .error e => .error e
  | .ok (s, ks, ss) => .ok { kinds := (EOF :: ks).reverse, starts := ss.reverse, errors := s.errors.reverse }

end Dora.Syntax
