import DoraModel.Syntax.Lex
/-! Helper lemmas for the lexer model: every `read_*` moves the cursor forward over a prefix of the
remaining text, adds the byte length of exactly that prefix to `offset`, and `read_token` eats ≥ 1 char. -/
namespace Dora.Syntax

theorem utf8Len_append (a b : List Char) : utf8Len (a ++ b) = utf8Len a + utf8Len b := by
  induction a with
  | nil => simp [utf8Len]
  | cons c a ih => simp [utf8Len, ih, Nat.add_assoc]

theorem utf8Size_pos (c : Char) : 0 < c.utf8Size := Char.utf8Size_pos c

theorem utf8Len_pos_of_ne_nil {a : List Char} (h : a ≠ []) : 0 < utf8Len a := by
  cases a with
  | nil => exact absurd rfl h
  | cons c a => simp only [utf8Len]; have := utf8Size_pos c; omega

/-- a cursor: remaining text and byte offset -/
abbrev Cur := List Char × Nat

/-- `q` is reached from `p` by eating the prefix `pre` -/
def Ext (p q : Cur) : Prop := ∃ pre, p.1 = pre ++ q.1 ∧ q.2 = p.2 + utf8Len pre

/-- … and `pre` is not empty -/
def Ext1 (p q : Cur) : Prop := ∃ pre, pre ≠ [] ∧ p.1 = pre ++ q.1 ∧ q.2 = p.2 + utf8Len pre

theorem Ext.refl (p : Cur) : Ext p p := ⟨[], by simp, by simp [utf8Len]⟩

theorem Ext.trans {p q r : Cur} (h1 : Ext p q) (h2 : Ext q r) : Ext p r := by
  obtain ⟨a, ha, hb⟩ := h1
  obtain ⟨c, hc, hd⟩ := h2
  exact ⟨a ++ c, by rw [ha, hc, List.append_assoc], by rw [hd, hb, utf8Len_append, Nat.add_assoc]⟩

theorem Ext1.ext {p q : Cur} (h : Ext1 p q) : Ext p q := by
  obtain ⟨a, _, h1, h2⟩ := h; exact ⟨a, h1, h2⟩

theorem Ext1.trans_ext {p q r : Cur} (h1 : Ext1 p q) (h2 : Ext q r) : Ext1 p r := by
  obtain ⟨a, hne, ha, hb⟩ := h1
  obtain ⟨c, hc, hd⟩ := h2
  exact ⟨a ++ c, by simp [hne], by rw [ha, hc, List.append_assoc], by rw [hd, hb, utf8Len_append, Nat.add_assoc]⟩

theorem Ext.trans_ext1 {p q r : Cur} (h1 : Ext p q) (h2 : Ext1 q r) : Ext1 p r := by
  obtain ⟨a, ha, hb⟩ := h1
  obtain ⟨c, hne, hc, hd⟩ := h2
  exact ⟨a ++ c, by simp [hne], by rw [ha, hc, List.append_assoc], by rw [hd, hb, utf8Len_append, Nat.add_assoc]⟩

theorem Ext.cons (c : Char) (r : List Char) (o : Nat) : Ext1 (c :: r, o) (r, o + c.utf8Size) :=
  ⟨[c], by simp, by simp, by simp [utf8Len]⟩

theorem Ext.offset_le {p q : Cur} (h : Ext p q) : p.2 ≤ q.2 := by
  obtain ⟨a, _, hb⟩ := h; omega

theorem Ext.inv {p q : Cur} (h : Ext p q) : q.2 + utf8Len q.1 = p.2 + utf8Len p.1 := by
  obtain ⟨a, ha, hb⟩ := h; rw [ha, hb, utf8Len_append]; omega

/-- the cursor of a lexer state -/
def LState.cur (s : LState) : Cur := (s.rest, s.offset)

/-- `eat_char` on a cursor -/
def eatCur : Cur → Cur
  | ([], o) => ([], o)
  | (c :: r, o) => (r, o + c.utf8Size)

@[simp] theorem cur_eatChar (s : LState) : s.eatChar.cur = eatCur s.cur := by
  obtain ⟨r, o, e, b⟩ := s
  cases r <;> rfl

@[simp] theorem cur_reportFrom (s : LState) (e : LexErr) (st : Nat) : (s.reportFrom e st).cur = s.cur := rfl
@[simp] theorem cur_setCursor (s : LState) (p : Cur) : (s.setCursor p).cur = p := rfl
@[simp] theorem cur_withBraces (s : LState) (b : List Nat) : ({ s with openBraces := b } : LState).cur = s.cur := rfl

theorem Ext.eat (p : Cur) : Ext p (eatCur p) := by
  obtain ⟨r, o⟩ := p
  cases r with
  | nil => exact Ext.refl _
  | cons c r => exact (Ext.cons c r o).ext

theorem Ext.then_eat {p q : Cur} (h : Ext p q) : Ext p (eatCur q) := h.trans (Ext.eat q)

theorem Ext1.eat_cons (c : Char) (r : List Char) (o : Nat) : Ext1 (c :: r, o) (eatCur (c :: r, o)) :=
  Ext.cons c r o

theorem eatWhile_ext (p : Char → Bool) (r : List Char) (o : Nat) : Ext (r, o) (eatWhile p r o) := by
  induction r generalizing o with
  | nil => exact Ext.refl _
  | cons c r ih =>
    unfold eatWhile
    split
    · exact (Ext.cons c r o).ext.trans (ih _)
    · exact Ext.refl _

theorem eatWhile_ext1 (p : Char → Bool) (c : Char) (r : List Char) (o : Nat) (h : p c = true) :
    Ext1 (c :: r, o) (eatWhile p (c :: r) o) := by
  unfold eatWhile
  simp only [h, if_true]
  exact (Ext.cons c r o).trans_ext (eatWhile_ext p r _)

theorem commentLoop_ext (r : List Char) (o : Nat) : Ext (r, o) (commentLoop r o) := by
  induction r generalizing o with
  | nil => exact Ext.refl _
  | cons c r ih =>
    unfold commentLoop
    split
    · exact Ext.refl _
    · exact (Ext.cons c r o).ext.trans (ih _)

theorem charLoop_ext (b : Bool) (r : List Char) (o : Nat) : Ext (r, o) (charLoop b r o) := by
  induction r generalizing o b with
  | nil => cases b <;> exact Ext.refl _
  | cons c r ih =>
    cases b
    · unfold charLoop
      split
      · exact Ext.refl _
      · exact (Ext.cons c r o).ext.trans (ih _ _)
    · unfold charLoop
      exact (Ext.cons c r o).ext.trans (ih _ _)

theorem stringLoop_ext (b : Bool) (r : List Char) (o : Nat) :
    Ext (r, o) ((stringLoop b r o).2) := by
  induction r generalizing o b with
  | nil => cases b <;> exact Ext.refl _
  | cons c r ih =>
    cases b
    · unfold stringLoop
      split
      · exact Ext.refl _
      · split
        · rename_i hq
          -- `${`: two characters eaten
          cases r with
          | nil => simp at hq
          | cons d r' =>
            simp only [List.head?_cons, Option.some.injEq, Bool.and_eq_true, beq_iff_eq] at hq
            obtain ⟨_, hd⟩ := hq
            subst hd
            exact (Ext.cons c _ o).ext.trans (Ext.cons '{' r' _).ext
        · exact (Ext.cons c r o).ext.trans (ih _ _)
    · unfold stringLoop
      exact (Ext.cons c r o).ext.trans (ih _ _)


/-! ### states: cursor moves forward, new errors lie inside the text of `T` bytes -/

@[simp] theorem errors_eatChar (s : LState) : s.eatChar.errors = s.errors := by
  obtain ⟨r, o, e, b⟩ := s
  cases r <;> rfl
@[simp] theorem errors_setCursor (s : LState) (p : Cur) : (s.setCursor p).errors = s.errors := rfl
@[simp] theorem braces_eatChar (s : LState) : s.eatChar.openBraces = s.openBraces := by
  obtain ⟨r, o, e, b⟩ := s
  cases r <;> rfl

/-- `offset + len(rest) = T`: the cursor is a position inside a text of `T` bytes -/
def Inv (T : Nat) (s : LState) : Prop := s.offset + utf8Len s.rest = T

def ErrNew (T : Nat) (s s' : LState) : Prop := ∀ e ∈ s'.errors, e ∈ s.errors ∨ e.start + e.len ≤ T

def Good (T : Nat) (s s' : LState) : Prop := Ext s.cur s'.cur ∧ ErrNew T s s'

theorem Good.refl (T : Nat) (s : LState) : Good T s s := ⟨Ext.refl _, fun _ h => Or.inl h⟩

theorem Good.trans {T : Nat} {a b c : LState} (h1 : Good T a b) (h2 : Good T b c) : Good T a c := by
  refine ⟨h1.1.trans h2.1, fun e he => ?_⟩
  rcases h2.2 e he with h | h
  · exact h1.2 e h
  · exact Or.inr h

theorem Good.of_ext {T : Nat} {s s' : LState} (h : Ext s.cur s'.cur) (he : s'.errors = s.errors) : Good T s s' :=
  ⟨h, fun e hm => Or.inl (he ▸ hm)⟩

theorem Good.eat (T : Nat) (s : LState) : Good T s s.eatChar :=
  Good.of_ext (by rw [cur_eatChar]; exact Ext.eat _) (errors_eatChar s)

theorem Good.setCursor {T : Nat} (s : LState) {p : Cur} (h : Ext s.cur p) : Good T s (s.setCursor p) :=
  Good.of_ext h rfl

theorem Inv.of_ext {T : Nat} {s s' : LState} (hi : Inv T s) (h : Ext s.cur s'.cur) : Inv T s' := by
  have := h.inv
  simp only [LState.cur] at this
  unfold Inv at *
  omega

theorem Inv.of_good {T : Nat} {s s' : LState} (hi : Inv T s) (h : Good T s s') : Inv T s' := hi.of_ext h.1

theorem Good.report {T : Nat} (s : LState) (e : LexErr) (start : Nat) (hi : Inv T s) (hs : start ≤ T) :
    Good T s (s.reportFrom e start) := by
  refine ⟨Ext.refl _, fun x hx => ?_⟩
  simp only [LState.reportFrom, List.mem_cons] at hx
  rcases hx with rfl | hx
  · right
    unfold Inv at hi
    simp only
    omega
  · exact Or.inl hx

theorem Inv.offset_le {T : Nat} {s : LState} (hi : Inv T s) : s.offset ≤ T := by unfold Inv at hi; omega

/-- strict progress on states -/
def Good1 (T : Nat) (s s' : LState) : Prop := Ext1 s.cur s'.cur ∧ ErrNew T s s'

theorem Good1.good {T : Nat} {s s' : LState} (h : Good1 T s s') : Good T s s' := ⟨h.1.ext, h.2⟩

theorem Good1.trans_good {T : Nat} {a b c : LState} (h1 : Good1 T a b) (h2 : Good T b c) : Good1 T a c :=
  ⟨h1.1.trans_ext h2.1, (Good.trans h1.good h2).2⟩

theorem Good.trans_good1 {T : Nat} {a b c : LState} (h1 : Good T a b) (h2 : Good1 T b c) : Good1 T a c :=
  ⟨h1.1.trans_ext1 h2.1, (Good.trans h1 h2.good).2⟩

theorem Good1.eat {T : Nat} (s : LState) (c : Char) (h : s.curr = some c) : Good1 T s s.eatChar := by
  refine ⟨?_, (Good.eat T s).2⟩
  obtain ⟨r, o, e, b⟩ := s
  cases r with
  | nil => simp [LState.curr] at h
  | cons d r => exact Ext.cons d r o

/-! ### the `read_*` functions -/

theorem readWhiteSpace_good (T : Nat) (s : LState) : Good T s (readWhiteSpace s).2 :=
  Good.setCursor s (eatWhile_ext _ _ _)

theorem readLineComment_good (T : Nat) (s : LState) : Good T s (readLineComment s).2 :=
  Good.setCursor s (eatWhile_ext _ _ _)

theorem readDigits_good (T : Nat) (s : LState) (b : Nat) : Good T s (readDigits s b) :=
  Good.setCursor s (eatWhile_ext _ _ _)

theorem readIdentifierAsString_good (T : Nat) (s : LState) : Good T s (readIdentifierAsString s).2 :=
  Good.setCursor s (eatWhile_ext _ _ _)

theorem readNewline_good (T : Nat) (s : LState) : Good T s (readNewline s).2 := by
  unfold readNewline
  split
  · dsimp only
    split
    · exact (Good.eat T s).trans (Good.eat T _)
    · exact Good.eat T s
  · split
    · exact Good.eat T s
    · exact Good.refl T s

theorem readIdentifier_good (T : Nat) (s : LState) : Good T s (readIdentifier s).2 := by
  unfold readIdentifier
  simp only
  split
  · exact readIdentifierAsString_good T s
  · split <;> exact readIdentifierAsString_good T s

theorem readMultilineComment_good (T : Nat) (s : LState) (hi : Inv T s) : Good T s (readMultilineComment s).2 := by
  unfold readMultilineComment
  simp only
  have h1 : Good T s s.eatChar.eatChar := (Good.eat T s).trans (Good.eat T _)
  have h2 : Good T s.eatChar.eatChar (s.eatChar.eatChar.setCursor (commentLoop s.eatChar.eatChar.rest s.eatChar.eatChar.offset)) :=
    Good.setCursor _ (commentLoop_ext _ _)
  have h12 := h1.trans h2
  have hi2 := hi.of_good h12
  split
  · exact (h12.trans (Good.report _ _ _ hi2 hi.offset_le)).trans ((Good.eat T _).trans (Good.eat T _))
  · exact h12.trans ((Good.eat T _).trans (Good.eat T _))

theorem readCharLiteral_good (T : Nat) (s : LState) (hi : Inv T s) : Good T s (readCharLiteral s).2 := by
  unfold readCharLiteral
  simp only
  have h1 : Good T s s.eatChar := Good.eat T s
  have h2 : Good T s.eatChar (s.eatChar.setCursor (charLoop false s.eatChar.rest s.eatChar.offset)) :=
    Good.setCursor _ (charLoop_ext _ _ _)
  have h12 := h1.trans h2
  have hi2 := hi.of_good h12
  split
  · exact h12.trans (Good.eat T _)
  · exact h12.trans (Good.report _ _ _ hi2 hi.offset_le)

theorem readStringBody_good (T : Nat) (start : Nat) (s : LState) (c : Bool) (hi : Inv T s) (hstart : start ≤ T) :
    Good T s (readStringBody start s c).2 := by
  unfold readStringBody
  have hloop := stringLoop_ext false s.rest s.offset
  split
  · rename_i r off heq
    rw [heq] at hloop
    exact Good.of_ext hloop rfl
  · rename_i r off heq
    rw [heq] at hloop
    have g2 : Good T s (s.setCursor (r, off)) := Good.setCursor _ hloop
    have hi2 := hi.of_good g2
    dsimp only
    split
    · exact g2.trans (Good.eat T _)
    · exact g2.trans (Good.report _ _ _ hi2 hstart)

theorem tok_eq {x : Tok} {k : TokenKind} {s' : LState} (h : some x = some (k, s')) : s' = x.2 := by
  cases h; rfl

theorem readString_good (T : Nat) (s : LState) (c : Bool) (hi : Inv T s) (k : TokenKind) (s' : LState)
    (h : readString s c = some (k, s')) : Good T s s' := by
  unfold readString at h
  split at h
  · split at h
    · rw [tok_eq h]
      exact readStringBody_good T _ s true hi (by have := hi.offset_le; omega)
    · exact absurd h (by simp)
  · split at h
    · rw [tok_eq h]
      exact (Good.eat T s).trans (readStringBody_good T _ _ false (hi.of_good (Good.eat T s)) hi.offset_le)
    · exact absurd h (by simp)

theorem readString_false_good1 (T : Nat) (s : LState) (hi : Inv T s) (k : TokenKind) (s' : LState)
    (h : readString s false = some (k, s')) : Good1 T s s' := by
  unfold readString at h
  simp only [Bool.false_eq_true, if_false] at h
  split at h
  · rename_i hq
    rw [tok_eq h]
    have hc : s.curr = some '"' := by simpa using hq
    have g1 : Good1 T s s.eatChar := Good1.eat s _ hc
    exact g1.trans_good (readStringBody_good T _ _ false (hi.of_good g1.good) hi.offset_le)
  · exact absurd h (by simp)

theorem Good.then_eat {T : Nat} {s x : LState} (h : Good T s x) : Good T s x.eatChar := h.trans (Good.eat T x)
theorem Good.then_digits {T : Nat} {s x : LState} {b : Nat} (h : Good T s x) : Good T s (readDigits x b) :=
  h.trans (readDigits_good T x b)
theorem Good.then_ident {T : Nat} {s x : LState} (h : Good T s x) : Good T s (readIdentifierAsString x).2 :=
  h.trans (readIdentifierAsString_good T x)
theorem Good.then_braces {T : Nat} {s x : LState} {b : List Nat} (h : Good T s x) :
    Good T s { x with openBraces := b } := h.trans (Good.of_ext (Ext.refl _) rfl)

/-- closes goals `Good T s (… x.eatChar …)` built from `eatChar`, `readDigits`, `readIdentifierAsString` -/
macro "good_chain" : tactic =>
  `(tactic| repeat (first
      | exact Good.refl _ _
      | assumption
      | apply Good.then_eat
      | apply Good.then_digits
      | apply Good.then_ident
      | apply Good.then_braces))

theorem readNumberAsFloat_good (T : Nat) (s x : LState) (h : Good T s x) : Good T s (readNumberAsFloat x).2 := by
  unfold readNumberAsFloat
  dsimp only
  repeat' split
  all_goals good_chain

theorem readNumberTail_good (T : Nat) (s x : LState) (b : Nat) (h : Good T s x) : Good T s (readNumberTail b x).2 := by
  unfold readNumberTail
  split
  · exact readNumberAsFloat_good T s x h
  · dsimp only
    split <;> good_chain

theorem setCursor_eatWhile_good1 (T : Nat) (s : LState) (p : Char → Bool) (c : Char) (hc : s.curr = some c)
    (hp : p c = true) : Good1 T s (s.setCursor (eatWhile p s.rest s.offset)) := by
  refine ⟨?_, (Good.setCursor (T := T) s (eatWhile_ext p s.rest s.offset)).2⟩
  obtain ⟨r, o, e, b⟩ := s
  cases r with
  | nil => simp [LState.curr] at hc
  | cons d r =>
    simp only [LState.curr, List.head?_cons, Option.some.injEq] at hc
    subst hc
    exact eatWhile_ext1 p d r o hp

theorem readNumber_good1 (T : Nat) (s : LState) (c : Char) (hc : s.curr = some c) (hd : charIsDigit c 10 = true) :
    Good1 T s (readNumber s).2 := by
  unfold readNumber
  dsimp only
  apply Good1.trans_good _ (readNumberTail_good T _ _ _ (Good.refl T _))
  unfold readNumberBase
  split
  · split
    · exact (Good1.eat s c hc).trans_good (by good_chain)
    · exact (Good1.eat s c hc).trans_good (by good_chain)
    · exact setCursor_eatWhile_good1 T s _ c hc (by simp [charIsDigitOrUnderscore, hd])
  · exact setCursor_eatWhile_good1 T s _ c hc (by simp [charIsDigitOrUnderscore, hd])

theorem readNewline_good1 (T : Nat) (s : LState) (c : Char) (hc : s.curr = some c) (hn : charIsNewline c = true) :
    Good1 T s (readNewline s).2 := by
  unfold readNewline
  split
  · dsimp only
    split
    · exact (Good1.eat s c hc).trans_good (Good.eat T _)
    · exact Good1.eat s c hc
  · split
    · exact Good1.eat s c hc
    · rename_i h1 h2
      rw [hc] at h1 h2
      simp only [charIsNewline, Bool.or_eq_true, beq_iff_eq] at hn
      rcases hn with rfl | rfl
      · simp at h2
      · simp at h1

theorem readWhiteSpace_good1 (T : Nat) (s : LState) (c : Char) (hc : s.curr = some c) (hw : charIsWs c = true) :
    Good1 T s (readWhiteSpace s).2 := setCursor_eatWhile_good1 T s _ c hc hw

theorem readLineComment_good1 (T : Nat) (s : LState) (h : isLineComment s = true) :
    Good1 T s (readLineComment s).2 := by
  have hc : s.curr = some '/' := by
    simp only [isLineComment, Bool.and_eq_true, beq_iff_eq] at h
    exact h.1
  exact setCursor_eatWhile_good1 T s _ '/' hc (by decide)

theorem readIdentifier_good1 (T : Nat) (s : LState) (c : Char) (hc : s.curr = some c) (hi : charIsIdentStart c = true) :
    Good1 T s (readIdentifier s).2 := by
  have h1 : Good1 T s (readIdentifierAsString s).2 :=
    setCursor_eatWhile_good1 T s _ c hc (by simp [charIsIdent, hi])
  unfold readIdentifier
  simp only
  split
  · exact h1
  · split <;> exact h1

theorem readMultilineComment_good1 (T : Nat) (s : LState) (c : Char) (hc : s.curr = some c) (hi : Inv T s) :
    Good1 T s (readMultilineComment s).2 := by
  unfold readMultilineComment
  simp only
  have h1 : Good1 T s s.eatChar.eatChar := (Good1.eat s c hc).trans_good (Good.eat T _)
  have h2 : Good T s.eatChar.eatChar (s.eatChar.eatChar.setCursor (commentLoop s.eatChar.eatChar.rest s.eatChar.eatChar.offset)) :=
    Good.setCursor _ (commentLoop_ext _ _)
  have h12 := h1.trans_good h2
  have hi2 := hi.of_good h12.good
  split
  · exact (h12.trans_good (Good.report _ _ _ hi2 hi.offset_le)).trans_good ((Good.eat T _).trans (Good.eat T _))
  · exact h12.trans_good ((Good.eat T _).trans (Good.eat T _))

theorem readCharLiteral_good1 (T : Nat) (s : LState) (c : Char) (hc : s.curr = some c) (hi : Inv T s) :
    Good1 T s (readCharLiteral s).2 := by
  unfold readCharLiteral
  simp only
  have h1 : Good1 T s s.eatChar := Good1.eat s c hc
  have h2 : Good T s.eatChar (s.eatChar.setCursor (charLoop false s.eatChar.rest s.eatChar.offset)) :=
    Good.setCursor _ (charLoop_ext _ _ _)
  have h12 := h1.trans_good h2
  have hi2 := hi.of_good h12.good
  split
  · exact h12.trans_good (Good.eat T _)
  · exact h12.trans_good (Good.report _ _ _ hi2 hi.offset_le)

theorem Inv.withBraces {T : Nat} {s : LState} (b : List Nat) (hi : Inv T s) : Inv T { s with openBraces := b } := hi

theorem opEq_good (T : Nat) (s : LState) (n : Char) (a b : TokenKind) : Good T s (opEq s n a b).2 := by
  unfold opEq; split <;> (dsimp only; good_chain)
theorem opEq2_good (T : Nat) (s : LState) (n : Char) (a b : TokenKind) (c : Char) (d : TokenKind) :
    Good T s (opEq2 s n a b c d).2 := by
  unfold opEq2; repeat' split
  all_goals (dsimp only; good_chain)
theorem opColon_good (T : Nat) (s : LState) (n : Char) : Good T s (opColon s n).2 := by
  unfold opColon; split <;> (dsimp only; good_chain)
theorem opDot_good (T : Nat) (s : LState) (n m : Char) : Good T s (opDot s n m).2 := by
  unfold opDot; dsimp only; repeat' split
  all_goals (dsimp only; good_chain)
theorem opAssign_good (T : Nat) (s : LState) (n m : Char) : Good T s (opAssign s n m).2 := by
  unfold opAssign; dsimp only; repeat' split
  all_goals (dsimp only; good_chain)
theorem opLt_good (T : Nat) (s : LState) (n m : Char) : Good T s (opLt s n m).2 := by
  unfold opLt; dsimp only; repeat' split
  all_goals (dsimp only; good_chain)
theorem opGt_good (T : Nat) (s : LState) (n m : Char) : Good T s (opGt s n m).2 := by
  unfold opGt; dsimp only; repeat' split
  all_goals (dsimp only; good_chain)
theorem opNot_good (T : Nat) (s : LState) (n m : Char) : Good T s (opNot s n m).2 := by
  unfold opNot; dsimp only; repeat' split
  all_goals (dsimp only; good_chain)
theorem opLBrace_good (T : Nat) (s : LState) : Good T s (opLBrace s).2 := by
  unfold opLBrace; split <;> (dsimp only; good_chain)

theorem opRBrace_good (T : Nat) (s : LState) (hi : Inv T s) (k : TokenKind) (s' : LState)
    (h : opRBrace s = some (k, s')) : Good T s s' := by
  unfold opRBrace at h
  split at h
  · split at h
    · exact absurd h (by simp)
    · split at h
      · exact (Good.then_braces (Good.refl T s)).trans (readString_good T _ true (hi.withBraces _) k s' h)
      · cases h; good_chain
  · cases h; good_chain

/-- "whatever token this returns, the state has moved forward correctly" -/
def PG (T : Nat) (s : LState) (x : Option Tok) : Prop := ∀ k s', x = some (k, s') → Good T s s'

theorem PG.ite {T : Nat} {s : LState} {c : Prop} [Decidable c] {a b : Option Tok}
    (ha : PG T s a) (hb : PG T s b) : PG T s (if c then a else b) := by
  split <;> assumption
theorem PG.some {T : Nat} {s : LState} {x : Tok} (h : Good T s x.2) : PG T s (some x) := by
  intro k s' e; cases e; exact h
theorem PG.none {T : Nat} {s : LState} : PG T s none := by
  intro k s' e; cases e

attribute [local irreducible] opEq opEq2 opColon opDot opAssign opLt opGt opNot opLBrace opRBrace in
theorem opDispatch_good (T : Nat) (s : LState) (hi : Inv T s) (ch n m : Char) :
    PG T s (opDispatch s ch n m) := by
  unfold opDispatch
  repeat' apply PG.ite
  all_goals first
    | exact PG.none
    | exact fun k s' h => opRBrace_good T s hi k s' h
    | (apply PG.some; first
        | exact Good.refl T _
        | exact opEq_good T _ _ _ _
        | exact opEq2_good T _ _ _ _ _ _
        | exact opColon_good T _ _
        | exact opDot_good T _ _ _
        | exact opAssign_good T _ _ _
        | exact opLt_good T _ _ _
        | exact opGt_good T _ _ _
        | exact opNot_good T _ _ _
        | exact opLBrace_good T _)

theorem readOperator_good (T : Nat) (s : LState) (hi : Inv T s) (k : TokenKind) (s' : LState)
    (h : readOperator s = some (k, s')) : Good1 T s s' := by
  unfold readOperator at h
  split at h
  · exact absurd h (by simp)
  · rename_i ch hcurr
    have g1 : Good1 T s s.eatChar := Good1.eat s ch hcurr
    exact g1.trans_good (opDispatch_good T _ (hi.of_good g1.good) _ _ _ k s' h)

theorem readUnknownChar_good (T : Nat) (s : LState) (hi : Inv T s) (k : TokenKind) (s' : LState)
    (h : readUnknownChar s = some (k, s')) : Good1 T s s' := by
  unfold readUnknownChar at h
  dsimp only at h
  split at h
  · exact absurd h (by simp)
  · rename_i ch hcurr
    cases h
    have g1 : Good1 T s s.eatChar := Good1.eat s ch hcurr
    exact g1.trans_good (Good.report _ _ _ (hi.of_good g1.good) hi.offset_le)


theorem readToken_good1 (T : Nat) (s : LState) (hi : Inv T s) (k : TokenKind) (s' : LState)
    (h : readToken s = some (k, s')) : Good1 T s s' := by
  unfold readToken at h
  split at h
  · exact absurd h (by simp)
  · rename_i c hc
    dsimp only at h
    by_cases h1 : isNewline (some c) = true
    · rw [if_pos h1] at h; rw [tok_eq h]; exact readNewline_good1 T s c hc h1
    rw [if_neg h1] at h
    by_cases h2 : isWhitespace (some c) = true
    · rw [if_pos h2] at h; rw [tok_eq h]; exact readWhiteSpace_good1 T s c hc h2
    rw [if_neg h2] at h
    by_cases h3 : isDigit (some c) = true
    · rw [if_pos h3] at h; rw [tok_eq h]; exact readNumber_good1 T s c hc h3
    rw [if_neg h3] at h
    by_cases h4 : isLineComment s = true
    · rw [if_pos h4] at h; rw [tok_eq h]; exact readLineComment_good1 T s h4
    rw [if_neg h4] at h
    by_cases h5 : isMultilineComment s = true
    · rw [if_pos h5] at h; rw [tok_eq h]; exact readMultilineComment_good1 T s c hc hi
    rw [if_neg h5] at h
    by_cases h6 : isIdentifierStart (some c) = true
    · rw [if_pos h6] at h; rw [tok_eq h]; exact readIdentifier_good1 T s c hc h6
    rw [if_neg h6] at h
    by_cases h7 : isQuote (some c) = true
    · rw [if_pos h7] at h; exact readString_false_good1 T s hi k s' h
    rw [if_neg h7] at h
    by_cases h8 : isCharQuote (some c) = true
    · rw [if_pos h8] at h; rw [tok_eq h]; exact readCharLiteral_good1 T s c hc hi
    rw [if_neg h8] at h
    by_cases h9 : isOperator (some c) = true
    · rw [if_pos h9] at h; exact readOperator_good T s hi k s' h
    rw [if_neg h9] at h
    exact readUnknownChar_good T s hi k s' h

/-! ### the token loop -/

/-- cumulative byte offsets of a list of pieces, starting at `o`: the start offset of every piece -/
def offsetsFrom : Nat → List (List Char) → List Nat
  | _, [] => []
  | o, t :: ts => o :: offsetsFrom (o + utf8Len t) ts

theorem offsetsFrom_append (o : Nat) (a b : List (List Char)) :
    offsetsFrom o (a ++ b) = offsetsFrom o a ++ offsetsFrom (o + utf8Len a.flatten) b := by
  induction a generalizing o with
  | nil => simp [offsetsFrom, utf8Len]
  | cons t a ih => simp [offsetsFrom, ih, utf8Len_append, Nat.add_assoc]

theorem offsetsFrom_length (o : Nat) (a : List (List Char)) : (offsetsFrom o a).length = a.length := by
  induction a generalizing o with
  | nil => rfl
  | cons t a ih => simp [offsetsFrom, ih]

theorem offsetsFrom_strict (o : Nat) (ts : List (List Char)) (hne : ∀ t ∈ ts, t ≠ []) :
    (offsetsFrom o ts).Pairwise (· < ·) ∧ ∀ x ∈ offsetsFrom o ts, o ≤ x ∧ x < o + utf8Len ts.flatten := by
  induction ts generalizing o with
  | nil => simp [offsetsFrom]
  | cons t ts ih =>
    have ht : 0 < utf8Len t := utf8Len_pos_of_ne_nil (hne t (by simp))
    have := ih (o + utf8Len t) (fun x hx => hne x (by simp [hx]))
    simp only [offsetsFrom, List.pairwise_cons, List.mem_cons, List.flatten_cons, utf8Len_append]
    refine ⟨⟨fun x hx => by have := this.2 x hx; omega, this.1⟩, ?_⟩
    intro x hx
    rcases hx with rfl | hx
    · omega
    · have := this.2 x hx; omega

/-- Invariant of `lexLoop`: the text eaten so far is cut into the non-empty pieces `texts` (newest first
in `ks`/`ss`), whose start offsets are `ss`. -/
theorem lexLoop_spec (T : Nat) (fuel : Nat) (s : LState) (ks : List TokenKind) (ss : List Nat)
    (pre : List (List Char)) (hi : Inv T s)
    (hfuel : s.rest.length ≤ fuel)
    (hoff : s.offset = utf8Len pre.flatten)
    (hss : ss.reverse = offsetsFrom 0 pre)
    (hne : ∀ t ∈ pre, t ≠ [])
    (hks : ks.length = ss.length ∧ ∀ k ∈ ks, k.toNat < TokenKind.EOF.toNat)
    (herr : ∀ e ∈ s.errors, e.start + e.len ≤ T)
    (res : Except LexFail (LState × List TokenKind × List Nat))
    (hres : lexLoop fuel s ks ss = res) :
    res ≠ .error .outOfFuel ∧
    ∀ s' ks' ss', res = .ok (s', ks', ss') →
      ∃ texts, pre.flatten ++ s.rest = texts.flatten ∧ (∀ t ∈ texts, t ≠ []) ∧
        ss'.reverse = offsetsFrom 0 texts ∧ ks'.length = ss'.length ∧
        (∀ k ∈ ks', k.toNat < TokenKind.EOF.toNat) ∧ (∀ e ∈ s'.errors, e.start + e.len ≤ T) := by
  induction fuel generalizing s ks ss pre res with
  | zero =>
    have hr : s.rest = [] := List.length_eq_zero_iff.mp (Nat.le_zero.mp hfuel)
    unfold lexLoop at hres
    simp only [hr, List.isEmpty_nil, if_true] at hres
    subst hres
    refine ⟨by simp, ?_⟩
    intro s' ks' ss' h
    cases h
    exact ⟨pre, by simp [hr], hne, hss, hks.1, hks.2, herr⟩
  | succ fuel ih =>
    unfold lexLoop at hres
    by_cases hr : s.rest.isEmpty = true
    · simp only [hr, if_true] at hres
      subst hres
      refine ⟨by simp, ?_⟩
      intro s' ks' ss' h
      cases h
      have : s.rest = [] := List.isEmpty_iff.mp hr
      exact ⟨pre, by simp [this], hne, hss, hks.1, hks.2, herr⟩
    · simp only [hr, Bool.false_eq_true, if_false] at hres
      cases hrt : readToken s with
      | none =>
        rw [hrt] at hres
        subst hres
        exact ⟨by simp, by intro _ _ _ h; cases h⟩
      | some p =>
        obtain ⟨k, s1⟩ := p
        rw [hrt] at hres
        dsimp only at hres
        have g := readToken_good1 T s hi k s1 hrt
        by_cases hk : k.toNat < TokenKind.EOF.toNat
        · simp only [hk, if_true] at hres
          obtain ⟨⟨tx, htne, hrest, hoff1⟩, gerr⟩ := g
          simp only [LState.cur] at hrest hoff1
          have hlen : s1.rest.length ≤ fuel := by
            have : s.rest.length = tx.length + s1.rest.length := by rw [hrest, List.length_append]
            have : 0 < tx.length := List.length_pos_iff.mpr htne
            omega
          have := ih s1 (k :: ks) (s.offset :: ss) (pre ++ [tx]) (hi.of_ext ⟨tx, hrest, hoff1⟩) hlen
            (by rw [hoff1, hoff]; simp [utf8Len_append])
            (by rw [List.reverse_cons, hss, offsetsFrom_append]; simp [offsetsFrom, hoff])
            (by intro t ht; rcases List.mem_append.mp ht with h | h
                · exact hne t h
                · simp only [List.mem_singleton] at h; subst h; exact htne)
            (by refine ⟨by simp [hks.1], ?_⟩
                intro k' hk'
                rcases List.mem_cons.mp hk' with rfl | h
                · exact hk
                · exact hks.2 k' h)
            (by intro e he
                rcases gerr e he with h | h
                · exact herr e h
                · exact h)
            res hres
          refine ⟨this.1, ?_⟩
          intro s' ks' ss' h
          obtain ⟨texts, h1, h2⟩ := this.2 s' ks' ss' h
          refine ⟨texts, ?_, h2⟩
          rw [← h1, hrest]
          simp
        · simp only [hk, if_false] at hres
          subst hres
          exact ⟨by simp, by intro _ _ _ h; cases h⟩

end Dora.Syntax
