/-
Model of dora-symbol/src/lib.rs (C19).  Names and symbols are byte strings (`List UInt8`):
`&str::bytes()` on the Rust side; the final `String::from_utf8` of `demangle_name` is outside the model.
Function by function transcription; `assert!`/`unreachable!` become `none`.
-/
namespace Dora.Symbol

abbrev Bytes := List UInt8

/-- `SYMBOL_PREFIX = "dora_"` -/
def symbolPrefix : Bytes := [100, 111, 114, 97, 95]

/-- `u8::is_ascii_alphanumeric` -/
def isAlnum (b : UInt8) : Bool :=
  (48 ≤ b && b ≤ 57) || (65 ≤ b && b ≤ 90) || (97 ≤ b && b ≤ 122)

/-- `hex_digit` (upper case); `unreachable!()` for values above 15 is `none`. -/
def hexDigit? (v : UInt8) : Option UInt8 :=
  if v ≤ 9 then some (48 + v) else if v ≤ 15 then some (65 + v - 10) else none

/-- `hex_digit` on a value already known to be a nibble (the only way the code calls it). -/
def hexDigit (v : UInt8) : UInt8 :=
  if v ≤ 9 then 48 + v else 65 + v - 10

/-- `hex_value` -/
def hexValue (v : UInt8) : Option UInt8 :=
  if 48 ≤ v && v ≤ 57 then some (v - 48)
  else if 97 ≤ v && v ≤ 102 then some (v - 97 + 10)
  else if 65 ≤ v && v ≤ 70 then some (v - 65 + 10)
  else none

/-- body of the `for byte in name.bytes()` loop of `mangle_name` -/
def mangleByte (b : UInt8) : Bytes :=
  if isAlnum b then [b] else [95, hexDigit (b >>> 4), hexDigit (b &&& 15)]

def mangleBody : Bytes → Bytes
  | [] => []
  | b :: bs => mangleByte b ++ mangleBody bs

/-- `mangle_name` -/
def mangleName (name : Bytes) : Bytes := symbolPrefix ++ mangleBody name

/-- the `while idx < bytes.len()` loop of `demangle_name` -/
def demangleBody : Bytes → Option Bytes
  | [] => some []
  | b :: rest =>
    if b = 95 then
      match rest with
      | h :: l :: rest' =>
        match hexValue h, hexValue l with
        | some hv, some lv => (demangleBody rest').map (fun r => ((hv <<< 4) ||| lv) :: r)
        | _, _ => none
      | _ => none
    else if isAlnum b then (demangleBody rest).map (fun r => b :: r)
    else none

/-- `str::strip_prefix("dora_")` -/
def stripPrefix : Bytes → Option Bytes
  | 100 :: 111 :: 114 :: 97 :: 95 :: rest => some rest
  | _ => none

/-- `demangle_name` up to (not including) `String::from_utf8` -/
def demangleBytes (sym : Bytes) : Option Bytes :=
  match stripPrefix sym with
  | some body => demangleBody body
  | none => none

def fnvOffsetBasis : BitVec 128 := 0x6C62272E07BB014262B821756295C58D#128
def fnvPrime : BitVec 128 := 0x0000000001000000000000000000013B#128

def fnvStep (h : BitVec 128) (b : UInt8) : BitVec 128 :=
  (h ^^^ BitVec.ofNat 128 b.toNat) * fnvPrime

/-- `fnv1a_128` -/
def fnv1a128 (bs : Bytes) : BitVec 128 := bs.foldl fnvStep fnvOffsetBasis

/-- `k` upper-case hex digits of `n`, most significant first, zero padded: `{n:0kX}` (for `n < 16^k`) -/
def hexDigitsN : Nat → Nat → Bytes
  | 0, _ => []
  | k + 1, n => hexDigitsN k (n / 16) ++ [hexDigit (UInt8.ofNat (n % 16))]

/-- `{hash:032X}` -/
def hashHex (h : BitVec 128) : Bytes := hexDigitsN 32 h.toNat

/-- `format!("_H{hash:032X}")` -/
def hashSuffix (h : BitVec 128) : Bytes := 95 :: 72 :: hashHex h

def hashSuffixLen : Nat := 34

/-- `mangle_name_with_max_len`; the `assert!(max_len >= 34)` is `none`. -/
def mangleNameWithMaxLen (name : Bytes) (maxLen : Nat) : Option Bytes :=
  if maxLen < hashSuffixLen then none
  else
    let symbol := mangleName name
    if symbol.length ≤ maxLen then some symbol
    else some (symbol.take (maxLen - hashSuffixLen) ++ hashSuffix (fnv1a128 symbol))

/-- the symbol was shortened -/
def shortened (name : Bytes) (maxLen : Nat) : Prop := maxLen < (mangleName name).length

end Dora.Symbol
