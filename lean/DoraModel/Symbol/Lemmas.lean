import DoraModel.Symbol.Model
/-! Helper lemmas for C19. Byte facts are proved by exhaustive `decide` over the 256 byte values. -/
namespace Dora.Symbol

theorem forall_uint8 (p : UInt8 → Prop) [DecidablePred p] (h : ∀ i : Fin 256, p (UInt8.ofNat i.val)) :
    ∀ b : UInt8, p b := by
  intro b
  have := h ⟨b.toNat, b.toNat_lt⟩
  simpa using this

/-- The two hex digits of an escape decode to the escaped byte. -/
theorem hex_roundtrip (b : UInt8) :
    hexValue (hexDigit (b >>> 4)) = some (b >>> 4) ∧ hexValue (hexDigit (b &&& 15)) = some (b &&& 15) ∧
    ((b >>> 4) <<< 4) ||| (b &&& 15) = b := by
  revert b; apply forall_uint8; decide +kernel

theorem alnum_ne_underscore (b : UInt8) : isAlnum b = true → b ≠ 95 := by
  revert b; apply forall_uint8; decide +kernel

/-- upper-case hex digits are alphanumeric (charset), and never `H` or `_`. -/
theorem hexDigit_nibble (b : UInt8) :
    isAlnum (hexDigit (b >>> 4)) = true ∧ isAlnum (hexDigit (b &&& 15)) = true ∧
    hexDigit (b >>> 4) ≠ 72 ∧ hexDigit (b &&& 15) ≠ 72 := by
  revert b; apply forall_uint8; decide +kernel

theorem demangleBody_cons_alnum (b : UInt8) (rest : Bytes) (hb : isAlnum b = true) :
    demangleBody (b :: rest) = (demangleBody rest).map (fun r => b :: r) := by
  have hne := alnum_ne_underscore b hb
  rw [demangleBody.eq_def]; simp [hne, hb]

theorem demangleBody_cons_escape (h l hv lv : UInt8) (rest : Bytes)
    (hh : hexValue h = some hv) (hl : hexValue l = some lv) :
    demangleBody (95 :: h :: l :: rest) =
      (demangleBody rest).map (fun r => ((hv <<< 4) ||| lv) :: r) := by
  rw [demangleBody.eq_def]; simp [hh, hl]

theorem demangleBody_mangleBody (bs : Bytes) : demangleBody (mangleBody bs) = some bs := by
  induction bs with
  | nil => rfl
  | cons b bs ih =>
    unfold mangleBody mangleByte
    by_cases hb : isAlnum b = true
    ·       simp [hb, demangleBody_cons_alnum, ih]
    · obtain ⟨h1, h2, h3⟩ := hex_roundtrip b
      simp [hb, demangleBody_cons_escape _ _ _ _ _ h1 h2, h3, ih]

theorem mangleBody_charset (name : Bytes) : ∀ c ∈ mangleBody name, isAlnum c = true ∨ c = 95 := by
  intro c h
  induction name with
  | nil => simp [mangleBody] at h
  | cons b bs ih =>
    unfold mangleBody mangleByte at h
    obtain ⟨h1, h2, _, _⟩ := hexDigit_nibble b
    by_cases hb : isAlnum b = true
    · simp [hb] at h
      rcases h with h | h
      · left; rw [h]; exact hb
      · exact ih h
    · simp [hb] at h
      rcases h with h | h | h | h
      · right; exact h
      · left; rw [h]; exact h1
      · left; rw [h]; exact h2
      · exact ih h

theorem prefix_charset : ∀ c ∈ symbolPrefix, isAlnum c = true ∨ c = 95 := by decide

/-- every nibble value prints as an upper-case hex digit: alphanumeric, not `_`, not `H` -/
theorem hexDigit_of_nibble (n : Nat) (hn : n < 16) :
    isAlnum (hexDigit (UInt8.ofNat n)) = true ∧ hexDigit (UInt8.ofNat n) ≠ 72 ∧ hexDigit (UInt8.ofNat n) ≠ 95 := by
  have : ∀ i : Fin 16, isAlnum (hexDigit (UInt8.ofNat i.val)) = true ∧ hexDigit (UInt8.ofNat i.val) ≠ 72
      ∧ hexDigit (UInt8.ofNat i.val) ≠ 95 := by decide
  exact this ⟨n, hn⟩

theorem stripPrefix_prefix (r : Bytes) : stripPrefix (symbolPrefix ++ r) = some r := rfl

end Dora.Symbol

namespace Dora.Symbol

/-! ### length cap -/

theorem hexDigitsN_length (k n : Nat) : (hexDigitsN k n).length = k := by
  induction k generalizing n with
  | zero => rfl
  | succ k ih => simp [hexDigitsN, ih]

theorem hashSuffix_length (h : BitVec 128) : (hashSuffix h).length = 34 := by
  simp [hashSuffix, hashHex, hexDigitsN_length]

theorem hexDigitsN_charset (k n : Nat) : ∀ c ∈ hexDigitsN k n, isAlnum c = true ∧ c ≠ 72 ∧ c ≠ 95 := by
  induction k generalizing n with
  | zero => intro c h; simp [hexDigitsN] at h
  | succ k ih =>
    intro c h
    simp only [hexDigitsN, List.mem_append, List.mem_singleton] at h
    rcases h with h | h
    · exact ih _ c h
    · rw [h]; exact hexDigit_of_nibble _ (Nat.mod_lt _ (by decide))

/-! ### "every `_` of an unshortened symbol body is followed by a hex digit, never by `H`" -/

/-- no `_` is directly followed by `H` -/
def escOK : Bytes → Bool
  | [] => true
  | [_] => true
  | b :: c :: rest => (b != 95 || c != 72) && escOK (c :: rest)

theorem escOK_cons_ne (b : UInt8) (rest : Bytes) (hb : b ≠ 95) : escOK (b :: rest) = escOK rest := by
  cases rest with
  | nil => rfl
  | cons c r => simp [escOK, hb]

theorem escOK_cons_us (c : UInt8) (rest : Bytes) (hc : c ≠ 72) : escOK (95 :: c :: rest) = escOK (c :: rest) := by
  simp [escOK, hc]

theorem escOK_mangleBody (bs : Bytes) : escOK (mangleBody bs) = true := by
  induction bs with
  | nil => rfl
  | cons b bs ih =>
    unfold mangleBody mangleByte
    by_cases hb : isAlnum b = true
    · simp only [hb, if_true, List.singleton_append]
      rw [escOK_cons_ne _ _ (alnum_ne_underscore b hb)]; exact ih
    · obtain ⟨a1, a2, n1, _⟩ := hexDigit_nibble b
      have hb' : isAlnum b = false := by simpa using hb
      simp only [hb', Bool.false_eq_true, if_false, List.cons_append, List.nil_append]
      rw [escOK_cons_us _ _ n1, escOK_cons_ne _ _ (alnum_ne_underscore _ a1),
        escOK_cons_ne _ _ (alnum_ne_underscore _ a2)]
      exact ih

theorem escOK_marker (pre post : Bytes) : escOK (pre ++ 95 :: 72 :: post) = false := by
  induction pre with
  | nil => simp [escOK]
  | cons p pre ih =>
    cases pre with
    | nil => simp [escOK]
    | cons q r =>
      simp only [List.cons_append] at ih ⊢
      simp [escOK, ih]

/-! ### hash digits determine the hash -/

def hexDigitVal (c : UInt8) : Nat := if c ≤ 57 then c.toNat - 48 else c.toNat - 55

def unhexNat : Bytes → Nat := fun l => l.foldl (fun acc c => acc * 16 + hexDigitVal c) 0

theorem hexDigitVal_hexDigit (n : Nat) (hn : n < 16) : hexDigitVal (hexDigit (UInt8.ofNat n)) = n := by
  have : ∀ i : Fin 16, hexDigitVal (hexDigit (UInt8.ofNat i.val)) = i.val := by decide
  exact this ⟨n, hn⟩

theorem unhexNat_hexDigitsN (k n : Nat) : unhexNat (hexDigitsN k n) = n % 16 ^ k := by
  induction k generalizing n with
  | zero => simp [hexDigitsN, unhexNat, Nat.mod_one]
  | succ k ih =>
    have := ih (n / 16)
    simp only [unhexNat] at this ⊢
    simp only [hexDigitsN, List.foldl_append, List.foldl_cons, List.foldl_nil, this,
      hexDigitVal_hexDigit _ (Nat.mod_lt n (by decide : 0 < 16))]
    rw [Nat.pow_succ, Nat.mul_comm (16 ^ k) 16, Nat.mod_mul, Nat.add_comm, Nat.mul_comm]

theorem hashHex_injective (h1 h2 : BitVec 128) (h : hashHex h1 = hashHex h2) : h1 = h2 := by
  have e := congrArg unhexNat h
  simp only [hashHex, unhexNat_hexDigitsN] at e
  have l1 : h1.toNat < 16 ^ 32 := by have := h1.isLt; simpa using this
  have l2 : h2.toNat < 16 ^ 32 := by have := h2.isLt; simpa using this
  rw [Nat.mod_eq_of_lt l1, Nat.mod_eq_of_lt l2] at e
  exact BitVec.eq_of_toNat_eq e

/-! ### FNV-1a step is injective in the state and in the byte -/

def fnvPrimeInv : BitVec 128 := 0xb1041ad2562ff2ff2ff2ff2ff2ff2ff3#128

theorem fnvPrime_inv : fnvPrime * fnvPrimeInv = 1#128 := by decide +kernel

theorem mul_prime_injective (x y : BitVec 128) (h : x * fnvPrime = y * fnvPrime) : x = y := by
  have := congrArg (· * fnvPrimeInv) h
  simp only [BitVec.mul_assoc, fnvPrime_inv, BitVec.mul_one] at this
  exact this

theorem xor_left_cancel (h a b : BitVec 128) (e : h ^^^ a = h ^^^ b) : a = b := by
  have := congrArg (h ^^^ ·) e
  simpa [← BitVec.xor_assoc] using this

theorem xor_right_cancel (a b h : BitVec 128) (e : a ^^^ h = b ^^^ h) : a = b := by
  have := congrArg (· ^^^ h) e
  simpa [BitVec.xor_assoc] using this

theorem fnvStep_state_injective (h1 h2 : BitVec 128) (b : UInt8) (e : fnvStep h1 b = fnvStep h2 b) : h1 = h2 :=
  xor_right_cancel _ _ _ (mul_prime_injective _ _ e)

theorem byte_ofNat_injective (b1 b2 : UInt8) (e : BitVec.ofNat 128 b1.toNat = BitVec.ofNat 128 b2.toNat) : b1 = b2 := by
  have := congrArg BitVec.toNat e
  simp only [BitVec.toNat_ofNat] at this
  have l1 : b1.toNat < 2 ^ 128 := Nat.lt_trans b1.toNat_lt (by decide)
  have l2 : b2.toNat < 2 ^ 128 := Nat.lt_trans b2.toNat_lt (by decide)
  rw [Nat.mod_eq_of_lt l1, Nat.mod_eq_of_lt l2] at this
  exact UInt8.toNat_inj.mp this

theorem fnvStep_byte_injective (h : BitVec 128) (b1 b2 : UInt8) (e : fnvStep h b1 = fnvStep h b2) : b1 = b2 :=
  byte_ofNat_injective _ _ (xor_left_cancel _ _ _ (mul_prime_injective _ _ e))

theorem fnv_foldl_injective (suf : Bytes) (h1 h2 : BitVec 128)
    (e : suf.foldl fnvStep h1 = suf.foldl fnvStep h2) : h1 = h2 := by
  induction suf generalizing h1 h2 with
  | nil => exact e
  | cons b suf ih => exact fnvStep_state_injective _ _ b (ih _ _ e)

end Dora.Symbol
