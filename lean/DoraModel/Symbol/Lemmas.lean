import DoraModel.Symbol.Model
/-! Helper lemmas for C19. Byte facts are proved by exhaustive `decide` over the 256 byte values. -/
namespace Dora.Symbol

theorem forall_uint8 (p : UInt8 → Prop) [DecidablePred p] (h : ∀ i : Fin 256, p (UInt8.ofNat i.val)) :
    ∀ b : UInt8, p b := by
  intro b
  have := h ⟨b.toNat, b.toNat_lt⟩
  simpa using this

/-- The two hex digits of an escape decode to the escaped byte. -/
theorem hex_roundtrip (b : UInt8) :
    hexValue (hexDigit (b >>> 4)) = some (b >>> 4) ∧ hexValue (hexDigit (b &&& 15)) = some (b &&& 15) ∧
    ((b >>> 4) <<< 4) ||| (b &&& 15) = b := by
  revert b; apply forall_uint8; decide +kernel

theorem alnum_ne_underscore (b : UInt8) : isAlnum b = true → b ≠ 95 := by
  revert b; apply forall_uint8; decide +kernel

/-- upper-case hex digits are alphanumeric (charset), and never `H` or `_`. -/
theorem hexDigit_nibble (b : UInt8) :
    isAlnum (hexDigit (b >>> 4)) = true ∧ isAlnum (hexDigit (b &&& 15)) = true ∧
    hexDigit (b >>> 4) ≠ 72 ∧ hexDigit (b &&& 15) ≠ 72 := by
  revert b; apply forall_uint8; decide +kernel

theorem demangleBody_cons_alnum (b : UInt8) (rest : Bytes) (hb : isAlnum b = true) :
    demangleBody (b :: rest) = (demangleBody rest).map (fun r => b :: r) := by
  have hne := alnum_ne_underscore b hb
  rw [demangleBody.eq_def]; simp [hne, hb]

theorem demangleBody_cons_escape (h l hv lv : UInt8) (rest : Bytes)
    (hh : hexValue h = some hv) (hl : hexValue l = some lv) :
    demangleBody (95 :: h :: l :: rest) =
      (demangleBody rest).map (fun r => ((hv <<< 4) ||| lv) :: r) := by
  rw [demangleBody.eq_def]; simp [hh, hl]

theorem demangleBody_mangleBody (bs : Bytes) : demangleBody (mangleBody bs) = some bs := by
  induction bs with
  | nil => rfl
  | cons b bs ih =>
    unfold mangleBody mangleByte
    by_cases hb : isAlnum b = true
    ·       simp [hb, demangleBody_cons_alnum, ih]
    · obtain ⟨h1, h2, h3⟩ := hex_roundtrip b
      simp [hb, demangleBody_cons_escape _ _ _ _ _ h1 h2, h3, ih]

theorem mangleBody_charset (name : Bytes) : ∀ c ∈ mangleBody name, isAlnum c = true ∨ c = 95 := by
  intro c h
  induction name with
  | nil => simp [mangleBody] at h
  | cons b bs ih =>
    unfold mangleBody mangleByte at h
    obtain ⟨h1, h2, _, _⟩ := hexDigit_nibble b
    by_cases hb : isAlnum b = true
    · simp [hb] at h
      rcases h with h | h
      · left; rw [h]; exact hb
      · exact ih h
    · simp [hb] at h
      rcases h with h | h | h | h
      · right; exact h
      · left; rw [h]; exact h1
      · left; rw [h]; exact h2
      · exact ih h

theorem prefix_charset : ∀ c ∈ symbolPrefix, isAlnum c = true ∨ c = 95 := by decide

/-- every nibble value prints as an upper-case hex digit: alphanumeric, not `_`, not `H` -/
theorem hexDigit_of_nibble (n : Nat) (hn : n < 16) :
    isAlnum (hexDigit (UInt8.ofNat n)) = true ∧ hexDigit (UInt8.ofNat n) ≠ 72 ∧ hexDigit (UInt8.ofNat n) ≠ 95 := by
  have : ∀ i : Fin 16, isAlnum (hexDigit (UInt8.ofNat i.val)) = true ∧ hexDigit (UInt8.ofNat i.val) ≠ 72
      ∧ hexDigit (UInt8.ofNat i.val) ≠ 95 := by decide
  exact this ⟨n, hn⟩

theorem stripPrefix_prefix (r : Bytes) : stripPrefix (symbolPrefix ++ r) = some r := rfl

end Dora.Symbol
