import DoraModel.Position.Model
/-! Helper lemmas for C20 (core Lean only). -/
namespace Dora.Position

theorem utf8Len_pos (c : Char) : 1 ≤ utf8Len c := by
  unfold utf8Len; split <;> (try split) <;> (try split) <;> omega

theorem utf8Len_le (c : Char) : utf8Len c ≤ 4 := by
  unfold utf8Len; split <;> (try split) <;> (try split) <;> omega

theorem utf16Len_pos (c : Char) : 1 ≤ utf16Len c := by
  unfold utf16Len; split <;> omega

theorem utf16Len_le (c : Char) : utf16Len c ≤ 2 := by
  unfold utf16Len; split <;> omega

@[simp] theorem byteLen_nil : byteLen [] = 0 := rfl
@[simp] theorem byteLen_cons (c : Char) (t : Text) : byteLen (c :: t) = utf8Len c + byteLen t := rfl
@[simp] theorem utf16Count_nil : utf16Count [] = 0 := rfl
@[simp] theorem utf16Count_cons (c : Char) (t : Text) : utf16Count (c :: t) = utf16Len c + utf16Count t := rfl

@[simp] theorem byteLen_append (p s : Text) : byteLen (p ++ s) = byteLen p + byteLen s := by
  induction p with
  | nil => simp
  | cons c p ih => simp [ih]; omega

@[simp] theorem utf16Count_append (p s : Text) : utf16Count (p ++ s) = utf16Count p + utf16Count s := by
  induction p with
  | nil => simp
  | cons c p ih => simp [ih]; omega

theorem byteLen_eq_zero {p : Text} (h : byteLen p = 0) : p = [] := by
  cases p with
  | nil => rfl
  | cons c p => have := utf8Len_pos c; simp at h; omega

theorem utf16Count_eq_zero {p : Text} (h : utf16Count p = 0) : p = [] := by
  cases p with
  | nil => rfl
  | cons c p => have := utf16Len_pos c; simp at h; omega

/-- a text has at most as many UTF-16 units as bytes (used for the `u32` remark only) -/
theorem utf16Count_le_byteLen (p : Text) : utf16Count p ≤ byteLen p := by
  induction p with
  | nil => simp
  | cons c p ih =>
    simp only [utf16Count_cons, byteLen_cons]
    have : utf16Len c ≤ utf8Len c := by
      unfold utf16Len utf8Len
      split <;> (try split) <;> (try split) <;> (try split) <;> omega
    omega

/-- two decompositions of the same text: the one with fewer bytes is a prefix of the other -/
theorem prefix_of_byteLen_le {p1 s1 p2 s2 : Text} (h : p1 ++ s1 = p2 ++ s2) (hle : byteLen p1 ≤ byteLen p2) :
    ∃ m, p2 = p1 ++ m ∧ s1 = m ++ s2 := by
  rcases List.append_eq_append_iff.mp h with ⟨a', h1, h2⟩ | ⟨c', h1, h2⟩
  · exact ⟨a', h1, h2⟩
  · subst h1
    simp at hle
    have : c' = [] := byteLen_eq_zero (by omega)
    subst this
    exact ⟨[], by simp, by simpa using h2.symm⟩

theorem dropBytes_append (p s : Text) : dropBytes (byteLen p) (p ++ s) = some s := by
  induction p with
  | nil => cases s <;> simp [dropBytes]
  | cons c p ih =>
    have := utf8Len_pos c
    simp only [List.cons_append, byteLen_cons, dropBytes]
    rw [if_neg (by omega), if_pos (by omega)]
    have : utf8Len c + byteLen p - utf8Len c = byteLen p := by omega
    rw [this]; exact ih

theorem dropBytes_some {n : Nat} {t s : Text} (h : dropBytes n t = some s) : ∃ p, t = p ++ s ∧ byteLen p = n := by
  induction t generalizing n with
  | nil =>
    simp only [dropBytes] at h
    split at h
    · next h0 => cases h; exact ⟨[], rfl, by simp [h0]⟩
    · cases h
  | cons c t ih =>
    simp only [dropBytes] at h
    split at h
    · next h0 => cases h; exact ⟨[], rfl, by simp [h0]⟩
    · split at h
      · next h0 h1 =>
        rcases ih h with ⟨p, hp, hl⟩
        exact ⟨c :: p, by simp [hp], by simp [hl]; omega⟩
      · cases h

theorem takeBytes_append (p s : Text) : takeBytes (byteLen p) (p ++ s) = some p := by
  induction p with
  | nil => cases s <;> simp [takeBytes]
  | cons c p ih =>
    have := utf8Len_pos c
    simp only [List.cons_append, byteLen_cons, takeBytes]
    rw [if_neg (by omega), if_pos (by omega)]
    have : utf8Len c + byteLen p - utf8Len c = byteLen p := by omega
    rw [this, ih]; rfl

/-- slicing between two boundaries gives the characters between them -/
theorem slice_append (p m s : Text) : slice (p ++ m ++ s) (byteLen p) (byteLen p + byteLen m) = some m := by
  unfold slice
  rw [if_pos (by omega), List.append_assoc, dropBytes_append]
  have : byteLen p + byteLen m - byteLen p = byteLen m := by omega
  simp only [Option.bind_some, this]
  exact takeBytes_append m s

theorem isBoundary_iff (t : Text) (off : Nat) : isBoundary t off = true ↔ IsBoundary t off := by
  unfold isBoundary IsBoundary
  constructor
  · intro h
    rcases Option.isSome_iff_exists.mp h with ⟨s, hs⟩
    rcases dropBytes_some hs with ⟨p, hp, hl⟩
    exact ⟨p, s, hp, hl⟩
  · rintro ⟨p, s, rfl, rfl⟩
    rw [dropBytes_append]; rfl

theorem IsBoundary.le {t : Text} {off : Nat} (h : IsBoundary t off) : off ≤ byteLen t := by
  rcases h with ⟨p, s, rfl, rfl⟩; simp

theorem isBoundary_zero (t : Text) : IsBoundary t 0 := ⟨[], t, rfl, rfl⟩
theorem isBoundary_len (t : Text) : IsBoundary t (byteLen t) := ⟨t, [], by simp, rfl⟩

/-! ### the column walk -/

/-- walking to the column that is exactly the UTF-16 length of a prefix stops after that prefix -/
theorem walkCols_prefix (p s : Text) (u16 u8 : Nat) :
    walkCols (u16 + utf16Count p) (p ++ s) u16 u8 = u8 + byteLen p := by
  induction p generalizing u16 u8 with
  | nil => cases s <;> simp [walkCols]
  | cons c p ih =>
    have := utf16Len_pos c
    simp only [List.cons_append, utf16Count_cons, byteLen_cons, walkCols]
    rw [if_neg (by omega)]
    have e : u16 + (utf16Len c + utf16Count p) = (u16 + utf16Len c) + utf16Count p := by omega
    rw [e, ih]; omega

/-- whatever the column, the walk stops after some prefix of the line (so on a character boundary) -/
theorem walkCols_boundary (col : Nat) (t : Text) (u16 u8 : Nat) :
    ∃ p s, t = p ++ s ∧ walkCols col t u16 u8 = u8 + byteLen p := by
  induction t generalizing u16 u8 with
  | nil => exact ⟨[], [], rfl, by simp [walkCols]⟩
  | cons c t ih =>
    simp only [walkCols]
    split
    · exact ⟨[], c :: t, rfl, by simp⟩
    · rcases ih (u16 + utf16Len c) (u8 + utf8Len c) with ⟨p, s, hp, hw⟩
      exact ⟨c :: p, s, by simp [hp], by rw [hw]; simp; omega⟩

/-- a column at or past the end of the line walks over the whole line -/
theorem walkCols_past (col : Nat) (t : Text) (u16 u8 : Nat) (h : u16 + utf16Count t ≤ col) :
    walkCols col t u16 u8 = u8 + byteLen t := by
  induction t generalizing u16 u8 with
  | nil => simp [walkCols]
  | cons c t ih =>
    have := utf16Len_pos c
    simp only [utf16Count_cons] at h
    simp only [walkCols, byteLen_cons]
    rw [if_neg (by omega), ih _ _ (by omega)]; omega

/-! ### `compute_line_starts` -/

theorem utf8Len_lf : utf8Len '\n' = 1 := by decide
theorem utf8Len_cr : utf8Len '\r' = 1 := by decide

/-- every recorded line start lies strictly after `pos` and is the end of a non-empty prefix -/
theorem mem_lineStartsFrom {pos : Nat} {t : Text} {x : Nat} (h : x ∈ lineStartsFrom pos t) :
    ∃ p s, t = p ++ s ∧ x = pos + byteLen p ∧ 0 < byteLen p := by
  fun_induction lineStartsFrom pos t with
  | case1 pos => simp at h
  | case2 pos rest ih =>
    rcases List.mem_cons.mp h with h | h
    · exact ⟨['\n'], rest, rfl, by simp [h, utf8Len_lf], by simp [utf8Len_lf]⟩
    · rcases ih h with ⟨p, s, hp, hx, _⟩
      exact ⟨'\n' :: p, s, by simp [hp], by simp [hx, utf8Len_lf]; omega, by simp [utf8Len_lf]; omega⟩
  | case3 pos rest' _ ih =>
    rcases List.mem_cons.mp h with h | h
    · exact ⟨['\r', '\n'], rest', rfl, by simp [h, utf8Len_lf, utf8Len_cr], by simp [utf8Len_lf, utf8Len_cr]⟩
    · rcases ih h with ⟨p, s, hp, hx, _⟩
      exact ⟨'\r' :: '\n' :: p, s, by simp [hp], by simp [hx, utf8Len_lf, utf8Len_cr]; omega,
        by simp [utf8Len_lf, utf8Len_cr]; omega⟩
  | case4 pos d rest' _ _ ih =>
    rcases List.mem_cons.mp h with h | h
    · exact ⟨['\r'], d :: rest', rfl, by simp [h, utf8Len_cr], by simp [utf8Len_cr]⟩
    · rcases ih h with ⟨p, s, hp, hx, _⟩
      exact ⟨'\r' :: p, s, by simp [hp], by simp [hx, utf8Len_cr]; omega, by simp [utf8Len_cr]; omega⟩
  | case5 pos _ =>
    simp at h
    exact ⟨['\r'], [], rfl, by simp [h, utf8Len_cr], by simp [utf8Len_cr]⟩
  | case6 pos c rest _ _ ih =>
    rcases ih h with ⟨p, s, hp, hx, _⟩
    have := utf8Len_pos c
    exact ⟨c :: p, s, by simp [hp], by simp [hx]; omega, by simp; omega⟩

theorem lineStartsFrom_gt {pos : Nat} {t : Text} {x : Nat} (h : x ∈ lineStartsFrom pos t) : pos < x := by
  rcases mem_lineStartsFrom h with ⟨p, s, _, hx, hp⟩; omega

theorem lineStartsFrom_pairwise (pos : Nat) (t : Text) : (lineStartsFrom pos t).Pairwise (· < ·) := by
  fun_induction lineStartsFrom pos t with
  | case1 pos => simp
  | case2 pos rest ih => exact List.pairwise_cons.mpr ⟨fun _ ha => lineStartsFrom_gt ha, ih⟩
  | case3 pos rest' _ ih => exact List.pairwise_cons.mpr ⟨fun _ ha => lineStartsFrom_gt ha, ih⟩
  | case4 pos d rest' _ _ ih => exact List.pairwise_cons.mpr ⟨fun _ ha => lineStartsFrom_gt ha, ih⟩
  | case5 pos _ => simp
  | case6 pos c rest _ _ ih => exact ih

theorem computeLineStarts_pairwise (t : Text) : (computeLineStarts t).Pairwise (· < ·) :=
  List.pairwise_cons.mpr ⟨fun _ ha => lineStartsFrom_gt ha, lineStartsFrom_pairwise 0 t⟩

theorem computeLineStarts_boundary {t : Text} {x : Nat} (h : x ∈ computeLineStarts t) : IsBoundary t x := by
  rcases List.mem_cons.mp h with h | h
  · subst h; exact isBoundary_zero t
  · rcases mem_lineStartsFrom h with ⟨p, s, hp, hx, _⟩
    exact ⟨p, s, hp, by omega⟩

/-! ### `binary_search` on a strictly increasing list -/

theorem binarySearchFrom_ok {i x k : Nat} {xs : List Nat} (hs : xs.Pairwise (· < ·))
    (h : binarySearchFrom i x xs = .ok k) :
    ∃ A B, xs = A ++ x :: B ∧ k = i + A.length ∧ (∀ a ∈ A, a < x) ∧ (∀ b ∈ B, x < b) := by
  induction xs generalizing i with
  | nil => simp [binarySearchFrom] at h
  | cons y ys ih =>
    rcases List.pairwise_cons.mp hs with ⟨hy, hys⟩
    simp only [binarySearchFrom] at h
    split at h
    · next hyx =>
      cases h; subst hyx
      exact ⟨[], ys, rfl, by simp, by simp, hy⟩
    · split at h
      · cases h
      · next h1 h2 =>
        rcases ih hys h with ⟨A, B, hAB, hk, hA, hB⟩
        refine ⟨y :: A, B, by simp [hAB], by simp [hk]; omega, ?_, hB⟩
        intro a ha
        rcases List.mem_cons.mp ha with ha | ha
        · omega
        · exact hA a ha

theorem binarySearchFrom_err {i x k : Nat} {xs : List Nat} (hs : xs.Pairwise (· < ·))
    (h : binarySearchFrom i x xs = .err k) :
    ∃ A B, xs = A ++ B ∧ k = i + A.length ∧ (∀ a ∈ A, a < x) ∧ (∀ b ∈ B, x < b) := by
  induction xs generalizing i with
  | nil => simp [binarySearchFrom] at h; exact ⟨[], [], rfl, by simp [h], by simp, by simp⟩
  | cons y ys ih =>
    rcases List.pairwise_cons.mp hs with ⟨hy, hys⟩
    simp only [binarySearchFrom] at h
    split at h
    · cases h
    · split at h
      · next h1 h2 =>
        cases h
        refine ⟨[], y :: ys, rfl, by simp, by simp, ?_⟩
        intro b hb
        rcases List.mem_cons.mp hb with hb | hb
        · omega
        · have := hy b hb; omega
      · next h1 h2 =>
        rcases ih hys h with ⟨A, B, hAB, hk, hA, hB⟩
        refine ⟨y :: A, B, by simp [hAB], by simp [hk]; omega, ?_, hB⟩
        intro a ha
        rcases List.mem_cons.mp ha with ha | ha
        · omega
        · exact hA a ha

/-- On a strictly increasing table that starts with 0, the line lookup never panics and returns the
last line start `≤ offset`: the table splits as `A ++ ls :: B` with `A < ls ≤ offset < B`. -/
theorem findLine_spec {S : List Nat} (hs : S.Pairwise (· < ·)) (h0 : S.head? = some 0) (off : Nat) :
    ∃ A ls B, S = A ++ ls :: B ∧ findLine S off = some (A.length, ls) ∧ ls ≤ off ∧
      (∀ a ∈ A, a < ls) ∧ (∀ b ∈ B, off < b) := by
  unfold findLine binarySearch
  cases hr : binarySearchFrom 0 off S with
  | ok k =>
    rcases binarySearchFrom_ok hs hr with ⟨A, B, hAB, hk, hA, hB⟩
    exact ⟨A, off, B, hAB, by simp [hk], Nat.le_refl _, hA, hB⟩
  | err k =>
    rcases binarySearchFrom_err hs hr with ⟨A, B, hAB, hk, hA, hB⟩
    rcases List.eq_nil_or_concat A with hnil | ⟨A', ls, hA'⟩
    · subst hnil
      simp at hAB; subst hAB
      cases S with
      | nil => simp at h0
      | cons b B => simp at h0; have := hB b (by simp); omega
    · subst hA'
      rw [List.concat_eq_append] at hAB hk hA
      have hls : ls < off := hA ls (by simp)
      have hget : S[k - 1]? = some ls := by
        subst hAB; simp at hk; subst hk
        simp
      have hk0 : k ≠ 0 := by simp at hk; omega
      refine ⟨A', ls, B, by simp [hAB], ?_, by omega, ?_, hB⟩
      · simp only [hk0, if_false, hget]
        simp at hk; simp [hk]
      · subst hAB
        have hp := (List.pairwise_append.mp hs).1
        have hp2 := (List.pairwise_append.mp hp).2.2
        intro a ha
        exact hp2 a ha ls (by simp)

/-! ### one line of the table -/

theorem getElem?_mid (A : List Nat) (x : Nat) (B : List Nat) : (A ++ x :: B)[A.length]? = some x := by
  simp

theorem getElem?_mid_succ (A : List Nat) (x y : Nat) (B : List Nat) : (A ++ x :: y :: B)[A.length + 1]? = some y := by
  have : A ++ x :: y :: B = (A ++ [x]) ++ y :: B := by simp
  rw [this]
  have h2 : A.length + 1 = (A ++ [x]).length := by simp
  rw [h2]; exact getElem?_mid _ _ _

/-- Line number `A.length` of the line-start table `A ++ ls :: B` of `t`: it starts at `ls`, ends at `le`
(the next entry, or the end of the text for the last line), both character boundaries, and `t` splits
as `p0 ++ lc ++ s1` with `lc` the line's characters (terminator included). -/
theorem line_struct (t : Text) {A : List Nat} {ls : Nat} {B : List Nat}
    (hS : computeLineStarts t = A ++ ls :: B) :
    ∃ le p0 lc s1, t = p0 ++ lc ++ s1 ∧ byteLen p0 = ls ∧ ls + byteLen lc = le ∧
      lineEndOf t (computeLineStarts t) A.length = some le ∧
      ((B = [] ∧ le = byteLen t) ∨ ∃ B', B = le :: B') := by
  have hls : IsBoundary t ls := computeLineStarts_boundary (by rw [hS]; simp)
  rcases hls with ⟨p0, s0, ht, hp0⟩
  cases B with
  | nil =>
    refine ⟨byteLen t, p0, s0, [], by simp [ht], hp0, by rw [ht]; simp; omega, ?_, Or.inl ⟨rfl, rfl⟩⟩
    unfold lineEndOf; rw [hS]; simp
  | cons b B' =>
    have hb : IsBoundary t b := computeLineStarts_boundary (by rw [hS]; simp)
    have hlt : ls < b := by
      have hp := computeLineStarts_pairwise t
      rw [hS] at hp
      have := (List.pairwise_append.mp hp).2.1
      exact (List.pairwise_cons.mp this).1 b (by simp)
    rcases hb with ⟨p1, s1, ht1, hp1⟩
    rcases prefix_of_byteLen_le (ht.symm.trans ht1) (by omega) with ⟨m, hm, _⟩
    refine ⟨b, p0, m, s1, by rw [ht1, hm], hp0, ?_, ?_, Or.inr ⟨B', rfl⟩⟩
    · rw [hm] at hp1; simp at hp1; omega
    · unfold lineEndOf; rw [hS]
      rw [if_pos (by simp), getElem?_mid_succ]

/-- `utf16_position_to_utf8_offset` on an existing line, in terms of that line's characters -/
theorem positionToOffset_line (t : Text) {A : List Nat} {ls le : Nat} {B : List Nat} {p0 lc s1 : Text}
    (hS : computeLineStarts t = A ++ ls :: B) (ht : t = p0 ++ lc ++ s1) (hp0 : byteLen p0 = ls)
    (hle : ls + byteLen lc = le) (hend : lineEndOf t (computeLineStarts t) A.length = some le) (col : Nat) :
    positionToOffset t A.length col = some (if col = 0 then ls else ls + walkCols col lc 0 0) := by
  have hsl : slice t ls le = some lc := by
    rw [ht, ← hp0, ← hle, ← hp0]; exact slice_append p0 lc s1
  unfold positionToOffset positionToOffsetWith
  rw [hend]
  rw [if_neg (by rw [hS]; simp), hS, getElem?_mid]
  simp only [hsl]
  split <;> rfl

theorem split_at_index {S : List Nat} {i : Nat} (h : i < S.length) :
    ∃ A ls B, S = A ++ ls :: B ∧ A.length = i :=
  ⟨S.take i, S[i], S.drop (i + 1), by simp, by simp; omega⟩

theorem computeLineStarts_head (t : Text) : (computeLineStarts t).head? = some 0 := rfl

/-- Everything about `utf8_offset_to_utf16_position` at a boundary: `p` is the prefix of `off` bytes.
The table splits as `A ++ ls :: B` around the line found, that line's characters are `m ++ m2` with
`m` the part before the offset, and the answer is `(A.length, utf16Count m)`. -/
theorem offsetToPosition_spec {t p s : Text} (ht : t = p ++ s) :
    ∃ A ls B le p0 m m2 s1, computeLineStarts t = A ++ ls :: B ∧ p = p0 ++ m ∧ s = m2 ++ s1 ∧
      byteLen p0 = ls ∧ ls + byteLen (m ++ m2) = le ∧
      lineEndOf t (computeLineStarts t) A.length = some le ∧
      offsetToPosition t (byteLen p) = some (A.length, utf16Count m) ∧
      findLine (computeLineStarts t) (byteLen p) = some (A.length, ls) ∧
      (∀ a ∈ A, a < ls) ∧ (∀ b ∈ B, byteLen p < b) := by
  rcases findLine_spec (computeLineStarts_pairwise t) (computeLineStarts_head t) (byteLen p) with
    ⟨A, ls, B, hS, hfind, hle, hA, hB⟩
  rcases line_struct t hS with ⟨le, p0, lc, s1, ht2, hp0, hlen, hend, hBs⟩
  have hoffle : byteLen p ≤ le := by
    rcases hBs with ⟨_, h⟩ | ⟨B', h⟩
    · rw [h, ht]; simp
    · have := hB le (by rw [h]; simp); omega
  have e1 : p0 ++ (lc ++ s1) = p ++ s := by rw [← ht, ht2]; simp
  rcases prefix_of_byteLen_le e1 (by omega) with ⟨m, hm, hm'⟩
  have hmle : byteLen m ≤ byteLen lc := by rw [hm] at hoffle; simp at hoffle; omega
  rcases prefix_of_byteLen_le hm'.symm hmle with ⟨m2, hm2, hs⟩
  refine ⟨A, ls, B, le, p0, m, m2, s1, hS, hm, hs, hp0, by rw [← hm2]; exact hlen, hend, ?_, hfind, hA, hB⟩
  have hsl : slice t ls (byteLen p) = some m := by
    have : t = p0 ++ m ++ s := by rw [ht, hm]
    rw [this, hm, ← hp0]; simp only [byteLen_append]; exact slice_append p0 m s
  unfold offsetToPosition offsetToPositionWith
  rw [hfind]; simp only [hsl]

theorem countP_split {A : List Nat} {ls off : Nat} {B : List Nat} (hA : ∀ a ∈ A, a < ls) (hls : ls ≤ off)
    (hB : ∀ b ∈ B, off < b) : (A ++ ls :: B).countP (· ≤ off) = A.length + 1 := by
  rw [List.countP_append, List.countP_cons]
  have h1 : A.countP (· ≤ off) = A.length := by
    rw [List.countP_eq_length]; intro a ha; have := hA a ha; simp; omega
  have h2 : B.countP (· ≤ off) = 0 := by
    rw [List.countP_eq_zero]; intro b hb; have := hB b hb; simp; omega
  rw [h1, h2]; simp [hls]

/-- `compute_line_column` is the same lookup as in position.rs, reported 1-based with a byte column -/
theorem computeLineColumn_eq (S : List Nat) (off : Nat) :
    computeLineColumn S off = (findLine S off).map (fun r => (r.1 + 1, off - r.2 + 1)) := by
  unfold computeLineColumn findLine
  cases binarySearch S off with
  | ok k => simp
  | err k =>
    by_cases hk : k = 0
    · simp [hk]
    · simp only [hk, if_false]
      cases S[k - 1]? with
      | none => rfl
      | some ls => simp; omega

/-! ### which offsets are line starts -/

theorem not_endsLine_nil (s : Text) : ¬ EndsLine [] s := by
  rintro (⟨q, h⟩ | ⟨q, h, _⟩) <;> simp at h

theorem endsLine_cons (c : Char) {p s : Text} (h : EndsLine p s) : EndsLine (c :: p) s := by
  rcases h with ⟨q, h⟩ | ⟨q, h, h2⟩
  · exact Or.inl ⟨c :: q, by simp [h]⟩
  · exact Or.inr ⟨c :: q, by simp [h], h2⟩

theorem endsLine_tail {c : Char} {p s : Text} (hp : p ≠ []) (h : EndsLine (c :: p) s) : EndsLine p s := by
  rcases h with ⟨q, h⟩ | ⟨q, h, h2⟩
  · cases q with
    | nil => simp at h; exact absurd h.2 hp
    | cons c' q' => simp at h; exact Or.inl ⟨q', h.2⟩
  · cases q with
    | nil => simp at h; exact absurd h.2 hp
    | cons c' q' => simp at h; exact Or.inr ⟨q', h.2, h2⟩

theorem endsLine_singleton {c : Char} {s : Text} (h : EndsLine [c] s) :
    c = '\n' ∨ (c = '\r' ∧ s.head? ≠ some '\n') := by
  rcases h with ⟨q, h⟩ | ⟨q, h, h2⟩
  · cases q with
    | nil => simp at h; exact Or.inl h
    | cons c' q' => simp at h
  · cases q with
    | nil => simp at h; exact Or.inr ⟨h, h2⟩
    | cons c' q' => simp at h

/-- a recorded line start is the end of a prefix that ends with a complete line terminator -/
theorem mem_lineStartsFrom_endsLine {pos : Nat} {t : Text} {x : Nat} (h : x ∈ lineStartsFrom pos t) :
    ∃ p s, t = p ++ s ∧ x = pos + byteLen p ∧ EndsLine p s := by
  fun_induction lineStartsFrom pos t with
  | case1 pos => simp at h
  | case2 pos rest ih =>
    rcases List.mem_cons.mp h with h | h
    · exact ⟨['\n'], rest, rfl, by simp [h, utf8Len_lf], Or.inl ⟨[], rfl⟩⟩
    · rcases ih h with ⟨p, s, hp, hx, he⟩
      exact ⟨'\n' :: p, s, by simp [hp], by simp [hx, utf8Len_lf]; omega, endsLine_cons _ he⟩
  | case3 pos rest' _ ih =>
    rcases List.mem_cons.mp h with h | h
    · exact ⟨['\r', '\n'], rest', rfl, by simp [h, utf8Len_lf, utf8Len_cr], Or.inl ⟨['\r'], rfl⟩⟩
    · rcases ih h with ⟨p, s, hp, hx, he⟩
      exact ⟨'\r' :: '\n' :: p, s, by simp [hp], by simp [hx, utf8Len_lf, utf8Len_cr]; omega,
        endsLine_cons _ (endsLine_cons _ he)⟩
  | case4 pos d rest' hd _ ih =>
    rcases List.mem_cons.mp h with h | h
    · exact ⟨['\r'], d :: rest', rfl, by simp [h, utf8Len_cr], Or.inr ⟨[], rfl, by simp [hd]⟩⟩
    · rcases ih h with ⟨p, s, hp, hx, he⟩
      exact ⟨'\r' :: p, s, by simp [hp], by simp [hx, utf8Len_cr]; omega, endsLine_cons _ he⟩
  | case5 pos _ =>
    simp at h
    exact ⟨['\r'], [], rfl, by simp [h, utf8Len_cr], Or.inr ⟨[], rfl, by simp⟩⟩
  | case6 pos c rest _ _ ih =>
    rcases ih h with ⟨p, s, hp, hx, he⟩
    exact ⟨c :: p, s, by simp [hp], by simp [hx]; omega, endsLine_cons _ he⟩

/-- every prefix that ends with a complete line terminator is recorded -/
theorem lineStartsFrom_of_endsLine (pos : Nat) (t : Text) :
    ∀ p s, t = p ++ s → EndsLine p s → pos + byteLen p ∈ lineStartsFrom pos t := by
  fun_induction lineStartsFrom pos t with
  | case1 pos =>
    intro p s ht he
    have : p = [] := by cases p <;> simp_all
    subst this; exact absurd he (not_endsLine_nil s)
  | case2 pos rest ih =>
    intro p s ht he
    cases p with
    | nil => exact absurd he (not_endsLine_nil s)
    | cons c p' =>
      simp at ht
      rcases ht with ⟨hc, hrest⟩
      subst hc
      by_cases hp' : p' = []
      · subst hp'; simp [utf8Len_lf]
      · have := ih p' s hrest (endsLine_tail hp' he)
        apply List.mem_cons_of_mem
        have e : pos + byteLen ('\n' :: p') = pos + 1 + byteLen p' := by simp [utf8Len_lf]; omega
        rw [e]; exact this
  | case3 pos rest' _ ih =>
    intro p s ht he
    cases p with
    | nil => exact absurd he (not_endsLine_nil s)
    | cons c p' =>
      simp at ht
      rcases ht with ⟨hc, hrest⟩
      subst hc
      cases p' with
      | nil =>
        simp at hrest
        rcases endsLine_singleton he with h | ⟨_, h⟩
        · exact absurd h (by decide)
        · rw [← hrest] at h; simp at h
      | cons c2 p'' =>
        simp at hrest
        rcases hrest with ⟨hc2, hrest⟩
        subst hc2
        by_cases hp'' : p'' = []
        · subst hp''; simp [utf8Len_lf, utf8Len_cr]
        · have he2 := endsLine_tail hp'' (endsLine_tail (by simp) he)
          have := ih p'' s hrest he2
          apply List.mem_cons_of_mem
          have e : pos + byteLen ('\r' :: '\n' :: p'') = pos + 2 + byteLen p'' := by
            simp [utf8Len_lf, utf8Len_cr]; omega
          rw [e]; exact this
  | case4 pos d rest' hd _ ih =>
    intro p s ht he
    cases p with
    | nil => exact absurd he (not_endsLine_nil s)
    | cons c p' =>
      simp at ht
      rcases ht with ⟨hc, hrest⟩
      subst hc
      by_cases hp' : p' = []
      · subst hp'; simp [utf8Len_cr]
      · have := ih p' s hrest (endsLine_tail hp' he)
        apply List.mem_cons_of_mem
        have e : pos + byteLen ('\r' :: p') = pos + 1 + byteLen p' := by simp [utf8Len_cr]; omega
        rw [e]; exact this
  | case5 pos _ =>
    intro p s ht he
    cases p with
    | nil => exact absurd he (not_endsLine_nil s)
    | cons c p' =>
      simp at ht
      rcases ht with ⟨hc, hrest⟩
      subst hc
      have : p' = [] := by cases p' <;> simp_all
      subst this; simp [utf8Len_cr]
  | case6 pos c rest hc1 hc2 ih =>
    intro p s ht he
    cases p with
    | nil => exact absurd he (not_endsLine_nil s)
    | cons c' p' =>
      simp at ht
      rcases ht with ⟨hc, hrest⟩
      subst hc
      by_cases hp' : p' = []
      · subst hp'
        rcases endsLine_singleton he with h | ⟨h, _⟩
        · exact absurd h hc1
        · exact absurd h hc2
      · have := ih p' s hrest (endsLine_tail hp' he)
        have e : pos + byteLen (c :: p') = pos + utf8Len c + byteLen p' := by simp; omega
        rw [e]; exact this

end Dora.Position
