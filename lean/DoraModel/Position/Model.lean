/-
Model of dora-language-server/src/position.rs and of `compute_line_starts` / `compute_line_column`
in dora-parser/src/lib.rs (C20).

A text is a `List Char` (Lean `Char` = Unicode scalar value = Rust `char`); a `&str` is its UTF-8
encoding, so byte offsets are sums of `utf8Len`. Offsets, lines and columns are `Nat`: the Rust code
uses `u32`/`usize`; for texts shorter than 2^32 bytes no cast truncates and no addition overflows
(assumption stated in the evidence file).
Function by function transcription; a Rust panic (slice out of range / not on a char boundary,
index out of range, `idx - 1` underflow) is `none`, never a default value.
-/
namespace Dora.Position

abbrev Text := List Char

/-- `char::len_utf8` -/
def utf8Len (c : Char) : Nat :=
  if c.toNat < 0x80 then 1 else if c.toNat < 0x800 then 2 else if c.toNat < 0x10000 then 3 else 4

/-- `char::len_utf16` -/
def utf16Len (c : Char) : Nat :=
  if c.toNat < 0x10000 then 1 else 2

/-- `str::len` of the text (bytes). -/
def byteLen : Text → Nat
  | [] => 0
  | c :: t => utf8Len c + byteLen t

/-- `str::encode_utf16().count()` -/
def utf16Count : Text → Nat
  | [] => 0
  | c :: t => utf16Len c + utf16Count t

/-- Specification notion: `off` is a character boundary of `t` (`str::is_char_boundary`, incl. `off = len`):
some prefix of the character sequence has exactly `off` bytes. -/
def IsBoundary (t : Text) (off : Nat) : Prop := ∃ p s, t = p ++ s ∧ byteLen p = off

/-- Specification notion: the prefix `p` of the text `p ++ s` ends with a complete line terminator:
`\n` (alone or as the second half of `\r\n`), or a `\r` that is not followed by `\n`. -/
def EndsLine (p s : Text) : Prop :=
  (∃ q, p = q ++ ['\n']) ∨ (∃ q, p = q ++ ['\r'] ∧ s.head? ≠ some '\n')

/-- `&s[n..]`: the text from byte offset `n`; `none` = panic (beyond the end or inside a character). -/
def dropBytes (n : Nat) : Text → Option Text
  | [] => if n = 0 then some [] else none
  | c :: t => if n = 0 then some (c :: t) else if utf8Len c ≤ n then dropBytes (n - utf8Len c) t else none

/-- `&s[..n]`; `none` = panic. -/
def takeBytes (n : Nat) : Text → Option Text
  | [] => if n = 0 then some [] else none
  | c :: t =>
    if n = 0 then some [] else if utf8Len c ≤ n then (takeBytes (n - utf8Len c) t).map (c :: ·) else none

/-- `&content[a..b]`; `none` = panic (`a > b`, `b > len`, or one of them inside a character). -/
def slice (t : Text) (a b : Nat) : Option Text :=
  if a ≤ b then (dropBytes a t).bind (takeBytes (b - a)) else none

/-- decidable form of `IsBoundary` (used by the driver only) -/
def isBoundary (t : Text) (off : Nat) : Bool := (dropBytes off t).isSome

/-! ### dora-parser/src/lib.rs -/

/-- the `while let Some(ch) = chars.next()` loop of `compute_line_starts`; `pos` is the byte offset of
the next character. `chars.peek() == Some(&'\n')` is the inner `match`. -/
def lineStartsFrom (pos : Nat) : Text → List Nat
  | [] => []
  | c :: rest =>
    if c = '\n' then (pos + 1) :: lineStartsFrom (pos + 1) rest
    else if c = '\r' then
      match rest with
      | d :: rest' =>
        if d = '\n' then (pos + 2) :: lineStartsFrom (pos + 2) rest'
        else (pos + 1) :: lineStartsFrom (pos + 1) (d :: rest')
      | [] => [pos + 1]
    else lineStartsFrom (pos + utf8Len c) rest

/-- `compute_line_starts` -/
def computeLineStarts (t : Text) : List Nat := 0 :: lineStartsFrom 0 t

/-- Result of `slice::binary_search`. -/
inductive Search where
  | ok (idx : Nat)
  | err (idx : Nat)
  deriving Repr, DecidableEq

/-- `slice::binary_search` modelled by a linear scan with the same contract on a strictly increasing
slice (which `compute_line_starts` produces — theorem `lineStarts_sorted`): `ok i` iff `xs[i] = x`,
otherwise `err i` with `i` the insertion point (number of elements `< x`). On slices that are not
sorted Rust leaves the result unspecified; the model is not meant for those. -/
def binarySearchFrom (i : Nat) (x : Nat) : List Nat → Search
  | [] => .err i
  | y :: ys => if y = x then .ok i else if x < y then .err i else binarySearchFrom (i + 1) x ys

def binarySearch (xs : List Nat) (x : Nat) : Search := binarySearchFrom 0 x xs

/-- `compute_line_column` (1-based line, 1-based byte column). `line_starts[idx - 1]` with `idx = 0`
panics (`none`); it cannot happen when `line_starts[0] = 0`. -/
def computeLineColumn (starts : List Nat) (offset : Nat) : Option (Nat × Nat) :=
  match binarySearch starts offset with
  | .ok idx => some (idx + 1, 1)
  | .err idx =>
    if idx = 0 then none else
    match starts[idx - 1]? with
    | some lineStart => some (idx, offset - lineStart + 1)
    | none => none

/-! ### dora-language-server/src/position.rs -/

/-- the `let (line_idx, line_start) = match result { Ok(idx) => (idx, offset), Err(idx) => (idx - 1,
line_starts[idx - 1]) }` of `utf8_offset_to_utf16_position`; `idx - 1` with `idx = 0` panics. -/
def findLine (starts : List Nat) (offset : Nat) : Option (Nat × Nat) :=
  match binarySearch starts offset with
  | .ok idx => some (idx, offset)
  | .err idx =>
    if idx = 0 then none else
    match starts[idx - 1]? with
    | some ls => some (idx - 1, ls)
    | none => none

/-- `utf8_offset_to_utf16_position` → `(line, character)` -/
def offsetToPositionWith (t : Text) (starts : List Nat) (offset : Nat) : Option (Nat × Nat) :=
  match findLine starts offset with
  | none => none
  | some (lineIdx, lineStart) =>
    match slice t lineStart offset with
    | none => none
    | some linePrefix => some (lineIdx, utf16Count linePrefix)

/-- the `for ch in line_content.chars()` loop of `utf16_position_to_utf8_offset`:
returns `current_utf8_offset` after the loop. -/
def walkCols (col : Nat) : Text → Nat → Nat → Nat
  | [], _, u8 => u8
  | c :: rest, u16, u8 =>
    if u16 ≥ col then u8 else walkCols col rest (u16 + utf16Len c) (u8 + utf8Len c)

/-- `let line_end = if line + 1 < line_starts.len() { line_starts[line + 1] } else { content.len() }` -/
def lineEndOf (t : Text) (starts : List Nat) (line : Nat) : Option Nat :=
  if line + 1 < starts.length then starts[line + 1]? else some (byteLen t)

/-- `utf16_position_to_utf8_offset` -/
def positionToOffsetWith (t : Text) (starts : List Nat) (line col : Nat) : Option Nat :=
  if line ≥ starts.length then some (byteLen t) else
  match starts[line]? with
  | none => none
  | some lineStart =>
    match lineEndOf t starts line with
    | none => none
    | some lineEnd =>
      match slice t lineStart lineEnd with
      | none => none
      | some lineContent =>
        if col = 0 then some lineStart else some (lineStart + walkCols col lineContent 0 0)

/-- what the server does: `line_starts = compute_line_starts(content)` is stored next to the content. -/
def offsetToPosition (t : Text) (offset : Nat) : Option (Nat × Nat) :=
  offsetToPositionWith t (computeLineStarts t) offset

def positionToOffset (t : Text) (line col : Nat) : Option Nat :=
  positionToOffsetWith t (computeLineStarts t) line col

/-- `span_to_range`: `((startLine, startCol), (endLine, endCol))` for the span `[s, e)`. -/
def spanToRange (t : Text) (s e : Nat) : Option ((Nat × Nat) × (Nat × Nat)) :=
  match offsetToPosition t s, offsetToPosition t e with
  | some a, some b => some (a, b)
  | _, _ => none

/-- lexicographic order on positions (`lsp_types::Position: Ord`) -/
def posLe (a b : Nat × Nat) : Prop := a.1 < b.1 ∨ (a.1 = b.1 ∧ a.2 ≤ b.2)

end Dora.Position
