import DoraModel.X64.ArrayFinal
import DoraModel.Gen.X64Addr0
import DoraModel.Gen.X64Addr1
import DoraModel.Gen.X64Addr2
import DoraModel.Gen.X64Addr3
import DoraModel.Gen.X64Addr4
import DoraModel.Gen.X64Addr5
import DoraModel.Gen.X64Addr6
import DoraModel.Gen.X64Addr7
import DoraModel.Gen.X64Addr8
import DoraModel.Gen.X64Addr9
import DoraModel.Gen.X64Addr10
import DoraModel.Gen.X64Addr11
import DoraModel.Gen.X64Addr12
/-!
# C07 — the address-taking assembler methods (sentence 1 of the property, memory operands)

The per-method theorems themselves are GENERATED from `dora-asm/src/x64.rs` on every run (`Gen/X64Addr*.lean`, written
by `tools/rs2lean_x64.py`, counted as obligations and axiom-audited by `checks/c07.py` like `Gen/X64Thm*.lean`): for
each method `m` with operand kinds register+address (`ra`, `ar`), xmm+address (`xa`, `ax`) or xmm+xmm+address (`xxa`)

* `m_addr`      — relative to the ModRM interface: both `has_avx2` values × all 16 registers (16 × 16 for `xxa`) × every
                  `Address` shape (REX.X, REX.B, 1–6 bytes, arbitrary byte values) × every memory operand the reference
                  decoder reads those address bytes as: the method's bytes decode to exactly the Spec entry with that
                  operand, nothing left over; refused when the `has_avx2` guard fails;
* `m_offset_ok`, `m_index_ok`, `m_array_ok`, `m_rip_ok` — the same for the addresses the four constructors build: all
                  bases / index registers / scales the constructor accepts and **every** i32 displacement
                  (`MethodOk`: guard ⇒ `viaCtor … = .ok (want (Spec.m …))`, ¬guard ⇒ refused).

This file adds what the generated corollaries leave open about the constructors: the operands they refuse.
-/
namespace Dora.X64.C07
open Dora.X64 Dora.X64.Dec

/-- `Address::array` refuses rsp and r12 as index register (they cannot be told apart from "no index" in the SIB byte
the way the constructor builds it): every base, every scale, every i32 displacement. -/
theorem address_array_refuses_rsp_r12 (base index : Fin 16) (hi : index.val = 4 ∨ index.val = 12) (scale : Fin 4)
    (disp : Int32) : isError (Address.array (R base) (R index) (Sn scale.val) disp) = true :=
  address_array_refuses base index hi scale disp

example : isError (Address.array (R 3) (R 12) (Sn 1) 64) = true := address_array_refuses_rsp_r12 3 12 (Or.inr rfl) 1 64

/-- a method called with an address whose constructor refused its operands is refused as a whole (nothing is emitted
for a request that cannot be encoded): any method, any constructor call. -/
theorem refused_address_refuses_method (e : Address → Except String Dec.Bytes) (c : Except String Address)
    (h : isError c = true) : isError (viaCtor e c) = true :=
  methodOk_refused h

example : isError (viaCtor (fun a => enc false (movq_ra (R 0) a)) (Address.index (R 4) (Sn 0) 8)) = true :=
  refused_address_refuses_method _ _ (address_index_refuses_rsp 0 8)

/-- what `MethodOk` gives for a concrete call: `lea r9, [r12 - 129]` is `4D 8D 8C 24 7F FF FF FF` and decodes to the
requested instruction (non-vacuity of the generated statements, spelled out once by hand). -/
theorem lea_instance :
    viaCtor (fun a => enc false (lea (R 9) a)) (Address.offset (R 12) (-129))
      = .ok (some ({ mnem := .lea, sz := some .q, ops := [.reg .q 9, .mem (some 12) none (-129)] }, [])) :=
  (lea_offset_ok false 9 12 (-129)).1 rfl

example : (Address.offset (R 12) (-129)).bind (fun a => enc false (lea (R 9) a))
    = .ok [0x4D, 0x8D, 0x8C, 0x24, 0x7F, 0xFF, 0xFF, 0xFF] := by kernel_rfl

end Dora.X64.C07
