import DoraModel.Gc.Header
import DoraModel.Gc.HeapLemmas
import Std.Tactic.BVDecide
/-!
# C03 — Garbage collection is invisible to programs and reclaims garbage

Property theorems only.

Section `HeaderWord`: the algebra of the object header word (model `DoraModel/Gc/Header.lean`, a
transcription of `HeaderWord` in dora-runtime/src/mirror.rs tied to the real code by `h_c03`).
State item "object header word: compressed shape pointer | mark bit | remembered bit, or forwarding
pointer (low bit set)"; mechanism "forwarding pointers installed by CAS in the header word".
-/
namespace DoraModel.C03

section HeaderWord
open DoraModel.Gc.Header

/-- unfold the named constants of the model to literals, then decide the bit-vector goal by SAT
(`bv_decide`; its LRAT certificate checker is compiled natively: axiom `…bv_decide.ax_…` / `Lean.ofReduceBool`) -/
local macro "hw_decide" : tactic =>
  `(tactic| ((try simp only [Word, FWDPTR_BIT, METADATA_OFFSET, MARK_BIT_SHIFT, MARK_BIT, REMEMBERED_BIT_SHIFT,
      REMEMBERED_BIT, LOW32, HIGH32, SENTINEL_BITS, SENTINEL_VALUE, boolWord_eq] at *) <;> bv_decide (timeout := 600)))

/-- `a` and `b` agree on every bit outside `mask` -/
@[reducible] def SameOutside (mask a b : Word) : Prop := a &&& ~~~mask = b &&& ~~~mask

/-! ### 1. A freshly computed word is a shape word -/

/-- "No reachable object is … corrupted" / state item "compressed shape pointer | mark bit | remembered
bit": for a shape at an even offset below 2^32 from the shape base (shapes are at least 2-aligned and
the shape area is smaller than 4 GiB — the hypotheses `h32`, `heven`), `compute_word` succeeds, the word
is never a forwarding word (bit 0 clear) and `vtblptr_or_fwdptr` decodes it to exactly the shape it was
made from, whatever the mark / remembered flags. -/
theorem fresh_word_is_shape_word (vtblptr shapeBase : Word) (m r : Bool)
    (hge : shapeBase ≤ vtblptr)
    (h32 : vtblptr - shapeBase < 0x100000000#64)
    (heven : (vtblptr - shapeBase) &&& 1#64 = 0#64) :
    ∃ w, computeWord vtblptr shapeBase m r = .ok w
      ∧ w &&& FWDPTR_BIT = 0#64
      ∧ vtblptrOrFwdptr w shapeBase = .ok (.vtblptr vtblptr) := by
  have hlt : ¬ vtblptr < shapeBase := by bv_omega
  have hov : BitVec.uaddOverflow shapeBase (vtblptr - shapeBase) = false := by
    simp [BitVec.uaddOverflow]; bv_omega
  have hadd : shapeBase + (vtblptr - shapeBase) = vtblptr := by bv_omega
  have hbits : ∀ c : Word, c < 0x100000000#64 → c &&& 1#64 = 0#64 →
      (c ||| SENTINEL_BITS ||| boolWord m <<< MARK_BIT_SHIFT ||| boolWord r <<< REMEMBERED_BIT_SHIFT)
          &&& FWDPTR_BIT = 0#64
      ∧ (c ||| SENTINEL_BITS ||| boolWord m <<< MARK_BIT_SHIFT ||| boolWord r <<< REMEMBERED_BIT_SHIFT)
          &&& LOW32 = c := by
    clear hge h32 heven hlt hov hadd; intro c h32 heven; hw_decide
  obtain ⟨hbit, hlow⟩ := hbits _ h32 heven
  refine ⟨_, by simp [computeWord, offsetFrom, hlt, bind, Except.bind, pure, Except.pure] <;> rfl, hbit, ?_⟩
  simp [vtblptrOrFwdptr, offset, hbit, hlow, hov, hadd, bind, Except.bind, pure, Except.pure]

example : computeWord 0x7f0000001238#64 0x7f0000000000#64 true false = .ok 0xfffffffd00001238#64
    ∧ vtblptrOrFwdptr 0xfffffffd00001238#64 0x7f0000000000#64 = .ok (.vtblptr 0x7f0000001238#64) :=
  ⟨rfl, rfl⟩

/-- "… or corrupted": the fields of a fresh word read back what was put in — the flags, the
compressed shape pointer and the sentinel `0xFFFF_FFFC` the heap verifier looks for. -/
theorem fresh_word_fields (vtblptr shapeBase : Word) (m r : Bool) (w : Word)
    (h32 : vtblptr - shapeBase < 0x100000000#64)
    (h : computeWord vtblptr shapeBase m r = .ok w) :
    isMarked w = m ∧ isRemembered w = r ∧ compressedVtblptr w = vtblptr - shapeBase
      ∧ sentinel w = SENTINEL_VALUE := by
  unfold computeWord offsetFrom at h
  by_cases hlt : vtblptr < shapeBase
  · simp [hlt, bind, Except.bind] at h
  · simp only [hlt, if_false, bind, Except.bind, pure, Except.pure, Except.ok.injEq] at h
    subst h
    simp only [isMarked, isRemembered, compressedVtblptr, sentinel]
    generalize vtblptr - shapeBase = c at h32 ⊢
    hw_decide

example : isMarked 0xfffffffd00001238#64 = true ∧ isRemembered 0xfffffffd00001238#64 = false
    ∧ compressedVtblptr 0xfffffffd00001238#64 = 0x1238#64 ∧ sentinel 0xfffffffd00001238#64 = 0xfffffffc#64 := by
  decide

/-! ### 2. An installed forwarding pointer decodes to the address installed -/

/-- "moved without every reference … being updated": the collectors find the new location of a moved
object through `vtblptr_or_fwdptr`; for every aligned address (bit 0 clear) the word written by
`install_fwdptr` decodes to exactly that address, whatever the shape base. -/
theorem installed_fwdptr_decodes (a shapeBase : Word) (ha : a &&& 1#64 = 0#64) :
    vtblptrOrFwdptr (installFwdptr a) shapeBase = .ok (.fwdptr a) := by
  have h12 : ((a ||| 1#64) &&& 1#64 != 0#64) = true ∧ (a ||| 1#64) &&& ~~~1#64 = a := by hw_decide
  obtain ⟨h1, h2⟩ := h12
  simp [vtblptrOrFwdptr, installFwdptr, h1, h2, pure, Except.pure]

example : vtblptrOrFwdptr (installFwdptr 0x7f00deadbee8#64) 0x1000#64 = .ok (.fwdptr 0x7f00deadbee8#64) :=
  installed_fwdptr_decodes _ _ (by decide)

/-! ### 3. Mark / remembered operations touch only their own bits -/

/-- "… or corrupted": words that agree outside the mark and remembered bits have the same compressed
shape pointer, the same sentinel and the same bit 0, and — for a shape word — decode to the same shape. -/
theorem sameOutside_fields (a b : Word) (h : SameOutside (MARK_BIT ||| REMEMBERED_BIT) a b) :
    compressedVtblptr a = compressedVtblptr b ∧ sentinel a = sentinel b
      ∧ a &&& FWDPTR_BIT = b &&& FWDPTR_BIT
      ∧ (a &&& FWDPTR_BIT = 0#64 → ∀ sb, vtblptrOrFwdptr a sb = vtblptrOrFwdptr b sb) := by
  unfold SameOutside at h
  have h123 : a &&& LOW32 = b &&& LOW32 ∧ a &&& FWDPTR_BIT = b &&& FWDPTR_BIT
      ∧ (a >>> 32) &&& 0xFFFFFFFC#64 = (b >>> 32) &&& 0xFFFFFFFC#64 := by hw_decide
  obtain ⟨h1, h2, h3⟩ := h123
  refine ⟨h1, h3, h2, ?_⟩
  intro h0 sb
  have hb : b &&& FWDPTR_BIT = 0#64 := h2 ▸ h0
  simp [vtblptrOrFwdptr, h0, hb, h1]

example : SameOutside (MARK_BIT ||| REMEMBERED_BIT) 0xfffffffd00001238#64 0xfffffffe00001238#64 := by decide

/-- `clear_mark` changes nothing but the mark bit, which then reads back clear. -/
theorem clearMark_frame (w : Word) :
    SameOutside MARK_BIT (clearMark w) w ∧ isMarked (clearMark w) = false
      ∧ isRemembered (clearMark w) = isRemembered w := by
  simp only [SameOutside, clearMark, isMarked, isRemembered]
  hw_decide

example : clearMark 0xffffffff00001238#64 = 0xfffffffe00001238#64 := by decide

/-- `set_remembered` changes nothing but the remembered bit, which then reads back set. -/
theorem setRemembered_frame (w : Word) :
    SameOutside REMEMBERED_BIT (setRemembered w) w ∧ isRemembered (setRemembered w) = true
      ∧ isMarked (setRemembered w) = isMarked w := by
  simp only [SameOutside, setRemembered, isMarked, isRemembered]
  hw_decide

example : setRemembered 0xfffffffd00001238#64 = 0xffffffff00001238#64 := by decide

/-- `clear_remembered` changes nothing but the remembered bit, which then reads back clear. -/
theorem clearRemembered_frame (w : Word) :
    SameOutside REMEMBERED_BIT (clearRemembered w) w ∧ isRemembered (clearRemembered w) = false
      ∧ isMarked (clearRemembered w) = isMarked w := by
  simp only [SameOutside, clearRemembered, isMarked, isRemembered]
  hw_decide

example : clearRemembered 0xffffffff00001238#64 = 0xfffffffd00001238#64 := by decide

/-- `try_mark` changes at most the mark and the remembered bit (claimed or not). -/
theorem tryMark_frame (w : Word) :
    SameOutside (MARK_BIT ||| REMEMBERED_BIT) (tryMark w).2 w := by
  unfold tryMark SameOutside
  split
  · simp only [markNext]; hw_decide
  · rfl

example : (tryMark 0xfffffffe00001238#64).2 = 0xfffffffd00001238#64 := by decide

/-- A successful `try_mark` CLEARS the remembered bit (`next = (current & !REMEMBERED_BIT) | MARK_BIT`).
This is why a missing old-to-young write barrier is not repaired by a full mark: state item "remembered bit". -/
theorem tryMark_clears_remembered (w : Word) (h : (tryMark w).1 = true) :
    isRemembered (tryMark w).2 = false ∧ isMarked (tryMark w).2 = true := by
  unfold tryMark at h ⊢
  split
  · simp only [markNext, isRemembered, isMarked]; hw_decide
  · rename_i hm; simp [hm] at h

example : (tryMark 0xfffffffe00001238#64).1 = true ∧ isRemembered 0xfffffffe00001238#64 = true
    ∧ isRemembered (tryMark 0xfffffffe00001238#64).2 = false := by decide

/-- Marking a FORWARDING word is not harmless: bits 32/33 are part of the forwarding address, so the
frame property for shape words (`sameOutside_fields`) is the most that holds — the collectors must
never mark through a forwarded header. Witness that the restriction to shape words is needed. -/
theorem tryMark_on_forwarding_word_changes_target :
    ∃ a : Word, a &&& 1#64 = 0#64 ∧
      vtblptrOrFwdptr (tryMark (installFwdptr a)).2 0#64 ≠ vtblptrOrFwdptr (installFwdptr a) 0#64 :=
  ⟨0x7000#64, by decide, fun h => by
    have h' : (Except.ok (Kind.fwdptr 0x100007000#64) : Except String Kind) = .ok (Kind.fwdptr 0x7000#64) := h
    simp at h'⟩

/-! ### 4. Forwarding by compare-and-swap -/

/-- mechanism "forwarding pointers installed by CAS in the header word": `try_install_fwdptr` succeeds
iff the word at CAS time is still the expected shape word — the metadata half (mark, remembered,
sentinel) as read and the low half equal to the compressed expected shape. -/
theorem tryInstall_succeeds_iff (cur actual ev sb na : Word)
    (hge : sb ≤ ev) (h32 : ev - sb < 0x100000000#64) :
    ∃ o, tryInstallFwdptr cur actual ev sb na = .ok o
      ∧ o.expected = (cur &&& HIGH32) ||| (ev - sb)
      ∧ (o.result = .forwarded ↔ (actual &&& HIGH32 = cur &&& HIGH32 ∧ actual &&& LOW32 = ev - sb)) := by
  have hlt : ¬ ev < sb := by bv_omega
  have hsplit : (actual = (cur &&& HIGH32) ||| (ev - sb))
      ↔ (actual &&& HIGH32 = cur &&& HIGH32 ∧ actual &&& LOW32 = ev - sb) := by
    generalize ev - sb = c at h32 ⊢
    hw_decide
  by_cases hc : actual = (cur &&& HIGH32) ||| (ev - sb)
  · refine ⟨{ expected := (cur &&& HIGH32) ||| (ev - sb), word := na ||| 1#64, result := .forwarded }, ?_, rfl, ?_⟩
    · simp [tryInstallFwdptr, offsetFrom, hlt, hc, bind, Except.bind, pure, Except.pure]
    · exact ⟨fun _ => hsplit.mp hc, fun _ => rfl⟩
  · refine ⟨{ expected := (cur &&& HIGH32) ||| (ev - sb), word := actual,
              result := .alreadyForwarded (actual &&& ~~~1#64) }, ?_, rfl, ?_⟩
    · simp [tryInstallFwdptr, offsetFrom, hlt, hc, bind, Except.bind, pure, Except.pure]
    · exact ⟨fun h => by simp at h, fun h => absurd (hsplit.mpr h) hc⟩

example : tryInstallFwdptr 0xfffffffd00001238#64 0xfffffffd00001238#64 0x7f0000001238#64 0x7f0000000000#64 0x7000#64
    = .ok { expected := 0xfffffffd00001238#64, word := 0x7001#64, result := .forwarded } := rfl

/-- After a successful `try_install_fwdptr` the word is `new_address | 1` and, for an aligned new
address, decodes to `.fwdptr newAddress`: every later reader is sent to the copy. -/
theorem tryInstall_success_decodes (cur actual ev sb na : Word) (o : FwdOutcome)
    (h : tryInstallFwdptr cur actual ev sb na = .ok o) (hres : o.result = .forwarded)
    (hal : na &&& 1#64 = 0#64) :
    o.word = installFwdptr na ∧ ∀ sb', vtblptrOrFwdptr o.word sb' = .ok (.fwdptr na) := by
  have hw : o.word = installFwdptr na := by
    unfold tryInstallFwdptr offsetFrom at h
    by_cases hlt : ev < sb
    · simp [hlt, bind, Except.bind] at h
    · simp only [hlt, if_false, bind, Except.bind, pure, Except.pure] at h
      split at h
      · simp only [Except.ok.injEq] at h; subst h; rfl
      · simp only [Except.ok.injEq] at h; subst h; simp at hres
  exact ⟨hw, fun sb' => hw ▸ installed_fwdptr_decodes na sb' hal⟩

example : vtblptrOrFwdptr 0x7001#64 0x7f0000000000#64 = .ok (.fwdptr 0x7000#64) := rfl

/-- If the word at CAS time is already a forwarding word (bit 0 set) and the expected shape offset is
even, the CAS cannot succeed: the installer gets `AlreadyForwarded` with exactly the address in the
word, and the word is left unchanged. Holds whatever the installer had read earlier (`cur`). -/
theorem forwarded_word_cas_fails (cur actual ev sb nb : Word)
    (hge : sb ≤ ev) (heven : (ev - sb) &&& 1#64 = 0#64) (hfwd : actual &&& 1#64 = 1#64) :
    ∃ o, tryInstallFwdptr cur actual ev sb nb = .ok o
      ∧ o.result = .alreadyForwarded (actual &&& ~~~1#64) ∧ o.word = actual := by
  have hlt : ¬ ev < sb := by bv_omega
  have hne : ¬ actual = (cur &&& HIGH32) ||| (ev - sb) := by
    intro h; subst h; hw_decide
  exact ⟨{ expected := (cur &&& HIGH32) ||| (ev - sb), word := actual,
           result := .alreadyForwarded (actual &&& ~~~1#64) },
    by simp [tryInstallFwdptr, offsetFrom, hlt, hne, bind, Except.bind, pure, Except.pure], rfl, rfl⟩

example : tryInstallFwdptr1 0x7001#64 0x7f0000001238#64 0x7f0000000000#64 0x9000#64
    = .ok { expected := 0x1238#64, word := 0x7001#64, result := .alreadyForwarded 0x7000#64 } := rfl

/-- "moved without every reference … being updated": two installers race for one object. Once the
first has installed the aligned address `a`, a second installer — whatever it read before (`cur2`),
whatever shape it expects (even offset) and whatever new address `b` it brings — fails, observes
exactly the first installer's address (`AlreadyForwarded a`) and leaves the word unchanged. So all
threads agree on one copy. -/
theorem second_installer_observes_first (cur actual ev sb a : Word) (o1 : FwdOutcome)
    (h1 : tryInstallFwdptr cur actual ev sb a = .ok o1) (hres : o1.result = .forwarded)
    (hal : a &&& 1#64 = 0#64)
    (cur2 ev2 b : Word) (hge2 : sb ≤ ev2) (heven2 : (ev2 - sb) &&& 1#64 = 0#64) :
    ∃ o2, tryInstallFwdptr cur2 o1.word ev2 sb b = .ok o2
      ∧ o2.result = .alreadyForwarded a ∧ o2.word = o1.word := by
  have hw := (tryInstall_success_decodes cur actual ev sb a o1 h1 hres hal).1
  have hbb : (a ||| FWDPTR_BIT) &&& 1#64 = 1#64 ∧ (a ||| FWDPTR_BIT) &&& ~~~1#64 = a := by
    clear h1 hres hge2 heven2 hw; hw_decide
  have hbit : o1.word &&& 1#64 = 1#64 := by rw [hw]; exact hbb.1
  have hback : o1.word &&& ~~~1#64 = a := by rw [hw]; exact hbb.2
  obtain ⟨o2, h2, hr, hword⟩ := forwarded_word_cas_fails cur2 o1.word ev2 sb b hge2 heven2 hbit
  exact ⟨o2, h2, by rw [hr, hback], hword⟩

example : ∃ o2, tryInstallFwdptr 0xfffffffd00001238#64 0x7001#64 0x7f0000001238#64 0x7f0000000000#64 0x9000#64 = .ok o2
    ∧ o2.result = .alreadyForwarded 0x7000#64 ∧ o2.word = 0x7001#64 :=
  second_installer_observes_first 0xfffffffd00001238#64 0xfffffffd00001238#64 0x7f0000001238#64 0x7f0000000000#64 0x7000#64
    { expected := 0xfffffffd00001238#64, word := 0x7001#64, result := .forwarded } rfl rfl (by decide)
    0xfffffffd00001238#64 0x7f0000001238#64 0x9000#64 (by decide) (by decide)

/-! ### 5. `try_mark` claims an object exactly once -/

/-- On an unmarked word the (uninterfered, non-spurious) attempt succeeds and yields a marked word. -/
theorem tryMark_unmarked (w : Word) (h : isMarked w = false) :
    tryMark w = (true, markNext w) ∧ isMarked (markNext w) = true := by
  have hz : w &&& MARK_BIT = 0#64 := by simpa [isMarked] using h
  refine ⟨by simp [tryMark, hz], ?_⟩
  simp only [isMarked, markNext]; hw_decide

example : tryMark 0xfffffffc00001238#64 = (true, 0xfffffffd00001238#64) := by decide

/-- On a marked word `try_mark` returns false and leaves the word unchanged. -/
theorem tryMark_marked (w : Word) (h : isMarked w = true) : tryMark w = (false, w) := by
  have hz : ¬ w &&& MARK_BIT = 0#64 := by simpa [isMarked] using h
  simp [tryMark, hz]

example : tryMark 0xfffffffd00001238#64 = (false, 0xfffffffd00001238#64) := by decide

/-- Two markers, linearised by the CAS, on an unmarked object: exactly one returns true — the first
claims, the second (running on the word the first left) does not, and does not change the word. -/
theorem tryMark_twice_exactly_one (w : Word) (h : isMarked w = false) :
    (tryMark w).1 = true ∧ (tryMark (tryMark w).2).1 = false
      ∧ (tryMark (tryMark w).2).2 = (tryMark w).2 := by
  obtain ⟨h1, h2⟩ := tryMark_unmarked w h
  rw [h1]
  simp [tryMark_marked _ h2]

example : (tryMark 0xfffffffe00001238#64).1 = true
    ∧ (tryMark (tryMark 0xfffffffe00001238#64).2).1 = false := by decide

/-- The same race inside the loop: both markers have read the unmarked word `w`; the other one's CAS
lands first, so this one's CAS sees `markNext w`, fails, re-reads, finds the mark and returns false
without changing the word. -/
theorem tryMarkLoop_loses_race (w : Word) (h : isMarked w = false) :
    tryMarkLoop w [(markNext w, false)] = { claimed := false, word := markNext w, attempts := 1 } := by
  have hz : w &&& MARK_BIT = 0#64 := by simpa [isMarked] using h
  have hnm : ¬ markNext w = w ∧ ¬ markNext w &&& MARK_BIT = 0#64 := by
    simp only [markNext]; hw_decide
  obtain ⟨hne, hm⟩ := hnm
  simp [tryMarkLoop, tryMarkStep, tryMark, hz, hne, hm]

example : tryMarkLoop 0xfffffffc00001238#64 [(0xfffffffd00001238#64, false)]
    = { claimed := false, word := 0xfffffffd00001238#64, attempts := 1 } := by decide

/-- Loop version: `compare_exchange_weak` may fail spuriously any finite number of times (the word in
memory still equal to what was read); the loop terminates with the same answer and the same word as
the single attempt. -/
theorem tryMarkLoop_spurious (w : Word) (script : List (Word × Bool))
    (hs : ∀ e ∈ script, e.1 = w) :
    (tryMarkLoop w script).claimed = (tryMark w).1 ∧ (tryMarkLoop w script).word = (tryMark w).2
      ∧ (tryMarkLoop w script).attempts ≤ script.length + 1 := by
  induction script with
  | nil => simp only [tryMarkLoop]; split <;> simp
  | cons e rest ih =>
    obtain ⟨actual, sp⟩ := e
    have ha : actual = w := hs (actual, sp) (by simp)
    subst ha
    have ih := ih (fun e he => hs e (by simp [he]))
    by_cases hz : actual &&& MARK_BIT = 0#64
    · cases sp
      · simp [tryMarkLoop, tryMarkStep, tryMark, hz]
      · simp only [tryMarkLoop, tryMarkStep, hz, beq_self_eq_true, Bool.not_true, Bool.and_false, if_true,
          Bool.false_eq_true, if_false, List.length_cons]
        exact ⟨ih.1, ih.2.1, by have := ih.2.2; omega⟩
    · simp [tryMarkLoop, tryMarkStep, tryMark, hz]

example : tryMarkLoop 0xfffffffe00001238#64 [(0xfffffffe00001238#64, true), (0xfffffffe00001238#64, true)]
    = { claimed := true, word := 0xfffffffd00001238#64, attempts := 3 } := by decide

/-- Whatever the other threads do to the word between the attempts (any script), the loop terminates
after at most one CAS per script entry plus one, and when it returns the word in memory is marked. -/
theorem tryMarkLoop_terminates_marked (script : List (Word × Bool)) (w : Word) :
    isMarked (tryMarkLoop w script).word = true
      ∧ (tryMarkLoop w script).attempts ≤ script.length + 1 := by
  induction script generalizing w with
  | nil =>
    simp only [tryMarkLoop, tryMark]
    split
    · refine ⟨?_, by simp⟩
      simp only [isMarked, markNext]; hw_decide
    · rename_i hz
      refine ⟨?_, by simp⟩
      simpa [isMarked] using hz
  | cons e rest ih =>
    obtain ⟨actual, sp⟩ := e
    simp only [tryMarkLoop, tryMarkStep]
    by_cases hz : w &&& MARK_BIT = 0#64
    · simp only [hz, beq_self_eq_true, if_true]
      by_cases hc : (actual == w && !sp) = true
      · simp only [hc, if_true]
        refine ⟨?_, by simp⟩
        simp only [isMarked, markNext]; hw_decide
      · have hc' : (actual == w && !sp) = false := by simpa using hc
        simp only [hc', Bool.false_eq_true, if_false, List.length_cons]
        have := ih actual
        exact ⟨this.1, by have := this.2; omega⟩
    · have hz' : (w &&& MARK_BIT == 0#64) = false := by simpa using hz
      simp only [hz']
      refine ⟨by simpa [isMarked] using hz, by simp⟩

example : tryMarkLoop 0xfffffffe00001238#64 [(0xfffffffc00001238#64, false), (0xfffffffc00001238#64, true)]
    = { claimed := true, word := 0xfffffffd00001238#64, attempts := 3 } := by decide

end HeaderWord

section CollectionValidator
open DoraModel.Gc.Heap

/-!
Section `CollectionValidator`: sentence "No reachable object is lost, moved without every reference
(stack slots, interior references, globals, handles held by native code, waiting-thread tables,
old-to-young pointers) being updated, or corrupted". The heap-dump hook writes the reachable heap
graph (roots in `iterate_strong_roots` order — stack slots, handles, globals, wait lists; interior
slots as base + offset) before and after each collection; `checkCollection` (model
`DoraModel/Gc/Heap.lean`, run natively by `drv_c03 dump` on every dumped collection) accepts the pair
only if a verified renaming of addresses exists. These theorems say what acceptance means.
-/

/-- the statement "`R` is an isomorphism between the part of `pre` reachable from its roots and the
part of `post` reachable from its roots": a partial injection that is total on reachable objects in
both directions, maps reachable to reachable, relates only existing object records that agree on
shape, size and payload hash and whose reference fields correspond in order (null to null), and
relates the root slots pairwise (interior slots with the same offset). -/
def IsoOnReachable (pre post : Heap) (R : Nat → Nat → Prop) : Prop :=
  (∀ a b b', R a b → R a b' → b = b') ∧
  (∀ a a' b, R a b → R a' b → a = a') ∧
  (∀ a, Reach pre a → ∃ b, R a b ∧ Reach post b) ∧
  (∀ b, Reach post b → ∃ a, R a b ∧ Reach pre a) ∧
  (∀ a b, R a b → ∃ oa ob, pre.find a = some oa ∧ post.find b = some ob ∧ ObjRel R oa ob) ∧
  Forall2 (RootRel R) pre.roots post.roots

/-- The verification step is sound for ANY candidate renaming `φ` (however it was found): if
`verifyMap` accepts, `φ` read as a relation is an isomorphism of the reachable parts. Closure
argument: the roots are in the domain of `φ` and the domain is closed under reference fields, so
everything reachable is in the domain (`Sim.forward`); the same for the converse relation. -/
theorem verified_renaming_is_isomorphism (pre post : Heap) (φ : List (Nat × Nat))
    (h : verifyMap pre post φ = true) : IsoOnReachable pre post (RelOf φ) := by
  have s := verifyMap_sim pre post φ h
  refine ⟨relOf_functional φ, verifyMap_injective pre post φ h, ?_, ?_, s.objs, s.roots⟩
  · intro a ha; exact s.forward ha
  · intro b hb
    obtain ⟨a, hab, ha⟩ := s.flip.forward hb
    exact ⟨a, hab, ha⟩

example :
    let pre : Heap := { roots := [⟨16, 0⟩, ⟨0, 0⟩, ⟨32, 8⟩],
                        objs := [⟨16, 7, 24, 99, [32, 0]⟩, ⟨32, 9, 16, 5, [16]⟩] }
    let post : Heap := { roots := [⟨400, 0⟩, ⟨0, 0⟩, ⟨200, 8⟩],
                         objs := [⟨400, 7, 24, 99, [200, 0]⟩, ⟨200, 9, 16, 5, [400]⟩] }
    verifyMap pre post [(16, 400), (32, 200)] = true := by decide

/-- `validator_sound`: a collection accepted by the validator preserved the reachable heap: there is a
bijection between the objects reachable before and those reachable after that preserves shape, size,
payload and every reference edge, and maps root slots to root slots (interior ones with their
offset). -/
theorem validator_sound (pre post : Heap) (h : checkCollection pre post = .ok ()) :
    ∃ R : Nat → Nat → Prop, IsoOnReachable pre post R := by
  refine ⟨RelOf (buildCandidate pre post), verified_renaming_is_isomorphism pre post _ ?_⟩
  unfold checkCollection at h
  simp only at h
  split at h
  · assumption
  · cases h

/-- "No reachable object is lost … or corrupted", spelled out for one object: every object reachable
before an accepted collection has a record after it, reachable again, with the same shape, size and
payload hash and the same number of reference fields. -/
theorem reachable_object_survives (pre post : Heap) (h : checkCollection pre post = .ok ())
    (a : Nat) (ha : Reach pre a) :
    ∃ oa b ob, pre.find a = some oa ∧ post.find b = some ob ∧ Reach post b ∧
      oa.shape = ob.shape ∧ oa.size = ob.size ∧ oa.hash = ob.hash ∧ oa.refs.length = ob.refs.length := by
  obtain ⟨R, _, _, hfw, _, hobj, _⟩ := validator_sound pre post h
  obtain ⟨b, hab, hb⟩ := hfw a ha
  obtain ⟨oa, ob, h1, h2, hs, hz, hh, hr⟩ := hobj a b hab
  exact ⟨oa, b, ob, h1, h2, hb, hs, hz, hh, forall2_length hr⟩

/-- a small moving collection: two objects referencing each other, a null root, an interior root -/
def exPre : Heap := { roots := [⟨16, 0⟩, ⟨0, 0⟩, ⟨32, 8⟩],
                      objs := [⟨16, 7, 24, 99, [32, 0]⟩, ⟨32, 9, 16, 5, [16]⟩, ⟨48, 1, 16, 1, []⟩] }
def exPost : Heap := { roots := [⟨400, 0⟩, ⟨0, 0⟩, ⟨200, 8⟩],
                       objs := [⟨200, 9, 16, 5, [400]⟩, ⟨400, 7, 24, 99, [200, 0]⟩] }

example : checkCollection exPre exPost = .ok () := by rfl
example : Reach exPre 32 := Reach.step (o := ⟨16, 7, 24, 99, [32, 0]⟩) (Reach.root (r := ⟨16, 0⟩) (by simp [exPre]) (by decide)) (by decide) (by decide) (by decide)
/-- the validator is not vacuous: a lost edge, a changed payload, a stale root are rejected -/
example : (checkCollection exPre { exPost with objs := [⟨200, 9, 16, 5, [0]⟩, ⟨400, 7, 24, 99, [200, 0]⟩] }).isOk = false := by decide
example : (checkCollection exPre { exPost with objs := [⟨200, 9, 16, 6, [400]⟩, ⟨400, 7, 24, 99, [200, 0]⟩] }).isOk = false := by decide
example : (checkCollection exPre { exPost with roots := [⟨400, 0⟩, ⟨0, 0⟩, ⟨200, 0⟩] }).isOk = false := by decide
example : (checkCollection exPre { exPost with roots := [⟨16, 0⟩, ⟨0, 0⟩, ⟨200, 8⟩] }).isOk = false := by decide

/-- nothing new becomes reachable either: every object reachable after an accepted collection is the
image of an object reachable before it (the collector did not resurrect or invent references). -/
theorem nothing_new_reachable (pre post : Heap) (h : checkCollection pre post = .ok ())
    (b : Nat) (hb : Reach post b) :
    ∃ a oa ob, Reach pre a ∧ pre.find a = some oa ∧ post.find b = some ob ∧ oa.shape = ob.shape ∧ oa.hash = ob.hash := by
  obtain ⟨R, _, _, _, hbw, hobj, _⟩ := validator_sound pre post h
  obtain ⟨a, hab, ha⟩ := hbw b hb
  obtain ⟨oa, ob, h1, h2, hs, _, hh, _⟩ := hobj a b hab
  exact ⟨a, oa, ob, ha, h1, h2, hs, hh⟩

example : Reach exPost 400 := Reach.root (r := ⟨400, 0⟩) (by simp [exPost]) (by decide)

end CollectionValidator

end DoraModel.C03
