import DoraModel.Typing.Sound
import DoraModel.Typing.ErrClass
import DoraModel.Props.C11
/-!
# C05 — only well-typed programs are compiled, and all of them are: property theorems

Model: `Dora.Typing.check` (`DoraModel/Typing/Check.lean`), a decidable type checker for the typed twin of a
MiniDora program (`DoraModel/Typing/Syntax.lean`); `eraseProg` gives the `Mini.Prog` that the reference
interpreter of C01/C02 (`Mini.runProg`) executes.  The model is tied to dora-frontend by `./check C05`:
every generator program must be accepted by both, every single-fault mutant rejected by both.

What is proved here, and what is not:
* `check` is a total, deterministic function (it is a Lean function without fuel or `partial`).
* `soundness_core`: FULL statement for the first-order core (`fragProg`): a program the checker accepts never
  gets `stuck` in the reference interpreter, for every amount of fuel.  Core = literals of type (), Bool, Int32,
  Int64; variables; all unary / binary operators except `===`/`!==`; `&&`, `||`; calls of non-generic
  top-level functions (recursion included); tuples and projection; `if` with and without `else`; blocks with
  `let [mut] x: T = e`; assignment to a variable; `while`, `break`, `continue`, `return`; `assert`.
  NOT covered (executed on every generated program by `drv_c05` instead, key `corr:soundness:stuck`):
  strings/chars/UInt8, structs, classes, enums and `match`, Option, arrays, vectors, lambdas, traits and trait
  objects, generics, `for`, globals, module functions, methods.
* `exhaustive_from_C11`: a `match` the checker calls exhaustive is exhaustive in the sense of the proven C11
  algorithm (`Dora.Match.checkExhaustive` returns no witness), hence covers every value (C11 `exhaustive_iff`).
* `mutant_<operator>_rejected_partial`: for each mutation operator of `gen/c05_mutants.py`, the construct it
  produces is rejected by the checker's rule with the operator's error class, in every context in which the
  unchanged sub-terms are well typed.  Partial: that this error is also the verdict of `check` on the WHOLE
  mutant (error propagation through the enclosing declarations) is not proved here; `drv_c05` evaluates
  `check` on every mutant and `checks/c05.py` counts a different class as `model_other_class`.
-/
set_option linter.unusedSimpArgs false
namespace Dora.Typing
open Dora.Mini

/-! ## the checker is a total deterministic function -/

/-- "`check` is total": every typed program gets a verdict (acceptance or one `TypeError`). -/
theorem check_total (p : TProg) : check p = .ok () ∨ ∃ e, check p = .error e := by
  cases h : check p with
  | ok u => exact Or.inl rfl
  | error e => exact Or.inr ⟨e, rfl⟩

/-- "`check` is deterministic": a program has exactly one verdict. -/
theorem check_deterministic (p : TProg) (r₁ r₂ : Except TypeError Unit) (h₁ : check p = r₁) (h₂ : check p = r₂) :
    r₁ = r₂ := h₁.symm.trans h₂

/-! ## soundness on the first-order core -/

/-- "Only well-typed programs are compiled" needs the static rules to mean something: a program of the
    first-order core that the checker accepts never reaches the outcome `stuck` (a dynamically ill-typed
    operation) in the reference interpreter - it ends with a value / exit status, a documented trap, a fatal
    error, or runs out of fuel.  For every fuel. -/
theorem soundness_core (p : TProg) (hcore : fragProg p = true) (hck : check p = .ok ()) (fuel : Nat) (msg : String) :
    (runProg (eraseProg p) fuel).2.1 ≠ .stuck msg :=
  run_not_stuck hcore hck fuel msg

/-- a program of the core: `fn fact(n: Int64, acc: Int64): Int64 { if n <= 0 { return acc; }; fact(n - 1, acc * n) }`
    and `fn main(): Int32 { let mut i: Int64 = 0; while i < 3 { i = i + 1; }; assert(fact(i, 1) == 6); 0i32 }` -/
def exCore : TProg :=
  { fns := [
      { name := "fact", params := [("n", .i64), ("acc", .i64)], ret := .i64,
        body := .block [
          .ite (.bin (.cmp .le) (.var "n") (.lit (.i64 0))) (.block [.ret (some (.var "acc"))]) none,
          .call "fact" [] [.bin .sub (.var "n") (.lit (.i64 1)), .bin .mul (.var "acc") (.var "n")]] },
      { name := "main", ret := .i32,
        body := .block [
          .at 2 (.letE (.var "i" true) (some .i64) (.lit (.i64 0))),
          .while (.bin (.cmp .lt) (.var "i") (.lit (.i64 3)))
            (.block [.assign (.var "i") (.bin .add (.var "i") (.lit (.i64 1))), .lit .unit]),
          .assert (.bin (.cmp .eq) (.call "fact" [] [.var "i", .lit (.i64 1)]) (.lit (.i64 6))),
          .lit (.i32 0)] }] }

/-- non-vacuity: the example is in the core and is accepted -/
example : fragProg exCore = true := by decide +kernel
example : errClass (check exCore) = "ok" := by decide +kernel
/-- and it really runs: exit status 0 with enough fuel -/
example : (match (runProg (eraseProg exCore) 40).2.1 with | .exit 0 => true | _ => false) = true := by decide +kernel
/-- the same program with `acc * true` is rejected with the class "type mismatch" -/
example : (match check { exCore with fns := exCore.fns.map fun f =>
      if f.name == "fact" then { f with body := .block [.bin .mul (.var "acc") (.lit (.bool true))] } else f } with
    | .error (.typeMismatch _) => true | _ => false) = true := by decide +kernel

/-! ## exhaustiveness is the proven C11 algorithm -/

/-- "non-exhaustive match … is rejected": a `match` is accepted by `synth` only if `exhaustive` holds, and
    `exhaustive` is by definition "the C11 algorithm returns no witness" on the converted one-column matrix.
    With C11's `exhaustive_iff` (hypotheses: inhabited declaration table, well-typed matrix) every value of the
    scrutinee type is then matched by some arm. -/
theorem exhaustive_from_C11 (p : TProg) (t : Ty) (pats : List TPat) (h : exhaustive p t pats = true) :
    let tab := (toMatchTy p 16 t []).2
    let env := Match.envOf (tab.map (·.2))
    Match.checkExhaustive env 64 (matchRows p tab t 0 pats) 1 = .ok [] ∧
    ∀ (mt : Match.Ty), Match.Inh env → Match.matrixWT env (matchRows p tab t 0 pats) [mt] →
      ∀ v, Match.hasTypes env [v] [mt] = true → ∃ r ∈ matchRows p tab t 0 pats, Match.matchRow false r [v] = true := by
  intro tab env
  have hce : Match.checkExhaustive env 64 (matchRows p tab t 0 pats) 1 = .ok [] := by
    unfold exhaustive at h
    simp only at h
    split at h
    · next heq => exact heq
    · cases h
  refine ⟨hce, ?_⟩
  intro mt hinh hwt v hv
  exact (Match.C11.exhaustive_iff hinh 64 _ 1 [mt] [] hwt rfl hce).mp rfl [v] hv

/-- a `match` expression whose arms are well typed but do not cover the scrutinee type is rejected with the
    class "non-exhaustive match" (operator `drop_arm`) -/
theorem mutant_drop_arm_rejected_partial (p : TProg) (Γ : Ctx) (e : TExpr) (arms : List (TPat × TExpr)) (t rt : Ty)
    (he : synth p Γ e = .ok t) (ha : synthArms p Γ t arms = .ok (some rt))
    (hne : exhaustive p t (arms.map (·.1)) = false) :
    errClass (synth p Γ (.matchE e arms)) = "nonExhaustiveMatch" := by
  simp [synth, he, ha, hne, ok_bind, err_bind, throw_eq, map_error, errClass_error, TypeError.className]

/-- non-vacuity: `match b { true => 1 }` on a Bool is not exhaustive, with both arms it is -/
example : exhaustive {} .bool [.lit (.bool true)] = false := by decide +kernel
example : exhaustive {} .bool [.lit (.bool true), .lit (.bool false)] = true := by decide +kernel

/-! ## one rejection lemma per mutation operator (local form, see the file header) -/

/-- operators `lit_bool` / `lit_str`: an Int32/Int64 operand of an arithmetic, bitwise, shift or comparison
    operator replaced by a Bool or String literal - "type mismatch" -/
theorem mutant_lit_bool_rejected_partial (p : TProg) (Γ : Ctx) (op : BinOp) (a : TExpr) (ta : Ty) (l : Lit)
    (hop : op ≠ .is ∧ op ≠ .isnot) (ha : synth p Γ a = .ok ta) (hta : ta = .i32 ∨ ta = .i64)
    (hl : (∃ b, l = .bool b) ∨ (∃ s, l = .str s)) :
    (errClass (synth p Γ (.bin op a (.lit l))) = "typeMismatch") ∧
    (errClass (synth p Γ (.bin op (.lit l) a)) = "typeMismatch") := by
  obtain ⟨h1, h2⟩ := hop
  rcases hta with rfl | rfl <;> rcases hl with ⟨b, rfl⟩ | ⟨s, rfl⟩ <;>
    (constructor <;> simp only [synth, ha, litTy] <;>
      cases op <;> first | exact absurd rfl h1 | exact absurd rfl h2 | rfl | (rename_i c; cases c <;> rfl))

theorem mutant_lit_str_rejected_partial (p : TProg) (Γ : Ctx) (op : BinOp) (a : TExpr) (ta : Ty) (s : String)
    (hop : op ≠ .is ∧ op ≠ .isnot) (ha : synth p Γ a = .ok ta) (hta : ta = .i32 ∨ ta = .i64) :
    errClass (synth p Γ (.bin op a (.lit (.str s)))) = "typeMismatch" :=
  (mutant_lit_bool_rejected_partial p Γ op a ta (.str s) hop ha hta (Or.inr ⟨s, rfl⟩)).1

/-- operator `cond_int`: the condition of `if` / `while` replaced by an Int64 literal - "type mismatch" -/
theorem mutant_cond_int_rejected_partial (p : TProg) (Γ : Ctx) (n : Int) (t b : TExpr) (e : Option TExpr) :
    (errClass (synth p Γ (.ite (.lit (.i64 n)) t e)) = "typeMismatch") ∧
    (errClass (synth p Γ (.while (.lit (.i64 n)) b)) = "typeMismatch") := by
  constructor <;> rfl

/-- operator `let_init`: the initialiser of `let x: T = …` has a type that is not `T` - "type mismatch" -/
theorem mutant_let_init_rejected_partial (p : TProg) (Γ : Ctx) (x : String) (m : Bool) (t te : Ty)
    (hwf : wfTy p Γ t = .ok ()) (hne : compat t te = false) :
    errClass (letBinds p Γ (.var x m) (some t) te) = "typeMismatch" := by
  simp [letBinds, hwf, hne, ok_bind, err_bind, throw_eq, map_error, errClass_error, TypeError.className]

/-- operators `arg_type`, `ret_type`: an argument / the final expression has a type that is not the declared one -/
theorem mutant_arg_type_rejected_partial (what : String) (pt at' : Ty) (ps as : List Ty)
    (hl : ps.length = as.length) (hne : compat pt at' = false) :
    errClass (checkArgs what (pt :: ps) (at' :: as)) = "typeMismatch" := by
  simp [checkArgs, List.length_cons, hl, bne_self_eq_false, Bool.false_eq_true, if_false, checkArgs.go, hne, ok_bind, err_bind, throw_eq, map_error, errClass_error, TypeError.className]

theorem mutant_ret_type_rejected_partial (p : TProg) (Γ : Ctx) (what : String) (ret tb : Ty) (body : TExpr)
    (hb : synth p { Γ with ret := ret, inLoop := false } body = .ok tb) (hne : compat ret tb = false)
    (hnu : tyEq tb .unit = false) :
    errClass (checkBody p Γ what ret body) = "typeMismatch" := by
  simp [checkBody, hb, hne, hnu, ok_bind, err_bind, throw_eq, map_error, errClass_error, TypeError.className]

/-- operators `drop_arg` / `add_arg`: a call with a different number of arguments than parameters -
    "wrong argument count" (function calls, method calls and calls of lambdas all go through `checkArgs`) -/
theorem mutant_drop_arg_rejected_partial (what : String) (ps as : List Ty) (h : ps.length ≠ as.length) :
    errClass (checkArgs what ps as) = "wrongArgCount" := by
  have : (ps.length != as.length) = true := by simpa using h
  simp [checkArgs, this, if_true, ok_bind, err_bind, throw_eq, map_error, errClass_error, TypeError.className]

theorem mutant_add_arg_rejected_partial (what : String) (ps as : List Ty) (extra : Ty) (h : ps.length = as.length) :
    errClass (checkArgs what ps (as ++ [extra])) = "wrongArgCount" :=
  mutant_drop_arg_rejected_partial what ps (as ++ [extra]) (by simp [h])

/-- operator `rename_var`: a variable that is not in scope - "unknown name" -/
theorem mutant_rename_var_rejected_partial (p : TProg) (Γ : Ctx) (x : String) (h : Γ.lookup x = none) :
    errClass (synth p Γ (.var x)) = "unknownName" := by
  simp [synth, h, ok_bind, err_bind, throw_eq, map_error, errClass_error, TypeError.className]

/-- operator `unknown_fn`: a call of a function that is neither declared nor built in - "unknown name" -/
theorem mutant_unknown_fn_rejected_partial (p : TProg) (Γ : Ctx) (f : String) (targs : List Ty) (args : List TExpr)
    (h1 : p.findFn f = none) (h2 : builtinFn f = none) :
    errClass (synth p Γ (.call f targs args)) = "unknownName" := by
  simp [synth, h1, h2, ok_bind, err_bind, throw_eq, map_error, errClass_error, TypeError.className]

/-- operator `unknown_method`: no method of that name for the receiver type - "unknown name" -/
theorem mutant_unknown_method_rejected_partial (p : TProg) (Γ : Ctx) (m : String) (recv : TExpr) (args : List TExpr)
    (tr : Ty) (ts : List Ty) (hr : synth p Γ recv = .ok tr) (ha : synthList p Γ args = .ok ts)
    (h : lookupMethod p Γ tr m = none) :
    errClass (synth p Γ (.meth m recv args)) = "unknownName" := by
  simp [synth, hr, ha, h, ok_bind, err_bind, throw_eq, map_error, errClass_error, TypeError.className]

/-- operator `unknown_field`: the struct / class has no field of that name - "unknown name" -/
theorem mutant_unknown_field_rejected_partial (p : TProg) (Γ : Ctx) (e : TExpr) (n f : String)
    (fs : List (String × Ty)) (he : synth p Γ e = .ok (.named n [])) (hs : p.structFields n = some fs)
    (h : fs.find? (·.1 == f) = none) :
    errClass (synth p Γ (.field e f)) = "unknownName" := by
  simp [synth, he, hs, h, ok_bind, err_bind, throw_eq, map_error, errClass_error, TypeError.className]

/-- operator `private_fn`: a function of another module that is not `pub` - "inaccessible name" -/
theorem mutant_private_fn_rejected_partial (p : TProg) (Γ : Ctx) (m f : String) (args : List TExpr) (d : TFn)
    (h1 : p.findModFn m f = some d) (h2 : d.isPub = false) :
    errClass (synth p Γ (.mcall m f args)) = "unknownName" := by
  simp [synth, h1, h2, ok_bind, err_bind, throw_eq, map_error, errClass_error, TypeError.className]

/-- operators `flip_mut`, `insert_assign`, `assign_param`: assignment to a binding that is not `mut`
    (a `let` without `mut`, a parameter, a loop or pattern variable) - "assignment to an immutable binding" -/
theorem mutant_flip_mut_rejected_partial (p : TProg) (Γ : Ctx) (x : String) (e : TExpr) (b : Binding) (te : Ty)
    (hb : Γ.lookup x = some b) (hm : b.isMut = false) (he : synth p Γ e = .ok te) :
    synth p Γ (.assign (.var x) e) = .error (.immutableAssign x) := by
  simp [synth, hb, he, placeOk, hm, ok_bind, err_bind, throw_eq, map_error, errClass_error, TypeError.className]

theorem mutant_insert_assign_rejected_partial (p : TProg) (Γ : Ctx) (x : String) (t : Ty) (e : TExpr) (te : Ty)
    (he : synth p (Γ.bind [⟨x, t, false⟩]) e = .ok te) :
    synth p (Γ.bind [⟨x, t, false⟩]) (.assign (.var x) e) = .error (.immutableAssign x) :=
  mutant_flip_mut_rejected_partial p _ x e ⟨x, t, false⟩ te (by simp [Ctx.bind, Ctx.lookup]) rfl he

/-- operator `assign_param`: parameters are immutable bindings of the function's context -/
theorem mutant_assign_param_rejected_partial (p : TProg) (Γ : Ctx) (x : String) (t : Ty) (e : TExpr) (te : Ty)
    (he : synth p (Γ.bind [⟨x, t, false⟩]) e = .ok te) :
    synth p (Γ.bind [⟨x, t, false⟩]) (.assign (.var x) e) = .error (.immutableAssign x) :=
  mutant_insert_assign_rejected_partial p Γ x t e te he

/-- operator `drop_final`: the body of a function that must return a value ends in a statement (its type is
    unit) - "missing return value" -/
theorem mutant_drop_final_rejected_partial (p : TProg) (Γ : Ctx) (what : String) (ret : Ty) (body : TExpr)
    (hb : synth p { Γ with ret := ret, inLoop := false } body = .ok .unit) (hne : tyEq ret .unit = false) :
    errClass (checkBody p Γ what ret body) = "missingReturn" := by
  have hc : compat ret .unit = false := by simp [compat, hne, isNever]
  simp [checkBody, hb, hc, tyEq, ok_bind, err_bind, throw_eq, map_error, errClass_error, TypeError.className]

/-- operator `bare_return`: `return` without a value where a value is declared - "missing return value" -/
theorem mutant_bare_return_rejected_partial (p : TProg) (Γ : Ctx) (hne : tyEq Γ.ret .unit = false) :
    errClass (synth p Γ (.ret none)) = "missingReturn" := by
  simp [synth, synthOpt, hne, ok_bind, err_bind, throw_eq, map_error, errClass_error, TypeError.className]

/-- operators `bound_prim` / `bound_user`: a generic function with one bounded type parameter instantiated
    with a (well-formed) type that does not implement the bound - "unsatisfied trait bound" -/
theorem mutant_bound_prim_rejected_partial (p : TProg) (Γ : Ctx) (what tp tr : String) (ps : List Ty) (r t : Ty)
    (hwf : wfTy p Γ t = .ok ()) (hni : implementsTrait p Γ t tr = false) :
    errClass (instantiate p Γ what { tparams := [(tp, [tr])], params := ps, ret := r } [t]) = "unsatisfiedBound" := by
  simp [instantiate, List.isEmpty_cons, Bool.false_and, Bool.false_eq_true, if_false, List.length_cons,
    List.length_nil, bne_self_eq_false, wfTy.wfTys, hwf, allBoundsOk, boundsOk, hni, ok_bind, err_bind, throw_eq, map_error, errClass_error, TypeError.className]

/-- operator `bound_user`: the same with a user-defined type without the impl -/
theorem mutant_bound_user_rejected_partial (p : TProg) (Γ : Ctx) (what tp tr n : String) (ps : List Ty) (r : Ty)
    (hwf : wfTy p Γ (.named n []) = .ok ()) (hni : p.hasImpl n tr = false) :
    errClass (instantiate p Γ what { tparams := [(tp, [tr])], params := ps, ret := r } [.named n []]) = "unsatisfiedBound" :=
  mutant_bound_prim_rejected_partial p Γ what tp tr ps r (.named n []) hwf (by simpa [implementsTrait] using hni)

/-- operator `as_unimplemented`: conversion to a trait object of a type that does not implement the trait -/
theorem mutant_as_unimplemented_rejected_partial (p : TProg) (Γ : Ctx) (tr : String) (e : TExpr) (t : Ty) (d : TTrait)
    (he : synth p Γ e = .ok t) (ht : p.findTrait tr = some d) (hni : implementsTrait p Γ t tr = false) :
    errClass (synth p Γ (.asTrait tr e)) = "unsatisfiedBound" := by
  simp [synth, he, ht, hni, ok_bind, err_bind, throw_eq, map_error, errClass_error, TypeError.className]

/-- operators `extra_fn_targ` / `fewer_fn_targs`: the number of type arguments is not the number of type
    parameters - "wrong type-argument count" -/
theorem mutant_extra_fn_targ_rejected_partial (p : TProg) (Γ : Ctx) (what : String) (s : Sig) (targs : List Ty)
    (hne : s.tparams.length ≠ targs.length) :
    errClass (instantiate p Γ what s targs) = "wrongTypeArgCount" := by
  have h1 : (s.tparams.isEmpty && targs.isEmpty) = false := by
    cases hs : s.tparams <;> cases ht : targs <;> simp [hs, ht] at hne ⊢
  have h2 : (s.tparams.length != targs.length) = true := by simpa using hne
  simp [instantiate, h1, h2, Bool.false_eq_true, if_false, if_true, ok_bind, err_bind, throw_eq, map_error, errClass_error, TypeError.className]

theorem mutant_fewer_fn_targs_rejected_partial (p : TProg) (Γ : Ctx) (what : String) (s : Sig) (t : Ty) (targs : List Ty)
    (h : s.tparams.length = (t :: targs).length) :
    errClass (instantiate p Γ what s targs) = "wrongTypeArgCount" :=
  mutant_extra_fn_targ_rejected_partial p Γ what s targs (by simp at h; omega)

/-- operators `ty_extra`, `ty_none`, `scall_extra`: `Array` / `Vec` / `Option` with a number of type
    arguments other than one - "wrong type-argument count" -/
theorem mutant_ty_extra_rejected_partial (p : TProg) (Γ : Ctx) (n : String) (args : List Ty)
    (hn : n = "Array" ∨ n = "Vec" ∨ n = "Option") (hl : args.length ≠ 1) :
    errClass (wfTy p Γ (.named n args)) = "wrongTypeArgCount" := by
  have h2 : (args.length == 1) = false := by simpa using hl
  rcases hn with rfl | rfl | rfl <;> simp [wfTy, h2, throw_eq, errClass_error, TypeError.className]

theorem mutant_ty_none_rejected_partial (p : TProg) (Γ : Ctx) (n : String)
    (hn : n = "Array" ∨ n = "Vec" ∨ n = "Option") :
    errClass (wfTy p Γ (.named n [])) = "wrongTypeArgCount" :=
  mutant_ty_extra_rejected_partial p Γ n [] hn (by simp)

theorem mutant_scall_extra_rejected_partial (p : TProg) (Γ : Ctx) (n f : String) (targs : List Ty) (args : List TExpr)
    (hn : n = "Array" ∨ n = "Vec" ∨ n = "Option") (hl : targs.length ≠ 1) :
    errClass (synth p Γ (.scall (.named n targs) f args)) = "wrongTypeArgCount" := by
  have hw := mutant_ty_extra_rejected_partial p Γ n targs hn hl
  simp only [synth]
  cases hx : wfTy p Γ (.named n targs) with
  | ok u => rw [hx] at hw; simp [errClass] at hw
  | error e => rw [hx] at hw; simpa [errClass, bind, Except.bind] using hw

/-- operator `variant_extra`: `Some[T, U](e)` / `None[T, U]` - "wrong type-argument count" -/
theorem mutant_variant_extra_rejected_partial (p : TProg) (Γ : Ctx) (vr : String) (targs : List Ty) (args : List TExpr)
    (ts : List Ty) (ha : synthList p Γ args = .ok ts) (hl : targs.length ≠ 1) :
    errClass (synth p Γ (.variant "Option" vr targs args)) = "wrongTypeArgCount" := by
  simp only [synth, ha]
  cases targs with
  | nil => rfl
  | cons a rest =>
    cases rest with
    | nil => simp at hl
    | cons b rest => rfl

/-- operator `drop_impl_method`: an `impl Trait for T` without a method the trait requires -
    "missing trait method" (stated for the first required method; the impl is otherwise untouched) -/
theorem mutant_drop_impl_method_rejected_partial (p : TProg) (i : TImpl) (tr : String) (t : TTrait) (s : TSig)
    (rest : List TSig) (hi : i.trait = some tr) (ht : p.findTrait tr = some t) (hs : t.sigs = s :: rest)
    (hm : i.methods.find? (·.name == s.name) = none) :
    errClass (checkImplComplete p i) = "missingTraitMethod" := by
  simp [checkImplComplete, hi, ht, hs, allM, hm, ok_bind, err_bind, throw_eq, map_error, errClass_error, TypeError.className]

/-- non-vacuity of the operator lemmas on a small declaration table -/
def exDecls : TProg :=
  { classes := [("C", [("g", .i64)])],
    traits := [{ name := "Tr", sigs := [{ name := "m", params := [.i64], ret := .i64 }] }],
    impls := [{ ty := "C", trait := some "Tr", methods := [] }],
    fns := [{ name := "id", tparams := [("T", ["Tr"])], params := [("t", .tparam "T")], ret := .tparam "T",
              body := .block [.var "t"] }] }

example : errClass (checkImplComplete exDecls ⟨"C", some "Tr", []⟩) = "missingTraitMethod" :=
  mutant_drop_impl_method_rejected_partial exDecls _ "Tr" _ _ [] rfl rfl rfl rfl
example : errClass (instantiate exDecls {} "id" { tparams := [("T", ["Tr"])], params := [.tparam "T"], ret := .tparam "T" } [.i64]) = "unsatisfiedBound" :=
  mutant_bound_prim_rejected_partial exDecls {} "id" "T" "Tr" _ _ .i64 rfl rfl
example : errClass (wfTy exDecls {} (.named "Array" [.i64, .bool])) = "wrongTypeArgCount" :=
  mutant_ty_extra_rejected_partial exDecls {} "Array" _ (Or.inl rfl) (by decide)
example : synth exDecls (({} : Ctx).bind [⟨"x", .i64, false⟩]) (.assign (.var "x") (.lit (.i64 2))) = .error (.immutableAssign "x") :=
  mutant_insert_assign_rejected_partial exDecls {} "x" .i64 _ .i64 rfl
example : errClass (synth exDecls {} (.bin .add (.lit (.i64 1)) (.lit (.bool true)))) = "typeMismatch" :=
  (mutant_lit_bool_rejected_partial exDecls {} .add _ .i64 _ ⟨by decide, by decide⟩ rfl (Or.inr rfl) (Or.inl ⟨true, rfl⟩)).1

end Dora.Typing
