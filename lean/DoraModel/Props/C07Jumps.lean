import DoraModel.X64.Jumps7
/-!
# C07 — "Jumps and calls to labels land on the position the label was bound to, in both short and near forms, forward
and backward": the general statement, for an arbitrary script.

A script (`JOp`) is any sequence of: raw bytes (any other code, appended through the buffer's `emit` primitive),
`bind_label`, and the four regenerated jump methods `jmp`, `jcc`, `jmp_near`, `jcc_near` of `DoraModel/Gen/X64.lean`.
`runScript n ops` creates `n` labels, runs the operations with the regenerated methods (recording the regenerated
`position` before each one) and then the regenerated `resolve_jumps`. The theorems hold for every script, every label
count and both `has_avx2` values, for buffers below 2^31 bytes (the range in which the `i32` displacement arithmetic of
`resolve_jumps` is exact). Helper lemmas: `DoraModel/X64/Jumps.lean` … `Jumps7.lean`.

Not covered here: the label-addressed operands (`emit_label_address`: `movq_rl`, `andps_rl`, …), which push `Far`
entries onto the same list; they are still covered by the boundary scenarios of `jumps_land_partial` and by the sweep.
-/
namespace Dora.X64.C07
open Dora.X64 Dora.X64.Dec

/-- example script: a backward short `jmp`, a forward `jcc` (rel32), a forward `jmp_near` (rel8), a backward
`jcc_near`, a backward `jmp` to a label bound after earlier references, raw bytes in between -/
def demoOps : List JOp :=
  [.raw [0x90], .bind 0, .raw [0x48, 0x89, 0xC3], .jmp 0, .jcc .Equal 1, .jmpNear 1, .raw [0xCC, 0xCC], .bind 1,
   .jccNear .Less 0, .jmp 1]

def demoState : Asm :=
  { code := [144, 72, 137, 195, 235, 251, 15, 132, 4, 0, 0, 0, 235, 2, 204, 204, 124, 239, 235, 252],
    position := 20, labels := [some 1, some 16], unresolved_jumps := [], has_avx2 := false }

/-- the example script runs, with these start positions and this final state -/
theorem demo_runs : (runScript 2 demoOps).run (Asm.new false) = .ok ([0, 1, 1, 4, 6, 12, 14, 16, 16, 18], demoState) := by
  kernel_rfl

/-- the hypotheses shared by all theorems below are satisfiable on a non-trivial script -/
example : ∃ starts s, (runScript 2 demoOps).run (Asm.new false) = .ok (starts, s) ∧ s.code.length < 2147483648 :=
  ⟨_, _, demo_runs, by decide⟩

/-- **Jumps land on their labels (general).** For every script, label count and `has_avx2`: if the run succeeds and
the buffer is shorter than 2^31 bytes, then for every jump operation (`jmp`, `jcc`, `jmp_near`, `jcc_near`; forward or
backward reference; rel8 or rel32 form) at script index `i` with label `l`: the label is bound in the final label
table, and the bytes of the final buffer at the position where that operation started decode — under the reference
decoder — to the requested instruction (`Spec.jmp` / `Spec.jcc c` / …: mnemonic and condition code) whose `.rel`
displacement, added to the end of the instruction, is exactly the position the label is bound to (`landsOn`). -/
theorem jumps_land (avx : Bool) (n : Nat) (ops : List JOp) (starts : List Nat) (s : Asm)
    (hr : (runScript n ops).run (Asm.new avx) = .ok (starts, s)) (hlen : s.code.length < 2147483648)
    (i : Nat) (op : JOp) (l : Nat) (hi : ops[i]? = some op) (ht : op.target = some l) :
    ∃ p q, starts[i]? = some p ∧ s.labels[l]? = some (some q) ∧ landsOn s.code p q.toNat op.spec = true := by
  obtain ⟨segs, hcode, hlay, _, _⟩ := script_layout avx n ops starts s hr hlen
  obtain ⟨pre, seg, rest, p, hp, _, hflat, hpb, hseg⟩ := layout_at s.labels ops 0 segs starts i op hlay hi
  have hjump : ∃ l q far f, op.target = some l ∧ s.labels[l]? = some (some q) ∧ seg = op.opc far ++ f ∧
      FieldOk far f ((q.toNat : Int) - ((p + seg.length : Nat) : Int)) ∧
      far = (op.allowsFar && !(decide (q.toNat ≤ p) && decide (p + 2 - q.toNat ≤ 128))) := by
    cases op with
    | raw bs => cases ht
    | bind l' => cases ht
    | jmp l' => exact hseg
    | jmpNear l' => exact hseg
    | jcc c l' => exact hseg
    | jccNear c l' => exact hseg
  obtain ⟨l', q, far, f, ht', hq, hs, hf, hfar⟩ := hjump
  rw [ht] at ht'; cases ht'
  refine ⟨p, q, hp, hq, ?_⟩
  have hallow : far = true → op.allowsFar = true := by
    intro h; rw [h] at hfar; cases ha : op.allowsFar
    · rw [ha] at hfar; simp at hfar
    · rfl
  obtain ⟨t, hspec, hdec⟩ := decode_seg op l far f _ rest ht hf hallow
  have hdrop : s.code.drop p = seg ++ rest := by
    rw [hcode, hflat, hpb, Nat.zero_add, List.drop_left]
  have hlen2 : (s.code.length - rest.length : Nat) = p + seg.length := by
    rw [hcode, hflat, hpb]; simp only [List.length_append]; omega
  unfold landsOn
  rw [hspec, hdrop, hs, hdec]
  simp only [hlen2, hs, beq_self_eq_true]

example : ∃ p q, ([0, 1, 1, 4, 6, 12, 14, 16, 16, 18] : List Nat)[4]? = some p ∧ demoState.labels[1]? = some (some q) ∧
    landsOn demoState.code p q.toNat (Spec.jcc .Equal ⟨1⟩) = true :=
  jumps_land false 2 demoOps _ demoState demo_runs (by decide) 4 (.jcc .Equal 1) 1 rfl rfl

/-- **Labels are bound where they were placed.** The position a label ends up bound to is the start position of its
`bind` operation (= the buffer length at that moment). -/
theorem labels_bound_where_placed (avx : Bool) (n : Nat) (ops : List JOp) (starts : List Nat) (s : Asm)
    (hr : (runScript n ops).run (Asm.new avx) = .ok (starts, s)) (hlen : s.code.length < 2147483648)
    (j : Nat) (l : Nat) (hj : ops[j]? = some (.bind l)) :
    ∃ p, starts[j]? = some p ∧ s.labels[l]? = some (some (UInt32.ofNat p)) ∧ p < 4294967296 := by
  obtain ⟨segs, _, hlay, _, _⟩ := script_layout avx n ops starts s hr hlen
  obtain ⟨_, _, _, p, hp, _, _, _, hseg⟩ := layout_at s.labels ops 0 segs starts j _ hlay hj
  exact ⟨p, hp, hseg.2.1, hseg.2.2⟩

example : ∃ p, ([0, 1, 1, 4, 6, 12, 14, 16, 16, 18] : List Nat)[7]? = some p ∧
    demoState.labels[1]? = some (some (UInt32.ofNat p)) ∧ p < 4294967296 :=
  labels_bound_where_placed false 2 demoOps _ demoState demo_runs (by decide) 7 1 rfl

/-- **Choice of form.** In a successful run every jump is its opcode bytes followed by a displacement field of 1 byte
(rel8) or 4 bytes (rel32); the rel32 form is used exactly by `jmp`/`jcc` (never by the near forms) when the label is
not (yet) behind the jump within reach, i.e. unless `q ≤ p` and `p + 2 − q ≤ 128` (`p` = start of the jump, `q` = label
position). In particular forward references of `jmp`/`jcc` are always rel32, of `jmp_near`/`jcc_near` always rel8. -/
theorem jump_form (avx : Bool) (n : Nat) (ops : List JOp) (starts : List Nat) (s : Asm)
    (hr : (runScript n ops).run (Asm.new avx) = .ok (starts, s)) (hlen : s.code.length < 2147483648)
    (i : Nat) (op : JOp) (l : Nat) (hi : ops[i]? = some op) (ht : op.target = some l) :
    ∃ p q far f rest, starts[i]? = some p ∧ s.labels[l]? = some (some q) ∧
      s.code.drop p = (op.opc far ++ f) ++ rest ∧ f.length = (if far then 4 else 1) ∧
      far = (op.allowsFar && !(decide (q.toNat ≤ p) && decide (p + 2 - q.toNat ≤ 128))) := by
  obtain ⟨segs, hcode, hlay, _, _⟩ := script_layout avx n ops starts s hr hlen
  obtain ⟨pre, seg, rest, p, hp, _, hflat, hpb, hseg⟩ := layout_at s.labels ops 0 segs starts i op hlay hi
  have hjump : ∃ l q far f, op.target = some l ∧ s.labels[l]? = some (some q) ∧ seg = op.opc far ++ f ∧
      FieldOk far f ((q.toNat : Int) - ((p + seg.length : Nat) : Int)) ∧
      far = (op.allowsFar && !(decide (q.toNat ≤ p) && decide (p + 2 - q.toNat ≤ 128))) := by
    cases op with
    | raw bs => cases ht
    | bind l' => cases ht
    | jmp l' => exact hseg
    | jmpNear l' => exact hseg
    | jcc c l' => exact hseg
    | jccNear c l' => exact hseg
  obtain ⟨l', q, far, f, ht', hq, hs, hf, hfar⟩ := hjump
  rw [ht] at ht'; cases ht'
  refine ⟨p, q, far, f, rest, hp, hq, ?_, ?_, hfar⟩
  · rw [hcode, hflat, hpb, Nat.zero_add, List.drop_left, hs]
  · rw [hf.length]; cases far <;> rfl

example : ∃ p q far f rest, ([0, 1, 1, 4, 6, 12, 14, 16, 16, 18] : List Nat)[3]? = some p ∧
    demoState.labels[0]? = some (some q) ∧ demoState.code.drop p = ((JOp.jmp 0).opc far ++ f) ++ rest ∧
    f.length = (if far then 4 else 1) ∧
    far = ((JOp.jmp 0).allowsFar && !(decide (q.toNat ≤ p) && decide (p + 2 - q.toNat ≤ 128))) :=
  jump_form false 2 demoOps _ demoState demo_runs (by decide) 3 (.jmp 0) 0 rfl rfl

/-- **Raw bytes are untouched.** Whatever other code was emitted between the jumps is found unchanged in the final
buffer at the position where it was emitted: `resolve_jumps` rewrites displacement fields only. -/
theorem raw_untouched (avx : Bool) (n : Nat) (ops : List JOp) (starts : List Nat) (s : Asm)
    (hr : (runScript n ops).run (Asm.new avx) = .ok (starts, s)) (hlen : s.code.length < 2147483648)
    (i : Nat) (bs : Bytes) (hi : ops[i]? = some (.raw bs)) :
    ∃ p, starts[i]? = some p ∧ (s.code.drop p).take bs.length = bs := by
  obtain ⟨segs, hcode, hlay, _, _⟩ := script_layout avx n ops starts s hr hlen
  obtain ⟨pre, seg, rest, p, hp, _, hflat, hpb, hseg⟩ := layout_at s.labels ops 0 segs starts i _ hlay hi
  have hs : seg = bs := hseg
  refine ⟨p, hp, ?_⟩
  rw [hcode, hflat, hpb, Nat.zero_add, List.drop_left, hs, List.take_left]

example : ∃ p, ([0, 1, 1, 4, 6, 12, 14, 16, 16, 18] : List Nat)[6]? = some p ∧
    (demoState.code.drop p).take 2 = [0xCC, 0xCC] :=
  raw_untouched false 2 demoOps _ demoState demo_runs (by decide) 6 [0xCC, 0xCC] rfl

/-- **A jump to a label that is never bound is refused.** If the run succeeds (buffer below 2^31 bytes), every label a
jump refers to is bound by a `bind` operation of the script; so a script with a jump whose label has no `bind` does not
produce code (`resolve_jumps` panics with "unbound label"). -/
theorem unbound_label_refused (avx : Bool) (n : Nat) (ops : List JOp) (starts : List Nat) (s : Asm)
    (hr : (runScript n ops).run (Asm.new avx) = .ok (starts, s)) (hlen : s.code.length < 2147483648)
    (i : Nat) (op : JOp) (l : Nat) (hi : ops[i]? = some op) (ht : op.target = some l) : JOp.bind l ∈ ops := by
  obtain ⟨_, q, _, hq, _⟩ := jumps_land avx n ops starts s hr hlen i op l hi ht
  obtain ⟨_, _, _, hb, _⟩ := script_layout avx n ops starts s hr hlen
  exact hb l q hq

example : (runScript 1 [.jmp 0, .raw [0x90]]).run (Asm.new false) = .error "unbound label" := by kernel_rfl
example : JOp.bind 1 ∈ demoOps :=
  unbound_label_refused false 2 demoOps _ demoState demo_runs (by decide) 4 (.jcc .Equal 1) 1 rfl rfl

/-- **The near forms refuse a backward distance that does not fit, they do not mis-encode it.** With the label bound
at `q` behind the write position `p` (= end of buffer) and `p + 2 − q > 128`, `jmp_near` and `jcc_near` fail. -/
theorem near_backward_out_of_range_refused (c : Condition) (l : Nat) (s : Asm) (q : UInt32)
    (h : s.position = s.code.length) (hl : s.labels[l]? = some (some q)) (hq : q.toNat ≤ s.code.length)
    (hfar : 128 < s.code.length + 2 - q.toNat) :
    (jmp_near ⟨l⟩).run s = .error "assert failed" ∧ (jcc_near c ⟨l⟩).run s = .error "assert failed" := by
  have hn : ¬ (s.code.length + 2 - q.toNat ≤ 128) := by omega
  constructor
  · rw [jmp_near_eq l s h]; simp only [nearStep, hl, hq, hn, if_true, if_false]
  · rw [jcc_near_eq c l s h]; simp only [nearStep, hl, hq, hn, if_true, if_false]

example : (runScript 1 [.bind 0, .raw (List.replicate 127 0x90), .jmpNear 0]).run (Asm.new false)
    = .error "assert failed" := by kernel_rfl

end Dora.X64.C07
