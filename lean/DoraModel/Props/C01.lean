import DoraModel.Mini.EvalLemmas
import DoraModel.Mini.PrimLemmas
import DoraModel.Mini.Simp
/-!
# C01 — property theorems

These are theorems about the *specification* (the MiniDora reference semantics in
`DoraModel/Mini/{Prim,Eval}.lean`) and about the model of the optimizer's algebraic simplifier
(`DoraModel/Mini/Simp.lean`).  That compiled programs follow this semantics is established by the
correspondence run of `checks/c01.py` (both code generators vs. the interpreter), not by proof.
-/
namespace Dora.Mini.C01
open Dora.Mini

/-! ## the interpreter is a function of (program, fuel, expression, environment, state) -/

/-- "exactly the output and exit status the evaluation rules give": the rules give one outcome. -/
theorem eval_deterministic (p : Prog) (n : Nat) (e : Expr) (env : Env) (s : St)
    (r₁ r₂ : Option (Except Stop Val × St))
    (h₁ : (eval p n e env).run s = r₁) (h₂ : (eval p n e env).run s = r₂) : r₁ = r₂ := by
  rw [← h₁, ← h₂]

/-- more fuel never changes a finished outcome (value, trap, exit, … – anything but "out of fuel") -/
theorem eval_fuel_monotone (p : Prog) (n m : Nat) (hnm : n ≤ m) (e : Expr) (env : Env) (s : St)
    (r : Except Stop Val × St) (h : (eval p n e env).run s = some r) :
    (eval p m e env).run s = some r := by
  obtain ⟨k, rfl⟩ := Nat.exists_eq_add_of_le hnm
  exact eval_add_of_some p n k e env s r h

example : (eval {} 5 (.bin .add (.lit (.i32 2147483647)) (.lit (.i32 1))) []).run {} =
    some (.error (.trap .overflow), {}) := by decide

/-! ## `binop_exact`: Int32/Int64 arithmetic is exact or traps -/

/-- `+`: the mathematical sum when representable, else the `overflow` trap (w = 32 or 64 bits:
    `w.min = -2^(bits-1)`, `w.max = 2^(bits-1) - 1`, see `IW.min_w32` …) -/
theorem binop_exact_add (w : IW) (a b : Int) :
    binInt .add w a b =
      if w.min ≤ a + b ∧ a + b ≤ w.max then pure (.int w (a + b)) else trap .overflow := by
  simp only [binInt, addC_spec]; split <;> rfl

theorem binop_exact_sub (w : IW) (a b : Int) :
    binInt .sub w a b =
      if w.min ≤ a - b ∧ a - b ≤ w.max then pure (.int w (a - b)) else trap .overflow := by
  simp only [binInt, subC_spec]; split <;> rfl

theorem binop_exact_mul (w : IW) (a b : Int) :
    binInt .mul w a b =
      if w.min ≤ a * b ∧ a * b ≤ w.max then pure (.int w (a * b)) else trap .overflow := by
  simp only [binInt, mulC_spec]; split <;> rfl

theorem unop_exact_neg (w : IW) (a : Int) :
    unPrim .neg (.int w a) =
      if w.min ≤ -a ∧ -a ≤ w.max then pure (.int w (-a)) else trap .overflow := by
  simp only [unPrim, negC_spec]; split <;> rfl

/-- `/`: divisor 0 → `division by 0`; `MIN / -1` → `overflow`; otherwise the quotient truncated toward
    zero: `a = q*b + r`, `|r| < |b|`, `r = 0 ∨ sign r = sign a`, and `q` is representable -/
theorem binop_exact_div (w : IW) (a b : Int) (ha : w.inRange a = true) (hb : w.inRange b = true) :
    (b = 0 → binInt .div w a b = trap .div0) ∧
    (a = w.min ∧ b = -1 → binInt .div w a b = trap .overflow) ∧
    (b ≠ 0 → ¬ (a = w.min ∧ b = -1) →
      ∃ q r, binInt .div w a b = pure (.int w q) ∧ a = q * b + r ∧ r.natAbs < b.natAbs ∧
        (r = 0 ∨ r.sign = a.sign) ∧ w.inRange q = true) := by
  obtain ⟨h0, h1, h2⟩ := div_spec w a b ha hb
  refine ⟨fun h => by simp only [binInt, h0 h]; rfl, fun h => by simp only [binInt, h1 h]; rfl, ?_⟩
  intro hb0 hmin
  obtain ⟨q, r, hq, rest⟩ := h2 hb0 hmin
  exact ⟨q, r, by simp only [binInt, hq]; rfl, rest⟩

/-- `%`: same traps (`MIN % -1` traps `overflow`, as the code generators do); otherwise the remainder of
    the truncated division -/
theorem binop_exact_mod (w : IW) (a b : Int) (ha : w.inRange a = true) (hb : w.inRange b = true) :
    (b = 0 → binInt .mod w a b = trap .div0) ∧
    (a = w.min ∧ b = -1 → binInt .mod w a b = trap .overflow) ∧
    (b ≠ 0 → ¬ (a = w.min ∧ b = -1) →
      ∃ q r, binInt .mod w a b = pure (.int w r) ∧ a = q * b + r ∧ r.natAbs < b.natAbs ∧
        (r = 0 ∨ r.sign = a.sign) ∧ w.inRange r = true) := by
  obtain ⟨h0, h1, h2⟩ := mod_spec w a b ha hb
  refine ⟨fun h => by simp only [binInt, h0 h]; rfl, fun h => by simp only [binInt, h1 h]; rfl, ?_⟩
  intro hb0 hmin
  obtain ⟨q, r, hq, rest⟩ := h2 hb0 hmin
  exact ⟨q, r, by simp only [binInt, hq]; rfl, rest⟩

example : binInt .div .w64 (-7) 2 = pure (.int .w64 (-3)) := by decide
example : binInt .mod .w32 IW.w32.min (-1) = trap .overflow := by decide

end Dora.Mini.C01
