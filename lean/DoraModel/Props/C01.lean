import DoraModel.Mini.EvalLemmas
import DoraModel.Mini.PrimLemmas
import DoraModel.Mini.Simp
/-!
# C01 — property theorems

These are theorems about the *specification* (the MiniDora reference semantics in
`DoraModel/Mini/{Prim,Eval}.lean`) and about the model of the optimizer's algebraic simplifier
(`DoraModel/Mini/Simp.lean`).  That compiled programs follow this semantics is established by the
correspondence run of `checks/c01.py` (both code generators vs. the interpreter), not by proof.
-/
namespace Dora.Mini.C01
open Dora.Mini

/-! ## the interpreter is a function of (program, fuel, expression, environment, state) -/

/-- "exactly the output and exit status the evaluation rules give": the rules give one outcome. -/
theorem eval_deterministic (p : Prog) (n : Nat) (e : Expr) (env : Env) (s : St)
    (r₁ r₂ : Option (Except Stop Val × St))
    (h₁ : (eval p n e env).run s = r₁) (h₂ : (eval p n e env).run s = r₂) : r₁ = r₂ := by
  rw [← h₁, ← h₂]

/-- more fuel never changes a finished outcome (value, trap, exit, … – anything but "out of fuel") -/
theorem eval_fuel_monotone (p : Prog) (n m : Nat) (hnm : n ≤ m) (e : Expr) (env : Env) (s : St)
    (r : Except Stop Val × St) (h : (eval p n e env).run s = some r) :
    (eval p m e env).run s = some r := by
  obtain ⟨k, rfl⟩ := Nat.exists_eq_add_of_le hnm
  exact eval_add_of_some p n k e env s r h

example : (eval {} 9 (.lit (.i32 1)) []).run {} = some (.ok (.int .w32 1), {}) :=
  eval_fuel_monotone {} 1 9 (by decide) (.lit (.i32 1)) [] {} (.ok (.int .w32 1), {}) rfl

/-! ## `binop_exact`: Int32/Int64 arithmetic is exact or traps -/

/-- `+`: the mathematical sum when representable, else the `overflow` trap (w = 32 or 64 bits:
    `w.min = -2^(bits-1)`, `w.max = 2^(bits-1) - 1`, see `IW.min_w32` …) -/
theorem binop_exact_add (w : IW) (a b : Int) :
    binInt .add w a b =
      if w.min ≤ a + b ∧ a + b ≤ w.max then pure (.int w (a + b)) else trap .overflow := by
  simp only [binInt, addC_spec]; split <;> rfl

theorem binop_exact_sub (w : IW) (a b : Int) :
    binInt .sub w a b =
      if w.min ≤ a - b ∧ a - b ≤ w.max then pure (.int w (a - b)) else trap .overflow := by
  simp only [binInt, subC_spec]; split <;> rfl

theorem binop_exact_mul (w : IW) (a b : Int) :
    binInt .mul w a b =
      if w.min ≤ a * b ∧ a * b ≤ w.max then pure (.int w (a * b)) else trap .overflow := by
  simp only [binInt, mulC_spec]; split <;> rfl

theorem unop_exact_neg (w : IW) (a : Int) :
    unPrim .neg (.int w a) =
      if w.min ≤ -a ∧ -a ≤ w.max then pure (.int w (-a)) else trap .overflow := by
  simp only [unPrim, negC_spec]; split <;> rfl

/-- `/`: divisor 0 → `division by 0`; `MIN / -1` → `overflow`; otherwise the quotient truncated toward
    zero: `a = q*b + r`, `|r| < |b|`, `r = 0 ∨ sign r = sign a`, and `q` is representable -/
theorem binop_exact_div (w : IW) (a b : Int) (ha : w.inRange a = true) (hb : w.inRange b = true) :
    (b = 0 → binInt .div w a b = trap .div0) ∧
    (a = w.min ∧ b = -1 → binInt .div w a b = trap .overflow) ∧
    (b ≠ 0 → ¬ (a = w.min ∧ b = -1) →
      ∃ q r, binInt .div w a b = pure (.int w q) ∧ a = q * b + r ∧ r.natAbs < b.natAbs ∧
        (r = 0 ∨ r.sign = a.sign) ∧ w.inRange q = true) := by
  obtain ⟨h0, h1, h2⟩ := div_spec w a b ha hb
  refine ⟨fun h => by simp only [binInt, h0 h]; rfl, fun h => by simp only [binInt, h1 h]; rfl, ?_⟩
  intro hb0 hmin
  obtain ⟨q, r, hq, rest⟩ := h2 hb0 hmin
  exact ⟨q, r, by simp only [binInt, hq]; rfl, rest⟩

/-- `%`: same traps (`MIN % -1` traps `overflow`, as the code generators do); otherwise the remainder of
    the truncated division -/
theorem binop_exact_mod (w : IW) (a b : Int) (ha : w.inRange a = true) (hb : w.inRange b = true) :
    (b = 0 → binInt .mod w a b = trap .div0) ∧
    (a = w.min ∧ b = -1 → binInt .mod w a b = trap .overflow) ∧
    (b ≠ 0 → ¬ (a = w.min ∧ b = -1) →
      ∃ q r, binInt .mod w a b = pure (.int w r) ∧ a = q * b + r ∧ r.natAbs < b.natAbs ∧
        (r = 0 ∨ r.sign = a.sign) ∧ w.inRange r = true) := by
  obtain ⟨h0, h1, h2⟩ := mod_spec w a b ha hb
  refine ⟨fun h => by simp only [binInt, h0 h]; rfl, fun h => by simp only [binInt, h1 h]; rfl, ?_⟩
  intro hb0 hmin
  obtain ⟨q, r, hq, rest⟩ := h2 hb0 hmin
  exact ⟨q, r, by simp only [binInt, hq]; rfl, rest⟩

example : divC .w64 (-7) 2 = .ok (-3) := by rfl
example : modC .w32 IW.w32.min (-1) = .error .overflow := by rfl
example : addC .w32 2147483647 1 = .error .overflow := by rfl
example : IW.w64.inRange (-7) = true ∧ IW.w64.inRange 2 = true := by decide

/-! ## wrapping variants wrap -/

/-- `wrapping_add/sub/mul` return the exact result reduced modulo 2^bits into `[min, max]` -/
theorem wrapping_ops_mod (w : IW) (a b : Int) :
    primMeth "wrapping_add" (.int w a) [.int w b] = pure (.int w (w.wrap (a + b))) ∧
    primMeth "wrapping_sub" (.int w a) [.int w b] = pure (.int w (w.wrap (a - b))) ∧
    primMeth "wrapping_mul" (.int w a) [.int w b] = pure (.int w (w.wrap (a * b))) ∧
    (∀ x : Int, w.inRange (w.wrap x) = true ∧ (w.wrap x - x) % (2 : Int) ^ w.bits = 0) := by
  refine ⟨?_, ?_, ?_, fun x => wrap_spec w x⟩ <;> simp [primMeth, addW, subW, mulW]

example : IW.w32.wrap (2147483647 + 1) = -2147483648 := by rfl

/-! ## shifts trap on out-of-range amounts -/

/-- `<<`, `>>` (arithmetic), `>>>` (logical) trap `shift amount out of bounds` iff the amount is not in
    `[0, bits)`; in range they return `wrap (a * 2^n)`, `⌊a / 2^n⌋`, `wrap (unsigned a / 2^n)` -/
theorem shift_semantics (w : IW) (a n : Int) :
    (shlC w a n = .error .shift ↔ ¬ (0 ≤ n ∧ n < (w.bits : Int))) ∧
    (sarC w a n = .error .shift ↔ ¬ (0 ≤ n ∧ n < (w.bits : Int))) ∧
    (shrC w a n = .error .shift ↔ ¬ (0 ≤ n ∧ n < (w.bits : Int))) ∧
    (0 ≤ n ∧ n < (w.bits : Int) →
      shlC w a n = .ok (w.wrap (a * 2 ^ n.toNat)) ∧ sarC w a n = .ok (a / 2 ^ n.toNat) ∧
      shrC w a n = .ok (w.wrap (w.toUnsigned a / 2 ^ n.toNat))) :=
  ⟨shlC_traps_iff w a n, sarC_traps_iff w a n, shrC_traps_iff w a n,
   fun h => ⟨shlC_ok w a n h.1 h.2, sarC_ok w a n h.1 h.2, shrC_ok w a n h.1 h.2⟩⟩

/-- the interpreter's `<<` on an Int32/Int64 value with an Int32 amount is `shlC` -/
theorem shift_in_interpreter (w : IW) (a n : Int) :
    binPrim .shl (.int w a) (.int .w32 n) = (do pure (.int w (← liftE (shlC w a n)))) := by
  cases w <;> rfl

example : shlC .w32 1 32 = .error .shift ∧ shlC .w64 1 (-1) = .error .shift ∧ shlC .w32 1 31 = .ok (-2147483648) := by
  refine ⟨by rfl, by rfl, by rfl⟩

/-! ## comparisons are total -/

/-- for all operands exactly one of `<`, `==`, `>` holds, and `<=, !=, >=` are their combinations -/
theorem comparison_total (a b : Int) :
    ((CmpOp.eval .lt a b = true ∧ CmpOp.eval .eq a b = false ∧ CmpOp.eval .gt a b = false) ∨
     (CmpOp.eval .lt a b = false ∧ CmpOp.eval .eq a b = true ∧ CmpOp.eval .gt a b = false) ∨
     (CmpOp.eval .lt a b = false ∧ CmpOp.eval .eq a b = false ∧ CmpOp.eval .gt a b = true)) ∧
    CmpOp.eval .le a b = (CmpOp.eval .lt a b || CmpOp.eval .eq a b) ∧
    CmpOp.eval .ne a b = !CmpOp.eval .eq a b ∧ CmpOp.eval .ge a b = !CmpOp.eval .lt a b := by
  refine ⟨?_, cmp_le a b, cmp_ne a b, cmp_ge a b⟩
  simp only [CmpOp.eval, decide_eq_true_eq, decide_eq_false_iff_not]
  omega

/-! ## operands and arguments: left to right, exactly once -/

/-- Evaluating the argument list `e :: es` from state `s`: first `e` (from `s`, giving `v` and `s₁`),
    then the rest from `s₁` (giving `vs`, `s₂`); the values arrive in order and the final state (which
    contains the output printed so far and the heap) is `s₂`.  No argument is evaluated a second time:
    the only uses of the recursive evaluator are these two. -/
theorem args_left_to_right_once (rec : Rec) (e : Expr) (es : List Expr) (env : Env) (s s₁ s₂ : St)
    (v : Val) (vs : List Val)
    (h₁ : (rec e env).run s = some (.ok v, s₁))
    (h₂ : (evalList rec es env).run s₁ = some (.ok vs, s₂)) :
    (evalList rec (e :: es) env).run s = some (.ok (v :: vs), s₂) := by
  simp only [evalList, ExceptT.run, bind, ExceptT.bind, ExceptT.mk, StateT.bind, ExceptT.bindCont,
    Option.bind] at *
  rw [h₁]; simp only [StateT.bind]
  rw [h₂]; rfl

example : (evalList (eval {} 3) [.lit (.i64 1), .lit (.i64 2)] []).run {} =
    some (.ok [.int .w64 1, .int .w64 2], {}) :=
  args_left_to_right_once (eval {} 3) _ _ [] {} {} {} (.int .w64 1) [.int .w64 2] rfl rfl

/-- if an argument stops (traps, exits, …) the arguments to its right are not evaluated: the state in
    which the call stops is the state in which that argument stopped -/
theorem args_stop_at_first_trap (rec : Rec) (e : Expr) (es : List Expr) (env : Env) (s s₁ : St)
    (st : Stop) (h₁ : (rec e env).run s = some (.error st, s₁)) :
    (evalList rec (e :: es) env).run s = some (.error st, s₁) := by
  simp only [evalList, ExceptT.run, bind, ExceptT.bind, ExceptT.mk, StateT.bind, ExceptT.bindCont,
    Option.bind] at *
  rw [h₁]; rfl

/-- `Array[T]::fill_with(n, f)` calls `f(i)`, then fills the rest from `i + 1` in the state `f(i)` left behind: the
    elements arrive in index order, every index is passed to `f` exactly once (the only use of the closure call) -/
theorem fill_with_in_index_order (rec : Rec) (f : Val) (i k : Nat) (s s₁ s₂ : St) (v : Val) (vs : List Val)
    (h₁ : (callClosure rec f [.int .w64 i]).run s = some (.ok v, s₁))
    (h₂ : (fillWith rec f (i + 1) k).run s₁ = some (.ok vs, s₂)) :
    (fillWith rec f i (k + 1)).run s = some (.ok (v :: vs), s₂) := by
  simp only [fillWith, ExceptT.run, bind, ExceptT.bind, ExceptT.mk, StateT.bind, ExceptT.bindCont,
    Option.bind] at *
  rw [h₁]; simp only [StateT.bind]
  rw [h₂]; rfl

example : (fillWith (eval {} 5) (.ref 0) 0 2).run { heap := #[.clo ["i"] (.var "i") []] } =
    some (.ok [.int .w64 0, .int .w64 1], { heap := #[.clo ["i"] (.var "i") []], cells := #[.int .w64 0, .int .w64 1] }) := by
  rfl

/-- a call evaluates its arguments with `evalList` before anything else happens -/
theorem call_evaluates_args_first (p : Prog) (rec : Rec) (f : String) (args : List Expr) (env : Env) :
    step p rec (.call f args) env =
      (do let vs ← evalList rec args env
          match p.findFn f with
          | some d => callDecl rec d none vs
          | none => callBuiltin f vs) := rfl

/-- binary operators: left operand, then right operand, then the operation -/
theorem binop_left_then_right (p : Prog) (rec : Rec) (op : BinOp) (a b : Expr) (env : Env) :
    step p rec (.bin op a b) env = (do let x ← rec a env; let y ← rec b env; binPrim op x y) := rfl

/-! ## value semantics of structs vs. reference identity of classes -/

/-- Updating field `i` of a struct value builds a new value and touches neither the heap nor any
    variable cell: every other copy of the old value (another variable, an array element, a field)
    still holds the old value. -/
theorem struct_copy_independent (p : Prog) (n f : String) (fs : List Val) (fields : List (String × Ty))
    (i : Nat) (old nv : Val) (s : St)
    (hdecl : p.structFields n = some fields) (hidx : fieldIndex fields f = some i) (hi : fs[i]? = some old) :
    (selSet p [.field f] (.struct n fs) nv).run s = some (.ok (.struct n (listSet fs i nv)), s) := by
  simp [selSet, selGet, hdecl, hidx, hi, ExceptT.run, bind, ExceptT.bind, ExceptT.mk, StateT.bind,
    ExceptT.bindCont, pure, ExceptT.pure, StateT.pure]

example : (selSet { structs := [("P", [("x", .i64), ("y", .i64)])] } [.field "y"]
      (.struct "P" [.int .w64 1, .int .w64 2]) (.int .w64 9)).run {} =
    some (.ok (.struct "P" [.int .w64 1, .int .w64 9]), {}) :=
  struct_copy_independent _ "P" "y" _ [("x", .i64), ("y", .i64)] 1 (.int .w64 2) _ {} rfl rfl rfl

/-- writing one variable's cell leaves every other cell as it was -/
theorem cells_independent (c₁ c₂ : Nat) (v : Val) (s : St) (h : c₁ ≠ c₂) :
    ((writeCell c₁ v).run s).map (fun r => r.2.cells[c₂]?) = some (s.cells[c₂]?) := by
  simp [writeCell, modSt, modify, modifyGet, MonadStateOf.modifyGet, ExceptT.run, monadLift,
    MonadLift.monadLift, ExceptT.lift, ExceptT.mk, StateT.modifyGet, Functor.map, StateT.map, bind,
    pure, Array.getElem?_setIfInBounds_ne h]

/-- Updating field `i` of a class instance through ANY reference to it changes the one heap object:
    afterwards a read of that field through the same address (i.e. through every alias) sees `nv`. -/
theorem class_alias_shared (p : Prog) (cls f : String) (fs : List Val) (fields : List (String × Ty))
    (i a : Nat) (old nv : Val) (s : St)
    (hobj : s.heap[a]? = some (.obj cls fs))
    (hdecl : p.classFields cls = some fields) (hidx : fieldIndex fields f = some i) (hi : fs[i]? = some old) :
    ∃ s', (selSet p [.field f] (.ref a) nv).run s = some (.ok (.ref a), s') ∧
      s'.heap[a]? = some (.obj cls (listSet fs i nv)) ∧ s'.cells = s.cells := by
  have ha : a < s.heap.size := by
    rcases Nat.lt_or_ge a s.heap.size with h | h
    · exact h
    · simp [Array.getElem?_eq_none h] at hobj
  refine ⟨{ s with heap := s.heap.setIfInBounds a (.obj cls (listSet fs i nv)) }, ?_, ?_, rfl⟩
  · simp [selSet, selGet, heapGet, heapSet, getSt, modSt, hobj, hdecl, hidx, hi, ExceptT.run, bind, ExceptT.bind,
      ExceptT.mk, StateT.bind, ExceptT.bindCont, pure, ExceptT.pure, StateT.pure, get, getThe, MonadStateOf.get,
      liftM, monadLift, MonadLift.monadLift, ExceptT.lift, StateT.get, Functor.map, StateT.map, modify, modifyGet,
      MonadStateOf.modifyGet, StateT.modifyGet]
  · simp [Array.getElem?_setIfInBounds_self_of_lt ha]

example : ∃ s', (selSet { classes := [("C", [("v", .i64)])] } [.field "v"] (.ref 0) (.int .w64 9)).run
      { heap := #[.obj "C" [.int .w64 3]] } = some (.ok (.ref 0), s') ∧
      s'.heap[0]? = some (.obj "C" [.int .w64 9]) ∧ s'.cells = #[] :=
  class_alias_shared _ "C" "v" [.int .w64 3] [("v", .i64)] 0 0 (.int .w64 3) _ _ rfl rfl rfl rfl

/-! ## the optimizer's algebraic simplifications preserve value and trap -/

/-- every rule of `pkgs/boots/simplification.dora` (as modelled in `Simp.lean`): if the pass rewrites an
    instruction, the replacement evaluates to the same value or the same trap for all in-range operands;
    in particular a trapping operation is never folded into a value -/
theorem simplify_sound (e e' : Simp.Expr) (env : Simp.Env)
    (h : Simp.simplify e = some e') (hr : e.InRange env) : Simp.eval env e' = Simp.eval env e :=
  Simp.simplify_sound env h hr

end Dora.Mini.C01
