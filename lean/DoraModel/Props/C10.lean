import DoraModel.Artifact.Lemmas
/-!
# C10 — Every place a frame can be suspended has a correct-looking stack map

Soundness of the artifact validator `wfArtifact` against the model of the runtime's consumer
(`CodeMap::get`, `GcPointTable::get`, `iterate_roots_from_stack_frame`). The validator is run on every `.s`
file the tool chain emits (checks/c10.py); these theorems say what an accepted artifact guarantees.
-/
namespace Dora.Artifact.C10
open Dora.Artifact

/-- "the code ranges registered with the runtime are disjoint, so every such address resolves to exactly
one function": in an accepted artifact the code-map lookup of any address inside a function returns that
function, and no other function contains the address. -/
theorem code_lookup_unique (a : Artifact) (h : wfArtifact a = true) (f : Fn) (hf : f ∈ a.fns) (pc : Nat)
    (h1 : f.start ≤ pc) (h2 : pc < f.stop) :
    codeMapGet a pc = some f ∧ ∀ g ∈ a.fns, g.start ≤ pc → pc < g.stop → g = f := by
  simp only [wfArtifact, Bool.and_eq_true] at h
  obtain ⟨⟨_, hr⟩, _⟩ := h
  refine ⟨find_in_ranges a.fns hr f hf pc h1 h2, ?_⟩
  intro g hg g1 g2
  exact ranges_unique a.fns hr g f hg hf pc g1 g2 h1 h2

/-- what "a correct-looking stack map" means for function `f` at a call with `extra` bytes pushed:
only negative, word-aligned slots inside the (extended) frame; interior pointers have room for two words -/
def MapOK (f : Fn) (extra : Nat) (g : GcPoint) : Prop :=
  (∀ o ∈ g.offsets, o < 0 ∧ o % 8 = 0 ∧ -o ≤ (f.frame + extra : Nat)) ∧
  (∀ o ∈ g.interior, o < 0 ∧ o % 8 = 0 ∧ -o ≤ (f.frame + extra : Nat) ∧ o + 8 < 0) ∧
  -- no stack word is named twice: ordinary slots are pairwise distinct, and neither word of an interior pair
  -- (pointer at `o`, object base at `o + 8`) is an ordinary slot
  g.offsets.Nodup ∧
  (∀ o ∈ g.interior, o ∉ g.offsets ∧ o + 8 ∉ g.offsets)

theorem distinctOffsets_nodup : ∀ (l : List Int), distinctOffsets l = true → l.Nodup
  | [], _ => List.nodup_nil
  | a :: r, h => by
    simp only [distinctOffsets, Bool.and_eq_true, Bool.not_eq_true', List.contains_eq_mem, decide_eq_false_iff_not] at h
    exact List.nodup_cons.mpr ⟨h.1, distinctOffsets_nodup r h.2⟩

theorem gcpointOK_MapOK (f : Fn) (g : GcPoint) (h : gcpointOK f g = true) : MapOK f (extraAt f g.pc) g := by
  simp only [gcpointOK, Bool.and_eq_true, List.all_eq_true] at h
  obtain ⟨⟨⟨⟨_, ho⟩, hi⟩, hd⟩, hdis⟩ := h
  refine ⟨?_, ?_, distinctOffsets_nodup _ hd, ?_⟩
  · intro o ho'
    have := ho o ho'
    simp only [slotOK, Bool.and_eq_true, decide_eq_true_eq] at this
    exact ⟨this.1.1, this.1.2, this.2⟩
  · intro o ho'
    have := hi o ho'
    simp only [interiorOK, slotOK, Bool.and_eq_true, decide_eq_true_eq] at this
    exact ⟨this.1.1.1, this.1.1.2, this.1.2, this.2⟩
  · intro o ho'
    simp only [interiorDisjoint, Bool.and_eq_true, List.all_eq_true] at hdis
    have := hdis.1.1 o ho'
    simp only [Bool.and_eq_true, Bool.not_eq_true', List.contains_eq_mem, decide_eq_false_iff_not] at this
    exact this

/-- "every such address resolves to exactly one function" for the addresses the runtime actually looks up: the return
address of every call of a compiled function after which the frame may be walked by a collection, or whose handler
(trap, stack overflow) names the failing function, lies STRICTLY inside that function, so the code map returns that
function and not its neighbour (a call that ends a function which fills its aligned slot exactly would return to the
first byte of the next function). -/
theorem return_address_inside (a : Artifact) (h : wfArtifact a = true) (f : Fn) (hf : f ∈ a.fns)
    (hk : f.kind = .optimized) (c : Call) (hc : c ∈ f.calls) (hl : c.cls.lookedUp = true) :
    c.ret < f.stop - f.start ∧ codeMapGet a (f.start + c.ret) = some f := by
  have h' := h
  simp only [wfArtifact, Bool.and_eq_true, List.all_eq_true] at h'
  have hfn := h'.2 f hf
  simp only [fnOK, Bool.and_eq_true, List.all_eq_true] at hfn
  obtain ⟨⟨⟨⟨⟨⟨_, _⟩, _⟩, hcalls⟩, _⟩, _⟩, _⟩ := hfn
  have hcall := (by simpa only [callOK, Bool.and_eq_true] using hcalls c hc : _ ∧ _).1
  simp only [hk, hl, decide_true, Bool.and_self, and_self, if_true, ite_true, decide_eq_true_eq] at hcall
  exact ⟨hcall, (code_lookup_unique a h f hf (f.start + c.ret) (by omega) (by omega)).1⟩

/-- "each return address at which a managed frame can be on the stack while a collection runs -- after
every call to managed code, to a runtime entry, to the safepoint and allocation slow paths -- has a stack
map, and that map names only reference-sized slots inside that frame": for every such call of every
compiled function the frame walk does not panic and visits a well-formed map. -/
theorem suspended_frame_has_map (a : Artifact) (h : wfArtifact a = true) (f : Fn) (hf : f ∈ a.fns)
    (hk : f.kind = .optimized) (c : Call) (hc : c ∈ f.calls) (hn : c.cls.needsMap = true) :
    ∃ g, frameWalk a (f.start + c.ret) = .roots g ∧ g.pc = c.ret ∧ MapOK f (extraAt f c.ret) g := by
  have hin : c.ret < f.stop - f.start := (return_address_inside a h f hf hk c hc (by simp [CallClass.lookedUp, hn])).1
  have hlook := (code_lookup_unique a h f hf (f.start + c.ret) (by omega) (by omega)).1
  simp only [wfArtifact, Bool.and_eq_true, List.all_eq_true] at h
  have hfn := h.2 f hf
  simp only [fnOK, Bool.and_eq_true, List.all_eq_true] at hfn
  obtain ⟨⟨⟨⟨⟨⟨_, _⟩, hg⟩, hcalls⟩, _⟩, _⟩, _⟩ := hfn
  have hcall := (by simpa only [callOK, Bool.and_eq_true] using hcalls c hc : _ ∧ _).2
  simp only [hk, hn, decide_true, Bool.and_self, and_self, if_true, ite_true] at hcall
  obtain ⟨g, hgq⟩ := Option.isSome_iff_exists.mp hcall
  obtain ⟨gmem, gpc⟩ := find_some_mem_pc _ _ _ hgq
  refine ⟨g, ?_, gpc, ?_⟩
  · simp only [frameWalk, hlook, hk]
    have : f.start + c.ret - f.start = c.ret := by omega
    rw [this, hgq]
  · have := gcpointOK_MapOK f g (hg g gmem)
    rw [gpc] at this; exact this

/-- Trampoline frames (runtime entry, unreachable, stack overflow, fatal error) are looked up at offset 0:
they have a well-formed map there, so the walk never hits `expect("no gcpoint")`. -/
theorem trampoline_frame_has_map (a : Artifact) (h : wfArtifact a = true) (f : Fn) (hf : f ∈ a.fns)
    (hk : kindWalksAtZero f.kind = true) (pc : Nat) (h1 : f.start ≤ pc) (h2 : pc < f.stop) :
    ∃ g, frameWalk a pc = .roots g ∧ g.pc = 0 ∧ MapOK f (extraAt f 0) g := by
  have hlook := (code_lookup_unique a h f hf pc h1 h2).1
  simp only [wfArtifact, Bool.and_eq_true, List.all_eq_true] at h
  have hfn := h.2 f hf
  simp only [fnOK, Bool.and_eq_true, List.all_eq_true] at hfn
  obtain ⟨⟨⟨⟨⟨⟨_, _⟩, hg⟩, _⟩, hz⟩, _⟩, _⟩ := hfn
  simp only [hk, if_true] at hz
  obtain ⟨g, hgq⟩ := Option.isSome_iff_exists.mp hz
  obtain ⟨gmem, gpc⟩ := find_some_mem_pc _ _ _ hgq
  refine ⟨g, ?_, gpc, ?_⟩
  · simp only [frameWalk, hlook]
    cases hkk : f.kind <;> simp [hkk, kindWalksAtZero] at hk ⊢ <;> rw [hgq]
  · have := gcpointOK_MapOK f g (hg g gmem)
    rw [gpc] at this; exact this

/-- "Source-position tables are ordered and lie inside their function"; stack-map tables are strictly
ordered (what `GcPointTable::insert` asserts and binary search needs). -/
theorem tables_ordered (a : Artifact) (h : wfArtifact a = true) (f : Fn) (hf : f ∈ a.fns) :
    strictlyIncreasing (f.gcps.map (·.pc)) = true ∧ nonDecreasing (f.locs.map (·.pc)) = true ∧
    (∀ l ∈ f.locs, l.pc ≤ f.stop - f.start) ∧ (∀ g ∈ f.gcps, g.pc ≤ f.stop - f.start) := by
  simp only [wfArtifact, Bool.and_eq_true, List.all_eq_true] at h
  have hfn := h.2 f hf
  simp only [fnOK, Bool.and_eq_true, List.all_eq_true, decide_eq_true_eq] at hfn
  obtain ⟨⟨⟨⟨⟨⟨_, hs⟩, hg⟩, _⟩, _⟩, hl⟩, hli⟩ := hfn
  refine ⟨hs, hl, hli, ?_⟩
  intro g hgm
  have := hg g hgm
  simp only [gcpointOK, Bool.and_eq_true, decide_eq_true_eq] at this
  exact this.1.1.1.1

/-- non-vacuity: a two-function artifact (one compiled function with a call into a runtime-entry
trampoline and a slow-path call with pushed registers) is accepted, and a variant whose map is missing is
rejected. -/
def exFn : Fn where
  kind := .optimized
  start := 0
  stop := 96
  frame := 32
  bad := false
  calls := [⟨40, .managed, 0⟩, ⟨80, .alloc, 16⟩, ⟨90, .trap, 0⟩]
  gcps := [⟨40, [-8, -24], []⟩, ⟨80, [-8, -40, -48], [-32]⟩]
  locs := [⟨40, 0, 3, 5⟩, ⟨80, 0, 4, 9⟩, ⟨90, 0, 4, 9⟩]
def exTramp : Fn where
  kind := .runtimeEntry
  start := 96
  stop := 160
  frame := 32
  bad := false
  calls := [⟨60, .native, 0⟩]
  gcps := [⟨0, [], []⟩]
  locs := []
example : wfArtifact ⟨[exFn, exTramp], false⟩ = true := by decide +kernel
example : wfArtifact ⟨[{ exFn with gcps := [⟨40, [-8, -24], []⟩] }, exTramp], false⟩ = false := by decide +kernel
example : wfArtifact ⟨[{ exFn with gcps := [⟨40, [-8, -48], []⟩, ⟨80, [-8], []⟩] }, exTramp], false⟩ = false := by decide +kernel
example : wfArtifact ⟨[exFn, { exTramp with start := 90 }], false⟩ = false := by decide +kernel
/-- an interior pair whose base word (`-32 + 8 = -24`) is also an ordinary slot, and a slot listed twice: rejected -/
example : wfArtifact ⟨[{ exFn with gcps := [⟨40, [-8, -24], [-32]⟩, ⟨80, [-8, -40, -48], [-32]⟩] }, exTramp], false⟩ = false := by decide +kernel
example : wfArtifact ⟨[{ exFn with gcps := [⟨40, [-8, -8], []⟩, ⟨80, [-8, -40, -48], [-32]⟩] }, exTramp], false⟩ = false := by decide +kernel
/-- the trap call as the very last instruction of a function that fills its slot exactly (return offset 96 = size):
rejected — the address would resolve to the trampoline that follows -/
def exFnLast : Fn :=
  { exFn with
    calls := [⟨40, .managed, 0⟩, ⟨80, .alloc, 16⟩, ⟨96, .trap, 0⟩],
    locs := [⟨40, 0, 3, 5⟩, ⟨80, 0, 4, 9⟩, ⟨96, 0, 4, 9⟩] }
example : wfArtifact ⟨[exFnLast, exTramp], false⟩ = false := by decide +kernel
example : (codeMapGet ⟨[exFn, exTramp], false⟩ (0 + 96)).map (·.kind) = some .runtimeEntry := by decide +kernel
/-- non-vacuity of `return_address_inside`: the trap call of the example function -/
example : (⟨90, .trap, 0⟩ : Call).ret < exFn.stop - exFn.start ∧ codeMapGet ⟨[exFn, exTramp], false⟩ (exFn.start + 90) = some exFn :=
  return_address_inside ⟨[exFn, exTramp], false⟩ (by decide +kernel) exFn (by simp) rfl ⟨90, .trap, 0⟩ (by simp [exFn]) rfl

end Dora.Artifact.C10
