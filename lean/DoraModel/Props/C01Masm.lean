import DoraModel.X64.MasmLemmas3
import DoraModel.X64.MasmLemmasDiv
/-!
# C01, machine leg — the baseline code generator's integer helper sequences at the level of x86-64 instructions

Objects: `Dora.Masm.*` of `DoraModel/Gen/Masm.lean` (REGENERATED on every run from `dora-cannon-compiler/src/masm/x64.rs`,
`masm.rs`, `codegen.rs` by `tools/rs2lean_masm.py`: every helper is a function appending abstract instructions) and the
hand-written micro-semantics `Dora.X64.Sem.exec` (`DoraModel/X64/Sem.lean`, validated against the host CPU on every run).
`assemble h` is what a fresh macro assembler holds after `h`, a `done` marker and `emit_bailouts` (the trap stubs).

Every theorem below is for ALL 64-bit register contents (no sampling), all initial flags (also all-undefined), all memories,
and — unless stated — all register operands subject to the stated aliasing precondition; `codegen_register_assignment`
discharges the preconditions for the registers `codegen.rs` passes.  Vocabulary (`DoraModel/X64/MasmSpec.lean`): `fitsS w z`
(z is a signed w-bit number), `sameExcept l s s'` (registers outside `l` and memory unchanged), `trapNo t`, `relHolds`.
In 32-bit mode the operands are the low halves (`lo32`) of the registers and the result is zero-extended (`setWidth 64`).

NOT proved here (statement kept, see the end of the file): `int_div_checked` / `int_mod_checked`.
-/
set_option linter.unusedSimpArgs false
set_option linter.unusedVariables false
namespace Dora.Masm.Props
open Dora.X64.Sem Dora.Masm Dora.Masm.Spec

/-- C01, checked add (32-bit): the sequence `int_add_checked` emits, run from ANY state, ends in `done` with `dest` = the exact
    sum of the two operands (low 32 bits of `lhs` and `rhs`, read as signed; upper half of `dest` zero; its signed reading is the exact integer
    result) if that sum is representable in 32 bits, and otherwise in the OVERFLOW trap (trap number in `edi`); exactly
    one of the two, so the trap is taken iff the result is not representable. Only the listed registers (and the flags) change.
    Aliasing precondition: `dest = rhs` is allowed only when `dest = lhs`. Never `bad` (undefined flag read) or `#DE`. -/
theorem int_add_checked_32 (dest lhs rhs : Reg) (loc : Location) (s : State) (hal : dest ≠ lhs → dest ≠ rhs) :
    ∃ prog, assemble (int_add_checked .Int32 dest lhs rhs loc) = .ok prog ∧
      let a := lo32 (s.get lhs); let b := lo32 (s.get rhs)
      (fitsS 32 (a.toInt + b.toInt) →
        ∃ s', exec prog s = .done s' ∧ s'.get dest = (a + b).setWidth 64 ∧ (a + b).toInt = a.toInt + b.toInt ∧
          sameExcept [dest] s s') ∧
      (¬ fitsS 32 (a.toInt + b.toInt) →
        ∃ s', exec prog s = .trap (trapNo .OVERFLOW) s' ∧ sameExcept [RDI, dest] s s') := by
  refine ⟨_, prog_add_checked32 .., ?_⟩
  dsimp only
  rw [fits_add]
  by_cases h : dest = lhs
  · subst h
    masm_list []
    refine ⟨fun hov => ?_, fun hov => ?_⟩
    · have := BitVec.toInt_add_of_not_saddOverflow (x := lo32 (s.get dest)) (y := lo32 (s.get rhs)) (by simp [hov])
      masm_sim [hov, this]
      masm_fin
    · masm_sim [hov]
      masm_fin
  · have h' := hal h
    masm_list [h]
    refine ⟨fun hov => ?_, fun hov => ?_⟩
    · have := BitVec.toInt_add_of_not_saddOverflow (x := lo32 (s.get lhs)) (y := lo32 (s.get rhs)) (by simp [hov])
      masm_sim [hov, this, h, h', Ne.symm h, Ne.symm h']
      masm_fin
    · masm_sim [hov, h, h', Ne.symm h, Ne.symm h']
      masm_fin

/-- non-vacuity: codegen's registers satisfy the precondition; both branches are inhabited -/
example : (RAX ≠ RAX → RAX ≠ R13) ∧ (∃ s : State, fitsS 32 ((lo32 (s.get RAX)).toInt + (lo32 (s.get R13)).toInt)) ∧
    (∃ s : State, ¬ fitsS 32 ((lo32 (s.get RAX)).toInt + (lo32 (s.get R13)).toInt)) :=
  ⟨by decide, ⟨{ regs := fun r => if r = RAX then 5#64 else if r = R13 then 7#64 else 0 }, by decide⟩,
    ⟨{ regs := fun r => if r = RAX then 2147483647#64 else if r = R13 then 1#64 else 0 }, by decide⟩⟩

/-- C01, checked add (64-bit): the sequence `int_add_checked` emits, run from ANY state, ends in `done` with `dest` = the exact
    sum of the two operands (low 64 bits of `lhs` and `rhs`, read as signed; its signed reading is the exact integer
    result) if that sum is representable in 64 bits, and otherwise in the OVERFLOW trap (trap number in `edi`); exactly
    one of the two, so the trap is taken iff the result is not representable. Only the listed registers (and the flags) change.
    Aliasing precondition: `dest = rhs` is allowed only when `dest = lhs`. Never `bad` (undefined flag read) or `#DE`. -/
theorem int_add_checked_64 (dest lhs rhs : Reg) (loc : Location) (s : State) (hal : dest ≠ lhs → dest ≠ rhs) :
    ∃ prog, assemble (int_add_checked .Int64 dest lhs rhs loc) = .ok prog ∧
      let a := s.get lhs; let b := s.get rhs
      (fitsS 64 (a.toInt + b.toInt) →
        ∃ s', exec prog s = .done s' ∧ s'.get dest = a + b ∧ (a + b).toInt = a.toInt + b.toInt ∧
          sameExcept [dest] s s') ∧
      (¬ fitsS 64 (a.toInt + b.toInt) →
        ∃ s', exec prog s = .trap (trapNo .OVERFLOW) s' ∧ sameExcept [RDI, dest] s s') := by
  refine ⟨_, prog_add_checked64 .., ?_⟩
  dsimp only
  rw [fits_add]
  by_cases h : dest = lhs
  · subst h
    masm_list []
    refine ⟨fun hov => ?_, fun hov => ?_⟩
    · have := BitVec.toInt_add_of_not_saddOverflow (x := s.get dest) (y := s.get rhs) (by simp [hov])
      masm_sim [hov, this]
      masm_fin
    · masm_sim [hov]
      masm_fin
  · have h' := hal h
    masm_list [h]
    refine ⟨fun hov => ?_, fun hov => ?_⟩
    · have := BitVec.toInt_add_of_not_saddOverflow (x := s.get lhs) (y := s.get rhs) (by simp [hov])
      masm_sim [hov, this, h, h', Ne.symm h, Ne.symm h']
      masm_fin
    · masm_sim [hov, h, h', Ne.symm h, Ne.symm h']
      masm_fin

/-- non-vacuity: codegen's registers satisfy the precondition; both branches are inhabited -/
example : (RAX ≠ RAX → RAX ≠ R13) ∧ (∃ s : State, fitsS 64 ((s.get RAX).toInt + (s.get R13).toInt)) ∧
    (∃ s : State, ¬ fitsS 64 ((s.get RAX).toInt + (s.get R13).toInt)) :=
  ⟨by decide, ⟨{ regs := fun r => if r = RAX then 5#64 else if r = R13 then 7#64 else 0 }, by decide⟩,
    ⟨{ regs := fun r => if r = RAX then 9223372036854775807#64 else if r = R13 then 1#64 else 0 }, by decide⟩⟩

/-- C01, checked sub (32-bit): the sequence `int_sub_checked` emits, run from ANY state, ends in `done` with `dest` = the exact
    difference of the two operands (low 32 bits of `lhs` and `rhs`, read as signed; upper half of `dest` zero; its signed reading is the exact integer
    result) if that difference is representable in 32 bits, and otherwise in the OVERFLOW trap (trap number in `edi`); exactly
    one of the two, so the trap is taken iff the result is not representable. Only the listed registers (and the flags) change.
    `lhs` is overwritten (it holds the result too); no aliasing precondition. Never `bad` (undefined flag read) or `#DE`. -/
theorem int_sub_checked_32 (dest lhs rhs : Reg) (loc : Location) (s : State) :
    ∃ prog, assemble (int_sub_checked .Int32 dest lhs rhs loc) = .ok prog ∧
      let a := lo32 (s.get lhs); let b := lo32 (s.get rhs)
      (fitsS 32 (a.toInt - b.toInt) →
        ∃ s', exec prog s = .done s' ∧ s'.get dest = (a - b).setWidth 64 ∧ (a - b).toInt = a.toInt - b.toInt ∧
          sameExcept [lhs, dest] s s') ∧
      (¬ fitsS 32 (a.toInt - b.toInt) →
        ∃ s', exec prog s = .trap (trapNo .OVERFLOW) s' ∧ sameExcept [RDI, lhs, dest] s s') := by
  refine ⟨_, prog_sub_checked32 .., ?_⟩
  dsimp only
  rw [fits_sub]
  by_cases h : dest = lhs
  · subst h
    masm_list []
    refine ⟨fun hov => ?_, fun hov => ?_⟩
    · have := BitVec.toInt_sub_of_not_ssubOverflow (x := lo32 (s.get dest)) (y := lo32 (s.get rhs)) (by simp [hov])
      masm_sim [hov, this]
      masm_fin
    · masm_sim [hov]
      masm_fin
  · masm_list [h]
    refine ⟨fun hov => ?_, fun hov => ?_⟩
    · have := BitVec.toInt_sub_of_not_ssubOverflow (x := lo32 (s.get lhs)) (y := lo32 (s.get rhs)) (by simp [hov])
      masm_sim [hov, this, h, Ne.symm h]
      masm_fin
    · masm_sim [hov, h, Ne.symm h]
      masm_fin

/-- non-vacuity: codegen's registers satisfy the precondition; both branches are inhabited -/
example : (∃ s : State, fitsS 32 ((lo32 (s.get RAX)).toInt - (lo32 (s.get R13)).toInt)) ∧
    (∃ s : State, ¬ fitsS 32 ((lo32 (s.get RAX)).toInt - (lo32 (s.get R13)).toInt)) :=
  ⟨⟨{ regs := fun r => if r = RAX then 5#64 else if r = R13 then 7#64 else 0 }, by decide⟩,
    ⟨{ regs := fun r => if r = RAX then 18446744071562067968#64 else if r = R13 then 1#64 else 0 }, by decide⟩⟩

/-- C01, checked sub (64-bit): the sequence `int_sub_checked` emits, run from ANY state, ends in `done` with `dest` = the exact
    difference of the two operands (low 64 bits of `lhs` and `rhs`, read as signed; its signed reading is the exact integer
    result) if that difference is representable in 64 bits, and otherwise in the OVERFLOW trap (trap number in `edi`); exactly
    one of the two, so the trap is taken iff the result is not representable. Only the listed registers (and the flags) change.
    `lhs` is overwritten (it holds the result too); no aliasing precondition. Never `bad` (undefined flag read) or `#DE`. -/
theorem int_sub_checked_64 (dest lhs rhs : Reg) (loc : Location) (s : State) :
    ∃ prog, assemble (int_sub_checked .Int64 dest lhs rhs loc) = .ok prog ∧
      let a := s.get lhs; let b := s.get rhs
      (fitsS 64 (a.toInt - b.toInt) →
        ∃ s', exec prog s = .done s' ∧ s'.get dest = a - b ∧ (a - b).toInt = a.toInt - b.toInt ∧
          sameExcept [lhs, dest] s s') ∧
      (¬ fitsS 64 (a.toInt - b.toInt) →
        ∃ s', exec prog s = .trap (trapNo .OVERFLOW) s' ∧ sameExcept [RDI, lhs, dest] s s') := by
  refine ⟨_, prog_sub_checked64 .., ?_⟩
  dsimp only
  rw [fits_sub]
  by_cases h : dest = lhs
  · subst h
    masm_list []
    refine ⟨fun hov => ?_, fun hov => ?_⟩
    · have := BitVec.toInt_sub_of_not_ssubOverflow (x := s.get dest) (y := s.get rhs) (by simp [hov])
      masm_sim [hov, this]
      masm_fin
    · masm_sim [hov]
      masm_fin
  · masm_list [h]
    refine ⟨fun hov => ?_, fun hov => ?_⟩
    · have := BitVec.toInt_sub_of_not_ssubOverflow (x := s.get lhs) (y := s.get rhs) (by simp [hov])
      masm_sim [hov, this, h, Ne.symm h]
      masm_fin
    · masm_sim [hov, h, Ne.symm h]
      masm_fin

/-- non-vacuity: codegen's registers satisfy the precondition; both branches are inhabited -/
example : (∃ s : State, fitsS 64 ((s.get RAX).toInt - (s.get R13).toInt)) ∧
    (∃ s : State, ¬ fitsS 64 ((s.get RAX).toInt - (s.get R13).toInt)) :=
  ⟨⟨{ regs := fun r => if r = RAX then 5#64 else if r = R13 then 7#64 else 0 }, by decide⟩,
    ⟨{ regs := fun r => if r = RAX then 9223372036854775808#64 else if r = R13 then 1#64 else 0 }, by decide⟩⟩

/-- C01, checked mul (32-bit): the sequence `int_mul_checked` emits, run from ANY state, ends in `done` with `dest` = the exact
    product of the two operands (low 32 bits of `lhs` and `rhs`, read as signed; upper half of `dest` zero; its signed reading is the exact integer
    result) if that product is representable in 32 bits, and otherwise in the OVERFLOW trap (trap number in `edi`); exactly
    one of the two, so the trap is taken iff the result is not representable. Only the listed registers (and the flags) change.
    `lhs` is overwritten (it holds the result too); no aliasing precondition. Never `bad` (undefined flag read) or `#DE`. -/
theorem int_mul_checked_32 (dest lhs rhs : Reg) (loc : Location) (s : State) :
    ∃ prog, assemble (int_mul_checked .Int32 dest lhs rhs loc) = .ok prog ∧
      let a := lo32 (s.get lhs); let b := lo32 (s.get rhs)
      (fitsS 32 (a.toInt * b.toInt) →
        ∃ s', exec prog s = .done s' ∧ s'.get dest = (a * b).setWidth 64 ∧ (a * b).toInt = a.toInt * b.toInt ∧
          sameExcept [lhs, dest] s s') ∧
      (¬ fitsS 32 (a.toInt * b.toInt) →
        ∃ s', exec prog s = .trap (trapNo .OVERFLOW) s' ∧ sameExcept [RDI, lhs, dest] s s') := by
  refine ⟨_, prog_mul_checked32 .., ?_⟩
  dsimp only
  rw [fits_mul]
  by_cases h : dest = lhs
  · subst h
    masm_list []
    refine ⟨fun hov => ?_, fun hov => ?_⟩
    · have := BitVec.toInt_mul_of_not_smulOverflow (x := lo32 (s.get dest)) (y := lo32 (s.get rhs)) (by simp [hov])
      masm_sim [hov, this]
      masm_fin
    · masm_sim [hov]
      masm_fin
  · masm_list [h]
    refine ⟨fun hov => ?_, fun hov => ?_⟩
    · have := BitVec.toInt_mul_of_not_smulOverflow (x := lo32 (s.get lhs)) (y := lo32 (s.get rhs)) (by simp [hov])
      masm_sim [hov, this, h, Ne.symm h]
      masm_fin
    · masm_sim [hov, h, Ne.symm h]
      masm_fin

/-- non-vacuity: codegen's registers satisfy the precondition; both branches are inhabited -/
example : (∃ s : State, fitsS 32 ((lo32 (s.get RAX)).toInt * (lo32 (s.get R13)).toInt)) ∧
    (∃ s : State, ¬ fitsS 32 ((lo32 (s.get RAX)).toInt * (lo32 (s.get R13)).toInt)) :=
  ⟨⟨{ regs := fun r => if r = RAX then 5#64 else if r = R13 then 7#64 else 0 }, by decide⟩,
    ⟨{ regs := fun r => if r = RAX then 2147483647#64 else if r = R13 then 2#64 else 0 }, by decide⟩⟩

/-- C01, checked mul (64-bit): the sequence `int_mul_checked` emits, run from ANY state, ends in `done` with `dest` = the exact
    product of the two operands (low 64 bits of `lhs` and `rhs`, read as signed; its signed reading is the exact integer
    result) if that product is representable in 64 bits, and otherwise in the OVERFLOW trap (trap number in `edi`); exactly
    one of the two, so the trap is taken iff the result is not representable. Only the listed registers (and the flags) change.
    `lhs` is overwritten (it holds the result too); no aliasing precondition. Never `bad` (undefined flag read) or `#DE`. -/
theorem int_mul_checked_64 (dest lhs rhs : Reg) (loc : Location) (s : State) :
    ∃ prog, assemble (int_mul_checked .Int64 dest lhs rhs loc) = .ok prog ∧
      let a := s.get lhs; let b := s.get rhs
      (fitsS 64 (a.toInt * b.toInt) →
        ∃ s', exec prog s = .done s' ∧ s'.get dest = a * b ∧ (a * b).toInt = a.toInt * b.toInt ∧
          sameExcept [lhs, dest] s s') ∧
      (¬ fitsS 64 (a.toInt * b.toInt) →
        ∃ s', exec prog s = .trap (trapNo .OVERFLOW) s' ∧ sameExcept [RDI, lhs, dest] s s') := by
  refine ⟨_, prog_mul_checked64 .., ?_⟩
  dsimp only
  rw [fits_mul]
  by_cases h : dest = lhs
  · subst h
    masm_list []
    refine ⟨fun hov => ?_, fun hov => ?_⟩
    · have := BitVec.toInt_mul_of_not_smulOverflow (x := s.get dest) (y := s.get rhs) (by simp [hov])
      masm_sim [hov, this]
      masm_fin
    · masm_sim [hov]
      masm_fin
  · masm_list [h]
    refine ⟨fun hov => ?_, fun hov => ?_⟩
    · have := BitVec.toInt_mul_of_not_smulOverflow (x := s.get lhs) (y := s.get rhs) (by simp [hov])
      masm_sim [hov, this, h, Ne.symm h]
      masm_fin
    · masm_sim [hov, h, Ne.symm h]
      masm_fin

/-- non-vacuity: codegen's registers satisfy the precondition; both branches are inhabited -/
example : (∃ s : State, fitsS 64 ((s.get RAX).toInt * (s.get R13).toInt)) ∧
    (∃ s : State, ¬ fitsS 64 ((s.get RAX).toInt * (s.get R13).toInt)) :=
  ⟨⟨{ regs := fun r => if r = RAX then 5#64 else if r = R13 then 7#64 else 0 }, by decide⟩,
    ⟨{ regs := fun r => if r = RAX then 9223372036854775807#64 else if r = R13 then 2#64 else 0 }, by decide⟩⟩

/-- C01, checked negation (32-bit): `done` with `dest` = −operand exactly when that is representable (operand ≠ MIN),
    OVERFLOW trap otherwise (operand = MIN); nothing but `dest` (and `edi` on the trap path, flags) changes. -/
theorem int_neg_checked_32 (dest src : Reg) (loc : Location) (s : State) :
    ∃ prog, assemble (int_neg_checked .Int32 dest src loc) = .ok prog ∧
      let a := lo32 (s.get src)
      (fitsS 32 (-a.toInt) →
        ∃ s', exec prog s = .done s' ∧ s'.get dest = (-a).setWidth 64 ∧ (-a).toInt = -a.toInt ∧ sameExcept [dest] s s') ∧
      (¬ fitsS 32 (-a.toInt) →
        ∃ s', exec prog s = .trap (trapNo .OVERFLOW) s' ∧ sameExcept [RDI, dest] s s') := by
  refine ⟨_, prog_neg_checked32 .., ?_⟩
  dsimp only
  rw [fits_neg32]
  by_cases h : dest = src
  · subst h
    masm_list []
    refine ⟨fun hov => ?_, fun hov => ?_⟩
    · have := BitVec.toInt_neg_of_not_negOverflow (x := lo32 (s.get dest)) (by simp [hov])
      masm_sim [hov, this]
      masm_fin
    · masm_sim [hov]
      masm_fin
  · masm_list [h]
    refine ⟨fun hov => ?_, fun hov => ?_⟩
    · have := BitVec.toInt_neg_of_not_negOverflow (x := lo32 (s.get src)) (by simp [hov])
      masm_sim [hov, this, h, Ne.symm h]
      masm_fin
    · masm_sim [hov, h, Ne.symm h]
      masm_fin

/-- non-vacuity: both branches are inhabited -/
example : (∃ s : State, fitsS 32 (-(lo32 (s.get RAX)).toInt)) ∧ (∃ s : State, ¬ fitsS 32 (-(lo32 (s.get RAX)).toInt)) :=
  ⟨⟨{ regs := fun r => if r = RAX then 5#64 else 0 }, by decide⟩, ⟨{ regs := fun r => if r = RAX then 2147483648#64 else 0 }, by decide⟩⟩

/-- C01, checked negation (64-bit): `done` with `dest` = −operand exactly when that is representable (operand ≠ MIN),
    OVERFLOW trap otherwise (operand = MIN); nothing but `dest` (and `edi` on the trap path, flags) changes. -/
theorem int_neg_checked_64 (dest src : Reg) (loc : Location) (s : State) :
    ∃ prog, assemble (int_neg_checked .Int64 dest src loc) = .ok prog ∧
      let a := s.get src
      (fitsS 64 (-a.toInt) →
        ∃ s', exec prog s = .done s' ∧ s'.get dest = -a ∧ (-a).toInt = -a.toInt ∧ sameExcept [dest] s s') ∧
      (¬ fitsS 64 (-a.toInt) →
        ∃ s', exec prog s = .trap (trapNo .OVERFLOW) s' ∧ sameExcept [RDI, dest] s s') := by
  refine ⟨_, prog_neg_checked64 .., ?_⟩
  dsimp only
  rw [fits_neg64]
  by_cases h : dest = src
  · subst h
    masm_list []
    refine ⟨fun hov => ?_, fun hov => ?_⟩
    · have := BitVec.toInt_neg_of_not_negOverflow (x := s.get dest) (by simp [hov])
      masm_sim [hov, this]
      masm_fin
    · masm_sim [hov]
      masm_fin
  · masm_list [h]
    refine ⟨fun hov => ?_, fun hov => ?_⟩
    · have := BitVec.toInt_neg_of_not_negOverflow (x := s.get src) (by simp [hov])
      masm_sim [hov, this, h, Ne.symm h]
      masm_fin
    · masm_sim [hov, h, Ne.symm h]
      masm_fin

/-- non-vacuity: both branches are inhabited -/
example : (∃ s : State, fitsS 64 (-(s.get RAX).toInt)) ∧ (∃ s : State, ¬ fitsS 64 (-(s.get RAX).toInt)) :=
  ⟨⟨{ regs := fun r => if r = RAX then 5#64 else 0 }, by decide⟩, ⟨{ regs := fun r => if r = RAX then 9223372036854775808#64 else 0 }, by decide⟩⟩

/-- C01, wrapping add (32-bit): `int_add` always ends in `done` with `dest` = the sum modulo 2^32 (two's complement wrap;
    upper half zero; its signed reading is the exact result reduced into the signed 32-bit range, `Int.bmod`). Same aliasing precondition as the checked form. -/
theorem int_add_wrapping_32 (dest lhs rhs : Reg) (s : State) (hal : dest ≠ lhs → dest ≠ rhs) :
    ∃ prog, assemble (int_add .Int32 dest lhs rhs) = .ok prog ∧
      let a := lo32 (s.get lhs); let b := lo32 (s.get rhs)
      ∃ s', exec prog s = .done s' ∧ s'.get dest = (a + b).setWidth 64 ∧
        (a + b).toInt = (a.toInt + b.toInt).bmod (2 ^ 32) ∧ sameExcept [dest] s s' := by
  refine ⟨_, prog_add32 .., ?_⟩
  dsimp only
  by_cases h : dest = lhs
  · subst h
    masm_list []
    masm_sim [BitVec.toInt_add]
    masm_fin
  · have h' := hal h
    masm_list [h]
    masm_sim [BitVec.toInt_add, h, h', Ne.symm h, Ne.symm h']
    masm_fin

/-- non-vacuity: a wrapping instance (MAX + 1) -/
example : ∃ a b : BitVec 32, (a + b).toInt ≠ a.toInt + b.toInt ∧ (a + b).toInt = (a.toInt + b.toInt).bmod (2 ^ 32) :=
  ⟨2147483647#32, 1#32, by decide⟩

/-- C01, wrapping add (64-bit): `int_add` always ends in `done` with `dest` = the sum modulo 2^64 (two's complement wrap;
    its signed reading is the exact result reduced into the signed 64-bit range, `Int.bmod`). Same aliasing precondition as the checked form. -/
theorem int_add_wrapping_64 (dest lhs rhs : Reg) (s : State) (hal : dest ≠ lhs → dest ≠ rhs) :
    ∃ prog, assemble (int_add .Int64 dest lhs rhs) = .ok prog ∧
      let a := s.get lhs; let b := s.get rhs
      ∃ s', exec prog s = .done s' ∧ s'.get dest = a + b ∧
        (a + b).toInt = (a.toInt + b.toInt).bmod (2 ^ 64) ∧ sameExcept [dest] s s' := by
  refine ⟨_, prog_add64 .., ?_⟩
  dsimp only
  by_cases h : dest = lhs
  · subst h
    masm_list []
    masm_sim [BitVec.toInt_add]
    masm_fin
  · have h' := hal h
    masm_list [h]
    masm_sim [BitVec.toInt_add, h, h', Ne.symm h, Ne.symm h']
    masm_fin

/-- non-vacuity: a wrapping instance (MAX + 1) -/
example : ∃ a b : BitVec 64, (a + b).toInt ≠ a.toInt + b.toInt ∧ (a + b).toInt = (a.toInt + b.toInt).bmod (2 ^ 64) :=
  ⟨9223372036854775807#64, 1#64, by decide⟩

/-- C01, wrapping sub (32-bit): `int_sub` always ends in `done` with `dest` = the difference modulo 2^32 (two's complement wrap;
    upper half zero; its signed reading is the exact result reduced into the signed 32-bit range, `Int.bmod`). `lhs` is overwritten. -/
theorem int_sub_wrapping_32 (dest lhs rhs : Reg) (s : State) :
    ∃ prog, assemble (int_sub .Int32 dest lhs rhs) = .ok prog ∧
      let a := lo32 (s.get lhs); let b := lo32 (s.get rhs)
      ∃ s', exec prog s = .done s' ∧ s'.get dest = (a - b).setWidth 64 ∧
        (a - b).toInt = (a.toInt - b.toInt).bmod (2 ^ 32) ∧ sameExcept [lhs, dest] s s' := by
  refine ⟨_, prog_sub32 .., ?_⟩
  dsimp only
  by_cases h : dest = lhs
  · subst h
    masm_list []
    masm_sim [BitVec.toInt_sub]
    masm_fin
  · masm_list [h]
    masm_sim [BitVec.toInt_sub, h, Ne.symm h]
    masm_fin

/-- non-vacuity: a wrapping instance (MAX - 1) -/
example : ∃ a b : BitVec 32, (a - b).toInt ≠ a.toInt - b.toInt ∧ (a - b).toInt = (a.toInt - b.toInt).bmod (2 ^ 32) :=
  ⟨2147483648#32, 1#32, by decide⟩

/-- C01, wrapping sub (64-bit): `int_sub` always ends in `done` with `dest` = the difference modulo 2^64 (two's complement wrap;
    its signed reading is the exact result reduced into the signed 64-bit range, `Int.bmod`). `lhs` is overwritten. -/
theorem int_sub_wrapping_64 (dest lhs rhs : Reg) (s : State) :
    ∃ prog, assemble (int_sub .Int64 dest lhs rhs) = .ok prog ∧
      let a := s.get lhs; let b := s.get rhs
      ∃ s', exec prog s = .done s' ∧ s'.get dest = a - b ∧
        (a - b).toInt = (a.toInt - b.toInt).bmod (2 ^ 64) ∧ sameExcept [lhs, dest] s s' := by
  refine ⟨_, prog_sub64 .., ?_⟩
  dsimp only
  by_cases h : dest = lhs
  · subst h
    masm_list []
    masm_sim [BitVec.toInt_sub]
    masm_fin
  · masm_list [h]
    masm_sim [BitVec.toInt_sub, h, Ne.symm h]
    masm_fin

/-- non-vacuity: a wrapping instance (MAX - 1) -/
example : ∃ a b : BitVec 64, (a - b).toInt ≠ a.toInt - b.toInt ∧ (a - b).toInt = (a.toInt - b.toInt).bmod (2 ^ 64) :=
  ⟨9223372036854775808#64, 1#64, by decide⟩

/-- C01, wrapping mul (32-bit): `int_mul` always ends in `done` with `dest` = the product modulo 2^32 (two's complement wrap;
    upper half zero; its signed reading is the exact result reduced into the signed 32-bit range, `Int.bmod`). `lhs` is overwritten. -/
theorem int_mul_wrapping_32 (dest lhs rhs : Reg) (s : State) :
    ∃ prog, assemble (int_mul .Int32 dest lhs rhs) = .ok prog ∧
      let a := lo32 (s.get lhs); let b := lo32 (s.get rhs)
      ∃ s', exec prog s = .done s' ∧ s'.get dest = (a * b).setWidth 64 ∧
        (a * b).toInt = (a.toInt * b.toInt).bmod (2 ^ 32) ∧ sameExcept [lhs, dest] s s' := by
  refine ⟨_, prog_mul32 .., ?_⟩
  dsimp only
  by_cases h : dest = lhs
  · subst h
    masm_list []
    masm_sim [BitVec.toInt_mul]
    masm_fin
  · masm_list [h]
    masm_sim [BitVec.toInt_mul, h, Ne.symm h]
    masm_fin

/-- non-vacuity: a wrapping instance (MAX * 2) -/
example : ∃ a b : BitVec 32, (a * b).toInt ≠ a.toInt * b.toInt ∧ (a * b).toInt = (a.toInt * b.toInt).bmod (2 ^ 32) :=
  ⟨2147483647#32, 2#32, by decide⟩

/-- C01, wrapping mul (64-bit): `int_mul` always ends in `done` with `dest` = the product modulo 2^64 (two's complement wrap;
    its signed reading is the exact result reduced into the signed 64-bit range, `Int.bmod`). `lhs` is overwritten. -/
theorem int_mul_wrapping_64 (dest lhs rhs : Reg) (s : State) :
    ∃ prog, assemble (int_mul .Int64 dest lhs rhs) = .ok prog ∧
      let a := s.get lhs; let b := s.get rhs
      ∃ s', exec prog s = .done s' ∧ s'.get dest = a * b ∧
        (a * b).toInt = (a.toInt * b.toInt).bmod (2 ^ 64) ∧ sameExcept [lhs, dest] s s' := by
  refine ⟨_, prog_mul64 .., ?_⟩
  dsimp only
  by_cases h : dest = lhs
  · subst h
    masm_list []
    masm_sim [BitVec.toInt_mul]
    masm_fin
  · masm_list [h]
    masm_sim [BitVec.toInt_mul, h, Ne.symm h]
    masm_fin

/-- non-vacuity: a wrapping instance (MAX * 2) -/
example : ∃ a b : BitVec 64, (a * b).toInt ≠ a.toInt * b.toInt ∧ (a * b).toInt = (a.toInt * b.toInt).bmod (2 ^ 64) :=
  ⟨9223372036854775807#64, 2#64, by decide⟩

/-- C01, shl (64-bit) = `check_shift_amount` followed by `int_shl` (what `emit_shl` of codegen.rs emits): with `n` = the
    Int32 shift amount (low 32 bits of `rhs`, signed), the SHIFT trap is taken iff `n ∉ [0, 64)` — one unsigned compare of the low
    32 bits — and then nothing but `edi` changed; otherwise `done` with `dest` = the exact left shift `<<<` of the 64-bit operand by `n`
    . Clobbers `rcx`, `lhs`. Precondition (an `assert!` of the Rust code): `lhs = rcx` only if `rhs = rcx`.
    No flag the shift leaves undefined is read. -/
theorem shl_checked_64 (dest lhs rhs : Reg) (s : State) (hal : rhs ≠ RCX → lhs ≠ RCX) :
    ∃ prog, assemble (do check_shift_amount rhs .Int64; int_shl .Int64 dest lhs rhs) = .ok prog ∧
      let a := s.get lhs; let n := (lo32 (s.get rhs)).toInt
      ((0 ≤ n ∧ n < 64) →
        ∃ s', exec prog s = .done s' ∧ s'.get dest = a <<< n.toNat ∧ sameExcept [RCX, lhs, dest] s s') ∧
      (¬ (0 ≤ n ∧ n < 64) →
        ∃ s', exec prog s = .trap (trapNo .SHIFT) s' ∧ sameExcept [RDI] s s') := by
  refine ⟨_, prog_shl64 _ _ _ hal, ?_⟩
  dsimp only
  rw [shiftAmount_ok64]
  by_cases h1 : rhs = RCX <;> by_cases h2 : dest = lhs
  · subst h1
    subst h2
    masm_list []
    refine ⟨fun hn => ?_, fun hn => ?_⟩
    · rw [shiftAmount_toNat _ (by omega)]
      have hc := cl64 _ hn
      masm_sim [BitVec.usubOverflow, hn, hc, Nat.mod_eq_of_lt hn]
      masm_fin
    · masm_sim [BitVec.usubOverflow, hn]
      masm_fin
  · subst h1
    masm_list [h2]
    refine ⟨fun hn => ?_, fun hn => ?_⟩
    · rw [shiftAmount_toNat _ (by omega)]
      have hc := cl64 _ hn
      masm_sim [BitVec.usubOverflow, hn, hc, Nat.mod_eq_of_lt hn, h2, Ne.symm h2]
      masm_fin
    · masm_sim [BitVec.usubOverflow, hn, h2, Ne.symm h2]
      masm_fin
  · subst h2
    masm_list [h1]
    refine ⟨fun hn => ?_, fun hn => ?_⟩
    · rw [shiftAmount_toNat _ (by omega)]
      have hc := cl64 _ hn
      masm_sim [BitVec.usubOverflow, hn, hc, Nat.mod_eq_of_lt hn, h1, Ne.symm h1, hal h1, Ne.symm (hal h1)]
      masm_fin
    · masm_sim [BitVec.usubOverflow, hn, h1, Ne.symm h1, hal h1, Ne.symm (hal h1)]
      masm_fin
  · masm_list [h1, h2]
    refine ⟨fun hn => ?_, fun hn => ?_⟩
    · rw [shiftAmount_toNat _ (by omega)]
      have hc := cl64 _ hn
      masm_sim [BitVec.usubOverflow, hn, hc, Nat.mod_eq_of_lt hn, h1, Ne.symm h1, hal h1, Ne.symm (hal h1), h2, Ne.symm h2]
      masm_fin
    · masm_sim [BitVec.usubOverflow, hn, h1, Ne.symm h1, hal h1, Ne.symm (hal h1), h2, Ne.symm h2]
      masm_fin

/-- non-vacuity: codegen's registers satisfy the precondition; amounts 63 (accepted), 64 and −1 (trapping) -/
example : (R13 ≠ RCX → RAX ≠ RCX) ∧ (∃ s : State, 0 ≤ (lo32 (s.get R13)).toInt ∧ (lo32 (s.get R13)).toInt < 64) ∧
    (∃ s : State, ¬ (0 ≤ (lo32 (s.get R13)).toInt ∧ (lo32 (s.get R13)).toInt < 64)) ∧
    (∃ s : State, ¬ (0 ≤ (lo32 (s.get R13)).toInt ∧ (lo32 (s.get R13)).toInt < 64)) :=
  ⟨by decide, ⟨{ regs := fun r => if r = R13 then 63#64 else 0 }, by decide⟩, ⟨{ regs := fun r => if r = R13 then 64#64 else 0 }, by decide⟩,
    ⟨{ regs := fun r => if r = R13 then 4294967295#64 else 0 }, by decide⟩⟩

/-- C01, shl (32-bit) = `check_shift_amount` followed by `int_shl` (what `emit_shl` of codegen.rs emits): with `n` = the
    Int32 shift amount (low 32 bits of `rhs`, signed), the SHIFT trap is taken iff `n ∉ [0, 32)` — one unsigned compare of the low
    32 bits — and then nothing but `edi` changed; otherwise `done` with `dest` = the exact left shift `<<<` of the 32-bit operand by `n`
    (upper half zero). Clobbers `rcx`, `lhs`. Precondition (an `assert!` of the Rust code): `lhs = rcx` only if `rhs = rcx`.
    No flag the shift leaves undefined is read. -/
theorem shl_checked_32 (dest lhs rhs : Reg) (s : State) (hal : rhs ≠ RCX → lhs ≠ RCX) :
    ∃ prog, assemble (do check_shift_amount rhs .Int32; int_shl .Int32 dest lhs rhs) = .ok prog ∧
      let a := lo32 (s.get lhs); let n := (lo32 (s.get rhs)).toInt
      ((0 ≤ n ∧ n < 32) →
        ∃ s', exec prog s = .done s' ∧ s'.get dest = (a <<< n.toNat).setWidth 64 ∧ sameExcept [RCX, lhs, dest] s s') ∧
      (¬ (0 ≤ n ∧ n < 32) →
        ∃ s', exec prog s = .trap (trapNo .SHIFT) s' ∧ sameExcept [RDI] s s') := by
  refine ⟨_, prog_shl32 _ _ _ hal, ?_⟩
  dsimp only
  rw [shiftAmount_ok32]
  by_cases h1 : rhs = RCX <;> by_cases h2 : dest = lhs
  · subst h1
    subst h2
    masm_list []
    refine ⟨fun hn => ?_, fun hn => ?_⟩
    · rw [shiftAmount_toNat _ (by omega)]
      have hc := cl32 _ hn; have hc' := cl32' _ hn
      masm_sim [BitVec.usubOverflow, hn, hc, hc', Nat.mod_eq_of_lt hn]
      masm_fin
    · masm_sim [BitVec.usubOverflow, hn]
      masm_fin
  · subst h1
    masm_list [h2]
    refine ⟨fun hn => ?_, fun hn => ?_⟩
    · rw [shiftAmount_toNat _ (by omega)]
      have hc := cl32 _ hn; have hc' := cl32' _ hn
      masm_sim [BitVec.usubOverflow, hn, hc, hc', Nat.mod_eq_of_lt hn, h2, Ne.symm h2]
      masm_fin
    · masm_sim [BitVec.usubOverflow, hn, h2, Ne.symm h2]
      masm_fin
  · subst h2
    masm_list [h1]
    refine ⟨fun hn => ?_, fun hn => ?_⟩
    · rw [shiftAmount_toNat _ (by omega)]
      have hc := cl32 _ hn; have hc' := cl32' _ hn
      masm_sim [BitVec.usubOverflow, hn, hc, hc', Nat.mod_eq_of_lt hn, h1, Ne.symm h1, hal h1, Ne.symm (hal h1)]
      masm_fin
    · masm_sim [BitVec.usubOverflow, hn, h1, Ne.symm h1, hal h1, Ne.symm (hal h1)]
      masm_fin
  · masm_list [h1, h2]
    refine ⟨fun hn => ?_, fun hn => ?_⟩
    · rw [shiftAmount_toNat _ (by omega)]
      have hc := cl32 _ hn; have hc' := cl32' _ hn
      masm_sim [BitVec.usubOverflow, hn, hc, hc', Nat.mod_eq_of_lt hn, h1, Ne.symm h1, hal h1, Ne.symm (hal h1), h2, Ne.symm h2]
      masm_fin
    · masm_sim [BitVec.usubOverflow, hn, h1, Ne.symm h1, hal h1, Ne.symm (hal h1), h2, Ne.symm h2]
      masm_fin

/-- non-vacuity: codegen's registers satisfy the precondition; amounts 31 (accepted), 32 and −1 (trapping) -/
example : (R13 ≠ RCX → RAX ≠ RCX) ∧ (∃ s : State, 0 ≤ (lo32 (s.get R13)).toInt ∧ (lo32 (s.get R13)).toInt < 32) ∧
    (∃ s : State, ¬ (0 ≤ (lo32 (s.get R13)).toInt ∧ (lo32 (s.get R13)).toInt < 32)) ∧
    (∃ s : State, ¬ (0 ≤ (lo32 (s.get R13)).toInt ∧ (lo32 (s.get R13)).toInt < 32)) :=
  ⟨by decide, ⟨{ regs := fun r => if r = R13 then 31#64 else 0 }, by decide⟩, ⟨{ regs := fun r => if r = R13 then 32#64 else 0 }, by decide⟩,
    ⟨{ regs := fun r => if r = R13 then 4294967295#64 else 0 }, by decide⟩⟩

/-- C01, shr (64-bit) = `check_shift_amount` followed by `int_shr` (what `emit_shr` of codegen.rs emits): with `n` = the
    Int32 shift amount (low 32 bits of `rhs`, signed), the SHIFT trap is taken iff `n ∉ [0, 64)` — one unsigned compare of the low
    32 bits — and then nothing but `edi` changed; otherwise `done` with `dest` = the exact logical right shift `>>>` of the 64-bit operand by `n`
    . Clobbers `rcx`, `lhs`. Precondition (an `assert!` of the Rust code): `lhs = rcx` only if `rhs = rcx`.
    No flag the shift leaves undefined is read. -/
theorem shr_checked_64 (dest lhs rhs : Reg) (s : State) (hal : rhs ≠ RCX → lhs ≠ RCX) :
    ∃ prog, assemble (do check_shift_amount rhs .Int64; int_shr .Int64 dest lhs rhs) = .ok prog ∧
      let a := s.get lhs; let n := (lo32 (s.get rhs)).toInt
      ((0 ≤ n ∧ n < 64) →
        ∃ s', exec prog s = .done s' ∧ s'.get dest = a >>> n.toNat ∧ sameExcept [RCX, lhs, dest] s s') ∧
      (¬ (0 ≤ n ∧ n < 64) →
        ∃ s', exec prog s = .trap (trapNo .SHIFT) s' ∧ sameExcept [RDI] s s') := by
  refine ⟨_, prog_shr64 _ _ _ hal, ?_⟩
  dsimp only
  rw [shiftAmount_ok64]
  by_cases h1 : rhs = RCX <;> by_cases h2 : dest = lhs
  · subst h1
    subst h2
    masm_list []
    refine ⟨fun hn => ?_, fun hn => ?_⟩
    · rw [shiftAmount_toNat _ (by omega)]
      have hc := cl64 _ hn
      masm_sim [BitVec.usubOverflow, hn, hc, Nat.mod_eq_of_lt hn]
      masm_fin
    · masm_sim [BitVec.usubOverflow, hn]
      masm_fin
  · subst h1
    masm_list [h2]
    refine ⟨fun hn => ?_, fun hn => ?_⟩
    · rw [shiftAmount_toNat _ (by omega)]
      have hc := cl64 _ hn
      masm_sim [BitVec.usubOverflow, hn, hc, Nat.mod_eq_of_lt hn, h2, Ne.symm h2]
      masm_fin
    · masm_sim [BitVec.usubOverflow, hn, h2, Ne.symm h2]
      masm_fin
  · subst h2
    masm_list [h1]
    refine ⟨fun hn => ?_, fun hn => ?_⟩
    · rw [shiftAmount_toNat _ (by omega)]
      have hc := cl64 _ hn
      masm_sim [BitVec.usubOverflow, hn, hc, Nat.mod_eq_of_lt hn, h1, Ne.symm h1, hal h1, Ne.symm (hal h1)]
      masm_fin
    · masm_sim [BitVec.usubOverflow, hn, h1, Ne.symm h1, hal h1, Ne.symm (hal h1)]
      masm_fin
  · masm_list [h1, h2]
    refine ⟨fun hn => ?_, fun hn => ?_⟩
    · rw [shiftAmount_toNat _ (by omega)]
      have hc := cl64 _ hn
      masm_sim [BitVec.usubOverflow, hn, hc, Nat.mod_eq_of_lt hn, h1, Ne.symm h1, hal h1, Ne.symm (hal h1), h2, Ne.symm h2]
      masm_fin
    · masm_sim [BitVec.usubOverflow, hn, h1, Ne.symm h1, hal h1, Ne.symm (hal h1), h2, Ne.symm h2]
      masm_fin

/-- non-vacuity: codegen's registers satisfy the precondition; amounts 63 (accepted), 64 and −1 (trapping) -/
example : (R13 ≠ RCX → RAX ≠ RCX) ∧ (∃ s : State, 0 ≤ (lo32 (s.get R13)).toInt ∧ (lo32 (s.get R13)).toInt < 64) ∧
    (∃ s : State, ¬ (0 ≤ (lo32 (s.get R13)).toInt ∧ (lo32 (s.get R13)).toInt < 64)) ∧
    (∃ s : State, ¬ (0 ≤ (lo32 (s.get R13)).toInt ∧ (lo32 (s.get R13)).toInt < 64)) :=
  ⟨by decide, ⟨{ regs := fun r => if r = R13 then 63#64 else 0 }, by decide⟩, ⟨{ regs := fun r => if r = R13 then 64#64 else 0 }, by decide⟩,
    ⟨{ regs := fun r => if r = R13 then 4294967295#64 else 0 }, by decide⟩⟩

/-- C01, shr (32-bit) = `check_shift_amount` followed by `int_shr` (what `emit_shr` of codegen.rs emits): with `n` = the
    Int32 shift amount (low 32 bits of `rhs`, signed), the SHIFT trap is taken iff `n ∉ [0, 32)` — one unsigned compare of the low
    32 bits — and then nothing but `edi` changed; otherwise `done` with `dest` = the exact logical right shift `>>>` of the 32-bit operand by `n`
    (upper half zero). Clobbers `rcx`, `lhs`. Precondition (an `assert!` of the Rust code): `lhs = rcx` only if `rhs = rcx`.
    No flag the shift leaves undefined is read. -/
theorem shr_checked_32 (dest lhs rhs : Reg) (s : State) (hal : rhs ≠ RCX → lhs ≠ RCX) :
    ∃ prog, assemble (do check_shift_amount rhs .Int32; int_shr .Int32 dest lhs rhs) = .ok prog ∧
      let a := lo32 (s.get lhs); let n := (lo32 (s.get rhs)).toInt
      ((0 ≤ n ∧ n < 32) →
        ∃ s', exec prog s = .done s' ∧ s'.get dest = (a >>> n.toNat).setWidth 64 ∧ sameExcept [RCX, lhs, dest] s s') ∧
      (¬ (0 ≤ n ∧ n < 32) →
        ∃ s', exec prog s = .trap (trapNo .SHIFT) s' ∧ sameExcept [RDI] s s') := by
  refine ⟨_, prog_shr32 _ _ _ hal, ?_⟩
  dsimp only
  rw [shiftAmount_ok32]
  by_cases h1 : rhs = RCX <;> by_cases h2 : dest = lhs
  · subst h1
    subst h2
    masm_list []
    refine ⟨fun hn => ?_, fun hn => ?_⟩
    · rw [shiftAmount_toNat _ (by omega)]
      have hc := cl32 _ hn; have hc' := cl32' _ hn
      masm_sim [BitVec.usubOverflow, hn, hc, hc', Nat.mod_eq_of_lt hn]
      masm_fin
    · masm_sim [BitVec.usubOverflow, hn]
      masm_fin
  · subst h1
    masm_list [h2]
    refine ⟨fun hn => ?_, fun hn => ?_⟩
    · rw [shiftAmount_toNat _ (by omega)]
      have hc := cl32 _ hn; have hc' := cl32' _ hn
      masm_sim [BitVec.usubOverflow, hn, hc, hc', Nat.mod_eq_of_lt hn, h2, Ne.symm h2]
      masm_fin
    · masm_sim [BitVec.usubOverflow, hn, h2, Ne.symm h2]
      masm_fin
  · subst h2
    masm_list [h1]
    refine ⟨fun hn => ?_, fun hn => ?_⟩
    · rw [shiftAmount_toNat _ (by omega)]
      have hc := cl32 _ hn; have hc' := cl32' _ hn
      masm_sim [BitVec.usubOverflow, hn, hc, hc', Nat.mod_eq_of_lt hn, h1, Ne.symm h1, hal h1, Ne.symm (hal h1)]
      masm_fin
    · masm_sim [BitVec.usubOverflow, hn, h1, Ne.symm h1, hal h1, Ne.symm (hal h1)]
      masm_fin
  · masm_list [h1, h2]
    refine ⟨fun hn => ?_, fun hn => ?_⟩
    · rw [shiftAmount_toNat _ (by omega)]
      have hc := cl32 _ hn; have hc' := cl32' _ hn
      masm_sim [BitVec.usubOverflow, hn, hc, hc', Nat.mod_eq_of_lt hn, h1, Ne.symm h1, hal h1, Ne.symm (hal h1), h2, Ne.symm h2]
      masm_fin
    · masm_sim [BitVec.usubOverflow, hn, h1, Ne.symm h1, hal h1, Ne.symm (hal h1), h2, Ne.symm h2]
      masm_fin

/-- non-vacuity: codegen's registers satisfy the precondition; amounts 31 (accepted), 32 and −1 (trapping) -/
example : (R13 ≠ RCX → RAX ≠ RCX) ∧ (∃ s : State, 0 ≤ (lo32 (s.get R13)).toInt ∧ (lo32 (s.get R13)).toInt < 32) ∧
    (∃ s : State, ¬ (0 ≤ (lo32 (s.get R13)).toInt ∧ (lo32 (s.get R13)).toInt < 32)) ∧
    (∃ s : State, ¬ (0 ≤ (lo32 (s.get R13)).toInt ∧ (lo32 (s.get R13)).toInt < 32)) :=
  ⟨by decide, ⟨{ regs := fun r => if r = R13 then 31#64 else 0 }, by decide⟩, ⟨{ regs := fun r => if r = R13 then 32#64 else 0 }, by decide⟩,
    ⟨{ regs := fun r => if r = R13 then 4294967295#64 else 0 }, by decide⟩⟩

/-- C01, sar (64-bit) = `check_shift_amount` followed by `int_sar` (what `emit_sar` of codegen.rs emits): with `n` = the
    Int32 shift amount (low 32 bits of `rhs`, signed), the SHIFT trap is taken iff `n ∉ [0, 64)` — one unsigned compare of the low
    32 bits — and then nothing but `edi` changed; otherwise `done` with `dest` = the exact arithmetic right shift `sshiftRight` of the 64-bit operand by `n`
    . Clobbers `rcx`, `lhs`. Precondition (an `assert!` of the Rust code): `lhs = rcx` only if `rhs = rcx`.
    No flag the shift leaves undefined is read. -/
theorem sar_checked_64 (dest lhs rhs : Reg) (s : State) (hal : rhs ≠ RCX → lhs ≠ RCX) :
    ∃ prog, assemble (do check_shift_amount rhs .Int64; int_sar .Int64 dest lhs rhs) = .ok prog ∧
      let a := s.get lhs; let n := (lo32 (s.get rhs)).toInt
      ((0 ≤ n ∧ n < 64) →
        ∃ s', exec prog s = .done s' ∧ s'.get dest = a.sshiftRight n.toNat ∧ sameExcept [RCX, lhs, dest] s s') ∧
      (¬ (0 ≤ n ∧ n < 64) →
        ∃ s', exec prog s = .trap (trapNo .SHIFT) s' ∧ sameExcept [RDI] s s') := by
  refine ⟨_, prog_sar64 _ _ _ hal, ?_⟩
  dsimp only
  rw [shiftAmount_ok64]
  by_cases h1 : rhs = RCX <;> by_cases h2 : dest = lhs
  · subst h1
    subst h2
    masm_list []
    refine ⟨fun hn => ?_, fun hn => ?_⟩
    · rw [shiftAmount_toNat _ (by omega)]
      have hc := cl64 _ hn
      masm_sim [BitVec.usubOverflow, hn, hc, Nat.mod_eq_of_lt hn]
      masm_fin
    · masm_sim [BitVec.usubOverflow, hn]
      masm_fin
  · subst h1
    masm_list [h2]
    refine ⟨fun hn => ?_, fun hn => ?_⟩
    · rw [shiftAmount_toNat _ (by omega)]
      have hc := cl64 _ hn
      masm_sim [BitVec.usubOverflow, hn, hc, Nat.mod_eq_of_lt hn, h2, Ne.symm h2]
      masm_fin
    · masm_sim [BitVec.usubOverflow, hn, h2, Ne.symm h2]
      masm_fin
  · subst h2
    masm_list [h1]
    refine ⟨fun hn => ?_, fun hn => ?_⟩
    · rw [shiftAmount_toNat _ (by omega)]
      have hc := cl64 _ hn
      masm_sim [BitVec.usubOverflow, hn, hc, Nat.mod_eq_of_lt hn, h1, Ne.symm h1, hal h1, Ne.symm (hal h1)]
      masm_fin
    · masm_sim [BitVec.usubOverflow, hn, h1, Ne.symm h1, hal h1, Ne.symm (hal h1)]
      masm_fin
  · masm_list [h1, h2]
    refine ⟨fun hn => ?_, fun hn => ?_⟩
    · rw [shiftAmount_toNat _ (by omega)]
      have hc := cl64 _ hn
      masm_sim [BitVec.usubOverflow, hn, hc, Nat.mod_eq_of_lt hn, h1, Ne.symm h1, hal h1, Ne.symm (hal h1), h2, Ne.symm h2]
      masm_fin
    · masm_sim [BitVec.usubOverflow, hn, h1, Ne.symm h1, hal h1, Ne.symm (hal h1), h2, Ne.symm h2]
      masm_fin

/-- non-vacuity: codegen's registers satisfy the precondition; amounts 63 (accepted), 64 and −1 (trapping) -/
example : (R13 ≠ RCX → RAX ≠ RCX) ∧ (∃ s : State, 0 ≤ (lo32 (s.get R13)).toInt ∧ (lo32 (s.get R13)).toInt < 64) ∧
    (∃ s : State, ¬ (0 ≤ (lo32 (s.get R13)).toInt ∧ (lo32 (s.get R13)).toInt < 64)) ∧
    (∃ s : State, ¬ (0 ≤ (lo32 (s.get R13)).toInt ∧ (lo32 (s.get R13)).toInt < 64)) :=
  ⟨by decide, ⟨{ regs := fun r => if r = R13 then 63#64 else 0 }, by decide⟩, ⟨{ regs := fun r => if r = R13 then 64#64 else 0 }, by decide⟩,
    ⟨{ regs := fun r => if r = R13 then 4294967295#64 else 0 }, by decide⟩⟩

/-- C01, sar (32-bit) = `check_shift_amount` followed by `int_sar` (what `emit_sar` of codegen.rs emits): with `n` = the
    Int32 shift amount (low 32 bits of `rhs`, signed), the SHIFT trap is taken iff `n ∉ [0, 32)` — one unsigned compare of the low
    32 bits — and then nothing but `edi` changed; otherwise `done` with `dest` = the exact arithmetic right shift `sshiftRight` of the 32-bit operand by `n`
    (upper half zero). Clobbers `rcx`, `lhs`. Precondition (an `assert!` of the Rust code): `lhs = rcx` only if `rhs = rcx`.
    No flag the shift leaves undefined is read. -/
theorem sar_checked_32 (dest lhs rhs : Reg) (s : State) (hal : rhs ≠ RCX → lhs ≠ RCX) :
    ∃ prog, assemble (do check_shift_amount rhs .Int32; int_sar .Int32 dest lhs rhs) = .ok prog ∧
      let a := lo32 (s.get lhs); let n := (lo32 (s.get rhs)).toInt
      ((0 ≤ n ∧ n < 32) →
        ∃ s', exec prog s = .done s' ∧ s'.get dest = (a.sshiftRight n.toNat).setWidth 64 ∧ sameExcept [RCX, lhs, dest] s s') ∧
      (¬ (0 ≤ n ∧ n < 32) →
        ∃ s', exec prog s = .trap (trapNo .SHIFT) s' ∧ sameExcept [RDI] s s') := by
  refine ⟨_, prog_sar32 _ _ _ hal, ?_⟩
  dsimp only
  rw [shiftAmount_ok32]
  by_cases h1 : rhs = RCX <;> by_cases h2 : dest = lhs
  · subst h1
    subst h2
    masm_list []
    refine ⟨fun hn => ?_, fun hn => ?_⟩
    · rw [shiftAmount_toNat _ (by omega)]
      have hc := cl32 _ hn; have hc' := cl32' _ hn
      masm_sim [BitVec.usubOverflow, hn, hc, hc', Nat.mod_eq_of_lt hn]
      masm_fin
    · masm_sim [BitVec.usubOverflow, hn]
      masm_fin
  · subst h1
    masm_list [h2]
    refine ⟨fun hn => ?_, fun hn => ?_⟩
    · rw [shiftAmount_toNat _ (by omega)]
      have hc := cl32 _ hn; have hc' := cl32' _ hn
      masm_sim [BitVec.usubOverflow, hn, hc, hc', Nat.mod_eq_of_lt hn, h2, Ne.symm h2]
      masm_fin
    · masm_sim [BitVec.usubOverflow, hn, h2, Ne.symm h2]
      masm_fin
  · subst h2
    masm_list [h1]
    refine ⟨fun hn => ?_, fun hn => ?_⟩
    · rw [shiftAmount_toNat _ (by omega)]
      have hc := cl32 _ hn; have hc' := cl32' _ hn
      masm_sim [BitVec.usubOverflow, hn, hc, hc', Nat.mod_eq_of_lt hn, h1, Ne.symm h1, hal h1, Ne.symm (hal h1)]
      masm_fin
    · masm_sim [BitVec.usubOverflow, hn, h1, Ne.symm h1, hal h1, Ne.symm (hal h1)]
      masm_fin
  · masm_list [h1, h2]
    refine ⟨fun hn => ?_, fun hn => ?_⟩
    · rw [shiftAmount_toNat _ (by omega)]
      have hc := cl32 _ hn; have hc' := cl32' _ hn
      masm_sim [BitVec.usubOverflow, hn, hc, hc', Nat.mod_eq_of_lt hn, h1, Ne.symm h1, hal h1, Ne.symm (hal h1), h2, Ne.symm h2]
      masm_fin
    · masm_sim [BitVec.usubOverflow, hn, h1, Ne.symm h1, hal h1, Ne.symm (hal h1), h2, Ne.symm h2]
      masm_fin

/-- non-vacuity: codegen's registers satisfy the precondition; amounts 31 (accepted), 32 and −1 (trapping) -/
example : (R13 ≠ RCX → RAX ≠ RCX) ∧ (∃ s : State, 0 ≤ (lo32 (s.get R13)).toInt ∧ (lo32 (s.get R13)).toInt < 32) ∧
    (∃ s : State, ¬ (0 ≤ (lo32 (s.get R13)).toInt ∧ (lo32 (s.get R13)).toInt < 32)) ∧
    (∃ s : State, ¬ (0 ≤ (lo32 (s.get R13)).toInt ∧ (lo32 (s.get R13)).toInt < 32)) :=
  ⟨by decide, ⟨{ regs := fun r => if r = R13 then 31#64 else 0 }, by decide⟩, ⟨{ regs := fun r => if r = R13 then 32#64 else 0 }, by decide⟩,
    ⟨{ regs := fun r => if r = R13 then 4294967295#64 else 0 }, by decide⟩⟩

/-- C01, bounds check: `check_index_out_of_bounds` loads the length word at `[array + 8]` into the scratch register `rdi` and
    does ONE unsigned 64-bit compare: `done` iff `idx <u len`, INDEX_OUT_OF_BOUNDS trap otherwise, for all 64-bit `idx`, `len`;
    and for every non-negative length the unsigned test is exactly `0 ≤ idx < len` on the signed readings. Only `rdi` (and flags)
    change. Precondition: the index register is not the scratch register `rdi` (codegen passes REG_TMP1 = r13). -/
theorem check_index_out_of_bounds_exact (array index : Reg) (loc : Location) (s : State) (hidx : index ≠ RDI) :
    ∃ prog, assemble (check_index_out_of_bounds loc array index) = .ok prog ∧
      let len := s.mem (s.get array + 8#64); let idx := s.get index
      (idx.toNat < len.toNat → ∃ s', exec prog s = .done s' ∧ sameExcept [RDI] s s') ∧
      (¬ idx.toNat < len.toNat →
        ∃ s', exec prog s = .trap (trapNo .INDEX_OUT_OF_BOUNDS) s' ∧ sameExcept [RDI] s s') ∧
      (0 ≤ len.toInt → (idx.toNat < len.toNat ↔ (0 ≤ idx.toInt ∧ idx.toInt < len.toInt))) := by
  refine ⟨_, prog_bounds .., ?_⟩
  dsimp only
  masm_list []
  refine ⟨fun h => ?_, fun h => ?_, unsigned_bound _ _⟩
  · masm_sim [BitVec.usubOverflow, h, hidx, Ne.symm hidx]
    masm_fin
  · masm_sim [BitVec.usubOverflow, h, hidx, Ne.symm hidx]
    masm_fin

/-- non-vacuity: codegen's index register; index 3 of 5 passes, index −1 (unsigned huge) and index 5 do not -/
example : R13 ≠ RDI ∧ (3#64).toNat < (5#64).toNat ∧ ¬ (18446744073709551615#64).toNat < (5#64).toNat ∧
    ¬ (5#64).toNat < (5#64).toNat ∧ 0 ≤ (5#64).toInt := by decide

/-- C01, Int32 → Int64 conversion (`movsxd`): the signed value is preserved. -/
theorem extend_int_long_exact (dest src : Reg) (s : State) :
    ∃ prog, assemble (extend_int_long dest src) = .ok prog ∧
      ∃ s', exec prog s = .done s' ∧ (s'.get dest).toInt = (lo32 (s.get src)).toInt ∧ sameExcept [dest] s s' := by
  refine ⟨_, prog_extend_int_long .., ?_⟩
  masm_sim [BitVec.toInt_signExtend_of_le]
  masm_fin

/-- non-vacuity: −1 as Int32 stays −1 -/
example : ((lo32 0xFFFFFFFF#64).signExtend 64).toInt = -1 := by decide

/-- C01, UInt8 → wider conversion (`movzx`): the unsigned value is preserved. -/
theorem extend_byte_exact (mode : MachineMode) (dest src : Reg) (s : State) :
    ∃ prog, assemble (extend_byte mode dest src) = .ok prog ∧
      ∃ s', exec prog s = .done s' ∧ (s'.get dest).toNat = (lo8 (s.get src)).toNat ∧ sameExcept [dest] s s' := by
  refine ⟨_, prog_extend_byte .., ?_⟩
  masm_sim []
  have := (lo8 (s.get src)).isLt
  exact ⟨by omega, fun r h1 h2 => absurd h2 h1⟩

/-- non-vacuity: 0x1FF has low byte 255 -/
example : (lo8 0x1FF#64).toNat = 255 := by decide

/-- C01, comparison + set-on-condition in mode Int64 (`cmp_reg` then `set`, what `emit_test_generic` emits): for every `CondCode`
    the low byte of `dest` becomes 1 iff the relation the code stands for (signed `<,≤,>,≥` on the signed readings, unsigned ones on the
    unsigned readings, equality) holds between the two 64-bit operands, else 0; bits 8..63 of `dest` are kept (`setcc` writes a byte);
    nothing else changes; the flags `setcc` reads are all defined by `cmp`. -/
theorem compare_set_Int64 (dest lhs rhs : Reg) (op : CondCode) (s : State) :
    ∃ prog, assemble (do cmp_reg .Int64 lhs rhs; set_ dest op) = .ok prog ∧
      ∃ s', exec prog s = .done s' ∧
        lo8 (s'.get dest) = (if relHolds op (s.get lhs) (s.get rhs) then 1#8 else 0#8) ∧
        s'.get dest &&& 0xFFFFFFFFFFFFFF00#64 = s.get dest &&& 0xFFFFFFFFFFFFFF00#64 ∧ sameExcept [dest] s s' := by
  refine ⟨_, prog_cmp_set_Int64 .., ?_⟩
  simp [exec, run_succ, step, flg, onCond, condOf_sub64, sameExcept, lo8_set8, hi_set8]
  masm_fin

/-- non-vacuity: −1 < 1 signed but not unsigned, in 64 bits -/
example : relHolds .Less (18446744073709551615#64) (1#64) = true ∧ relHolds .UnsignedLess (18446744073709551615#64) (1#64) = false := by decide

/-- C01, comparison + set-on-condition in mode Ptr (`cmp_reg` then `set`, what `emit_test_generic` emits): for every `CondCode`
    the low byte of `dest` becomes 1 iff the relation the code stands for (signed `<,≤,>,≥` on the signed readings, unsigned ones on the
    unsigned readings, equality) holds between the two 64-bit operands, else 0; bits 8..63 of `dest` are kept (`setcc` writes a byte);
    nothing else changes; the flags `setcc` reads are all defined by `cmp`. -/
theorem compare_set_Ptr (dest lhs rhs : Reg) (op : CondCode) (s : State) :
    ∃ prog, assemble (do cmp_reg .Ptr lhs rhs; set_ dest op) = .ok prog ∧
      ∃ s', exec prog s = .done s' ∧
        lo8 (s'.get dest) = (if relHolds op (s.get lhs) (s.get rhs) then 1#8 else 0#8) ∧
        s'.get dest &&& 0xFFFFFFFFFFFFFF00#64 = s.get dest &&& 0xFFFFFFFFFFFFFF00#64 ∧ sameExcept [dest] s s' := by
  refine ⟨_, prog_cmp_set_Ptr .., ?_⟩
  simp [exec, run_succ, step, flg, onCond, condOf_sub64, sameExcept, lo8_set8, hi_set8]
  masm_fin

/-- non-vacuity: −1 < 1 signed but not unsigned, in 64 bits -/
example : relHolds .Less (18446744073709551615#64) (1#64) = true ∧ relHolds .UnsignedLess (18446744073709551615#64) (1#64) = false := by decide

/-- C01, comparison + set-on-condition in mode Int32 (`cmp_reg` then `set`, what `emit_test_generic` emits): for every `CondCode`
    the low byte of `dest` becomes 1 iff the relation the code stands for (signed `<,≤,>,≥` on the signed readings, unsigned ones on the
    unsigned readings, equality) holds between the two 32-bit operands, else 0; bits 8..63 of `dest` are kept (`setcc` writes a byte);
    nothing else changes; the flags `setcc` reads are all defined by `cmp`. -/
theorem compare_set_Int32 (dest lhs rhs : Reg) (op : CondCode) (s : State) :
    ∃ prog, assemble (do cmp_reg .Int32 lhs rhs; set_ dest op) = .ok prog ∧
      ∃ s', exec prog s = .done s' ∧
        lo8 (s'.get dest) = (if relHolds op (lo32 (s.get lhs)) (lo32 (s.get rhs)) then 1#8 else 0#8) ∧
        s'.get dest &&& 0xFFFFFFFFFFFFFF00#64 = s.get dest &&& 0xFFFFFFFFFFFFFF00#64 ∧ sameExcept [dest] s s' := by
  refine ⟨_, prog_cmp_set_Int32 .., ?_⟩
  simp [exec, run_succ, step, flg, onCond, condOf_sub32, sameExcept, lo8_set8, hi_set8]
  masm_fin

/-- non-vacuity: −1 < 1 signed but not unsigned, in 32 bits -/
example : relHolds .Less (4294967295#32) (1#32) = true ∧ relHolds .UnsignedLess (4294967295#32) (1#32) = false := by decide

/-- C01, comparison + set-on-condition in mode Int8 (`cmp_reg` then `set`, what `emit_test_generic` emits): for every `CondCode`
    the low byte of `dest` becomes 1 iff the relation the code stands for (signed `<,≤,>,≥` on the signed readings, unsigned ones on the
    unsigned readings, equality) holds between the two 8-bit operands, else 0; bits 8..63 of `dest` are kept (`setcc` writes a byte);
    nothing else changes; the flags `setcc` reads are all defined by `cmp`. -/
theorem compare_set_Int8 (dest lhs rhs : Reg) (op : CondCode) (s : State) :
    ∃ prog, assemble (do cmp_reg .Int8 lhs rhs; set_ dest op) = .ok prog ∧
      ∃ s', exec prog s = .done s' ∧
        lo8 (s'.get dest) = (if relHolds op (lo8 (s.get lhs)) (lo8 (s.get rhs)) then 1#8 else 0#8) ∧
        s'.get dest &&& 0xFFFFFFFFFFFFFF00#64 = s.get dest &&& 0xFFFFFFFFFFFFFF00#64 ∧ sameExcept [dest] s s' := by
  refine ⟨_, prog_cmp_set_Int8 .., ?_⟩
  simp [exec, run_succ, step, flg, onCond, condOf_sub8, sameExcept, lo8_set8, hi_set8]
  masm_fin

/-- non-vacuity: −1 < 1 signed but not unsigned, in 8 bits -/
example : relHolds .Less (255#8) (1#8) = true ∧ relHolds .UnsignedLess (255#8) (1#8) = false := by decide

/-- C01, register assignment: the emitters of `codegen.rs` (regenerated as `cg_emit_*`) call the helpers with
    (dest, lhs, rhs) = (REG_RESULT, REG_RESULT, REG_TMP1) = (rax, rax, r13), and these registers satisfy every aliasing
    precondition of the theorems above (`dest = lhs`; `rhs ≠ rcx → lhs ≠ rcx`; index register ≠ scratch `rdi`), so the
    theorems apply to the code the baseline generator emits for `Add/Sub/Mul/Neg` (checked), `Sub` (wrapping), `Shl/Shr/Sar`,
    the comparisons and the conversions. -/
theorem codegen_register_assignment (mode : MachineMode) (loc : Location) (op : CondCode) :
    cg_emit_checked_add mode loc = int_add_checked mode RAX RAX R13 loc ∧ (RAX ≠ RAX → RAX ≠ R13) ∧
    cg_emit_checked_sub mode loc = int_sub_checked mode RAX RAX R13 loc ∧
    cg_emit_checked_mul mode loc = int_mul_checked mode RAX RAX R13 loc ∧
    cg_emit_checked_neg mode loc = int_neg_checked mode RAX RAX loc ∧
    cg_emit_sub mode = int_sub mode RAX RAX R13 ∧
    cg_emit_shl mode = (do check_shift_amount R13 mode; int_shl mode RAX RAX R13) ∧
    cg_emit_shr mode = (do check_shift_amount R13 mode; int_shr mode RAX RAX R13) ∧
    cg_emit_sar mode = (do check_shift_amount R13 mode; int_sar mode RAX RAX R13) ∧ (R13 ≠ RCX → RAX ≠ RCX) ∧
    cg_emit_test_generic mode op = (do cmp_reg mode RAX R13; set_ RAX op) ∧
    cg_emit_int_to_int64 = extend_int_long RAX RAX ∧
    cg_emit_extend_uint8 mode = extend_byte mode RAX RAX ∧
    REG_TMP1 ≠ RDI :=
  ⟨rfl, by decide, rfl, rfl, rfl, rfl, rfl, rfl, rfl, by decide, rfl, rfl, rfl, by decide⟩

/-- non-vacuity: the assignment really is (rax, rax, r13) -/
example : REG_RESULT = RAX ∧ REG_TMP1 = R13 ∧ RAX ≠ R13 := by decide

/-- C01, no undefined behaviour at the instruction level: for every sequence the baseline generator emits for the integer
    operations above (both widths, every `CondCode`), from EVERY state — whatever the initial flags, also all undefined — the run
    ends in `done` or in a trap: no flag the Intel SDM leaves undefined is ever read (`imul` leaves SF/ZF/PF undefined and only OF is
    read; shifts leave OF undefined for counts ≠ 1 and nothing reads it), no refused immediate, no unbound label, no `#DE`. -/
theorem cg_sequences_defined (s : State) (loc : Location) (op : CondCode) :
    (∀ p, assemble (cg_emit_checked_add .Int64 loc) = .ok p → Outcome.defined (exec p s)) ∧
    (∀ p, assemble (cg_emit_checked_sub .Int64 loc) = .ok p → Outcome.defined (exec p s)) ∧
    (∀ p, assemble (cg_emit_checked_mul .Int64 loc) = .ok p → Outcome.defined (exec p s)) ∧
    (∀ p, assemble (cg_emit_checked_neg .Int64 loc) = .ok p → Outcome.defined (exec p s)) ∧
    (∀ p, assemble (cg_emit_sub .Int64) = .ok p → Outcome.defined (exec p s)) ∧
    (∀ p, assemble (cg_emit_shl .Int64) = .ok p → Outcome.defined (exec p s)) ∧
    (∀ p, assemble (cg_emit_shr .Int64) = .ok p → Outcome.defined (exec p s)) ∧
    (∀ p, assemble (cg_emit_sar .Int64) = .ok p → Outcome.defined (exec p s)) ∧
    (∀ p, assemble (cg_emit_checked_add .Int32 loc) = .ok p → Outcome.defined (exec p s)) ∧
    (∀ p, assemble (cg_emit_checked_sub .Int32 loc) = .ok p → Outcome.defined (exec p s)) ∧
    (∀ p, assemble (cg_emit_checked_mul .Int32 loc) = .ok p → Outcome.defined (exec p s)) ∧
    (∀ p, assemble (cg_emit_checked_neg .Int32 loc) = .ok p → Outcome.defined (exec p s)) ∧
    (∀ p, assemble (cg_emit_sub .Int32) = .ok p → Outcome.defined (exec p s)) ∧
    (∀ p, assemble (cg_emit_shl .Int32) = .ok p → Outcome.defined (exec p s)) ∧
    (∀ p, assemble (cg_emit_shr .Int32) = .ok p → Outcome.defined (exec p s)) ∧
    (∀ p, assemble (cg_emit_sar .Int32) = .ok p → Outcome.defined (exec p s)) ∧
    (∀ p, assemble (cg_emit_test_generic .Int64 op) = .ok p → Outcome.defined (exec p s)) ∧
    (∀ p, assemble (cg_emit_test_generic .Int32 op) = .ok p → Outcome.defined (exec p s)) ∧
    (∀ p, assemble (cg_emit_test_generic .Int8 op) = .ok p → Outcome.defined (exec p s)) ∧
    (∀ p, assemble (cg_emit_int_to_int64) = .ok p → Outcome.defined (exec p s)) := by
  refine ⟨?_, ?_, ?_, ?_, ?_, ?_, ?_, ?_, ?_, ?_, ?_, ?_, ?_, ?_, ?_, ?_, ?_, ?_, ?_, ?_⟩
  · intro p hp
    obtain ⟨q, hq, h1, h2⟩ := int_add_checked_64 RAX RAX R13 loc s (by decide)
    obtain rfl : q = p := by injection hq.symm.trans hp
    exact defined_of_cases h1 h2
  · intro p hp
    obtain ⟨q, hq, h1, h2⟩ := int_sub_checked_64 RAX RAX R13 loc s
    obtain rfl : q = p := by injection hq.symm.trans hp
    exact defined_of_cases h1 h2
  · intro p hp
    obtain ⟨q, hq, h1, h2⟩ := int_mul_checked_64 RAX RAX R13 loc s
    obtain rfl : q = p := by injection hq.symm.trans hp
    exact defined_of_cases h1 h2
  · intro p hp
    obtain ⟨q, hq, h1, h2⟩ := int_neg_checked_64 RAX RAX loc s
    obtain rfl : q = p := by injection hq.symm.trans hp
    exact defined_of_cases h1 h2
  · intro p hp
    obtain ⟨q, hq, s', h, _⟩ := int_sub_wrapping_64 RAX RAX R13 s
    obtain rfl : q = p := by injection hq.symm.trans hp
    rw [h]; trivial
  · intro p hp
    obtain ⟨q, hq, h1, h2⟩ := shl_checked_64 RAX RAX R13 s (by decide)
    obtain rfl : q = p := by injection hq.symm.trans hp
    exact defined_of_cases h1 h2
  · intro p hp
    obtain ⟨q, hq, h1, h2⟩ := shr_checked_64 RAX RAX R13 s (by decide)
    obtain rfl : q = p := by injection hq.symm.trans hp
    exact defined_of_cases h1 h2
  · intro p hp
    obtain ⟨q, hq, h1, h2⟩ := sar_checked_64 RAX RAX R13 s (by decide)
    obtain rfl : q = p := by injection hq.symm.trans hp
    exact defined_of_cases h1 h2
  · intro p hp
    obtain ⟨q, hq, h1, h2⟩ := int_add_checked_32 RAX RAX R13 loc s (by decide)
    obtain rfl : q = p := by injection hq.symm.trans hp
    exact defined_of_cases h1 h2
  · intro p hp
    obtain ⟨q, hq, h1, h2⟩ := int_sub_checked_32 RAX RAX R13 loc s
    obtain rfl : q = p := by injection hq.symm.trans hp
    exact defined_of_cases h1 h2
  · intro p hp
    obtain ⟨q, hq, h1, h2⟩ := int_mul_checked_32 RAX RAX R13 loc s
    obtain rfl : q = p := by injection hq.symm.trans hp
    exact defined_of_cases h1 h2
  · intro p hp
    obtain ⟨q, hq, h1, h2⟩ := int_neg_checked_32 RAX RAX loc s
    obtain rfl : q = p := by injection hq.symm.trans hp
    exact defined_of_cases h1 h2
  · intro p hp
    obtain ⟨q, hq, s', h, _⟩ := int_sub_wrapping_32 RAX RAX R13 s
    obtain rfl : q = p := by injection hq.symm.trans hp
    rw [h]; trivial
  · intro p hp
    obtain ⟨q, hq, h1, h2⟩ := shl_checked_32 RAX RAX R13 s (by decide)
    obtain rfl : q = p := by injection hq.symm.trans hp
    exact defined_of_cases h1 h2
  · intro p hp
    obtain ⟨q, hq, h1, h2⟩ := shr_checked_32 RAX RAX R13 s (by decide)
    obtain rfl : q = p := by injection hq.symm.trans hp
    exact defined_of_cases h1 h2
  · intro p hp
    obtain ⟨q, hq, h1, h2⟩ := sar_checked_32 RAX RAX R13 s (by decide)
    obtain rfl : q = p := by injection hq.symm.trans hp
    exact defined_of_cases h1 h2
  · intro p hp
    obtain ⟨q, hq, s', h, _⟩ := compare_set_Int64 RAX RAX R13 op s
    obtain rfl : q = p := by injection hq.symm.trans hp
    rw [h]; trivial
  · intro p hp
    obtain ⟨q, hq, s', h, _⟩ := compare_set_Int32 RAX RAX R13 op s
    obtain rfl : q = p := by injection hq.symm.trans hp
    rw [h]; trivial
  · intro p hp
    obtain ⟨q, hq, s', h, _⟩ := compare_set_Int8 RAX RAX R13 op s
    obtain rfl : q = p := by injection hq.symm.trans hp
    rw [h]; trivial
  · intro p hp
    obtain ⟨q, hq, s', h, _⟩ := extend_int_long_exact RAX RAX s
    obtain rfl : q = p := by injection hq.symm.trans hp
    rw [h]; trivial

/-- non-vacuity: the sequences exist (e.g. checked 64-bit add is 7 instructions) and an all-undefined-flags state is a state -/
example : ∃ p, assemble (cg_emit_checked_add .Int64 {}) = .ok p ∧ p.length = 7 ∧
    Outcome.defined (exec p { regs := fun _ => 9223372036854775807#64 }) := by
  obtain ⟨h, _⟩ := cg_sequences_defined { regs := fun _ => 9223372036854775807#64 } {} .Equal
  exact ⟨_, prog_add_checked64 .., by decide, h _ (prog_add_checked64 ..)⟩

/-!
## Not proved: division and remainder

Full statement (`int_div_checked` / `int_mod_checked`, i.e. `div_common` with result register `rax` / `rdx`), for w = 32, 64,
all `dest lhs rhs` with `rhs ∉ {rax, rdx, rdi}` and `lhs ≠ rdi` (the first two are `assert!`s of the Rust code, `rdi` is the scratch
register that receives MIN), `a`, `b` the signed w-bit readings of `lhs`, `rhs`:

* `b = 0` → DIV0 trap, only `rdi` changed;
* `b ≠ 0`, `a = MIN`, `b = −1` → OVERFLOW trap (for the remainder too: the code tests `MIN`/`−1` before it knows which result is
  wanted, so `MIN % −1` traps although 0 would be representable), only `rdi` changed;
* otherwise `done` with `dest` = `Int.tdiv a b` resp. `Int.tmod a b` exactly (in range), `rax`, `rdx`, `rdi`, `dest` clobbered;
* `#DE` unreachable.

What exists: the integer core is proved in `DoraModel/X64/MasmLemmasDiv.lean` (`idivOp_signFill32/64`: after `cdq/cqo`, `idiv` raises
no `#DE` unless `b = 0` or `MIN / −1` and returns the truncating quotient and remainder; `toInt_quot*`, `toInt_rem*`: both are in
range), the instruction-level simulation of the 19-instruction sequence is not (the `simp`-based simulation did not terminate in the
time available).  `checks/c01_masm.py` therefore evaluates the regenerated sequences of div/mod on the whole boundary grid
(divisors 0, ±1, MIN, MAX; dividends around every edge) against exact integer arithmetic on every run (`oracle:masm-grid`).
-/

end Dora.Masm.Props
