import DoraModel.Mini.Classify
import DoraModel.Mini.Eval
import DoraModel.Mini.PrimLemmas
/-!
# C02 — property theorems

`classify` (how a run ends) is total and recognises exactly the documented endings.  The soundness
statement "a well-typed MiniDora program never gets stuck" is NOT proved as a whole; what is proved are
progress lemmas for the primitive constructs (named `…_partial`), i.e. the places where the reference
semantics could get stuck on well-typed operands.

Full statement that is not proved (kept here as the goal):
  `soundness_core : wellTyped p → ∀ fuel, runProg p fuel ∈ {exit, trap k, fatal, outOfFuel}` (never `stuck`)
Missing: a typing judgement for whole programs (`Typing.lean`) and the preservation half (values stored in
cells / heap keep their types across `step`); only the operator-level progress facts below are proved.
-/
namespace Dora.Mini.C02
open Dora.Mini

/-- every observation is classified, into exactly one of: exit status, documented trap, fatal error,
    undefined -/
theorem classify_total (o : Obs) :
    (∃ n, classify o = .exit n) ∨ (∃ t, classify o = .trap t) ∨ classify o = .fatal ∨
    (∃ w, classify o = .undefined w) := by
  cases h : classify o with
  | exit n => exact Or.inl ⟨n, rfl⟩
  | trap t => exact Or.inr (Or.inl ⟨t, rfl⟩)
  | fatal => exact Or.inr (Or.inr (Or.inl rfl))
  | undefined w => exact Or.inr (Or.inr (Or.inr ⟨w, rfl⟩))

/-- a run killed by a signal (SIGSEGV, SIGABRT, SIGILL, …) or reporting a Rust panic is never a defined ending -/
theorem classify_signal_undefined (o : Obs) (h : o.signal.isSome ∨ o.rustPanic = true) :
    (classify o).defined = false := by
  unfold classify
  cases hs : o.signal with
  | some n => simp [RunEnd.defined]
  | none =>
    cases h with
    | inl h => simp [hs] at h
    | inr h => simp [h, RunEnd.defined]

/-- a trap is reported only for the documented status WITH its documented message -/
theorem classify_trap_sound (o : Obs) (t : Trap) (h : classify o = .trap t) :
    o.signal = none ∧ o.status = t.status ∧ o.stderr1 = t.message := by
  unfold classify at h
  cases hs : o.signal with
  | some n => simp [hs] at h
  | none =>
    simp only [hs] at h
    split at h
    · cases h
    · split at h
      next t' ht =>
        split at h
        next hm =>
          injection h with h; subst h
          unfold trapOfStatus at ht
          have h3 := List.find?_some ht
          have h4 : t'.status = o.status := by simpa using h3
          exact ⟨rfl, h4.symm, hm⟩
        next => cases h
      next =>
        split at h
        · cases h
        · split at h <;> cases h

example : classify ⟨none, 109, "overflow", false⟩ = .trap .overflow := by decide
example : classify ⟨some 11, 0, "", false⟩ = .undefined "signal 11" := by decide
example : classify ⟨none, 109, "something else", false⟩ = .undefined "trap status without its message" := by decide

/-! ## progress lemmas (well-typed operands never make a primitive construct stuck) -/

/-- result shape of a primitive step on well-typed operands: a value or a documented trap – never `stuck` -/
def ValueOrTrap (x : M Val) : Prop := (∃ v, x = pure v) ∨ (∃ t, x = trap t)

theorem liftE_progress (w : IW) (r : Except Trap Int) :
    ValueOrTrap (do pure (.int w (← liftE r)) : M Val) := by
  cases r with
  | ok v => exact Or.inl ⟨.int w v, rfl⟩
  | error t => exact Or.inr ⟨t, rfl⟩

/-- arithmetic, bitwise and comparison operators on two integers of the same width -/
theorem binop_int_progress_partial (op : BinOp) (w : IW) (a b : Int)
    (hop : op ≠ .shl ∧ op ≠ .shr ∧ op ≠ .sar ∧ op ≠ .is ∧ op ≠ .isnot) :
    ValueOrTrap (binInt op w a b) := by
  obtain ⟨h1, h2, h3, h4, h5⟩ := hop
  cases op with
  | add => exact liftE_progress w _
  | sub => exact liftE_progress w _
  | mul => exact liftE_progress w _
  | div => exact liftE_progress w _
  | mod => exact liftE_progress w _
  | band => exact Or.inl ⟨_, rfl⟩
  | bor => exact Or.inl ⟨_, rfl⟩
  | bxor => exact Or.inl ⟨_, rfl⟩
  | cmp c => exact Or.inl ⟨_, rfl⟩
  | shl => exact absurd rfl h1
  | shr => exact absurd rfl h2
  | sar => exact absurd rfl h3
  | is => exact absurd rfl h4
  | isnot => exact absurd rfl h5

/-- shifts: an Int32/Int64 value shifted by an Int32 amount -/
theorem shift_progress_partial (w : IW) (a n : Int) :
    ValueOrTrap (binPrim .shl (.int w a) (.int .w32 n)) ∧
    ValueOrTrap (binPrim .shr (.int w a) (.int .w32 n)) ∧
    ValueOrTrap (binPrim .sar (.int w a) (.int .w32 n)) := by
  refine ⟨?_, ?_, ?_⟩ <;> cases w <;> exact liftE_progress _ _

/-- unary minus / bitwise not on an integer, logical not on a Bool -/
theorem unop_progress_partial (w : IW) (a : Int) (b : Bool) :
    ValueOrTrap (unPrim .neg (.int w a)) ∧ ValueOrTrap (unPrim .not (.int w a)) ∧
    ValueOrTrap (unPrim .not (.bool b)) :=
  ⟨liftE_progress w _, Or.inl ⟨_, rfl⟩, Or.inl ⟨_, rfl⟩⟩

/-- `if` on a Bool condition continues with one of its branches (it does not get stuck itself) -/
theorem if_progress_partial (p : Prog) (rec : Rec) (c t e : Expr) (env : Env) (s s₁ : St) (b : Bool)
    (hc : (rec c env).run s = some (.ok (.bool b), s₁)) :
    (step p rec (.ite c t (some e)) env).run s = (if b then (rec t env).run s₁ else (rec e env).run s₁) := by
  simp only [step, ExceptT.run, bind, ExceptT.bind, ExceptT.mk, StateT.bind, ExceptT.bindCont] at *
  rw [hc]
  cases b <;> rfl

/-- checked results stay inside the type: the value produced by a checked Int32/Int64 operation is
    representable (the "preservation" fact for arithmetic) -/
theorem arith_preserves_range (w : IW) (a b r : Int) (h : addC w a b = .ok r ∨ subC w a b = .ok r ∨ mulC w a b = .ok r) :
    w.inRange r = true := by
  rcases h with h | h | h
  · exact addC_inRange w a b r h
  · exact subC_inRange w a b r h
  · exact mulC_inRange w a b r h

end Dora.Mini.C02
