import DoraModel.A64.Lemmas
/-!
# C08 — per-class encoder theorems, part %d of 4 (split only so that the parts build in parallel)

Statements generated once from the field table in /verif/tools/gen_c08_props.py (a reading of the Arm ARM
encoding diagrams), then kept by hand. Each says for one `cls::*` encoder of dora-asm/src/arm64.rs (as translated into
`DoraModel/Gen/A64.lean` on every run): accepted ⇒ every operand fits (refused, never truncated), every field holds its
operand (sp/zr rule per operand), all other bits are the class' opcode bits. Closed by `bv_decide` (32-bit facts).
-/
set_option linter.unusedSimpArgs false
namespace Dora.A64.C08
open Dora.A64

/-- Class `addsub_shreg` (field placement, register-31 rule per operand, refusal): if the encoder accepts, every
operand fits its field (nothing is truncated), each field holds exactly its operand, and the remaining
bits are the opcode bits of the class. -/
theorem addsub_shreg_sound (sf : BitVec 32) (op : BitVec 32) (s : BitVec 32) (shift : Shift) (rm : Register) (imm6 : BitVec 32) (rn : Register) (rd : Register)  (w : BitVec 32)
    (h : cls.addsub_shreg sf op s shift rm imm6 rn rd = .ok w) :
    sf.ult 2#32 = true ∧
    w.extractLsb' 31 1 = BitVec.setWidth 1 sf ∧
    op.ult 2#32 = true ∧
    w.extractLsb' 30 1 = BitVec.setWidth 1 op ∧
    s.ult 2#32 = true ∧
    w.extractLsb' 29 1 = BitVec.setWidth 1 s ∧
    shift ≠ Shift.ROR ∧
    w.extractLsb' 22 2 = BitVec.setWidth 2 (Shift.u32 shift) ∧
    rm.v.ule 30#8 = true ∧
    w.extractLsb' 16 5 = BitVec.setWidth 5 rm.v ∧
    imm6.ult 64#32 = true ∧
    (sf = 0#32 → imm6.ult 32#32 = true) ∧
    w.extractLsb' 10 6 = BitVec.setWidth 6 imm6 ∧
    (rn.v.ule 30#8 = true ∨ rn.v = 100#8) ∧
    w.extractLsb' 5 5 = (if rn.v.ule 30#8 = true then BitVec.setWidth 5 rn.v else 31#5) ∧
    (rd.v.ule 30#8 = true ∨ rd.v = 100#8) ∧
    w.extractLsb' 0 5 = (if rd.v.ule 30#8 = true then BitVec.setWidth 5 rd.v else 31#5) ∧
    w &&& 522190848#32 = 184549376#32 := by
  unfold cls.addsub_shreg at h
  cls_norm at h
  cases shift <;> simp only [Shift.u32, bind_ok, pure_ok, ok_ok, ex_elim, ex_elim', ex_elim_r, throw, throwThe, MonadExceptOf.throw, reduceCtorEq, false_and, exists_false, and_false] at h ⊢ <;> bv_decide (timeout := 600)

example : ∃ w, cls.addsub_shreg 0#32 0#32 0#32 Shift.ASR R17 0#32 R17 R17 = .ok w := ⟨_, rfl⟩

/-- Class `cond_branch_imm` (field placement, register-31 rule per operand, refusal): if the encoder accepts, every
operand fits its field (nothing is truncated), each field holds exactly its operand, and the remaining
bits are the opcode bits of the class. -/
theorem cond_branch_imm_sound (cond : Cond) (imm19 : BitVec 32)  (w : BitVec 32)
    (h : cls.cond_branch_imm cond imm19 = .ok w) :
    w.extractLsb' 0 4 = BitVec.setWidth 4 (Cond.u32 cond) ∧
    BitVec.sle 4294705152#32 imm19 = true ∧
    BitVec.slt imm19 262144#32 = true ∧
    w.extractLsb' 5 19 = BitVec.setWidth 19 imm19 ∧
    w &&& 4278190096#32 = 1409286144#32 := by
  unfold cls.cond_branch_imm at h
  cls_norm at h
  cases cond <;> simp only [Cond.u32, bind_ok, pure_ok, ok_ok, ex_elim, ex_elim', ex_elim_r, throw, throwThe, MonadExceptOf.throw, reduceCtorEq, false_and, exists_false, and_false] at h ⊢ <;> bv_decide (timeout := 600)

example : ∃ w, cls.cond_branch_imm Cond.GE 4294967295#32 = .ok w := ⟨_, rfl⟩

/-- Class `dataproc3` (field placement, register-31 rule per operand, refusal): if the encoder accepts, every
operand fits its field (nothing is truncated), each field holds exactly its operand, and the remaining
bits are the opcode bits of the class. -/
theorem dataproc3_sound (sf : BitVec 32) (op54 : BitVec 32) (op31 : BitVec 32) (rm : Register) (o0 : BitVec 32) (ra : Register) (rn : Register) (rd : Register)  (w : BitVec 32)
    (h : cls.dataproc3 sf op54 op31 rm o0 ra rn rd = .ok w) :
    sf.ult 2#32 = true ∧
    w.extractLsb' 31 1 = BitVec.setWidth 1 sf ∧
    op54.ult 4#32 = true ∧
    w.extractLsb' 29 2 = BitVec.setWidth 2 op54 ∧
    op31.ult 8#32 = true ∧
    w.extractLsb' 21 3 = BitVec.setWidth 3 op31 ∧
    rm.v.ule 30#8 = true ∧
    w.extractLsb' 16 5 = BitVec.setWidth 5 rm.v ∧
    o0.ult 2#32 = true ∧
    w.extractLsb' 15 1 = BitVec.setWidth 1 o0 ∧
    (ra.v.ule 30#8 = true ∨ ra.v = 100#8) ∧
    w.extractLsb' 10 5 = (if ra.v.ule 30#8 = true then BitVec.setWidth 5 ra.v else 31#5) ∧
    rn.v.ule 30#8 = true ∧
    w.extractLsb' 5 5 = BitVec.setWidth 5 rn.v ∧
    rd.v.ule 30#8 = true ∧
    w.extractLsb' 0 5 = BitVec.setWidth 5 rd.v ∧
    w &&& 520093696#32 = 452984832#32 := by
  unfold cls.dataproc3 at h
  cls_norm at h
  bv_decide (timeout := 600)

example : ∃ w, cls.dataproc3 0#32 0#32 0#32 R17 0#32 R17 R17 R17 = .ok w := ⟨_, rfl⟩

/-- Class `fp_dataproc2` (field placement, register-31 rule per operand, refusal): if the encoder accepts, every
operand fits its field (nothing is truncated), each field holds exactly its operand, and the remaining
bits are the opcode bits of the class. -/
theorem fp_dataproc2_sound (m : BitVec 32) (s : BitVec 32) (ty : BitVec 32) (rm : NeonRegister) (opcode : BitVec 32) (rn : NeonRegister) (rd : NeonRegister) (hrm : rm.v.ult 32#8 = true) (hrn : rn.v.ult 32#8 = true) (hrd : rd.v.ult 32#8 = true) (w : BitVec 32)
    (h : cls.fp_dataproc2 m s ty rm opcode rn rd = .ok w) :
    m = 0#32 ∧
    s = 0#32 ∧
    ty.ult 2#32 = true ∧
    w.extractLsb' 22 1 = BitVec.setWidth 1 ty ∧
    w.extractLsb' 16 5 = BitVec.setWidth 5 rm.v ∧
    opcode.ult 16#32 = true ∧
    w.extractLsb' 12 4 = BitVec.setWidth 4 opcode ∧
    w.extractLsb' 5 5 = BitVec.setWidth 5 rn.v ∧
    w.extractLsb' 0 5 = BitVec.setWidth 5 rd.v ∧
    w &&& 4288678912#32 = 505415680#32 := by
  unfold cls.fp_dataproc2 at h
  cls_norm at h
  bv_decide (timeout := 600)

example : ∃ w, cls.fp_dataproc2 0#32 0#32 0#32 F31 0#32 F31 F31 = .ok w := ⟨_, rfl⟩

/-- Class `ldst_pair_pre` (field placement, register-31 rule per operand, refusal): if the encoder accepts, every
operand fits its field (nothing is truncated), each field holds exactly its operand, and the remaining
bits are the opcode bits of the class. -/
theorem ldst_pair_pre_sound (opc : BitVec 32) (v : BitVec 32) (l : BitVec 32) (imm7 : BitVec 32) (rt2 : Register) (rn : Register) (rt : Register)  (w : BitVec 32)
    (h : cls.ldst_pair_pre opc v l imm7 rt2 rn rt = .ok w) :
    opc.ult 4#32 = true ∧
    w.extractLsb' 30 2 = BitVec.setWidth 2 opc ∧
    v.ult 2#32 = true ∧
    w.extractLsb' 26 1 = BitVec.setWidth 1 v ∧
    l.ult 2#32 = true ∧
    w.extractLsb' 22 1 = BitVec.setWidth 1 l ∧
    BitVec.sle 4294967232#32 imm7 = true ∧
    BitVec.slt imm7 64#32 = true ∧
    w.extractLsb' 15 7 = BitVec.setWidth 7 imm7 ∧
    rt2.v.ule 30#8 = true ∧
    w.extractLsb' 10 5 = BitVec.setWidth 5 rt2.v ∧
    (rn.v.ule 30#8 = true ∨ rn.v = 101#8) ∧
    w.extractLsb' 5 5 = (if rn.v.ule 30#8 = true then BitVec.setWidth 5 rn.v else 31#5) ∧
    rt.v.ule 30#8 = true ∧
    w.extractLsb' 0 5 = BitVec.setWidth 5 rt.v ∧
    w &&& 998244352#32 = 696254464#32 := by
  unfold cls.ldst_pair_pre at h
  cls_norm at h
  bv_decide (timeout := 600)

example : ∃ w, cls.ldst_pair_pre 0#32 0#32 0#32 4294967295#32 R17 R17 R17 = .ok w := ⟨_, rfl⟩

/-- Class `ldst_regimm` (field placement, register-31 rule per operand, refusal): if the encoder accepts, every
operand fits its field (nothing is truncated), each field holds exactly its operand, and the remaining
bits are the opcode bits of the class. -/
theorem ldst_regimm_sound (size : BitVec 32) (v : BitVec 32) (opc : BitVec 32) (imm12 : BitVec 32) (rn : Register) (rt : BitVec 32)  (w : BitVec 32)
    (h : cls.ldst_regimm size v opc imm12 rn rt = .ok w) :
    size.ult 4#32 = true ∧
    w.extractLsb' 30 2 = BitVec.setWidth 2 size ∧
    v.ult 2#32 = true ∧
    w.extractLsb' 26 1 = BitVec.setWidth 1 v ∧
    opc.ult 4#32 = true ∧
    w.extractLsb' 22 2 = BitVec.setWidth 2 opc ∧
    imm12.ult 4096#32 = true ∧
    w.extractLsb' 10 12 = BitVec.setWidth 12 imm12 ∧
    (rn.v.ule 30#8 = true ∨ rn.v = 101#8) ∧
    w.extractLsb' 5 5 = (if rn.v.ule 30#8 = true then BitVec.setWidth 5 rn.v else 31#5) ∧
    rt.ult 32#32 = true ∧
    w.extractLsb' 0 5 = BitVec.setWidth 5 rt ∧
    w &&& 989855744#32 = 956301312#32 := by
  unfold cls.ldst_regimm at h
  cls_norm at h
  bv_decide (timeout := 600)

example : ∃ w, cls.ldst_regimm 0#32 0#32 0#32 0#32 R17 0#32 = .ok w := ⟨_, rfl⟩

/-- Class `simd_2regs_misc` (field placement, register-31 rule per operand, refusal): if the encoder accepts, every
operand fits its field (nothing is truncated), each field holds exactly its operand, and the remaining
bits are the opcode bits of the class. -/
theorem simd_2regs_misc_sound (q : BitVec 32) (u : BitVec 32) (size : BitVec 32) (opcode : BitVec 32) (rn : NeonRegister) (rd : NeonRegister) (hrn : rn.v.ult 32#8 = true) (hrd : rd.v.ult 32#8 = true) (w : BitVec 32)
    (h : cls.simd_2regs_misc q u size opcode rn rd = .ok w) :
    q.ult 2#32 = true ∧
    w.extractLsb' 30 1 = BitVec.setWidth 1 q ∧
    u.ult 2#32 = true ∧
    w.extractLsb' 29 1 = BitVec.setWidth 1 u ∧
    size.ult 4#32 = true ∧
    w.extractLsb' 22 2 = BitVec.setWidth 2 size ∧
    opcode.ult 32#32 = true ∧
    w.extractLsb' 12 5 = BitVec.setWidth 5 opcode ∧
    w.extractLsb' 5 5 = BitVec.setWidth 5 rn.v ∧
    w.extractLsb' 0 5 = BitVec.setWidth 5 rd.v ∧
    w &&& 2671643648#32 = 236980224#32 := by
  unfold cls.simd_2regs_misc at h
  cls_norm at h
  bv_decide (timeout := 600)

example : ∃ w, cls.simd_2regs_misc 0#32 0#32 0#32 0#32 F31 F31 = .ok w := ⟨_, rfl⟩

/-- Class `uncond_branch_imm` (field placement, register-31 rule per operand, refusal): if the encoder accepts, every
operand fits its field (nothing is truncated), each field holds exactly its operand, and the remaining
bits are the opcode bits of the class. -/
theorem uncond_branch_imm_sound (op : BitVec 32) (imm26 : BitVec 32)  (w : BitVec 32)
    (h : cls.uncond_branch_imm op imm26 = .ok w) :
    op.ult 2#32 = true ∧
    w.extractLsb' 31 1 = BitVec.setWidth 1 op ∧
    BitVec.sle 4261412864#32 imm26 = true ∧
    BitVec.slt imm26 33554432#32 = true ∧
    w.extractLsb' 0 26 = BitVec.setWidth 26 imm26 ∧
    w &&& 2080374784#32 = 335544320#32 := by
  unfold cls.uncond_branch_imm at h
  cls_norm at h
  bv_decide (timeout := 600)

example : ∃ w, cls.uncond_branch_imm 0#32 4294967295#32 = .ok w := ⟨_, rfl⟩

/-- Class `uncond_branch_reg` (field placement, register-31 rule per operand, refusal): if the encoder accepts, every
operand fits its field (nothing is truncated), each field holds exactly its operand, and the remaining
bits are the opcode bits of the class. -/
theorem uncond_branch_reg_sound (opc : BitVec 32) (op2 : BitVec 32) (op3 : BitVec 32) (rn : Register) (op4 : BitVec 32)  (w : BitVec 32)
    (h : cls.uncond_branch_reg opc op2 op3 rn op4 = .ok w) :
    opc.ult 16#32 = true ∧
    w.extractLsb' 21 4 = BitVec.setWidth 4 opc ∧
    op2.ult 32#32 = true ∧
    w.extractLsb' 16 5 = BitVec.setWidth 5 op2 ∧
    op3.ult 64#32 = true ∧
    w.extractLsb' 10 6 = BitVec.setWidth 6 op3 ∧
    rn.v.ule 30#8 = true ∧
    w.extractLsb' 5 5 = BitVec.setWidth 5 rn.v ∧
    op4.ult 32#32 = true ∧
    w.extractLsb' 0 5 = BitVec.setWidth 5 op4 ∧
    w &&& 4261412864#32 = 3590324224#32 := by
  unfold cls.uncond_branch_reg at h
  cls_norm at h
  bv_decide (timeout := 600)

example : ∃ w, cls.uncond_branch_reg 0#32 0#32 0#32 R17 0#32 = .ok w := ⟨_, rfl⟩

end Dora.A64.C08
