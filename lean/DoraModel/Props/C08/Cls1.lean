import DoraModel.A64.Lemmas
/-!
# C08 — per-class encoder theorems, part %d of 4 (split only so that the parts build in parallel)

Statements generated once from the field table in /verif/tools/gen_c08_props.py (a reading of the Arm ARM
encoding diagrams), then kept by hand. Each says for one `cls::*` encoder of dora-asm/src/arm64.rs (as translated into
`DoraModel/Gen/A64.lean` on every run): accepted ⇒ every operand fits (refused, never truncated), every field holds its
operand (sp/zr rule per operand), all other bits are the class' opcode bits. Closed by `bv_decide` (32-bit facts).
-/
set_option linter.unusedSimpArgs false
namespace Dora.A64.C08
open Dora.A64

/-- Class `addsub_extreg` (field placement, register-31 rule per operand, refusal): if the encoder accepts, every
operand fits its field (nothing is truncated), each field holds exactly its operand, and the remaining
bits are the opcode bits of the class. -/
theorem addsub_extreg_sound (sf : BitVec 32) (op : BitVec 32) (s : BitVec 32) (opt : BitVec 32) (rm : Register) (option : Extend) (imm3 : BitVec 32) (rn : Register) (rd : Register)  (w : BitVec 32)
    (h : cls.addsub_extreg sf op s opt rm option imm3 rn rd = .ok w) :
    sf.ult 2#32 = true ∧
    w.extractLsb' 31 1 = BitVec.setWidth 1 sf ∧
    op.ult 2#32 = true ∧
    w.extractLsb' 30 1 = BitVec.setWidth 1 op ∧
    s.ult 2#32 = true ∧
    w.extractLsb' 29 1 = BitVec.setWidth 1 s ∧
    opt = 0#32 ∧
    (rm.v.ule 30#8 = true ∨ rm.v = 100#8) ∧
    w.extractLsb' 16 5 = (if rm.v.ule 30#8 = true then BitVec.setWidth 5 rm.v else 31#5) ∧
    w.extractLsb' 13 3 = extendOptionSpec option sf ∧
    imm3.ult 4#32 = true ∧
    w.extractLsb' 10 3 = BitVec.setWidth 3 imm3 ∧
    (rn.v.ule 30#8 = true ∨ rn.v = 101#8) ∧
    w.extractLsb' 5 5 = (if rn.v.ule 30#8 = true then BitVec.setWidth 5 rn.v else 31#5) ∧
    (rd.v.ule 30#8 = true ∨ rd.v = (if s = 0#32 then 101#8 else 100#8)) ∧
    w.extractLsb' 0 5 = (if rd.v.ule 30#8 = true then BitVec.setWidth 5 rd.v else 31#5) ∧
    w &&& 534773760#32 = 186646528#32 := by
  unfold cls.addsub_extreg at h
  cls_norm at h
  cases option <;> simp only [Extend.encoding_for, Extend.encoding, extendOptionSpec, bind_ok, pure_ok, ok_ok, ex_elim, ex_elim', ex_elim_r, throw, throwThe, MonadExceptOf.throw, reduceCtorEq, false_and, exists_false, and_false] at h ⊢ <;> bv_decide (timeout := 600)

example : ∃ w, cls.addsub_extreg 0#32 0#32 0#32 0#32 R17 Extend.SXTW 0#32 R17 R17 = .ok w := ⟨_, rfl⟩

/-- Class `atomic_op` (field placement, register-31 rule per operand, refusal): if the encoder accepts, every
operand fits its field (nothing is truncated), each field holds exactly its operand, and the remaining
bits are the opcode bits of the class. -/
theorem atomic_op_sound (size : BitVec 32) (v : BitVec 32) (a : BitVec 32) (r : BitVec 32) (rs : Register) (o3 : BitVec 32) (opc : BitVec 32) (rn : Register) (rt : Register)  (w : BitVec 32)
    (h : cls.atomic_op size v a r rs o3 opc rn rt = .ok w) :
    size.ult 4#32 = true ∧
    w.extractLsb' 30 2 = BitVec.setWidth 2 size ∧
    v.ult 2#32 = true ∧
    w.extractLsb' 26 1 = BitVec.setWidth 1 v ∧
    a.ult 2#32 = true ∧
    w.extractLsb' 23 1 = BitVec.setWidth 1 a ∧
    r.ult 2#32 = true ∧
    w.extractLsb' 22 1 = BitVec.setWidth 1 r ∧
    rs.v.ule 30#8 = true ∧
    w.extractLsb' 16 5 = BitVec.setWidth 5 rs.v ∧
    o3.ult 2#32 = true ∧
    w.extractLsb' 15 1 = BitVec.setWidth 1 o3 ∧
    opc.ult 4#32 = true ∧
    w.extractLsb' 12 3 = BitVec.setWidth 3 opc ∧
    rn.v.ule 30#8 = true ∧
    w.extractLsb' 5 5 = BitVec.setWidth 5 rn.v ∧
    rt.v.ule 30#8 = true ∧
    w.extractLsb' 0 5 = BitVec.setWidth 5 rt.v ∧
    w &&& 991955968#32 = 941621248#32 := by
  unfold cls.atomic_op at h
  cls_norm at h
  bv_decide (timeout := 600)

example : ∃ w, cls.atomic_op 0#32 0#32 0#32 0#32 R17 0#32 0#32 R17 R17 = .ok w := ⟨_, rfl⟩

/-- Class `exception` (field placement, register-31 rule per operand, refusal): if the encoder accepts, every
operand fits its field (nothing is truncated), each field holds exactly its operand, and the remaining
bits are the opcode bits of the class. -/
theorem exception_sound (opc : BitVec 32) (imm16 : BitVec 32) (op2 : BitVec 32) (ll : BitVec 32)  (w : BitVec 32)
    (h : cls.exception opc imm16 op2 ll = .ok w) :
    opc.ult 8#32 = true ∧
    w.extractLsb' 21 3 = BitVec.setWidth 3 opc ∧
    imm16.ult 65536#32 = true ∧
    w.extractLsb' 5 16 = BitVec.setWidth 16 imm16 ∧
    op2 = 0#32 ∧
    ll.ult 4#32 = true ∧
    w.extractLsb' 0 2 = BitVec.setWidth 2 ll ∧
    w &&& 4278190108#32 = 3556769792#32 := by
  unfold cls.exception at h
  cls_norm at h
  bv_decide (timeout := 600)

example : ∃ w, cls.exception 0#32 0#32 0#32 0#32 = .ok w := ⟨_, rfl⟩

/-- Class `ldst_exclusive` (field placement, register-31 rule per operand, refusal): if the encoder accepts, every
operand fits its field (nothing is truncated), each field holds exactly its operand, and the remaining
bits are the opcode bits of the class. -/
theorem ldst_exclusive_sound (size : BitVec 32) (o2 : BitVec 32) (l : BitVec 32) (o1 : BitVec 32) (rs : Register) (o0 : BitVec 32) (rt2 : Register) (rn : Register) (rt : Register)  (w : BitVec 32)
    (h : cls.ldst_exclusive size o2 l o1 rs o0 rt2 rn rt = .ok w) :
    size.ult 4#32 = true ∧
    w.extractLsb' 30 2 = BitVec.setWidth 2 size ∧
    o2.ult 2#32 = true ∧
    w.extractLsb' 23 1 = BitVec.setWidth 1 o2 ∧
    l.ult 2#32 = true ∧
    w.extractLsb' 22 1 = BitVec.setWidth 1 l ∧
    o1.ult 2#32 = true ∧
    w.extractLsb' 21 1 = BitVec.setWidth 1 o1 ∧
    (rs.v.ule 30#8 = true ∨ rs.v = 100#8) ∧
    w.extractLsb' 16 5 = (if rs.v.ule 30#8 = true then BitVec.setWidth 5 rs.v else 31#5) ∧
    o0.ult 2#32 = true ∧
    w.extractLsb' 15 1 = BitVec.setWidth 1 o0 ∧
    (rt2.v.ule 30#8 = true ∨ rt2.v = 100#8) ∧
    w.extractLsb' 10 5 = (if rt2.v.ule 30#8 = true then BitVec.setWidth 5 rt2.v else 31#5) ∧
    (rn.v.ule 30#8 = true ∨ rn.v = 101#8) ∧
    w.extractLsb' 5 5 = (if rn.v.ule 30#8 = true then BitVec.setWidth 5 rn.v else 31#5) ∧
    (rt.v.ule 30#8 = true ∨ rt.v = 100#8) ∧
    w.extractLsb' 0 5 = (if rt.v.ule 30#8 = true then BitVec.setWidth 5 rt.v else 31#5) ∧
    w &&& 1056964608#32 = 134217728#32 := by
  unfold cls.ldst_exclusive at h
  cls_norm at h
  bv_decide (timeout := 600)

example : ∃ w, cls.ldst_exclusive 0#32 0#32 0#32 0#32 R17 0#32 R17 R17 R17 = .ok w := ⟨_, rfl⟩

/-- Class `ldst_reg_unscaledimm` (field placement, register-31 rule per operand, refusal): if the encoder accepts, every
operand fits its field (nothing is truncated), each field holds exactly its operand, and the remaining
bits are the opcode bits of the class. -/
theorem ldst_reg_unscaledimm_sound (size : BitVec 32) (v : BitVec 32) (opc : BitVec 32) (imm9 : BitVec 32) (rn : Register) (rt : BitVec 32)  (w : BitVec 32)
    (h : cls.ldst_reg_unscaledimm size v opc imm9 rn rt = .ok w) :
    size.ult 4#32 = true ∧
    w.extractLsb' 30 2 = BitVec.setWidth 2 size ∧
    v.ult 2#32 = true ∧
    w.extractLsb' 26 1 = BitVec.setWidth 1 v ∧
    opc.ult 4#32 = true ∧
    w.extractLsb' 22 2 = BitVec.setWidth 2 opc ∧
    BitVec.sle 4294967040#32 imm9 = true ∧
    BitVec.slt imm9 256#32 = true ∧
    w.extractLsb' 12 9 = BitVec.setWidth 9 imm9 ∧
    (rn.v.ule 30#8 = true ∨ rn.v = 101#8) ∧
    w.extractLsb' 5 5 = (if rn.v.ule 30#8 = true then BitVec.setWidth 5 rn.v else 31#5) ∧
    rt.ult 32#32 = true ∧
    w.extractLsb' 0 5 = BitVec.setWidth 5 rt ∧
    w &&& 991955968#32 = 939524096#32 := by
  unfold cls.ldst_reg_unscaledimm at h
  cls_norm at h
  bv_decide (timeout := 600)

example : ∃ w, cls.ldst_reg_unscaledimm 0#32 0#32 0#32 4294967295#32 R17 0#32 = .ok w := ⟨_, rfl⟩

/-- Class `simd_across_lanes` (field placement, register-31 rule per operand, refusal): if the encoder accepts, every
operand fits its field (nothing is truncated), each field holds exactly its operand, and the remaining
bits are the opcode bits of the class. -/
theorem simd_across_lanes_sound (q : BitVec 32) (u : BitVec 32) (size : BitVec 32) (opcode : BitVec 32) (rn : NeonRegister) (rd : NeonRegister) (hrn : rn.v.ult 32#8 = true) (hrd : rd.v.ult 32#8 = true) (w : BitVec 32)
    (h : cls.simd_across_lanes q u size opcode rn rd = .ok w) :
    q.ult 2#32 = true ∧
    w.extractLsb' 30 1 = BitVec.setWidth 1 q ∧
    u.ult 2#32 = true ∧
    w.extractLsb' 29 1 = BitVec.setWidth 1 u ∧
    size.ult 4#32 = true ∧
    w.extractLsb' 22 2 = BitVec.setWidth 2 size ∧
    opcode.ult 32#32 = true ∧
    w.extractLsb' 12 5 = BitVec.setWidth 5 opcode ∧
    w.extractLsb' 5 5 = BitVec.setWidth 5 rn.v ∧
    w.extractLsb' 0 5 = BitVec.setWidth 5 rd.v ∧
    w &&& 2671643648#32 = 238028800#32 := by
  unfold cls.simd_across_lanes at h
  cls_norm at h
  bv_decide (timeout := 600)

example : ∃ w, cls.simd_across_lanes 0#32 0#32 0#32 0#32 F31 F31 = .ok w := ⟨_, rfl⟩

end Dora.A64.C08
