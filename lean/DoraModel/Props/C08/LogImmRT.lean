import DoraModel.A64.Spec
import DoraModel.A64.LogImm.All
/-!
# C08 — logical immediates: round trip over the image of `DecodeBitMasks` (moved out of `Props/C08.lean`)
-/
namespace Dora.A64.C08
open Dora.A64

/-
Full statement wanted for logical immediates (`logical_imm_sound`):
  ∀ imm sz e, encode_logical_imm imm sz = .ok (some e) → DecodeBitMasks e sz = imm
Proved below is the round trip over the IMAGE of DecodeBitMasks (all 5 334 + 1 302 encodable immediates, by kernel
evaluation of the regenerated `encode_logical_imm` on every 13-bit encoding): every encodable immediate is
accepted and the returned N:immr:imms denotes it again. Missing: that an immediate which is NOT encodable is never
given an encoding (for those the function must return `None`); that half is only compared on every run
(non-encodable immediates of the sweep are refused by Rust and by the model alike, llvm-mc agrees on the rest).
-/
/-- Logical immediates, 64-bit, partial: every value that `DecodeBitMasks(N, imms, immr)` denotes is accepted by
`encode_logical_imm`, and the encoding it returns denotes exactly that value (ARM ARM pseudocode as decoder). -/
theorem logical_imm_roundtrip64_partial (n immr imms v : Nat) (hn : n < 2) (hr : immr < 64) (hs : imms < 64)
    (h : decodeBitMasks n imms immr 64 = some v) :
    ∃ e', encode_logical_imm (BitVec.ofNat 64 v) 64#32 = .ok (some e') ∧
      decodeBitMasks (lN e'.toNat) (lImms e'.toNat) (lImmr e'.toNat) 64 = some v := by
  have hk := LogImm.logImmOk64 (n * 4096 + immr * 64 + imms) (by omega)
  have e1 : lN (n * 4096 + immr * 64 + imms) = n := by unfold lN; omega
  have e2 : lImmr (n * 4096 + immr * 64 + imms) = immr := by unfold lImmr; omega
  have e3 : lImms (n * 4096 + immr * 64 + imms) = imms := by unfold lImms; omega
  unfold logImmOk at hk
  rw [e1, e2, e3, h] at hk
  simp only [] at hk
  split at hk
  · rename_i e' he
    exact ⟨e', he, by simpa using hk⟩
  · simp at hk

example : decodeBitMasks 0 0b111100 0 64 = some 0x5555555555555555 := by decide

/-- Logical immediates, 32-bit, partial: the same round trip for the 32-bit forms (N = 0). -/
theorem logical_imm_roundtrip32_partial (immr imms v : Nat) (hr : immr < 64) (hs : imms < 64)
    (h : decodeBitMasks 0 imms immr 32 = some v) :
    ∃ e', encode_logical_imm (BitVec.ofNat 64 v) 32#32 = .ok (some e') ∧
      decodeBitMasks (lN e'.toNat) (lImms e'.toNat) (lImmr e'.toNat) 32 = some v := by
  have hk := LogImm.logImmOk32 (immr * 64 + imms) (by omega)
  have e1 : lN (immr * 64 + imms) = 0 := by unfold lN; omega
  have e2 : lImmr (immr * 64 + imms) = immr := by unfold lImmr; omega
  have e3 : lImms (immr * 64 + imms) = imms := by unfold lImms; omega
  unfold logImmOk at hk
  rw [e1, e2, e3, h] at hk
  simp only [] at hk
  split at hk
  · rename_i e' he
    exact ⟨e', he, by simpa using hk⟩
  · simp at hk

example : decodeBitMasks 0 7 0 32 = some 255 := by decide

end Dora.A64.C08
