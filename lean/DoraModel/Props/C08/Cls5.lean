import DoraModel.A64.Lemmas
/-!
# C08 — the two class encoders with split fields (`pcrel`, `test_and_branch`)

Moved out of `Props/C08.lean` so that the generated per-method theorems (`Gen/A64Thm*.lean`, imported by
`Props/C08.lean`) can use them.
-/
namespace Dora.A64.C08
open Dora.A64

/-- Class `pcrel` (`adr`/`adrp`): accepted ⇒ the 21-bit signed immediate fits and is split exactly into
immlo (bits 30:29) and immhi (bits 23:5); rd is a general register; remaining bits are the opcode. -/
theorem pcrel_sound (op imm : BitVec 32) (rd : Register) (w : BitVec 32)
    (h : cls.pcrel op imm rd = .ok w) :
    op.ult 2#32 = true ∧ w.extractLsb' 31 1 = BitVec.setWidth 1 op ∧
    BitVec.sle 4293918720#32 imm = true ∧ BitVec.slt imm 1048576#32 = true ∧
    w.extractLsb' 29 2 = imm.extractLsb' 0 2 ∧ w.extractLsb' 5 19 = imm.extractLsb' 2 19 ∧
    rd.v.ule 30#8 = true ∧ w.extractLsb' 0 5 = BitVec.setWidth 5 rd.v ∧
    w &&& 520093696#32 = 268435456#32 := by
  unfold cls.pcrel at h
  cls_norm at h
  bv_decide (timeout := 600)

example : ∃ w, cls.pcrel 1#32 4294967295#32 R17 = .ok w := ⟨_, rfl⟩

/-- Class `test_and_branch` (`tbz`/`tbnz`): accepted ⇒ bit number and register fit and are placed (b5 at bit 31,
b40 at 23:19), the distance fits the signed 14-bit field and sits at 18:5, opcode bits fixed.
(Before /repo commit 7810b35b9 `fits_i14` accepted one bit too many and only a `_partial` form held.) -/
theorem test_and_branch_sound (op bit imm14 : BitVec 32) (rt : Register) (w : BitVec 32)
    (h : cls.test_and_branch op bit imm14 rt = .ok w) :
    op.ult 2#32 = true ∧ w.extractLsb' 24 1 = BitVec.setWidth 1 op ∧
    bit.ult 64#32 = true ∧ w.extractLsb' 31 1 = bit.extractLsb' 5 1 ∧ w.extractLsb' 19 5 = bit.extractLsb' 0 5 ∧
    BitVec.sle 4294959104#32 imm14 = true ∧ BitVec.slt imm14 8192#32 = true ∧
    w.extractLsb' 5 14 = BitVec.setWidth 14 imm14 ∧ BitVec.signExtend 32 (w.extractLsb' 5 14) = imm14 ∧
    rt.v.ule 30#8 = true ∧ w.extractLsb' 0 5 = BitVec.setWidth 5 rt.v ∧
    w &&& 2113929216#32 = 905969664#32 := by
  unfold cls.test_and_branch at h
  cls_norm at h
  bv_decide (timeout := 600)

example : ∃ w, cls.test_and_branch 1#32 37#32 4294967295#32 R17 = .ok w := ⟨_, rfl⟩

/-- a distance of +8192 instructions (one past the field) is refused, -8192 is the last one accepted -/
example : (∀ w, cls.test_and_branch 0#32 0#32 8192#32 R0 ≠ .ok w) ∧
    (∃ w, cls.test_and_branch 0#32 0#32 4294959104#32 R0 = .ok w) :=
  ⟨fun w h => by simp [cls.test_and_branch, rassert, fits_bit, fits_i14, bind, Except.bind] at h, ⟨_, rfl⟩⟩

end Dora.A64.C08
