import DoraModel.A64.Lemmas
/-!
# C08 — per-class encoder theorems, part %d of 4 (split only so that the parts build in parallel)

Statements generated once from the field table in /verif/tools/gen_c08_props.py (a reading of the Arm ARM
encoding diagrams), then kept by hand. Each says for one `cls::*` encoder of dora-asm/src/arm64.rs (as translated into
`DoraModel/Gen/A64.lean` on every run): accepted ⇒ every operand fits (refused, never truncated), every field holds its
operand (sp/zr rule per operand), all other bits are the class' opcode bits. Closed by `bv_decide` (32-bit facts).
-/
set_option linter.unusedSimpArgs false
namespace Dora.A64.C08
open Dora.A64

/-- Class `addsub_imm` (field placement, register-31 rule per operand, refusal): if the encoder accepts, every
operand fits its field (nothing is truncated), each field holds exactly its operand, and the remaining
bits are the opcode bits of the class. -/
theorem addsub_imm_sound (sf : BitVec 32) (op : BitVec 32) (s : BitVec 32) (shift : BitVec 32) (imm12 : BitVec 32) (rn : Register) (rd : Register)  (w : BitVec 32)
    (h : cls.addsub_imm sf op s shift imm12 rn rd = .ok w) :
    sf.ult 2#32 = true ∧
    w.extractLsb' 31 1 = BitVec.setWidth 1 sf ∧
    op.ult 2#32 = true ∧
    w.extractLsb' 30 1 = BitVec.setWidth 1 op ∧
    s.ult 2#32 = true ∧
    w.extractLsb' 29 1 = BitVec.setWidth 1 s ∧
    shift.ult 2#32 = true ∧
    w.extractLsb' 22 1 = BitVec.setWidth 1 shift ∧
    imm12.ult 4096#32 = true ∧
    w.extractLsb' 10 12 = BitVec.setWidth 12 imm12 ∧
    (rn.v.ule 30#8 = true ∨ rn.v = 101#8) ∧
    w.extractLsb' 5 5 = (if rn.v.ule 30#8 = true then BitVec.setWidth 5 rn.v else 31#5) ∧
    (rd.v.ule 30#8 = true ∨ rd.v = (if s = 0#32 then 101#8 else 100#8)) ∧
    w.extractLsb' 0 5 = (if rd.v.ule 30#8 = true then BitVec.setWidth 5 rd.v else 31#5) ∧
    w &&& 528482304#32 = 285212672#32 := by
  unfold cls.addsub_imm at h
  cls_norm at h
  bv_decide (timeout := 600)

example : ∃ w, cls.addsub_imm 0#32 0#32 0#32 0#32 0#32 R17 R17 = .ok w := ⟨_, rfl⟩

/-- Class `csel` (field placement, register-31 rule per operand, refusal): if the encoder accepts, every
operand fits its field (nothing is truncated), each field holds exactly its operand, and the remaining
bits are the opcode bits of the class. -/
theorem csel_sound (sf : BitVec 32) (op : BitVec 32) (s : BitVec 32) (rm : Register) (cond : Cond) (op2 : BitVec 32) (rn : Register) (rd : Register)  (w : BitVec 32)
    (h : cls.csel sf op s rm cond op2 rn rd = .ok w) :
    sf.ult 2#32 = true ∧
    w.extractLsb' 31 1 = BitVec.setWidth 1 sf ∧
    op.ult 2#32 = true ∧
    w.extractLsb' 30 1 = BitVec.setWidth 1 op ∧
    s.ult 2#32 = true ∧
    w.extractLsb' 29 1 = BitVec.setWidth 1 s ∧
    (rm.v.ule 30#8 = true ∨ rm.v = 100#8) ∧
    w.extractLsb' 16 5 = (if rm.v.ule 30#8 = true then BitVec.setWidth 5 rm.v else 31#5) ∧
    w.extractLsb' 12 4 = BitVec.setWidth 4 (Cond.u32 cond) ∧
    op2.ult 2#32 = true ∧
    w.extractLsb' 10 1 = BitVec.setWidth 1 op2 ∧
    (rn.v.ule 30#8 = true ∨ rn.v = 100#8) ∧
    w.extractLsb' 5 5 = (if rn.v.ule 30#8 = true then BitVec.setWidth 5 rn.v else 31#5) ∧
    rd.v.ule 30#8 = true ∧
    w.extractLsb' 0 5 = BitVec.setWidth 5 rd.v ∧
    w &&& 534775808#32 = 444596224#32 := by
  unfold cls.csel at h
  cls_norm at h
  cases cond <;> simp only [Cond.u32, bind_ok, pure_ok, ok_ok, ex_elim, ex_elim', ex_elim_r, throw, throwThe, MonadExceptOf.throw, reduceCtorEq, false_and, exists_false, and_false] at h ⊢ <;> bv_decide (timeout := 600)

example : ∃ w, cls.csel 0#32 0#32 0#32 R17 Cond.GE 0#32 R17 R17 = .ok w := ⟨_, rfl⟩

/-- Class `dataproc1` (field placement, register-31 rule per operand, refusal): if the encoder accepts, every
operand fits its field (nothing is truncated), each field holds exactly its operand, and the remaining
bits are the opcode bits of the class.
Note: `s` is not range-checked by the code (it asserts `fits_bit(sf)` twice): hypothesis `hs`. -/
theorem dataproc1_sound (sf : BitVec 32) (s : BitVec 32) (opcode2 : BitVec 32) (opcode : BitVec 32) (rn : Register) (rd : Register) (hs : s.ult 2#32 = true) (w : BitVec 32)
    (h : cls.dataproc1 sf s opcode2 opcode rn rd = .ok w) :
    sf.ult 2#32 = true ∧
    w.extractLsb' 31 1 = BitVec.setWidth 1 sf ∧
    w.extractLsb' 29 1 = BitVec.setWidth 1 s ∧
    opcode2.ult 32#32 = true ∧
    w.extractLsb' 16 5 = BitVec.setWidth 5 opcode2 ∧
    opcode.ult 64#32 = true ∧
    w.extractLsb' 10 6 = BitVec.setWidth 6 opcode ∧
    rn.v.ule 30#8 = true ∧
    w.extractLsb' 5 5 = BitVec.setWidth 5 rn.v ∧
    rd.v.ule 30#8 = true ∧
    w.extractLsb' 0 5 = BitVec.setWidth 5 rd.v ∧
    w &&& 1608515584#32 = 1522532352#32 := by
  unfold cls.dataproc1 at h
  cls_norm at h
  bv_decide (timeout := 600)

example : ∃ w, cls.dataproc1 0#32 0#32 0#32 0#32 R17 R17 = .ok w := ⟨_, rfl⟩

/-- Class `fp_dataproc1` (field placement, register-31 rule per operand, refusal): if the encoder accepts, every
operand fits its field (nothing is truncated), each field holds exactly its operand, and the remaining
bits are the opcode bits of the class. -/
theorem fp_dataproc1_sound (m : BitVec 32) (s : BitVec 32) (ty : BitVec 32) (opcode : BitVec 32) (rn : NeonRegister) (rd : NeonRegister) (hrn : rn.v.ult 32#8 = true) (hrd : rd.v.ult 32#8 = true) (w : BitVec 32)
    (h : cls.fp_dataproc1 m s ty opcode rn rd = .ok w) :
    m = 0#32 ∧
    s = 0#32 ∧
    ty.ult 4#32 = true ∧
    w.extractLsb' 22 2 = BitVec.setWidth 2 ty ∧
    opcode.ult 64#32 = true ∧
    w.extractLsb' 15 6 = BitVec.setWidth 6 opcode ∧
    w.extractLsb' 5 5 = BitVec.setWidth 5 rn.v ∧
    w.extractLsb' 0 5 = BitVec.setWidth 5 rd.v ∧
    w &&& 4280318976#32 = 505430016#32 := by
  unfold cls.fp_dataproc1 at h
  cls_norm at h
  bv_decide (timeout := 600)

example : ∃ w, cls.fp_dataproc1 0#32 0#32 0#32 0#32 F31 F31 = .ok w := ⟨_, rfl⟩

/-- Class `fp_int` (field placement, register-31 rule per operand, refusal): if the encoder accepts, every
operand fits its field (nothing is truncated), each field holds exactly its operand, and the remaining
bits are the opcode bits of the class. -/
theorem fp_int_sound (sf : BitVec 32) (s : BitVec 32) (ty : BitVec 32) (rmode : BitVec 32) (opcode : BitVec 32) (rn : BitVec 32) (rd : BitVec 32)  (w : BitVec 32)
    (h : cls.fp_int sf s ty rmode opcode rn rd = .ok w) :
    sf.ult 2#32 = true ∧
    w.extractLsb' 31 1 = BitVec.setWidth 1 sf ∧
    s.ult 2#32 = true ∧
    w.extractLsb' 29 1 = BitVec.setWidth 1 s ∧
    ty.ult 4#32 = true ∧
    w.extractLsb' 22 2 = BitVec.setWidth 2 ty ∧
    rmode.ult 4#32 = true ∧
    w.extractLsb' 19 2 = BitVec.setWidth 2 rmode ∧
    opcode.ult 8#32 = true ∧
    w.extractLsb' 16 3 = BitVec.setWidth 3 opcode ∧
    rn.ult 32#32 = true ∧
    w.extractLsb' 5 5 = BitVec.setWidth 5 rn ∧
    rd.ult 32#32 = true ∧
    w.extractLsb' 0 5 = BitVec.setWidth 5 rd ∧
    w &&& 1595997184#32 = 505413632#32 := by
  unfold cls.fp_int at h
  cls_norm at h
  bv_decide (timeout := 600)

example : ∃ w, cls.fp_int 0#32 0#32 0#32 0#32 0#32 0#32 0#32 = .ok w := ⟨_, rfl⟩

/-- Class `ldst_pair_post` (field placement, register-31 rule per operand, refusal): if the encoder accepts, every
operand fits its field (nothing is truncated), each field holds exactly its operand, and the remaining
bits are the opcode bits of the class. -/
theorem ldst_pair_post_sound (opc : BitVec 32) (v : BitVec 32) (l : BitVec 32) (imm7 : BitVec 32) (rt2 : Register) (rn : Register) (rt : Register)  (w : BitVec 32)
    (h : cls.ldst_pair_post opc v l imm7 rt2 rn rt = .ok w) :
    opc.ult 4#32 = true ∧
    w.extractLsb' 30 2 = BitVec.setWidth 2 opc ∧
    v.ult 2#32 = true ∧
    w.extractLsb' 26 1 = BitVec.setWidth 1 v ∧
    l.ult 2#32 = true ∧
    w.extractLsb' 22 1 = BitVec.setWidth 1 l ∧
    BitVec.sle 4294967232#32 imm7 = true ∧
    BitVec.slt imm7 64#32 = true ∧
    w.extractLsb' 15 7 = BitVec.setWidth 7 imm7 ∧
    (rt2.v.ule 30#8 = true ∨ rt2.v = 100#8) ∧
    w.extractLsb' 10 5 = (if rt2.v.ule 30#8 = true then BitVec.setWidth 5 rt2.v else 31#5) ∧
    (rn.v.ule 30#8 = true ∨ rn.v = 101#8) ∧
    w.extractLsb' 5 5 = (if rn.v.ule 30#8 = true then BitVec.setWidth 5 rn.v else 31#5) ∧
    (rt.v.ule 30#8 = true ∨ rt.v = 100#8) ∧
    w.extractLsb' 0 5 = (if rt.v.ule 30#8 = true then BitVec.setWidth 5 rt.v else 31#5) ∧
    w &&& 998244352#32 = 679477248#32 := by
  unfold cls.ldst_pair_post at h
  cls_norm at h
  bv_decide (timeout := 600)

example : ∃ w, cls.ldst_pair_post 0#32 0#32 0#32 4294967295#32 R17 R17 R17 = .ok w := ⟨_, rfl⟩

/-- Class `logical_imm` (field placement, register-31 rule per operand, refusal): if the encoder accepts, every
operand fits its field (nothing is truncated), each field holds exactly its operand, and the remaining
bits are the opcode bits of the class. -/
theorem logical_imm_sound (sf : BitVec 32) (opc : BitVec 32) (n_immr_imms : BitVec 32) (rn : Register) (rd : Register)  (w : BitVec 32)
    (h : cls.logical_imm sf opc n_immr_imms rn rd = .ok w) :
    sf.ult 2#32 = true ∧
    w.extractLsb' 31 1 = BitVec.setWidth 1 sf ∧
    opc.ult 4#32 = true ∧
    w.extractLsb' 29 2 = BitVec.setWidth 2 opc ∧
    n_immr_imms.ult 8192#32 = true ∧
    w.extractLsb' 10 13 = BitVec.setWidth 13 n_immr_imms ∧
    rn.v.ule 30#8 = true ∧
    w.extractLsb' 5 5 = BitVec.setWidth 5 rn.v ∧
    rd.v.ule 30#8 = true ∧
    w.extractLsb' 0 5 = BitVec.setWidth 5 rd.v ∧
    w &&& 528482304#32 = 301989888#32 := by
  unfold cls.logical_imm at h
  cls_norm at h
  bv_decide (timeout := 600)

example : ∃ w, cls.logical_imm 0#32 0#32 0#32 R17 R17 = .ok w := ⟨_, rfl⟩

/-- Class `move_wide_imm` (field placement, register-31 rule per operand, refusal): if the encoder accepts, every
operand fits its field (nothing is truncated), each field holds exactly its operand, and the remaining
bits are the opcode bits of the class. -/
theorem move_wide_imm_sound (sf : BitVec 32) (opc : BitVec 32) (hw : BitVec 32) (imm16 : BitVec 32) (rd : Register)  (w : BitVec 32)
    (h : cls.move_wide_imm sf opc hw imm16 rd = .ok w) :
    sf.ult 2#32 = true ∧
    w.extractLsb' 31 1 = BitVec.setWidth 1 sf ∧
    opc.ult 4#32 = true ∧
    w.extractLsb' 29 2 = BitVec.setWidth 2 opc ∧
    hw.ult 4#32 = true ∧
    w.extractLsb' 21 2 = BitVec.setWidth 2 hw ∧
    imm16.ult 65536#32 = true ∧
    w.extractLsb' 5 16 = BitVec.setWidth 16 imm16 ∧
    rd.v.ule 30#8 = true ∧
    w.extractLsb' 0 5 = BitVec.setWidth 5 rd.v ∧
    w &&& 528482304#32 = 310378496#32 ∧
    (sf = 0#32 → hw.ult 2#32 = true) := by
  unfold cls.move_wide_imm at h
  cls_norm at h
  bv_decide (timeout := 600)

example : ∃ w, cls.move_wide_imm 0#32 0#32 0#32 0#32 R17 = .ok w := ⟨_, rfl⟩

/-- Class `system_cls` (field placement, register-31 rule per operand, refusal): if the encoder accepts, every
operand fits its field (nothing is truncated), each field holds exactly its operand, and the remaining
bits are the opcode bits of the class.
Note: `rt` is not range-checked by the code: hypothesis `hrt` (the only caller passes 31). -/
theorem system_cls_sound (l : BitVec 32) (op0 : BitVec 32) (op1 : BitVec 32) (crn : BitVec 32) (crm : BitVec 32) (op2 : BitVec 32) (rt : BitVec 32) (hrt : rt.ult 32#32 = true) (w : BitVec 32)
    (h : cls.system_cls l op0 op1 crn crm op2 rt = .ok w) :
    l.ult 2#32 = true ∧
    w.extractLsb' 21 1 = BitVec.setWidth 1 l ∧
    op0.ult 4#32 = true ∧
    w.extractLsb' 19 2 = BitVec.setWidth 2 op0 ∧
    op1.ult 8#32 = true ∧
    w.extractLsb' 16 3 = BitVec.setWidth 3 op1 ∧
    crn.ult 16#32 = true ∧
    w.extractLsb' 12 4 = BitVec.setWidth 4 crn ∧
    crm.ult 16#32 = true ∧
    w.extractLsb' 8 4 = BitVec.setWidth 4 crm ∧
    op2.ult 8#32 = true ∧
    w.extractLsb' 5 3 = BitVec.setWidth 3 op2 ∧
    w.extractLsb' 0 5 = BitVec.setWidth 5 rt ∧
    w &&& 4290772992#32 = 3573547008#32 := by
  unfold cls.system_cls at h
  cls_norm at h
  bv_decide (timeout := 600)

example : ∃ w, cls.system_cls 0#32 0#32 0#32 0#32 0#32 0#32 0#32 = .ok w := ⟨_, rfl⟩

end Dora.A64.C08
