import DoraModel.A64.Lemmas
/-!
# C08 — per-class encoder theorems, part %d of 4 (split only so that the parts build in parallel)

Statements generated once from the field table in /verif/tools/gen_c08_props.py (a reading of the Arm ARM
encoding diagrams), then kept by hand. Each says for one `cls::*` encoder of dora-asm/src/arm64.rs (as translated into
`DoraModel/Gen/A64.lean` on every run): accepted ⇒ every operand fits (refused, never truncated), every field holds its
operand (sp/zr rule per operand), all other bits are the class' opcode bits. Closed by `bv_decide` (32-bit facts).
-/
set_option linter.unusedSimpArgs false
namespace Dora.A64.C08
open Dora.A64

/-- Class `bitfield` (field placement, register-31 rule per operand, refusal): if the encoder accepts, every
operand fits its field (nothing is truncated), each field holds exactly its operand, and the remaining
bits are the opcode bits of the class. -/
theorem bitfield_sound (sf : BitVec 32) (opc : BitVec 32) (n : BitVec 32) (immr : BitVec 32) (imms : BitVec 32) (rn : Register) (rd : Register)  (w : BitVec 32)
    (h : cls.bitfield sf opc n immr imms rn rd = .ok w) :
    sf.ult 2#32 = true ∧
    w.extractLsb' 31 1 = BitVec.setWidth 1 sf ∧
    opc.ult 4#32 = true ∧
    w.extractLsb' 29 2 = BitVec.setWidth 2 opc ∧
    n.ult 2#32 = true ∧
    w.extractLsb' 22 1 = BitVec.setWidth 1 n ∧
    immr.ult 64#32 = true ∧
    w.extractLsb' 16 6 = BitVec.setWidth 6 immr ∧
    imms.ult 64#32 = true ∧
    (sf = 0#32 → immr.ult 32#32 = true ∧ imms.ult 32#32 = true) ∧
    w.extractLsb' 10 6 = BitVec.setWidth 6 imms ∧
    rn.v.ule 30#8 = true ∧
    w.extractLsb' 5 5 = BitVec.setWidth 5 rn.v ∧
    rd.v.ule 30#8 = true ∧
    w.extractLsb' 0 5 = BitVec.setWidth 5 rd.v ∧
    w &&& 528482304#32 = 318767104#32 := by
  unfold cls.bitfield at h
  cls_norm at h
  bv_decide (timeout := 600)

example : ∃ w, cls.bitfield 0#32 0#32 0#32 0#32 0#32 R17 R17 = .ok w := ⟨_, rfl⟩

/-- Class `cmp_branch_imm` (field placement, register-31 rule per operand, refusal): if the encoder accepts, every
operand fits its field (nothing is truncated), each field holds exactly its operand, and the remaining
bits are the opcode bits of the class. -/
theorem cmp_branch_imm_sound (sf : BitVec 32) (op : BitVec 32) (rt : Register) (imm19 : BitVec 32)  (w : BitVec 32)
    (h : cls.cmp_branch_imm sf op rt imm19 = .ok w) :
    sf.ult 2#32 = true ∧
    w.extractLsb' 31 1 = BitVec.setWidth 1 sf ∧
    op.ult 2#32 = true ∧
    w.extractLsb' 24 1 = BitVec.setWidth 1 op ∧
    rt.v.ule 30#8 = true ∧
    w.extractLsb' 0 5 = BitVec.setWidth 5 rt.v ∧
    BitVec.sle 4294705152#32 imm19 = true ∧
    BitVec.slt imm19 262144#32 = true ∧
    w.extractLsb' 5 19 = BitVec.setWidth 19 imm19 ∧
    w &&& 2113929216#32 = 872415232#32 := by
  unfold cls.cmp_branch_imm at h
  cls_norm at h
  bv_decide (timeout := 600)

example : ∃ w, cls.cmp_branch_imm 0#32 0#32 R17 4294967295#32 = .ok w := ⟨_, rfl⟩

/-- Class `dataproc2` (field placement, register-31 rule per operand, refusal): if the encoder accepts, every
operand fits its field (nothing is truncated), each field holds exactly its operand, and the remaining
bits are the opcode bits of the class. -/
theorem dataproc2_sound (sf : BitVec 32) (s : BitVec 32) (rm : Register) (opcode : BitVec 32) (rn : Register) (rd : Register)  (w : BitVec 32)
    (h : cls.dataproc2 sf s rm opcode rn rd = .ok w) :
    sf.ult 2#32 = true ∧
    w.extractLsb' 31 1 = BitVec.setWidth 1 sf ∧
    s.ult 2#32 = true ∧
    w.extractLsb' 29 1 = BitVec.setWidth 1 s ∧
    rm.v.ule 30#8 = true ∧
    w.extractLsb' 16 5 = BitVec.setWidth 5 rm.v ∧
    opcode.ult 64#32 = true ∧
    w.extractLsb' 10 6 = BitVec.setWidth 6 opcode ∧
    rn.v.ule 30#8 = true ∧
    w.extractLsb' 5 5 = BitVec.setWidth 5 rn.v ∧
    rd.v.ule 30#8 = true ∧
    w.extractLsb' 0 5 = BitVec.setWidth 5 rd.v ∧
    w &&& 1608515584#32 = 448790528#32 := by
  unfold cls.dataproc2 at h
  cls_norm at h
  bv_decide (timeout := 600)

example : ∃ w, cls.dataproc2 0#32 0#32 R17 0#32 R17 R17 = .ok w := ⟨_, rfl⟩

/-- Class `fp_compare` (field placement, register-31 rule per operand, refusal): if the encoder accepts, every
operand fits its field (nothing is truncated), each field holds exactly its operand, and the remaining
bits are the opcode bits of the class. -/
theorem fp_compare_sound (m : BitVec 32) (s : BitVec 32) (ty : BitVec 32) (rm : NeonRegister) (op : BitVec 32) (rn : NeonRegister) (opcode2 : BitVec 32) (hrm : rm.v.ult 32#8 = true) (hrn : rn.v.ult 32#8 = true) (w : BitVec 32)
    (h : cls.fp_compare m s ty rm op rn opcode2 = .ok w) :
    m = 0#32 ∧
    s = 0#32 ∧
    ty.ult 2#32 = true ∧
    w.extractLsb' 22 1 = BitVec.setWidth 1 ty ∧
    w.extractLsb' 16 5 = BitVec.setWidth 5 rm.v ∧
    op.ult 4#32 = true ∧
    w.extractLsb' 14 2 = BitVec.setWidth 2 op ∧
    w.extractLsb' 5 5 = BitVec.setWidth 5 rn.v ∧
    opcode2.ult 32#32 = true ∧
    w.extractLsb' 0 5 = BitVec.setWidth 5 opcode2 ∧
    w &&& 4288691200#32 = 505421824#32 := by
  unfold cls.fp_compare at h
  cls_norm at h
  bv_decide (timeout := 600)

example : ∃ w, cls.fp_compare 0#32 0#32 0#32 F31 0#32 F31 0#32 = .ok w := ⟨_, rfl⟩

/-- Class `ldst_pair` (field placement, register-31 rule per operand, refusal): if the encoder accepts, every
operand fits its field (nothing is truncated), each field holds exactly its operand, and the remaining
bits are the opcode bits of the class.
Note: `v` is checked to be one bit but NOT placed (bit 26 stays 0): see `ldst_pair_drops_v`; every public method passes 0. -/
theorem ldst_pair_sound (opc : BitVec 32) (v : BitVec 32) (l : BitVec 32) (imm7 : BitVec 32) (rt2 : Register) (rn : Register) (rt : Register)  (w : BitVec 32)
    (h : cls.ldst_pair opc v l imm7 rt2 rn rt = .ok w) :
    opc.ult 4#32 = true ∧
    w.extractLsb' 30 2 = BitVec.setWidth 2 opc ∧
    v.ult 2#32 = true ∧
    l.ult 2#32 = true ∧
    w.extractLsb' 22 1 = BitVec.setWidth 1 l ∧
    BitVec.sle 4294967232#32 imm7 = true ∧
    BitVec.slt imm7 64#32 = true ∧
    w.extractLsb' 15 7 = BitVec.setWidth 7 imm7 ∧
    rt2.v.ule 30#8 = true ∧
    w.extractLsb' 10 5 = BitVec.setWidth 5 rt2.v ∧
    (rn.v.ule 30#8 = true ∨ rn.v = 101#8) ∧
    w.extractLsb' 5 5 = (if rn.v.ule 30#8 = true then BitVec.setWidth 5 rn.v else 31#5) ∧
    rt.v.ule 30#8 = true ∧
    w.extractLsb' 0 5 = BitVec.setWidth 5 rt.v ∧
    w &&& 1065353216#32 = 687865856#32 := by
  unfold cls.ldst_pair at h
  cls_norm at h
  bv_decide (timeout := 600)

example : ∃ w, cls.ldst_pair 0#32 0#32 0#32 4294967295#32 R17 R17 R17 = .ok w := ⟨_, rfl⟩

/-- Class `ldst_regoffset` (field placement, register-31 rule per operand, refusal): if the encoder accepts, every
operand fits its field (nothing is truncated), each field holds exactly its operand, and the remaining
bits are the opcode bits of the class. -/
theorem ldst_regoffset_sound (size : BitVec 32) (v : BitVec 32) (opc : BitVec 32) (rm : Register) (option : Extend) (s : BitVec 32) (rn : Register) (rt : BitVec 32)  (w : BitVec 32)
    (h : cls.ldst_regoffset size v opc rm option s rn rt = .ok w) :
    size.ult 4#32 = true ∧
    w.extractLsb' 30 2 = BitVec.setWidth 2 size ∧
    v.ult 2#32 = true ∧
    w.extractLsb' 26 1 = BitVec.setWidth 1 v ∧
    opc.ult 4#32 = true ∧
    w.extractLsb' 22 2 = BitVec.setWidth 2 opc ∧
    (rm.v.ule 30#8 = true ∨ rm.v = 100#8) ∧
    w.extractLsb' 16 5 = (if rm.v.ule 30#8 = true then BitVec.setWidth 5 rm.v else 31#5) ∧
    Extend.ldst_encoding option = .ok (BitVec.setWidth 32 (w.extractLsb' 13 3)) ∧
    s.ult 2#32 = true ∧
    w.extractLsb' 12 1 = BitVec.setWidth 1 s ∧
    (rn.v.ule 30#8 = true ∨ rn.v = 101#8) ∧
    w.extractLsb' 5 5 = (if rn.v.ule 30#8 = true then BitVec.setWidth 5 rn.v else 31#5) ∧
    rt.ult 32#32 = true ∧
    w.extractLsb' 0 5 = BitVec.setWidth 5 rt ∧
    w &&& 991955968#32 = 941623296#32 := by
  unfold cls.ldst_regoffset at h
  cls_norm at h
  cases option <;> simp only [Extend.ldst_encoding, bind_ok, pure_ok, ok_ok, ex_elim, ex_elim', ex_elim_r, throw, throwThe, MonadExceptOf.throw, reduceCtorEq, false_and, exists_false, and_false] at h ⊢ <;> bv_decide (timeout := 600)

example : ∃ w, cls.ldst_regoffset 0#32 0#32 0#32 R17 Extend.SXTW 0#32 R17 0#32 = .ok w := ⟨_, rfl⟩

/-- Class `logical_shreg` (field placement, register-31 rule per operand, refusal): if the encoder accepts, every
operand fits its field (nothing is truncated), each field holds exactly its operand, and the remaining
bits are the opcode bits of the class.
Note: the code accepts shift amounts 0..31 only (`fits_u5`), also for the 64-bit form: stricter than the architecture. -/
theorem logical_shreg_sound (sf : BitVec 32) (opc : BitVec 32) (shift : Shift) (n : BitVec 32) (rm : Register) (imm6 : BitVec 32) (rn : Register) (rd : Register)  (w : BitVec 32)
    (h : cls.logical_shreg sf opc shift n rm imm6 rn rd = .ok w) :
    sf.ult 2#32 = true ∧
    w.extractLsb' 31 1 = BitVec.setWidth 1 sf ∧
    opc.ult 4#32 = true ∧
    w.extractLsb' 29 2 = BitVec.setWidth 2 opc ∧
    w.extractLsb' 22 2 = BitVec.setWidth 2 (Shift.u32 shift) ∧
    n.ult 2#32 = true ∧
    w.extractLsb' 21 1 = BitVec.setWidth 1 n ∧
    (rm.v.ule 30#8 = true ∨ rm.v = 100#8) ∧
    w.extractLsb' 16 5 = (if rm.v.ule 30#8 = true then BitVec.setWidth 5 rm.v else 31#5) ∧
    imm6.ult 32#32 = true ∧
    w.extractLsb' 10 6 = BitVec.setWidth 6 imm6 ∧
    (rn.v.ule 30#8 = true ∨ rn.v = 100#8) ∧
    w.extractLsb' 5 5 = (if rn.v.ule 30#8 = true then BitVec.setWidth 5 rn.v else 31#5) ∧
    rd.v.ule 30#8 = true ∧
    w.extractLsb' 0 5 = BitVec.setWidth 5 rd.v ∧
    w &&& 520093696#32 = 167772160#32 := by
  unfold cls.logical_shreg at h
  cls_norm at h
  cases shift <;> simp only [Shift.u32, bind_ok, pure_ok, ok_ok, ex_elim, ex_elim', ex_elim_r, throw, throwThe, MonadExceptOf.throw, reduceCtorEq, false_and, exists_false, and_false] at h ⊢ <;> bv_decide (timeout := 600)

example : ∃ w, cls.logical_shreg 0#32 0#32 Shift.ASR 0#32 R17 0#32 R17 R17 = .ok w := ⟨_, rfl⟩

/-- Class `system` (field placement, register-31 rule per operand, refusal): if the encoder accepts, every
operand fits its field (nothing is truncated), each field holds exactly its operand, and the remaining
bits are the opcode bits of the class. -/
theorem system_sound (imm : BitVec 32)  (w : BitVec 32)
    (h : cls.system imm = .ok w) :
    imm.ult 128#32 = true ∧
    w.extractLsb' 5 7 = BitVec.setWidth 7 imm ∧
    w &&& 4294963231#32 = 3573751839#32 := by
  unfold cls.system at h
  cls_norm at h
  bv_decide (timeout := 600)

example : ∃ w, cls.system 5#32 = .ok w := ⟨_, rfl⟩

end Dora.A64.C08
