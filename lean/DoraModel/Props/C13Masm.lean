import DoraModel.X64.MasmLemmasAlloc
/-!
# C13 / C02 / C03, machine leg — the baseline generator's allocation-size and header sequences

Same setting as `Props/C01Masm.lean`: `Dora.Masm.determine_array_size` and `Dora.Masm.compute_remembered_bit` are REGENERATED on
every run from `dora-cannon-compiler/src/masm/x64.rs` (constants `LARGE_OBJECT_SIZE`, `REMEMBERED_BIT_SHIFT` from
`dora-compiler/src/abi.rs`) by `tools/rs2lean_masm.py`; `Dora.X64.Sem.exec` is the validated micro-semantics.

* the size sequence computes, for EVERY 64-bit length, every element size 1 … 2^31−1 and with/without header, exactly
  `(header + length·es + 7) & !7` in 64-bit wrap-around arithmetic — all five code shapes (`lea` with scale 1/2/4 + `and`, `lea` with
  scale 8 and no `and`, `mov/imul/add/mov/and`);
* that value IS `Dora.Alloc.cannonSize` — the hand-written model `Props/C13.lean` reasons about — so C13's theorems
  ("refused, or the exact aligned size, equal to what the runtime computes") are statements about the emitted code;
* where nothing wraps it is the mathematically exact 8-byte-aligned size, the `determine_array_size` of the runtime (`runtimeSize`);
* the remembered-bit sequence sets bit 33 iff the runtime's own rule (`Swiper::initial_metadata_value`, hand model
  `Dora.Runtime.initialMetadata`, compared with the Rust text on every run) says "remembered", i.e. iff the object is NOT
  allocated in the large-object space (`Swiper::alloc_object`).
-/
set_option linter.unusedSimpArgs false
set_option linter.unusedVariables false
namespace Dora.Masm.PropsAlloc
open Dora.X64.Sem Dora.Masm Dora.Masm.Spec

/-- C13/C02: `MacroAssembler::determine_array_size(dest, length, es, with_header)`, run from ANY state, for every 64-bit content of
    `length` and every element size `0 < es < 2^31` (an `i32`), ends in `done` with
    `dest = (header_size + length·es + 7) & !7` computed in 64-bit wrap-around arithmetic (`arraySize`; `header_size` = 16 or 0),
    whichever of the five instruction shapes the element size selects. Only `dest` and, in the `imul` shape, the scratch register
    `rdi` (and flags) change. Precondition of the `imul` shape: `length` is not the scratch register `rdi` (codegen passes
    `length = r13`, `dest = r14` resp. `dest = length = r13`). -/
theorem determine_array_size_computes (dest length : Reg) (es : Nat) (hdr : Bool) (s : State)
    (hes : 0 < es) (hes2 : es < 2 ^ 31) (hal : ¬(es = 1 ∨ es = 2 ∨ es = 4 ∨ es = 8) → length ≠ RDI) :
    ∃ prog, assemble (determine_array_size dest length (es : Int) hdr) = .ok prog ∧
      ∃ s', exec prog s = .done s' ∧ s'.get dest = arraySize hdr (s.get length) es ∧ sameExcept [dest, RDI] s s' := by
  by_cases h1 : es = 1
  · subst h1
    refine ⟨_, prog_array_size_1 .., ?_⟩
    cases hdr <;> masm_sim [arraySize, hdrSize] <;> masm_fin
  by_cases h2 : es = 2
  · subst h2
    refine ⟨_, prog_array_size_2 .., ?_⟩
    cases hdr <;> masm_sim [arraySize, hdrSize] <;> masm_fin
  by_cases h4 : es = 4
  · subst h4
    refine ⟨_, prog_array_size_4 .., ?_⟩
    cases hdr <;> masm_sim [arraySize, hdrSize] <;> masm_fin
  by_cases h8 : es = 8
  · subst h8
    refine ⟨_, prog_array_size_8 .., ?_⟩
    cases hdr <;> masm_sim [arraySize, hdrSize] <;>
      first | exact ⟨aligned8_hdr _, fun r h1 _ h3 => absurd h3 h1⟩ | exact ⟨aligned8_nohdr _, fun r h1 _ h3 => absurd h3 h1⟩
  · have hl := hal (by omega)
    refine ⟨_, prog_array_size_mul _ _ _ _ (by omega) (by omega) (by omega) (by omega) (by omega), ?_⟩
    have hf := fitsI64_natCast es (by omega)
    cases hdr <;> masm_sim [arraySize, hdrSize, hf, hl, Ne.symm hl, BitVec.mul_comm] <;> masm_fin

/-- non-vacuity: a 12-byte element (the `imul` shape) with codegen's registers; odd length 3 needs 16 + 36 = 52 → 56 bytes -/
example : (0 < 12 ∧ 12 < 2 ^ 31) ∧ (¬(12 = 1 ∨ 12 = 2 ∨ 12 = 4 ∨ 12 = 8) → R13 ≠ RDI) ∧ arraySize true 3#64 12 = 56#64 := by decide

/-- C13: the value the emitted sequence computes (with header) is exactly `Dora.Alloc.cannonSize`, the model of
    `determine_array_size` that `Props/C13.lean` reasons about — for every length and element size (the `es = 8` shape omits the
    `and`, which is sound because `8·len + 16` is already a multiple of 8). So `C13.cannon_exact_or_refused` etc. speak about the
    regenerated code. -/
theorem arraySize_eq_cannonSize (len : BitVec 64) (es : Nat) :
    arraySize true len es = Dora.Alloc.cannonSize len es := by
  unfold arraySize Dora.Alloc.cannonSize hdrSize Dora.Alloc.arrayHeader
  by_cases h8 : es = 8
  · subst h8; simp only [↓reduceIte]; exact (aligned8_hdr len).symm
  · simp only [h8, ↓reduceIte]

/-- non-vacuity: both shapes of `cannonSize` -/
example : Dora.Alloc.cannonSize 3#64 12 = 56#64 ∧ Dora.Alloc.cannonSize 3#64 8 = 40#64 := by decide

/-- C13/C02: where the 64-bit computation does not wrap (`header + len·es + 7 < 2^64`, which the range check in front of the
    allocation guarantees), the computed value is the mathematically exact size rounded UP to a multiple of 8, and with header it is
    the size the RUNTIME computes for the same array (`determine_array_size` of dora-runtime/src/mirror.rs: `runtimeSize`), so heap
    walks stay in step with what was allocated. -/
theorem arraySize_exact_when_no_wrap (hdr : Bool) (len : BitVec 64) (es : Nat)
    (h : hdrSize hdr + len.toNat * es + 7 < 2 ^ 64) :
    (arraySize hdr len es).toNat = Dora.Alloc.align8 (hdrSize hdr + len.toNat * es) ∧
    (hdr = true → (arraySize hdr len es).toNat = Dora.Alloc.runtimeSize len.toNat es) := by
  have hes : es % 2 ^ 64 = es ∨ len.toNat = 0 := by
    by_cases h0 : len.toNat = 0
    · exact Or.inr h0
    · left; apply Nat.mod_eq_of_lt
      have : 1 * es ≤ len.toNat * es := Nat.mul_le_mul_right _ (by omega)
      omega
  have hmul : (len * BitVec.ofNat 64 es).toNat = len.toNat * es := by
    rw [BitVec.toNat_mul, BitVec.toNat_ofNat]
    rcases hes with h1 | h1
    · rw [h1]; exact Nat.mod_eq_of_lt (by omega)
    · rw [h1]; simp
  have hh : hdrSize hdr ≤ 16 := by unfold hdrSize; split <;> omega
  have hraw : (len * BitVec.ofNat 64 es + BitVec.ofNat 64 (hdrSize hdr + 7)).toNat = hdrSize hdr + len.toNat * es + 7 := by
    rw [BitVec.toNat_add, hmul, BitVec.toNat_ofNat]; omega
  have h1 : (arraySize hdr len es).toNat = Dora.Alloc.align8 (hdrSize hdr + len.toNat * es) := by
    unfold arraySize; rw [Dora.Alloc.and_neg8, hraw]; rfl
  refine ⟨h1, fun ht => ?_⟩
  subst ht
  rw [h1]; unfold Dora.Alloc.runtimeSize hdrSize Dora.Alloc.arrayHeader; rw [Nat.mul_comm]; rfl

/-- non-vacuity: 5 tuples of 12 bytes: 16 + 60 = 76 → 80, as the runtime says -/
example : hdrSize true + (5#64).toNat * 12 + 7 < 2 ^ 64 ∧ Dora.Alloc.runtimeSize 5 12 = 80 := by decide

/-- C03: `MacroAssembler::compute_remembered_bit(dest, size)`, for every 64-bit `size`: `dest` becomes the remembered bit of the
    header word (`(is_remembered as usize) << REMEMBERED_BIT_SHIFT`) for exactly the `is_remembered` that the RUNTIME's rule
    `Swiper::initial_metadata_value(size, false)` yields, and that is "remembered iff the object is not allocated in the
    large-object space" (`Swiper::alloc_object`): set for `size < LARGE_OBJECT_SIZE`, clear for `size ≥ LARGE_OBJECT_SIZE`
    (unsigned). Only `dest` (and flags) change. Precondition: `dest ≠ size` (`initialize_array_header` passes a scratch register
    and `size_reg = r14`). -/
theorem compute_remembered_bit_matches_runtime (dest size : Reg) (s : State) (hal : dest ≠ size) :
    ∃ prog, assemble (compute_remembered_bit dest size) = .ok prog ∧
      ∃ s', exec prog s = .done s' ∧
        (∃ marked remembered, Dora.Runtime.initialMetadata (s.get size).toNat false = some (marked, remembered) ∧
          remembered = !Dora.Runtime.allocatedLarge (s.get size).toNat ∧
          s'.get dest = Dora.Runtime.rememberedWord remembered) ∧
        sameExcept [dest] s s' := by
  refine ⟨_, prog_remembered .., ?_⟩
  obtain ⟨s', h1, h2, h3⟩ := remembered_sim dest size s hal
  refine ⟨s', h1, ⟨false, decide ((s.get size).toNat < Dora.Runtime.largeObjectSize), ?_, ?_, h2⟩, h3⟩
  · unfold Dora.Runtime.initialMetadata
    by_cases h : (s.get size).toNat < Dora.Runtime.largeObjectSize <;> simp [h]
  · simp [Dora.Runtime.allocatedLarge]

/-- non-vacuity: 32767 bytes are remembered (bit 33), exactly 32768 bytes are a large object and are not -/
example : RDI ≠ R14 ∧ Dora.Runtime.initialMetadata 32767 false = some (false, true) ∧
    Dora.Runtime.initialMetadata 32768 false = some (false, false) ∧ Dora.Runtime.allocatedLarge 32768 = true ∧
    Dora.Runtime.rememberedWord true = 0x200000000#64 := by decide

end Dora.Masm.PropsAlloc
