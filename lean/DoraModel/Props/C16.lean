import DoraModel.Syntax.LexLemmas
import DoraModel.Syntax.TreeLemmas
import DoraModel.Syntax.CoreLemmas
/-!
# C16 — The syntax tree loses nothing of the text

Property theorems only (helper lemmas: `DoraModel/Syntax/*Lemmas.lean`).
Text = `List Char`; offsets and lengths are UTF-8 byte counts (`utf8Len`).
-/
namespace Dora.Syntax.C16
open Dora.Syntax TokenKind

/-- "the lexer partitions the text: each token starts where the previous one ended" and never loops.
For every text the token loop ends within its bound (one token eats at least one character), and if it
returns, the text is cut into non-empty pieces `texts` — one per token, concatenating to the input,
whitespace, comments and erroneous parts included — such that `starts` are exactly the byte offsets at
which the pieces begin (so: first start 0, strictly increasing, every start on a character boundary);
`kinds` has one entry per piece plus the final `EOF`, and no other entry is `EOF` or a node kind. -/
theorem lex_partition (cs : List Char) :
    lex cs ≠ .error .outOfFuel ∧
    ∀ r, lex cs = .ok r →
      ∃ texts : List (List Char),
        texts.flatten = cs ∧ (∀ t ∈ texts, t ≠ []) ∧ r.starts = offsetsFrom 0 texts ∧
        r.kinds.length = texts.length + 1 ∧ r.kinds.getLast? = some EOF ∧
        (∀ k ∈ r.kinds.dropLast, k.toNat < EOF.toNat) := by
  have hspec := lexLoop_spec (utf8Len cs) cs.length (LState.init cs) [] [] []
    (by simp [Inv, LState.init]) (by simp [LState.init]) (by simp [LState.init, utf8Len])
    (by simp [offsetsFrom]) (by simp) (by simp) (by simp [LState.init]) _ rfl
  unfold lex
  cases hl : lexLoop cs.length (LState.init cs) [] [] with
  | error e =>
    rw [hl] at hspec
    refine ⟨?_, by intro r h; cases h⟩
    intro h
    cases h
    exact hspec.1 rfl
  | ok p =>
    obtain ⟨s', ks', ss'⟩ := p
    rw [hl] at hspec
    refine ⟨by simp, ?_⟩
    intro r h
    cases h
    obtain ⟨texts, h1, h2, h3, h4, h5, _⟩ := hspec.2 s' ks' ss' rfl
    refine ⟨texts, by simpa [LState.init] using h1.symm, h2, h3, ?_, by simp, ?_⟩
    · have : ss'.length = texts.length := by
        have := congrArg List.length h3
        simpa [offsetsFrom_length] using this
      simp [h4, this]
    · intro k hk
      simp only [List.reverse_cons, List.dropLast_concat, List.mem_reverse] at hk
      exact h5 k hk

/-- Consequence in the words of the property: token starts begin at 0, are strictly increasing
(no empty token, no overlap) and lie inside the text. -/
theorem lex_starts_strict (cs : List Char) (r : LexResult) (h : lex cs = .ok r) :
    r.starts.Pairwise (· < ·) ∧ (∀ x ∈ r.starts, x < utf8Len cs) ∧ (cs ≠ [] → r.starts.head? = some 0) := by
  obtain ⟨texts, h1, h2, h3, _⟩ := (lex_partition cs).2 r h
  rw [h3, ← h1]
  have := offsetsFrom_strict 0 texts h2
  refine ⟨this.1, fun x hx => by have := this.2 x hx; omega, ?_⟩
  intro hne
  cases texts with
  | nil => simp at hne
  | cons t ts => simp [offsetsFrom]

/-- "every reported error span lies inside the text" — lexer errors. -/
theorem lex_error_spans_in_range (cs : List Char) (r : LexResult) (h : lex cs = .ok r) :
    ∀ e ∈ r.errors, e.start + e.len ≤ utf8Len cs := by
  have hspec := lexLoop_spec (utf8Len cs) cs.length (LState.init cs) [] [] []
    (by simp [Inv, LState.init]) (by simp [LState.init]) (by simp [LState.init, utf8Len])
    (by simp [offsetsFrom]) (by simp) (by simp) (by simp [LState.init]) _ rfl
  unfold lex at h
  cases hl : lexLoop cs.length (LState.init cs) [] [] with
  | error e => rw [hl] at h; cases h
  | ok p =>
    obtain ⟨s', ks', ss'⟩ := p
    rw [hl] at h hspec
    cases h
    obtain ⟨_, _, _, _, _, _, h6⟩ := hspec.2 s' ks' ss' rfl
    intro e he
    exact h6 e (by simpa using he)

/-- non-vacuity: a text with a multi-byte character, a CRLF, an unterminated template and an unknown char -/
example : lex ['l', 'e', 't', ' ', 'é', '\r', '\n', '"', 'a', '$', '{', 'x'] =
    .ok { kinds := [LET_KW, WHITESPACE, UNKNOWN, NEWLINE, TEMPLATE_LITERAL, IDENTIFIER, EOF],
          starts := [0, 3, 4, 6, 8, 12],
          errors := [⟨4, 2, .unknownChar 'é'⟩] } := by rfl


/-- The lexer's output is a token table in the sense of `TokTable` (the hypothesis of the tree theorems):
so everything below holds for `build_tree` run on what `lex` returns. -/
theorem lex_tokTable (cs : List Char) (r : LexResult) (h : lex cs = .ok r) :
    ∃ texts, TokTable cs r.kinds.toArray r.starts.toArray texts := by
  obtain ⟨texts, h1, h2, h3, h4, _⟩ := (lex_partition cs).2 r h
  exact ⟨texts, ⟨h1, h2, by simpa using h3, by simpa using h4⟩⟩

/-- "Parsing any text yields a tree whose tokens, concatenated in order, reproduce the text byte for byte …
Every node's length is the sum of its children's, node and token spans tile the file without gap or overlap."
For EVERY event list (whatever the grammar code did): if `build_tree` returns a root at all, then
* `root.text = content` — the concatenated token texts are the input;
* `root.leaves` are exactly the lexed tokens, each once, in order (kind and text; `EOF` is not in the tree);
* `root.LenOk` — every node's stored length is the sum of its children's lengths; under the red tree's
  offset rule (`Green.spans`: a child starts where its previous sibling ends) this is the statement that
  the children's spans tile their node's span;
* the token spans computed by that rule from the stored lengths are the lexer's token spans
  `pieceSpans 0 texts`, which tile `[0, len)` by `lex_partition`. -/
theorem build_lossless (content : List Char) (kinds : Array TokenKind) (starts : Array Nat)
    (texts : List (List Char)) (hT : TokTable content kinds starts texts)
    (events : List Event) (root : Green) (h : buildTree content kinds starts events = some root) :
    root.text = content ∧ root.leaves = kinds.toList.zip texts ∧ root.LenOk ∧
    root.tokenSpans 0 = pieceSpans 0 texts := by
  unfold buildTree at h
  split at h
  · split at h
    · rename_i b idx hloop
      have hinv := buildLoop_inv hT events.dropLast ([], 0) ([b], idx)
        ⟨Nat.zero_le _, by simp, by simp [stackLeaves]⟩ hloop
      obtain ⟨hidx, hok, hleaves⟩ := hinv
      dsimp only at h
      split at h
      · rename_i hlen
        simp only [Option.some.injEq] at h
        subst h
        have hb := hok b (by simp)
        have hrootOk : (buildGreenNode b).LenOk := by
          simp only [buildGreenNode, Green.LenOk]; exact hb
        have hl : (buildGreenNode b).leaves = (kinds.toList.zip texts).take idx := by
          simpa [stackLeaves, NodeBuilder.leaves, buildGreenNode, Green.leaves] using hleaves
        have htake : ((kinds.toList.zip texts).take idx).map (·.2) = texts.take idx := by
          rw [List.map_take, List.map_snd_zip]
          have := hT.kinds_len
          simp only [Array.length_toList]; omega
        have htext : (buildGreenNode b).text = (texts.take idx).flatten := by
          rw [Green.text_eq_leaves, hl, htake]
        -- all tokens were consumed: the root is as long as the text and no token is empty
        have hfull : idx = texts.length := by
          apply take_full_of_len hT.ne idx hidx
          rw [← htext, ← Green.len_eq_of_lenOk _ hrootOk, hlen, hT.flat]
        have hzip : (kinds.toList.zip texts).take idx = kinds.toList.zip texts := by
          apply List.take_of_length_le
          simp only [List.length_zip, Array.length_toList, hfull]
          exact Nat.min_le_right _ _
        refine ⟨?_, ?_, hrootOk, ?_⟩
        · rw [htext, hfull, List.take_length, hT.flat]
        · rw [hl, hzip]
        · rw [Green.tokenSpans_eq _ 0 hrootOk, hl, htake, hfull, List.take_length]
      · exact absurd h (by simp)
    · exact absurd h (by simp)
  · exact absurd h (by simp)

/-- non-vacuity: `fn f` + trailing comment; one `Open` carrying two kinds, nested close, all four conclusions
are about this concrete tree -/
example :
    let content := ['f', 'n', ' ', 'é', '/', '/', 'c']
    let kinds : Array TokenKind := #[FN_KW, WHITESPACE, UNKNOWN, LINE_COMMENT, EOF]
    let starts : Array Nat := #[0, 2, 3, 5]
    buildTree content kinds starts
        [.open [ELEMENT_LIST], .open [ERROR_ELEM, FUNCTION], .advance, .advance, .close, .advance, .close,
         .advance, .close]
      = some (.node ELEMENT_LIST
          [.node FUNCTION [.node ERROR_ELEM [.token FN_KW ['f', 'n'], .token WHITESPACE [' ']] 3,
                           .token UNKNOWN ['é']] 5,
           .token LINE_COMMENT ['/', '/', 'c']] 8) := by
  rfl

example : TokTable ['f', 'n', ' ', 'é', '/', '/', 'c'] #[FN_KW, WHITESPACE, UNKNOWN, LINE_COMMENT, EOF]
    #[0, 2, 3, 5] [['f', 'n'], [' '], ['é'], ['/', '/', 'c']] :=
  ⟨rfl, by simp, by rfl, rfl⟩


/-- The lexer's `kinds` end in the only `EOF` (hypothesis `EofLast` of `core_protocol`). -/
theorem lex_eofLast (cs : List Char) (r : LexResult) (h : lex cs = .ok r) :
    ∃ texts, TokTable cs r.kinds.toArray r.starts.toArray texts ∧ EofLast r.kinds.toArray texts.length := by
  obtain ⟨texts, h1, h2, h3, h4, h5, h6⟩ := (lex_partition cs).2 r h
  refine ⟨texts, ⟨h1, h2, by simpa using h3, by simpa using h4⟩, ?_, ?_⟩
  · have : r.kinds ≠ [] := by intro e; rw [e] at h4; simp at h4
    rw [List.getLast?_eq_getElem?] at h5
    simpa [h4] using h5
  · intro i hi
    have hlt : i < r.kinds.dropLast.length := by simp [h4]; exact hi
    have hget : r.kinds[i]? = some (r.kinds.dropLast[i]) := by
      rw [List.getElem_dropLast]
      exact List.getElem?_eq_getElem (by omega)
    have hk := h6 _ (List.getElem_mem hlt)
    constructor
    · simp only [List.getElem?_toArray, hget, ne_eq, Option.some.injEq]
      intro e; rw [e] at hk; exact absurd hk (Nat.lt_irrefl _)
    · simp [hget]

/-- "every lexed token, trivia included, is advanced exactly once" — for EVERY grammar.
`parse_file` is `open; skip_trivia; <client>; advance_by_all_trivia; close(m, ELEMENT_LIST)`; the client
(the grammar routines, error recovery included) is an arbitrary list of core operations that never
closes the root marker (`ClientOk`: it never gets hold of it). If no core operation panics and the
client stops at `EOF` (the `while !self.is_eof()` loop of `parse_file` ended), then
* the number of `Advance` events is the number of tokens, nothing is left in `leading`;
* `build_tree` accepts the event list (no missing node, no missing parent, one root, length check passes);
* and the tree is lossless in the sense of `build_lossless`.
So no recovery decision of the grammar — which tokens go into which node — can lose or duplicate text. -/
theorem core_protocol (content : List Char) (kinds : Array TokenKind) (starts : Array Nat)
    (texts : List (List Char)) (hT : TokTable content kinds starts texts) (he : EofLast kinds texts.length)
    (client : List Op) (hc : ClientOk client) (s1 s : PState)
    (h1 : runOps (PState.init content kinds starts) ([.open, .skipTrivia] ++ client) = .ok s1)
    (heof : s1.isEof = true)
    (h2 : runOps s1 [.advanceByAllTrivia, .close 0 ELEMENT_LIST] = .ok s) :
    advCount s.events.toList = texts.length ∧ s.leading = 0 ∧
    ∃ root, buildTree content kinds starts s.events.toList = some root ∧
      root.text = content ∧ root.leaves = kinds.toList.zip texts ∧ root.LenOk ∧
      root.tokenSpans 0 = pieceSpans 0 texts := by
  -- prologue: after `open` the invariant holds
  have h0 : CInv content kinds starts texts.length (PState.init content kinds starts).open.1 :=
    ⟨rfl, rfl, rfl, rfl, Nat.zero_le _, rfl, rfl⟩
  have hs1 : CInv content kinds starts texts.length s1 := by
    simp only [List.cons_append, List.nil_append, runOps, stepOp] at h1
    exact runOps_inv (.skipTrivia :: client) (fun m k hm => hc m k (by simpa using hm)) h0 he h1
  have hidx : s1.tokenIdx = texts.length := (current_eof_of_idx hs1 he).mp (by simpa [PState.isEof] using heof)
  -- epilogue
  simp only [runOps, stepOp] at h2
  have hs2 := allTrivia_inv hs1
  have hl2 : s1.advanceByAllTrivia.leading = 0 := by
    unfold PState.advanceByAllTrivia; split <;> simp_all <;> omega
  have hi2 : s1.advanceByAllTrivia.tokenIdx = texts.length := by
    unfold PState.advanceByAllTrivia; split <;> simp_all
  generalize s1.advanceByAllTrivia = s2 at h2 hs2 hl2 hi2
  split at h2
  · rename_i s3 h3
    cases h2
    -- unfold `close 0 ELEMENT_LIST` on a state with `leading = 0`
    unfold PState.close at h3
    obtain ⟨rest, hrest⟩ : ∃ rest, s2.events.toList = .open [] :: rest := by
      have := hs2.root
      cases hl : s2.events.toList with
      | nil => rw [hl] at this; simp at this
      | cons e es => rw [hl] at this; simp at this; exact ⟨es, by rw [this]⟩
    have hget : s2.events[0]? = some (.open []) := by
      have : s2.events.toList[0]? = some (.open []) := by rw [hrest]; rfl
      simpa using this
    rw [hget] at h3
    dsimp only at h3
    unfold PState.advanceByTrailingTrivia at h3
    simp only [hl2, if_true] at h3
    cases h3
    have hev : (s2.events.setIfInBounds 0 (.open ([] ++ [ELEMENT_LIST]))).toList = .open [ELEMENT_LIST] :: rest := by
      simp [Array.toList_setIfInBounds, hrest]
    have hall : ((s2.events.setIfInBounds 0 (.open ([] ++ [ELEMENT_LIST]))).push .close).toList
        = (.open [ELEMENT_LIST] :: rest) ++ [.close] := by
      rw [Array.toList_push, hev]
    have hcount : advCount rest = texts.length := by
      have := hs2.count
      rw [hrest, hl2, hi2] at this
      simpa [advCount] using this
    have hbal : scan 2 1 1 rest = some 1 := by
      have := hs2.bal
      rw [hrest] at this
      simp only [scan, List.length_nil, Nat.add_zero] at this
      exact scan_shift 1 0 0 0 (Nat.le_refl _) rest this
    refine ⟨?_, rfl, ?_⟩
    · show advCount ((s2.events.setIfInBounds 0 (.open ([] ++ [ELEMENT_LIST]))).push .close).toList = texts.length
      rw [hall, advCount_append]
      simp [advCount, hcount]
    · show ∃ root, buildTree content kinds starts
          ((s2.events.setIfInBounds 0 (.open ([] ++ [ELEMENT_LIST]))).push .close).toList = some root ∧ _
      rw [hall]
      -- the builder accepts the list
      obtain ⟨st', hloop, hlen⟩ := buildLoop_ok hT (.open [ELEMENT_LIST] :: rest) [] 0 1
        (by simpa [scan] using hbal) (by simp [advCount, hcount])
      match st', hlen with
      | [b], _ =>
        have hadv0 : 0 + advCount (Event.open [ELEMENT_LIST] :: rest) = texts.length := by simp [advCount, hcount]
        rw [hadv0] at hloop
        have hinv := buildLoop_inv hT _ ([], 0) ([b], texts.length)
          ⟨Nat.zero_le _, by simp, by simp [stackLeaves]⟩ hloop
        obtain ⟨_, hok, hleaves⟩ := hinv
        have hb := hok b (by simp)
        have hrootOk : (buildGreenNode b).LenOk := by
          simp only [buildGreenNode, Green.LenOk]; exact hb
        have hl : (buildGreenNode b).leaves = (kinds.toList.zip texts).take texts.length := by
          simpa [stackLeaves, NodeBuilder.leaves, buildGreenNode, Green.leaves] using hleaves
        have htake : ((kinds.toList.zip texts).take texts.length).map (·.2) = texts := by
          rw [List.map_take, List.map_snd_zip, List.take_length]
          have := hT.kinds_len
          simp only [Array.length_toList]; omega
        have hlenroot : (buildGreenNode b).len = utf8Len content := by
          rw [Green.len_eq_of_lenOk _ hrootOk, Green.text_eq_leaves, hl, htake, hT.flat]
        have hbt : buildTree content kinds starts ((Event.open [ELEMENT_LIST] :: rest) ++ [Event.close])
            = some (buildGreenNode b) := by
          unfold buildTree
          simp only [List.getLast?_append, List.getLast?_singleton, Option.or_some, List.dropLast_concat]
          simp only [Option.some_or, hloop, hlenroot, if_true]
        exact ⟨buildGreenNode b, hbt, build_lossless content kinds starts texts hT _ _ hbt⟩
  · cases h2

/-- non-vacuity of `core_protocol`: text `"fn é"`, a client that opens a node, advances over both
non-trivia tokens (the second is an unknown character) and closes it; all hypotheses hold, and the tree is built. -/
example :
    let content := ['f', 'n', ' ', 'é']
    let kinds : Array TokenKind := #[FN_KW, WHITESPACE, UNKNOWN, EOF]
    let starts : Array Nat := #[0, 2, 3]
    let client : List Op := [.advanceByNonLeadingTrivia, .open, .advance, .advance, .close 1 ERROR_ELEM]
    ClientOk client ∧
    (∃ s1, runOps (PState.init content kinds starts) ([.open, .skipTrivia] ++ client) = .ok s1 ∧ s1.isEof = true) ∧
    parseWith content kinds starts client
      = .ok (some (.node ELEMENT_LIST
          [.node ERROR_ELEM [.token FN_KW ['f', 'n'], .token WHITESPACE [' '], .token UNKNOWN ['é']] 5] 5)) := by
  refine ⟨?_, ⟨_, rfl, rfl⟩, rfl⟩
  intro m k h
  simp at h
  omega


/-- the whole front end for a grammar given as a deterministic function from the lexer's output (and the
text) to the sequence of core operations it performs -/
def parseModel (grammar : LexResult → List Char → List Op) (cs : List Char) : Option Green :=
  match lex cs with
  | .error _ => none
  | .ok r =>
    match parseWith cs r.kinds.toArray r.starts.toArray (grammar r cs) with
    | .ok (some root) => some root
    | _ => none

/-- "text that parses … yields the same tree when the reproduced text is parsed again": for every
deterministic grammar, reparsing the text reproduced from the tree gives the same tree (in the model this
holds with or without reported errors, because the tree is lossless in both cases; that the real parser
is a deterministic function of the text is checked by the `reparse` oracle of the correspondence run). -/
theorem reparse_stable (grammar : LexResult → List Char → List Op) (cs : List Char) (root : Green)
    (h : parseModel grammar cs = some root) : parseModel grammar root.text = some root := by
  have htext : root.text = cs := by
    unfold parseModel at h
    split at h
    · cases h
    · rename_i r hr
      obtain ⟨texts, hT⟩ := lex_tokTable cs r hr
      split at h
      · rename_i root' hp
        cases h
        unfold parseWith at hp
        split at hp
        · cases hp
        · rename_i s hs
          simp only [Except.ok.injEq] at hp
          exact (build_lossless cs _ _ texts hT _ _ hp).1
      · cases h
  rw [htext]
  exact h

/-- non-vacuity: the grammar "wrap every token in one ERROR_ELEM" on the text `fn` -/
example : parseModel (fun _ _ => [.open, .advance, .close 1 ERROR_ELEM]) ['f', 'n']
    = some (.node ELEMENT_LIST [.node ERROR_ELEM [.token FN_KW ['f', 'n']] 2] 2) := by rfl

end Dora.Syntax.C16
