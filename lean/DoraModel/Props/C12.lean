import DoraModel.Term.InvStep2
import DoraModel.Term.MarkLemmas2
/-!
# C12 — Parallel collection phases finish exactly when all work is done

Property theorems only; the model is `DoraModel/Term/Model.lean` (one shim operation per step, any number
of workers `n ≥ 1`, every interleaving, spurious wake-ups, arbitrary `notify_one` target).  All statements
are about every state reachable through events the trace acceptor `accept` allows (`Reach`), i.e. about
the same executable object that checks the traces of the real `Terminator`.
-/
namespace Dora.Term.C12
open Dora.Term

variable {n shared : Nat} {own : List Nat} {s : State}

/-- State/“working / awakening”: `working` is exactly the number of workers outside the region in which
`try_terminate` has decremented it, every `awakening` token belongs to a signalled worker (or to the
`notify_one` that is about to happen), and `working + awakening ≤ total` (the code's `debug_assert!`s).
With one worker the code never touches the counters (`if self.total == 1`), hence `1 < n`. -/
theorem counters (hn : 1 < n) (ho : own.length = n) (hr : Reach n shared own s) :
    s.working = s.pcs.countP isW ∧
    s.awakening ≤ s.pcs.countP isK + min (s.pcs.countP isWu6) (s.pcs.countP isWaiting) ∧
    s.working + s.awakening ≤ s.n := by
  have h := hr.inv (by omega) ho
  have hp := counts_partition s.pcs
  have hlen := h.len
  have hA := h.cntA
  have hs : s.n = n := by
    clear hp hlen hA h
    induction hr with
    | init => rfl
    | step _ ha ih => obtain ⟨pc, _, hst⟩ := accept_step ha; rw [(Inv.step_basic hst).1]; exact ih
  have hW := h.cntW (by omega)
  exact ⟨hW, hA, by omega⟩

/-- "end only when no work item remains anywhere — no worker declares completion while another still
holds, or may still publish, work": once some worker's `try_terminate` has returned `true` (`done`),
both counters are 0 (or there is only one worker), the shared pool and every worker's own pool are
empty, and every worker is on the straight path to `done` — none is in the worker loop or in `wake_up`. -/
theorem safe_termination (hn : 0 < n) (ho : own.length = n) (hr : Reach n shared own s)
    (hd : ∃ t : Nat, s.pcs[t]? = some PC.done) :
    (s.n = 1 ∨ (s.working = 0 ∧ s.awakening = 0)) ∧ s.shared = 0 ∧
    (∀ (u k : Nat), s.own[u]? = some k → k = 0) ∧
    (∀ (u : Nat) (pc : PC), s.pcs[u]? = some pc → isPostEnd pc = true ∧ isActive pc = false) := by
  have h := hr.inv hn ho
  obtain ⟨t, ht⟩ := hd
  have hE := countP_pos_get isEnd ht rfl
  obtain ⟨h1, h2⟩ := h.fin hE
  have hp := counts_partition s.pcs
  have hlen := h.len
  have hAct : s.pcs.countP isActive = 0 := by omega
  have hall : ∀ (u : Nat) (pc : PC), s.pcs[u]? = some pc → isPostEnd pc = true := by
    intro u pc hu
    have : s.pcs.countP isPostEnd = s.pcs.length := by omega
    exact (List.countP_eq_length.mp this) pc (List.mem_of_getElem? hu)
  refine ⟨h1, ?_, ?_, ?_⟩
  · have := h.shA; omega
  · intro u k hu
    rcases Nat.eq_zero_or_pos k with hk | hk
    · exact hk
    · obtain ⟨x, hx, hax⟩ := h.ownA u k hu hk
      have := countP_pos_get isActive hx hax
      omega
  · intro u pc hu
    refine ⟨hall u pc hu, ?_⟩
    have := hall u pc hu
    cases pc <;> simp_all [isPostEnd, isActive]

/-- The code's `assert!(working > 0)` and `debug_assert!`s (`working > 0`, `working + awakening <= total`)
can never fail: no reachable state has a worker at `panicked`. -/
theorem asserts_hold (hn : 0 < n) (ho : own.length = n) (hr : Reach n shared own s) :
    ∀ t : Nat, s.pcs[t]? ≠ some PC.panicked := by
  intro t ht
  have := ((hr.inv hn ho).loc t _ ht).2.1
  simp [RegOk] at this

/-- The lock is held by at most one worker, and exactly by the worker whose pc says so. -/
theorem lock_exclusive (hn : 0 < n) (ho : own.length = n) (hr : Reach n shared own s)
    {t u : Nat} {p q : PC} (ht : s.pcs[t]? = some p) (hu : s.pcs[u]? = some q)
    (hp : holds p = true) (hq : holds q = true) : t = u := by
  have h := hr.inv hn ho
  have a := (h.loc t p ht).1.mp hp
  have b := (h.loc u q hu).1.mp hq
  rw [a] at b; simpa using b

/-- "none spins on an empty pool after everybody else has finished": once one worker is `done`, no other
worker is (or ever again gets) in the worker loop, in `obsEmpty`, waiting, or in `wake_up`; each is at
one of `woken → tw1 → tw2 → tw3 → done` (or `tt5 → done`), i.e. it re-acquires the lock once, reads
both counters, and returns `true`.  (`Reach` is closed under steps, so this holds in all later states.) -/
theorem no_spin_after_end (hn : 0 < n) (ho : own.length = n) (hr : Reach n shared own s)
    (hd : ∃ t : Nat, s.pcs[t]? = some PC.done) :
    ∀ (u : Nat) (pc : PC), s.pcs[u]? = some pc →
      pc = PC.woken ∨ pc = PC.tw1 ∨ (∃ w, pc = PC.tw2 w) ∨ (∃ w a, pc = PC.tw3 w a) ∨ pc = PC.tt5 ∨ pc = PC.done := by
  intro u pc hu
  have := ((safe_termination hn ho hr hd).2.2.2 u pc hu).1
  cases pc <;> simp_all [isPostEnd]

/-- "they always end: no worker sleeps forever": in every reachable state in which some worker has not
yet returned `true`, some worker can take a step that is not a spurious wake-up — the lock holder if
the lock is held, otherwise a worker that is neither waiting nor done.  In particular the state "everybody
left is asleep in `condvar.wait`" is unreachable: no lost wake-up, although `wake_up` reads both counters
without the lock. -/
theorem deadlock_free (hn : 0 < n) (ho : own.length = n) (hr : Reach n shared own s)
    (hnd : ∃ (t : Nat) (pc : PC), s.pcs[t]? = some pc ∧ pc ≠ PC.done) :
    ∃ (e : Event) (s' : State), e.act ≠ Act.spur ∧ accept s e = .ok s' := by
  have h := hr.inv hn ho
  have en : ∀ (t : Nat) (pc : PC) (a : Act), s.pcs[t]? = some pc → a ≠ Act.spur → (stepAt s t pc a).isOk = true →
      ∃ (e : Event) (s' : State), e.act ≠ Act.spur ∧ accept s e = .ok s' := by
    intro t pc a hpc ha hok
    obtain ⟨s', hs'⟩ := ok_of_isOk hok
    exact ⟨⟨t, a⟩, s', ha, by simp [accept, hpc, hs']⟩
  cases hl : s.lock with
  | some t0 =>
    have ht0 := h.lockLt t0 hl
    have hlt : t0 < s.pcs.length := by rw [h.len]; exact ht0
    have hpc0 : s.pcs[t0]? = some s.pcs[t0] := by simp [hlt]
    have hh := (h.loc t0 _ hpc0).1.mpr hl
    generalize s.pcs[t0] = pc0 at hpc0 hh
    cases pc0 <;> simp [holds] at hh
    case tt1 => exact en _ _ (.loadW s.working) hpc0 (by simp) (by simp [stepAt, Except.isOk, Except.toBool])
    case tt2 w => exact en _ _ (.storeW (w - 1)) hpc0 (by simp) (by simp [stepAt, Except.isOk, Except.toBool])
    case tt3 w => exact en _ _ (.loadA s.awakening) hpc0 (by simp) (by simp [stepAt, Except.isOk, Except.toBool])
    case tt4 w a =>
      by_cases hz : w = 0 ∧ a = 0
      · exact en _ _ (.notifyAll (s.pcs.countP isWaiting)) hpc0 (by simp) (by simp [stepAt, Except.isOk, Except.toBool, hz])
      · exact en _ _ .wait hpc0 (by simp) (by simp [stepAt, Except.isOk, Except.toBool, hz])
    case tt5 => exact en _ _ .unlock hpc0 (by simp) (by simp [stepAt, Except.isOk, Except.toBool])
    case tw1 => exact en _ _ (.loadW s.working) hpc0 (by simp) (by simp [stepAt, Except.isOk, Except.toBool])
    case tw2 w => exact en _ _ (.loadA s.awakening) hpc0 (by simp) (by simp [stepAt, Except.isOk, Except.toBool])
    case tw3 w a =>
      by_cases hz : w = 0 ∧ a = 0
      · exact en _ _ .unlock hpc0 (by simp) (by simp [stepAt, Except.isOk, Except.toBool, hz])
      · by_cases ha : 0 < a
        · exact en _ _ (.storeA (a - 1)) hpc0 (by simp) (by simp [stepAt, Except.isOk, Except.toBool, hz, ha])
        · have ha0 : a = 0 := by omega
          have hw0 : w ≠ 0 := by omega
          exact en _ _ .wait hpc0 (by simp) (by simp [stepAt, Except.isOk, Except.toBool, ha0, hw0])
    case tw4 w => exact en _ _ (.storeW (w + 1)) hpc0 (by simp) (by simp [stepAt, Except.isOk, Except.toBool])
    case tw5 => exact en _ _ .unlock hpc0 (by simp) (by simp [stepAt, Except.isOk, Except.toBool])
    case wu3 => exact en _ _ (.loadW s.working) hpc0 (by simp) (by simp [stepAt, Except.isOk, Except.toBool])
    case wu4 w => exact en _ _ (.loadA s.awakening) hpc0 (by simp) (by simp [stepAt, Except.isOk, Except.toBool])
    case wu5 w a =>
      by_cases hz : w + a = s.n
      · exact en _ _ .unlock hpc0 (by simp) (by simp [stepAt, Except.isOk, Except.toBool, hz])
      · exact en _ _ (.storeA (a + 1)) hpc0 (by simp) (by simp [stepAt, Except.isOk, Except.toBool, hz])
    case wu6 =>
      by_cases hz : s.pcs.countP isWaiting = 0
      · exact en _ _ (.notifyOne none) hpc0 (by simp) (by simp [stepAt, Except.isOk, Except.toBool, hz])
      · have hpos : 0 < s.pcs.countP isWaiting := by omega
        rw [List.countP_pos_iff] at hpos
        obtain ⟨x, hx, hxw⟩ := hpos
        obtain ⟨u, hu⟩ := List.getElem?_of_mem hx
        have : x = PC.waiting := by cases x <;> simp_all [isWaiting]
        subst this
        exact en _ _ (.notifyOne (some u)) hpc0 (by simp) (by simp [stepAt, Except.isOk, Except.toBool, hu])
    case wu7 => exact en _ _ .unlock hpc0 (by simp) (by simp [stepAt, Except.isOk, Except.toBool])
  | none =>
    by_cases hB : ∃ (u : Nat) (pc : PC), s.pcs[u]? = some pc ∧ pc ≠ PC.waiting ∧ pc ≠ PC.done
    · obtain ⟨u, pc, hu, hnw, hnd'⟩ := hB
      have hloc := h.loc u pc hu
      have hnh : holds pc = false := by
        cases hx : holds pc
        · rfl
        · have := hloc.1.mp hx; rw [hl] at this; simp at this
      have hnpos := h.npos
      have hul : u < s.own.length := by have := lt_of_get hu; rw [h.olen, ← h.len]; exact this
      have hown : s.own[u]? = some s.own[u] := by simp [hul]
      cases pc <;> simp [holds] at hnh <;> simp [LocOk, RegOk] at hloc
      case work => exact en _ _ (.takeOwn u s.own[u]) hu (by simp) (by
          by_cases hz : s.own[u] = 0 <;> simp [stepAt, Except.isOk, Except.toBool, hown, hz])
      case obsEmpty => exact en _ _ .lock hu (by simp) (by
          have : 1 < s.n := by omega
          simp [stepAt, Except.isOk, Except.toBool, hl, this])
      case waiting => exact absurd rfl hnw
      case woken => exact en _ _ .relock hu (by simp) (by simp [stepAt, Except.isOk, Except.toBool, hl])
      case wu1 r => exact en _ _ (.loadA s.awakening) hu (by simp) (by simp [stepAt, Except.isOk, Except.toBool])
      case wu2 => exact en _ _ .lock hu (by simp) (by simp [stepAt, Except.isOk, Except.toBool, hl])
      case done => exact absurd rfl hnd'
    · -- everybody left is waiting: impossible
      exfalso
      have hall : ∀ (u : Nat) (x : PC), s.pcs[u]? = some x → x = PC.waiting ∨ x = PC.done := by
        intro u x hu
        by_cases h1 : x = PC.waiting
        · exact Or.inl h1
        · by_cases h2 : x = PC.done
          · exact Or.inr h2
          · exact absurd ⟨u, x, hu, h1, h2⟩ hB
      obtain ⟨t, pc, ht, hpcnd⟩ := hnd
      have hw : pc = PC.waiting := by rcases hall t pc ht with h1 | h1; exact h1; exact absurd h1 hpcnd
      subst hw
      have hwpos := countP_pos_get isWaiting ht rfl
      have hp := counts_partition s.pcs
      have hlen := h.len
      have hzW : s.pcs.countP isW = 0 := countP_zero_of _ (by
        intro u x hu; rcases hall u x hu with rfl | rfl <;> rfl)
      have hzK : s.pcs.countP isK = 0 := countP_zero_of _ (by
        intro u x hu; rcases hall u x hu with rfl | rfl <;> rfl)
      have hzX : s.pcs.countP isExc = 0 := countP_zero_of _ (by
        intro u x hu; rcases hall u x hu with rfl | rfl <;> rfl)
      have hn1 : s.n ≠ 1 := by
        intro h1
        have := (h.loc t _ ht).2.2 h1
        simp at this
      have hnpos := h.npos
      have hA := h.cntA
      have hW := h.cntW (by omega)
      have hF := h.fin
      have hZ := h.zero (by omega)
      omega

/-! ## non-vacuity: a concrete 2-worker run of the model that reaches `done` for both workers
(worker 0 goes to sleep, worker 1 publishes an item and takes `wake_up`'s locked path, worker 0 returns
`false`, takes the item; then both terminate) -/

def demoTrace : List Event := [
  ⟨0, .takeOwn 0 0⟩, ⟨0, .takeShared 0⟩, ⟨0, .takeOwn 1 1⟩,          -- worker 0 steals worker 1's item
  ⟨1, .takeOwn 1 0⟩, ⟨1, .takeShared 0⟩, ⟨1, .takeOwn 0 0⟩,          -- worker 1 finds nothing
  ⟨1, .lock⟩, ⟨1, .loadW 2⟩, ⟨1, .storeW 1⟩, ⟨1, .loadA 0⟩, ⟨1, .wait⟩,  -- … and sleeps
  ⟨0, .pushOwn 0 1⟩,                                                    -- worker 0 publishes one item
  ⟨0, .loadW 1⟩, ⟨0, .loadA 0⟩,                                          -- wake_up: fast path fails (1 + 0 ≠ 2)
  ⟨0, .lock⟩, ⟨0, .loadW 1⟩, ⟨0, .loadA 0⟩, ⟨0, .storeA 1⟩, ⟨0, .notifyOne (some 1)⟩, ⟨0, .unlock⟩,
  ⟨1, .relock⟩, ⟨1, .loadW 1⟩, ⟨1, .loadA 1⟩, ⟨1, .storeA 0⟩, ⟨1, .storeW 2⟩, ⟨1, .unlock⟩, -- returns false
  ⟨1, .takeOwn 1 0⟩, ⟨1, .takeShared 0⟩, ⟨1, .takeOwn 0 1⟩,          -- steals the new item
  ⟨0, .takeOwn 0 0⟩, ⟨0, .takeShared 0⟩, ⟨0, .takeOwn 1 0⟩,
  ⟨0, .lock⟩, ⟨0, .loadW 2⟩, ⟨0, .storeW 1⟩, ⟨0, .loadA 0⟩, ⟨0, .wait⟩,
  ⟨1, .takeOwn 1 0⟩, ⟨1, .takeShared 0⟩, ⟨1, .takeOwn 0 0⟩,
  ⟨1, .lock⟩, ⟨1, .loadW 1⟩, ⟨1, .storeW 0⟩, ⟨1, .loadA 0⟩, ⟨1, .notifyAll 1⟩, ⟨1, .unlock⟩,   -- true
  ⟨0, .relock⟩, ⟨0, .loadW 0⟩, ⟨0, .loadA 0⟩, ⟨0, .unlock⟩ ]                                    -- true

/-- the run is accepted and ends with both workers `done`, counters 0, pools empty -/
example : (runTrace (init 2 0 [0, 1]) demoTrace).map (fun s => (s.pcs, s.working, s.awakening, s.shared, s.own))
    = some ([.done, .done], 0, 0, 0, [0, 0]) := by decide

/-- `Reach` (the hypothesis of every theorem above) is inhabited well beyond `init`: the final state of the
run is reachable and has a `done` worker, so `safe_termination` / `no_spin_after_end` are not vacuous;
the state after 11 events has worker 1 asleep with `working = 1`. -/
example : ∃ s, Reach 2 0 [0, 1] s ∧ (∃ t : Nat, s.pcs[t]? = some PC.done) := by
  cases h : runTrace (init 2 0 [0, 1]) demoTrace with
  | none => exact absurd h (by decide)
  | some s => exact ⟨s, Reach.init.run _ _ h, 0, by
      have : (runTrace (init 2 0 [0, 1]) demoTrace).map (fun s => s.pcs[0]?) = some (some .done) := by decide
      rw [h] at this; simpa using this⟩

example : ∃ s, Reach 2 0 [0, 1] s ∧ s.pcs = [.work, .waiting] ∧ s.working = 1 := by
  cases h : runTrace (init 2 0 [0, 1]) (demoTrace.take 11) with
  | none => exact absurd h (by decide)
  | some s =>
    have : (runTrace (init 2 0 [0, 1]) (demoTrace.take 11)).map (fun s => (s.pcs, s.working)) = some ([.work, .waiting], 1) := by decide
    rw [h] at this
    simp at this
    exact ⟨s, Reach.init.run _ _ h, this.1, this.2⟩

/-- hypothesis of `deadlock_free` on a reachable state: after 11 events worker 1 sleeps, worker 0 is not done -/
example : ∃ s, Reach 2 0 [0, 1] s ∧ ∃ (t : Nat) (pc : PC), s.pcs[t]? = some pc ∧ pc ≠ PC.done :=
  ⟨_, Reach.init, 0, PC.work, by decide, by decide⟩

end Dora.Term.C12

/-!
# C12, last sentence — "Every reachable object is processed exactly once regardless of how work is stolen
between workers."

Model: `DoraModel/Term/Mark.lean` (`marking.rs` statement by statement: root loop, `pop` = local / own deque /
injector batch / steal batch from a victim, `trace` with the atomic `try_mark`, push to local segment or
deque, `defensive_push`), any object graph, any number of workers, every interleaving, arbitrary stolen
batches.  All statements are about every state reachable through events the acceptor `Mark.accept` allows.
-/
namespace Dora.Mark.C12
open Dora.Mark

variable {h : Heap} {n : Nat} {s : State}

/-- "processed … once" (upper half): in every reachable state the log of processed objects has no
duplicates — no object is handed to a worker by `pop()` twice, whoever popped or stole it. -/
theorem each_object_processed_at_most_once (hr : Reach h n s) : s.log.Nodup := by
  rw [List.nodup_iff_count]
  intro z
  have h1 := hr.inv.place z
  have h2 := ind_le (z ∈ s.marked)
  omega

/-- "regardless of how work is stolen": in every reachable state every object is in exactly one place.
Either its mark bit is clear and it is in no pool slot and not processed; or it was marked before marking
began (read-only space) and is in no pool slot and not processed; or it is marked and sits in EXACTLY ONE
pool slot (`poolCount` = occurrences in the injector + every worker's local segment + deque + hand) and is
not processed; or it is marked, in no pool slot, and processed exactly once.  So pools never hold
duplicates, a stolen batch is never also kept by the victim, and nothing marked is lost. -/
theorem pool_holds_marked_unprocessed (hr : Reach h n s) (z : Obj) :
    (z ∉ s.marked ∧ poolCount s z = 0 ∧ s.log.count z = 0) ∨
    (z ∈ s.marked ∧ z ∈ h.pre ∧ poolCount s z = 0 ∧ s.log.count z = 0) ∨
    (z ∈ s.marked ∧ z ∉ h.pre ∧ poolCount s z = 1 ∧ s.log.count z = 0) ∨
    (z ∈ s.marked ∧ z ∉ h.pre ∧ poolCount s z = 0 ∧ s.log.count z = 1) := by
  have h1 := hr.inv.place z
  by_cases hm : z ∈ s.marked
  · rw [ind_true hm] at h1
    by_cases hp : z ∈ h.pre
    · rw [ind_true hp] at h1
      exact Or.inr (Or.inl ⟨hm, hp, by omega, by omega⟩)
    · rw [ind_false hp] at h1
      by_cases hc : poolCount s z = 0
      · exact Or.inr (Or.inr (Or.inr ⟨hm, hp, hc, by omega⟩))
      · exact Or.inr (Or.inr (Or.inl ⟨hm, hp, by omega, by omega⟩))
  · rw [ind_false hm] at h1
    exact Or.inl ⟨hm, by omega, by omega⟩

/-- Only reachable objects are processed (and only reachable or pre-marked ones are ever marked). -/
theorem processed_only_reachable (hr : Reach h n s) :
    (∀ x, x ∈ s.log → Reachable h x) ∧ (∀ x, x ∈ s.marked → x ∈ h.pre ∨ Reachable h x) :=
  ⟨fun _ hx => hr.inv.log_reachable hx, hr.inv.reach⟩

/-- "Every reachable object is processed exactly once": in any reachable state in which the root loop is
over, all pools are empty and no worker holds an object (`quiescent`), the processed log contains every
object reachable from the roots exactly once and nothing else, and the mark bits are set exactly on the
pre-marked and the reachable objects. -/
theorem marking_complete (hr : Reach h n s) (q : quiescent s) (x : Obj) :
    (Reachable h x → s.log.count x = 1) ∧ (¬ Reachable h x → s.log.count x = 0) ∧
    (x ∈ s.marked ↔ x ∈ h.pre ∨ Reachable h x) := by
  have i := hr.inv
  have nd := List.nodup_iff_count.mp (each_object_processed_at_most_once hr) x
  refine ⟨fun hx => ?_, fun hx => ?_, ⟨i.reach x, ?_⟩⟩
  · have := List.count_pos_iff.mpr (i.complete q hx); omega
  · rcases Nat.eq_zero_or_pos (s.log.count x) with h0 | h0
    · exact h0
    · exact absurd (i.log_reachable (List.count_pos_iff.mp h0)) hx
  · rintro (hp | hx)
    · have h1 := i.place x
      rw [ind_true hp] at h1
      exact ind_pos.mp (by omega)
    · exact (i.log_marked (i.complete q hx)).1

/-- How the two halves of C12 fit: the abstract pool of the termination model (`Term/Model.lean`) read as
the sizes of this model's pools.  `shared` is the length of the injector, `own w` the length of worker
`w`'s local segment plus deque, and a worker that is not at `pop()` (it scans an object, holds a freshly
marked one, or is inside `defensive_push`) is in the worker loop / `wake_up` of the termination model. -/
structure Linked (m : State) (t : Dora.Term.State) : Prop where
  rootsDone : m.rootsLeft = []
  shared : t.shared = m.inj.length
  own : ∀ (w : Nat) (me : WState), m.ws[w]? = some me → t.own[w]? = some (me.loc.length + me.deq.length)
  busy : ∀ (w : Nat) (me : WState), m.ws[w]? = some me → me.hand ≠ Hand.idle →
    ∃ pc, t.pcs[w]? = some pc ∧ Dora.Term.isActive pc = true

/-- The hypothesis of `marking_complete` is what `safe_termination` delivers: if in the termination model
some worker's `try_terminate` has returned `true`, and that model's pool counters are the sizes of the
marking model's pools (`Linked`), then the marking state is quiescent. -/
theorem quiescent_of_safe_termination {m : State} {t : Dora.Term.State} {sh : Nat} {own : List Nat}
    (hn : 0 < n) (ho : own.length = n) (ht : Dora.Term.Reach n sh own t) (l : Linked m t)
    (hd : ∃ u : Nat, t.pcs[u]? = some Dora.Term.PC.done) : quiescent m := by
  obtain ⟨_, hsh, hown, hpc⟩ := Dora.Term.C12.safe_termination hn ho ht hd
  refine ⟨l.rootsDone, List.eq_nil_of_length_eq_zero (by rw [← l.shared]; exact hsh), ?_⟩
  intro me hme
  obtain ⟨w, hw⟩ := List.mem_iff_getElem?.mp hme
  have h0 := hown w _ (l.own w me hw)
  refine ⟨List.eq_nil_of_length_eq_zero (by omega), List.eq_nil_of_length_eq_zero (by omega), ?_⟩
  apply Classical.byContradiction
  intro hne
  obtain ⟨pc, hp, ha⟩ := l.busy w me hw hne
  have := (hpc w pc hp).2
  rw [this] at ha; simp at ha

/-- Both halves together: when the termination detector lets a worker leave (`try_terminate` returned
`true`), every reachable object has been processed exactly once and no other object has been processed.
(`Linked` is an assumption here: that the counters of the termination model are this model's pool sizes is
stated, not derived from a product of the two transition systems.) -/
theorem every_reachable_object_processed_exactly_once_at_termination
    {m : State} {t : Dora.Term.State} {sh : Nat} {own : List Nat}
    (hn : 0 < n) (ho : own.length = n) (hm : Reach h n m) (ht : Dora.Term.Reach n sh own t) (l : Linked m t)
    (hd : ∃ u : Nat, t.pcs[u]? = some Dora.Term.PC.done) (x : Obj) :
    (Reachable h x → m.log.count x = 1) ∧ (¬ Reachable h x → m.log.count x = 0) :=
  let r := marking_complete hm (quiescent_of_safe_termination hn ho ht l hd) x
  ⟨r.1, r.2.1⟩

/-! ## non-vacuity: a graph with a cycle (1 ↔ 2), sharing (3 is a field of 1 and of 2, 1 is a root twice),
a pre-marked object (5), an unreachable object (9 → 1); two workers; worker 1 steals from worker 0's deque
and loses the race for object 3 -/

def demoHeap : Heap :=
  { succ := fun x => match x with
      | 1 => [2, 3] | 2 => [3, 1] | 3 => [4, 5] | 9 => [1] | _ => []
    roots := [1, 2, 1]
    pre := [5] }

def demoTrace : List Event := [
  .root true, .root true, .root false,                 -- 1 and 2 pushed to the injector; second root slot of 1 loses
  .worker 0 (.stealInj 1 [2]),                         -- worker 0 gets 1, the batch [2] lands in its deque
  .worker 1 (.steal 0 2 []),                           -- worker 1 steals 2 from worker 0's deque
  .worker 0 (.trace false),                            -- 1.f0 = 2: already marked
  .worker 0 (.trace true),                             -- 1.f1 = 3: worker 0 wins the mark
  .worker 1 (.trace false),                            -- 2.f0 = 3: worker 1 loses
  .worker 1 (.trace false),                            -- 2.f1 = 1 (cycle): already marked
  .worker 0 .pushLocal, .worker 0 .scanEnd, .worker 1 .scanEnd,
  .worker 0 .popLocal,                                 -- worker 0 processes 3
  .worker 0 (.trace true), .worker 0 .pushLocal,       -- 3.f0 = 4
  .worker 0 (.trace false),                            -- 3.f1 = 5: pre-marked (read-only space)
  .worker 0 .scanEnd, .worker 0 .popLocal, .worker 0 .scanEnd ]

/-- the run is accepted; afterwards everything is empty and 1, 2, 3, 4 have been processed once each -/
example : (runTrace demoHeap (init demoHeap 2) demoTrace).map (fun s => (s.log, s.marked, s.inj, s.rootsLeft, s.ws))
    = some ([4, 3, 2, 1], [4, 3, 2, 1, 5], [], [], [{ WState.init with since := 2 }, WState.init]) := by decide

/-- `Reach` ∧ `quiescent` (the hypotheses of `marking_complete`) hold of the final state of that run -/
example : ∃ s, Reach demoHeap 2 s ∧ quiescent s ∧ s.log = [4, 3, 2, 1] := by
  cases hrun : runTrace demoHeap (init demoHeap 2) demoTrace with
  | none => exact absurd hrun (by decide)
  | some s =>
    have : (runTrace demoHeap (init demoHeap 2) demoTrace).map
        (fun s => (s.log, s.inj, s.rootsLeft, s.ws)) = some ([4, 3, 2, 1], [], [], [{ WState.init with since := 2 }, WState.init]) := by decide
    rw [hrun] at this
    simp at this
    obtain ⟨h1, h2, h3, h4⟩ := this
    refine ⟨s, Reach.init.run _ _ hrun, ⟨h3, h2, ?_⟩, h1⟩
    intro m hm
    rw [h4] at hm
    simp at hm
    rcases hm with rfl | rfl <;> simp [WState.init]

/-- a reachable state in the middle of the run: object 2 sits in exactly one pool slot (worker 0's deque)
after the batch steal — third disjunct of `pool_holds_marked_unprocessed` -/
example : ∃ s, Reach demoHeap 2 s ∧ 2 ∈ s.marked ∧ poolCount s 2 = 1 ∧ s.log.count 2 = 0 := by
  cases hrun : runTrace demoHeap (init demoHeap 2) (demoTrace.take 4) with
  | none => exact absurd hrun (by decide)
  | some s =>
    have : (runTrace demoHeap (init demoHeap 2) (demoTrace.take 4)).map
        (fun s => (decide (2 ∈ s.marked), poolCount s 2, s.log.count 2)) = some (true, 1, 0) := by decide
    rw [hrun] at this
    simp at this
    exact ⟨s, Reach.init.run _ _ hrun, this.1, this.2.1, this.2.2⟩

/-- `Reachable` is inhabited and not everything: 4 is reachable (root 1 → 3 → 4); 5 (pre-marked) and 9 are not -/
example : Reachable demoHeap 4 :=
  .succ (.succ (.root (r := 1) (by decide) (by decide)) (y := 3) (by decide) (by decide)) (by decide) (by decide)

example : ¬ Reachable demoHeap 9 := by
  have key : ∀ x, Reachable demoHeap x → x = 1 ∨ x = 2 ∨ x = 3 ∨ x = 4 := by
    intro x hx
    induction hx with
    | root hr _ => simp [demoHeap] at hr; rcases hr with rfl | rfl | rfl <;> simp
    | succ _ hy hp ih =>
      rcases ih with rfl | rfl | rfl | rfl <;> simp [demoHeap] at hy hp
      · rcases hy with rfl | rfl <;> simp
      · rcases hy with rfl | rfl <;> simp
      · rcases hy with rfl | rfl <;> simp_all
  intro h9
  have := key 9 h9
  simp at this

/-- `Linked` with a terminated state of the termination model is satisfiable: the final state of the run
above against the final state of `Dora.Term.C12.demoTrace` (both workers `done`, all counters 0) -/
example : ∃ (m : State) (t : Dora.Term.State), Reach demoHeap 2 m ∧ Dora.Term.Reach 2 0 [0, 1] t ∧ Linked m t ∧
    ∃ u : Nat, t.pcs[u]? = some Dora.Term.PC.done := by
  cases hrun : runTrace demoHeap (init demoHeap 2) demoTrace with
  | none => exact absurd hrun (by decide)
  | some m =>
    cases hrun2 : Dora.Term.runTrace (Dora.Term.init 2 0 [0, 1]) Dora.Term.C12.demoTrace with
    | none => exact absurd hrun2 (by decide)
    | some t =>
      have e1 : (runTrace demoHeap (init demoHeap 2) demoTrace).map
          (fun s => (s.inj, s.rootsLeft, s.ws)) = some ([], [], [{ WState.init with since := 2 }, WState.init]) := by decide
      have e2 : (Dora.Term.runTrace (Dora.Term.init 2 0 [0, 1]) Dora.Term.C12.demoTrace).map
          (fun s => (s.pcs, s.shared, s.own)) = some ([.done, .done], 0, [0, 0]) := by decide
      rw [hrun] at e1; rw [hrun2] at e2
      simp at e1 e2
      obtain ⟨a1, a2, a3⟩ := e1
      obtain ⟨b1, b2, b3⟩ := e2
      refine ⟨m, t, Reach.init.run _ _ hrun, Dora.Term.Reach.init.run _ _ hrun2, ?_, 0, by simp [b1]⟩
      refine ⟨a2, by simp [a1, b2], ?_, ?_⟩
      · intro w me hw
        rw [a3] at hw; rw [b3]
        match w with
        | 0 => simp at hw; subst hw; simp [WState.init]
        | 1 => simp at hw; subst hw; simp [WState.init]
        | k + 2 => simp at hw
      · intro w me hw hne
        rw [a3] at hw
        match w with
        | 0 => simp at hw; subst hw; simp [WState.init] at hne
        | 1 => simp at hw; subst hw; simp [WState.init] at hne
        | k + 2 => simp at hw

end Dora.Mark.C12
