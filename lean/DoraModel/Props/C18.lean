import DoraModel.Bytecode.Lemmas
import DoraModel.Bytecode.WriterLemmas
import DoraModel.Bytecode.BincodeLemmas
import DoraModel.Bytecode.SchemaLemmas
import DoraModel.Gen.PkgTypes
/-!
# C18 — Packages and bytecode survive being written and read back

Property theorems only. The opcode numbering and the per-opcode operand layouts these theorems quantify over
are the tables regenerated from the Rust sources (`DoraModel/Gen/BcOpcodes.lean`), so they are re-checked
against what the code says now. Operand values are arbitrary naturals below 2^32 (what `as u32` keeps).
-/
namespace Dora.Bytecode.C18
open Dora.Bytecode

/-! ## "reads back as the same instruction sequence … for all operand widths" -/

/-- The variable-width operand encoding (`emit_u32_variable` / `read_u32_variable`) round-trips for every
    `u32`, whatever follows, and the reader stops exactly behind it. -/
theorem varint_roundtrip (v off : Nat) (rest : Bytes) (hv : v < 4294967296) :
    readVar ⟨writeVar v ++ rest, off⟩ = some (v, ⟨rest, off + (writeVar v).length⟩) :=
  readVar_writeVar v off rest hv

example : readVar ⟨writeVar 16384 ++ [7], 3⟩ = some (16384, ⟨[7], 3 + (writeVar 16384).length⟩) :=
  varint_roundtrip 16384 3 [7] (by decide)

/-- The fixed-width encoding of forward-jump distances (`emit_u32_fixed` / `read_u32_fixed`) round-trips. -/
theorem fixed_roundtrip (v off : Nat) (rest : Bytes) (hv : v < 4294967296) :
    readFixed ⟨writeFixed v ++ rest, off⟩ = some (v, ⟨rest, off + 4⟩) :=
  readFixed_writeFixed v off rest hv

example : readFixed ⟨writeFixed 2097153 ++ [9], 0⟩ = some (2097153, ⟨[9], 4⟩) := fixed_roundtrip 2097153 0 [9] (by decide)

/-- Opcode numbering, direction 1: `BytecodeOpcode::try_from(u8::from(op)) = Ok(op)` for every opcode
    (the two `match` tables of data.rs with the numbers of opcode.rs). -/
theorem opcode_roundtrip (op : Opcode) : Opcode.ofByte? op.toByte = some op := ofByte_toByte op

/-- Opcode numbering, direction 2: a byte that decodes to an opcode is that opcode's number — so the numbering
    is a bijection between the opcodes and the accepted bytes; every other byte is refused. -/
theorem opcode_bijective : ∀ b : UInt8, ∀ op, Opcode.ofByte? b = some op → op.toByte = b := by
  apply forall_uint8; decide +kernel

example : Opcode.ofByte? 69 = some .GetArrayRef ∧ Opcode.ofByte? 70 = none := by decide

/-- Writer and reader agree on the operand layout of every opcode (tables regenerated from
    `emit_*` in writer.rs and from `read_instruction` in reader.rs). -/
theorem operand_layouts_agree (op : Opcode) : op.readLayout = op.writeLayout := layouts_agree op

/-- Every instruction — any opcode, any operand values that fit `u32` (`u8` for the `ConstUInt8` value),
    any number of arguments — reads back as itself, whatever follows it; the reader consumes exactly the
    bytes the writer produced. -/
theorem instr_roundtrip (i : Instr) (off : Nat) (rest : Bytes) (h : i.WF) :
    readInstr ⟨writeInstr i ++ rest, off⟩ = some (i, ⟨rest, off + (writeInstr i).length⟩) :=
  readInstr_writeInstr i off rest h

example : (⟨.InvokeDirect, [.num 256, .num 16384, .args [127, 128, 4294967295]]⟩ : Instr).WF := by decide
example : readInstr ⟨writeInstr ⟨.InvokeDirect, [.num 256, .num 16384, .args [127, 128, 4294967295]]⟩ ++ [1], 0⟩
    = some (⟨.InvokeDirect, [.num 256, .num 16384, .args [127, 128, 4294967295]]⟩,
            ⟨[1], 0 + (writeInstr ⟨.InvokeDirect, [.num 256, .num 16384, .args [127, 128, 4294967295]]⟩).length⟩) :=
  instr_roundtrip _ 0 [1] (by decide)

/-- A whole function body: the concatenation of any well-formed instructions reads back as the same
    sequence, each instruction at the offset the writer put it at. -/
theorem stream_roundtrip (is : List Instr) (h : ∀ i ∈ is, i.WF) :
    readAll (writeAll is) = some (withOffsets 0 is) := by
  have := readAllGo_writeAll is (writeAll is).length 0 [] (writeAll_length_ge is) h
  simpa [readAll] using this

example : readAll (writeAll [⟨.Mov, [.num 300, .num 1]⟩, ⟨.Jump, [.num 5]⟩, ⟨.Ret, [.num 0]⟩])
    = some (withOffsets 0 [⟨.Mov, [.num 300, .num 1]⟩, ⟨.Jump, [.num 5]⟩, ⟨.Ret, [.num 0]⟩]) :=
  stream_roundtrip _ (by decide)


/-! ## "… jump distances": forward jumps are patched to the bound label, `JumpLoop` carries the distance back -/

/-- Layout invariant of the pending forward jumps: it holds for the empty writer, is kept by appending code,
    and `emit_jmp_forward` adds the new 4-byte distance field as the last four bytes of the code, recorded with
    the start offset of the jump instruction and the label. -/
theorem jump_layout_invariant (w w' : Writer) (op : Opcode) (cond : Option Nat) (l : Nat)
    (hl : Laid w.code.size w.unresolved.toList) (h : w.emitJumpForward op cond l = some w') :
    Laid w'.code.size w'.unresolved.toList ∧
    ∃ a, w'.unresolved.toList = w.unresolved.toList ++ [(w.code.size, a, l)] ∧ a + 4 = w'.code.size ∧ w.code.size < a :=
  emitJumpForward_laid w w' op cond l hl h

theorem jump_layout_initial : Laid (({} : Writer).code.size) ({} : Writer).unresolved.toList := by
  simp [Laid]

theorem jump_layout_append (w : Writer) (bs : Bytes) (hl : Laid w.code.size w.unresolved.toList) :
    Laid (w.emitBytes bs).code.size (w.emitBytes bs).unresolved.toList := by
  have := laid_mono w.code.size (w.emitBytes bs).code.size w.unresolved.toList (by simp [Writer.emitBytes]) hl
  simpa [Writer.emitBytes] using this

/-- `resolve_forward_jumps` (run by `generate`): when every pending jump's label is bound behind the jump, the
    four bytes at each recorded address hold `target − start` (little endian, byte `k` at `address + k`), the
    code keeps its length, and every byte outside the distance fields is untouched. -/
theorem jumps_resolved (w : Writer) (hl : Laid w.code.size w.unresolved.toList) (hb : Bound w.labels w.unresolved.toList) :
    ∃ w', w.resolveForwardJumps = some w' ∧ w'.code.size = w.code.size ∧
      (∀ j ∈ w.unresolved.toList, ∀ t, w.labels[j.2.2]? = some (some t) →
        ∀ k, k < 4 → w'.code[j.2.1 + k]? = some (fixedByte (t - j.1) k)) ∧
      (∀ i, (∀ j ∈ w.unresolved.toList, i < j.2.1 ∨ j.2.1 + 4 ≤ i) → w'.code[i]? = w.code[i]?) := by
  obtain ⟨c, e, s, p, q⟩ := resolveList_spec w.labels w.unresolved.toList w.code hl hb
  exact ⟨{ w with code := c, unresolved := #[] }, by simp [Writer.resolveForwardJumps, e], s, p, q⟩

/-- `Jump L; Ret r0; L:` — one pending jump at offset 0 whose distance field is bytes 1..4, label bound at 7 -/
def exampleWriter : Writer :=
  { code := #[45, 0, 0, 0, 0, 68, 0], labels := #[some 7], unresolved := #[(0, 1, 0)] }

example : ∃ w', exampleWriter.resolveForwardJumps = some w' ∧ w'.code.size = exampleWriter.code.size :=
  let ⟨w', h, hs, _⟩ := jumps_resolved exampleWriter (by simp [Laid, exampleWriter])
    (by intro j hj; simp [exampleWriter] at hj; subst hj; exact ⟨7, by simp [exampleWriter], by decide⟩)
  ⟨w', h, hs⟩

/-- … and the four patched bytes are what the reader's `read_u32_fixed` turns back into `target − start`. -/
theorem patched_distance_reads_back (d off : Nat) (rest : Bytes) (hd : d < 4294967296) :
    readFixed ⟨[fixedByte d 0, fixedByte d 1, fixedByte d 2, fixedByte d 3] ++ rest, off⟩ = some (d, ⟨rest, off + 4⟩) := by
  rw [← writeFixed_eq]; exact readFixed_writeFixed d off rest hd

example : readFixed ⟨[fixedByte 70000 0, fixedByte 70000 1, fixedByte 70000 2, fixedByte 70000 3] ++ [], 5⟩ = some (70000, ⟨[], 9⟩) :=
  patched_distance_reads_back 70000 5 [] (by decide)

/-- `generate` refuses (the `expect("label not bound")`) when a pending jump's label was never bound. -/
theorem unbound_label_refused (w : Writer) (h : ∃ j ∈ w.unresolved.toList, w.labels[j.2.2]? = some none) :
    w.generate = none := by
  simp [Writer.generate, Writer.resolveForwardJumps, resolveList_unbound w.labels w.unresolved.toList w.code h]

/-- `emit_jump_loop`: the operand of the emitted `JumpLoop` is `here − target` for the offset the label was
    defined at (and an undefined label is refused). -/
theorem jump_loop_distance (w : Writer) (l target : Nat) (hl : w.labels[l]? = some (some target))
    (hle : target ≤ w.code.size) :
    w.emitJumpLoop l = w.emitInstr ⟨.JumpLoop, [.num (w.code.size - target)]⟩ := by
  simp [Writer.emitJumpLoop, Writer.lookupLabel, hl, hle]

example : ((({} : Writer).defineLabel.1).emitJumpLoop 0).isSome = true := by decide

/-! ## "A compiled package file decodes to a program equal to the one that was encoded": the wire format

bincode 2.0.1, `config::standard()`. Each primitive and each combinator used by the derived codecs round-trips,
whatever follows in the input; `pkg_roundtrip` at the end composes them over the whole `Program` type tree. -/

open Dora.Bincode in
/-- varint `u16` / `u32` / `u64` (`usize` is encoded as `u64`): ≤ 250 one byte, then markers 251/252/253 -/
theorem bincode_unsigned_roundtrip :
    RT encVarU decU16 (· < 65536) ∧ RT encVarU decU32 (· < 4294967296) ∧ RT encVarU decU64 (· < 18446744073709551616) :=
  ⟨rt_u16, rt_u32, rt_u64⟩

open Dora.Bincode in
example : decU32 (encVarU 251 ++ [9]) = some (251, [9]) := rt_u32 251 [9] (by decide)

open Dora.Bincode in
/-- zig-zag signed integers `i32` / `i64`, including the minimum values -/
theorem bincode_signed_roundtrip :
    RT encInt decI32 (fun v => -2147483648 ≤ v ∧ v < 2147483648) ∧
    RT encInt decI64 (fun v => -9223372036854775808 ≤ v ∧ v < 9223372036854775808) :=
  ⟨rt_i32, rt_i64⟩

open Dora.Bincode in
example : decI64 (encInt (-9223372036854775808) ++ []) = some (-9223372036854775808, []) :=
  rt_i64 _ [] (by decide)

open Dora.Bincode in
/-- `u8`, `bool`, `f32`, `f64` (raw little-endian bits), `char` (UTF-8, every scalar value) -/
theorem bincode_scalar_roundtrip :
    RT encU8 decU8 (· < 256) ∧ RT encBool decBool (fun _ => True) ∧ RT encF32 decF32 (· < 4294967296) ∧
    RT encF64 decF64 (· < 18446744073709551616) ∧ RT encChar decChar (fun c => isScalar c = true) :=
  ⟨rt_u8, rt_bool, rt_f32, rt_f64, rt_char⟩

open Dora.Bincode in
example : decChar (encChar 0x1F600 ++ [1]) = some (0x1F600, [1]) := rt_char 0x1F600 [1] (by decide)

open Dora.Bincode in
/-- `String` (any valid UTF-8) and `Vec<u8>`: length as `u64` varint, then the bytes -/
theorem bincode_string_roundtrip :
    RT encStr decStr (fun s => s.length < 18446744073709551616 ∧ isUtf8 s = true) ∧
    RT encBytes decBytes (fun s => s.length < 18446744073709551616) :=
  ⟨rt_str, rt_bytes⟩

open Dora.Bincode in
example : decStr (encStr [0xE2, 0x98, 0x83] ++ [7]) = some ([0xE2, 0x98, 0x83], [7]) := rt_str _ [7] (by decide)

open Dora.Bincode in
/-- `Vec<T>`, `Option<T>`, tuples / struct fields: round-trip whenever the components do -/
theorem bincode_combinators_roundtrip (ea : α → Bytes) (da : Dec α) (Pa : α → Prop) (eb : β → Bytes) (db : Dec β)
    (Pb : β → Prop) (ha : RT ea da Pa) (hb : RT eb db Pb) :
    RT (encVec ea) (decVec da) (fun xs => xs.length < 18446744073709551616 ∧ ∀ x ∈ xs, Pa x) ∧
    RT (encOpt ea) (decOpt da) (fun o => ∀ x, o = some x → Pa x) ∧
    RT (encPair ea eb) (decPair da db) (fun p => Pa p.1 ∧ Pb p.2) :=
  ⟨rt_vec ea da Pa ha, rt_opt ea da Pa ha, rt_pair ea da Pa eb db Pb ha hb⟩

open Dora.Bincode in
example : decVec (decOpt decU32) (encVec (encOpt encVarU) [some 300, none] ++ []) = some ([some 300, none], []) :=
  (bincode_combinators_roundtrip (encOpt encVarU) (decOpt decU32) _ encVarU decU32 _
    (rt_opt encVarU decU32 _ rt_u32) rt_u32).1 [some 300, none] [] (by decide)


/-! ### the whole `Program` type tree

`Dora.Bincode.pkgEnv` is the table of every `#[derive(Encode, Decode)]` item reachable from `Program` (32 items,
plus `Id<T>`, tuples, `Vec`/`Option`/`Box`/`Arc` instances), regenerated from program.rs / data.rs / ty.rs / opcode.rs
on every run; `decT` / `encT` interpret such a table the way bincode_derive lays structs and enums out. -/

open Dora.Bincode in
/-- The derive-shaped codec round-trips for EVERY type table, every type in it and every value of that type
    (numbers in the range of their Rust type, strings valid UTF-8, nesting depth ≤ `fuel`), whatever follows. -/
theorem derive_codec_roundtrip (env : Env) (fuel t : Nat) (v : PVal) (rest : Bytes) (h : wfT env fuel t v = true) :
    decT env fuel t (encT env fuel t v ++ rest) = some (v, rest) :=
  schema_roundtrip env fuel t v rest h

open Dora.Bincode in
/-- "A compiled package file decodes to a program equal to the one that was encoded": for the type table of
    `Program` as the sources define it now, decoding the encoding of any program gives back that program and
    stops exactly behind it. -/
theorem pkg_roundtrip (fuel : Nat) (p : PVal) (rest : Bytes) (h : wfT pkgEnv fuel pkgRoot p = true) :
    decT pkgEnv fuel pkgRoot (encT pkgEnv fuel pkgRoot p ++ rest) = some (p, rest) :=
  schema_roundtrip pkgEnv fuel pkgRoot p rest h

open Dora.Bincode in
example : wfT pkgEnv pkgExampleFuel pkgRoot pkgExample = true := by decide +kernel

open Dora.Bincode in
example : decT pkgEnv pkgExampleFuel pkgRoot (encT pkgEnv pkgExampleFuel pkgRoot pkgExample ++ [1, 2]) = some (pkgExample, [1, 2]) :=
  pkg_roundtrip _ _ _ (by decide +kernel)

open Dora.Bincode in
/-- … and compositionally for every component type of the tree (any table index: `FunctionData`, `BytecodeBody`,
    `ConstPoolEntry`, `BytecodeType`, …). -/
theorem pkg_component_roundtrip (fuel t : Nat) (v : PVal) (rest : Bytes) (h : wfT pkgEnv fuel t v = true) :
    decT pkgEnv fuel t (encT pkgEnv fuel t v ++ rest) = some (v, rest) :=
  schema_roundtrip pkgEnv fuel t v rest h

open Dora.Bincode in
example : decT pkgEnv pkgExampleFuel pkgRoot (encT pkgEnv pkgExampleFuel pkgRoot pkgExample ++ []) = some (pkgExample, []) :=
  pkg_component_roundtrip pkgExampleFuel pkgRoot pkgExample [] (by decide +kernel)

end Dora.Bytecode.C18
