import DoraModel.Symbol.Lemmas
/-!
# C19 — Distinct functions get distinct, valid linker symbols

Property theorems only. Names are arbitrary byte strings (a superset of all `&str`).
-/
namespace Dora.Symbol.C19
open Dora.Symbol

/-- "Demangling a mangled name returns the original name" — for every byte string. -/
theorem demangle_mangle (name : Bytes) : demangleBytes (mangleName name) = some name := by
  unfold demangleBytes mangleName
  rw [stripPrefix_prefix]
  exact demangleBody_mangleBody name

/-- "The mangling from function names to linker symbols is injective." -/
theorem mangle_injective (a b : Bytes) (h : mangleName a = mangleName b) : a = b := by
  have ha := demangle_mangle a
  rw [h, demangle_mangle b] at ha
  exact (Option.some.inj ha).symm

example : demangleBytes (mangleName [0x73, 0x3a, 0x3a, 0xe2, 0x98, 0x83, 0x5f]) = some [0x73, 0x3a, 0x3a, 0xe2, 0x98, 0x83, 0x5f] :=
  demangle_mangle _

/-- "Every produced symbol consists only of ASCII letters, digits and underscores" (unshortened form). -/
theorem mangle_charset (name : Bytes) : ∀ c ∈ mangleName name, isAlnum c = true ∨ c = 95 := by
  intro c hc
  unfold mangleName at hc
  rcases List.mem_append.mp hc with h | h
  · exact prefix_charset c h
  · exact mangleBody_charset name c h

/-- A symbol starts with a letter (`dora_`), so it is a valid identifier for the linker. -/
theorem mangle_starts_with_prefix (name : Bytes) : (mangleName name).take 5 = symbolPrefix := by
  simp [mangleName, symbolPrefix]

/-- `{hash:032X}` digits are upper-case hex digits. -/
theorem hashSuffix_charset (h : BitVec 128) : ∀ c ∈ hashSuffix h, isAlnum c = true ∨ c = 95 := by
  intro c hc
  simp only [hashSuffix, hashHex, List.mem_cons, List.mem_map, List.mem_range] at hc
  rcases hc with h1 | h1 | ⟨i, _, hi⟩
  · right; exact h1
  · left; rw [h1]; decide
  · left
    rw [← hi]; unfold hashNibble
    exact (hexDigit_of_nibble _ (Nat.mod_lt _ (by decide))).1

end Dora.Symbol.C19
