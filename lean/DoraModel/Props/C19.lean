import DoraModel.Symbol.Lemmas
/-!
# C19 — Distinct functions get distinct, valid linker symbols

Property theorems only. Names are arbitrary byte strings (a superset of all `&str`).
-/
namespace Dora.Symbol.C19
open Dora.Symbol

/-- "Demangling a mangled name returns the original name" — for every byte string. -/
theorem demangle_mangle (name : Bytes) : demangleBytes (mangleName name) = some name := by
  unfold demangleBytes mangleName
  rw [stripPrefix_prefix]
  exact demangleBody_mangleBody name

/-- "The mangling from function names to linker symbols is injective." -/
theorem mangle_injective (a b : Bytes) (h : mangleName a = mangleName b) : a = b := by
  have ha := demangle_mangle a
  rw [h, demangle_mangle b] at ha
  exact (Option.some.inj ha).symm

example : demangleBytes (mangleName [0x73, 0x3a, 0x3a, 0xe2, 0x98, 0x83, 0x5f]) = some [0x73, 0x3a, 0x3a, 0xe2, 0x98, 0x83, 0x5f] :=
  demangle_mangle _

/-- "Every produced symbol consists only of ASCII letters, digits and underscores" (unshortened form). -/
theorem mangle_charset (name : Bytes) : ∀ c ∈ mangleName name, isAlnum c = true ∨ c = 95 := by
  intro c hc
  unfold mangleName at hc
  rcases List.mem_append.mp hc with h | h
  · exact prefix_charset c h
  · exact mangleBody_charset name c h

/-- A symbol starts with a letter (`dora_`), so it is a valid identifier for the linker. -/
theorem mangle_starts_with_prefix (name : Bytes) : (mangleName name).take 5 = symbolPrefix := by
  simp [mangleName, symbolPrefix]

/-- The shortened form also stays inside the character set (`_H` + 32 upper-case hex digits). -/
theorem capped_charset (name : Bytes) (m : Nat) (r : Bytes) (h : mangleNameWithMaxLen name m = some r) :
    ∀ c ∈ r, isAlnum c = true ∨ c = 95 := by
  unfold mangleNameWithMaxLen at h
  by_cases hm : m < hashSuffixLen
  · simp [hm] at h
  · simp only [hm, if_false] at h
    by_cases hfit : (mangleName name).length ≤ m
    · simp only [hfit, if_true, Option.some.injEq] at h
      subst h; exact mangle_charset name
    · simp only [hfit, if_false, Option.some.injEq] at h
      subst h
      intro c hc
      rcases List.mem_append.mp hc with hc | hc
      · exact mangle_charset name c (List.mem_of_mem_take hc)
      · simp only [hashSuffix, hashHex, List.mem_cons] at hc
        rcases hc with hc | hc | hc
        · right; exact hc
        · left; rw [hc]; decide
        · left; exact (hexDigitsN_charset _ _ c hc).1

/-- "stays within the length limit": any cap of at least 34 is honoured, whatever the name. -/
theorem capped_length (name : Bytes) (m : Nat) (hm : 34 ≤ m) :
    ∃ r, mangleNameWithMaxLen name m = some r ∧ r.length ≤ m := by
  unfold mangleNameWithMaxLen
  have hm' : ¬ m < hashSuffixLen := by unfold hashSuffixLen; omega
  simp only [hm', if_false]
  by_cases hfit : (mangleName name).length ≤ m
  · exact ⟨_, by simp [hfit], hfit⟩
  · refine ⟨_, by simp only [hfit, if_false]; rfl, ?_⟩
    simp only [List.length_append, List.length_take, hashSuffix_length]
    unfold hashSuffixLen; omega

/-- A cap below 34 is refused (the `assert!`), never silently mis-shortened. -/
theorem capped_refused (name : Bytes) (m : Nat) (hm : m < 34) : mangleNameWithMaxLen name m = none := by
  unfold mangleNameWithMaxLen; simp [hashSuffixLen, hm]

/-- "when not shortened -- demangles back to the original name". -/
theorem capped_unshortened_demangles (name : Bytes) (m : Nat) (hm : 34 ≤ m) (hfit : ¬ shortened name m) :
    ∃ r, mangleNameWithMaxLen name m = some r ∧ demangleBytes r = some name := by
  unfold shortened at hfit
  have hm' : ¬ m < hashSuffixLen := by unfold hashSuffixLen; omega
  refine ⟨mangleName name, ?_, demangle_mangle name⟩
  unfold mangleNameWithMaxLen
  simp [hm', Nat.le_of_not_lt hfit]

/-- shape of a shortened symbol when the cap leaves room for the prefix `dora_` (39 ≤ m; dora uses 200) -/
theorem capped_shortened_shape (name : Bytes) (m : Nat) (hm : 39 ≤ m) (hs : shortened name m) :
    mangleNameWithMaxLen name m =
      some (symbolPrefix ++ ((mangleBody name).take (m - 39) ++ hashSuffix (fnv1a128 (mangleName name)))) := by
  unfold shortened at hs
  have hm' : ¬ m < hashSuffixLen := by unfold hashSuffixLen; omega
  unfold mangleNameWithMaxLen
  simp only [hm', if_false, Nat.not_le.mpr hs]
  have : m - hashSuffixLen = 5 + (m - 39) := by unfold hashSuffixLen; omega
  rw [this]
  have t5 : ∀ (k : Nat) (l : Bytes), List.take (5 + k) (100 :: 111 :: 114 :: 97 :: 95 :: l) =
      100 :: 111 :: 114 :: 97 :: 95 :: List.take k l := by
    intro k l
    rw [show 5 + k = k + 1 + 1 + 1 + 1 + 1 by omega]
    simp only [List.take_succ_cons]
  simp [mangleName, symbolPrefix, t5]

/-- "Shortening ... keeps different names different", part 1: a shortened symbol never equals an
unshortened one (`_H` cannot occur in an unshortened symbol after the prefix). -/
theorem short_long_disjoint (a b : Bytes) (m : Nat) (hm : 39 ≤ m)
    (ha : shortened a m) (hb : ¬ shortened b m) :
    mangleNameWithMaxLen a m ≠ mangleNameWithMaxLen b m := by
  intro h
  rw [capped_shortened_shape a m hm ha] at h
  obtain ⟨r, hr, _⟩ := capped_unshortened_demangles b m (by omega) hb
  have hb' : mangleNameWithMaxLen b m = some (mangleName b) := by
    unfold shortened at hb
    have hm' : ¬ m < hashSuffixLen := by unfold hashSuffixLen; omega
    unfold mangleNameWithMaxLen; simp [hm', Nat.le_of_not_lt hb]
  rw [hb'] at h
  have h2 := Option.some.inj h
  unfold mangleName at h2
  have h3 := List.append_cancel_left h2
  have e1 := escOK_mangleBody b
  rw [← h3] at e1
  simp only [hashSuffix] at e1
  rw [escOK_marker] at e1
  exact Bool.false_ne_true e1

/-- part 2: two shortened symbols are equal exactly when the kept prefixes agree AND the 128-bit
FNV-1a hashes of the full symbols agree. (No length-capped scheme can be injective on all names; this is
the exact collision condition.) -/
theorem shortened_eq_iff (a b : Bytes) (m : Nat) (hm : 39 ≤ m) (ha : shortened a m) (hb : shortened b m) :
    mangleNameWithMaxLen a m = mangleNameWithMaxLen b m ↔
      ((mangleBody a).take (m - 39) = (mangleBody b).take (m - 39) ∧
        fnv1a128 (mangleName a) = fnv1a128 (mangleName b)) := by
  rw [capped_shortened_shape a m hm ha, capped_shortened_shape b m hm hb]
  unfold shortened at ha hb
  have la : ((mangleBody a).take (m - 39)).length = m - 39 := by
    simp [mangleName, symbolPrefix] at ha; simp; omega
  have lb : ((mangleBody b).take (m - 39)).length = m - 39 := by
    simp [mangleName, symbolPrefix] at hb; simp; omega
  constructor
  · intro h
    have h2 := List.append_cancel_left (Option.some.inj h)
    have h3 := List.append_inj h2 (by rw [la, lb])
    refine ⟨h3.1, ?_⟩
    have h4 := h3.2
    simp only [hashSuffix, List.cons.injEq, true_and] at h4
    exact hashHex_injective _ _ h4
  · rintro ⟨h1, h2⟩
    rw [h1, h2]

/-- part 3: names whose (mangled) symbols have the same length and differ in exactly one byte always
get different hashes, hence different shortened symbols — the FNV-1a step is a bijection of the state. -/
theorem fnv_one_byte_diff (pre suf : Bytes) (b1 b2 : UInt8) (hne : b1 ≠ b2) :
    fnv1a128 (pre ++ b1 :: suf) ≠ fnv1a128 (pre ++ b2 :: suf) := by
  intro h
  unfold fnv1a128 at h
  simp only [List.foldl_append, List.foldl_cons] at h
  exact hne (fnvStep_byte_injective _ _ _ (fnv_foldl_injective suf _ _ h))

example : shortened (List.replicate 100 0x3a) 200 ∧ ¬ shortened [0x61] 200 := by
  constructor <;> simp [shortened, mangleName, symbolPrefix, mangleBody] <;> decide

end Dora.Symbol.C19
