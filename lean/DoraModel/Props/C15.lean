import DoraModel.Intern.Lemmas
/-!
# C15 — Builds are reproducible (the part a theorem can carry)

"independent of ... hash-map seeds": string-table ids, shape ids and the function work list are functions
of the request sequence alone, for EVERY lawful implementation of the hash map / hash set (no iteration).
Everything else in C15 (linker, gcc, file names, concurrency, the bootstrap fixed point) is a repeated-build
comparison done by checks/c15.py — that part is not a proof and the evidence says so (level "other").
-/
namespace Dora.Intern.C15
open Dora.Intern

/-- Interning with any lawful hash map gives exactly the ids and the entry order of the list-search
reference: ids are positions of first occurrence in the request sequence. -/
theorem intern_ids_first_occurrence {M K : Type} [DecidableEq K] [MapLike M K Nat] (ks : List K) :
    ((Interner.new : Interner M K).internAll ks).1.keys = (refInternAll [] ks).1 ∧
    ((Interner.new : Interner M K).internAll ks).2 = (refInternAll [] ks).2 := by
  obtain ⟨h1, h2⟩ := rel_internAll (Interner.new : Interner M K) [] ks rel_new
  exact ⟨h1.1, h2⟩

/-- Two different hash-map implementations (e.g. two processes with different `RandomState` seeds)
hand out the same ids and build the same table. -/
theorem intern_hash_independent {M₁ M₂ K : Type} [DecidableEq K] [MapLike M₁ K Nat] [MapLike M₂ K Nat]
    (ks : List K) :
    ((Interner.new : Interner M₁ K).internAll ks).1.keys = ((Interner.new : Interner M₂ K).internAll ks).1.keys ∧
    ((Interner.new : Interner M₁ K).internAll ks).2 = ((Interner.new : Interner M₂ K).internAll ks).2 := by
  obtain ⟨a1, a2⟩ := intern_ids_first_occurrence (M := M₁) ks
  obtain ⟨b1, b2⟩ := intern_ids_first_occurrence (M := M₂) ks
  exact ⟨a1.trans b1.symm, a2.trans b2.symm⟩

/-- The transitive-closure work list (function numbering) does not depend on the hash set used for
`visited`: it equals the reference that uses list membership. -/
theorem closure_order_independent {S₁ S₂ N : Type} [DecidableEq N] [SetLike S₁ N] [SetLike S₂ N]
    (succ : N → List N) (roots : List N) (fuel : Nat) :
    (Closure.run succ fuel (Closure.start roots : Closure S₁ N)).worklist =
    (Closure.run succ fuel (Closure.start roots : Closure S₂ N)).worklist := by
  have h1 := crel_run succ fuel (Closure.start roots : Closure S₁ N) _ 0 (crel_start roots)
  have h2 := crel_run succ fuel (Closure.start roots : Closure S₂ N) _ 0 (crel_start roots)
  exact h1.1.trans h2.1.symm

/-- Every (function, type arguments) pair is numbered once: the work list has no duplicates. -/
theorem closure_worklist_nodup {S N : Type} [DecidableEq N] [SetLike S N]
    (succ : N → List N) (roots : List N) (fuel : Nat) :
    (Closure.run succ fuel (Closure.start roots : Closure S N)).worklist.Nodup := by
  have h1 := crel_run succ fuel (Closure.start roots : Closure S N) _ 0 (crel_start roots)
  rw [h1.1]
  exact refRun_nodup succ fuel _ 0 (refPushes_nodup roots [] List.nodup_nil)

/-- non-vacuity: the classes are inhabited — an association list is a lawful map, a list a lawful set -/
instance : MapLike (List (Nat × Nat)) Nat Nat where
  empty := []
  get m k := (m.find? (fun p => p.1 = k)).map (·.2)
  insert m k v := (k, v) :: m
  get_empty := by intro k; rfl
  get_insert := by
    intro m k v k'
    by_cases e : k' = k
    · subst e; simp [List.find?]
    · have : ¬ k = k' := fun h => e h.symm
      simp [List.find?, e, this]

instance : SetLike (List Nat) Nat where
  empty := []
  contains s k := s.contains k
  insert s k := k :: s
  contains_empty := by intro k; rfl
  contains_insert := by
    intro s k k'
    by_cases e : k' = k <;> simp [e]

example : ((Interner.new : Interner (List (Nat × Nat)) Nat).internAll [7, 3, 7, 9, 3]).2 = [0, 1, 0, 2, 1] := by decide
example : (Closure.run (fun n => if n < 4 then [n + 1, 0, n + 2] else []) 10
    (Closure.start [0] : Closure (List Nat) Nat)).worklist = [0, 1, 2, 3, 4, 5] := by decide

end Dora.Intern.C15
