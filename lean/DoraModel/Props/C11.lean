import DoraModel.Match.LemmasExpand
import DoraModel.Match.LemmasSurface
import DoraModel.Match.LemmasConv
import DoraModel.Match.LemmasAccept
import DoraModel.Match.LemmasNoPanic
import DoraModel.Match.LemmasTerm
import DoraModel.Match.Examples
/-!
# C11 — Match exhaustiveness and reachability are decided exactly

Property theorems only. Model: `DoraModel/Match/Model.lean` (transcription of
`dora-frontend/src/exhaustiveness.rs`). Hypotheses throughout: the matrix is well-typed for its column types
(`matrixWT`, `patsWT`) and every type is inhabited (`Inh`; the front end rejects empty enums).

The transcribed recursion is not structural, so the model functions carry a fuel argument and return
`Except`: `.ok r` = the Rust function returns `r`; `.error .fuel` = fuel exhausted; `.error (.panic _)` = an
`assert!`/`unreachable!` fired.

* `useful_iff`, `exhaustive_iff`, `witness_sound`, `arm_unreachable_iff` speak about runs that return.
* That `check_useful` and `check_exhaustive` DO return on every well-typed input is proved too:
  `useful_terminates` / `exhaustive_terminates` (a computable amount of fuel always suffices, no typing needed),
  `useful_no_panic` / `exhaustive_no_panic` (no `assert!`/`unreachable!` is reached on well-typed input), and the
  combinations `useful_decided` / `exhaustive_decided` ("for every well-typed matrix the algorithm returns, and
  what it returns is the semantic answer").
* `convert_pattern_correct`: `convert_pattern` never panics on a pattern the type checker accepts (`spatWT`, a
  decidable predicate; the driver evaluates it on every request and answers `!illtyped` if it fails, so a match
  the real type checker accepts but `spatWT` rejects shows up as a disagreement) and preserves the set of matched
  values, for `..` in any position and named fields in any order. With it `accepted_no_fallthrough` needs no
  hypothesis about the conversion any more.
* `match_accepted_iff`: sentence 1 for a whole `match` as written (surface arms through the conversion): accepted
  iff the unguarded arms cover every value of the scrutinee's type.
* NOT proved: termination of `check_useful_expand_inner` (only its calls of `check_useful` are covered), and that
  its `assert!(spans.insert(span))` cannot fire (`arm_check_no_other_panic_partial` excludes every other assert);
  which sub-pattern spans a `Useless::Set` lists. The correspondence run reports `!fuel` / `!panic` lines if one
  of these ever happens.
-/
namespace Dora.Match.C11
open Dora.Match

/-! ### examples used for non-vacuity: `exMatrix`, `exRow`, `exTys`, `exEnv` are defined in `Match/Examples.lean` -/

/-! ### sentence 1/2: usefulness is decided exactly -/

/-- "an arm is [useful] exactly when [some value it matches is not] already matched by earlier unguarded
    arms": whenever `check_useful` returns, it returns `true` iff some well-typed value vector is matched by the
    row (its own guard taken to hold) and by no row of the matrix, a guarded row of the matrix matching nothing. -/
theorem useful_iff {env : Env} (hinh : Inh env) (fuel : Nat) (m : List (List Pat)) (q : List Pat)
    (tys : List Ty) (b : Bool) (hm : matrixWT env m tys) (hq : patsWT env q tys = true)
    (h : checkUseful env fuel m q = .ok b) :
    b = true ↔ ∃ vs, hasTypes env vs tys = true ∧ matchRow true q vs = true ∧
      ∀ r ∈ m, matchRow false r vs = false :=
  checkUseful_correct hinh fuel m q tys b hm hq h

example : checkUseful exEnv 20 exMatrix exRow = .ok true := by rfl
example : matrixWT exEnv exMatrix exTys := by
  intro r hr
  simp only [exMatrix, List.mem_cons, List.not_mem_nil, or_false] at hr
  rcases hr with rfl | rfl <;> decide
example : patsWT exEnv exRow exTys = true := by decide
/-- the hypotheses of `useful_iff` hold on the example and its conclusion is the non-trivial direction -/
example : ∃ vs, hasTypes exEnv vs exTys = true ∧ matchRow true exRow vs = true ∧
    ∀ r ∈ exMatrix, matchRow false r vs = false :=
  (useful_iff exEnv_inh 20 exMatrix exRow exTys true
    (by intro r hr
        simp only [exMatrix, List.mem_cons, List.not_mem_nil, or_false] at hr
        rcases hr with rfl | rfl <;> decide)
    (by decide) (by rfl)).mp rfl

/-! ### sentence 1: exhaustiveness is decided exactly -/

/-- "A match expression is accepted exactly when its arms cover every value of the scrutinee's type, guarded
    arms not counting as covering": whenever `check_exhaustive` returns, it returns no missing pattern iff every
    well-typed value vector is matched by some row, a guarded row (guard column = `Guard`) matching nothing. -/
theorem exhaustive_iff {env : Env} (hinh : Inh env) (fuel : Nat) (m : List (List Pat)) (n : Nat)
    (tys : List Ty) (res : List (List Pat)) (hm : matrixWT env m tys) (hn : tys.length = n)
    (h : checkExhaustive env fuel m n = .ok res) :
    res = [] ↔ ∀ vs, hasTypes env vs tys = true → ∃ r ∈ m, matchRow false r vs = true := by
  have hc := checkExhaustive_correct hinh fuel m n tys res hm hn h
  constructor
  · intro hres vs hvs
    apply Classical.byContradiction
    intro hno
    apply hc.1 hres vs hvs
    intro r hr
    cases hmr : matchPats false r vs with
    | false => rfl
    | true => exact absurd ⟨r, hr, hmr⟩ hno
  · intro hall
    cases res with
    | nil => rfl
    | cons w ws =>
      obtain ⟨vs, hvs, _, hu⟩ := hc.2 w List.mem_cons_self
      obtain ⟨r, hr, hmr⟩ := hall vs hvs
      have := hu r hr
      simp [matchRow] at hmr
      rw [hmr] at this; cases this

/-- every row returned by `check_exhaustive` (the "Missing patterns" of the error message) is a genuine witness:
    read with `matchWit` (a constructor printed without arguments stands for any arguments) it matches a
    well-typed value vector that no row of the matrix matches. -/
theorem witness_sound {env : Env} (hinh : Inh env) (fuel : Nat) (m : List (List Pat)) (n : Nat)
    (tys : List Ty) (res : List (List Pat)) (hm : matrixWT env m tys) (hn : tys.length = n)
    (h : checkExhaustive env fuel m n = .ok res) :
    ∀ w ∈ res, ∃ vs, hasTypes env vs tys = true ∧ matchWits w vs = true ∧
      ∀ r ∈ m, matchRow false r vs = false :=
  (checkExhaustive_correct hinh fuel m n tys res hm hn h).2

/-- the example matrix is not exhaustive; the witness returned is `E::A(false, false)` with the guard column `_` -/
example : (checkExhaustive exEnv 20 exMatrix 2).toOption.map (·.length) = some 1 := by rfl
example : checkExhaustive exEnv 20 (exMatrix ++ [[anyNoSpan, anyNoSpan]]) 2 = .ok [] := by rfl

/-! ### sentence 2: an arm is reported unreachable exactly when it is -/

/-- "an arm is reported unreachable exactly when every value it matches is already matched by earlier
    unguarded arms": whenever `check_useful_expand` returns, it returns `Useless::Yes` (the whole arm gets the
    `USELESS_PATTERN` warning) iff every well-typed value vector matched by the arm's row is matched by a row of
    the matrix built from the earlier arms, guarded rows matching nothing.
    Not covered: WHICH sub-pattern alternatives a `Useless::Set` result lists (soundness/completeness of the
    reported sub-pattern spans is compared with the implementation in the correspondence run, not proved). -/
theorem arm_unreachable_iff {env : Env} (hinh : Inh env) (fuel : Nat) (m : List (List Pat)) (row : List Pat)
    (tys : List Ty) (u : Useless) (hm : matrixWT env m tys) (hrow : patsWT env row tys = true)
    (h : checkUsefulExpand env fuel m row = .ok u) :
    u.isYes = true ↔ ∀ vs, hasTypes env vs tys = true → matchRow true row vs = true →
      ∃ r ∈ m, matchRow false r vs = true := by
  rw [checkUsefulExpand_yes hinh fuel m row tys u hm hrow h]
  constructor
  · intro hnu vs hvs hmr
    apply Classical.byContradiction
    intro hno
    apply hnu
    refine ⟨vs, hvs, hmr, ?_⟩
    intro r hr
    cases hmr' : matchPats false r vs with
    | false => rfl
    | true => exact absurd ⟨r, hr, hmr'⟩ hno
  · rintro hall ⟨vs, hvs, hmr, hu⟩
    obtain ⟨r, hr, hmr'⟩ := hall vs hvs hmr
    have := hu r hr
    simp [matchRow] at hmr'
    rw [hmr'] at this; cases this

/-- third arm `E::A(true, true) | E::A(_, true)` after the two example rows: the whole arm is unreachable although
    the first row is guarded (the second, unguarded row covers it); with only the guarded row it is reachable -/
example : (checkUsefulExpand exEnv 30 exMatrix
    [.alt [2] [.ctor [2, 0] (.enum 0 0) [.lit [2, 0, 0] (.bool true), .lit [2, 0, 1] (.bool true)],
               .ctor [2, 1] (.enum 0 0) [.any (some [2, 1, 0]), .lit [2, 1, 1] (.bool true)]], anyNoSpan]).toOption.map
      Useless.isYes = some true := by rfl
example : (checkUsefulExpand exEnv 30 (exMatrix.take 1)
    [.alt [2] [.ctor [2, 0] (.enum 0 0) [.lit [2, 0, 0] (.bool true), .lit [2, 0, 1] (.bool true)],
               .ctor [2, 1] (.enum 0 0) [.any (some [2, 1, 0]), .lit [2, 1, 1] (.bool true)]], anyNoSpan]).toOption.map
      Useless.isYes = some false := by rfl

/-! ### "Consequently an accepted match never falls through" -/

/-- `match e { E::A(.., true) => 0, E::A(false, ..) => 1, E::B => 2 }` as the type checker hands it over -/
def badArms : List Arm := [
  ⟨false, .ctor (.variant 0 0) [none, none] [.rest, .litBool true]⟩,
  ⟨false, .ctor (.variant 0 0) [none, none] [.litBool false, .rest]⟩,
  ⟨false, .identVariant 0 1⟩]

/-- regression: on the repaired conversion (sub-patterns after `..` are placed at the field index the type checker
    recorded) this match is REJECTED — `E::A(true, false)` is reported missing. It used to be accepted and fell
    through at run time; corpus/C11 keeps it and the check's oracle demands the rejection from the real front end. -/
example : accepted exEnv 40 badArms = false := by decide
example : firstMatch badArms (fun _ => true) (.ctor 0 [.ctor 1 [], .ctor 0 []]) = none := by decide

/-! ### the conversion from surface patterns (where the `..` defect was) -/

/-- `convert_pattern` is meaning preserving: on every surface pattern the type checker accepts at type `t`
    (`spatWT`: literals of the right type, at most one `..` per tuple / constructor pattern in ANY position with
    the field indices the type checker records, named fields in any order without repetition, `..` last among
    named fields) the conversion does not panic, its result is a well-typed matrix pattern, and — for either
    reading of a `Guard` entry — it matches exactly the values of type `t` that the surface pattern selects at
    run time (`smatch`: sub-patterns after a `..` meet the LAST fields). -/
theorem convert_pattern_correct (env : Env) (p : SPat) (t : Ty) (sp : Span) (h : spatWT env p t = true) :
    ∃ cp, convertPattern env sp p = .ok cp ∧ patWT env cp t = true ∧
      ∀ (g : Bool) (v : Val), hasType env v t = true → matchPat g cp v = smatch p v :=
  convert_total env p t sp h

/-- `E::A(false, .., true)` and the named form `E::A(y = false, ..)` (field 1 named first): accepted by the type
    checker's rules; the first converts to `E::A(false, true)` — the sub-pattern after `..` lands on the LAST field -/
example : spatWT exEnv (.ctor (.variant 0 0) [none, none, none] [.litBool false, .rest, .litBool true]) (.adt 0) = true := by
  decide
example : spatWT exEnv (.ctor (.variant 0 0) [some 1, none] [.litBool false, .rest]) (.adt 0) = true := by decide
example : ∃ cp, convertPattern exEnv [0] (.ctor (.variant 0 0) [none, none] [.rest, .litBool true]) = .ok cp ∧
    matchPat false cp (.ctor 0 [.ctor 0 [], .ctor 1 []]) = true ∧ matchPat false cp (.ctor 0 [.ctor 1 [], .ctor 0 []]) = false := by
  obtain ⟨cp, hc, _, hm⟩ := convert_pattern_correct exEnv (.ctor (.variant 0 0) [none, none] [.rest, .litBool true]) (.adt 0) [0]
    (by decide)
  exact ⟨cp, hc, by rw [hm false _ (by decide)]; decide, by rw [hm false _ (by decide)]; decide⟩

/-- "Consequently an accepted match never falls through at run time": if every arm's pattern is one the type
    checker accepts at the scrutinee's type `t` (`spatWT`, decidable; checked per request by the driver) and
    `check_match` returns without a missing pattern, then for every value of type `t` and every outcome of the
    guards `firstMatch` selects an arm. No hypothesis about the conversion is left: it is discharged by
    `convert_pattern_correct`, for `..` in any position. -/
theorem accepted_no_fallthrough {env : Env} (hinh : Inh env) (fuel : Nat) (arms : List Arm) (t : Ty)
    (hwf : ∀ a ∈ arms, spatWT env a.pat t = true) (hacc : accepted env fuel arms = true) :
    ∀ v guards, hasType env v t = true → firstMatch arms guards v ≠ none :=
  accepted_no_fallthrough_full hinh fuel arms t hwf hacc

/-- `match e { E::A(true, ..) if g => 0, E::A(_, _) => 1, E::B => 2 }`: accepted, `..` last, a guard -/
def goodArms : List Arm := [
  ⟨true, .ctor (.variant 0 0) [none, none] [.litBool true, .rest]⟩,
  ⟨false, .ctor (.variant 0 0) [none, none] [.underscore, .var]⟩,
  ⟨false, .identVariant 0 1⟩]
example : accepted exEnv 40 goodArms = true := by decide
example : ∀ a ∈ goodArms, spatWT exEnv a.pat (.adt 0) = true := by decide
example : firstMatch goodArms (fun _ => false) (.ctor 0 [.ctor 1 [], .ctor 0 []]) = some 1 := by decide
/-- the theorem applied: `E::A(true, false)` with the guard false is taken by some arm -/
example : firstMatch goodArms (fun _ => false) (.ctor 0 [.ctor 1 [], .ctor 0 []]) ≠ none :=
  accepted_no_fallthrough exEnv_inh 40 goodArms (.adt 0) (by decide) (by decide) _ _ (by decide)

/-- `match e { E::A(.., true) => 0, E::A(false, ..) => 1, E::A(true, false) => 2, E::B => 3 }`: `..` FIRST in an
    arm, accepted, and the theorem applies (this shape was outside the former `_partial` statement) -/
def restFirstArms : List Arm := badArms.take 2 ++ [⟨false, .ctor (.variant 0 0) [none, none] [.litBool true, .litBool false]⟩,
  ⟨false, .identVariant 0 1⟩]
example : firstMatch restFirstArms (fun _ => true) (.ctor 0 [.ctor 1 [], .ctor 0 []]) ≠ none :=
  accepted_no_fallthrough exEnv_inh 60 restFirstArms (.adt 0) (by decide) (by decide) _ _ (by decide)

/-- Sentence 1 for a whole `match` as written (surface arms, conversion included): whenever `check_match` returns,
    it reports no missing pattern — the match is accepted — exactly when every value of the scrutinee's type is
    matched by the pattern of some UNGUARDED arm (`smatch`, the run-time meaning). Hypothesis: every arm's pattern
    is one the type checker accepts (`spatWT`). -/
theorem match_accepted_iff {env : Env} (hinh : Inh env) (fuel : Nat) (arms : List Arm) (t : Ty)
    (hwf : ∀ a ∈ arms, spatWT env a.pat t = true) (r : MatchResult) (h : checkMatch env fuel arms = .ok r) :
    r.missing = [] ↔ ∀ v, hasType env v t = true → ∃ a ∈ arms, smatch a.pat v = true ∧ a.guarded = false := by
  constructor
  · intro hm v hv
    have hacc : accepted env fuel arms = true := by simp [accepted, h, hm]
    exact accepted_covers hinh fuel arms t
      (fun j a cp ha hc => (convert_correct env a.pat t [j] cp (hwf a (List.mem_of_getElem? ha)) hc).1)
      (fun j a cp ha hc w hw => (convert_correct env a.pat t [j] cp (hwf a (List.mem_of_getElem? ha)) hc).2 false w hw)
      hacc v hv
  · exact covers_accepted hinh fuel arms t hwf r h

/-- `check_match` returns on `badArms` and reports one missing pattern; by the theorem some value is uncovered —
    and indeed `E::A(true, false)` is matched by no arm -/
example : (checkMatch exEnv 40 badArms).toOption.map (·.missing.length) = some 1 := by rfl
example (r : MatchResult) (h : checkMatch exEnv 40 badArms = .ok r) : r.missing ≠ [] := by
  intro hm
  have := (match_accepted_iff exEnv_inh 40 badArms (.adt 0) (by decide) r h).mp hm
    (.ctor 0 [.ctor 1 [], .ctor 0 []]) (by decide)
  revert this
  decide
/-- and on `goodArms` (a guarded arm that does not count, `..` last): nothing missing, every value covered -/
example (r : MatchResult) (h : checkMatch exEnv 40 goodArms = .ok r) : r.missing = [] := by
  have hacc : accepted exEnv 40 goodArms = true := by decide
  simp only [accepted, h, List.isEmpty_iff] at hacc
  exact hacc

/-! ### "…and selects the first arm whose pattern and guard hold" (the specification the lowering is compared with) -/

/-- `firstMatch` (the arm the generated code must take) is the least arm index whose pattern matches the value
    and whose guard, if any, holds. -/
theorem firstMatch_least (arms : List Arm) (guards : Nat → Bool) (v : Val) (i : Nat) :
    firstMatch arms guards v = some i ↔
      ∃ a, arms[i]? = some a ∧ (smatch a.pat v && (!a.guarded || guards i)) = true ∧
        ∀ j < i, ∀ a', arms[j]? = some a' → (smatch a'.pat v && (!a'.guarded || guards j)) = false := by
  rw [firstMatch, firstMatchFrom_spec]
  constructor
  · rintro ⟨j, rfl, a, ha, hm, hmin⟩
    refine ⟨a, by simpa using ha, hm, ?_⟩
    intro j' hj' a' ha'
    have := hmin j' (by omega) a' ha'
    simpa using this
  · rintro ⟨a, ha, hm, hmin⟩
    exact ⟨i, by omega, a, ha, hm, fun j' hj' a' ha' => by simpa using hmin j' hj' a' ha'⟩

/-- second arm guarded and its guard false: the third arm is taken -/
example : firstMatch [⟨false, .litBool true⟩, ⟨true, .underscore⟩, ⟨false, .var⟩] (fun _ => false) (.ctor 0 []) = some 2 := by
  decide

/-! ### the algorithm returns: termination and panic freedom, and the unconditional statements -/

/-- "enough fuel always exists" for `check_useful`: above the computable bound `usefulBound m q` (the weight of
    the row under test against the matrix's maximal weighted pattern depth) the model never answers "out of
    fuel" — the Rust recursion terminates on EVERY input, typed or not. -/
theorem useful_terminates (env : Env) (m : List (List Pat)) (q : List Pat) (fuel : Nat)
    (h : usefulBound m q < fuel) : checkUseful env fuel m q ≠ .error .fuel :=
  checkUseful_fuel_suffices env m q fuel h

/-- the bound for the example is 21; with 22 units of fuel `check_useful` returns, with 5 it does not (the bound is
    not tight: 6 suffice here) -/
example : usefulBound exMatrix exRow = 21 := by decide
example : checkUseful exEnv 22 exMatrix exRow ≠ .error .fuel := useful_terminates exEnv exMatrix exRow 22 (by decide)
example : checkUseful exEnv 5 exMatrix exRow = .error .fuel := by rfl

/-- "enough fuel always exists" for `check_exhaustive`: above `exhaustiveBound m n = n * 2 ^ depthM m` the model
    never answers "out of fuel", on every input. -/
theorem exhaustive_terminates (env : Env) (m : List (List Pat)) (n : Nat) (fuel : Nat)
    (h : exhaustiveBound m n < fuel) : checkExhaustive env fuel m n ≠ .error .fuel :=
  checkExhaustive_fuel_suffices env m n fuel h

example : exhaustiveBound exMatrix 2 = 32 := by decide
example : checkExhaustive exEnv 33 exMatrix 2 ≠ .error .fuel := exhaustive_terminates exEnv exMatrix 2 33 (by decide)
example : checkExhaustive exEnv 1 exMatrix 2 = .error .fuel := by rfl

/-- `check_useful` reaches none of its `assert!` / `unreachable!` / `expect` sites on well-typed input: matrix and
    row well-typed for the column types, no declared field of the guard pseudo-type, and a `Guard` entry of the
    row under test only in the last column (`guardOK`; `check_match` only builds such rows,
    `guardOK_of_guardLast`). Whatever the fuel. -/
theorem useful_no_panic {env : Env} (hnog : NoGuardFields env) (fuel : Nat) (m : List (List Pat)) (q : List Pat)
    (tys : List Ty) (site : String) (hm : matrixWT env m tys) (hq : patsWT env q tys = true) (hg : guardOK q tys) :
    checkUseful env fuel m q ≠ .error (.panic site) :=
  checkUseful_no_panic hnog fuel m q tys site hm hq hg

example (site : String) : checkUseful exEnv 20 exMatrix exRow ≠ .error (.panic site) :=
  useful_no_panic exEnv_noGuardFields 20 exMatrix exRow exTys site exMatrix_wt (by decide)
    (guardOK_of_guardLast exRow exTys exTys_guardLast)
/-- the hypothesis matters: a literal pattern in a constructor column (ill-typed) does reach an `unreachable!` -/
example : checkUseful exEnv 20 [[.ctor [0] (.enum 0 1) []]] [.lit [1] (.int 3)] =
    .error (.panic "exhaustiveness.rs:984 unreachable") := by rfl

/-- `check_exhaustive` reaches none of its `assert!` / `expect` sites on a well-typed matrix, whatever the fuel -/
theorem exhaustive_no_panic {env : Env} (fuel : Nat) (m : List (List Pat)) (n : Nat) (tys : List Ty)
    (site : String) (hm : matrixWT env m tys) (hn : tys.length = n) :
    checkExhaustive env fuel m n ≠ .error (.panic site) :=
  checkExhaustive_no_panic fuel m n tys site hm hn

example (site : String) : checkExhaustive exEnv 70 exMatrix 2 ≠ .error (.panic site) :=
  exhaustive_no_panic 70 exMatrix 2 exTys site exMatrix_wt rfl
/-- rows of different lengths (ill-typed) do reach the `assert!` at the top of `check_exhaustive` -/
example : checkExhaustive exEnv 70 [[anyNoSpan], []] 1 = .error (.panic "exhaustiveness.rs:374 assert") := by rfl

/-- Usefulness is DECIDED, unconditionally: for every well-typed matrix and row (every type inhabited, no field of
    the guard pseudo-type, `Guard` only in the last column) and every amount of fuel above the computable bound,
    `check_useful` returns a Boolean — it neither runs out of fuel nor panics — and that Boolean is `true` exactly
    when some well-typed value vector is matched by the row and by no row of the matrix (guarded rows matching
    nothing). -/
theorem useful_decided {env : Env} (hinh : Inh env) (hnog : NoGuardFields env) (m : List (List Pat)) (q : List Pat)
    (tys : List Ty) (hm : matrixWT env m tys) (hq : patsWT env q tys = true) (hg : guardOK q tys)
    (fuel : Nat) (hfuel : usefulBound m q < fuel) :
    ∃ b, checkUseful env fuel m q = .ok b ∧
      (b = true ↔ ∃ vs, hasTypes env vs tys = true ∧ matchRow true q vs = true ∧
        ∀ r ∈ m, matchRow false r vs = false) := by
  cases h : checkUseful env fuel m q with
  | ok b => exact ⟨b, rfl, useful_iff hinh fuel m q tys b hm hq h⟩
  | error e =>
    cases e with
    | fuel => exact absurd h (useful_terminates env m q fuel hfuel)
    | panic site => exact absurd h (useful_no_panic hnog fuel m q tys site hm hq hg)

/-- on the example: with fuel 22 the answer exists (it is `true`, see the example after `useful_iff`) -/
example : ∃ b, checkUseful exEnv 22 exMatrix exRow = .ok b ∧
    (b = true ↔ ∃ vs, hasTypes exEnv vs exTys = true ∧ matchRow true exRow vs = true ∧
      ∀ r ∈ exMatrix, matchRow false r vs = false) :=
  useful_decided exEnv_inh exEnv_noGuardFields exMatrix exRow exTys exMatrix_wt (by decide)
    (guardOK_of_guardLast exRow exTys exTys_guardLast) 22 (by decide)

/-- Exhaustiveness is DECIDED, unconditionally: for every well-typed matrix (every type inhabited) and every amount
    of fuel above the computable bound, `check_exhaustive` returns a list of rows — it neither runs out of fuel
    nor panics —, the list is empty exactly when every well-typed value vector is matched by some row (guarded
    rows matching nothing), every returned row has one entry per column, and every returned row is a genuine
    witness (it matches, read with `matchWits`, a value vector that no row of the matrix matches). -/
theorem exhaustive_decided {env : Env} (hinh : Inh env) (m : List (List Pat)) (n : Nat) (tys : List Ty)
    (hm : matrixWT env m tys) (hn : tys.length = n) (fuel : Nat) (hfuel : exhaustiveBound m n < fuel) :
    ∃ res, checkExhaustive env fuel m n = .ok res ∧
      (res = [] ↔ ∀ vs, hasTypes env vs tys = true → ∃ r ∈ m, matchRow false r vs = true) ∧
      (∀ w ∈ res, w.length = n) ∧
      (∀ w ∈ res, ∃ vs, hasTypes env vs tys = true ∧ matchWits w vs = true ∧
        ∀ r ∈ m, matchRow false r vs = false) := by
  cases h : checkExhaustive env fuel m n with
  | ok res =>
    exact ⟨res, rfl, exhaustive_iff hinh fuel m n tys res hm hn h,
      checkExhaustive_length fuel m n tys res hm hn h, witness_sound hinh fuel m n tys res hm hn h⟩
  | error e =>
    cases e with
    | fuel => exact absurd h (exhaustive_terminates env m n fuel hfuel)
    | panic site => exact absurd h (exhaustive_no_panic fuel m n tys site hm hn)

/-- on the example: with fuel 33 the answer exists; the matrix is not exhaustive, so a witness is returned -/
example : ∃ res, checkExhaustive exEnv 33 exMatrix 2 = .ok res ∧ res ≠ [] := by
  obtain ⟨res, hres, _, _, _⟩ := exhaustive_decided exEnv_inh exMatrix 2 exTys exMatrix_wt rfl 33 (by decide)
  refine ⟨res, hres, ?_⟩
  have : (checkExhaustive exEnv 33 exMatrix 2).toOption.map (·.length) = some 1 := by rfl
  rw [hres] at this
  intro hnil
  subst hnil
  simp [Except.toOption] at this

/-- What is proved about panics of the arm-reachability pass `check_useful_expand` (the row of an arm as
    `check_match` builds it: every `|`-alternative carries a span, `Guard` only as last entry): on well-typed
    input the ONLY assert it can reach is `assert!(spans.insert(span))` of `Useless::union_all`
    ("exhaustiveness.rs:677"); all other `assert!` / `unreachable!` / `expect` / index sites are excluded.
    FULL STATEMENT (not proved): `checkUsefulExpand env fuel m row` is `.ok _` for every well-typed input and
    enough fuel. MISSING: (1) that the same span is never inserted twice (typing does not exclude it; it needs an
    argument that the spans of distinct sub-patterns are distinct paths), (2) a fuel bound for
    `check_useful_expand_inner` (the alternatives loop re-enters with rows built from `r`). The correspondence
    run reports `!panic` / `!fuel` if either ever happens. -/
theorem arm_check_no_other_panic_partial {env : Env} (hnog : NoGuardFields env) (fuel : Nat) (m : List (List Pat))
    (row : List Pat) (tys : List Ty) (site : String) (hm : matrixWT env m tys) (hrow : patsWT env row tys = true)
    (hsp : ∀ x ∈ row, spanned x = true) (hg : guardX row)
    (h : checkUsefulExpand env fuel m row = .error (.panic site)) :
    site = "exhaustiveness.rs:677 assert (span reported twice)" :=
  checkUsefulExpand_onlyDup hnog fuel m row tys hm hrow hsp hg site h

example : checkUsefulExpand exEnv 30 exMatrix exRow = .ok (.set []) := by rfl
example : ∀ x ∈ exRow, spanned x = true := by decide
example : guardX exRow := by simp [exRow, guardX, anyNoSpan, leaves, leavesL]

end Dora.Match.C11
