import DoraModel.Match.LemmasExpand
import DoraModel.Match.LemmasSurface
/-!
# C11 — Match exhaustiveness and reachability are decided exactly

Property theorems only. Model: `DoraModel/Match/Model.lean` (transcription of
`dora-frontend/src/exhaustiveness.rs`). Hypotheses throughout: the matrix is well-typed for its column types
(`matrixWT`, `patsWT`) and every type is inhabited (`Inh`; the front end rejects empty enums).

The transcribed recursion is not structural, so the model functions carry a fuel argument and return
`Except`: `.ok r` = the Rust function returns `r`; `.error .fuel` = fuel exhausted; `.error (.panic _)` = an
`assert!`/`unreachable!` fired. Every theorem below is about runs that return. NOT proved: that enough fuel
always exists (termination of the Rust recursion) and that well-typed inputs never panic; the correspondence
run reports `!fuel` / `!panic` lines if that ever happens.
-/
namespace Dora.Match.C11
open Dora.Match

/-! ### examples used for non-vacuity -/

/-- rows `E::A(true | false, _)` (guarded) and `E::A(_, true)`; row under test `E::A(false, false) | E::B`:
    an alternative, nested constructors and a guard -/
def exMatrix : List (List Pat) :=
  [[.ctor [0] (.enum 0 0) [.alt [0, 0] [.lit [0, 0, 0] (.bool true), .lit [0, 0, 1] (.bool false)], .any (some [0, 1])], .guard],
   [.ctor [1] (.enum 0 0) [.any (some [1, 0]), .lit [1, 1] (.bool true)], anyNoSpan]]
def exRow : List Pat :=
  [.alt [2] [.ctor [2, 0] (.enum 0 0) [.lit [2, 0, 0] (.bool false), .lit [2, 0, 1] (.bool false)],
             .ctor [2, 1] (.enum 0 1) []], anyNoSpan]
def exTys : List Ty := [.adt 0, .guardT]

/-! ### sentence 1/2: usefulness is decided exactly -/

/-- "an arm is [useful] exactly when [some value it matches is not] already matched by earlier unguarded
    arms": whenever `check_useful` returns, it returns `true` iff some well-typed value vector is matched by the
    row (its own guard taken to hold) and by no row of the matrix, a guarded row of the matrix matching nothing. -/
theorem useful_iff {env : Env} (hinh : Inh env) (fuel : Nat) (m : List (List Pat)) (q : List Pat)
    (tys : List Ty) (b : Bool) (hm : matrixWT env m tys) (hq : patsWT env q tys = true)
    (h : checkUseful env fuel m q = .ok b) :
    b = true ↔ ∃ vs, hasTypes env vs tys = true ∧ matchRow true q vs = true ∧
      ∀ r ∈ m, matchRow false r vs = false :=
  checkUseful_correct hinh fuel m q tys b hm hq h

example : checkUseful exEnv 20 exMatrix exRow = .ok true := by rfl
example : matrixWT exEnv exMatrix exTys := by
  intro r hr
  simp only [exMatrix, List.mem_cons, List.not_mem_nil, or_false] at hr
  rcases hr with rfl | rfl <;> decide
example : patsWT exEnv exRow exTys = true := by decide
/-- the hypotheses of `useful_iff` hold on the example and its conclusion is the non-trivial direction -/
example : ∃ vs, hasTypes exEnv vs exTys = true ∧ matchRow true exRow vs = true ∧
    ∀ r ∈ exMatrix, matchRow false r vs = false :=
  (useful_iff exEnv_inh 20 exMatrix exRow exTys true
    (by intro r hr
        simp only [exMatrix, List.mem_cons, List.not_mem_nil, or_false] at hr
        rcases hr with rfl | rfl <;> decide)
    (by decide) (by rfl)).mp rfl

/-! ### sentence 1: exhaustiveness is decided exactly -/

/-- "A match expression is accepted exactly when its arms cover every value of the scrutinee's type, guarded
    arms not counting as covering": whenever `check_exhaustive` returns, it returns no missing pattern iff every
    well-typed value vector is matched by some row, a guarded row (guard column = `Guard`) matching nothing. -/
theorem exhaustive_iff {env : Env} (hinh : Inh env) (fuel : Nat) (m : List (List Pat)) (n : Nat)
    (tys : List Ty) (res : List (List Pat)) (hm : matrixWT env m tys) (hn : tys.length = n)
    (h : checkExhaustive env fuel m n = .ok res) :
    res = [] ↔ ∀ vs, hasTypes env vs tys = true → ∃ r ∈ m, matchRow false r vs = true := by
  have hc := checkExhaustive_correct hinh fuel m n tys res hm hn h
  constructor
  · intro hres vs hvs
    apply Classical.byContradiction
    intro hno
    apply hc.1 hres vs hvs
    intro r hr
    cases hmr : matchPats false r vs with
    | false => rfl
    | true => exact absurd ⟨r, hr, hmr⟩ hno
  · intro hall
    cases res with
    | nil => rfl
    | cons w ws =>
      obtain ⟨vs, hvs, _, hu⟩ := hc.2 w List.mem_cons_self
      obtain ⟨r, hr, hmr⟩ := hall vs hvs
      have := hu r hr
      simp [matchRow] at hmr
      rw [hmr] at this; cases this

/-- every row returned by `check_exhaustive` (the "Missing patterns" of the error message) is a genuine witness:
    read with `matchWit` (a constructor printed without arguments stands for any arguments) it matches a
    well-typed value vector that no row of the matrix matches. -/
theorem witness_sound {env : Env} (hinh : Inh env) (fuel : Nat) (m : List (List Pat)) (n : Nat)
    (tys : List Ty) (res : List (List Pat)) (hm : matrixWT env m tys) (hn : tys.length = n)
    (h : checkExhaustive env fuel m n = .ok res) :
    ∀ w ∈ res, ∃ vs, hasTypes env vs tys = true ∧ matchWits w vs = true ∧
      ∀ r ∈ m, matchRow false r vs = false :=
  (checkExhaustive_correct hinh fuel m n tys res hm hn h).2

/-- the example matrix is not exhaustive; the witness returned is `E::A(false, false)` with the guard column `_` -/
example : (checkExhaustive exEnv 20 exMatrix 2).toOption.map (·.length) = some 1 := by rfl
example : checkExhaustive exEnv 20 (exMatrix ++ [[anyNoSpan, anyNoSpan]]) 2 = .ok [] := by rfl

/-! ### sentence 2: an arm is reported unreachable exactly when it is -/

/-- "an arm is reported unreachable exactly when every value it matches is already matched by earlier
    unguarded arms": whenever `check_useful_expand` returns, it returns `Useless::Yes` (the whole arm gets the
    `USELESS_PATTERN` warning) iff every well-typed value vector matched by the arm's row is matched by a row of
    the matrix built from the earlier arms, guarded rows matching nothing.
    Not covered: WHICH sub-pattern alternatives a `Useless::Set` result lists (soundness/completeness of the
    reported sub-pattern spans is compared with the implementation in the correspondence run, not proved). -/
theorem arm_unreachable_iff {env : Env} (hinh : Inh env) (fuel : Nat) (m : List (List Pat)) (row : List Pat)
    (tys : List Ty) (u : Useless) (hm : matrixWT env m tys) (hrow : patsWT env row tys = true)
    (h : checkUsefulExpand env fuel m row = .ok u) :
    u.isYes = true ↔ ∀ vs, hasTypes env vs tys = true → matchRow true row vs = true →
      ∃ r ∈ m, matchRow false r vs = true := by
  rw [checkUsefulExpand_yes hinh fuel m row tys u hm hrow h]
  constructor
  · intro hnu vs hvs hmr
    apply Classical.byContradiction
    intro hno
    apply hnu
    refine ⟨vs, hvs, hmr, ?_⟩
    intro r hr
    cases hmr' : matchPats false r vs with
    | false => rfl
    | true => exact absurd ⟨r, hr, hmr'⟩ hno
  · rintro hall ⟨vs, hvs, hmr, hu⟩
    obtain ⟨r, hr, hmr'⟩ := hall vs hvs hmr
    have := hu r hr
    simp [matchRow] at hmr'
    rw [hmr'] at this; cases this

/-- third arm `E::A(true, true) | E::A(_, true)` after the two example rows: the whole arm is unreachable although
    the first row is guarded (the second, unguarded row covers it); with only the guarded row it is reachable -/
example : (checkUsefulExpand exEnv 30 exMatrix
    [.alt [2] [.ctor [2, 0] (.enum 0 0) [.lit [2, 0, 0] (.bool true), .lit [2, 0, 1] (.bool true)],
               .ctor [2, 1] (.enum 0 0) [.any (some [2, 1, 0]), .lit [2, 1, 1] (.bool true)]], anyNoSpan]).toOption.map
      Useless.isYes = some true := by rfl
example : (checkUsefulExpand exEnv 30 (exMatrix.take 1)
    [.alt [2] [.ctor [2, 0] (.enum 0 0) [.lit [2, 0, 0] (.bool true), .lit [2, 0, 1] (.bool true)],
               .ctor [2, 1] (.enum 0 0) [.any (some [2, 1, 0]), .lit [2, 1, 1] (.bool true)]], anyNoSpan]).toOption.map
      Useless.isYes = some false := by rfl

/-! ### "Consequently an accepted match never falls through" -/

/-- `match e { E::A(.., true) => 0, E::A(false, ..) => 1, E::B => 2 }` as the type checker hands it over -/
def badArms : List Arm := [
  ⟨false, .ctor (.variant 0 0) [none, none] [.rest, .litBool true]⟩,
  ⟨false, .ctor (.variant 0 0) [none, none] [.litBool false, .rest]⟩,
  ⟨false, .identVariant 0 1⟩]

/-- regression: on the repaired conversion (sub-patterns after `..` are placed at the field index the type checker
    recorded) this match is REJECTED — `E::A(true, false)` is reported missing. It used to be accepted and fell
    through at run time; corpus/C11 keeps it and the check's oracle demands the rejection from the real front end. -/
example : accepted exEnv 40 badArms = false := by decide
example : firstMatch badArms (fun _ => true) (.ctor 0 [.ctor 1 [], .ctor 0 []]) = none := by decide

/-- What survives of `accepted_no_fallthrough`: IF the converted matrix patterns mean what the surface patterns
    mean at run time (`hconv`; this is what fails for a positional `..` that is not last, and what the
    correspondence run checks by brute force on every generated match) and are well-typed, then an accepted match
    selects some arm for every value of the scrutinee's type, whatever the guards evaluate to.
    GAP (why `_partial`): `hconv` is a hypothesis; it is not derived from a syntactic condition "`..` is last or
    absent" on the surface patterns (that needs the correctness of `convert_subpatterns` for those patterns). -/
theorem accepted_no_fallthrough_partial {env : Env} (hinh : Inh env) (fuel : Nat) (arms : List Arm) (t : Ty)
    (hwt : ∀ j a cp, arms[j]? = some a → convertPattern env [j] a.pat = .ok cp → patWT env cp t = true)
    (hconv : ∀ j a cp, arms[j]? = some a → convertPattern env [j] a.pat = .ok cp →
      ∀ v, hasType env v t = true → matchPat false cp v = smatch a.pat v)
    (hacc : accepted env fuel arms = true) :
    ∀ v guards, hasType env v t = true → firstMatch arms guards v ≠ none := by
  intro v guards hv
  exact firstMatchFrom_ne_none guards v arms 0 (accepted_covers hinh fuel arms t hwt hconv hacc v hv)

/-- `match e { E::A(true, ..) if g => 0, E::A(_, _) => 1, E::B => 2 }`: accepted, `..` last, a guard -/
def goodArms : List Arm := [
  ⟨true, .ctor (.variant 0 0) [none, none] [.litBool true, .rest]⟩,
  ⟨false, .ctor (.variant 0 0) [none, none] [.underscore, .var]⟩,
  ⟨false, .identVariant 0 1⟩]
example : accepted exEnv 40 goodArms = true := by decide
example : firstMatch goodArms (fun _ => false) (.ctor 0 [.ctor 1 [], .ctor 0 []]) = some 1 := by decide

/-! ### "…and selects the first arm whose pattern and guard hold" (the specification the lowering is compared with) -/

/-- `firstMatch` (the arm the generated code must take) is the least arm index whose pattern matches the value
    and whose guard, if any, holds. -/
theorem firstMatch_least (arms : List Arm) (guards : Nat → Bool) (v : Val) (i : Nat) :
    firstMatch arms guards v = some i ↔
      ∃ a, arms[i]? = some a ∧ (smatch a.pat v && (!a.guarded || guards i)) = true ∧
        ∀ j < i, ∀ a', arms[j]? = some a' → (smatch a'.pat v && (!a'.guarded || guards j)) = false := by
  rw [firstMatch, firstMatchFrom_spec]
  constructor
  · rintro ⟨j, rfl, a, ha, hm, hmin⟩
    refine ⟨a, by simpa using ha, hm, ?_⟩
    intro j' hj' a' ha'
    have := hmin j' (by omega) a' ha'
    simpa using this
  · rintro ⟨a, ha, hm, hmin⟩
    exact ⟨i, by omega, a, ha, hm, fun j' hj' a' ha' => by simpa using hmin j' hj' a' ha'⟩

/-- second arm guarded and its guard false: the third arm is taken -/
example : firstMatch [⟨false, .litBool true⟩, ⟨true, .underscore⟩, ⟨false, .var⟩] (fun _ => false) (.ctor 0 []) = some 2 := by
  decide

end Dora.Match.C11
