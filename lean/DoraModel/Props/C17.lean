import DoraModel.Fmt.Lemmas
/-!
# C17 — Formatting never changes a program and is stable

Property theorems only.  They are about the renderer (`dora-format/src/render.rs`, model
`DoraModel/Fmt/Model.lean`), for EVERY document and EVERY line length: whatever the Doc builders hand to the
renderer, rendering terminates and can only move white space.  The builders themselves (syntax tree → Doc) are not
modelled; token preservation, comment preservation and idempotence of the whole formatter are checked per input by
`checks/c17.py` on the real code.

Arithmetic is unbounded here (`Nat`/`Int`); it coincides with the Rust `u32`/`usize`/`i32` arithmetic while line
length, indentation and text sizes stay below 2^31.
-/
namespace Dora.Fmt.C17
open Dora.Fmt

/-- a document with Group + Nest + IfBreak: `f(a, b)` / broken with a trailing comma -/
def exDoc : Doc :=
  .group (.concat [.text "f(".toList,
    .nest 4 (.concat [.softBreak, .text "a,".toList, .softLine, .text "b".toList, .ifBreak (.text ",".toList)]),
    .softBreak, .text ")".toList])

/-- "the formatter's output …" exists at all: both loops of the renderer (`render_node`, `fits`) terminate for
every document and every line length (the fuel `Doc.size` is never exhausted). -/
theorem render_total (d : Doc) (w : Nat) : ∃ out, render d w = some out := by
  unfold render
  obtain ⟨r', h⟩ := renderLoop_total d.size (Render.new w) [(0, Mode.brk, d)] (by simp [stackSize])
  exact ⟨r'.out.reverse, by simp [h]⟩

example : render exDoc 80 = some "f(a, b)".toList := by decide
example : render exDoc 5 = some "f(\n    a,\n    b,\n)".toList := by decide

/-- "contains the same code tokens in the same order — only layout … may differ" (renderer half): for every
document and every line length, the output without its blanks and line breaks is the sequence of the document's
`Text` payloads in document order (again without blanks and line breaks), where each `IfBreak` subtree is either
taken as a whole or left out as a whole.  The renderer never reorders, drops, duplicates or splits a text: layout
can only move white space. -/
theorem render_atoms (d : Doc) (w : Nat) (out : List Char) (h : render d w = some out) :
    ∃ l, DocAtoms .brk d l ∧ nonLayout out = nonLayout l := by
  unfold render at h
  cases hr : renderLoop d.size (Render.new w) [(0, Mode.brk, d)] with
  | none => simp [hr] at h
  | some r' =>
    simp only [hr, Option.map_some, Option.some.injEq] at h
    obtain ⟨l, hs, he⟩ := renderLoop_atoms _ _ _ _ hr
    cases hs with
    | cons _ _ _ _ la lb ha hb =>
      cases hb
      refine ⟨la, ha, ?_⟩
      subst h
      simpa [Render.written, Render.new, nonLayout] using he

/- non-vacuity: both selections of the IfBreak occur, at different widths -/
example : DocAtoms .brk exDoc "f(a,b)".toList :=
  DocAtoms.group _ .flat _ _ (DocAtoms.concat _ _ _
    (DocsAtoms.cons _ _ _ _ _ (DocAtoms.text _ _)
      (DocsAtoms.cons _ _ _ "a,b".toList _ (DocAtoms.nest _ _ _ _ (DocAtoms.concat _ _ _
          (DocsAtoms.cons _ _ _ [] _ (DocAtoms.softBreak _)
            (DocsAtoms.cons _ _ _ "a,".toList _ (DocAtoms.text _ _)
              (DocsAtoms.cons _ _ _ [] _ (DocAtoms.softLine _)
                (DocsAtoms.cons _ _ _ "b".toList _ (DocAtoms.text _ _)
                  (DocsAtoms.cons _ _ _ [] [] (DocAtoms.ifBreakFlat _) (DocsAtoms.nil _))))))))
        (DocsAtoms.cons _ _ _ [] _ (DocAtoms.softBreak _)
          (DocsAtoms.cons _ _ _ ")".toList [] (DocAtoms.text _ _) (DocsAtoms.nil _))))))
example : nonLayout "f(\n    a,\n    b,\n)".toList = "f(a,b,)".toList := by decide
example : nonLayout "f(a, b)".toList = "f(a,b)".toList := by decide

/-- Special case that needs no choice: a document without `IfBreak` is rendered, at every line length, to its
texts in order with only blanks and line breaks in between. -/
theorem render_atoms_no_ifbreak (d : Doc) (w : Nat) (out : List Char) (h : render d w = some out)
    (hn : d.hasIfBreak = false) : nonLayout out = nonLayout d.texts.flatten := by
  obtain ⟨l, hl, he⟩ := render_atoms d w out h
  rw [he, docAtoms_noIfBreak hl hn]

example : (Doc.group (.concat [.text "a".toList, .softLine, .nest 2 (.text "b c".toList)])).hasIfBreak = false := by
  decide

/-- Trailing blanks (not part of the property text; what the renderer guarantees, exactly): if no text of the
document contains a line break, then at every line length no line that the renderer terminates ends in a blank —
the output never contains a blank directly followed by a line break.
The unconditional statement "no output line ends in a blank" is FALSE for the renderer: a text may carry
`" \n"` inside (multi-line comment, string literal), and the last line is not stripped (examples below). -/
theorem no_blank_before_newline (d : Doc) (w : Nat) (out : List Char) (h : render d w = some out)
    (ht : ∀ s ∈ d.texts, '\n' ∉ s) : ∀ pre suf : List Char, out ≠ pre ++ ' ' :: '\n' :: suf := by
  unfold render at h
  cases hr : renderLoop d.size (Render.new w) [(0, Mode.brk, d)] with
  | none => simp [hr] at h
  | some r' =>
    simp only [hr, Option.map_some, Option.some.injEq] at h
    have hok : okRev r'.out :=
      renderLoop_okRev _ _ _ _ hr (by simpa [stackTexts] using ht) (by simp [Render.new, okRev])
    intro pre suf
    rw [← h]
    exact okRev_no_blank_newline _ hok pre suf

/- non-vacuity: the blank written for `a,` + SoftLine-in-flat … is stripped when the line is broken -/
example : ∀ s ∈ exDoc.texts, '\n' ∉ s := by decide
example : render (.concat [.text "a ".toList, .hardLine, .text "b".toList]) 80 = some "a\nb".toList := by decide
/- the two hypotheses cannot be dropped -/
example : render (.concat [.text "/* a \n*/".toList, .hardLine]) 80 = some "/* a \n*/\n".toList := by decide
example : render (.text "a ".toList) 80 = some "a ".toList := by decide

/- `flat_group_fits` ("a group rendered flat does not exceed the line length up to the next possible break") is
NOT a theorem of this renderer and is not claimed: `fits` measures from the group's own indentation when the
line is still empty, but the text is later written at the indentation of the innermost `Nest` around it. It is a
layout matter only; the property text does not speak about it. -/
example : render (.group (.nest 4 (.text "abc".toList))) 5 = some "    abc".toList := by decide

end Dora.Fmt.C17
