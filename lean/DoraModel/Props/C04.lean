import DoraModel.Stw.Progress
/-!
# C04 — No managed thread runs while the world is stopped

Property theorems only; the model is `DoraModel/Stw/Model.lean` (one shim operation per step, any number `N` of
thread slots, every interleaving, spurious wake-ups, arbitrary `notify_one` target, thread start and exit at
any point).  All statements are about every state reachable through events the trace acceptor `accept`
allows (`Reach N`), i.e. about the same executable object that checks the traces of the real
`safepoint.rs` / `threads.rs`.  State bytes: 0 Running, 1 Parked, 2 SafepointRequested,
3 ParkedSafepointRequested, 4 Safepoint.  `runC pc` = the thread is between `unpark` and `park`
(mutator region or runtime code that may touch the heap) = the harness' `mutating` flag.
-/
namespace Dora.Stw.C04
open Dora.Stw

variable {N : Nat} {s : State}

/-- the initiator is inside the operation (`invoke_safepoint_operation`, incl. the single-thread shortcut) or in
`resume_threads`, having processed `list[0..k)`: `some k` -/
def opFrom : PC → Option Nat
  | .rtS1 | .op | .opS => some 0
  | .rs k => some k
  | _ => none

/-- "every other registered thread is blocked at a safepoint or parked in native code, and stays so until the
operation has finished": while thread `i` is between the end of `wait_until_threads_stopped` and the end of the
operation — and afterwards until `resume_threads` has processed it (`k ≤ j`) — every other element `u` of the
thread list has state ParkedSafepointRequested or Safepoint and is NOT in its mutator region. -/
theorem world_stopped (hr : Reach N s) {i k : Nat} {x : Thr} (hi : s.thr[i]? = some x) (hop : opFrom x.pc = some k) :
    ∀ (j u : Nat), k ≤ j → s.list[j]? = some u → u ≠ i →
      ∃ y, s.thr[u]? = some y ∧ (y.st = 3 ∨ y.st = 4) ∧ runC y.pc = false := by
  intro j u hkj hj hui
  have h := hr.inv
  obtain ⟨l1, l2, l3, l4, l5, l6, l7⟩ := h.loc i x hi
  obtain ⟨y, hy, hyin, hyidx⟩ := h.mem j u hj
  obtain ⟨m1, m2, m3, m4, m5, m6, m7⟩ := h.loc u y hy
  have hC := h.cnt
  rw [cntOk_iff] at hC
  have hjl := lt_of_get hj
  -- the phase says the request bit of `u` is set and nobody is pending
  have key : PhC s.phase j ∧ s.thr.countP isPend = 0 ∨ (s.list.length = 1 ∧ inList x.pc = true) := by
    obtain ⟨pc, st, idx⟩ := x
    cases pc <;> simp [opFrom] at hop <;> simp [PhOk] at l7
    case rtS1 => left; rw [l7.1] at hC ⊢; exact ⟨trivial, hC⟩
    case op => left; rw [l7.1] at hC ⊢; exact ⟨trivial, hC⟩
    case opS => right; exact ⟨l7.2.2, rfl⟩
    case rs k' => subst hop; left; rw [l7.1] at hC ⊢; exact ⟨hkj, hC⟩
  rcases key with ⟨hph, hz⟩ | ⟨hlen, hxin⟩
  · have h2 : 2 ≤ y.st := by rw [m5, reqBit_iff, hyidx]; exact ⟨hyin, hph⟩
    have hnp := Inv.not_pend_of_zero hy hz
    simp [isPend] at hnp
    refine ⟨y, hy, by omega, ?_⟩
    cases hrc : runC y.pc
    · rfl
    · exfalso
      have : y.st = 0 ∨ y.st = 2 := runC_st hrc m3
      omega
  · -- single-thread shortcut: the list is `[i]`
    exfalso
    have hli := l4 hxin
    have h0 : j = 0 := by omega
    have h1 : x.idx = 0 := by have := lt_of_get hli; omega
    rw [h0] at hj; rw [h1, hj] at hli
    simp at hli; exact hui hli

/-- "no thread touches the managed heap during the operation": while thread `i` is inside the operation no
heap access (`touch`, possible only in the mutator region) of any thread is a step of the system. -/
theorem no_touch_during_operation (hr : Reach N s) {i : Nat} {x : Thr} (hi : s.thr[i]? = some x)
    (hop : x.pc = .rtS1 ∨ x.pc = .op ∨ x.pc = .opS) (u : Nat) (s' : State) : accept s ⟨u, .touch⟩ ≠ .ok s' := by
  intro ha
  have h := hr.inv
  unfold accept at ha
  split at ha
  · simp at ha
  · rename_i y hy
    simp only at hy
    have hmut : y.pc = .mut := by
      obtain ⟨pc, st, idx⟩ := y
      cases pc <;> simp [stepAt] at ha
      rfl
    by_cases hui : u = i
    · subst hui; rw [hi] at hy; cases hy
      rcases hop with h1 | h1 | h1 <;> rw [hmut] at h1 <;> cases h1
    · have hl := (h.loc u y hy).2.2.2.1 (by rw [hmut]; rfl)
      have hk : opFrom x.pc = some 0 := by rcases hop with h1 | h1 | h1 <;> rw [h1] <;> rfl
      obtain ⟨y', hy', -, hrun⟩ := world_stopped hr hi hk y.idx u (Nat.zero_le _) hl hui
      rw [hy] at hy'; cases hy'
      rw [hmut] at hrun; simp [runC] at hrun

/-- "never leave a thread out": every registered thread (started and not yet removed — `inList`) is an element
of the list the initiator iterates over, at the index it knows; the list has no duplicates. -/
theorem nobody_left_out (hr : Reach N s) :
    (∀ (u : Nat) (y : Thr), s.thr[u]? = some y → inList y.pc = true → s.list[y.idx]? = some u) ∧
    (∀ (j j' u : Nat), s.list[j]? = some u → s.list[j']? = some u → j = j') := by
  have h := hr.inv
  refine ⟨fun u y hy hin => (h.loc u y hy).2.2.2.1 hin, ?_⟩
  intro j j' u hj hj'
  obtain ⟨y, hy, -, e⟩ := h.mem j u hj
  obtain ⟨y', hy', -, e'⟩ := h.mem j' u hj'
  rw [hy] at hy'; cases hy'; omega

/-- "stopped = running and each counted thread reported exactly once": from `arm` on, the initiator's count
`r` of threads it saw Running equals `stopped` plus the number of threads that still have to report (state
SafepointRequested, or between their state change and the locked `stopped += 1`); hence `stopped ≤ r`, and when the
initiator leaves `wait_until_threads_stopped` (`¬ stopped < r`) then `stopped = r` and nobody is left to report.
A thread stops being pending only by the one step that increments `stopped`. -/
theorem stopped_count (hr : Reach N s) {i st idx : Nat} {pc : PC} (hi : s.thr[i]? = some ⟨pc, st, idx⟩) (r : Nat)
    (hpc : (∃ k, pc = .fo k r) ∨ pc = .wuB1 r ∨ pc = .wuWait r ∨ pc = .wuWoken r) :
    s.stopped + s.thr.countP isPend = r ∧ (¬ s.stopped < r → s.stopped = r ∧ s.thr.countP isPend = 0) := by
  have h := hr.inv
  have l7 := (h.loc i _ hi).2.2.2.2.2.2
  have hC := h.cnt
  rw [cntOk_iff] at hC
  have : ∃ k, s.phase = .req k r := by
    rcases hpc with ⟨k, rfl⟩ | rfl | rfl | rfl <;> simp [PhOk] at l7 <;> exact ⟨_, l7.1⟩
  obtain ⟨k, hk⟩ := this
  rw [hk] at hC
  simp only [CntTarget] at hC
  exact ⟨hC, fun hn => by omega⟩

/-- once the initiator is past `wait_until_threads_stopped` nobody is left to report (and nobody becomes pending
again before `disarm`) -/
theorem stopped_count_after (hr : Reach N s) {i k : Nat} {x : Thr} (hi : s.thr[i]? = some x)
    (hop : opFrom x.pc = some k) (hne : x.pc ≠ .opS) : s.thr.countP isPend = 0 := by
  have h := hr.inv
  have l7 := (h.loc i x hi).2.2.2.2.2.2
  have hC := h.cnt
  rw [cntOk_iff] at hC
  obtain ⟨pc, st, idx⟩ := x
  cases pc <;> simp [opFrom] at hop <;> simp [PhOk] at l7 <;> simp at hne <;> rw [l7.1] at hC <;> exact hC

/-- None of the protocol's `assert!` / `assert_eq!` / `debug_assert!` / `expect` / `unreachable!` can fail
(`parked_scope`: is_running before and after; `park_slow`: CAS SafepointRequested→ParkedSafepointRequested succeeds;
`notify_park` / `wait_in_safepoint` / `wait_until_threads_stopped` / `disarm`: armed; `arm`: not armed;
`unpark_slow`: state seen is ParkedSafepointRequested; `safepoint_slow`: old state SafepointRequested;
`stop_threads`: old state Running or Parked; `stopped == running`; `set_state`: old runtime state;
`resume_threads`: old state Safepoint or ParkedSafepointRequested; `add_thread`: new thread parked;
`remove_current_thread`: `threads[idx]` is the current thread; single-thread shortcut: the one thread is the
current one; `ThreadState::from`): no reachable state has a thread at `panicked`. -/
theorem asserts_hold (hr : Reach N s) : ∀ (t : Nat) (x : Thr), s.thr[t]? = some x → x.pc ≠ .panicked := by
  intro t x hx hp
  have := (hr.inv.loc t x hx).2.2.1
  rw [hp] at this
  simp [StOk] at this

/-- "simultaneous requests from several threads": concurrent initiators serialise on the thread-list lock — at
most one thread is anywhere between `threads.lock()` and the drop of the guard; same for the barrier's mutex. -/
theorem locks_exclusive (hr : Reach N s) {t u : Nat} {x y : Thr} (ht : s.thr[t]? = some x) (hu : s.thr[u]? = some y) :
    (holdsL x.pc = true → holdsL y.pc = true → t = u) ∧ (holdsB x.pc = true → holdsB y.pc = true → t = u) := by
  have h := hr.inv
  have a := h.loc t x ht
  have b := h.loc u y hu
  constructor
  · intro h1 h2
    have := a.1.mp h1; rw [b.1.mp h2] at this; simpa using this.symm
  · intro h1 h2
    have := a.2.1.mp h1; rw [b.2.1.mp h2] at this; simpa using this.symm

/-- the barrier is armed exactly between `arm` and `disarm` of the (unique) initiator, the runtime state is
`Safepoint` only inside an operation, and while nobody holds the list lock no thread has a request bit set. -/
theorem quiescent (hr : Reach N s) (hl : s.lockL = none) :
    s.armed = false ∧ s.rt = 0 ∧ ∀ (u : Nat) (y : Thr), s.thr[u]? = some y → y.st = 0 ∨ y.st = 1 := by
  have h := hr.inv
  obtain ⟨hid, hrt⟩ := h.nolock hl
  refine ⟨?_, hrt, ?_⟩
  · cases ha : s.armed
    · rfl
    · exact absurd hid (h.armedIff.mp ha)
  · intro u y hy
    have := (h.loc u y hy).2.2.2.2.1
    rw [hid, reqBit_iff] at this
    simp [PhC] at this
    omega

/-- the thread is inside `remove_current_thread`, before it has got the list lock -/
def exiting : PC → Bool
  | .park0 .exit | .parkS .exit | .parkB0 .exit | .parkB1 .exit | .parkB2 .exit | .rmL0 => true
  | _ => false

/-- "thread exit never leaves a thread out" — `remove_current_thread` racing with `stop_threads`: a thread that is
exiting but has not yet taken the list lock is still an element of the list at its index (so the initiator's loops
reach it); nobody but the holder of the list lock is past `threads.lock()` of `add_thread` /
`remove_current_thread`, i.e. the list does not change under the initiator; and while another thread `i` runs an
operation the exiting thread has parked itself through `park_slow` (state ParkedSafepointRequested, its report
counted) and is waiting for the barrier mutex or the list lock — it cannot remove itself before `i` drops the lock. -/
theorem exit_during_stop_the_world (hr : Reach N s) {u : Nat} {y : Thr} (hu : s.thr[u]? = some y)
    (hex : exiting y.pc = true) :
    s.list[y.idx]? = some u ∧ holdsL y.pc = false ∧
    (∀ (i k : Nat) (x : Thr), s.thr[i]? = some x → opFrom x.pc = some k → k ≤ y.idx →
      y.st = 3 ∧ s.lockL = some i ∧ i ≠ u) := by
  have h := hr.inv
  have hin : inList y.pc = true := by
    obtain ⟨pc, st, idx⟩ := y
    cases pc <;> simp [exiting] at hex <;> rfl
  have hnl : holdsL y.pc = false := by
    obtain ⟨pc, st, idx⟩ := y
    cases pc <;> simp [exiting] at hex <;> rfl
  have hl := (nobody_left_out hr).1 u y hu hin
  refine ⟨hl, hnl, ?_⟩
  intro i k x hi hop hk
  have hxL : holdsL x.pc = true := by
    obtain ⟨pc, st, idx⟩ := x
    cases pc <;> simp [opFrom] at hop <;> rfl
  have hiu : i ≠ u := by
    intro e; subst e; rw [hu] at hi; cases hi; rw [hnl] at hxL; cases hxL
  obtain ⟨y', hy', hst, -⟩ := world_stopped hr hi hop y.idx u hk hl (Ne.symm hiu)
  rw [hu] at hy'; cases hy'
  refine ⟨?_, (h.loc i x hi).1.mp hxL, hiu⟩
  have key : ∀ (pc : PC) (st : Nat), exiting pc = true → StOk pc st → st ≤ 3 := by
    intro pc st h1 h2
    cases pc <;> simp [exiting] at h1 <;> simp [StOk] at h2 <;> omega
  have := key y.pc y.st hex (h.loc u y hu).2.2.1
  omega

/-- "never lose a wake-up": (1) whenever the initiator sleeps in `wait_until_threads_stopped(r)` (`cv_notify.wait`),
`stopped < r` — some counted thread has not reported yet — or a reporting thread holds the barrier mutex between its
`stopped += 1` and its `notify_one()`; (2) whenever a thread sleeps in `wait_in_safepoint` / `wait_in_unpark`
(`cv_wakeup.wait`), the barrier is armed, or the disarming thread holds the barrier mutex between `disarm()` and
`notify_all()`.  (The model's `notify_one` must wake a waiter if there is one, `notify_all` wakes all: parking_lot's
contract.) -/
theorem no_lost_wakeup (hr : Reach N s) :
    (∀ (i r : Nat), s.pcOf i = some (.wuWait r) →
      s.stopped < r ∨ ∃ (b : Nat) (q : PC), s.lockB = some b ∧ s.pcOf b = some q ∧ isNotifier q = true) ∧
    (∀ (i : Nat) (q : PC), s.pcOf i = some q → isWaitWpc q = true →
      s.armed = true ∨ ∃ (b : Nat), s.lockB = some b ∧ s.pcOf b = some .disB1) :=
  ⟨hr.inv2.waitN, hr.inv2.waitW⟩

/-- "simultaneous requests from several threads, threads entering and leaving native code, thread start and thread
exit never deadlock": in every reachable state in which some started thread has not left (`live`), some thread can
take a step that is not a spurious wake-up.  In particular the states "the initiator waits for a report that never
comes", "everybody left is asleep in the barrier", "a thread waits for a lock whose owner sleeps" are unreachable.
`hslots` is about the model only: it has a fixed number `N` of thread slots, and a thread that is about to create
a thread needs a free one. -/
theorem deadlock_free (hr : Reach N s)
    (hslots : ∀ (t : Nat) (x : Thr), s.thr[t]? = some x → x.pc = .addA →
      ∃ (u : Nat) (y : Thr), s.thr[u]? = some y ∧ y.pc = .unborn)
    (hlive : ∃ (w : Nat) (x : Thr), s.thr[w]? = some x ∧ live x.pc = true) :
    ∃ (e : Event) (s' : State), e.act ≠ .spur ∧ accept s e = .ok s' :=
  progress hr hslots hlive

/-- "afterwards every thread resumes": (1) `disarm`'s `notify_all` leaves nobody in the wait set of `cv_wakeup`, the
barrier unarmed and every request bit cleared; (2) in ANY reachable state with the barrier unarmed, a thread still
in that wait set is about to be woken (the disarming thread holds the mutex just before `notify_all`) — so once the
barrier mutex is free again nobody sleeps on an unarmed barrier; (3) a woken thread re-acquires the free mutex, and
at the loop head of `wait_in_safepoint` / `wait_in_unpark` it leaves the loop when the barrier is unarmed.
(Whether an individual thread gets to run is up to the scheduler; `deadlock_free` says somebody always can.) -/
theorem all_resume (hr : Reach N s) :
    (∀ (i k : Nat) (s' : State), accept s ⟨i, .naW k⟩ = .ok s' →
      s'.thr.countP isWaitW = 0 ∧ s'.armed = false ∧
      ∀ (u : Nat) (y : Thr), s'.thr[u]? = some y → y.st = 0 ∨ y.st = 1) ∧
    (s.armed = false → ∀ (i : Nat) (q : PC), s.pcOf i = some q → isWaitWpc q = true →
      ∃ (b : Nat), s.lockB = some b ∧ s.pcOf b = some .disB1) ∧
    (s.lockB = none → ∀ (i : Nat) (x : Thr), s.thr[i]? = some x →
      ((x.pc = .spWoken ∨ ∃ r, x.pc = .unpWoken r) → ∃ s', accept s ⟨i, .relockB⟩ = .ok s')) ∧
    (s.armed = false → ∀ (i : Nat) (x : Thr), s.thr[i]? = some x →
      ((x.pc = .spB2 ∨ ∃ r, x.pc = .unpB1 r) → ∃ s', accept s ⟨i, .unlockB⟩ = .ok s')) := by
  refine ⟨fun i k s' ha => all_resume_notify hr ha, ?_, ?_, ?_⟩
  · intro hna i q hq hw
    rcases hr.inv2.waitW i q hq hw with h1 | h1
    · rw [hna] at h1; cases h1
    · exact h1
  · intro hB i x hx hpc
    obtain ⟨pc, st, idx⟩ := x
    rcases hpc with h1 | ⟨r, h1⟩ <;> simp at h1 <;> subst h1 <;>
      (cases hacc : accept s ⟨i, .relockB⟩ with
       | ok s' => exact ⟨s', rfl⟩
       | error m => simp [accept, hx, stepAt, hB] at hacc)
  · intro hna i x hx hpc
    obtain ⟨pc, st, idx⟩ := x
    rcases hpc with h1 | ⟨r, h1⟩ <;> simp at h1 <;> subst h1 <;>
      (cases hacc : accept s ⟨i, .unlockB⟩ with
       | ok s' => exact ⟨s', rfl⟩
       | error m => simp [accept, hx, stepAt, hna] at hacc)

/-! ## non-vacuity: a concrete 3-thread run through a full stop-the-world
Thread 0 spawns threads 1 and 2; thread 2 enters a native call (Parked); thread 0 requests a stop-the-world:
arms, sets the request bits (itself Parked→PSR, thread 1 Running→SafepointRequested, thread 2 Parked→PSR), waits for
one report; thread 2 returns from its native call and blocks in `wait_in_unpark`; thread 1 touches the heap, polls,
enters `safepoint_slow`, reports, waits; thread 0 runs the operation, resumes everybody, disarms; all continue. -/

def demoTrace : List Event := [
  ⟨0, .beg 3⟩, ⟨0, .fetchX⟩, ⟨0, .loadS 1 1⟩, ⟨0, .loadS 0 0⟩, ⟨0, .casS 0 0 (some 1)⟩,
  ⟨0, .lockL⟩, ⟨0, .storeI 1 1⟩, ⟨0, .unlockL⟩, ⟨0, .casS 0 1 (some 0)⟩, ⟨0, .loadS 0 0⟩,
  ⟨0, .spawn 1⟩, ⟨0, .beg 3⟩, ⟨0, .fetchX⟩, ⟨0, .loadS 2 1⟩, ⟨0, .loadS 0 0⟩,
  ⟨0, .casS 0 0 (some 1)⟩, ⟨0, .lockL⟩, ⟨0, .storeI 2 2⟩, ⟨0, .unlockL⟩, ⟨0, .casS 0 1 (some 0)⟩,
  ⟨0, .loadS 0 0⟩, ⟨0, .spawn 2⟩, ⟨1, .casS 1 1 (some 0)⟩, ⟨2, .casS 2 1 (some 0)⟩, ⟨2, .beg 1⟩,
  ⟨2, .loadS 2 0⟩, ⟨2, .casS 2 0 (some 1)⟩, ⟨0, .beg 2⟩, ⟨0, .loadS 0 0⟩, ⟨0, .casS 0 0 (some 1)⟩,
  ⟨0, .lockL⟩, ⟨0, .lockB⟩, ⟨0, .unlockB⟩, ⟨0, .forS 0 1 3⟩, ⟨0, .forS 1 0 2⟩,
  ⟨0, .forS 2 1 3⟩, ⟨0, .lockB⟩, ⟨0, .waitN⟩, ⟨2, .yield⟩, ⟨2, .casS 2 3 none⟩,
  ⟨2, .casS 2 3 none⟩, ⟨2, .lockB⟩, ⟨2, .waitW⟩, ⟨1, .touch⟩, ⟨1, .beg 0⟩,
  ⟨1, .loadS 1 2⟩, ⟨1, .swapS 1 2 4⟩, ⟨1, .lockB⟩, ⟨1, .n1N (some 0)⟩, ⟨1, .waitW⟩,
  ⟨0, .relockB⟩, ⟨0, .unlockB⟩, ⟨0, .swapRT 0 1⟩, ⟨0, .opTouch⟩, ⟨0, .swapRT 1 0⟩,
  ⟨0, .swapS 0 3 1⟩, ⟨0, .swapS 1 4 1⟩, ⟨0, .swapS 2 3 1⟩, ⟨0, .lockB⟩, ⟨0, .naW 2⟩,
  ⟨0, .unlockB⟩, ⟨0, .unlockL⟩, ⟨0, .casS 0 1 (some 0)⟩, ⟨0, .loadS 0 0⟩, ⟨1, .relockB⟩,
  ⟨1, .unlockB⟩, ⟨1, .casS 1 1 (some 0)⟩, ⟨2, .relockB⟩, ⟨2, .unlockB⟩, ⟨2, .casS 2 1 (some 0)⟩,
  ⟨2, .loadS 2 0⟩ ]
def stateAfter (n : Nat) : Option State := runTrace (init 3) (demoTrace.take n)

/-- the whole run is accepted; in the end everybody is Running again, one operation was completed -/
example : (runTrace (init 3) demoTrace).map (fun s => (s.thr.map (·.st), s.thr.map (·.pc), s.ops, s.armed, s.list))
    = some ([0, 0, 0], [.mut, .mut, .mut], 1, false, [0, 1, 2]) := by decide

/-- hypotheses of `world_stopped` / `no_touch_during_operation` on a reachable state: after 54 events thread 0 is
inside the operation, thread 1 is at a safepoint (4), thread 2 parked with the request bit (3) -/
example : ∃ s, Reach 3 s ∧ (∃ x, s.thr[0]? = some x ∧ opFrom x.pc = some 0) ∧ s.thr.map (·.st) = [3, 4, 3] ∧ s.rt = 1 := by
  cases hs : stateAfter 54 with
  | none => exact absurd hs (by decide)
  | some s =>
    have e : (stateAfter 54).map (fun s => (s.thr[0]?.map (fun x => opFrom x.pc), s.thr.map (·.st), s.rt))
        = some (some (some 0), [3, 4, 3], 1) := by decide
    rw [hs] at e
    simp at e
    obtain ⟨e1, e2, e3⟩ := e
    refine ⟨s, Reach.init.run _ _ hs, ?_, e2, e3⟩
    cases hx : s.thr[0]? with
    | none => rw [hx] at e1; simp at e1
    | some x => rw [hx] at e1; simp at e1; exact ⟨x, rfl, e1⟩

/-- hypotheses of `stopped_count`: after 38 events the initiator waits in `cv_notify.wait` with `running = 1`,
`stopped = 0` and exactly one thread (thread 1, SafepointRequested) still has to report -/
example : (stateAfter 38).map (fun s => (s.thr[0]?.map (·.pc), s.stopped, s.thr.countP isPend))
    = some (some (.wuWait 1), 0, 1) := by decide

/-- `resume_threads` half way (after 56 events): threads 0 is Parked again, 1 and 2 are still stopped -/
example : (stateAfter 56).map (fun s => (s.thr[0]?.map (fun x => opFrom x.pc), s.thr.map (·.st)))
    = some (some (some 1), [1, 4, 3]) := by decide

/-- hypothesis of `all_resume` (1): after 59 events thread 0 holds `B` and is about to
`notify_all`; two threads wait on `cv_wakeup` -/
example : (stateAfter 59).map (fun s => (s.lockB, s.thr.countP isWaitW, (accept s ⟨0, .naW 2⟩).isOk))
    = some (some 0, 2, true) := by decide

/-- hypotheses of `deadlock_free` on a reachable state (after 38 events: the initiator sleeps in `cv_notify.wait`,
thread 2 is in a native call, thread 1 runs): live threads exist and nobody is about to create a thread -/
example : ∃ s, Reach 3 s ∧
    (∀ (t : Nat) (x : Thr), s.thr[t]? = some x → x.pc = .addA → ∃ (u : Nat) (y : Thr), s.thr[u]? = some y ∧ y.pc = .unborn) ∧
    (∃ (w : Nat) (x : Thr), s.thr[w]? = some x ∧ live x.pc = true) := by
  cases hs : stateAfter 38 with
  | none => exact absurd hs (by decide)
  | some s =>
    have e : (stateAfter 38).map (fun s => (s.thr.all (fun x => x.pc != .addA), s.thr[1]?.map (fun x => live x.pc)))
        = some (true, some true) := by decide
    rw [hs] at e
    simp at e
    obtain ⟨e1, e2⟩ := e
    refine ⟨s, Reach.init.run _ _ hs, ?_, ?_⟩
    · intro t x hx hpc
      have := e1 x (List.mem_of_getElem? hx)
      rw [hpc] at this; simp at this
    · cases hx : s.thr[1]? with
      | none => rw [hx] at e2; simp at e2
      | some x => rw [hx] at e2; simp at e2; exact ⟨1, x, hx, e2⟩

/-- hypotheses of `no_lost_wakeup` (1) and `all_resume` (2): after 38 events the initiator is in `cv_notify.wait`;
after 58 events (barrier disarmed, `notify_all` not yet done) two threads are still in `cv_wakeup.wait` -/
example : (stateAfter 38).map (fun s => s.pcOf 0) = some (some (.wuWait 1)) ∧
    (stateAfter 59).map (fun s => (s.armed, s.pcOf 1, s.pcOf 2, s.lockB, s.pcOf 0))
      = some (false, some .spWait, some (.unpWait (.scope .nat)), some 0, some .disB1) := by decide

/-! ### thread exit racing with a stop-the-world (2 threads)
Thread 0 spawns thread 1 and requests a stop-the-world; after `fetch_or` has made thread 1 SafepointRequested,
thread 1 exits: `park` fails, `park_slow` makes it ParkedSafepointRequested and reports; it then waits for the list
lock while thread 0 runs the operation, resumes, disarms and unlocks; only then thread 1 removes itself. -/

def exitTrace : List Event := [
  ⟨0, .beg 3⟩, ⟨0, .fetchX⟩, ⟨0, .loadS 1 1⟩, ⟨0, .loadS 0 0⟩, ⟨0, .casS 0 0 (some 1)⟩,
  ⟨0, .lockL⟩, ⟨0, .storeI 1 1⟩, ⟨0, .unlockL⟩, ⟨0, .casS 0 1 (some 0)⟩, ⟨0, .loadS 0 0⟩,
  ⟨0, .spawn 1⟩, ⟨1, .casS 1 1 (some 0)⟩, ⟨0, .beg 2⟩, ⟨0, .loadS 0 0⟩, ⟨0, .casS 0 0 (some 1)⟩,
  ⟨0, .lockL⟩, ⟨0, .lockB⟩, ⟨0, .unlockB⟩, ⟨0, .forS 0 1 3⟩, ⟨0, .forS 1 0 2⟩,
  ⟨1, .beg 4⟩, ⟨1, .casS 1 2 none⟩, ⟨1, .casS 1 2 (some 3)⟩, ⟨0, .lockB⟩, ⟨0, .waitN⟩,
  ⟨1, .lockB⟩, ⟨1, .n1N (some 0)⟩, ⟨1, .unlockB⟩, ⟨0, .relockB⟩, ⟨0, .unlockB⟩,
  ⟨0, .swapRT 0 1⟩, ⟨0, .opTouch⟩, ⟨0, .swapRT 1 0⟩, ⟨0, .swapS 0 3 1⟩, ⟨0, .swapS 1 3 1⟩,
  ⟨0, .lockB⟩, ⟨0, .naW 0⟩, ⟨0, .unlockB⟩, ⟨0, .unlockL⟩, ⟨1, .lockL⟩,
  ⟨1, .loadI 1 1⟩, ⟨1, .naJ 0⟩, ⟨1, .unlockL⟩, ⟨0, .casS 0 1 (some 0)⟩, ⟨0, .loadS 0 0⟩ ]

/-- the run is accepted; thread 1 has left, the list is `[0]`, one operation was completed -/
example : (runTrace (init 2) exitTrace).map (fun s => (s.thr.map (·.pc), s.thr.map (·.st), s.list, s.ops))
    = some ([.mut, .dead], [0, 1], [0], 1) := by decide

/-- hypotheses of `exit_during_stop_the_world` on a reachable state: after 32 events thread 0 is inside the operation
and thread 1 is exiting (waiting for the list lock, state 3) -/
example : (runTrace (init 2) (exitTrace.take 32)).map
    (fun s => (s.thr[0]?.map (fun x => opFrom x.pc), s.thr[1]?.map (fun x => (exiting x.pc, x.st, x.idx)), s.list))
    = some (some (some 0), some (true, 3, 1), [0, 1]) := by decide

end Dora.Stw.C04
