import DoraModel.Position.Lemmas
/-!
# C20 — Editor positions and symbol ranges always match the document

Property theorems only. A text is any `List Char` (every Rust `&str`); offsets are UTF-8 byte offsets,
columns UTF-16 code units; `IsBoundary t off` = "`off` is a character boundary of `t`" (end included).
`offsetToPosition` / `positionToOffset` are `utf8_offset_to_utf16_position` /
`utf16_position_to_utf8_offset` with `line_starts = compute_line_starts(content)`, as the server calls
them; `none` is a Rust panic. All statements hold for every text, hence for every mix of LF / CR / CRLF,
empty lines, missing final newline and characters outside the BMP (`utf16Len = 2`, `utf8Len = 4`).
-/
namespace Dora.Position.C20
open Dora.Position

/-- Mechanism (line-start table): it starts with 0 and is strictly increasing — the precondition of the
`binary_search` in both conversions, for every text. -/
theorem lineStarts_sorted (t : Text) :
    (computeLineStarts t).head? = some 0 ∧ (computeLineStarts t).Pairwise (· < ·) :=
  ⟨computeLineStarts_head t, computeLineStarts_pairwise t⟩

example : computeLineStarts ['a', '😀', '\r', '\n', 'b', '\r', '\r', 'c', '\n'] = [0, 7, 9, 10, 12] := by decide

/-- Mechanism (line-start table), "for all line-ending styles": the table holds 0 and exactly the offsets
directly after a complete line terminator — after every `\n` (alone or closing a `\r\n`) and after every
`\r` that is not followed by `\n`; never between `\r` and `\n`, nowhere else. -/
theorem lineStarts_iff (t : Text) (x : Nat) :
    x ∈ computeLineStarts t ↔ x = 0 ∨ ∃ p s, t = p ++ s ∧ byteLen p = x ∧ EndsLine p s := by
  constructor
  · intro h
    rcases List.mem_cons.mp h with h | h
    · exact Or.inl h
    · rcases mem_lineStartsFrom_endsLine h with ⟨p, s, hp, hx, he⟩
      exact Or.inr ⟨p, s, hp, by omega, he⟩
  · rintro (h | ⟨p, s, hp, hx, he⟩)
    · subst h; exact List.mem_cons_self
    · have := lineStartsFrom_of_endsLine 0 t p s hp he
      rw [← hx]
      exact List.mem_cons_of_mem _ (by simpa using this)

/-- non-vacuity: in `a\r\nb\rc` offset 3 (after `\r\n`) and 5 (after the lone `\r`) are line starts, 2
(between `\r` and `\n`) is not -/
example : EndsLine ['a', '\r', '\n'] ['b', '\r', 'c'] ∧ EndsLine ['a', '\r', '\n', 'b', '\r'] ['c'] ∧
    ¬ EndsLine ['a', '\r'] ['\n', 'b', '\r', 'c'] ∧ computeLineStarts ['a', '\r', '\n', 'b', '\r', 'c'] = [0, 3, 5] := by
  refine ⟨Or.inl ⟨['a', '\r'], rfl⟩, Or.inr ⟨['a', '\r', '\n', 'b'], rfl, by decide⟩, ?_, by decide⟩
  rintro (⟨q, h⟩ | ⟨q, _, h⟩)
  · have := congrArg List.getLast? h
    simp at this
  · exact h rfl

/-- Mechanism (line-start table): every entry is a character boundary inside the text, so slicing the
text at line starts never panics. -/
theorem lineStarts_boundary (t : Text) (x : Nat) (h : x ∈ computeLineStarts t) :
    IsBoundary t x ∧ x ≤ byteLen t :=
  ⟨computeLineStarts_boundary h, (computeLineStarts_boundary h).le⟩

example : (7 : Nat) ∈ computeLineStarts ['a', '😀', '\r', '\n', 'b'] ∧ byteLen ['a', '😀', '\r', '\n', 'b'] = 8 := by decide

/-- "converting a byte offset on a character boundary to an editor position (line, UTF-16 column) and
back returns the same offset" — for every text and every boundary, including the offset between `\r`
and `\n`, the end of the text, and offsets after astral characters. The forward conversion does not
panic, and the line it reports exists. -/
theorem roundtrip (t : Text) (off : Nat) (h : IsBoundary t off) :
    ∃ l c, offsetToPosition t off = some (l, c) ∧ l < (computeLineStarts t).length ∧
      positionToOffset t l c = some off := by
  rcases h with ⟨p, s, ht, rfl⟩
  rcases offsetToPosition_spec ht with ⟨A, ls, B, le, p0, m, m2, s1, hS, hp, hs, hp0, hle, hend, ho, _, _, _⟩
  refine ⟨A.length, utf16Count m, ho, by rw [hS]; simp, ?_⟩
  have ht2 : t = p0 ++ (m ++ m2) ++ s1 := by rw [ht, hp, hs]; simp
  rw [positionToOffset_line t hS ht2 hp0 hle hend]
  by_cases hc : utf16Count m = 0
  · have := utf16Count_eq_zero hc
    subst this
    simp [hp, hp0]
  · rw [if_neg hc]
    have := walkCols_prefix m m2 0 0
    simp only [Nat.zero_add] at this
    rw [this, hp]; simp [hp0]

/-- non-vacuity: offset 6 is the boundary between `\r` and `\n`, directly after an astral character -/
example : IsBoundary ['a', '😀', '\r', '\n', 'b'] 6 ∧ offsetToPosition ['a', '😀', '\r', '\n', 'b'] 6 = some (0, 4) ∧
    positionToOffset ['a', '😀', '\r', '\n', 'b'] 0 4 = some 6 :=
  ⟨(isBoundary_iff _ _).mp (by decide), by decide, by decide⟩

/-- "positions past the end of a line or of the document are clamped into the document": for EVERY
(line, column) — in range or not, also a column inside a surrogate pair — the conversion does not panic
and returns a character boundary of the text (so an offset `≤` its length). -/
theorem clamp (t : Text) (line col : Nat) :
    ∃ o, positionToOffset t line col = some o ∧ o ≤ byteLen t ∧ IsBoundary t o := by
  by_cases hl : line < (computeLineStarts t).length
  · rcases split_at_index hl with ⟨A, ls, B, hS, hA⟩
    rcases line_struct t hS with ⟨le, p0, lc, s1, ht, hp0, hle, hend, _⟩
    have h := positionToOffset_line t hS ht hp0 hle hend col
    rw [hA] at h
    have hb : ∀ q r, lc = q ++ r → IsBoundary t (ls + byteLen q) := by
      intro q r hq
      exact ⟨p0 ++ q, r ++ s1, by rw [ht, hq]; simp, by simp [hp0]⟩
    by_cases hc : col = 0
    · have hb0 := hb [] lc rfl
      simp at hb0
      exact ⟨ls, by rw [h, if_pos hc], hb0.le, hb0⟩
    · rcases walkCols_boundary col lc 0 0 with ⟨q, r, hq, hw⟩
      have hbq := hb q r hq
      exact ⟨ls + walkCols col lc 0 0, by rw [h, if_neg hc], by rw [hw]; simpa using hbq.le, by rw [hw]; simpa using hbq⟩
  · refine ⟨byteLen t, ?_, Nat.le_refl _, isBoundary_len t⟩
    unfold positionToOffset positionToOffsetWith
    rw [if_pos (by omega)]

/-- non-vacuity: column 2 is inside the surrogate pair of 😀 (UTF-16 columns 1–2); line 7 does not exist -/
example : positionToOffset ['a', '😀', '\r', '\n', 'b'] 0 2 = some 5 ∧ positionToOffset ['a', '😀', '\r', '\n', 'b'] 7 3 = some 8 := by
  decide

/-- "positions past the end … of the document are clamped": a line number past the last line gives the
end of the text. -/
theorem clamp_line_past_end (t : Text) (line col : Nat) (h : (computeLineStarts t).length ≤ line) :
    positionToOffset t line col = some (byteLen t) := by
  unfold positionToOffset positionToOffsetWith
  rw [if_pos h]

example : positionToOffset ['a', '\n', 'b'] 2 0 = some 3 := clamp_line_past_end _ 2 0 (by decide)

/-- "positions past the end of a line … are clamped": on an existing line a column at or past the line's
UTF-16 length (terminator included) gives the line's end, i.e. the start of the next line, or the end of
the text on the last line. -/
theorem clamp_col_past_end (t : Text) (line : Nat) (h : line < (computeLineStarts t).length) :
    ∃ ls le lc, (computeLineStarts t)[line]? = some ls ∧
      lineEndOf t (computeLineStarts t) line = some le ∧ slice t ls le = some lc ∧
      ∀ col, utf16Count lc ≤ col → positionToOffset t line col = some le := by
  rcases split_at_index h with ⟨A, ls, B, hS, hA⟩
  rcases line_struct t hS with ⟨le, p0, lc, s1, ht, hp0, hle, hend, _⟩
  subst hA
  refine ⟨ls, le, lc, by rw [hS]; exact getElem?_mid _ _ _, hend, ?_, ?_⟩
  · rw [ht, ← hp0, ← hle, ← hp0]; exact slice_append p0 lc s1
  · intro col hcol
    rw [positionToOffset_line t hS ht hp0 hle hend col]
    by_cases hc : col = 0
    · have : lc = [] := utf16Count_eq_zero (by omega)
      subst this
      simp at hle
      rw [if_pos hc, hle]
    · rw [if_neg hc, walkCols_past col lc 0 0 (by omega)]
      simp [hle]

example : positionToOffset ['a', '😀', '\r', '\n', 'b'] 0 99 = some 7 ∧ positionToOffset ['a', '😀', '\r', '\n', 'b'] 1 99 = some 8 := by
  decide

/-- Mechanism for "ranges … lie inside / selection ranges inside / children inside": the offset→position
map is monotone on character boundaries (lexicographic order of `lsp_types::Position`). -/
theorem position_mono (t : Text) (a b : Nat) (ha : IsBoundary t a) (hb : IsBoundary t b) (hab : a ≤ b) :
    ∃ pa pb, offsetToPosition t a = some pa ∧ offsetToPosition t b = some pb ∧ posLe pa pb := by
  rcases ha with ⟨p, s, ht, rfl⟩
  rcases hb with ⟨p', s', ht', rfl⟩
  rcases prefix_of_byteLen_le (ht.symm.trans ht') hab with ⟨x, hx, _⟩
  rcases offsetToPosition_spec ht with ⟨A, ls, B, le, p0, m, m2, s1, hS, hp, _, hp0, _, _, ho, _, hA, hB⟩
  rcases offsetToPosition_spec ht' with ⟨A', ls', B', le', p0', m', m2', s1', hS', hp', _, hp0', _, _, ho', hf', hA', hB'⟩
  refine ⟨_, _, ho, ho', ?_⟩
  have hls : ls ≤ byteLen p := by rw [hp]; simp; omega
  have hls' : ls' ≤ byteLen p' := by rw [hp']; simp; omega
  have c1 := countP_split hA hls hB
  have c2 := countP_split hA' hls' hB'
  rw [← hS] at c1
  rw [← hS'] at c2
  have hmono : (computeLineStarts t).countP (· ≤ byteLen p) ≤ (computeLineStarts t).countP (· ≤ byteLen p') := by
    apply List.countP_mono_left
    intro y _ hy
    simp at hy ⊢; omega
  rw [c1, c2] at hmono
  by_cases hlt : A.length < A'.length
  · exact Or.inl hlt
  · have hlen : A.length = A'.length := by omega
    right
    refine ⟨hlen, ?_⟩
    have e := hS.symm.trans hS'
    have eA := List.append_inj_left e hlen
    have e2 := List.append_inj_right e hlen
    have els : ls = ls' := by injection e2
    -- p0 = p0' : both are prefixes of t with ls bytes
    have e3 : p0 ++ (m ++ x) = p0' ++ m' := by rw [← hp', hx, hp]; simp
    rcases prefix_of_byteLen_le e3 (by omega) with ⟨z, hz, hz'⟩
    have : z = [] := byteLen_eq_zero (by rw [hz] at hp0'; simp at hp0'; omega)
    subst this
    simp at hz'
    show utf16Count m ≤ utf16Count m'
    rw [← hz']; simp

example : offsetToPosition ['a', '😀', '\r', '\n', 'b'] 5 = some (0, 3) ∧ offsetToPosition ['a', '😀', '\r', '\n', 'b'] 7 = some (1, 0) ∧
    posLe (0, 3) (1, 0) := ⟨by decide, by decide, Or.inl (by decide)⟩

/-- "selection ranges lie inside their symbol's range, children inside their parents": if a span
`[s1, e1)` lies inside a span `[s2, e2)` (all four on character boundaries, as spans of syntax-tree nodes
are), then `span_to_range` of the inner one lies inside `span_to_range` of the outer one. That the name
node / child node span lies inside the element's span is the tree-shape fact of C16, not shown here. -/
theorem range_nest (t : Text) (s1 e1 s2 e2 : Nat)
    (hs1 : IsBoundary t s1) (he1 : IsBoundary t e1) (hs2 : IsBoundary t s2) (he2 : IsBoundary t e2)
    (h1 : s2 ≤ s1) (h2 : s1 ≤ e1) (h3 : e1 ≤ e2) :
    ∃ inner outer, spanToRange t s1 e1 = some inner ∧ spanToRange t s2 e2 = some outer ∧
      posLe outer.1 inner.1 ∧ posLe inner.1 inner.2 ∧ posLe inner.2 outer.2 := by
  rcases position_mono t s2 s1 hs2 hs1 h1 with ⟨a, b, ha, hb, hab⟩
  rcases position_mono t s1 e1 hs1 he1 h2 with ⟨b', c, hb', hc, hbc⟩
  rcases position_mono t e1 e2 he1 he2 h3 with ⟨c', d, hc', hd, hcd⟩
  rw [hb] at hb'; cases hb'
  rw [hc] at hc'; cases hc'
  exact ⟨(b, c), (a, d), by simp [spanToRange, hb, hc], by simp [spanToRange, ha, hd], hab, hbc, hcd⟩

example : spanToRange ['f', 'n', ' ', '😀', '(', ')', ' ', '{', '}', '\r', '\n'] 3 7 = some ((0, 3), (0, 5)) ∧
    spanToRange ['f', 'n', ' ', '😀', '(', ')', ' ', '{', '}', '\r', '\n'] 0 14 = some ((0, 0), (1, 0)) := by decide

/-- "Ranges the language server reports for symbols lie inside the document": the range of a span between
character boundaries starts at or after (0,0), ends at or before the position of the end of the text,
and both its lines exist; converting its two positions back gives the span again (nothing was clamped). -/
theorem range_in_document (t : Text) (s e : Nat) (hs : IsBoundary t s) (he : IsBoundary t e) (hse : s ≤ e) :
    ∃ r pend, spanToRange t s e = some r ∧ offsetToPosition t (byteLen t) = some pend ∧
      posLe (0, 0) r.1 ∧ posLe r.1 r.2 ∧ posLe r.2 pend ∧ r.2.1 < (computeLineStarts t).length ∧
      positionToOffset t r.1.1 r.1.2 = some s ∧ positionToOffset t r.2.1 r.2.2 = some e := by
  rcases position_mono t s e hs he hse with ⟨a, b, ha, hb, hab⟩
  rcases position_mono t e (byteLen t) he (isBoundary_len t) he.le with ⟨b', c, hb', hc, hbc⟩
  rw [hb] at hb'; cases hb'
  rcases roundtrip t s hs with ⟨l1, c1, h1, _, r1⟩
  rcases roundtrip t e he with ⟨l2, c2, h2, hl2, r2⟩
  rw [ha] at h1; cases h1
  rw [hb] at h2; cases h2
  refine ⟨((l1, c1), (l2, c2)), c, by simp [spanToRange, ha, hb], hc, ?_, hab, hbc, hl2, r1, r2⟩
  unfold posLe
  simp only
  omega

example : spanToRange ['a', '\r', '\n', '𝔘'] 3 7 = some ((1, 0), (1, 2)) ∧ offsetToPosition ['a', '\r', '\n', '𝔘'] 7 = some (1, 2) := by
  decide

/-- dora-parser's `compute_line_column` (used for diagnostics) finds the same line as the editor
conversion: 1-based line = LSP line + 1, and its byte column is the offset's distance from that line's
start, + 1. -/
theorem lineColumn_agrees (t : Text) (off : Nat) (h : IsBoundary t off) :
    ∃ l c ls, offsetToPosition t off = some (l, c) ∧ (computeLineStarts t)[l]? = some ls ∧ ls ≤ off ∧
      computeLineColumn (computeLineStarts t) off = some (l + 1, off - ls + 1) := by
  rcases h with ⟨p, s, ht, rfl⟩
  rcases offsetToPosition_spec ht with ⟨A, ls, B, le, p0, m, m2, s1, hS, hp, _, hp0, _, _, ho, hf, _, _⟩
  refine ⟨A.length, utf16Count m, ls, ho, by rw [hS]; exact getElem?_mid _ _ _, by rw [hp]; simp; omega, ?_⟩
  rw [computeLineColumn_eq, hf]; rfl

example : computeLineColumn (computeLineStarts ['😀', '\n', 'b']) 4 = some (1, 5) ∧
    offsetToPosition ['😀', '\n', 'b'] 4 = some (0, 2) := by decide

end Dora.Position.C20
