import DoraModel.Props.C08.Cls1
import DoraModel.Props.C08.Cls2
import DoraModel.Props.C08.Cls3
import DoraModel.Props.C08.Cls4
import DoraModel.A64.Spec
import DoraModel.A64.LogImm.All
import DoraModel.Gen.A64ThmAll
/-!
# C08 — Every AArch64 instruction is encoded as the instruction that was requested

Property theorems over the model regenerated from `dora-asm/src/arm64.rs` (`DoraModel/Gen/A64*.lean`).
The 32 regular class encoders are in `Props/C08/Cls1..4.lean` (`<class>_sound`). Here: the two classes with
split fields, the immediate encoders, signed-offset recovery (branches / load-store offsets), the
reference decoder's agreement with the class fields on the register-31 rule.

Per public method (`<method>_ok`, "the emitted word decodes under the reference decoder to exactly the requested
instruction", for all operands): GENERATED into `Gen/A64Thm*.lean` by tools/gen_c08_thms.py on every run and imported
here through `Gen/A64ThmAll.lean`; the methods whose theorem the generic script does not close yet are listed in
`Gen/A64Thm.json` (`unproved`) and in the evidence file.

Not proved, only compared on every run (see the evidence file): `ldr_mem_*`/`str_mem_*`, label resolution on whole
scripts, the unproved per-method statements — these are checked by the oracles of checks/c08.py on the implementation's
own bytes, and decoder/spec are validated against llvm-mc.
-/
namespace Dora.A64.C08
open Dora.A64

/-- Class `pcrel` (`adr`/`adrp`): accepted ⇒ the 21-bit signed immediate fits and is split exactly into
immlo (bits 30:29) and immhi (bits 23:5); rd is a general register; remaining bits are the opcode. -/
theorem pcrel_sound (op imm : BitVec 32) (rd : Register) (w : BitVec 32)
    (h : cls.pcrel op imm rd = .ok w) :
    op.ult 2#32 = true ∧ w.extractLsb' 31 1 = BitVec.setWidth 1 op ∧
    BitVec.sle 4293918720#32 imm = true ∧ BitVec.slt imm 1048576#32 = true ∧
    w.extractLsb' 29 2 = imm.extractLsb' 0 2 ∧ w.extractLsb' 5 19 = imm.extractLsb' 2 19 ∧
    rd.v.ule 30#8 = true ∧ w.extractLsb' 0 5 = BitVec.setWidth 5 rd.v ∧
    w &&& 520093696#32 = 268435456#32 := by
  unfold cls.pcrel at h
  cls_norm at h
  bv_decide (timeout := 600)

example : ∃ w, cls.pcrel 1#32 4294967295#32 R17 = .ok w := ⟨_, rfl⟩

/-- Class `test_and_branch` (`tbz`/`tbnz`): accepted ⇒ bit number and register fit and are placed (b5 at bit 31,
b40 at 23:19), the distance fits the signed 14-bit field and sits at 18:5, opcode bits fixed.
(Before /repo commit 7810b35b9 `fits_i14` accepted one bit too many and only a `_partial` form held.) -/
theorem test_and_branch_sound (op bit imm14 : BitVec 32) (rt : Register) (w : BitVec 32)
    (h : cls.test_and_branch op bit imm14 rt = .ok w) :
    op.ult 2#32 = true ∧ w.extractLsb' 24 1 = BitVec.setWidth 1 op ∧
    bit.ult 64#32 = true ∧ w.extractLsb' 31 1 = bit.extractLsb' 5 1 ∧ w.extractLsb' 19 5 = bit.extractLsb' 0 5 ∧
    BitVec.sle 4294959104#32 imm14 = true ∧ BitVec.slt imm14 8192#32 = true ∧
    w.extractLsb' 5 14 = BitVec.setWidth 14 imm14 ∧ BitVec.signExtend 32 (w.extractLsb' 5 14) = imm14 ∧
    rt.v.ule 30#8 = true ∧ w.extractLsb' 0 5 = BitVec.setWidth 5 rt.v ∧
    w &&& 2113929216#32 = 905969664#32 := by
  unfold cls.test_and_branch at h
  cls_norm at h
  bv_decide (timeout := 600)

example : ∃ w, cls.test_and_branch 1#32 37#32 4294967295#32 R17 = .ok w := ⟨_, rfl⟩

/-- a distance of +8192 instructions (one past the field) is refused, -8192 is the last one accepted -/
example : (∀ w, cls.test_and_branch 0#32 0#32 8192#32 R0 ≠ .ok w) ∧
    (∃ w, cls.test_and_branch 0#32 0#32 4294959104#32 R0 = .ok w) :=
  ⟨fun w h => by simp [cls.test_and_branch, rassert, fits_bit, fits_i14, bind, Except.bind] at h, ⟨_, rfl⟩⟩

/-- "An operand that cannot be encoded is refused rather than silently truncated", signed fields: whenever
`fits_iK` accepts a distance/offset, sign-extending the K-bit field gives the operand back
(K = 7 pair offsets, 9 unscaled offsets, 14 tbz/tbnz, 19 cbz/b.cond, 21 adr, 26 b/bl). -/
theorem signed_fields_exact (x : BitVec 32) :
    (fits_i7 x = true → BitVec.signExtend 32 (BitVec.setWidth 7 x) = x) ∧
    (fits_i9 x = true → BitVec.signExtend 32 (BitVec.setWidth 9 x) = x) ∧
    (fits_i14 x = true → BitVec.signExtend 32 (BitVec.setWidth 14 x) = x) ∧
    (fits_i19 x = true → BitVec.signExtend 32 (BitVec.setWidth 19 x) = x) ∧
    (fits_i21 x = true → BitVec.signExtend 32 (BitVec.setWidth 21 x) = x) ∧
    (fits_i26 x = true → BitVec.signExtend 32 (BitVec.setWidth 26 x) = x) := by
  simp only [fits_i7, fits_i9, fits_i14, fits_i19, fits_i21, fits_i26]
  bv_decide (timeout := 600)

example : fits_i19 4294705152#32 = true := by decide

/-- the same for the unsigned fields: accepted ⇒ zero-extending the field gives the operand back -/
theorem unsigned_fields_exact (x : BitVec 32) :
    (fits_bit x = true → BitVec.setWidth 32 (BitVec.setWidth 1 x) = x) ∧
    (fits_u2 x = true → BitVec.setWidth 32 (BitVec.setWidth 2 x) = x) ∧
    (fits_u3 x = true → BitVec.setWidth 32 (BitVec.setWidth 3 x) = x) ∧
    (fits_u4 x = true → BitVec.setWidth 32 (BitVec.setWidth 4 x) = x) ∧
    (fits_u5 x = true → BitVec.setWidth 32 (BitVec.setWidth 5 x) = x) ∧
    (fits_u6 x = true → BitVec.setWidth 32 (BitVec.setWidth 6 x) = x) ∧
    (fits_u7 x = true → BitVec.setWidth 32 (BitVec.setWidth 7 x) = x) ∧
    (fits_u12 x = true → BitVec.setWidth 32 (BitVec.setWidth 12 x) = x) ∧
    (fits_u13 x = true → BitVec.setWidth 32 (BitVec.setWidth 13 x) = x) ∧
    (fits_u16 x = true → BitVec.setWidth 32 (BitVec.setWidth 16 x) = x) := by
  simp only [fits_bit, fits_u2, fits_u3, fits_u4, fits_u5, fits_u6, fits_u7, fits_u12, fits_u13, fits_u16]
  bv_decide (timeout := 600)

example : fits_u12 4095#32 = true := by decide

/-- Add/sub immediate: an accepted value is exactly `imm12` or `imm12 << 12` with a 12-bit `imm12`. -/
theorem addsub_imm_encoding_sound (imm sh i12 : BitVec 32) (h : encode_addsub_imm imm = some (sh, i12)) :
    i12.ult 4096#32 = true ∧ ((sh = 0#32 ∧ imm = i12) ∨ (sh = 1#32 ∧ imm = i12 <<< 12)) := by
  unfold encode_addsub_imm at h
  simp only [] at h
  split at h
  · simp only [Option.some.injEq, Prod.mk.injEq] at h
    obtain ⟨rfl, rfl⟩ := h
    rename_i hc
    refine ⟨?_, Or.inl ⟨rfl, rfl⟩⟩
    bv_decide (timeout := 600)
  · split at h
    · simp only [Option.some.injEq, Prod.mk.injEq] at h
      obtain ⟨rfl, rfl⟩ := h
      rename_i _ hc
      refine ⟨?_, Or.inr ⟨rfl, ?_⟩⟩ <;> bv_decide (timeout := 600)
    · simp at h

example : encode_addsub_imm 16773120#32 = some (1#32, 4095#32) := by decide

/-- Add/sub immediate: refused exactly when neither form fits (nothing encodable is refused, nothing else accepted). -/
theorem addsub_imm_encoding_refuses (imm : BitVec 32) :
    encode_addsub_imm imm = none ↔ (imm &&& 4294963200#32 ≠ 0#32 ∧ imm &&& 4278194175#32 ≠ 0#32) := by
  unfold encode_addsub_imm
  simp only []
  split
  · rename_i hc
    simp only [reduceCtorEq, false_iff, not_and]
    intro h1; exfalso; apply h1; bv_decide (timeout := 600)
  · split
    · rename_i hc1 hc2
      simp only [reduceCtorEq, false_iff, not_and]
      intro _ h2; apply h2; bv_decide (timeout := 600)
    · rename_i hc1 hc2
      simp only [true_iff]
      constructor <;> bv_decide (timeout := 600)

example : encode_addsub_imm 4097#32 = none := by decide

/-
Full statement wanted for logical immediates (`logical_imm_sound`):
  ∀ imm sz e, encode_logical_imm imm sz = .ok (some e) → DecodeBitMasks e sz = imm
Proved below is the round trip over the IMAGE of DecodeBitMasks (all 5 334 + 1 302 encodable immediates, by kernel
evaluation of the regenerated `encode_logical_imm` on every 13-bit encoding): every encodable immediate is
accepted and the returned N:immr:imms denotes it again. Missing: that an immediate which is NOT encodable is never
given an encoding (for those the function must return `None`); that half is only compared on every run
(non-encodable immediates of the sweep are refused by Rust and by the model alike, llvm-mc agrees on the rest).
-/
/-- Logical immediates, 64-bit, partial: every value that `DecodeBitMasks(N, imms, immr)` denotes is accepted by
`encode_logical_imm`, and the encoding it returns denotes exactly that value (ARM ARM pseudocode as decoder). -/
theorem logical_imm_roundtrip64_partial (n immr imms v : Nat) (hn : n < 2) (hr : immr < 64) (hs : imms < 64)
    (h : decodeBitMasks n imms immr 64 = some v) :
    ∃ e', encode_logical_imm (BitVec.ofNat 64 v) 64#32 = .ok (some e') ∧
      decodeBitMasks (lN e'.toNat) (lImms e'.toNat) (lImmr e'.toNat) 64 = some v := by
  have hk := LogImm.logImmOk64 (n * 4096 + immr * 64 + imms) (by omega)
  have e1 : lN (n * 4096 + immr * 64 + imms) = n := by unfold lN; omega
  have e2 : lImmr (n * 4096 + immr * 64 + imms) = immr := by unfold lImmr; omega
  have e3 : lImms (n * 4096 + immr * 64 + imms) = imms := by unfold lImms; omega
  unfold logImmOk at hk
  rw [e1, e2, e3, h] at hk
  simp only [] at hk
  split at hk
  · rename_i e' he
    exact ⟨e', he, by simpa using hk⟩
  · simp at hk

example : decodeBitMasks 0 0b111100 0 64 = some 0x5555555555555555 := by decide

/-- Logical immediates, 32-bit, partial: the same round trip for the 32-bit forms (N = 0). -/
theorem logical_imm_roundtrip32_partial (immr imms v : Nat) (hr : immr < 64) (hs : imms < 64)
    (h : decodeBitMasks 0 imms immr 32 = some v) :
    ∃ e', encode_logical_imm (BitVec.ofNat 64 v) 32#32 = .ok (some e') ∧
      decodeBitMasks (lN e'.toNat) (lImms e'.toNat) (lImmr e'.toNat) 32 = some v := by
  have hk := LogImm.logImmOk32 (immr * 64 + imms) (by omega)
  have e1 : lN (immr * 64 + imms) = 0 := by unfold lN; omega
  have e2 : lImmr (immr * 64 + imms) = immr := by unfold lImmr; omega
  have e3 : lImms (immr * 64 + imms) = imms := by unfold lImms; omega
  unfold logImmOk at hk
  rw [e1, e2, e3, h] at hk
  simp only [] at hk
  split at hk
  · rename_i e' he
    exact ⟨e', he, by simpa using hk⟩
  · simp at hk

example : decodeBitMasks 0 7 0 32 = some 255 := by decide

/-- Register-31 rule of the public convention: `REG_ZERO` (100) and `REG_SP` (101) both become field value 31, but
each `encoding_*` accessor accepts only the kind its operand position can name; any other register value
(31..99, 102..255) is refused by all of them. -/
theorem register31_rule (r : Register) :
    (∀ v, Register.encoding r = .ok v → r.v.ule 30#8 = true ∧ v = BitVec.setWidth 32 r.v) ∧
    (∀ v, Register.encoding_zero r = .ok v → (r.v.ule 30#8 = true ∧ v = BitVec.setWidth 32 r.v) ∨ (r = REG_ZERO ∧ v = 31#32)) ∧
    (∀ v, Register.encoding_sp r = .ok v → (r.v.ule 30#8 = true ∧ v = BitVec.setWidth 32 r.v) ∨ (r = REG_SP ∧ v = 31#32)) ∧
    (∀ v, Register.encoding_zero_or_sp r = .ok v →
      (r.v.ule 30#8 = true ∧ v = BitVec.setWidth 32 r.v) ∨ ((r = REG_ZERO ∨ r = REG_SP) ∧ v = 31#32)) := by
  obtain ⟨rv⟩ := r
  simp only [enc_ok, encz_ok, encs_ok, enczs_ok, REG_ZERO, REG_SP, Register.mk.injEq]
  refine ⟨fun v h => h, fun v h => ?_, fun v h => ?_, fun v h => ?_⟩ <;>
    (obtain ⟨h1, rfl⟩ := h; by_cases hc : rv.ule 30#8 = true <;> simp_all)

example : Register.encoding_zero REG_ZERO = .ok 31#32 ∧ Register.encoding_sp REG_SP = .ok 31#32 := ⟨rfl, rfl⟩

/-- The reference decoder reads the register fields the way the class theorems place them: a field value below 31
is that general register, 31 is `sp` in a stack-pointer position and the zero register elsewhere. -/
theorem decoder_register31 (n : Nat) (hn : n < 31) :
    xz n = .x n ∧ xs n = .x n ∧ wz n = .w n ∧ ws n = .w n ∧
    xz 31 = .xzr ∧ xs 31 = .sp ∧ wz 31 = .wzr ∧ ws 31 = .wsp := by
  have : n ≠ 31 := by omega
  simp [xz, xs, wz, ws, this]

example : xs 31 = .sp := rfl

end Dora.A64.C08
