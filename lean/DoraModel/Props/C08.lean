import DoraModel.Props.C08.Cls1
import DoraModel.Props.C08.Cls2
import DoraModel.Props.C08.Cls3
import DoraModel.Props.C08.Cls4
import DoraModel.Props.C08.Cls5
import DoraModel.Props.C08.LogImmRT
import DoraModel.A64.Spec
import DoraModel.A64.LogImm.All
import DoraModel.Gen.A64ThmAll
/-!
# C08 — Every AArch64 instruction is encoded as the instruction that was requested

Property theorems over the model regenerated from `dora-asm/src/arm64.rs` (`DoraModel/Gen/A64*.lean`).
The 32 regular class encoders are in `Props/C08/Cls1..4.lean` (`<class>_sound`), the two classes with split fields in
`Props/C08/Cls5.lean`, the logical-immediate round trips in `Props/C08/LogImmRT.lean`. Here: the immediate encoders, signed-offset recovery (branches / load-store offsets), the
reference decoder's agreement with the class fields on the register-31 rule.

Per public method (`<method>_ok`, "the emitted word decodes under the reference decoder to exactly the requested
instruction", for all operands): GENERATED into `Gen/A64Thm*.lean` by tools/gen_c08_thms.py on every run and imported
here through `Gen/A64ThmAll.lean`; the methods whose theorem the generic script does not close yet are listed in
`Gen/A64Thm.json` (`unproved`) and in the evidence file.

Not proved, only compared on every run (see the evidence file): `ldr_mem_*`/`str_mem_*`, label resolution on whole
scripts, the unproved per-method statements — these are checked by the oracles of checks/c08.py on the implementation's
own bytes, and decoder/spec are validated against llvm-mc.
-/
namespace Dora.A64.C08
open Dora.A64

/-- "An operand that cannot be encoded is refused rather than silently truncated", signed fields: whenever
`fits_iK` accepts a distance/offset, sign-extending the K-bit field gives the operand back
(K = 7 pair offsets, 9 unscaled offsets, 14 tbz/tbnz, 19 cbz/b.cond, 21 adr, 26 b/bl). -/
theorem signed_fields_exact (x : BitVec 32) :
    (fits_i7 x = true → BitVec.signExtend 32 (BitVec.setWidth 7 x) = x) ∧
    (fits_i9 x = true → BitVec.signExtend 32 (BitVec.setWidth 9 x) = x) ∧
    (fits_i14 x = true → BitVec.signExtend 32 (BitVec.setWidth 14 x) = x) ∧
    (fits_i19 x = true → BitVec.signExtend 32 (BitVec.setWidth 19 x) = x) ∧
    (fits_i21 x = true → BitVec.signExtend 32 (BitVec.setWidth 21 x) = x) ∧
    (fits_i26 x = true → BitVec.signExtend 32 (BitVec.setWidth 26 x) = x) := by
  simp only [fits_i7, fits_i9, fits_i14, fits_i19, fits_i21, fits_i26]
  bv_decide (timeout := 600)

example : fits_i19 4294705152#32 = true := by decide

/-- the same for the unsigned fields: accepted ⇒ zero-extending the field gives the operand back -/
theorem unsigned_fields_exact (x : BitVec 32) :
    (fits_bit x = true → BitVec.setWidth 32 (BitVec.setWidth 1 x) = x) ∧
    (fits_u2 x = true → BitVec.setWidth 32 (BitVec.setWidth 2 x) = x) ∧
    (fits_u3 x = true → BitVec.setWidth 32 (BitVec.setWidth 3 x) = x) ∧
    (fits_u4 x = true → BitVec.setWidth 32 (BitVec.setWidth 4 x) = x) ∧
    (fits_u5 x = true → BitVec.setWidth 32 (BitVec.setWidth 5 x) = x) ∧
    (fits_u6 x = true → BitVec.setWidth 32 (BitVec.setWidth 6 x) = x) ∧
    (fits_u7 x = true → BitVec.setWidth 32 (BitVec.setWidth 7 x) = x) ∧
    (fits_u12 x = true → BitVec.setWidth 32 (BitVec.setWidth 12 x) = x) ∧
    (fits_u13 x = true → BitVec.setWidth 32 (BitVec.setWidth 13 x) = x) ∧
    (fits_u16 x = true → BitVec.setWidth 32 (BitVec.setWidth 16 x) = x) := by
  simp only [fits_bit, fits_u2, fits_u3, fits_u4, fits_u5, fits_u6, fits_u7, fits_u12, fits_u13, fits_u16]
  bv_decide (timeout := 600)

example : fits_u12 4095#32 = true := by decide

/-- Add/sub immediate: an accepted value is exactly `imm12` or `imm12 << 12` with a 12-bit `imm12`. -/
theorem addsub_imm_encoding_sound (imm sh i12 : BitVec 32) (h : encode_addsub_imm imm = some (sh, i12)) :
    i12.ult 4096#32 = true ∧ ((sh = 0#32 ∧ imm = i12) ∨ (sh = 1#32 ∧ imm = i12 <<< 12)) := by
  unfold encode_addsub_imm at h
  simp only [] at h
  split at h
  · simp only [Option.some.injEq, Prod.mk.injEq] at h
    obtain ⟨rfl, rfl⟩ := h
    rename_i hc
    refine ⟨?_, Or.inl ⟨rfl, rfl⟩⟩
    bv_decide (timeout := 600)
  · split at h
    · simp only [Option.some.injEq, Prod.mk.injEq] at h
      obtain ⟨rfl, rfl⟩ := h
      rename_i _ hc
      refine ⟨?_, Or.inr ⟨rfl, ?_⟩⟩ <;> bv_decide (timeout := 600)
    · simp at h

example : encode_addsub_imm 16773120#32 = some (1#32, 4095#32) := by decide

/-- Add/sub immediate: refused exactly when neither form fits (nothing encodable is refused, nothing else accepted). -/
theorem addsub_imm_encoding_refuses (imm : BitVec 32) :
    encode_addsub_imm imm = none ↔ (imm &&& 4294963200#32 ≠ 0#32 ∧ imm &&& 4278194175#32 ≠ 0#32) := by
  unfold encode_addsub_imm
  simp only []
  split
  · rename_i hc
    simp only [reduceCtorEq, false_iff, not_and]
    intro h1; exfalso; apply h1; bv_decide (timeout := 600)
  · split
    · rename_i hc1 hc2
      simp only [reduceCtorEq, false_iff, not_and]
      intro _ h2; apply h2; bv_decide (timeout := 600)
    · rename_i hc1 hc2
      simp only [true_iff]
      constructor <;> bv_decide (timeout := 600)

example : encode_addsub_imm 4097#32 = none := by decide

/-- Register-31 rule of the public convention: `REG_ZERO` (100) and `REG_SP` (101) both become field value 31, but
each `encoding_*` accessor accepts only the kind its operand position can name; any other register value
(31..99, 102..255) is refused by all of them. -/
theorem register31_rule (r : Register) :
    (∀ v, Register.encoding r = .ok v → r.v.ule 30#8 = true ∧ v = BitVec.setWidth 32 r.v) ∧
    (∀ v, Register.encoding_zero r = .ok v → (r.v.ule 30#8 = true ∧ v = BitVec.setWidth 32 r.v) ∨ (r = REG_ZERO ∧ v = 31#32)) ∧
    (∀ v, Register.encoding_sp r = .ok v → (r.v.ule 30#8 = true ∧ v = BitVec.setWidth 32 r.v) ∨ (r = REG_SP ∧ v = 31#32)) ∧
    (∀ v, Register.encoding_zero_or_sp r = .ok v →
      (r.v.ule 30#8 = true ∧ v = BitVec.setWidth 32 r.v) ∨ ((r = REG_ZERO ∨ r = REG_SP) ∧ v = 31#32)) := by
  obtain ⟨rv⟩ := r
  simp only [enc_ok, encz_ok, encs_ok, enczs_ok, REG_ZERO, REG_SP, Register.mk.injEq]
  refine ⟨fun v h => h, fun v h => ?_, fun v h => ?_, fun v h => ?_⟩ <;>
    (obtain ⟨h1, rfl⟩ := h; by_cases hc : rv.ule 30#8 = true <;> simp_all)

example : Register.encoding_zero REG_ZERO = .ok 31#32 ∧ Register.encoding_sp REG_SP = .ok 31#32 := ⟨rfl, rfl⟩

/-- The reference decoder reads the register fields the way the class theorems place them: a field value below 31
is that general register, 31 is `sp` in a stack-pointer position and the zero register elsewhere. -/
theorem decoder_register31 (n : Nat) (hn : n < 31) :
    xz n = .x n ∧ xs n = .x n ∧ wz n = .w n ∧ ws n = .w n ∧
    xz 31 = .xzr ∧ xs 31 = .sp ∧ wz 31 = .wzr ∧ ws 31 = .wsp := by
  have : n ≠ 31 := by omega
  simp [xz, xs, wz, ws, this]

example : xs 31 = .sp := rfl

end Dora.A64.C08
