import DoraModel.Trace.Lemmas
import DoraModel.Trace.BytecodeLemmas
/-!
# C14 — A trap report names what failed and where

The part of the property that is a statement about tables: *given* the position table and the inlined-function
table of a compiled function, the runtime's lookup (`LocationTable::get`) and its expansion of inlined frames
(`dump_stack_elem`) name exactly the recorded position and exactly the chain of inlined callers, innermost
first, and they cannot loop or panic on tables the validator `wfTrace` accepts. The validator runs on the
tables of every artifact the check compiles (checks/c14.py); that the code generators *record* the right
position for each instruction is compared on generated programs, not proved (evidence: `assumptions`).
-/
namespace Dora.Trace.C14
open Dora.Trace

/-- "the first line of the stack trace names the ... source line of the operation that failed": on a table with
strictly increasing offsets, `LocationTable::get off` returns a location exactly when the table has an entry
with exactly that offset, it is that entry's location, and no other entry has the offset (so the answer does not
depend on which matching index the binary search happens to hit). -/
theorem lookup_exact (l : List Entry) (h : sortedB l = true) (off : Nat) :
    (∀ loc, get l off = some loc ↔ (⟨off, loc⟩ : Entry) ∈ l) ∧
    (∀ e₁ ∈ l, ∀ e₂ ∈ l, e₁.off = off → e₂.off = off → e₁ = e₂) := by
  have hs := sortedB_sorted l h
  exact ⟨fun loc => get_eq_some_iff l hs off loc,
         fun e₁ h₁ e₂ h₂ o₁ o₂ => sorted_unique l hs e₁ e₂ h₁ h₂ (by rw [o₁, o₂])⟩

example : sortedB [⟨4, ⟨none, 7, 3⟩⟩, ⟨9, ⟨some 0, 2, 5⟩⟩, ⟨20, ⟨none, 8, 1⟩⟩] = true ∧
    get [⟨4, ⟨none, 7, 3⟩⟩, ⟨9, ⟨some 0, 2, 5⟩⟩, ⟨20, ⟨none, 8, 1⟩⟩] 9 = some ⟨some 0, 2, 5⟩ := by
  constructor
  · decide
  · simp [get, bsearch]

/-- a return offset without an entry is reported as such (`None` -> the function's own declaration line is
printed), never as a neighbouring entry: no "nearest line" guessing. -/
theorem lookup_absent (l : List Entry) (h : sortedB l = true) (off : Nat) :
    get l off = none ↔ ∀ e ∈ l, e.off ≠ off :=
  get_eq_none_iff l (sortedB_sorted l h) off

example : get [⟨4, ⟨none, 7, 3⟩⟩, ⟨9, ⟨some 0, 2, 5⟩⟩, ⟨20, ⟨none, 8, 1⟩⟩] 10 = none := by
  simp [get, bsearch]

/-- "also when the optimizer has inlined the failing function" (1): when every inlined function's parent has a
smaller id (`wfInlined`, the executable forest check), the parent relation is well-founded: no inlined function
is its own ancestor. -/
theorem inline_chain_wellfounded (inls : List Inl) (h : wfInlined inls = true) :
    WellFounded (fun p c => parentOf inls c = some p) := by
  refine Subrelation.wf (r := (· < ·)) ?_ Nat.lt_wfRel.wf
  intro p c hpc
  exact wfInlined_parent_lt inls h c p hpc

example : wfInlined [⟨10, ⟨none, 5, 1⟩⟩, ⟨11, ⟨some 0, 6, 2⟩⟩, ⟨12, ⟨some 1, 7, 3⟩⟩] = true := by decide

/-- (2): on such a table, with all ids in range, the `while` loop of `dump_stack_elem` terminates (any number
of iterations ≥ table size is enough, and more fuel changes nothing), does not index out of bounds, and the
lines it prints are exactly the path from the inlined function the location lies in up to the physical
function (`Chain`), which is unique. -/
theorem inline_chain_terminates (inls : List Inl) (top : Nat) (hwf : wfInlined inls = true)
    (hrange : ∀ e ∈ inls, ∀ p, e.site.inl = some p → p < inls.length)
    (loc : ILoc) (hloc : ∀ id, loc.inl = some id → id < inls.length) :
    ∃ fs, (∀ fuel, inls.length ≤ fuel → expand inls top fuel loc = .ok fs) ∧ Chain inls top loc fs ∧
      ∀ gs, Chain inls top loc gs → gs = fs := by
  rcases loc with ⟨_ | id, line, col⟩
  · refine ⟨[⟨top, line, col⟩], ?_, Chain.root line col, ?_⟩
    · intro fuel _
      cases fuel <;> simp [expand]
    · intro gs hg
      cases hg
      rfl
  · have hid := hloc id rfl
    obtain ⟨fs, hfs⟩ := expand_terminates_aux inls top hwf hrange id hid line col
    have hc := expand_chain inls top _ _ _ hfs
    refine ⟨fs, ?_, hc, fun gs hg => chain_unique inls top _ gs fs hg hc⟩
    intro fuel hfuel
    have := expand_fuel_mono inls top (id + 1) _ fs hfs (fuel - (id + 1))
    have he : id + 1 + (fuel - (id + 1)) = fuel := by omega
    rw [he] at this
    exact this

example : expand [⟨10, ⟨none, 5, 1⟩⟩, ⟨11, ⟨some 0, 6, 2⟩⟩, ⟨12, ⟨some 1, 7, 3⟩⟩] 99 3 ⟨some 2, 8, 4⟩
    = .ok [⟨12, 8, 4⟩, ⟨11, 7, 3⟩, ⟨10, 6, 2⟩, ⟨99, 5, 1⟩] := by decide

/-- a cyclic table makes the real loop spin: the model runs out of any fuel (why the validator insists on the
forest shape) -/
example : expand [⟨10, ⟨some 1, 5, 1⟩⟩, ⟨11, ⟨some 0, 6, 2⟩⟩] 99 50 ⟨some 0, 8, 4⟩ = .outOfFuel := by decide

/-- "the following lines name the actual chain of callers, innermost first": the first printed line carries the
looked-up position and the function it lies in; line k+1 is the function that line k's function was inlined into,
at the position of that inlining; the last line is the physical function. Stated against the path of inlined
ids `i₀ = loc.inl, i₁ = parent i₀, …` (strictly decreasing, i.e. each caller was created before its callee). -/
theorem chain_order (inls : List Inl) (top : Nat) (hwf : wfInlined inls = true) (loc : ILoc) (fs : List Frame)
    (h : Chain inls top loc fs) :
    let ids := pathIds inls inls.length loc.inl
    fs.map (·.fn) = (ids.map fun i => (inls[i]?.map (·.fn)).getD 0) ++ [top] ∧
    fs.map (fun f => (f.line, f.col)) =
      (loc.line, loc.col) :: (ids.map fun i => (inls[i]?.map fun e => (e.site.line, e.site.col)).getD (0, 0)) ∧
    ids.Pairwise (· > ·) := by
  have := chain_path inls top hwf loc fs h
  exact ⟨this.1, this.2, (pathIds_decreasing inls hwf _ _).1⟩

example : pathIds [⟨10, ⟨none, 5, 1⟩⟩, ⟨11, ⟨some 0, 6, 2⟩⟩, ⟨12, ⟨some 1, 7, 3⟩⟩] 3 (some 2) = [2, 1, 0] := by decide

/-- soundness of the validator run on every artifact: in an accepted artifact, at the return offset of every call
to the trap handler and to the stack-overflow handler inside compiled code, the lookup finds an entry (the
handler can name the line: it never falls back to the function's declaration line; and the return offset lies strictly
inside the function, so the code map attributes the address to this function, not to its neighbour), the expansion terminates
without panic, its first line is that entry's position and its last line is the function the call is in. -/
theorem accepted_artifact_names_every_trap_site (a : Artifact) (h : wfTrace a = true) (f : Fn) (hf : f ∈ a.fns)
    (hk : f.kind = .optimized) (c : Call) (hc : c ∈ f.calls) (hr : c.cls.reports = true) :
    c.ret < f.size ∧ ∃ loc fs, get f.locs c.ret = some loc ∧
      (∀ fuel, f.inls.length ≤ fuel → dumpStackElem f c.ret fuel = .ok fs) ∧
      Chain f.inls f.info loc fs ∧
      fs.head?.map (fun x => (x.line, x.col)) = some (loc.line, loc.col) ∧
      fs.getLast?.map (·.fn) = some f.info := by
  simp only [wfTrace, Bool.and_eq_true, List.all_eq_true] at h
  have hfn := h.2 f hf
  simp only [fnOK, Bool.and_eq_true, List.all_eq_true, hk, if_true] at hfn
  obtain ⟨⟨⟨⟨⟨_, hsorted⟩, hlocs⟩, hinls⟩, hwf⟩, hcalls⟩ := hfn
  have hcall := hcalls c hc
  simp only [callOK, hr, if_true, Bool.and_eq_true, decide_eq_true_eq] at hcall
  refine ⟨hcall.1, ?_⟩
  replace hcall := hcall.2
  obtain ⟨loc, hloc⟩ := Option.isSome_iff_exists.mp hcall
  have hmem := (get_eq_some_iff f.locs (sortedB_sorted _ hsorted) c.ret loc).mp hloc
  have hlo := hlocs _ hmem
  simp only [locOK, Bool.and_eq_true, decide_eq_true_eq] at hlo
  have hrange : ∀ e ∈ f.inls, ∀ p, e.site.inl = some p → p < f.inls.length := by
    intro e he p hp
    have := hinls e he
    simp only [inlOK, hp, decide_eq_true_eq] at this
    exact this
  have hlocr : ∀ id, loc.inl = some id → id < f.inls.length := by
    intro id hid
    have := hlo.2
    simp only [hid, decide_eq_true_eq] at this
    exact this
  obtain ⟨fs, hfuel, hchain, _⟩ := inline_chain_terminates f.inls f.info hwf hrange loc hlocr
  refine ⟨loc, fs, hloc, ?_, hchain, ?_, ?_⟩
  · intro fuel hfl
    simp only [dumpStackElem, hloc]
    exact hfuel fuel hfl
  · exact chain_head _ _ _ _ hchain
  · exact chain_last _ _ _ _ hchain

/-- the whole walk keeps the order: frames of the innermost program counter come first, then the callers'
(`frames_from_pc` pushes in walk order and `dump` prints in push order). -/
theorem walk_innermost_first (a : Artifact) (fuel fi off : Nat) (rest : List (Nat × Nat)) (f : Fn)
    (hf : a.fns[fi]? = some f) (hk : f.kind = .optimized) (fs gs : List Frame)
    (h1 : dumpStackElem f off fuel = .ok fs) (h2 : walk a fuel rest = .ok gs) :
    walk a fuel ((fi, off) :: rest) = .ok (fs ++ gs) := by
  simp [walk, hf, determineStackEntry, hk, h1, h2]

example :
    let f : Fn := { kind := .optimized, size := 64, info := 3, infoLine := 1, infoCol := 1,
                    locs := [⟨12, ⟨some 0, 4, 9⟩⟩, ⟨30, ⟨none, 9, 5⟩⟩], inls := [⟨7, ⟨none, 8, 5⟩⟩],
                    calls := [⟨12, .trap⟩, ⟨30, .managed⟩], bad := false }
    let m : Fn := { kind := .optimized, size := 40, info := 0, infoLine := 20, infoCol := 1,
                    locs := [⟨22, ⟨none, 21, 3⟩⟩], inls := [], calls := [⟨22, .managed⟩], bad := false }
    let e : Fn := { kind := .doraEntry, size := 8, info := 1, infoLine := 0, infoCol := 0, locs := [], inls := [],
                    calls := [], bad := false }
    wfTrace ⟨[f, m, e], false⟩ = true ∧
    walk ⟨[f, m, e], false⟩ 4 [(0, 12), (1, 22), (2, 5)] = .ok [⟨7, 4, 9⟩, ⟨3, 8, 5⟩, ⟨0, 21, 3⟩] := by decide +kernel

/-! ### the bytecode-level lookup the baseline code generator uses (`BytecodeBody::offset_location`)

The position a trap report names is recorded in two steps: the bytecode generator gives location-carrying instructions
an entry in the function's bytecode position table (`BytecodeWriter::emit_location`; an instruction that has the
location of the LAST ENTRY gets none), and the baseline code generator asks `offset_location(bytecode offset)` when it
translates a trapping / calling instruction and stores the answer in the machine-code position table the theorems above
are about. The next theorems say what that lookup answers. -/
open Dora.Trace.Bc in
/-- "names the source line of the operation that failed", bytecode level: on a table with strictly increasing
offsets, `offset_location q` is the location of the entry with the GREATEST offset ≤ q (the instruction's own entry, or
the entry of the nearest preceding location-carrying instruction — never a later one), whenever such an entry exists. -/
theorem offset_location_floor (l : List Bc.BEntry) (h : Bc.sortedB l = true) (q : Nat) (e : Bc.BEntry) (he : e ∈ l)
    (hle : e.off ≤ q) (hmax : ∀ e' ∈ l, e'.off ≤ q → e'.off ≤ e.off) :
    Bc.offsetLocation l q = some e.loc :=
  Bc.offsetLocation_of_isFloor l (Bc.sortedB_sorted l h) q e.loc ⟨e, he, rfl, hle, hmax⟩

/-- an instruction without an entry of its own (offset 12) between the entries at 7 and 20 gets the one at 7 -/
example : Bc.sortedB [⟨0, ⟨9, 5⟩⟩, ⟨7, ⟨10, 5⟩⟩, ⟨20, ⟨11, 5⟩⟩] = true ∧
    Bc.offsetLocation [⟨0, ⟨9, 5⟩⟩, ⟨7, ⟨10, 5⟩⟩, ⟨20, ⟨11, 5⟩⟩] 12 = some ⟨10, 5⟩ ∧
    Bc.offsetLocation [⟨0, ⟨9, 5⟩⟩, ⟨7, ⟨10, 5⟩⟩, ⟨20, ⟨11, 5⟩⟩] 20 = some ⟨11, 5⟩ ∧
    Bc.offsetLocation [⟨0, ⟨9, 5⟩⟩, ⟨7, ⟨10, 5⟩⟩, ⟨20, ⟨11, 5⟩⟩] 99 = some ⟨11, 5⟩ := by
  refine ⟨by decide, ?_, ?_, ?_⟩ <;> simp [Bc.offsetLocation, Bc.bsearch, Bc.pickIndex]

/-- the two remaining cases, exactly as the code has them: a query below every entry answers the FIRST entry
(`Err(0) => 0`), an empty table answers `Location::new(1, 1)`; together with `offset_location_floor` this covers every
query, so the lookup never panics and never reads outside the table. -/
theorem offset_location_no_floor (l : List Bc.BEntry) (h : Bc.sortedB l = true) (q : Nat)
    (hno : ∀ e ∈ l, q < e.off) :
    Bc.offsetLocation l q = some (match l with | [] => ⟨1, 1⟩ | e :: _ => e.loc) := by
  cases l with
  | nil => simp [Bc.offsetLocation, Bc.bsearch, Bc.pickIndex]
  | cons e r => exact Bc.offsetLocation_before_first e r (Bc.sortedB_sorted _ h) q (hno e (List.mem_cons_self))

example : Bc.offsetLocation [⟨3, ⟨9, 5⟩⟩, ⟨7, ⟨10, 5⟩⟩] 2 = some ⟨9, 5⟩ ∧ Bc.offsetLocation [] 2 = some ⟨1, 1⟩ := by
  constructor <;> simp [Bc.offsetLocation, Bc.bsearch, Bc.pickIndex]

/-- producer and lookup fit together: whatever sequence of instructions the bytecode generator emits through
`BytecodeWriter` (each optionally preceded by `set_location`, each at least one byte long), if the writer's assertion
holds then the table it builds has strictly increasing offsets and EVERY location-needing instruction — also one that
got no entry of its own because it has the location of the last entry — is answered by `offset_location(its offset)`
with exactly the location that was set for it. -/
theorem recorded_location_found (is : List Bc.Instr) (hsz : ∀ i ∈ is, 0 < i.size) (s : Bc.WState)
    (h : Bc.emitAll Bc.WState.init is = some s) :
    Bc.sortedB s.table = true ∧
    ∀ (k : Nat) (hk : k < is.length), is[k].needs = true →
      ∃ loc, is[k].loc = some loc ∧ Bc.offsetLocation s.table (Bc.offsetOf is k) = some loc := by
  obtain ⟨done, hinv, _, hall⟩ := Bc.emitAll_found is hsz _ s [] Bc.inv_init h
  refine ⟨Bc.sorted_sortedB _ hinv.sorted, ?_⟩
  intro k hk hn
  obtain ⟨loc, hl, hm⟩ := hall k hk hn
  refine ⟨loc, hl, ?_⟩
  have := (hinv.found _ hm).2
  simp only [Bc.WState.init, Nat.zero_add] at this
  exact Bc.offsetLocation_of_isFloor _ hinv.sorted _ _ this

/-- `a(i) += x; println(..)`: LoadArray (3 bytes, location 10:5, gets the entry), CheckedAdd (4 bytes, same location:
no entry), StoreArray (same), a Mov without location, InvokeStatic at 11:5. The CheckedAdd at offset 3 is answered 10:5. -/
example :
    let is : List Bc.Instr := [⟨some ⟨10, 5⟩, true, 3⟩, ⟨some ⟨10, 5⟩, true, 4⟩, ⟨some ⟨10, 5⟩, true, 4⟩, ⟨none, false, 3⟩,
                               ⟨some ⟨11, 5⟩, true, 3⟩]
    Bc.emitAll Bc.WState.init is = some ⟨17, [⟨0, ⟨10, 5⟩⟩, ⟨14, ⟨11, 5⟩⟩], none⟩ ∧ Bc.offsetOf is 1 = 3 ∧
    Bc.offsetLocation [⟨0, ⟨10, 5⟩⟩, ⟨14, ⟨11, 5⟩⟩] 3 = some ⟨10, 5⟩ := by
  refine ⟨by decide, by decide, ?_⟩
  simp [Bc.offsetLocation, Bc.bsearch, Bc.pickIndex]

end Dora.Trace.C14
