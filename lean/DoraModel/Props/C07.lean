import DoraModel.X64.Lemmas
import DoraModel.X64.Interface
import DoraModel.Props.C07Addr
import DoraModel.Props.C07Jumps
import DoraModel.Gen.X64Thm0
import DoraModel.Gen.X64Thm1
import DoraModel.Gen.X64Thm2
import DoraModel.Gen.X64Thm3
import DoraModel.Gen.X64Thm4
import DoraModel.Gen.X64Thm5
import DoraModel.Gen.X64Thm6
import DoraModel.Gen.X64Thm7
import DoraModel.Gen.X64Thm8
import DoraModel.Gen.X64Thm9
import DoraModel.Gen.X64Thm10
import DoraModel.Gen.X64Thm11
import DoraModel.Gen.X64Thm12
import DoraModel.Gen.X64Thm13
/-!
# C07 — Every x86-64 instruction is encoded as the instruction that was requested

Property theorems. The model (`Gen/X64.lean`) is regenerated from `dora-asm/src/x64.rs` on every run; the reference
decoder (`X64/Dec.lean`) and the requested instruction per method (`X64/Spec.lean`) are hand-written specifications.

* Register-only methods (120): one generated theorem each, `Gen/X64Thm*.lean` (`<method>_ok`), exhaustive over all
  16 registers per operand, all 28 condition names and both `has_avx2` values; counted as obligations by the check.
* Address-taking methods with register operands (43: `ra`, `ar`, `xa`, `ax`, `xxa`): five generated theorems each,
  `Gen/X64Addr*.lean` (`<method>_addr`, `_offset_ok`, `_index_ok`, `_array_ok`, `_rip_ok`), for all registers, all four
  `Address` constructors with all bases / indexes / scales they accept and **every** i32 displacement: the bytes decode
  to exactly the Spec entry, nothing left over; refused exactly when the `has_avx2` guard fails. Imported through
  `Props/C07Addr.lean`; counted as obligations by the check.
* This file: the interface lemmas (ModRM / SIB / REX fields; every `Address` constructor × all 16 bases × all index
  registers × all scales × **every** i32 displacement, incl. the rsp/r12 SIB-required and rbp/r13 disp-required cases;
  little-endian / sign-extension round trips), the per-method theorems of the register+immediate methods for **every**
  i64 immediate (guard ⇒ decodes to the Spec entry, ¬guard ⇒ refused), and the boundary scenarios of the
  label-addressed operands (`jumps_land_partial`).
* Label resolution in general (`Props/C07Jumps.lean`, imported here; helper lemmas `X64/Jumps*.lean`): for an ARBITRARY
  script of raw bytes / `bind_label` / `jmp` / `jcc` / `jmp_near` / `jcc_near` run through the regenerated methods and
  `resolve_jumps`: `jumps_land` (every jump decodes to the requested instruction and its displacement added to the end
  of the instruction is the position its label was bound to — forward and backward, rel8 and rel32),
  `labels_bound_where_placed`, `jump_form` (rel32 exactly for `jmp`/`jcc` unless the label is behind within reach),
  `raw_untouched`, `unbound_label_refused`, `near_backward_out_of_range_refused`.

What is NOT proved here (compared by the sweep + llvm-mc only): the nine address+immediate methods (`cmpb_ai`, `cmpl_ai`,
`cmpq_ai`, `movb_ai`, `movl_ai`, `movq_ai`, `testb_ai`, `testl_ai`, `testq_ai`: their address part is covered by the
`address_*_decodes` lemmas, their opcode/REX/immediate part only by the sweep), `testl_ri` (does not hold: known
finding), the four `*round*_ri` AVX forms, and label resolution for the label-ADDRESSED loads (`*_rl`, via
`emit_label_address`) beyond the scenarios of `jumps_land_partial` (scripts mixing them with jumps are swept only).
-/
set_option linter.unusedSimpArgs false
set_option maxRecDepth 4000
namespace Dora.X64.C07
open Dora.X64 Dora.X64.Dec

/-! ## interface lemmas -/

/-- ModRM: for every `reg` field and every first address byte `mode<<6 | rm`, the byte `emit_address` emits
(`reg << 3 | byte0`) is read back by the decoder as (mod, reg, rm). -/
theorem modrm_fields : ∀ (reg : Fin 8) (mode : Fin 4) (rm : Fin 8),
    let b : UInt8 := (UInt8.ofNat reg.val <<< 3) ||| ((UInt8.ofNat mode.val <<< 6) ||| UInt8.ofNat rm.val)
    b.toNat / 64 = mode.val ∧ b.toNat / 8 % 8 = reg.val ∧ b.toNat % 8 = rm.val := by
  decide +kernel

example : ((UInt8.ofNat 5 <<< 3) ||| ((UInt8.ofNat 2 <<< 6) ||| UInt8.ofNat 4)).toNat / 8 % 8 = 5 := (modrm_fields 5 2 4).2.1

/-- SIB: `scale << 6 | index.low_bits << 3 | base.low_bits` (as `set_sib` builds it) is read back field by field. -/
theorem sib_fields : ∀ (scale : Fin 4) (index : Fin 16) (base : Fin 16),
    let s : UInt8 := ((ScaleFactor.value (Sn scale.val) <<< 6) ||| (Register.low_bits (R index) <<< 3)) ||| Register.low_bits (R base)
    s.toNat / 64 = scale.val ∧ s.toNat / 8 % 8 = index.val % 8 ∧ s.toNat % 8 = base.val % 8 := by
  decide +kernel

example : (((ScaleFactor.value (Sn 3) <<< 6) ||| (Register.low_bits (R 9) <<< 3)) ||| Register.low_bits (R 13)).toNat % 8 = 5 :=
  (sib_fields 3 9 13).2.2

/-- REX: `emit_rex w r x b` emits exactly one byte, 0x40–0x4F, whose four low bits the decoder reads as W R X B. -/
theorem rex_fields : ∀ (w r x b : Bool),
    (enc false (emit_rex w r x b)).toOption.map (fun bs => bs.map fun v => Rex.ofByte v.toNat)
      = some [{ present := true, w := w, r := r, x := x, b := b }] := by
  decide +kernel

example : (enc false (emit_rex true false true true)).toOption = some [0x4B] := by decide +kernel

/-- an `i32` displacement / immediate survives `as u32`, the little-endian bytes of `emit_u32` / `set_disp32`, and the
decoder's signed reassembly. -/
theorem disp32_roundtrip (d : Int32) :
    sxN 32 (le32u d.toUInt32.toUInt8 (d.toUInt32 >>> 8).toUInt8 (d.toUInt32 >>> 16).toUInt8 (d.toUInt32 >>> 24).toUInt8)
      = d.toInt := le32_roundtrip d

example : sxN 32 (le32u 0xFE 0xFF 0xFF 0xFF) = -2 := by decide

/-- an `i32` in the `i8` range survives `as i8 as u8` (`set_disp8`) and the decoder's sign extension. -/
theorem disp8_roundtrip (d : Int32) (h1 : (-128 : Int32) ≤ d) (h2 : d < (0x80 : Int32)) :
    sx8 d.toInt8.toUInt8 = d.toInt := imm8_sign d h1 h2

example : sx8 (-128 : Int32).toInt8.toUInt8 = -128 := disp8_roundtrip _ (by decide) (by decide)

/-- an `i64` immediate survives `emit_u64` and the decoder's signed reassembly. -/
theorem imm64_le_roundtrip (i : Immediate) :
    sxN 64 (le32u i.v0.toUInt64.toUInt8 (i.v0.toUInt64 >>> 8).toUInt8 (i.v0.toUInt64 >>> 16).toUInt8 (i.v0.toUInt64 >>> 24).toUInt8
      + 4294967296 * le32u (i.v0.toUInt64 >>> 32).toUInt8 (i.v0.toUInt64 >>> 40).toUInt8 (i.v0.toUInt64 >>> 48).toUInt8
          (i.v0.toUInt64 >>> 56).toUInt8) = i.v0.toInt := imm64_roundtrip i

example : sxN 64 (le32u 0 0 0 0 + 4294967296 * le32u 0 0 0 0x80) = -9223372036854775808 := by decide

/-- `Address::offset(base, disp)` + `emit_address(reg, ·)`: for all 16 bases (rsp/r12 get a SIB byte, rbp/r13 a
displacement even when it is 0), every reg field and **every** i32 displacement the reference decoder reads back
exactly `disp(%base)`, the reg field, and leaves the following bytes untouched. -/
theorem address_offset_decodes (base : Fin 16) (reg : Fin 8) (disp : Int32) (tail : Dec.Bytes) :
    addrDecoded reg.val (Address.offset (R base) disp) tail
      = .ok (some (reg.val, .mem (.mem (some base.val) none disp.toInt), tail)) :=
  Dora.X64.address_offset_decodes base reg disp tail

example : addrDecoded 2 (Address.offset (R 13) 0) [0xCC] = .ok (some (2, .mem (.mem (some 13) none 0), [0xCC])) :=
  address_offset_decodes 13 2 0 [0xCC]

/-- `Address::index(index, scale, disp)` (no base): every index except rsp (which the constructor refuses), every
scale, reg field and i32 displacement. -/
theorem address_index_decodes (index : Fin 16) (hi : index.val ≠ 4) (scale : Fin 4) (reg : Fin 8) (disp : Int32)
    (tail : Dec.Bytes) :
    addrDecoded reg.val (Address.index (R index) (Sn scale.val) disp) tail
      = .ok (some (reg.val, .mem (.mem none (some (index.val, 2 ^ scale.val)) disp.toInt), tail)) :=
  Dora.X64.address_index_decodes index hi scale reg disp tail

example : addrDecoded 0 (Address.index (R 12) (Sn 3) (-1)) [] = .ok (some (0, .mem (.mem none (some (12, 8)) (-1)), [])) :=
  address_index_decodes 12 (by decide) 3 0 (-1) []

/-- `Address::index` refuses rsp as index (it cannot be encoded). -/
theorem address_index_refuses_rsp (scale : Fin 4) (disp : Int32) :
    isError (Address.index (R 4) (Sn scale.val) disp) = true :=
  Dora.X64.address_index_refuses_rsp scale disp

example : isError (Address.index (R 4) (Sn 0) 8) = true := address_index_refuses_rsp 0 8

/-- `Address::rip(disp)`: every reg field and i32 displacement reads back as `disp(%rip)`. -/
theorem address_rip_decodes (reg : Fin 8) (disp : Int32) (tail : Dec.Bytes) :
    addrDecoded reg.val (Address.rip disp) tail = .ok (some (reg.val, .mem (.ripRel disp.toInt), tail)) :=
  Dora.X64.address_rip_decodes reg disp tail

example : addrDecoded 7 (Address.rip 2147483647) [] = .ok (some (7, .mem (.ripRel 2147483647), [])) :=
  address_rip_decodes 7 2147483647 []

/-- `Address::array(base, index, scale, disp)`: all 16 bases × every index the constructor accepts (all but rsp, r12)
× every scale × **every** i32 displacement: the encoded bytes (ModRM `mod`/`rm` fields, SIB, displacement), read with
the address's own REX.X / REX.B, denote exactly `disp(%base,%index,scale)`. (The reg field of the ModRM byte is
covered by `modrm_fields`; it is independent of the rest: `decodeModRM` passes only `mod` and `rm` on to `decodeRM`.) -/
theorem address_array_decodes (base : Fin 16) (index : Fin 16) (hi : index.val ≠ 4 ∧ index.val ≠ 12) (scale : Fin 4)
    (disp : Int32) (tail : Dec.Bytes) :
    addrOperand (Address.array (R base) (R index) (Sn scale.val) disp) tail
      = .ok (some (.mem (.mem (some base.val) (some (index.val, 2 ^ scale.val)) disp.toInt), tail)) :=
  Dora.X64.address_array_decodes base index hi scale disp tail

example : addrOperand (Address.array (R 13) (R 9) (Sn 2) 0) [] = .ok (some (.mem (.mem (some 13) (some (9, 4)) 0), [])) :=
  address_array_decodes 13 9 (by decide) 2 0 []

/-! ## register + immediate methods: every i64 immediate -/

/-- `addq_ri`: for both `has_avx2` values, all 16 registers and **every** i64 immediate: if `is_int32` the bytes (imm8 form
`83 /n ib`, the rax short form, or `81 /n id`) decode to exactly `Spec.addq_ri` with nothing left over; otherwise refused. -/
theorem addq_ri_ok : AluImmOk addq_ri Spec.addq_ri := by
  intro avx dest imm
  alu_imm_tac addq_ri emit_alu64_imm Spec.addq_ri immS64_eq avx dest imm

example : (enc false (addq_ri (R 9) ⟨-129⟩)).map decode = .ok (want (Spec.addq_ri (R 9) ⟨-129⟩)) :=
  (addq_ri_ok false 9 ⟨-129⟩).1 (by decide)

/-- `andq_ri`: for both `has_avx2` values, all 16 registers and **every** i64 immediate: if `is_int32` the bytes (imm8 form
`83 /n ib`, the rax short form, or `81 /n id`) decode to exactly `Spec.andq_ri` with nothing left over; otherwise refused. -/
theorem andq_ri_ok : AluImmOk andq_ri Spec.andq_ri := by
  intro avx dest imm
  alu_imm_tac andq_ri emit_alu64_imm Spec.andq_ri immS64_eq avx dest imm

example : (enc false (andq_ri (R 9) ⟨-129⟩)).map decode = .ok (want (Spec.andq_ri (R 9) ⟨-129⟩)) :=
  (andq_ri_ok false 9 ⟨-129⟩).1 (by decide)

/-- `subq_ri`: for both `has_avx2` values, all 16 registers and **every** i64 immediate: if `is_int32` the bytes (imm8 form
`83 /n ib`, the rax short form, or `81 /n id`) decode to exactly `Spec.subq_ri` with nothing left over; otherwise refused. -/
theorem subq_ri_ok : AluImmOk subq_ri Spec.subq_ri := by
  intro avx dest imm
  alu_imm_tac subq_ri emit_alu64_imm Spec.subq_ri immS64_eq avx dest imm

example : (enc false (subq_ri (R 9) ⟨-129⟩)).map decode = .ok (want (Spec.subq_ri (R 9) ⟨-129⟩)) :=
  (subq_ri_ok false 9 ⟨-129⟩).1 (by decide)

/-- `cmpq_ri`: for both `has_avx2` values, all 16 registers and **every** i64 immediate: if `is_int32` the bytes (imm8 form
`83 /n ib`, the rax short form, or `81 /n id`) decode to exactly `Spec.cmpq_ri` with nothing left over; otherwise refused. -/
theorem cmpq_ri_ok : AluImmOk cmpq_ri Spec.cmpq_ri := by
  intro avx dest imm
  alu_imm_tac cmpq_ri emit_alu64_imm Spec.cmpq_ri immS64_eq avx dest imm

example : (enc false (cmpq_ri (R 9) ⟨-129⟩)).map decode = .ok (want (Spec.cmpq_ri (R 9) ⟨-129⟩)) :=
  (cmpq_ri_ok false 9 ⟨-129⟩).1 (by decide)

/-- `addl_ri`: for both `has_avx2` values, all 16 registers and **every** i64 immediate: if `is_int32` the bytes (imm8 form
`83 /n ib`, the rax short form, or `81 /n id`) decode to exactly `Spec.addl_ri` with nothing left over; otherwise refused. -/
theorem addl_ri_ok : AluImmOk addl_ri Spec.addl_ri := by
  intro avx dest imm
  alu_imm_tac addl_ri emit_alu32_imm Spec.addl_ri immS32_eq avx dest imm

example : (enc false (addl_ri (R 9) ⟨-129⟩)).map decode = .ok (want (Spec.addl_ri (R 9) ⟨-129⟩)) :=
  (addl_ri_ok false 9 ⟨-129⟩).1 (by decide)

/-- `cmpl_ri`: for both `has_avx2` values, all 16 registers and **every** i64 immediate: if `is_int32` the bytes (imm8 form
`83 /n ib`, the rax short form, or `81 /n id`) decode to exactly `Spec.cmpl_ri` with nothing left over; otherwise refused. -/
theorem cmpl_ri_ok : AluImmOk cmpl_ri Spec.cmpl_ri := by
  intro avx dest imm
  alu_imm_tac cmpl_ri emit_alu32_imm Spec.cmpl_ri immS32_eq avx dest imm

example : (enc false (cmpl_ri (R 9) ⟨-129⟩)).map decode = .ok (want (Spec.cmpl_ri (R 9) ⟨-129⟩)) :=
  (cmpl_ri_ok false 9 ⟨-129⟩).1 (by decide)

/-- `xorl_ri`: for both `has_avx2` values, all 16 registers and **every** i64 immediate: if `is_int32` the bytes (imm8 form
`83 /n ib`, the rax short form, or `81 /n id`) decode to exactly `Spec.xorl_ri` with nothing left over; otherwise refused. -/
theorem xorl_ri_ok : AluImmOk xorl_ri Spec.xorl_ri := by
  intro avx dest imm
  alu_imm_tac xorl_ri emit_alu32_imm Spec.xorl_ri immS32_eq avx dest imm

example : (enc false (xorl_ri (R 9) ⟨-129⟩)).map decode = .ok (want (Spec.xorl_ri (R 9) ⟨-129⟩)) :=
  (xorl_ri_ok false 9 ⟨-129⟩).1 (by decide)

/-- `sarl_ri`: all registers, every i64 immediate: `is_int8` ⇒ decodes to `Spec.sarl_ri` (count = low byte), else refused. -/
theorem sarl_ri_ok : ShiftImmOk sarl_ri Spec.sarl_ri := by
  intro avx dest imm
  shift_imm_tac sarl_ri Spec.sarl_ri avx dest imm

example : (enc true (sarl_ri (R 12) ⟨63⟩)).map decode = .ok (want (Spec.sarl_ri (R 12) ⟨63⟩)) :=
  (sarl_ri_ok true 12 ⟨63⟩).1 (by decide)

/-- `sarq_ri`: all registers, every i64 immediate: `is_int8` ⇒ decodes to `Spec.sarq_ri` (count = low byte), else refused. -/
theorem sarq_ri_ok : ShiftImmOk sarq_ri Spec.sarq_ri := by
  intro avx dest imm
  shift_imm_tac sarq_ri Spec.sarq_ri avx dest imm

example : (enc true (sarq_ri (R 12) ⟨63⟩)).map decode = .ok (want (Spec.sarq_ri (R 12) ⟨63⟩)) :=
  (sarq_ri_ok true 12 ⟨63⟩).1 (by decide)

/-- `shll_ri`: all registers, every i64 immediate: `is_int8` ⇒ decodes to `Spec.shll_ri` (count = low byte), else refused. -/
theorem shll_ri_ok : ShiftImmOk shll_ri Spec.shll_ri := by
  intro avx dest imm
  shift_imm_tac shll_ri Spec.shll_ri avx dest imm

example : (enc true (shll_ri (R 12) ⟨63⟩)).map decode = .ok (want (Spec.shll_ri (R 12) ⟨63⟩)) :=
  (shll_ri_ok true 12 ⟨63⟩).1 (by decide)

/-- `shlq_ri`: all registers, every i64 immediate: `is_int8` ⇒ decodes to `Spec.shlq_ri` (count = low byte), else refused. -/
theorem shlq_ri_ok : ShiftImmOk shlq_ri Spec.shlq_ri := by
  intro avx dest imm
  shift_imm_tac shlq_ri Spec.shlq_ri avx dest imm

example : (enc true (shlq_ri (R 12) ⟨63⟩)).map decode = .ok (want (Spec.shlq_ri (R 12) ⟨63⟩)) :=
  (shlq_ri_ok true 12 ⟨63⟩).1 (by decide)

/-- `shrl_ri`: all registers, every i64 immediate: `is_int8` ⇒ decodes to `Spec.shrl_ri` (count = low byte), else refused. -/
theorem shrl_ri_ok : ShiftImmOk shrl_ri Spec.shrl_ri := by
  intro avx dest imm
  shift_imm_tac shrl_ri Spec.shrl_ri avx dest imm

example : (enc true (shrl_ri (R 12) ⟨63⟩)).map decode = .ok (want (Spec.shrl_ri (R 12) ⟨63⟩)) :=
  (shrl_ri_ok true 12 ⟨63⟩).1 (by decide)

/-- `shrq_ri`: all registers, every i64 immediate: `is_int8` ⇒ decodes to `Spec.shrq_ri` (count = low byte), else refused. -/
theorem shrq_ri_ok : ShiftImmOk shrq_ri Spec.shrq_ri := by
  intro avx dest imm
  shift_imm_tac shrq_ri Spec.shrq_ri avx dest imm

example : (enc true (shrq_ri (R 12) ⟨63⟩)).map decode = .ok (want (Spec.shrq_ri (R 12) ⟨63⟩)) :=
  (shrq_ri_ok true 12 ⟨63⟩).1 (by decide)

/-- `movl_ri`: all registers, every i64 immediate: `is_int32` ⇒ `B8+r id` decodes to `Spec.movl_ri`, else refused. -/
theorem movl_ri_ok : AluImmOk movl_ri Spec.movl_ri := by
  intro avx dest imm
  revert avx
  refine forall_fin16 (p := fun d => ∀ avx : Bool,
      (Immediate.is_int32 imm = true → (enc avx (movl_ri (Rn d) imm)).map decode = .ok (want (Spec.movl_ri (Rn d) imm))) ∧
      (Immediate.is_int32 imm = false → isError (enc avx (movl_ri (Rn d) imm)) = true))
    ?_ ?_ ?_ ?_ ?_ ?_ ?_ ?_ ?_ ?_ ?_ ?_ ?_ ?_ ?_ ?_ dest
  all_goals
    intro avx
    cases avx
    all_goals
      constructor
      · intro h32
        unfold Spec.movl_ri I
        rw [immS32_eq imm h32, ← imm32_sign64 imm h32]
        unfold movl_ri
        simp only [h32]
        kernel_rfl
      · intro h32
        unfold movl_ri
        simp only [h32]
        kernel_rfl

example : (enc false (movl_ri (R 15) ⟨-1⟩)).map decode = .ok (want (Spec.movl_ri (R 15) ⟨-1⟩)) :=
  (movl_ri_ok false 15 ⟨-1⟩).1 (by decide)

/-- `movq_ri`: all registers, **every** i64 immediate, no guard: the sign-extended imm32 form (`REX.W C7 /0 id`) when it
fits, else `movabs` with the full 64-bit immediate; both decode to `Spec.movq_ri`. -/
theorem movq_ri_ok : ∀ (avx : Bool) (dest : Fin 16) (imm : Immediate),
    (enc avx (movq_ri (R dest) imm)).map decode = .ok (want (Spec.movq_ri (R dest) imm)) := by
  intro avx dest imm
  revert avx
  refine forall_fin16 (p := fun d => ∀ avx : Bool,
      (enc avx (movq_ri (Rn d) imm)).map decode = .ok (want (Spec.movq_ri (Rn d) imm)))
    ?_ ?_ ?_ ?_ ?_ ?_ ?_ ?_ ?_ ?_ ?_ ?_ ?_ ?_ ?_ ?_ dest
  all_goals
    intro avx
    cases avx
    all_goals
      cases h32 : Immediate.is_int32 imm
      · unfold Spec.movq_ri I
        rw [inS32_of_not_int32 imm h32, immS64_eq' imm, ← imm64_roundtrip imm]
        unfold movq_ri
        simp only [h32, Bool.false_eq_true, if_false]
        kernel_rfl
      · unfold Spec.movq_ri I
        rw [inS32_of_int32 imm h32, immS64_eq' imm, ← imm32_sign64 imm h32]
        unfold movq_ri
        simp only [h32, if_true]
        kernel_rfl

example : (enc false (movq_ri (R 9) ⟨2147483648⟩)).map decode = .ok (want (Spec.movq_ri (R 9) ⟨2147483648⟩)) :=
  movq_ri_ok false 9 ⟨2147483648⟩

/-- `call_rel32`: every i32 displacement. -/
theorem call_rel32_ok (avx : Bool) (disp : Int32) :
    (enc avx (call_rel32 disp)).map decode = .ok (want (Spec.call_rel32 disp)) := by
  unfold Spec.call_rel32 N
  rw [← le32_roundtrip disp]
  cases avx <;> kernel_rfl

example : (enc false (call_rel32 (-5))).map decode = .ok (some ({ mnem := .call, ops := [.rel (-5)] }, [])) :=
  call_rel32_ok false (-5)

/-! ## jumps and label-addressed operands -/

/-- the distances at which the rel8 / rel32 choice and the rel8 range limit are decided -/
def boundaryDistances : List Nat := [0, 1, 2, 60, 121, 122, 123, 124, 125, 126, 127, 128, 129, 130, 131, 200]

/-- Label resolution on the boundary scenarios. For `jmp`, `jcc` (all 16 hardware conditions are covered by the
generated `cmovl`/`setcc` theorems; here condition names 0 and 27), `jmp_near`, `jcc_near`, `movq_rl`, and for a
forward reference over `k` one-byte instructions as well as a backward reference over `k`, `k` ranging over the
distances around the rel8 limit: after `resolve_jumps` the instruction decodes to the requested one and its
displacement, added to the end of the instruction, is exactly the position the label was bound to. The far forms are
never refused; the near forms are refused (not mis-encoded) exactly when the distance does not fit.

The general statement for the four jump methods — any script, any number of labels and references — is `jumps_land`
in Props/C07Jumps.lean. What remains partial here: the label-ADDRESSED operands (`movq_rl` and the other `*_rl` methods,
`emit_label_address`), for which only these scenarios are proved. FULL STATEMENT (not proved): in every program that
also contains `*_rl` methods, every RIP-relative label operand decodes to the position its label was bound to. Missing:
`*_rl` operations in the script type of X64/Jumps4.lean (their pending entries are `Far` entries of the same list, so
the invariant of `resolve_jumps` already covers them; the per-method prefix bytes are not modelled there). -/
theorem jumps_land_partial :
    (bools.all fun avx => boundaryDistances.all fun k =>
      forwardOk avx k jmp Spec.jmp false && backwardOk avx k jmp Spec.jmp false &&
      forwardOk avx k (jcc (Cn 0)) (Spec.jcc (Cn 0)) false && backwardOk avx k (jcc (Cn 27)) (Spec.jcc (Cn 27)) false &&
      forwardOk avx k (movq_rl (Rn 9)) (Spec.movq_rl (Rn 9)) false && backwardOk avx k (movq_rl (Rn 9)) (Spec.movq_rl (Rn 9)) false &&
      forwardOk avx k jmp_near Spec.jmp_near (decide (k > 127)) && backwardOk avx k jmp_near Spec.jmp_near (decide (k > 126)) &&
      forwardOk avx k (jcc_near (Cn 6)) (Spec.jcc_near (Cn 6)) (decide (k > 127)) &&
      backwardOk avx k (jcc_near (Cn 6)) (Spec.jcc_near (Cn 6)) (decide (k > 126))) = true := by
  decide +kernel

example : forwardOk false 127 jmp_near Spec.jmp_near false = true := by decide +kernel
example : backwardOk false 126 jmp Spec.jmp false = true := by decide +kernel

end Dora.X64.C07
