import DoraModel.Alloc.Lemmas
/-!
# C13 — "A request for an object of impossible size (negative or astronomically large length) is refused"

The arithmetic core of the property: for EVERY 64-bit length and every element size the baseline
generator's size computation either refuses (overflow trap) or yields exactly the intended, non-wrapped
size. The same statement is proved for the optimizing generator (checked arithmetic + sign check). Both
generators lacked part of this before the fixes; the old behaviour is kept as the `…_unchecked_…` witnesses.
Stack exhaustion and the allocation ladder are explored by generated programs (checks/c13.py), not proved.
-/
namespace Dora.Alloc.C13
open Dora.Alloc

/-- Baseline generator with its range check: refused, or the exact aligned size, which is below 2^63 and
agrees with what the runtime later computes for the object (so heap walks stay in step). -/
theorem cannon_exact_or_refused (len : BitVec 64) (es : Nat) (hes : 0 < es) (hes2 : es < 2 ^ 32) :
    match cannonOutcome true len es with
    | none => True
    | some s => s.toNat = intendedSize len.toNat es ∧ s.toNat < 2 ^ 63 ∧ 0 ≤ len.toInt ∧
        s.toNat = runtimeSize len.toNat es := by
  unfold cannonOutcome
  by_cases hg : len.toNat > maxLen es
  · simp [hg]
  · simp only [hg, decide_false, Bool.and_false, Bool.false_eq_true, if_false]
    have hle : len.toNat ≤ maxLen es := Nat.le_of_not_lt hg
    have hb := maxLen_bound es len.toNat hes hle
    have hmul : (len * BitVec.ofNat 64 es).toNat = len.toNat * es := by
      rw [BitVec.toNat_mul, BitVec.toNat_ofNat]
      have : es % 2 ^ 64 = es := Nat.mod_eq_of_lt (by omega)
      rw [this]
      exact Nat.mod_eq_of_lt (by unfold arrayHeader at hb; omega)
    have hpos : 0 ≤ len.toInt := by
      rw [BitVec.toInt_eq_toNat_cond]
      have : len.toNat * 1 ≤ len.toNat * es := Nat.mul_le_mul_left _ hes
      have : 2 * len.toNat < 2 ^ 64 := by unfold arrayHeader at hb; omega
      simp [this]
    have hrt : runtimeSize len.toNat es = intendedSize len.toNat es := by
      unfold runtimeSize intendedSize; rw [Nat.mul_comm]
    unfold cannonSize
    by_cases h8 : es = 8
    · subst h8
      simp only [if_true]
      have hraw : (len * BitVec.ofNat 64 8 + BitVec.ofNat 64 (arrayHeader + 0)).toNat = arrayHeader + len.toNat * 8 := by
        rw [BitVec.toNat_add, hmul, BitVec.toNat_ofNat]
        unfold arrayHeader at *
        omega
      rw [hraw, hrt]
      unfold intendedSize align8 arrayHeader at *
      refine ⟨by omega, by omega, hpos, by omega⟩
    · simp only [h8, if_false]
      have hraw : (len * BitVec.ofNat 64 es + BitVec.ofNat 64 (arrayHeader + 7)).toNat = arrayHeader + len.toNat * es + 7 := by
        rw [BitVec.toNat_add, hmul, BitVec.toNat_ofNat]
        unfold arrayHeader at *
        omega
      rw [and_neg8, hraw, hrt]
      unfold intendedSize align8 arrayHeader at *
      refine ⟨by omega, by omega, hpos, by omega⟩

/-- Lengths beyond the bound (this includes every negative length, read as unsigned) are refused. -/
theorem cannon_refuses_impossible (len : BitVec 64) (es : Nat) (h : len.toNat > maxLen es) :
    cannonOutcome true len es = none := by
  simp [cannonOutcome, h]

theorem negative_is_beyond_bound (len : BitVec 64) (es : Nat) (hneg : len.toInt < 0) :
    len.toNat > maxLen es := by
  rw [BitVec.toInt_eq_toNat_cond] at hneg
  have : ¬ (2 * len.toNat < 2 ^ 64) := by
    intro h; simp [h] at hneg; omega
  have h1 : maxLen es ≤ 2 ^ 63 - 1 - arrayHeader - 8 := Nat.div_le_self _ _
  unfold arrayHeader at h1
  omega

/-- Without the check the computation wraps: the witness of the defect that was fixed
(`Array[Int64]::zero(2^61+1)` gets a 24-byte object). -/
theorem cannon_unchecked_wraps :
    cannonOutcome false (BitVec.ofNat 64 2305843009213693953) 8 = some 24#64 := by decide

/-- Optimizing generator, non-negative lengths: refused or exact (with or without the sign check). -/
theorem boots_exact_or_refused_nonneg (sc : Bool) (len : Int) (es : Nat) (hes : 0 < es) (h0 : 0 ≤ len) (hl : len < 2 ^ 63) :
    bootsOutcome sc len es = .trap ∨
    (bootsOutcome sc len es = .size (intendedSize len.toNat es : Int) ∧ (intendedSize len.toNat es : Int) < 2 ^ 63) := by
  obtain ⟨n, rfl⟩ := Int.eq_ofNat_of_zero_le h0
  simp only [Int.toNat_natCast]
  unfold bootsOutcome
  have hsc : (sc && !inI64 ((n : Int) + (-(2 ^ 63 : Int)))) = false := by
    have : inI64 ((n : Int) + (-(2 ^ 63 : Int))) = true := by
      simp only [inI64, Bool.and_eq_true, decide_eq_true_eq]; omega
    rw [this]; cases sc <;> rfl
  simp only [hsc, Bool.false_eq_true, if_false]
  by_cases h1 : inI64 ((n : Int) * (es : Int)) = true
  · by_cases h2 : inI64 ((n : Int) * (es : Int) + (arrayHeader : Int)) = true
    · simp only [h1, h2, Bool.not_true, Bool.false_eq_true, if_false]
      simp only [inI64, Bool.and_eq_true, decide_eq_true_eq] at h1 h2
      by_cases h8 : es % 8 = 0
      · right
        simp only [h8, if_true]
        have hm : (arrayHeader + n * es) % 8 = 0 := by
          unfold arrayHeader
          have : n * es % 8 = 0 := by rw [Nat.mul_mod, h8]; simp
          omega
        have e : ((n : Int) * (es : Int) + (arrayHeader : Int)) = ((arrayHeader + n * es : Nat) : Int) := by
          push_cast; omega
        have hi : intendedSize n es = arrayHeader + n * es := by
          unfold intendedSize align8; omega
        rw [hi, e]
        exact ⟨rfl, by rw [← e]; exact h2.2⟩
      · simp only [h8, if_false]
        by_cases h3 : inI64 ((n : Int) * (es : Int) + (arrayHeader : Int) + 7) = true
        · right
          simp only [h3, Bool.not_true, Bool.false_eq_true, if_false]
          simp only [inI64, Bool.and_eq_true, decide_eq_true_eq] at h3
          have e : ((n : Int) * (es : Int) + (arrayHeader : Int) + 7) = ((arrayHeader + n * es + 7 : Nat) : Int) := by
            push_cast; omega
          have hi : (intendedSize n es : Int) = ((arrayHeader + n * es + 7 : Nat) : Int) / 8 * 8 := by
            unfold intendedSize align8; push_cast; rfl
          rw [e, hi]
          refine ⟨rfl, ?_⟩
          have hd : ((arrayHeader + n * es + 7 : Nat) : Int) / 8 * 8 ≤ ((arrayHeader + n * es + 7 : Nat) : Int) :=
            Int.ediv_mul_le _ (by decide)
          rw [e] at h3
          omega
        · left; simp [h3]
    · left; simp [h1, h2]
  · left; simp [h1]

/-- Optimizing generator with its sign check: every negative length is refused. -/
theorem boots_refuses_negative (len : Int) (es : Nat) (hneg : len < 0) (hl : -(2 ^ 63 : Int) ≤ len) :
    bootsOutcome true len es = .trap := by
  unfold bootsOutcome
  have : inI64 (len + (-(2 ^ 63 : Int))) = false := by
    simp only [inI64, Bool.and_eq_false_iff, decide_eq_false_iff_not]; left; omega
  rw [this]; rfl

/-- Hence, for EVERY Int64 length: refused, or non-negative with the exact size. -/
theorem boots_exact_or_refused (len : Int) (es : Nat) (hes : 0 < es) (h1 : -(2 ^ 63 : Int) ≤ len) (h2 : len < 2 ^ 63) :
    bootsOutcome true len es = .trap ∨
    (0 ≤ len ∧ bootsOutcome true len es = .size (intendedSize len.toNat es : Int) ∧
      (intendedSize len.toNat es : Int) < 2 ^ 63) := by
  by_cases h0 : 0 ≤ len
  · rcases boots_exact_or_refused_nonneg true len es hes h0 h2 with h | h
    · exact Or.inl h
    · exact Or.inr ⟨h0, h⟩
  · exact Or.inl (boots_refuses_negative len es (by omega) h1)

/-- Without the sign check the statement was false: the witness of the defect that was fixed
(`Array[UInt8]::zero(-1)` got a 16-byte object of length −1; `Array[Int64]::zero(-1)` an 8-byte one,
smaller than its own header). -/
theorem boots_unchecked_negative_not_refused :
    bootsOutcome false (-1) 1 = .size 16 ∧ bootsOutcome false (-1) 8 = .size 8 := by decide

example : cannonOutcome true (BitVec.ofNat 64 1000) 4 = some 4016#64 := by decide
example : cannonOutcome true (BitVec.ofInt 64 (-1)) 8 = none := by decide
example : bootsOutcome true 2305843009213693953 8 = .trap := by decide
example : bootsOutcome true (-1) 8 = .trap := by decide

end Dora.Alloc.C13
