import DoraModel.Wait.HmapLemmas4
import DoraModel.Wait.MtxReach
/-!
# C09 — Mutexes, conditions, joins and atomics keep their promises in every interleaving

Property theorems only.  Two models:
* `DoraModel/Wait/Hmap.lean` — the address-keyed wait table `ObjectHashMap` (waitlists.rs), function by function;
* `DoraModel/Wait/Mtx.lean` — the lock-word / wait-queue / blocking-flag / join protocol of thread.dora,
  waitlists.rs and threads.rs for any number of threads, one shim operation per step.
Both are the executable objects the correspondence runs use (`drv_c09`).

All protocol invariants of DESIGN A.3 are theorems here: K (`mutual_exclusion`, `lock_word_free_iff`), Q
(`queue_flag_consistency`), J (`no_lost_wakeup`), S (`no_lost_signal`), W (`condition_waiters_cover_queue`), the
join rule (`join_after_stop`) and `asserts_hold`.  NOT a theorem: a global `deadlock_free` for programs whose
critical sections terminate (it needs a notion of program; the harness' scheduler reports any deadlock of the
real code on the explored schedules instead).  Atomic exchange /
compare-exchange / fetch-add are single steps of the model by construction (their indivisibility in compiled
code rests on C07's `lock`-prefixed encodings).
-/
namespace Dora.Wait.C09
open Dora.Wait

/-! ## the wait table refines a finite map -/
section hmap
open Dora.Wait.Hmap

/-- "…also when collections move the mutex and condition objects while threads are queued on them" needs the
wait table to be a map from object address to queue.  `WInv` is the invariant (no duplicate keys, `entries` and
`deleted` are the numbers of live slots and of tombstones, every live key is reachable from its home slot
through non-empty slots, capacity a power of two ≥ 8, and `entries + deleted ≤ ¾ capacity` — tombstones count
towards the load factor since /repo 527dccb30).  Under `WInv`:
* a table of capacity > 0 has an EMPTY slot, which is why the three unbounded probe loops terminate;
* `get`, `insert`, `remove` terminate (`.ok`), return what the abstract map `a : Addr → Option Val` returns,
  yield a table that represents the updated abstract map, and PRESERVE `WInv`.
(`remove` on the never-used table of capacity 0 computes `hash & (0 - 1)` and panics in the real code too;
`WaitLists` cannot reach it: `wakeup` does a `get` first and `wakeup_all` needs an earlier `enqueue`.) -/
theorem hmap_refines {ep : Nat} {m : Map} {a : Nat → Option Nat} (hI : WInv ep m) (hR : Repr m a)
    {k : Nat} (hk : 1 < k) :
    (m.capacity ≠ 0 → HasEmpty m) ∧
    (∃ m', get m ep k = .ok (a k, m') ∧ WInv ep m' ∧ Repr m' a) ∧
    (∀ v, ∃ m', insert m ep k v = .ok m' ∧ WInv ep m' ∧ Repr m' (fun x => if x = k then some v else a x)) ∧
    (m.capacity ≠ 0 → ∃ m', remove m ep k = .ok (a k, m') ∧ WInv ep m' ∧
        Repr m' (fun x => if x = k then none else a x) ∧ m'.capacity ≠ 0) := by
  have hopt : ∀ r : Option Nat, (∀ v, r = some v ↔ Lookup m k v) → r = a k := by
    intro r hr
    cases hak : a k with
    | none =>
      cases r with
      | none => rfl
      | some v => have := (hR k v hk).mpr ((hr v).mp rfl); rw [hak] at this; cases this
    | some v => exact (hr v).mpr ((hR k v hk).mp hak)
  refine ⟨winv_hasEmpty hI, ?_, ?_, ?_⟩
  · obtain ⟨r, m', h1, hr, hw, hlk⟩ := get_spec hI hk
    rw [hopt r hr] at h1
    exact ⟨m', h1, hw, fun k' v' hk' => by rw [hR k' v' hk', hlk]⟩
  · intro v
    obtain ⟨m', h1, hw, hlk⟩ := insert_spec hI v hk
    refine ⟨m', h1, hw, ?_⟩
    intro k' v' hk'
    rw [hlk]
    by_cases hkk : k' = k
    · subst hkk; simp; constructor
      · intro h; exact h.symm
      · intro h; exact h.symm
    · simp [hkk]; exact hR k' v' hk'
  · intro hcap
    obtain ⟨r, m', h1, hr, hw, hlk, hc'⟩ := remove_spec hI hcap hk
    rw [hopt r hr] at h1
    refine ⟨m', h1, hw, ?_, hc'⟩
    intro k' v' hk'
    rw [hlk]
    by_cases hkk : k' = k
    · subst hkk; simp
    · simp [hkk]; exact hR k' v' hk'

/-- hypotheses of `hmap_refines` are satisfiable, and chaining it from the fresh table works:
after `insert 16 ↦ 7` the table represents `{16 ↦ 7}` and satisfies `WInv` -/
example : ∃ m', insert new 0 16 7 = .ok m' ∧ WInv 0 m' ∧ Repr m' (fun x => if x = 16 then some 7 else none) :=
  (hmap_refines (winv_new 0) (a := fun _ => none) repr_new (by decide)).2.2.1 7

/-- 8 inserts of 16-aligned addresses, 4 removes, 8 inserts of addresses ≡ 8 (mod 16): the sequence of DESIGN §8
that used to fill a 16-slot table with 12 live entries and 4 tombstones (no EMPTY slot; `get`, `insert` and
`remove` of an absent key then never returned) while `overflow()` ignored tombstones. -/
def witnessOps : List Op :=
  ((List.range 8).map fun i => Op.ins (16 * (i + 1)) (i + 1)) ++
  [Op.rem 16, Op.rem 48, Op.rem 80, Op.rem 112] ++
  ((List.range 8).map fun i => Op.ins (16 * (i + 1) + 8) (i + 11))

/-- [capacity, entries, deleted, tombstones, EMPTY slots, `get absent` (0 = none, 1 = some, 2 = error)] at the end of a run -/
def runSummary : Except Err (Map × Nat) → Nat → List Nat
  | .ok (m, ep), absent => [m.capacity, m.entries, m.deleted, tombstones m, empties m,
      (match get m ep absent with | .ok (none, _) => 0 | .ok (some _, _) => 1 | .error _ => 2)]
  | .error _, _ => []

/-- regression (corpus/C09/hmap-tombstones-fill-table.req is the same sequence against the real table): with
tombstones counted, the 13th insert rehashes; the run ends with capacity 16, 12 live entries, no tombstone,
4 EMPTY slots, and `get` of an absent key answers `none`. -/
example : runSummary (run new 0 witnessOps) 160 = [16, 12, 0, 0, 4, 0] := by decide

/-- "collections move the mutex and condition objects while threads are queued on them": a moving collection
rewrites the live keys in place through an injective address map `f` (and the runtime's epoch advances).  The
table then represents the re-keyed abstract map and satisfies the invariant for the new epoch, so by `hmap_refines` the
next `get / insert / remove` (which rehashes first) answers for the NEW addresses. -/
theorem hmap_relocation {ep ep' : Nat} {m : Map} (hI : WInv ep m) (hep : m.gcEpoch ≠ ep') (f : Nat → Nat)
    (hinj : ∀ k k' v v', Lookup m k v → Lookup m k' v' → f k = f k' → k = k')
    (hpos : ∀ k v, Lookup m k v → 1 < f k) :
    WInv ep' (relocate f m) ∧ (∀ k' v, Lookup (relocate f m) k' v ↔ ∃ k, f k = k' ∧ Lookup m k v) ∧
      (HasEmpty m → HasEmpty (relocate f m)) :=
  relocate_spec hI hep f hinj hpos

/-- non-vacuity: the table `{16 ↦ 7}` built under epoch 0, moved by `f k = k + 1024`, looked at under epoch 1 -/
example : ∃ m, WInv 0 m ∧ m.gcEpoch ≠ 1 ∧ Lookup m 16 7 := by
  obtain ⟨m', h1, hw, hr⟩ := (hmap_refines (winv_new 0) (a := fun _ => none)
    repr_new (show 1 < 16 by decide)).2.2.1 7
  refine ⟨m', hw, ?_, (hr 16 7 (by decide)).mp (by simp)⟩
  have : (insert new 0 16 7).toOption.map (·.gcEpoch) = some 0 := by decide
  rw [h1] at this; simp [Except.toOption] at this; omega

end hmap

/-! ## the mutex / condition / join protocol -/
section mtx
open Dora.Wait.Mtx

variable {n : Nat} {s : State}

/-- "Critical sections run under the same mutex never overlap", for any number of threads and every
interleaving: in every reachable state at most one thread is between a successful acquiring CAS
(`0→1` in `lock_op`, `0→2` in `lock_slow`) and its releasing `exchange(0)` — `holds` covers the critical
section itself, calls made inside it, and `Condition::wait` up to its `unlock_op`.  The lock word is 0
exactly when nobody owns the mutex. -/
theorem mutual_exclusion (hr : Reach n s) {t u : Nat} {p q : PC} (ht : s.pcs[t]? = some p) (hu : s.pcs[u]? = some q)
    (hp : holds p = true) (hq : holds q = true) : t = u ∧ s.w ≠ 0 := by
  have hk := hr.kinv
  have hpos : 0 < s.pcs.countP holds := List.countP_pos_iff.mpr ⟨p, List.mem_of_getElem? ht, hp⟩
  refine ⟨?_, fun h0 => by have := hk.zero.mp h0; omega⟩
  apply Classical.byContradiction
  intro hne
  -- two different owners: remove one, the other is still counted
  have h1 := countP_set_tf holds ht hp (show holds PC.idle = false from rfl)
  have hu' : (s.pcs.set t PC.idle)[u]? = some q := by rw [List.getElem?_set]; simp [hne, hu]
  have h2 : 0 < (s.pcs.set t PC.idle).countP holds := List.countP_pos_iff.mpr ⟨q, List.mem_of_getElem? hu', hq⟩
  have := hk.le1
  omega

/-- the lock word is 0 exactly when no thread owns the mutex -/
theorem lock_word_free_iff (hr : Reach n s) : s.w = 0 ↔ ∀ (t : Nat) (p : PC), s.pcs[t]? = some p → holds p = false := by
  rw [hr.kinv.zero, List.countP_eq_zero]
  constructor
  · intro h t p ht; have := h p (List.mem_of_getElem? ht); simpa using this
  · intro h p hp; obtain ⟨t, ht⟩ := List.getElem?_of_mem hp; simp [h t p ht]

/-- "join returns only after the joined thread has finished": a joiner that is about to return (it holds the
join lock and has read `running = false`) finds the joined thread past `stop`'s `*running = false;
notify_all()` — at `st2` (dropping the join lock) or finished.  Its writes are visible because the model's
memory is sequentially consistent and the write happened under the same lock. -/
theorem join_after_stop (hr : Reach n s) {t u : Nat} {r : Ret} (ht : s.pcs[t]? = some (PC.jn1 r u false)) :
    s.running[u]? = some false ∧ (s.pcs[u]? = some PC.st2 ∨ s.pcs[u]? = some PC.fin) := by
  have h := hr.rinv
  exact ⟨h.seen t r u ht, h.stopped u (h.seen t r u ht)⟩

/-- "a notification with no waiter has no effect": `notify_one` / `notify_all` that read `waiters = 0` return
at once; a `wakeup` / `wakeup_all` that finds the queue empty can only drop the wait-table lock again — lock
word, both queues and all blocking flags are unchanged (the `waiters` word too; `notify_all`'s own
`waiters.set(0)` happened before, when it was non-zero). -/
theorem notify_without_waiter_no_effect {t : Nat} {s' : State} {a : Act} :
    (∀ r, s.cw = 0 → (stepAt s t (PC.no0 r) a = .ok s' ∨ stepAt s t (PC.na0 r) a = .ok s') →
        s' = s ∨ s' = s.setPc t (retPc r)) ∧
    (∀ k all r, queueOf s k = [] → stepAt s t (PC.wk1 k all r) a = .ok s' →
        s' = s ∨ s' = { s with wl := none, pcs := s.pcs.set t (retPc r) }) := by
  constructor
  · intro r hcw h
    rcases h with h | h <;> cases a <;> simp [stepAt, hcw] at h
    all_goals (first
      | exact Or.inl h.symm
      | (split at h
         · rename_i h0; subst h0; simp at h; exact Or.inr h.symm
         · cases h))
  · intro k all r hq h
    cases a <;> simp [stepAt, hq] at h
    all_goals (first | exact Or.inl h.symm | exact Or.inr h.symm | skip)

/-- "a thread that waits on a condition is woken by a notification issued after it started waiting (no lost
wake-up)", the part that is about the `waiters` word (invariant W of DESIGN A.3): in every reachable state
(without a failed assertion) a non-empty condition queue — some thread has completed `enqueue` — is covered
by `waiters ≠ 0`, so that every `notify_one` / `notify_all` that starts now reads a non-zero word and goes to
the wait table (where `wk1` pops the head of the queue, clears its flag and signals it; `wakeup_all` does so
until the queue is empty), or by a `notify_all` that is between its `waiters.set(0)` and the end of its
sweep, which wakes every queued thread.  `notify_one` reads `waiters` without the wait-table lock and
`notify_all` resets it before taking the lock; the theorem says these races lose nobody.
(That the signalled thread then leaves `cv_blocking.wait` is `no_lost_signal`; the mutex analogue is `no_lost_wakeup`.) -/
theorem condition_waiters_cover_queue (hr : Reach n s) (hq : s.cq ≠ []) :
    s.cw ≠ 0 ∨ ∃ (t : Nat) (pc : PC), s.pcs[t]? = some pc ∧ inFlightNotifyAll pc = true := by
  have h := (hr.cinv hr.nopanic).w (List.length_pos_iff.mpr hq)
  rcases h with h | h
  · exact Or.inl (by omega)
  · obtain ⟨pc, hmem, hp⟩ := List.countP_pos_iff.mp h
    obtain ⟨t, ht⟩ := List.getElem?_of_mem hmem
    exact Or.inr ⟨t, pc, ht, hp⟩

/-- no lost SIGNAL (invariant S of DESIGN A.3), the second half of "a thread that waits … is woken by a
notification": `remove_from_waitlist` clears the thread's `blocking` flag and only then calls
`cv_blocking.notify_one()`, while `DoraThread::block` re-reads the flag under the same mutex each time before it
waits.  In every reachable state a thread that is asleep in `cv_blocking.wait` although its flag has been cleared
(it was popped by `wakeup` / `wakeup_all`) still has the popper's `notify_one` on its condvar pending
(`wk2 … u`), so it will be woken; and a flag value read under `B_t` is the current one.  Together with
`condition_waiters_cover_queue` and the FIFO pop of `wk1` this is the condition's no-lost-wake-up chain:
queued ⇒ seen by the notifier ⇒ popped and flagged ⇒ signalled.
(The mutex analogue is `no_lost_wakeup`.) -/
theorem no_lost_signal (hr : Reach n s) :
    (∀ (u : Nat) (k : Kind), s.pcs[u]? = some (PC.sleeping k) → s.b[u]? = some false →
        ∃ (t : Nat) (k' : Kind) (a : Bool) (r : Ret), s.pcs[t]? = some (PC.wk2 k' a r u)) ∧
    (∀ (u : Nat) (k : Kind) (f : Bool), s.pcs[u]? = some (PC.blk1 k f) → s.b[u]? = some f) :=
  ⟨hr.sinv.sig, hr.sinv.flag⟩

/-- "the code's assertions hold": no reachable state has a thread whose `assert(previous == LOCKED ||
previous == LOCKED_CONTENDED)` (`lock_op`), `assert(previous == LOCKED_CONTENDED)` (`unlock_slow`),
`assert!(!blocking && next.is_null())` (`prepare_for_waitlist`) or `assert!(blocking)`
(`remove_from_waitlist`) has failed. -/
theorem asserts_hold (hr : Reach n s) : ∀ (t : Nat) (b : Bool), s.pcs[t]? ≠ some (PC.panicked b) := by
  intro t b ht
  have := (List.countP_eq_zero.mp hr.nopanic) _ (List.mem_of_getElem? ht)
  simp [isPanicked] at this

/-- queue / flag consistency (invariant Q of DESIGN A.3), for any number of threads: both wait queues are
duplicate-free; every queued thread has its `blocking` flag set and is in the matching part of its code
(`mtxPhase`: appended, on its way into or inside `DoraThread::block` from `lock_slow`; `condPhase`: appended,
releasing the mutex, blocking, all inside `Condition::wait`); and a set flag means queued.  In particular a
thread is in at most one queue, and a thread whose flag is clear is in none — what lets `block()` return. -/
theorem queue_flag_consistency (hr : Reach n s) :
    s.q.Nodup ∧ s.cq.Nodup ∧
    (∀ u, u ∈ s.q → s.b[u]? = some true ∧ ∃ pc, s.pcs[u]? = some pc ∧ mtxPhase pc = true) ∧
    (∀ u, u ∈ s.cq → s.b[u]? = some true ∧ ∃ pc, s.pcs[u]? = some pc ∧ condPhase pc = true) ∧
    (∀ u : Nat, s.b[u]? = some true → u ∈ s.q ∨ u ∈ s.cq) :=
  let h := hr.qinv hr.nopanic
  ⟨h.qm.1, h.qc.1, h.qm.2, h.qc.2, h.bq⟩

/-- no lost wake-up on the MUTEX (invariant J of DESIGN A.3), for any number of threads and every interleaving:
whenever some thread is queued on the mutex,
* the lock word is `LOCKED_CONTENDED` and the mutex has an owner (whose `unlock_op` will see 2 and notify), or
* some thread is between its `exchange(UNLOCKED)` that returned 2 and its pop of the queue head (`wk0` / `wk1`), or
* some thread is in the slow path of `lock_op` WITHOUT being queued — it was woken (or never slept) and is on
  its way to `compare_exchange(UNLOCKED, LOCKED_CONTENDED)`, after which the first case holds again.
With the word at 0 only the last two remain: exactly the statement "queue non-empty ∧ word = 0 ⇒ a notifier is
between its exchange and its wakeup, or a woken thread is on its way to the CAS".  The unlocked
`transition_to_locked_contended` / conditional enqueue race is what this excludes: a thread can never queue
itself behind a word that nobody will reset with a notify. -/
theorem no_lost_wakeup (hr : Reach n s) (hq : s.q ≠ []) :
    (s.w = 2 ∧ ∃ (t : Nat) (pc : PC), s.pcs[t]? = some pc ∧ holds pc = true) ∨
    (∃ (t : Nat) (pc : PC), s.pcs[t]? = some pc ∧ isPendingNotify pc = true) ∨
    (∃ (u : Nat) (pc : PC), s.pcs[u]? = some pc ∧ slowPath pc = true ∧ u ∉ s.q) := by
  rcases (hr.jinv hr.nopanic).j (List.length_pos_iff.mpr hq) with h | h | h
  · left
    refine ⟨h, ?_⟩
    have hk := hr.kinv
    have : s.pcs.countP holds ≠ 0 := fun h0 => by have := hk.zero.mpr h0; omega
    obtain ⟨pc, hmem, hp⟩ := List.countP_pos_iff.mp (Nat.pos_of_ne_zero this)
    obtain ⟨t, ht⟩ := List.getElem?_of_mem hmem
    exact ⟨t, pc, ht, hp⟩
  · right; left
    obtain ⟨pc, hmem, hp⟩ := List.countP_pos_iff.mp h
    obtain ⟨t, ht⟩ := List.getElem?_of_mem hmem
    exact ⟨t, pc, ht, hp⟩
  · right; right
    exact exists_awake h

/-! ### non-vacuity: a concrete run of the model (two threads contend for the mutex; the loser queues,
sleeps, is popped and signalled by the owner's `unlock_op`, and acquires with `0→2`) -/

def demoTrace : List Event := [
  ⟨0, .call .lock⟩, ⟨0, .casW 0 (some 1)⟩,                                   -- thread 0 owns the mutex
  ⟨1, .call .lock⟩, ⟨1, .casW 1 none⟩, ⟨1, .casW 1 (some 2)⟩,                -- thread 1: fast path fails, 1→2
  ⟨1, .lockWL⟩, ⟨1, .loadW 2⟩, ⟨1, .lockB 1⟩, ⟨1, .unlockB 1⟩, ⟨1, .unlockWL⟩, -- WaitLists::block: queued
  ⟨1, .casS⟩, ⟨1, .lockB 1⟩, ⟨1, .waitB⟩,                                     -- DoraThread::block: asleep
  ⟨0, .call .unlock⟩, ⟨0, .swapW 2⟩,                                          -- unlock_op sees LOCKED_CONTENDED
  ⟨0, .lockWL⟩, ⟨0, .lockB 1⟩, ⟨0, .unlockB 1⟩, ⟨0, .sigB 1 (some 1)⟩, ⟨0, .unlockWL⟩, -- wakeup: pop + signal
  ⟨1, .relockB⟩, ⟨1, .unlockB 1⟩, ⟨1, .casS⟩, ⟨1, .casW 0 (some 2)⟩,          -- thread 1 acquires with 0→2
  ⟨1, .call .stop⟩, ⟨1, .lockJ 1⟩, ⟨1, .naJ 0⟩, ⟨1, .unlockJ 1⟩,              -- (model: stop straight from crit is not allowed; see below)
  ⟨0, .call (.join 1)⟩ ]

/-- the first 24 events are accepted: thread 1 ends up owning the mutex, word 2, queue empty again -/
example : (runTrace (init 2) (demoTrace.take 24)).map (fun s => (s.pcs, s.w, s.q, s.b)) =
    some ([.idle, .crit], 2, [], [false, false]) := by decide

/-- hypotheses of `mutual_exclusion` on a reachable state with a sleeper in the queue (after 13 events) -/
example : ∃ s, Reach 2 s ∧ s.pcs = [.crit, .sleeping .mtx] ∧ s.q = [1] ∧ holds PC.crit = true := by
  cases h : runTrace (init 2) (demoTrace.take 13) with
  | none => exact absurd h (by decide)
  | some s =>
    have : (runTrace (init 2) (demoTrace.take 13)).map (fun s => (s.pcs, s.q)) = some ([.crit, .sleeping .mtx], [1]) := by decide
    rw [h] at this; simp at this
    exact ⟨s, Reach.init.run _ h, this.1, this.2, rfl⟩

def joinTrace : List Event := [
  ⟨1, .call .stop⟩, ⟨1, .lockJ 1⟩, ⟨1, .naJ 0⟩, ⟨1, .unlockJ 1⟩,
  ⟨0, .call (.join 1)⟩, ⟨0, .casS⟩, ⟨0, .lockJ 1⟩ ]

/-- hypothesis of `no_lost_signal` on a reachable state: after 18 events of `demoTrace` thread 1 is asleep, its
flag has just been cleared by thread 0's `wakeup`, whose `notify_one` is still pending -/
example : ∃ s, Reach 2 s ∧ s.pcs = [PC.wk2 .mtx false .idle 1, PC.sleeping .mtx] ∧ s.b = [false, false] := by
  cases h : runTrace (init 2) (demoTrace.take 18) with
  | none => exact absurd h (by decide)
  | some s =>
    have : (runTrace (init 2) (demoTrace.take 18)).map (fun s => (s.pcs, s.b)) =
        some ([PC.wk2 .mtx false .idle 1, PC.sleeping .mtx], [false, false]) := by decide
    rw [h] at this; simp at this
    exact ⟨s, Reach.init.run _ h, this.1, this.2⟩

/-- hypothesis of `no_lost_wakeup` / `queue_flag_consistency` on reachable states with a non-empty mutex queue:
after 13 events thread 1 is queued and asleep while thread 0 owns the mutex (word 2: first case); after 15 events
the word is 0 and thread 0 is the pending notifier (second case); after 18 events the queue is empty again -/
example : ∃ s, Reach 2 s ∧ s.q = [1] ∧ s.w = 0 ∧ s.pcs[0]? = some (PC.wk0 .mtx false .idle) := by
  cases h : runTrace (init 2) (demoTrace.take 15) with
  | none => exact absurd h (by decide)
  | some s =>
    have : (runTrace (init 2) (demoTrace.take 15)).map (fun s => (s.q, s.w, s.pcs[0]?)) =
        some ([1], 0, some (PC.wk0 .mtx false .idle)) := by decide
    rw [h] at this; simp at this
    exact ⟨s, Reach.init.run _ h, this.1, this.2.1, this.2.2⟩

/-- hypothesis of `join_after_stop` on a reachable state: thread 0 joins thread 1 after it stopped -/
example : ∃ s, Reach 2 s ∧ s.pcs[0]? = some (PC.jn1 .idle 1 false) := by
  cases h : runTrace (init 2) joinTrace with
  | none => exact absurd h (by decide)
  | some s =>
    have : (runTrace (init 2) joinTrace).map (fun s => s.pcs[0]?) = some (some (PC.jn1 .idle 1 false)) := by decide
    rw [h] at this; simp at this
    exact ⟨s, Reach.init.run _ h, this⟩

def condTrace : List Event := [
  ⟨0, .call .lock⟩, ⟨0, .casW 0 (some 1)⟩, ⟨0, .call .cwait⟩,
  ⟨0, .lockWL⟩, ⟨0, .storeCW 1⟩, ⟨0, .lockB 0⟩, ⟨0, .unlockB 0⟩, ⟨0, .unlockWL⟩,   -- enqueue
  ⟨1, .call .nall⟩, ⟨1, .loadCW 1⟩, ⟨1, .storeCW 0⟩ ]                               -- notify_all in flight

/-- hypotheses of `condition_waiters_cover_queue` on a reachable state in which the SECOND disjunct is the
one that holds: thread 0 is queued on the condition, thread 1's `notify_all` has already reset `waiters` -/
example : ∃ s, Reach 2 s ∧ s.cq = [0] ∧ s.cw = 0 ∧ s.pcs[1]? = some (PC.wk0 .cond true .idle) := by
  cases h : runTrace (init 2) condTrace with
  | none => exact absurd h (by decide)
  | some s =>
    have : (runTrace (init 2) condTrace).map (fun s => (s.cq, s.cw, s.pcs[1]?)) = some ([0], 0, some (PC.wk0 .cond true .idle)) := by decide
    rw [h] at this; simp at this
    exact ⟨s, Reach.init.run _ h, this.1, this.2.1, this.2.2⟩

/-- hypothesis of `notify_without_waiter_no_effect`: `notify_one` on the fresh condition returns at once -/
example : (stepAt (init 1) 0 (PC.no0 .idle) (.loadCW 0)).toOption = some ((init 1).setPc 0 .idle) := by decide

end mtx
end Dora.Wait.C09
