import DoraModel.Props.C16
import DoraModel.Syntax.C06LexTotal
import DoraModel.Syntax.C06CoreTotal
import DoraModel.Position.Lemmas
/-!
# C06 — The front end never crashes, whatever text it is given

Property theorems only (helper lemmas: `DoraModel/Syntax/C06LexTotal.lean`, `DoraModel/Syntax/C06CoreTotal.lean`,
and C16's / C20's lemma files).  What is proved here is the modelled core of the front end — the lexer, the
parser's core operations, the loop-progress guard and the line/column computation of diagnostics.
NOT modelled and therefore only explored by `checks/c06.py` (in-process front end + `dora compile`):
the grammar routines of `parser.rs` and all of semantic analysis, whose specification is simply
"returns success or a non-empty list of diagnostics whose spans lie inside their files".
-/
namespace Dora.Syntax.C06
open Dora.Syntax TokenKind

/-- "lexing … never panics": the lexer model never takes one of its panic exits, whatever the text.
The exits are the Rust lexer's `expect("end of file reached")` / `expect("missing char")` (`read_token`,
`read_unknown_char`), `self.curr().unwrap()` and the `unreachable!()` arm of `read_operator`
(operator-table coverage), `assert_eq!(self.curr(), Some('"'))` in `read_string`, the `usize`/`u32`
decrements `*open_braces_top -= 1` and `start -= '}'.len_utf8()` (stack discipline of `open_braces`:
every counter on the stack is ≥ 1), and `assert!(token < TokenKind::EOF)` in `lex` (every keyword-table
entry and every literal kind is below `EOF`). -/
theorem lex_never_panics (cs : List Char) : lex cs ≠ .error .panic := by
  unfold lex
  have h := lexLoop_no_panic cs.length (LState.init cs) [] [] (by intro b hb; simp [LState.init] at hb)
  cases hl : lexLoop cs.length (LState.init cs) [] [] with
  | error e =>
    intro he
    simp only [Except.error.injEq] at he
    subst he
    exact h hl
  | ok p => simp

/-- "lexing … terminate[s] and report[s] either success or a list of diagnostics; … never panic[s] … or loop[s].
Every diagnostic names a location inside the file": the lexer model is TOTAL — for every text it returns a
result (neither the panic outcome nor the loop bound, the latter from `C16.lex_partition`), the tokens cut the
whole text into non-empty pieces starting at the recorded offsets, the token list ends in the only `EOF`, and
every lexer error span lies inside the text (`C16.lex_error_spans_in_range`). -/
theorem lex_total (cs : List Char) :
    ∃ r, lex cs = .ok r ∧
      (∃ texts : List (List Char), texts.flatten = cs ∧ (∀ t ∈ texts, t ≠ []) ∧ r.starts = offsetsFrom 0 texts ∧
        r.kinds.length = texts.length + 1 ∧ r.kinds.getLast? = some EOF ∧
        (∀ k ∈ r.kinds.dropLast, k.toNat < EOF.toNat)) ∧
      ∀ e ∈ r.errors, e.start + e.len ≤ utf8Len cs := by
  cases h : lex cs with
  | error e =>
    cases e with
    | panic => exact absurd h (lex_never_panics cs)
    | outOfFuel => exact absurd h (C16.lex_partition cs).1
  | ok r => exact ⟨r, rfl, (C16.lex_partition cs).2 r h, C16.lex_error_spans_in_range cs r h⟩

/-- non-vacuity: text with an unknown multi-byte character, a template whose `}` exercises the braces
stack, and an unterminated string; all three conclusions of `lex_total` are about this result -/
example : lex ['é', '"', '$', '{', '{', '}', '}', '"', '"', 'a'] =
    .ok { kinds := [UNKNOWN, TEMPLATE_LITERAL, L_BRACE, R_BRACE, TEMPLATE_END_LITERAL, STRING_LITERAL, EOF],
          starts := [0, 2, 5, 6, 7, 9],
          errors := [⟨0, 2, .unknownChar 'é'⟩, ⟨9, 2, .unclosedString⟩] } := by rfl

/-- "Every diagnostic names a location inside the file" — the line/column the compile command prints:
`compute_line_column` on the table built by `compute_line_starts` never panics (`line_starts[idx - 1]` with
`idx = 0` cannot happen), for EVERY offset (on a character boundary or not, inside the text or beyond), and
the reported line exists in the file: `1 ≤ line ≤ number of lines`, `1 ≤ column`, and the column is the
distance from that line's start. (Model and lemmas: C20.) -/
theorem line_column_total (t : Dora.Position.Text) (off : Nat) :
    ∃ line col ls, Dora.Position.computeLineColumn (Dora.Position.computeLineStarts t) off = some (line, col) ∧
      1 ≤ line ∧ line ≤ (Dora.Position.computeLineStarts t).length ∧
      (Dora.Position.computeLineStarts t)[line - 1]? = some ls ∧ ls ≤ off ∧ col = off - ls + 1 := by
  obtain ⟨A, ls, B, hS, hf, hle, _, _⟩ :=
    Dora.Position.findLine_spec (Dora.Position.computeLineStarts_pairwise t) (Dora.Position.computeLineStarts_head t) off
  refine ⟨A.length + 1, off - ls + 1, ls, ?_, by omega, ?_, ?_, hle, rfl⟩
  · rw [Dora.Position.computeLineColumn_eq, hf]; rfl
  · rw [hS]; simp
  · rw [hS]; simp

/-- non-vacuity: an offset in the middle of a multi-byte character on the second line of a CRLF text -/
example : Dora.Position.computeLineColumn (Dora.Position.computeLineStarts ['a', '\r', '\n', '世', 'b']) 4 = some (2, 2) := by
  decide

/-- "parsing … never panic[s] … or loop[s]", core part: every core operation of the parser
(`open`, `close`, `advance`, `skip_trivia`, `raw_advance`, `advance_by_all_trivia`,
`advance_by_trailing_trivia`, `advance_by_non_leading_trivia`), from ANY state, either returns a new state
or ends in the named panic — no other failure mode exists (its internal loops never exhaust their bounds),
and so does every finite sequence of core operations.  `open` and `advance_by_all_trivia` cannot fail at all.
The panic exits of the core model are exactly these Rust sites:
* `raw_advance`: `debug_assert!(kind <= EOF)`;
* `advance_by_trailing_trivia`: the `usize` subtractions `self.token_idx - leading`, `self.leading -= emit_count`,
  `self.tokens[idx]` out of bounds, the text slice of a comment token, `unreachable!()` on a non-trivia kind;
* `advance_by_non_leading_trivia`: `self.token_idx - leading_count - 1`, `self.tokens[..]` out of bounds,
  `self.leading - leading_count`, `unreachable!()` on a non-trivia kind;
* `close`: `self.events[m.start]` out of bounds / `unreachable!()` when the marker is not an `Open` event.
(That none of them fires for a well-formed client is `C16.core_protocol`'s invariant `CInv`.) -/
theorem core_total (s : PState) :
    (∀ o : Op, (∃ s', stepOp s o = .ok s') ∨ stepOp s o = .error .panic) ∧
    (∀ ops : List Op, (∃ s', runOps s ops = .ok s') ∨ runOps s ops = .error .panic) ∧
    stepOp s .open = .ok s.open.1 ∧ stepOp s .advanceByAllTrivia = .ok s.advanceByAllTrivia := by
  refine ⟨?_, ?_, rfl, rfl⟩
  · intro o
    cases h : stepOp s o with
    | ok s' => exact Or.inl ⟨s', rfl⟩
    | error e =>
      cases e with
      | panic => exact Or.inr rfl
      | outOfFuel => exact absurd h (stepOp_not_fuel s o)
  · intro ops
    cases h : runOps s ops with
    | ok s' => exact Or.inl ⟨s', rfl⟩
    | error e =>
      cases e with
      | panic => exact Or.inr rfl
      | outOfFuel => exact absurd h (runOps_not_fuel s ops)

/-- non-vacuity: the same operation returns a state in one situation and the named panic in another
(closing a marker that is not an `Open` event) -/
example :
    let s := PState.init ['f', 'n'] #[FN_KW, EOF] #[0]
    (∃ s', stepOp s .advance = .ok s' ∧ s'.tokenIdx = 1) ∧ stepOp s (.close 3 FUNCTION) = .error .panic := by
  exact ⟨⟨_, rfl, rfl⟩, rfl⟩

/-- Every core operation keeps the token table and never moves `token_idx` backwards, and `advance` away
from `EOF` consumes at least one token — the two facts every progress argument of the grammar rests on. -/
theorem core_monotone (s s' : PState) :
    (∀ ops : List Op, runOps s ops = .ok s' → s'.tokens = s.tokens ∧ s.tokenIdx ≤ s'.tokenIdx) ∧
    (s.isEof = false → s.advance = .ok s' → s.tokenIdx < s'.tokenIdx) :=
  ⟨fun ops h => runOps_mono s s' ops h, fun he h => advance_progress s s' he h⟩

example :
    let s := PState.init ['f', 'n', ' ', 'x'] #[FN_KW, WHITESPACE, IDENTIFIER, EOF] #[0, 2, 3]
    s.isEof = false ∧ ∃ s', s.advance = .ok s' ∧ s'.tokenIdx = 2 := ⟨rfl, _, rfl, rfl⟩

/-- "… never … loop": a loop whose body consumes at least one token per iteration — the shape
`while cond && !self.is_eof() { body }` of every loop in the grammar — ends within `tokens.len()` iterations,
whatever the condition and the body are: it returns, or the body panicked. -/
theorem token_loop_terminates (cond : PState → Bool) (body : PState → CoreM PState)
    (hb : ∀ s s', s.isEof = false → body s = .ok s' → s'.tokens = s.tokens ∧ s.tokenIdx < s'.tokenIdx)
    (hf : ∀ s, body s ≠ .error .outOfFuel) (s : PState) :
    (∃ s', tokenLoop cond body s.tokens.size s = .ok s') ∨ tokenLoop cond body s.tokens.size s = .error .panic := by
  cases h : tokenLoop cond body s.tokens.size s with
  | ok s' => exact Or.inl ⟨s', rfl⟩
  | error e =>
    cases e with
    | panic => exact Or.inr rfl
    | outOfFuel => exact absurd h (tokenLoop_not_fuel cond body hb hf _ s (Nat.sub_le _ _))

/-- non-vacuity: `while !is_eof { advance }` over three tokens; `advance` satisfies both hypotheses -/
example :
    let s := PState.init ['a', ' ', 'b'] #[IDENTIFIER, WHITESPACE, IDENTIFIER, EOF] #[0, 1, 2]
    (∀ s s', s.isEof = false → PState.advance s = .ok s' → s'.tokens = s.tokens ∧ s.tokenIdx < s'.tokenIdx) ∧
    (∀ s, PState.advance s ≠ .error .outOfFuel) ∧
    ∃ s', tokenLoop (fun _ => true) PState.advance s.tokens.size s = .ok s' ∧ s'.tokenIdx = 3 :=
  ⟨fun s s' he h => ⟨(advance_mono s s' h).1, advance_progress s s' he h⟩, advance_not_fuel, _, rfl, rfl⟩

/- Full statement (the stretch goal of DESIGN §7.C06): "every loop of the real grammar consumes a token per
   iteration, hence parsing terminates for every text" — for the Lean port of all grammar routines.
   Proved here: the one loop class that carries an explicit guard in the Rust code,
   `parse_comma_list_items` (used by every parenthesised / bracketed / braced list of the grammar), modelled
   with its `assert!(self.token_idx > pos_before_element)`; the callback is an ARBITRARY adaptive client of
   the core operations (so this holds for every list-item parser the grammar passes in, present or future).
   Missing: the grammar routines themselves are not ported, so that each of the other loops
   (`parse_file`, `parse_element_list`, `parse_block`, `parse_match`, modifier / path / use loops) satisfies
   the hypothesis of `token_loop_terminates` is not proved — only explored by the correspondence run. -/
/-- The "callback must advance" guard of `parse_comma_list_items` does its job: on a token table that ends in
its only `EOF` (what the lexer produces), with a callback that only performs core operations, the loop ends
within `tokens.len()` iterations — it returns, or it ends in the named panic (the guard's `assert!` or a
core panic) — it cannot spin. -/
theorem comma_list_progress_partial (stop : TokenKind) (recovery : PState → Bool)
    (parse : PState → CoreM (PState × Bool)) (hp : ClientFn parse) (s : PState) (hE : EofOnlyLast s.tokens) :
    (∃ s', commaListLoop stop recovery parse s.tokens.size s = .ok s') ∨
      commaListLoop stop recovery parse s.tokens.size s = .error .panic := by
  cases h : commaListLoop stop recovery parse s.tokens.size s with
  | ok s' => exact Or.inl ⟨s', rfl⟩
  | error e =>
    cases e with
    | panic => exact Or.inr rfl
    | outOfFuel => exact absurd h (commaListLoop_not_fuel stop recovery parse hp _ s hE (Nat.sub_le _ _))

/-- Every callback that runs a list of core operations chosen from the state (and then answers `true`/`false`)
is a `ClientFn` — the hypothesis of `comma_list_progress_partial` is what the grammar routines satisfy by
construction (C16's static API-discipline check: nothing else writes `events` / `token_idx` / `leading`). -/
theorem client_ops_are_clientFn (ops : PState → List Op) (ret : PState → Bool) :
    ClientFn (fun s => match runOps s (ops s) with
      | .ok s' => .ok (s', ret s')
      | .error e => .error e) := by
  constructor
  · intro s s' b h
    dsimp only at h
    cases hr : runOps s (ops s) with
    | error e => rw [hr] at h; cases h
    | ok s1 =>
      rw [hr] at h
      cases h
      exact runOps_mono _ _ _ hr
  · intro s h
    dsimp only at h
    cases hr : runOps s (ops s) with
    | error e => rw [hr] at h; cases h; exact runOps_not_fuel s _ hr
    | ok s1 => rw [hr] at h; cases h

/-- The lexer's output satisfies the table hypothesis of `comma_list_progress_partial`. -/
theorem lex_eofOnlyLast (cs : List Char) (r : LexResult) (h : lex cs = .ok r) : EofOnlyLast r.kinds.toArray := by
  obtain ⟨texts, _, _, _, h4, h5, h6⟩ := (C16.lex_partition cs).2 r h
  intro i hi
  simp only [List.getElem?_toArray] at hi
  simp only [List.size_toArray]
  by_cases hlt : i < r.kinds.dropLast.length
  · have hget : r.kinds[i]? = some (r.kinds.dropLast[i]) := by
      rw [List.getElem_dropLast]
      exact List.getElem?_eq_getElem (by simp at hlt; omega)
    rw [hget] at hi
    simp only [Option.some.injEq] at hi
    have hk := h6 _ (List.getElem_mem hlt)
    rw [hi] at hk
    exact absurd hk (Nat.lt_irrefl _)
  · have hlen : i < r.kinds.length := by
      by_cases hh : i < r.kinds.length
      · exact hh
      · rw [List.getElem?_eq_none (by omega)] at hi; cases hi
    simp only [List.length_dropLast] at hlt
    omega

example : EofOnlyLast (#[FN_KW, WHITESPACE, IDENTIFIER, EOF] : Array TokenKind) := by
  have := lex_eofOnlyLast ['f', 'n', ' ', 'x']
    { kinds := [FN_KW, WHITESPACE, IDENTIFIER, EOF], starts := [0, 2, 3], errors := [] } rfl
  simpa using this

/-- non-vacuity: the list `(a)` (cursor after the `(`) with a callback that advances over one identifier —
the loop returns at `)`; the same list with a callback that does nothing and answers `true` — the guard's
panic, not a hang.  The table is the lexer's, so `EofOnlyLast` holds by `lex_eofOnlyLast`. -/
example :
    let s : PState := { (PState.init ['(', 'a', ')'] #[L_PAREN, IDENTIFIER, R_PAREN, EOF] #[0, 1, 2]) with tokenIdx := 1 }
    EofOnlyLast s.tokens ∧
    (commaListLoop R_PAREN (fun _ => false)
        (fun s => match runOps s [.advance] with | .ok s' => .ok (s', true) | .error e => .error e)
        s.tokens.size s).toOption.map (·.tokenIdx) = some 2 ∧
    (match commaListLoop R_PAREN (fun _ => false) (fun s => .ok (s, true)) s.tokens.size s with
      | .error .panic => true
      | _ => false) = true := by
  refine ⟨?_, by decide, by decide⟩
  have := lex_eofOnlyLast ['(', 'a', ')'] { kinds := [L_PAREN, IDENTIFIER, R_PAREN, EOF], starts := [0, 1, 2], errors := [] } rfl
  exact this

end Dora.Syntax.C06
