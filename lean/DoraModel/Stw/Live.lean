import DoraModel.Stw.Facts
/-!
# C04 — the wake-up invariants of the stop-the-world model (for deadlock freedom)

* `waitN` (no lost wake-up on `cv_notify`): whenever the initiator sleeps in `wait_until_threads_stopped(r)`,
  `stopped < r`, or a reporting thread holds the barrier mutex between its `stopped += 1` and its `notify_one`.
* `waitW` (no lost wake-up on `cv_wakeup`): whenever a thread sleeps in `wait_in_safepoint` / `wait_in_unpark`, the
  barrier is armed, or the disarming thread holds the barrier mutex between `disarm()` and `notify_all()`.
* `ctx` / `uniq`: a thread inside `add_thread(u)` / before the OS spawn of `u` is the only one dealing with `u`, and
  `u` is `embryo` before the push and `ready` after it.
-/
namespace Dora.Stw

/-- holds `B` between `stopped += 1` and `cv_notify.notify_one()` -/
def isNotifier : PC → Bool
  | .spB1 | .parkB1 _ => true
  | _ => false

def isWaitWpc : PC → Bool
  | .spWait | .unpWait _ => true
  | _ => false

def ctxOfCtx : Ctx → Option Nat
  | .add u => some u
  | _ => none

def ctxOfRet : Ret → Option Nat
  | .scope c => ctxOfCtx c
  | _ => none

/-- `(u, pushed)`: the thread is creating thread `u`; `pushed` = `u` is already in the thread list -/
def ctxOf : PC → Option (Nat × Bool)
  | .ps0 c => (ctxOfCtx c).map (·, false)
  | .park0 r | .parkS r | .parkB0 r | .parkB1 r | .parkB2 r => (ctxOfRet r).map (·, false)
  | .addL0 u | .addL1 u => some (u, false)
  | .addL2 u | .spawnGo u => some (u, true)
  | .unp0 r | .unpS r | .unpB0 r | .unpB1 r | .unpWait r | .unpWoken r => (ctxOfRet r).map (·, true)
  | .psEnd c => (ctxOfCtx c).map (·, true)
  | _ => none

def slotPc (pushed : Bool) : PC := if pushed then .ready else .embryo

structure Inv2 (s : State) : Prop where
  waitN : ∀ (i r : Nat), s.pcOf i = some (.wuWait r) →
    s.stopped < r ∨ ∃ (b : Nat) (q : PC), s.lockB = some b ∧ s.pcOf b = some q ∧ isNotifier q = true
  waitW : ∀ (i : Nat) (q : PC), s.pcOf i = some q → isWaitWpc q = true →
    s.armed = true ∨ ∃ (b : Nat), s.lockB = some b ∧ s.pcOf b = some .disB1
  ctx : ∀ (t : Nat) (q : PC) (u : Nat) (p : Bool), s.pcOf t = some q → ctxOf q = some (u, p) →
    s.pcOf u = some (slotPc p)
  uniq : ∀ (t1 t2 : Nat) (q1 q2 : PC) (u : Nat) (p1 p2 : Bool), s.pcOf t1 = some q1 → s.pcOf t2 = some q2 →
    ctxOf q1 = some (u, p1) → ctxOf q2 = some (u, p2) → t1 = t2

theorem pcOf_eq {s : State} {u : Nat} {x : Thr} (h : s.thr[u]? = some x) : s.pcOf u = some x.pc := by
  simp [State.pcOf, h]

theorem pcOf_get {s : State} {u : Nat} {q : PC} (h : s.pcOf u = some q) : ∃ x, s.thr[u]? = some x ∧ x.pc = q := by
  unfold State.pcOf at h
  cases hx : s.thr[u]? with
  | none => rw [hx] at h; simp at h
  | some x => rw [hx] at h; simp at h; exact ⟨x, rfl, h⟩

@[simp] theorem pcOf_setSt (s : State) (u v w : Nat) : (s.setSt u v).pcOf w = s.pcOf w := by
  simp only [State.pcOf, setSt_thr]
  cases s.thr[w]? with
  | none => rfl
  | some x => by_cases h : u = w <;> simp [h]

@[simp] theorem pcOf_setIdx (s : State) (u v w : Nat) : (s.setIdx u v).pcOf w = s.pcOf w := by
  simp only [State.pcOf, setIdx_thr]
  cases s.thr[w]? with
  | none => rfl
  | some x => by_cases h : u = w <;> simp [h]

theorem pcOf_setPc (s : State) (t w : Nat) (pc' : PC) :
    (s.setPc t pc').pcOf w = if t = w then (s.pcOf w).map (fun _ => pc') else s.pcOf w := by
  simp only [State.pcOf, setPc_thr]
  cases s.thr[w]? with
  | none => by_cases h : t = w <;> simp [h]
  | some x => by_cases h : t = w <;> simp [h]

/-- how the `cv_notify` part is re-established -/
inductive KeepN (s s' : State) (t : Nat) (pc pc' : PC) : Prop
  | frame : s'.stopped = s.stopped → isNotifier pc = false → KeepN s s' t pc pc'
  | nobody : (∀ (i r : Nat), s'.pcOf i ≠ some (.wuWait r)) → KeepN s s' t pc pc'
  | notifier : s'.lockB = some t → isNotifier pc' = true → KeepN s s' t pc pc'

/-- how the `cv_wakeup` part is re-established -/
inductive KeepW (s s' : State) (t : Nat) (pc pc' : PC) : Prop
  | frame : s'.armed = s.armed → pc ≠ .disB1 → KeepW s s' t pc pc'
  | armed : s'.armed = true → KeepW s s' t pc pc'
  | nobody : (∀ (i : Nat) (q : PC), s'.pcOf i = some q → isWaitWpc q = false) → KeepW s s' t pc pc'
  | disarming : s'.lockB = some t → pc' = .disB1 → KeepW s s' t pc pc'

/-- Frame rule for the wake-up invariants: in the pc view only thread `t` changes (`pc ↦ pc'`). -/
theorem Inv2.pcStep {s s' : State} {t st idx : Nat} {pc pc' : PC} (h2 : Inv2 s) (h : Inv s)
    (ht : s.thr[t]? = some ⟨pc, st, idx⟩)
    (hself : s'.pcOf t = some pc') (hoth : ∀ u, u ≠ t → s'.pcOf u = s.pcOf u)
    (hB : s'.lockB = s.lockB ∨ holdsB pc = true ∨ s.lockB = none)
    (hN : KeepN s s' t pc pc') (hW : KeepW s s' t pc pc')
    (hw : (∀ r, pc' ≠ .wuWait r) ∨ ∃ r, pc' = .wuWait r ∧ s'.stopped < r)
    (hww : isWaitWpc pc' = false ∨ s'.armed = true)
    (hctx : ctxOf pc' = ctxOf pc) (hpe : pc ≠ .embryo ∧ pc ≠ .ready) :
    Inv2 s' := by
  have hlB := (h.loc t _ ht).2.1
  have htp : s.pcOf t = some pc := pcOf_eq ht
  -- a holder of `B` in a class `q` that `t` is not in survives the step
  have hkeep : ∀ (q : PC → Bool), q pc = false →
      (∃ (b : Nat) (p : PC), s.lockB = some b ∧ s.pcOf b = some p ∧ q p = true) →
      (∃ (b : Nat) (p : PC), s'.lockB = some b ∧ s'.pcOf b = some p ∧ q p = true) := by
    intro q hq ⟨b, p, hb, hp, hqp⟩
    have hbt : b ≠ t := by
      intro e; subst e; rw [htp] at hp; cases hp; rw [hq] at hqp; cases hqp
    have hlock : s'.lockB = s.lockB := by
      rcases hB with h1 | h1 | h1
      · exact h1
      · have := hlB.mp h1; rw [this] at hb; simp at hb; exact absurd hb.symm hbt
      · rw [h1] at hb; cases hb
    exact ⟨b, p, by rw [hlock]; exact hb, by rw [hoth b hbt]; exact hp, hqp⟩
  refine ⟨?_, ?_, ?_, ?_⟩
  · intro i r hi
    by_cases hit : i = t
    · subst hit; rw [hself] at hi; cases hi
      rcases hw with h1 | ⟨r', h1, h3⟩
      · exact absurd rfl (h1 r)
      · cases h1; left; exact h3
    · cases hN with
      | frame hsp hn =>
        rcases h2.waitN i r (by rw [← hoth i hit]; exact hi) with h1 | h1
        · left; rw [hsp]; exact h1
        · right; exact hkeep isNotifier hn h1
      | nobody hno => exact absurd hi (hno i r)
      | notifier hl hn => right; exact ⟨t, pc', hl, hself, hn⟩
  · intro i q hi hq
    by_cases hit : i = t
    · subst hit; rw [hself] at hi; cases hi
      rcases hww with h1 | h1
      · rw [h1] at hq; cases hq
      · left; exact h1
    · cases hW with
      | frame har hd =>
        rcases h2.waitW i q (by rw [← hoth i hit]; exact hi) hq with h1 | ⟨b, hb, hp⟩
        · left; rw [har]; exact h1
        · right
          obtain ⟨b', p', hb', hp', hq'⟩ := hkeep (fun p => decide (p = .disB1)) (by simp [hd]) ⟨b, _, hb, hp, by simp⟩
          have : p' = .disB1 := by simpa using hq'
          subst this
          exact ⟨b', hb', hp'⟩
      | armed ha => left; exact ha
      | nobody hno => rw [hno i q hi] at hq; cases hq
      | disarming hl hd => right; subst hd; exact ⟨t, hl, hself⟩
  · intro w q u p hq hc
    have hold : s.pcOf u = some (slotPc p) := by
      by_cases hi : w = t
      · subst hi; rw [hself] at hq; cases hq; rw [hctx] at hc; exact h2.ctx w _ u p htp hc
      · exact h2.ctx w q u p (by rw [← hoth w hi]; exact hq) hc
    have hut : u ≠ t := by
      intro e; subst e; rw [htp] at hold; simp at hold
      cases p <;> simp [slotPc] at hold <;> simp_all
    rw [hoth u hut]; exact hold
  · intro t1 t2 q1 q2 u p1 p2 hq1 hq2 hc1 hc2
    have conv : ∀ (w : Nat) (q : PC) (p : Bool), s'.pcOf w = some q → ctxOf q = some (u, p) →
        ∃ q0, s.pcOf w = some q0 ∧ ctxOf q0 = some (u, p) := by
      intro w q p hq hc
      by_cases hi : w = t
      · subst hi; rw [hself] at hq; cases hq; rw [hctx] at hc; exact ⟨_, htp, hc⟩
      · exact ⟨q, by rw [← hoth w hi]; exact hq, hc⟩
    obtain ⟨y1, hy1, hd1⟩ := conv t1 q1 p1 hq1 hc1
    obtain ⟨y2, hy2, hd2⟩ := conv t2 q2 p2 hq2 hc2
    exact h2.uniq t1 t2 y1 y2 u p1 p2 hy1 hy2 hd1 hd2

end Dora.Stw
