import DoraModel.Stw.Inv
/-! # C04 — preservation of the invariant, step by step -/
namespace Dora.Stw

theorem setPc_thr (s : State) (t u : Nat) (pc' : PC) :
    (s.setPc t pc').thr[u]? = (fun x => if t = u then { x with pc := pc' } else x) <$> s.thr[u]? := by
  simp [State.setPc, List.getElem?_modify]

theorem setSt_thr (s : State) (t u : Nat) (v : Nat) :
    (s.setSt t v).thr[u]? = (fun x => if t = u then { x with st := v } else x) <$> s.thr[u]? := by
  simp [State.setSt, List.getElem?_modify]

theorem setIdx_thr (s : State) (t u : Nat) (v : Nat) :
    (s.setIdx t v).thr[u]? = (fun x => if t = u then { x with idx := v } else x) <$> s.thr[u]? := by
  simp [State.setIdx, List.getElem?_modify]

theorem cntOk_congr {s s' : State} (h1 : s'.phase = s.phase) (h2 : s'.stopped = s.stopped)
    (h3 : s'.thr.countP isPend = s.thr.countP isPend) (h : CntOk s) : CntOk s' := by
  unfold CntOk at *
  rw [h1, h2, h3]; exact h

/-- a step in which only `t`'s pc / state byte and the lock owners change -/
theorem Inv.pcStep {s s' : State} {t st idx : Nat} {pc0 pc' : PC} {st' : Nat} (h : Inv s)
    (ht : s.thr[t]? = some ⟨pc0, st, idx⟩)
    (hself : s'.thr[t]? = some ⟨pc', st', idx⟩) (hoth : ∀ u, u ≠ t → s'.thr[u]? = s.thr[u]?)
    (hlist : s'.list = s.list) (hph : s'.phase = s.phase) (hrt : s'.rt = s.rt) (har : s'.armed = s.armed)
    (hsp : s'.stopped = s.stopped)
    (hL : LockTr (holdsL pc0) (holdsL pc') s.lockL s'.lockL t)
    (hB : LockTr (holdsB pc0) (holdsB pc') s.lockB s'.lockB t)
    (hin : inList pc' = inList pc0) (hst : StOk pc' st') (hst4 : st' ≤ 4) (hreq : 2 ≤ st' ↔ 2 ≤ st)
    (hpend : isPend ⟨pc', st', idx⟩ = isPend ⟨pc0, st, idx⟩)
    (hpho : PhOk s.phase s.rt s.list.length idx pc')
    (hnl : s'.lockL = none → s.phase = .idle ∧ s.rt = 0) : Inv s' := by
  refine Inv.frame h ht hself hoth hlist rfl hin hL hB hst hst4 hreq ?_ (Or.inl ⟨hph, hrt⟩) ?_ ?_ ?_ ?_
  · intro i _; rw [hph]
  · rw [hph, hrt]; exact hpho
  · rw [hph, hrt]; exact hnl
  · rw [har, hph]; exact h.armedIff
  · apply cntOk_congr hph hsp _ h.cnt
    have := cnt_one ht hself hoth
    rw [hpend] at this; omega


set_option hygiene false in
/-- discharge the side conditions of `Inv.pcStep` -/
macro "plain " pc1:term:max st1:term:max : tactic => `(tactic| (
  have hl := h.loc t _ ht
  have hnl0 := h.nolock
  refine Inv.pcStep (pc' := $pc1) (st' := $st1) h ht ?_ ?_ rfl rfl rfl rfl rfl ?_ ?_ ?_ ?_ ?_ ?_ ?_ ?_ ?_
  · simp [setPc_thr, setSt_thr, ht, afterScope, afterPark, afterUnpark]
  · intro u hu; simp [setPc_thr, setSt_thr, Ne.symm hu]
  · simp [Loc, holdsL, holdsB] at hl; simp [LockTr, holdsL, holdsB, State.setPc, State.setSt, *]
  · simp [Loc, holdsL, holdsB] at hl; simp [LockTr, holdsL, holdsB, State.setPc, State.setSt, *]
  · simp [inList]
  · simp [Loc, StOk, isRunningSt, parkRet, unpRet] at hl; simp [StOk, parkRet, unpRet, *] <;> omega
  · simp [Loc] at hl; omega
  · simp [Loc, StOk] at hl; omega
  · simp [Loc, StOk] at hl; simp [isPend, isPendPc] <;> omega
  · simp [Loc, PhOk, holdsL] at hl; simp [PhOk, *]
  · simp [Loc, PhOk, holdsL, holdsB] at hl; simp [State.setPc, State.setSt, *] <;> (first | assumption | simp_all)))

theorem begTarget_cases {pc' : PC} (h : BegTarget pc') :
    pc' = .poll0 ∨ pc' = .ps0 .nat ∨ pc' = .ps0 .stw ∨ pc' = .spawnNew ∨ pc' = .park0 .exit := by
  cases pc' <;> simp_all [BegTarget]
  · rename_i c; cases c <;> simp_all [BegTarget]
  · rename_i r; cases r <;> simp_all [BegTarget]

/-- steps of thread `t` that change nothing but its own pc / state byte and lock ownership -/
theorem Inv.step_plain {s s' : State} {t st idx : Nat} {pc : PC} (h : Inv s) (ht : s.thr[t]? = some ⟨pc, st, idx⟩)
    (hs : Step s t st idx pc s') (hother : Inv s') : Inv s' := by
  cases hs
  case touch => exact h
  case opSTouch => exact h
  case opTouch => exact h
  case beg pc' hb =>
    rcases begTarget_cases hb with rfl | rfl | rfl | rfl | rfl
    · plain .poll0 st
    · plain (.ps0 .nat) st
    · plain (.ps0 .stw) st
    · plain .spawnNew st
    · plain (.park0 .exit) st
  case pollFast hst => plain .mut st
  case pollSlowGo hst => plain .pollSlow st
  case spSwap hst => plain .spB0 4
  case spN1none hc => plain .spB2 st
  case spWaitGo ha => plain .spWait st
  case spSpur => plain .spWoken st
  case spRelock hb => plain .spB2 st
  case ps0Ok c hr => plain (.park0 (.scope c)) st
  case psEndOk c hr =>
    rcases c with _ | _ | u
    · plain .mut st
    · plain .mut st
    · plain (.spawnGo u) st
  case parkFast r hst =>
    have hl0 := h.loc t _ ht
    rcases r with (_ | _ | u) | _ | _ | _
    · plain .natIn 1
    · plain .stwL0 1
    · plain (.addL0 u) 1
    · plain .rmL0 1
    · simp [Loc, StOk, parkRet] at hl0
    · simp [Loc, StOk, parkRet] at hl0
  case parkUnlock r =>
    have hl0 := h.loc t _ ht
    rcases r with (_ | _ | u) | _ | _ | _
    · plain .natIn st
    · plain .stwL0 st
    · plain (.addL0 u) st
    · plain .rmL0 st
    · simp [Loc, StOk, parkRet] at hl0
    · simp [Loc, StOk, parkRet] at hl0
  case unpFast r hst =>
    have hl0 := h.loc t _ ht
    rcases r with c | _ | _ | _
    · plain (.psEnd c) 0
    · simp [Loc, StOk, unpRet] at hl0
    · plain .mut 0
    · plain .mut 0
  case unpSFast r hst =>
    have hl0 := h.loc t _ ht
    rcases r with c | _ | _ | _
    · plain (.psEnd c) 0
    · simp [Loc, StOk, unpRet] at hl0
    · plain .mut 0
    · plain .mut 0
  case spLeave ha =>
    have hl0 := h.loc t _ ht
    have harm := h.armedIff
    have hst1 : st = 1 := by
      have hidle : s.phase = .idle := by
        cases hp : s.phase <;> simp_all
      simp [Loc, StOk, reqBit_iff, hidle, PhC] at hl0
      omega
    plain (.unp0 .slow) st
  case parkSlowGo r hst => plain (.parkS r) st
  case parkSlow r hst => plain (.parkB0 r) 3
  case parkN1none r hc => plain (.parkB2 r) st
  case natYield => plain (.unp0 (.scope .nat)) st
  case unpSlowGo r hst => plain (.unpS r) st
  case unpSWait r hst => plain (.unpB0 r) st
  case unpLock r hb => plain (.unpB1 r) st
  case unpWaitGo r ha => plain (.unpWait r) st
  case unpLeave r ha => plain (.unpS r) st
  case unpSpur r => plain (.unpWoken r) st
  case unpRelock r hb => plain (.unpB1 r) st
  case spawnFetch => plain .addA st
  case addLock u hlk => plain (.addL1 u) st
  case addUnlock u => plain (.unp0 (.scope (.add u))) st
  case stwLock hlk => plain .stwL1 st
  case armUnlock => plain (.fo 0 0) st
  case foLock k r hk hb ha => subst hk; plain (.wuB1 r) st
  case wuWaitGo r hlt => plain (.wuWait r) st
  case wuSpur r => plain (.wuWoken r) st
  case wuRelock r hb => plain (.wuB1 r) st
  case disUnlock => plain .stwUL st
  case stwUnlock => plain (.unp0 (.scope .stw)) st
  case rmLock hlk => plain .rmL1 st
  case rmLoad hli => plain (.rmL1a idx) st
  case rmNotify => plain .rmL3 st
  case rmUnlock => plain .dead st
  all_goals exact hother

end Dora.Stw
