import DoraModel.Stw.Inv
/-! # C04 — preservation of the invariant, step by step -/
namespace Dora.Stw

theorem setPc_thr (s : State) (t u : Nat) (pc' : PC) :
    (s.setPc t pc').thr[u]? = (fun x => if t = u then { x with pc := pc' } else x) <$> s.thr[u]? := by
  simp [State.setPc, List.getElem?_modify]

theorem setSt_thr (s : State) (t u : Nat) (v : Nat) :
    (s.setSt t v).thr[u]? = (fun x => if t = u then { x with st := v } else x) <$> s.thr[u]? := by
  simp [State.setSt, List.getElem?_modify]

theorem setIdx_thr (s : State) (t u : Nat) (v : Nat) :
    (s.setIdx t v).thr[u]? = (fun x => if t = u then { x with idx := v } else x) <$> s.thr[u]? := by
  simp [State.setIdx, List.getElem?_modify]

theorem cntOk_congr {s s' : State} (h1 : s'.phase = s.phase) (h2 : s'.stopped = s.stopped)
    (h3 : s'.thr.countP isPend = s.thr.countP isPend) (h : CntOk s) : CntOk s' := by
  unfold CntOk at *
  rw [h1, h2, h3]; exact h

/-- a step in which only `t`'s pc / state byte and the lock owners change -/
theorem Inv.pcStep {s s' : State} {t st idx : Nat} {pc0 pc' : PC} {st' : Nat} (h : Inv s)
    (ht : s.thr[t]? = some ⟨pc0, st, idx⟩)
    (hself : s'.thr[t]? = some ⟨pc', st', idx⟩) (hoth : ∀ u, u ≠ t → s'.thr[u]? = s.thr[u]?)
    (hlist : s'.list = s.list) (hph : s'.phase = s.phase) (hrt : s'.rt = s.rt) (har : s'.armed = s.armed)
    (hsp : s'.stopped = s.stopped)
    (hL : LockTr (holdsL pc0) (holdsL pc') s.lockL s'.lockL t)
    (hB : LockTr (holdsB pc0) (holdsB pc') s.lockB s'.lockB t)
    (hin : inList pc' = inList pc0) (hst : StOk pc' st') (hst4 : st' ≤ 4) (hreq : 2 ≤ st' ↔ 2 ≤ st)
    (hpend : isPend ⟨pc', st', idx⟩ = isPend ⟨pc0, st, idx⟩)
    (hpho : PhOk s.phase s.rt s.list.length idx pc')
    (hnl : s'.lockL = none → s.phase = .idle ∧ s.rt = 0) : Inv s' := by
  refine Inv.frame h ht hself hoth hlist rfl hin hL hB hst hst4 hreq ?_ (Or.inl ⟨hph, hrt⟩) ?_ ?_ ?_ ?_
  · intro i _; rw [hph]
  · rw [hph, hrt]; exact hpho
  · rw [hph, hrt]; exact hnl
  · rw [har, hph]; exact h.armedIff
  · apply cntOk_congr hph hsp _ h.cnt
    have := cnt_one ht hself hoth
    rw [hpend] at this; omega


set_option hygiene false in
/-- discharge the side conditions of `Inv.pcStep` -/
macro "plain " pc1:term:max st1:term:max : tactic => `(tactic| (
  have hl := h.loc t _ ht
  have hnl0 := h.nolock
  refine Inv.pcStep (pc' := $pc1) (st' := $st1) h ht ?_ ?_ rfl rfl rfl rfl rfl ?_ ?_ ?_ ?_ ?_ ?_ ?_ ?_ ?_
  · simp [setPc_thr, setSt_thr, ht, afterScope, afterPark, afterUnpark]
  · intro u hu; simp [setPc_thr, setSt_thr, Ne.symm hu]
  · simp [Loc, holdsL, holdsB] at hl; simp [LockTr, holdsL, holdsB, State.setPc, State.setSt, *]
  · simp [Loc, holdsL, holdsB] at hl; simp [LockTr, holdsL, holdsB, State.setPc, State.setSt, *]
  · simp [inList]
  · simp [Loc, StOk, isRunningSt, parkRet, unpRet] at hl; simp [StOk, parkRet, unpRet, *] <;> omega
  · simp [Loc] at hl; omega
  · simp [Loc, StOk] at hl; omega
  · simp [Loc, StOk] at hl; simp [isPend, isPendPc] <;> omega
  · simp [Loc, PhOk, holdsL] at hl; simp [PhOk, *]
  · simp [Loc, PhOk, holdsL, holdsB] at hl; simp [State.setPc, State.setSt, *] <;> (first | assumption | simp_all)))

theorem begTarget_cases {pc' : PC} (h : BegTarget pc') :
    pc' = .poll0 ∨ pc' = .ps0 .nat ∨ pc' = .ps0 .stw ∨ pc' = .spawnNew ∨ pc' = .park0 .exit := by
  cases pc' <;> simp_all [BegTarget]
  · rename_i c; cases c <;> simp_all [BegTarget]
  · rename_i r; cases r <;> simp_all [BegTarget]

end Dora.Stw
