import DoraModel.Stw.InvStep3
/-! # C04 — preservation of the invariant: the initiator's loops over the thread list
(`stop_threads`: `fetch_or` on every state byte; `resume_threads`: `swap(Parked)`) -/
namespace Dora.Stw

def CntTarget (ph : Phase) (stopped c : Nat) : Prop :=
  match ph with
  | .req _ r => stopped + c = r
  | _ => c = 0

theorem cntOk_iff (s : State) : CntOk s ↔ CntTarget s.phase s.stopped (s.thr.countP isPend) := by
  unfold CntOk CntTarget; cases s.phase <;> simp

/-- The initiator `t` (holding `L`, pc `pcT → pcT'`) writes `v` into the state byte of `u = list[k]` and advances
the ghost phase to `ph'`. -/
theorem Inv.reqStep {s s' : State} {t st idx k u v : Nat} {pcT pcT' : PC} {y : Thr} {ph' : Phase}
    (h : Inv s) (ht : s.thr[t]? = some ⟨pcT, st, idx⟩) (hk : s.list[k]? = some u) (hu : s.thr[u]? = some y)
    (hs' : s' = ({ s with phase := ph' }.setSt u v).setPc t pcT')
    (hL : holdsL pcT = true) (hL' : holdsL pcT' = true) (hB : holdsB pcT' = holdsB pcT) (hin : inList pcT' = inList pcT)
    (hpp : isPendPc pcT' = isPendPc pcT)
    (hstT : ∀ st0, StOk pcT st0 → StOk pcT' st0)
    (hcl : ∀ pc, inList pc = true → StOk pc y.st → StOk pc v) (hv4 : v ≤ 4)
    (hphc : ∀ i, i ≠ k → (PhC ph' i ↔ PhC s.phase i)) (hvk : 2 ≤ v ↔ PhC ph' k)
    (hpho : PhOk ph' s.rt s.list.length idx pcT')
    (hid : s.phase ≠ .idle) (hid' : ph' ≠ .idle)
    (hcnt : ∀ c', c' + (isPend y).toNat = s.thr.countP isPend + (isPend { y with st := v }).toNat →
      CntTarget ph' s.stopped c') : Inv s' := by
  have hlt := h.loc t _ ht
  obtain ⟨yu, hyu, hyin, hyidx⟩ := h.mem k u hk
  rw [hu] at hyu; cases hyu
  -- the new record of every thread
  have hthr : ∀ w x, s.thr[w]? = some x →
      s'.thr[w]? = some (⟨if t = w then pcT' else x.pc, if u = w then v else x.st, x.idx⟩ : Thr) := by
    intro w x hx
    rw [hs']
    simp only [setPc_thr, setSt_thr, hx]
    by_cases h1 : t = w <;> by_cases h2 : u = w <;> simp [h1, h2]
  have hthr' : ∀ w x', s'.thr[w]? = some x' → ∃ x, s.thr[w]? = some x ∧
      x' = (⟨if t = w then pcT' else x.pc, if u = w then v else x.st, x.idx⟩ : Thr) := by
    intro w x' hx'
    cases hx : s.thr[w]? with
    | none =>
      rw [hs'] at hx'
      simp only [setPc_thr, setSt_thr, hx] at hx'
      simp at hx'
    | some x =>
      rw [hthr w x hx] at hx'
      exact ⟨x, rfl, by cases hx'; rfl⟩
  have e1 : s'.lockL = s.lockL := by rw [hs']; rfl
  have e2 : s'.lockB = s.lockB := by rw [hs']; rfl
  have e3 : s'.list = s.list := by rw [hs']; rfl
  have e4 : s'.phase = ph' := by rw [hs']; rfl
  have e5 : s'.rt = s.rt := by rw [hs']; rfl
  have e6 : s'.armed = s.armed := by rw [hs']; rfl
  have e7 : s'.stopped = s.stopped := by rw [hs']; rfl
  refine ⟨?_, ?_, ?_, ?_, ?_⟩
  · intro w x' hx'
    obtain ⟨x, hx, rfl⟩ := hthr' w x' hx'
    obtain ⟨l1, l2, l3, l4, l5, l6, l7⟩ := h.loc w x hx
    have hpcT : t = w → x.pc = pcT := by intro e; subst e; rw [ht] at hx; cases hx; rfl
    have hidxT : t = w → x.idx = idx := by intro e; subst e; rw [ht] at hx; cases hx; rfl
    have hyw : u = w → x = y := by intro e; subst e; rw [hu] at hx; cases hx; rfl
    refine ⟨?_, ?_, ?_, ?_, ?_, ?_, ?_⟩
    · rw [e1]
      by_cases h1 : t = w
      · simp only [h1, if_true]; rw [hL']; rw [← hpcT h1] at hL; rw [← l1]; simp [hL]
      · simpa [h1] using l1
    · rw [e2]
      by_cases h1 : t = w
      · simp only [h1, if_true]; rw [hB, ← hpcT h1]; exact l2
      · simpa [h1] using l2
    · show StOk (if t = w then pcT' else x.pc) (if u = w then v else x.st)
      by_cases h2 : u = w
      · have hxy := hyw h2
        have hinx : inList x.pc = true := by rw [hxy]; exact hyin
        have a : StOk x.pc v := hcl x.pc hinx (by rw [hxy] at l3 ⊢; exact l3)
        by_cases h1 : t = w
        · simp only [h1, h2, if_true]; apply hstT; rw [← hpcT h1]; exact a
        · simpa [h1, h2] using a
      · by_cases h1 : t = w
        · simp only [h1, h2, if_true, if_false]; apply hstT; rw [← hpcT h1]; exact l3
        · simpa [h1, h2] using l3
    · show inList (if t = w then pcT' else x.pc) = true → s'.list[x.idx]? = some w
      rw [e3]
      by_cases h1 : t = w
      · simp only [h1, if_true]; rw [hin, ← hpcT h1]; exact l4
      · simpa [h1] using l4
    · show (2 ≤ (if u = w then v else x.st)) ↔ ReqBit s'.phase ⟨if t = w then pcT' else x.pc, _, x.idx⟩
      rw [e4, reqBit_iff]
      have hin' : inList (if t = w then pcT' else x.pc) = inList x.pc := by
        by_cases h1 : t = w
        · simp only [h1, if_true]; rw [hin, ← hpcT h1]
        · simp [h1]
      show _ ↔ (inList (if t = w then pcT' else x.pc) = true ∧ PhC ph' x.idx)
      rw [hin']
      by_cases h2 : u = w
      · have hxy := hyw h2
        simp only [h2, if_true]
        rw [hxy, hyin, hyidx]
        simp [hvk]
      · simp only [h2, if_false]
        rw [l5, reqBit_iff]
        constructor
        · rintro ⟨a, b⟩
          have hne : x.idx ≠ k := by
            intro e; have := l4 a; rw [e, hk] at this; simp at this; exact h2 this
          exact ⟨a, (hphc _ hne).mpr b⟩
        · rintro ⟨a, b⟩
          have hne : x.idx ≠ k := by
            intro e; have := l4 a; rw [e, hk] at this; simp at this; exact h2 this
          exact ⟨a, (hphc _ hne).mp b⟩
    · show (if u = w then v else x.st) ≤ 4
      by_cases h2 : u = w
      · simp [h2, hv4]
      · simpa [h2] using l6
    · show PhOk s'.phase s'.rt s'.list.length x.idx (if t = w then pcT' else x.pc)
      rw [e3, e4, e5]
      by_cases h1 : t = w
      · simp only [h1, if_true]; rw [hidxT h1]; exact hpho
      · simp only [h1, if_false]
        apply phOk_of_not_holdsL
        cases hh : holdsL x.pc
        · rfl
        · have a := l1.mp hh
          have b := hlt.1.mp hL
          rw [a] at b; simp at b; exact absurd b.symm h1
  · intro j w hj
    rw [e3] at hj
    obtain ⟨x, hx, hxin, hxidx⟩ := h.mem j w hj
    refine ⟨_, hthr w x hx, ?_, hxidx⟩
    show inList (if t = w then pcT' else x.pc) = true
    by_cases h1 : t = w
    · have : x.pc = pcT := by subst h1; rw [ht] at hx; cases hx; rfl
      simp only [h1, if_true]; rw [hin, ← this]; exact hxin
    · simpa [h1] using hxin
  · intro hn; rw [e1] at hn; have := hlt.1.mp hL; rw [hn] at this; simp at this
  · rw [e6, e4]; have := h.armedIff; simp [hid, hid'] at this ⊢; exact this
  · rw [cntOk_iff, e4, e7]
    apply hcnt
    -- count: first u's state byte, then t's pc
    have c1 := countP_modify isPend (fun x => { x with st := v }) hu
    have hz : ∃ z, (s.thr.modify u (fun x => { x with st := v }))[t]? = some z ∧ z.pc = pcT := by
      by_cases h1 : u = t
      · subst h1; rw [ht] at hu; cases hu
        exact ⟨_, getElem?_modify_self _ ht, rfl⟩
      · exact ⟨_, by rw [getElem?_modify_ne _ h1]; exact ht, rfl⟩
    obtain ⟨z, hz, hzpc⟩ := hz
    have c2 := countP_modify isPend (fun x => { x with pc := pcT' }) hz
    have hzz : isPend { z with pc := pcT' } = isPend z := by
      simp [isPend, hpp, hzpc]
    rw [hzz] at c2
    have : s'.thr = (s.thr.modify u (fun x => { x with st := v })).modify t (fun x => { x with pc := pcT' }) := by
      rw [hs']; rfl
    rw [this]
    omega


theorem stOk_zero_not_pend {pc : PC} (h : StOk pc 0) : isPendPc pc = false := by
  cases pc <;> simp_all [StOk, isPendPc]

theorem Inv.step_foRun {s s' : State} {t st idx k r u : Nat} {y : Thr} (h : Inv s)
    (ht : s.thr[t]? = some ⟨.fo k r, st, idx⟩) (hk : s.list[k]? = some u) (hu : s.thr[u]? = some y) (hy : y.st = 0)
    (hs' : s' = ({ s with phase := .req (k + 1) (r + 1) }.setSt u 2).setPc t (.fo (k + 1) (r + 1))) : Inv s' := by
  have hl := h.loc t _ ht
  have hly := h.loc u _ hu
  have hC := h.cnt
  simp [Loc, PhOk] at hl
  obtain ⟨-, -, -, -, -, -, hph, hkl, hrt⟩ := hl
  have hklt := lt_of_get hk
  refine Inv.reqStep h ht hk hu hs' rfl rfl rfl rfl rfl (fun _ a => a) ?_ (by omega) ?_ ?_ ?_ (by simp [hph]) (by simp) ?_
  · intro pc _ hp; rw [hy] at hp; cases pc <;> simp_all [StOk]
  · intro i hi; simp [hph, PhC]; omega
  · simp [PhC]
  · simp [PhOk, hrt]; omega
  · intro c' hc
    have hnp : isPendPc y.pc = false := stOk_zero_not_pend (by have := hly.2.2.1; rwa [hy] at this)
    simp [isPend, hy, hnp] at hc
    rw [cntOk_iff, hph] at hC
    simp only [CntTarget] at hC ⊢
    omega

theorem Inv.step_foPark {s s' : State} {t st idx k r u : Nat} {y : Thr} (h : Inv s)
    (ht : s.thr[t]? = some ⟨.fo k r, st, idx⟩) (hk : s.list[k]? = some u) (hu : s.thr[u]? = some y) (hy : y.st = 1)
    (hs' : s' = ({ s with phase := .req (k + 1) r }.setSt u 3).setPc t (.fo (k + 1) r)) : Inv s' := by
  have hl := h.loc t _ ht
  have hC := h.cnt
  simp [Loc, PhOk] at hl
  obtain ⟨-, -, -, -, -, -, hph, hkl, hrt⟩ := hl
  have hklt := lt_of_get hk
  refine Inv.reqStep h ht hk hu hs' rfl rfl rfl rfl rfl (fun _ a => a) ?_ (by omega) ?_ ?_ ?_ (by simp [hph]) (by simp) ?_
  · intro pc hin hp; rw [hy] at hp; cases pc <;> simp_all [StOk, inList]
  · intro i hi; simp [hph, PhC]; omega
  · simp [PhC]
  · simp [PhOk, hrt]; omega
  · intro c' hc
    simp [isPend, hy] at hc
    rw [cntOk_iff, hph] at hC
    simp only [CntTarget] at hC ⊢
    omega

theorem Inv.step_rsSwap {s s' : State} {t st idx k u : Nat} {y : Thr} (h : Inv s)
    (ht : s.thr[t]? = some ⟨.rs k, st, idx⟩) (hk : s.list[k]? = some u) (hu : s.thr[u]? = some y)
    (hy : y.st = 4 ∨ y.st = 3)
    (hs' : s' = ({ s with phase := .res (k + 1) }.setSt u 1).setPc t (.rs (k + 1))) : Inv s' := by
  have hl := h.loc t _ ht
  have hC := h.cnt
  simp [Loc, PhOk] at hl
  obtain ⟨-, -, -, -, -, -, hph, hkl, hrt⟩ := hl
  have hklt := lt_of_get hk
  refine Inv.reqStep h ht hk hu hs' rfl rfl rfl rfl rfl (fun _ a => a) ?_ (by omega) ?_ ?_ ?_ (by simp [hph]) (by simp) ?_
  · intro pc hin hp
    rcases hy with hy | hy <;> rw [hy] at hp <;> cases pc <;> simp_all [StOk, inList]
  · intro i hi; simp [hph, PhC]; omega
  · simp [PhC]
  · simp [PhOk, hrt]; omega
  · intro c' hc
    have h2 : (y.st == 2) = false := by rcases hy with hy | hy <;> simp [hy]
    simp [isPend, h2] at hc
    rw [cntOk_iff, hph] at hC
    simp only [CntTarget] at hC ⊢
    omega

end Dora.Stw
