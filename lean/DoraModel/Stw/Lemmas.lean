import DoraModel.Stw.Model
/-!
# C04 — relational reading of the stop-the-world model, classes of program counters

`Step` is the relational form of `stepAt` (one constructor per row of the step table, all failing assertions
collected in the constructor `panic` guarded by `PanicGuard`), proved to cover everything `accept` allows
(`accept_step`).
-/
namespace Dora.Stw

/-- which pcs a `beg` annotation may lead to -/
def BegTarget : PC → Prop
  | .poll0 | .ps0 .nat | .ps0 .stw | .spawnNew | .park0 .exit => True
  | _ => False

/-- the condition under which the Rust code at `pc` fails an assertion -/
def PanicGuard (s : State) (t st idx : Nat) : PC → Prop
  | .pollSlow => st ≠ 2
  | .spB0 => s.lockB = none ∧ s.armed = false
  | .parkB0 _ => s.lockB = none ∧ s.armed = false
  | .ps0 _ => isRunningSt st = false
  | .psEnd _ => isRunningSt st = false
  | .parkS _ => st ≠ 2
  | .unpS _ => st ≠ 1 ∧ st ≠ 3
  | .addA => ∃ (u : Nat) (y : Thr), s.thr[u]? = some y ∧ y.pc = .unborn ∧ isParkedSt y.st = false
  | .stwL1 => (s.list.length = 1 ∧ ¬ (s.list[0]? = some t ∧ s.rt = 0)) ∨
              (s.list.length ≠ 1 ∧ s.lockB = none ∧ ¬ (s.armed = false ∧ t ∈ s.list))
  | .opS => s.rt ≠ 1
  | .op => s.rt ≠ 1
  | .fo k _ => (∃ (u : Nat) (y : Thr), s.list[k]? = some u ∧ s.thr[u]? = some y ∧ y.st ≠ 0 ∧ y.st ≠ 1) ∨
               (k = s.list.length ∧ s.lockB = none ∧ s.armed = false)
  | .wuB1 r => ¬ s.stopped < r ∧ s.stopped ≠ r
  | .rtS1 => s.rt ≠ 0
  | .rs k => (∃ (u : Nat) (y : Thr), s.list[k]? = some u ∧ s.thr[u]? = some y ∧ ¬ (y.st = 4 ∨ y.st = 3)) ∨
             (k = s.list.length ∧ s.lockB = none ∧ s.armed = false)
  | .rmL1 => s.list[idx]? ≠ some t
  | _ => False

/-- relational form of `stepAt`: thread `t` with record `⟨pc, st, idx⟩` moves the system from `s` to the given state -/
inductive Step (s : State) (t st idx : Nat) : PC → State → Prop
  | touch : Step s t st idx .mut s
  | beg (pc' : PC) : BegTarget pc' → Step s t st idx .mut (s.setPc t pc')
  | pollFast : st = 0 → Step s t st idx .poll0 (s.setPc t .mut)
  | pollSlowGo : st ≠ 0 → Step s t st idx .poll0 (s.setPc t .pollSlow)
  | spSwap : st = 2 → Step s t st idx .pollSlow ((s.setSt t 4).setPc t .spB0)
  | spLock : s.lockB = none → s.armed = true →
      Step s t st idx .spB0 ({ s with lockB := some t, stopped := s.stopped + 1 }.setPc t .spB1)
  | spN1some (i r : Nat) : s.pcOf i = some (.wuWait r) → Step s t st idx .spB1 ((s.setPc i (.wuWoken r)).setPc t .spB2)
  | spN1none : s.thr.countP isWaitN = 0 → Step s t st idx .spB1 (s.setPc t .spB2)
  | spWaitGo : s.armed = true → Step s t st idx .spB2 ({ s with lockB := none }.setPc t .spWait)
  | spLeave : s.armed = false → Step s t st idx .spB2 ({ s with lockB := none }.setPc t (.unp0 .slow))
  | spSpur : Step s t st idx .spWait (s.setPc t .spWoken)
  | spRelock : s.lockB = none → Step s t st idx .spWoken ({ s with lockB := some t }.setPc t .spB2)
  | ps0Ok (c : Ctx) : isRunningSt st = true → Step s t st idx (.ps0 c) (s.setPc t (.park0 (.scope c)))
  | psEndOk (c : Ctx) : isRunningSt st = true → Step s t st idx (.psEnd c) (s.setPc t (afterScope c))
  | parkFast (r : Ret) : st = 0 → Step s t st idx (.park0 r) ((s.setSt t 1).setPc t (afterPark r))
  | parkSlowGo (r : Ret) : st ≠ 0 → Step s t st idx (.park0 r) (s.setPc t (.parkS r))
  | parkSlow (r : Ret) : st = 2 → Step s t st idx (.parkS r) ((s.setSt t 3).setPc t (.parkB0 r))
  | parkLock (r : Ret) : s.lockB = none → s.armed = true →
      Step s t st idx (.parkB0 r) ({ s with lockB := some t, stopped := s.stopped + 1 }.setPc t (.parkB1 r))
  | parkN1some (r : Ret) (i q : Nat) : s.pcOf i = some (.wuWait q) →
      Step s t st idx (.parkB1 r) ((s.setPc i (.wuWoken q)).setPc t (.parkB2 r))
  | parkN1none (r : Ret) : s.thr.countP isWaitN = 0 → Step s t st idx (.parkB1 r) (s.setPc t (.parkB2 r))
  | parkUnlock (r : Ret) : Step s t st idx (.parkB2 r) ({ s with lockB := none }.setPc t (afterPark r))
  | natYield : Step s t st idx .natIn (s.setPc t (.unp0 (.scope .nat)))
  | unpFast (r : Ret) : st = 1 → Step s t st idx (.unp0 r) ((s.setSt t 0).setPc t (afterUnpark r))
  | unpSlowGo (r : Ret) : st ≠ 1 → Step s t st idx (.unp0 r) (s.setPc t (.unpS r))
  | unpSFast (r : Ret) : st = 1 → Step s t st idx (.unpS r) ((s.setSt t 0).setPc t (afterUnpark r))
  | unpSWait (r : Ret) : st = 3 → Step s t st idx (.unpS r) (s.setPc t (.unpB0 r))
  | unpLock (r : Ret) : s.lockB = none → Step s t st idx (.unpB0 r) ({ s with lockB := some t }.setPc t (.unpB1 r))
  | unpWaitGo (r : Ret) : s.armed = true → Step s t st idx (.unpB1 r) ({ s with lockB := none }.setPc t (.unpWait r))
  | unpLeave (r : Ret) : s.armed = false → Step s t st idx (.unpB1 r) ({ s with lockB := none }.setPc t (.unpS r))
  | unpSpur (r : Ret) : Step s t st idx (.unpWait r) (s.setPc t (.unpWoken r))
  | unpRelock (r : Ret) : s.lockB = none → Step s t st idx (.unpWoken r) ({ s with lockB := some t }.setPc t (.unpB1 r))
  | spawnFetch : Step s t st idx .spawnNew (s.setPc t .addA)
  | addReserve (u : Nat) (y : Thr) : s.thr[u]? = some y → y.pc = .unborn → isParkedSt y.st = true →
      Step s t st idx .addA ((s.setPc u .embryo).setPc t (.ps0 (.add u)))
  | addLock (u : Nat) : s.lockL = none → Step s t st idx (.addL0 u) ({ s with lockL := some t }.setPc t (.addL1 u))
  | addPush (u : Nat) : s.pcOf u = some .embryo → Step s t st idx (.addL1 u)
      ((({ s with list := s.list ++ [u] }.setIdx u s.list.length).setPc u .ready).setPc t (.addL2 u))
  | addUnlock (u : Nat) : Step s t st idx (.addL2 u) ({ s with lockL := none }.setPc t (.unp0 (.scope (.add u))))
  | spawnGo (u : Nat) : s.pcOf u = some .ready → Step s t st idx (.spawnGo u) ((s.setPc u (.unp0 .start)).setPc t .mut)
  | stwLock : s.lockL = none → Step s t st idx .stwL0 ({ s with lockL := some t }.setPc t .stwL1)
  | stwSingle : s.list.length = 1 → s.list[0]? = some t → s.rt = 0 → Step s t st idx .stwL1 ({ s with rt := 1 }.setPc t .opS)
  | opSTouch : Step s t st idx .opS s
  | opSEnd : s.rt = 1 → Step s t st idx .opS ({ s with rt := 0, ops := s.ops + 1 }.setPc t .stwUL)
  | arm : s.list.length ≠ 1 → s.lockB = none → s.armed = false → t ∈ s.list →
      Step s t st idx .stwL1 ({ s with lockB := some t, armed := true, stopped := 0, phase := .req 0 0 }.setPc t .armB)
  | armUnlock : Step s t st idx .armB ({ s with lockB := none }.setPc t (.fo 0 0))
  | foRun (k r u : Nat) (y : Thr) : s.list[k]? = some u → s.thr[u]? = some y → y.st = 0 →
      Step s t st idx (.fo k r) (({ s with phase := .req (k + 1) (r + 1) }.setSt u 2).setPc t (.fo (k + 1) (r + 1)))
  | foPark (k r u : Nat) (y : Thr) : s.list[k]? = some u → s.thr[u]? = some y → y.st = 1 →
      Step s t st idx (.fo k r) (({ s with phase := .req (k + 1) r }.setSt u 3).setPc t (.fo (k + 1) r))
  | foLock (k r : Nat) : k = s.list.length → s.lockB = none → s.armed = true →
      Step s t st idx (.fo k r) ({ s with lockB := some t }.setPc t (.wuB1 r))
  | wuWaitGo (r : Nat) : s.stopped < r → Step s t st idx (.wuB1 r) ({ s with lockB := none }.setPc t (.wuWait r))
  | wuLeave (r : Nat) : s.stopped = r → Step s t st idx (.wuB1 r) ({ s with lockB := none, phase := .oper }.setPc t .rtS1)
  | wuSpur (r : Nat) : Step s t st idx (.wuWait r) (s.setPc t (.wuWoken r))
  | wuRelock (r : Nat) : s.lockB = none → Step s t st idx (.wuWoken r) ({ s with lockB := some t }.setPc t (.wuB1 r))
  | rtEnter : s.rt = 0 → Step s t st idx .rtS1 ({ s with rt := 1 }.setPc t .op)
  | opTouch : Step s t st idx .op s
  | opEnd : s.rt = 1 → Step s t st idx .op ({ s with rt := 0, ops := s.ops + 1, phase := .res 0 }.setPc t (.rs 0))
  | rsSwap (k u : Nat) (y : Thr) : s.list[k]? = some u → s.thr[u]? = some y → (y.st = 4 ∨ y.st = 3) →
      Step s t st idx (.rs k) (({ s with phase := .res (k + 1) }.setSt u 1).setPc t (.rs (k + 1)))
  | disarm (k : Nat) : k = s.list.length → s.lockB = none → s.armed = true →
      Step s t st idx (.rs k) ({ s with lockB := some t, armed := false, phase := .idle }.setPc t .disB1)
  | disNotify : Step s t st idx .disB1 ({ s with thr := s.thr.map wakeW }.setPc t .disB2)
  | disUnlock : Step s t st idx .disB2 ({ s with lockB := none }.setPc t .stwUL)
  | stwUnlock : Step s t st idx .stwUL ({ s with lockL := none }.setPc t (.unp0 (.scope .stw)))
  | rmLock : s.lockL = none → Step s t st idx .rmL0 ({ s with lockL := some t }.setPc t .rmL1)
  | rmLoad : s.list[idx]? = some t → Step s t st idx .rmL1 (s.setPc t (.rmL1a idx))
  | rmSwap (r last : Nat) : s.list.getLast? = some last → r + 1 ≠ s.list.length →
      Step s t st idx (.rmL1a r) (({ s with list := s.list.dropLast.set r last }.setIdx last r).setPc t .rmL2)
  | rmLast (r : Nat) : r + 1 = s.list.length → Step s t st idx (.rmL1a r) ({ s with list := s.list.dropLast }.setPc t .rmL3)
  | rmNotify : Step s t st idx .rmL2 (s.setPc t .rmL3)
  | rmUnlock : Step s t st idx .rmL3 ({ s with lockL := none }.setPc t .dead)
  | panic (pc : PC) : PanicGuard s t st idx pc → Step s t st idx pc (s.setPc t .panicked)


theorem stepAt_step {s s' : State} {t : Nat} {pc : PC} {st idx : Nat} {a : Act}
    (h : stepAt s t ⟨pc, st, idx⟩ pc a = .ok s') : Step s t st idx pc s' := by
  cases pc <;> cases a <;> simp only [stepAt] at h <;> (try (simp at h; done))
  all_goals (repeat' split at h)
  all_goals (try (simp at h; done))
  all_goals (simp only [Except.ok.injEq] at h; subst h)
  all_goals (try subst_vars)
  all_goals (try (first
    | exact Step.touch | exact Step.opSTouch | exact Step.opTouch
    | (constructor <;> (first | assumption | omega | (simp_all [BegTarget]; done)); done)
    | (apply Step.panic; simp_all [PanicGuard]; done)))
  all_goals (first
    | (rcases ‹_ ∧ _ ∧ _› with ⟨rfl, hst, rfl⟩
       first
       | exact Step.foRun _ _ _ _ ‹_› ‹_› hst.symm
       | exact Step.foPark _ _ _ _ ‹_› ‹_› hst.symm)
    | (rcases ‹_ ∧ _ ∧ _› with ⟨rfl, rfl, hemb⟩
       exact Step.addPush _ hemb)
    | (rcases ‹_ ∧ _› with ⟨rfl, rfl⟩
       first
       | exact Step.addPush _ ‹_›
       | exact Step.rmLoad ‹_›)
    | (rcases ‹_ ∧ _› with ⟨hpc, rfl⟩
       apply Step.panic
       exact ⟨_, _, ‹_›, hpc, by simp_all⟩))


theorem accept_step {s s' : State} {e : Event} (h : accept s e = .ok s') :
    ∃ pc st idx, s.thr[e.tid]? = some ⟨pc, st, idx⟩ ∧ Step s e.tid st idx pc s' := by
  unfold accept at h
  split at h
  · simp at h
  · rename_i x hx
    obtain ⟨pc, st, idx⟩ := x
    exact ⟨pc, st, idx, hx, stepAt_step h⟩

/-! ## classes of program counters -/

/-- holds `Threads::threads` -/
def holdsL : PC → Bool
  | .addL1 _ | .addL2 _ | .stwL1 | .opS | .armB | .fo _ _ | .wuB1 _ | .wuWait _ | .wuWoken _ | .rtS1 | .op | .rs _
  | .disB1 | .disB2 | .stwUL | .rmL1 | .rmL1a _ | .rmL2 | .rmL3 => true
  | _ => false

/-- holds `Barrier::data` -/
def holdsB : PC → Bool
  | .spB1 | .spB2 | .parkB1 _ | .parkB2 _ | .unpB1 _ | .armB | .wuB1 _ | .disB1 | .disB2 => true
  | _ => false

/-- the thread is between `unpark` and `park`: it runs managed code or runtime code that may touch the heap
(`mutating`) -/
def runC : PC → Bool
  | .mut | .poll0 | .pollSlow | .ps0 _ | .park0 _ | .parkS _ | .psEnd _ | .spawnNew | .addA | .spawnGo _ => true
  | _ => false

/-- registered: the thread is an element of `Threads::threads` -/
def inList : PC → Bool
  | .unborn | .embryo | .rmL2 | .rmL3 | .dead | .panicked => false
  | _ => true

/-- counted as running by `stop_threads` and has not yet incremented `stopped`: pcs between the state change and
the locked increment -/
def isPendPc : PC → Bool
  | .parkB0 _ | .spB0 => true
  | _ => false

/-- has to report to the barrier in this round -/
def isPend (x : Thr) : Bool := x.st == 2 || isPendPc x.pc

def parkRet : Ret → Prop
  | .scope _ | .exit => True
  | _ => False

def unpRet : Ret → Prop
  | .scope _ | .slow | .start => True
  | _ => False

/-- what the pc says about the thread's own state byte (and the return points of park / unpark) -/
def StOk : PC → Nat → Prop
  | .unborn, st | .embryo, st | .rmL2, st | .rmL3, st | .dead, st => st = 1
  | .panicked, _ => False
  | .mut, st | .poll0, st | .ps0 _, st | .psEnd _, st | .spawnNew, st | .addA, st | .spawnGo _, st => st = 0 ∨ st = 2
  | .park0 r, st => (st = 0 ∨ st = 2) ∧ parkRet r
  | .pollSlow, st => st = 2
  | .parkS r, st => st = 2 ∧ parkRet r
  | .spB0, st | .spB1, st | .spB2, st | .spWait, st | .spWoken, st => st = 1 ∨ st = 3 ∨ st = 4
  | .parkB0 r, st | .parkB1 r, st | .parkB2 r, st => (st = 1 ∨ st = 3) ∧ parkRet r
  | .unp0 r, st | .unpS r, st | .unpB0 r, st | .unpB1 r, st | .unpWait r, st | .unpWoken r, st => (st = 1 ∨ st = 3) ∧ unpRet r
  | _, st => st = 1 ∨ st = 3

/-- the request bit (value 2, 3 or 4) is expected in the state byte of `x` -/
def ReqBit (ph : Phase) (x : Thr) : Prop :=
  inList x.pc = true ∧
  match ph with
  | .idle => False
  | .req k _ => x.idx < k
  | .oper => True
  | .res k => k ≤ x.idx

/-- what the pc of a holder of `L` says about the ghost phase, the runtime state and its registers -/
def PhOk (ph : Phase) (rt len idx : Nat) : PC → Prop
  | .armB => ph = .req 0 0 ∧ rt = 0
  | .fo k r => ph = .req k r ∧ k ≤ len ∧ rt = 0
  | .wuB1 r | .wuWait r | .wuWoken r => ph = .req len r ∧ rt = 0
  | .rtS1 => ph = .oper ∧ rt = 0
  | .op => ph = .oper ∧ rt = 1
  | .rs k => ph = .res k ∧ k ≤ len ∧ rt = 0
  | .opS => ph = .idle ∧ rt = 1 ∧ len = 1
  | .rmL1a r => ph = .idle ∧ rt = 0 ∧ r = idx
  | .addL1 _ | .addL2 _ | .stwL1 | .disB1 | .disB2 | .stwUL | .rmL1 | .rmL2 | .rmL3 => ph = .idle ∧ rt = 0
  | _ => True

theorem countP_modify {α} (p : α → Bool) (f : α → α) {l : List α} {t : Nat} {x : α} (h : l[t]? = some x) :
    (l.modify t f).countP p + (p x).toNat = l.countP p + (p (f x)).toNat := by
  induction l generalizing t with
  | nil => simp at h
  | cons a l ih =>
    cases t with
    | zero =>
      simp at h; subst h
      simp [List.countP_cons]
      cases p a <;> cases p (f a) <;> simp <;> omega
    | succ t =>
      simp at h
      have := ih h
      simp [List.countP_cons]
      omega

theorem getElem?_modify_self {α} (f : α → α) {l : List α} {t : Nat} {x : α} (h : l[t]? = some x) :
    (l.modify t f)[t]? = some (f x) := by
  rw [List.getElem?_modify, h]; simp

theorem getElem?_modify_ne {α} (f : α → α) {l : List α} {t u : Nat} (h : t ≠ u) :
    (l.modify t f)[u]? = l[u]? := by
  rw [List.getElem?_modify]
  cases l[u]? <;> simp [h]

theorem lt_of_get {α} {l : List α} {t : Nat} {x : α} (h : l[t]? = some x) : t < l.length := by
  rcases Nat.lt_or_ge t l.length with hl | hl
  · exact hl
  · rw [List.getElem?_eq_none hl] at h; simp at h

end Dora.Stw
