import DoraModel.Stw.Live
/-! # C04 — preservation of the wake-up invariants -/
namespace Dora.Stw

set_option hygiene false in
/-- discharge the side conditions of `Inv2.pcStep` for a step that is a frame step for both wake-up invariants -/
macro "plain2 " pc1:term:max _st1:term:max : tactic => `(tactic| (
  have hl := h.loc t _ ht
  refine Inv2.pcStep (pc' := $pc1) h2 h ht ?_ ?_ ?_ (KeepN.frame rfl ?_) (KeepW.frame rfl ?_) (Or.inl ?_) (Or.inl ?_) ?_ ?_
  · simp only [pcOf_setPc, pcOf_setSt, pcOf_setIdx]; simp [State.pcOf, ht, afterScope, afterPark, afterUnpark]
  · intro u hu; simp only [pcOf_setPc, pcOf_setSt, pcOf_setIdx]; simp [State.pcOf, Ne.symm hu]
  · simp [Loc, holdsL, holdsB] at hl; simp [holdsB, State.setPc, State.setSt, State.setIdx, *]
  · simp [isNotifier]
  · simp
  · intro r; simp
  · simp [isWaitWpc]
  · simp [ctxOf, ctxOfRet, ctxOfCtx]
  · simp))

end Dora.Stw
