import DoraModel.Stw.LiveStep2
/-! # C04 — preservation of the wake-up invariants: steps that change two threads' pcs; `notify_all`; induction -/
namespace Dora.Stw

variable {s : State} {t st idx : Nat}

theorem quiet_of {p : PC} (h1 : ∀ r, p ≠ .wuWait r) (h2 : isNotifier p = false) (h3 : p ≠ .disB1)
    (h4 : isWaitWpc p = false) : quiet p := ⟨h1, h2, h3, h4⟩

/-- `notify_one` waking the initiator `i`, by a thread at `pcN` (`spB1` / `parkB1 r`) going to `pcN'` -/
theorem Inv2.n1some {i r : Nat} {pcN pcN' : PC} (h2 : Inv2 s) (h : Inv s) (ht : s.thr[t]? = some ⟨pcN, st, idx⟩)
    (hi : s.pcOf i = some (.wuWait r)) (h' : Inv ((s.setPc i (.wuWoken r)).setPc t pcN'))
    (hq : quiet pcN') (hB : holdsB pcN = true) (hL : holdsL pcN = false) (hc : ctxOf pcN' = ctxOf pcN)
    (hpe : pcN ≠ .embryo ∧ pcN ≠ .ready) :
    Inv2 ((s.setPc i (.wuWoken r)).setPc t pcN') := by
  obtain ⟨sti, idxi, hi'⟩ := pcOf_some hi
  have hne : i ≠ t := by
    intro e; subst e; rw [ht] at hi'; cases hi'; simp [holdsL] at hL
  -- in the new state `i` holds `L` at `wuWoken`, so nobody waits on cv_notify
  have hi2 : ((s.setPc i (.wuWoken r)).setPc t pcN').thr[i]? = some ⟨.wuWoken r, sti, idxi⟩ := by
    simp [setPc_thr, hi', hne, Ne.symm hne]
  have hno := noWaitN_of_holder h' hi2 rfl (by intro r'; simp)
  have hpt : s.pcOf t = some pcN := pcOf_eq ht
  refine ⟨?_, ?_, ?_, ?_⟩
  · intro j r' hj; exact absurd hj (hno j r')
  · intro j q hj hq'
    have hjt : j ≠ t := by
      intro e; subst e
      simp only [pcOf_setPc] at hj; simp [hpt, Ne.symm hne, hne] at hj
      subst hj; rw [hq.2.2.2] at hq'; cases hq'
    have hji : j ≠ i := by
      intro e; subst e
      simp only [pcOf_setPc] at hj; simp [hi, Ne.symm hne, hne] at hj
      subst hj; simp [isWaitWpc] at hq'
    have hj0 : s.pcOf j = some q := by
      simp only [pcOf_setPc] at hj; simpa [Ne.symm hjt, Ne.symm hji] using hj
    rcases h2.waitW j q hj0 hq' with h1 | ⟨b, hb, hd⟩
    · left; exact h1
    · exfalso
      have := (h.loc t _ ht).2.1.mp hB
      rw [this] at hb; simp at hb; subst hb
      rw [hpt] at hd; cases hd; simp [holdsL] at hL
  · intro w q u p hw hcx
    have conv : ∃ q0, s.pcOf w = some q0 ∧ ctxOf q0 = some (u, p) := by
      by_cases hwt : w = t
      · subst hwt
        simp only [pcOf_setPc] at hw; simp [hpt, hne] at hw
        subst hw; exact ⟨pcN, hpt, by rw [← hc]; exact hcx⟩
      · by_cases hwi : w = i
        · subst hwi
          simp only [pcOf_setPc] at hw; simp [hi, Ne.symm hne] at hw
          subst hw; simp [ctxOf] at hcx
        · exact ⟨q, by simp only [pcOf_setPc] at hw; simpa [Ne.symm hwt, Ne.symm hwi] using hw, hcx⟩
    obtain ⟨q0, hq0, hc0⟩ := conv
    have hold := h2.ctx w q0 u p hq0 hc0
    have hut : u ≠ t := by
      intro e; subst e; rw [hpt] at hold; simp at hold
      cases p <;> simp [slotPc] at hold <;> simp_all
    have hui : u ≠ i := by
      intro e; subst e; rw [hi] at hold; simp at hold
      cases p <;> simp [slotPc] at hold
    simp only [pcOf_setPc]; simp [Ne.symm hut, Ne.symm hui, hold]
  · intro t1 t2 q1 q2 u p1 p2 hq1 hq2 hc1 hc2
    have conv : ∀ (w : Nat) (q : PC) (p : Bool), ((s.setPc i (.wuWoken r)).setPc t pcN').pcOf w = some q →
        ctxOf q = some (u, p) → ∃ q0, s.pcOf w = some q0 ∧ ctxOf q0 = some (u, p) := by
      intro w q p hw hcx
      by_cases hwt : w = t
      · subst hwt
        simp only [pcOf_setPc] at hw; simp [hpt, hne] at hw
        subst hw; exact ⟨pcN, hpt, by rw [← hc]; exact hcx⟩
      · by_cases hwi : w = i
        · subst hwi
          simp only [pcOf_setPc] at hw; simp [hi, Ne.symm hne] at hw
          subst hw; simp [ctxOf] at hcx
        · exact ⟨q, by simp only [pcOf_setPc] at hw; simpa [Ne.symm hwt, Ne.symm hwi] using hw, hcx⟩
    obtain ⟨y1, hy1, hd1⟩ := conv t1 q1 p1 hq1 hc1
    obtain ⟨y2, hy2, hd2⟩ := conv t2 q2 p2 hq2 hc2
    exact h2.uniq t1 t2 y1 y2 u p1 p2 hy1 hy2 hd1 hd2


/-- pcs after two `setPc`s -/
theorem pcOf_two (u : Nat) (q' : PC) (pc' : PC) (w : Nat) :
    ((s.setPc u q').setPc t pc').pcOf w =
      if t = w then ((s.setPc u q').pcOf w).map (fun _ => pc') else
      if u = w then (s.pcOf w).map (fun _ => q') else s.pcOf w := by
  simp only [pcOf_setPc]

theorem slot_ne {p : Bool} {q : PC} (h : q ≠ .embryo ∧ q ≠ .ready) : some q ≠ some (slotPc p) := by
  cases p <;> simp [slotPc] <;> simp_all

/-- the common part of `addReserve` / `addPush` / `spawnGo`: `u`'s pc goes `q → q'`, `t`'s `pc → pc'` -/
theorem Inv2.createStep {s' : State} {u : Nat} {pc pc' q q' : PC} (h2 : Inv2 s)
    (hpt : s.pcOf t = some pc) (hpu : s.pcOf u = some q) (hut : u ≠ t)
    (hpc' : ∀ w, s'.pcOf w = if t = w then some pc' else if u = w then some q' else s.pcOf w)
    (e1 : s'.stopped = s.stopped) (e2 : s'.armed = s.armed) (e3 : s'.lockB = s.lockB)
    (k1 : quiet pc) (k2 : quiet pc') (k3 : quiet q) (k4 : quiet q')
    (hctx : ∀ (w : Nat) (p : PC) (v : Nat) (b : Bool), s'.pcOf w = some p → ctxOf p = some (v, b) →
      s'.pcOf v = some (slotPc b))
    (huniq : ∀ (t1 t2 : Nat) (q1 q2 : PC) (v : Nat) (p1 p2 : Bool), s'.pcOf t1 = some q1 → s'.pcOf t2 = some q2 →
      ctxOf q1 = some (v, p1) → ctxOf q2 = some (v, p2) → t1 = t2) : Inv2 s' :=
  Inv2.twoStep h2 hpt hpu
    (by intro w h1 h2'; rw [hpc' w]; simp [Ne.symm h1, Ne.symm h2'])
    (by rw [hpc' t]; simp) (by rw [hpc' u]; simp [Ne.symm hut]) e1 e2 e3 k1 k2 k3 k4 hctx huniq

theorem Inv2.step_addReserve {u : Nat} {y : Thr} (h2 : Inv2 s) (ht : s.thr[t]? = some ⟨.addA, st, idx⟩)
    (hu : s.thr[u]? = some y) (hy : y.pc = .unborn) : Inv2 ((s.setPc u .embryo).setPc t (.ps0 (.add u))) := by
  have hpt : s.pcOf t = some .addA := pcOf_eq ht
  have hpu : s.pcOf u = some .unborn := by rw [pcOf_eq hu, hy]
  have hut : u ≠ t := by intro e; subst e; rw [hpt] at hpu; cases hpu
  have hpc' : ∀ w, ((s.setPc u .embryo).setPc t (.ps0 (.add u))).pcOf w =
      if t = w then some (.ps0 (.add u)) else if u = w then some .embryo else s.pcOf w := by
    intro w; rw [pcOf_two]
    by_cases h1 : t = w
    · subst h1; simp [pcOf_setPc, hut, hpt]
    · by_cases h2' : u = w
      · subst h2'; simp [h1, hpu]
      · simp [h1, h2']
  -- old contexts never mention `u` (it was unborn) nor `t` as the created thread
  have oldctx : ∀ (w : Nat) (p : PC) (v : Nat) (b : Bool), s.pcOf w = some p → ctxOf p = some (v, b) →
      v ≠ u ∧ v ≠ t := by
    intro w p v b hw hc
    have := h2.ctx w p v b hw hc
    constructor
    · intro e; subst e; rw [hpu] at this; cases b <;> simp [slotPc] at this
    · intro e; subst e; rw [hpt] at this; cases b <;> simp [slotPc] at this
  refine Inv2.createStep h2 hpt hpu hut hpc' rfl rfl rfl
    (quiet_of (by simp) rfl (by simp) rfl) (quiet_of (by simp) rfl (by simp) rfl)
    (quiet_of (by simp) rfl (by simp) rfl) (quiet_of (by simp) rfl (by simp) rfl) ?_ ?_
  · intro w p v b hw hc
    rw [hpc' w] at hw
    by_cases h1 : t = w
    · simp [h1] at hw; subst hw
      simp [ctxOf, ctxOfCtx] at hc
      obtain ⟨rfl, rfl⟩ := hc
      rw [hpc' u]; simp [Ne.symm hut, slotPc]
    · by_cases h2' : u = w
      · simp [h1, h2'] at hw; subst hw; simp [ctxOf] at hc
      · simp [h1, h2'] at hw
        obtain ⟨n1, n2⟩ := oldctx w p v b hw hc
        rw [hpc' v]; simp [Ne.symm n1, Ne.symm n2]; exact h2.ctx w p v b hw hc
  · intro t1 t2 q1 q2 v p1 p2 hq1 hq2 hc1 hc2
    rw [hpc' t1] at hq1; rw [hpc' t2] at hq2
    by_cases a1 : t = t1 <;> by_cases a2 : t = t2
    · omega
    · -- t1 = t creates `u`; t2 had an old context on `u`: impossible
      exfalso
      simp [a1] at hq1; subst hq1
      simp [ctxOf, ctxOfCtx] at hc1; obtain ⟨rfl, -⟩ := hc1
      by_cases b2 : u = t2
      · simp [a2, b2] at hq2; subst hq2; simp [ctxOf] at hc2
      · simp [a2, b2] at hq2; exact (oldctx t2 q2 u p2 hq2 hc2).1 rfl
    · exfalso
      simp [a2] at hq2; subst hq2
      simp [ctxOf, ctxOfCtx] at hc2; obtain ⟨rfl, -⟩ := hc2
      by_cases b1 : u = t1
      · simp [a1, b1] at hq1; subst hq1; simp [ctxOf] at hc1
      · simp [a1, b1] at hq1; exact (oldctx t1 q1 u p1 hq1 hc1).1 rfl
    · by_cases b1 : u = t1
      · simp [a1, b1] at hq1; subst hq1; simp [ctxOf] at hc1
      · by_cases b2 : u = t2
        · simp [a2, b2] at hq2; subst hq2; simp [ctxOf] at hc2
        · simp [a1, b1] at hq1; simp [a2, b2] at hq2
          exact h2.uniq t1 t2 q1 q2 v p1 p2 hq1 hq2 hc1 hc2


theorem Inv2.step_addPush {u : Nat} (h2 : Inv2 s) (ht : s.thr[t]? = some ⟨.addL1 u, st, idx⟩)
    (hu : s.pcOf u = some .embryo) :
    Inv2 ((({ s with list := s.list ++ [u] }.setIdx u s.list.length).setPc u .ready).setPc t (.addL2 u)) := by
  have hpt : s.pcOf t = some (.addL1 u) := pcOf_eq ht
  have hut : u ≠ t := by intro e; subst e; rw [hpt] at hu; cases hu
  have hpc' : ∀ w, ((({ s with list := s.list ++ [u] }.setIdx u s.list.length).setPc u .ready).setPc t (.addL2 u)).pcOf w =
      if t = w then some (.addL2 u) else if u = w then some .ready else s.pcOf w := by
    intro w
    simp only [pcOf_setPc, pcOf_setIdx]
    have e : ({ s with list := s.list ++ [u] } : State).pcOf w = s.pcOf w := rfl
    rw [e]
    by_cases h1 : t = w
    · subst h1; simp [hut, hpt]
    · by_cases h2' : u = w
      · subst h2'; simp [h1, hu]
      · simp [h1, h2']
  have tctx : ctxOf (.addL1 u) = some (u, false) := rfl
  refine Inv2.createStep h2 hpt hu hut hpc' rfl rfl rfl
    (quiet_of (by simp) rfl (by simp) rfl) (quiet_of (by simp) rfl (by simp) rfl)
    (quiet_of (by simp) rfl (by simp) rfl) (quiet_of (by simp) rfl (by simp) rfl) ?_ ?_
  · intro w p v b hw hc
    rw [hpc' w] at hw
    by_cases h1 : t = w
    · simp [h1] at hw; subst hw
      simp [ctxOf] at hc
      obtain ⟨rfl, rfl⟩ := hc
      rw [hpc' u]; simp [Ne.symm hut, slotPc]
    · by_cases h2' : u = w
      · simp [h1, h2'] at hw; subst hw; simp [ctxOf] at hc
      · simp [h1, h2'] at hw
        have hold := h2.ctx w p v b hw hc
        have n1 : v ≠ u := by
          intro e; subst e
          exact h1 (h2.uniq t w _ p v false b hpt hw tctx hc)
        have n2 : v ≠ t := by
          intro e; subst e; rw [hpt] at hold; cases b <;> simp [slotPc] at hold
        rw [hpc' v]; simp [Ne.symm n1, Ne.symm n2]; exact hold
  · intro t1 t2 q1 q2 v p1 p2 hq1 hq2 hc1 hc2
    have conv : ∀ (w : Nat) (q : PC) (p : Bool),
        (if t = w then some (PC.addL2 u) else if u = w then some PC.ready else s.pcOf w) = some q →
        ctxOf q = some (v, p) → ∃ q0 p0, s.pcOf w = some q0 ∧ ctxOf q0 = some (v, p0) := by
      intro w q p hw hcx
      by_cases h1 : t = w
      · simp [h1] at hw; subst hw
        simp [ctxOf] at hcx; obtain ⟨rfl, -⟩ := hcx
        exact ⟨_, false, by rw [← h1]; exact hpt, tctx⟩
      · by_cases h2' : u = w
        · simp [h1, h2'] at hw; subst hw; simp [ctxOf] at hcx
        · simp [h1, h2'] at hw; exact ⟨q, p, hw, hcx⟩
    rw [hpc' t1] at hq1; rw [hpc' t2] at hq2
    obtain ⟨y1, r1, hy1, hd1⟩ := conv t1 q1 p1 hq1 hc1
    obtain ⟨y2, r2, hy2, hd2⟩ := conv t2 q2 p2 hq2 hc2
    exact h2.uniq t1 t2 y1 y2 v r1 r2 hy1 hy2 hd1 hd2

theorem Inv2.step_spawnGo {u : Nat} (h2 : Inv2 s) (ht : s.thr[t]? = some ⟨.spawnGo u, st, idx⟩)
    (hu : s.pcOf u = some .ready) : Inv2 ((s.setPc u (.unp0 .start)).setPc t .mut) := by
  have hpt : s.pcOf t = some (.spawnGo u) := pcOf_eq ht
  have hut : u ≠ t := by intro e; subst e; rw [hpt] at hu; cases hu
  have hpc' : ∀ w, ((s.setPc u (.unp0 .start)).setPc t .mut).pcOf w =
      if t = w then some .mut else if u = w then some (.unp0 .start) else s.pcOf w := by
    intro w; rw [pcOf_two]
    by_cases h1 : t = w
    · subst h1; simp [pcOf_setPc, hut, hpt]
    · by_cases h2' : u = w
      · subst h2'; simp [h1, hu]
      · simp [h1, h2']
  have tctx : ctxOf (.spawnGo u) = some (u, true) := rfl
  refine Inv2.createStep h2 hpt hu hut hpc' rfl rfl rfl
    (quiet_of (by simp) rfl (by simp) rfl) (quiet_of (by simp) rfl (by simp) rfl)
    (quiet_of (by simp) rfl (by simp) rfl) (quiet_of (by simp) rfl (by simp) rfl) ?_ ?_
  · intro w p v b hw hc
    rw [hpc' w] at hw
    by_cases h1 : t = w
    · simp [h1] at hw; subst hw; simp [ctxOf] at hc
    · by_cases h2' : u = w
      · simp [h1, h2'] at hw; subst hw; simp [ctxOf, ctxOfRet] at hc
      · simp [h1, h2'] at hw
        have hold := h2.ctx w p v b hw hc
        have n1 : v ≠ u := by
          intro e; subst e
          exact h1 (h2.uniq t w _ p v true b hpt hw tctx hc)
        have n2 : v ≠ t := by
          intro e; subst e; rw [hpt] at hold; cases b <;> simp [slotPc] at hold
        rw [hpc' v]; simp [Ne.symm n1, Ne.symm n2]; exact hold
  · intro t1 t2 q1 q2 v p1 p2 hq1 hq2 hc1 hc2
    have conv : ∀ (w : Nat) (q : PC) (p : Bool),
        (if t = w then some PC.mut else if u = w then some (PC.unp0 .start) else s.pcOf w) = some q →
        ctxOf q = some (v, p) → s.pcOf w = some q := by
      intro w q p hw hcx
      by_cases h1 : t = w
      · simp [h1] at hw; subst hw; simp [ctxOf] at hcx
      · by_cases h2' : u = w
        · simp [h1, h2'] at hw; subst hw; simp [ctxOf, ctxOfRet] at hcx
        · simpa [h1, h2'] using hw
    rw [hpc' t1] at hq1; rw [hpc' t2] at hq2
    exact h2.uniq t1 t2 q1 q2 v p1 p2 (conv t1 q1 p1 hq1 hc1) (conv t2 q2 p2 hq2 hc2) hc1 hc2

end Dora.Stw
