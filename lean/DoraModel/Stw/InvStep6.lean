import DoraModel.Stw.InvStep5
/-! # C04 — no assertion of the protocol can fail; the invariant is inductive; reachable states -/
namespace Dora.Stw

theorem Inv.pend_pos {s : State} {t : Nat} {x : Thr} (ht : s.thr[t]? = some x) (hp : isPend x = true) :
    0 < s.thr.countP isPend := by
  rw [List.countP_pos_iff]
  exact ⟨x, List.mem_of_getElem? ht, hp⟩

theorem Inv.armed_of_pend {s : State} (h : Inv s) {t : Nat} {x : Thr} (ht : s.thr[t]? = some x) (hp : isPend x = true) :
    s.armed = true := by
  have hpos := Inv.pend_pos ht hp
  have hC := h.cnt
  rw [h.armedIff]
  intro hid
  rw [cntOk_iff, hid] at hC
  simp only [CntTarget] at hC
  omega

theorem Inv.not_pend_of_zero {s : State} {t : Nat} {x : Thr} (ht : s.thr[t]? = some x)
    (hz : s.thr.countP isPend = 0) : isPend x = false := by
  cases hp : isPend x
  · rfl
  · have := Inv.pend_pos ht hp; omega

/-- the guard of every assertion failure contradicts the invariant -/
theorem Inv.no_panic {s : State} {t st idx : Nat} {pc : PC} (h : Inv s) (ht : s.thr[t]? = some ⟨pc, st, idx⟩)
    (hg : PanicGuard s t st idx pc) : False := by
  obtain ⟨l1, l2, l3, l4, l5, l6, l7⟩ := h.loc t _ ht
  have harm := h.armedIff
  have hC := h.cnt
  rw [cntOk_iff] at hC
  cases pc <;> simp only [PanicGuard] at hg
  case pollSlow => simp [StOk] at l3; omega
  case spB0 =>
    have := h.armed_of_pend ht (by simp [isPend, isPendPc])
    rw [this] at hg; simp at hg
  case parkB0 r =>
    have := h.armed_of_pend ht (by simp [isPend, isPendPc])
    rw [this] at hg; simp at hg
  case ps0 c => simp [StOk] at l3; rcases l3 with rfl | rfl <;> simp [isRunningSt] at hg
  case psEnd c => simp [StOk] at l3; rcases l3 with rfl | rfl <;> simp [isRunningSt] at hg
  case parkS r => simp [StOk] at l3; omega
  case unpS r => simp [StOk] at l3; omega
  case addA =>
    obtain ⟨u, y, hu, hy, hp⟩ := hg
    have := (h.loc u y hu).2.2.1
    rw [hy] at this; simp [StOk] at this
    rw [this] at hp; simp [isParkedSt] at hp
  case stwL1 =>
    simp [PhOk] at l7
    have hlt : s.list[idx]? = some t := l4 rfl
    have hidx := lt_of_get hlt
    have hna : s.armed = false := by
      cases ha : s.armed
      · rfl
      · have := harm.mp ha; exact absurd l7.1 this
    rcases hg with ⟨h1, h2⟩ | ⟨h1, h2, h3⟩
    · apply h2
      have : idx = 0 := by omega
      subst this
      exact ⟨hlt, l7.2⟩
    · exact h3 ⟨hna, List.mem_of_getElem? hlt⟩
  case opS => simp [PhOk] at l7; omega
  case op => simp [PhOk] at l7; omega
  case rtS1 => simp [PhOk] at l7; omega
  case fo k r =>
    simp [PhOk] at l7
    rcases hg with ⟨u, y, hk, hu, h0, h1⟩ | ⟨h1, h2, h3⟩
    · obtain ⟨y', hy', hyin, hyidx⟩ := h.mem k u hk
      rw [hu] at hy'; cases hy'
      have := (h.loc u y hu).2.2.2.2.1
      rw [l7.1, reqBit_iff] at this
      simp [PhC, hyidx] at this
      omega
    · have := harm.mpr (by rw [l7.1]; simp)
      rw [this] at h3; simp at h3
  case wuB1 r =>
    simp [PhOk] at l7
    rw [l7.1] at hC
    simp only [CntTarget] at hC
    omega
  case rs k =>
    simp [PhOk] at l7
    rw [l7.1] at hC
    simp only [CntTarget] at hC
    rcases hg with ⟨u, y, hk, hu, h0⟩ | ⟨h1, h2, h3⟩
    · obtain ⟨y', hy', hyin, hyidx⟩ := h.mem k u hk
      rw [hu] at hy'; cases hy'
      obtain ⟨-, -, -, -, m5, m6, -⟩ := h.loc u y hu
      rw [l7.1, reqBit_iff] at m5
      simp [PhC, hyidx, hyin] at m5
      have hnp := Inv.not_pend_of_zero hu hC
      simp [isPend] at hnp
      omega
    · have := harm.mpr (by rw [l7.1]; simp)
      rw [this] at h3; simp at h3
  case rmL1 => exact hg (l4 rfl)

/-- the invariant is preserved by every step -/
theorem Inv.step {s s' : State} {t st idx : Nat} {pc : PC} (h : Inv s) (ht : s.thr[t]? = some ⟨pc, st, idx⟩)
    (hs : Step s t st idx pc s') : Inv s' := by
  cases hs
  case spLock hb ha => exact h.step_spLock ht hb ha rfl
  case parkLock r hb ha => exact h.step_parkLock ht hb ha rfl
  case spN1some i r hi => exact h.step_spN1some ht hi
  case parkN1some r i q hi => exact h.step_parkN1some ht hi
  case addReserve u y hu hy hp => exact h.step_addReserve ht hu hy
  case addPush u hu => exact h.step_addPush ht hu rfl
  case spawnGo u hu => exact h.step_spawnGo ht hu
  case stwSingle h1 h2 h3 => exact h.step_stwSingle ht h1 rfl
  case opSEnd h1 => exact h.step_opSEnd ht rfl
  case arm h1 h2 h3 h4 => exact h.step_arm ht h2 rfl
  case foRun k r u y hk hu hy => exact h.step_foRun ht hk hu hy rfl
  case foPark k r u y hk hu hy => exact h.step_foPark ht hk hu hy rfl
  case wuLeave r hr => exact h.step_wuLeave ht hr rfl
  case rtEnter h1 => exact h.step_rtEnter ht rfl
  case opEnd h1 => exact h.step_opEnd ht rfl
  case rsSwap k u y hk hu hy => exact h.step_rsSwap ht hk hu hy rfl
  case disarm k hk hb ha => exact h.step_disarm ht hk hb rfl
  case disNotify => exact h.step_disNotify ht
  case rmSwap r last hl hr => exact h.step_rmSwap ht hl hr rfl
  case rmLast r hr => exact h.step_rmLast ht hr rfl
  case panic hg => exact absurd hg (fun g => h.no_panic ht g)
  -- steps that change nothing but `t`'s own pc / state byte and lock ownership
  case touch => exact h
  case opSTouch => exact h
  case opTouch => exact h
  case beg pc' hb =>
    rcases begTarget_cases hb with rfl | rfl | rfl | rfl | rfl
    · plain .poll0 st
    · plain (.ps0 .nat) st
    · plain (.ps0 .stw) st
    · plain .spawnNew st
    · plain (.park0 .exit) st
  case pollFast hst => plain .mut st
  case pollSlowGo hst => plain .pollSlow st
  case spSwap hst => plain .spB0 4
  case spN1none hc => plain .spB2 st
  case spWaitGo ha => plain .spWait st
  case spSpur => plain .spWoken st
  case spRelock hb => plain .spB2 st
  case ps0Ok c hr => plain (.park0 (.scope c)) st
  case psEndOk c hr =>
    rcases c with _ | _ | u
    · plain .mut st
    · plain .mut st
    · plain (.spawnGo u) st
  case parkFast r hst =>
    have hl0 := h.loc t _ ht
    rcases r with (_ | _ | u) | _ | _ | _
    · plain .natIn 1
    · plain .stwL0 1
    · plain (.addL0 u) 1
    · plain .rmL0 1
    · simp [Loc, StOk, parkRet] at hl0
    · simp [Loc, StOk, parkRet] at hl0
  case parkUnlock r =>
    have hl0 := h.loc t _ ht
    rcases r with (_ | _ | u) | _ | _ | _
    · plain .natIn st
    · plain .stwL0 st
    · plain (.addL0 u) st
    · plain .rmL0 st
    · simp [Loc, StOk, parkRet] at hl0
    · simp [Loc, StOk, parkRet] at hl0
  case unpFast r hst =>
    have hl0 := h.loc t _ ht
    rcases r with c | _ | _ | _
    · plain (.psEnd c) 0
    · simp [Loc, StOk, unpRet] at hl0
    · plain .mut 0
    · plain .mut 0
  case unpSFast r hst =>
    have hl0 := h.loc t _ ht
    rcases r with c | _ | _ | _
    · plain (.psEnd c) 0
    · simp [Loc, StOk, unpRet] at hl0
    · plain .mut 0
    · plain .mut 0
  case spLeave ha =>
    have hl0 := h.loc t _ ht
    have harm := h.armedIff
    have hst1 : st = 1 := by
      have hidle : s.phase = .idle := by
        cases hp : s.phase <;> simp_all
      simp [Loc, StOk, reqBit_iff, hidle, PhC] at hl0
      omega
    plain (.unp0 .slow) st
  case parkSlowGo r hst => plain (.parkS r) st
  case parkSlow r hst => plain (.parkB0 r) 3
  case parkN1none r hc => plain (.parkB2 r) st
  case natYield => plain (.unp0 (.scope .nat)) st
  case unpSlowGo r hst => plain (.unpS r) st
  case unpSWait r hst => plain (.unpB0 r) st
  case unpLock r hb => plain (.unpB1 r) st
  case unpWaitGo r ha => plain (.unpWait r) st
  case unpLeave r ha => plain (.unpS r) st
  case unpSpur r => plain (.unpWoken r) st
  case unpRelock r hb => plain (.unpB1 r) st
  case spawnFetch => plain .addA st
  case addLock u hlk => plain (.addL1 u) st
  case addUnlock u => plain (.unp0 (.scope (.add u))) st
  case stwLock hlk => plain .stwL1 st
  case armUnlock => plain (.fo 0 0) st
  case foLock k r hk hb ha => subst hk; plain (.wuB1 r) st
  case wuWaitGo r hlt => plain (.wuWait r) st
  case wuSpur r => plain (.wuWoken r) st
  case wuRelock r hb => plain (.wuB1 r) st
  case disUnlock => plain .stwUL st
  case stwUnlock => plain (.unp0 (.scope .stw)) st
  case rmLock hlk => plain .rmL1 st
  case rmLoad hli => plain (.rmL1a idx) st
  case rmNotify => plain .rmL3 st
  case rmUnlock => plain .dead st

/-- states reachable from `init N` through events the acceptor allows -/
inductive Reach (N : Nat) : State → Prop
  | init : Reach N (init N)
  | step {s s' : State} {e : Event} : Reach N s → accept s e = .ok s' → Reach N s'

theorem inv_init (N : Nat) : Inv (init N) := by
  refine ⟨?_, ?_, ?_, ?_, ?_⟩
  · intro u x hx
    simp only [init] at hx
    cases u with
    | zero =>
      simp at hx; subst hx
      simp [Loc, init, holdsL, holdsB, StOk, inList, reqBit_iff, PhC, PhOk]
    | succ u =>
      simp at hx
      rw [List.getElem?_replicate] at hx
      split at hx
      · simp at hx; subst hx
        simp [Loc, init, holdsL, holdsB, StOk, inList, reqBit_iff, PhC, PhOk]
      · simp at hx
  · intro j u hj
    simp only [init] at hj
    cases j with
    | zero => simp at hj; subst hj; exact ⟨⟨.mut, 0, 0⟩, by simp [init], rfl, rfl⟩
    | succ j => simp at hj
  · intro _; exact ⟨rfl, rfl⟩
  · simp [init]
  · rw [cntOk_iff]
    simp only [init, CntTarget]
    simp [List.countP_cons, isPend, isPendPc, List.countP_replicate]

theorem Reach.inv {N : Nat} {s : State} (hr : Reach N s) : Inv s := by
  induction hr with
  | init => exact inv_init N
  | step _ ha ih =>
    obtain ⟨pc, st, idx, ht, hs⟩ := accept_step ha
    exact ih.step ht hs

theorem Reach.run {N : Nat} {s : State} (hr : Reach N s) :
    ∀ (es : List Event) (s' : State), runTrace s es = some s' → Reach N s' := by
  intro es
  induction es generalizing s with
  | nil => intro s' h; simp [runTrace] at h; subst h; exact hr
  | cons e rest ih =>
    intro s' h
    simp only [runTrace] at h
    split at h
    · rename_i s1 h1; exact ih (Reach.step hr h1) s' h
    · simp at h

end Dora.Stw
