import DoraModel.Stw.LiveStep3
/-! # C04 — the wake-up invariants are inductive -/
namespace Dora.Stw

variable {s : State} {t st idx : Nat}

def wakePc : PC → PC
  | .spWait => .spWoken
  | .unpWait r => .unpWoken r
  | p => p

theorem wakeW_pc (x : Thr) : (wakeW x).pc = wakePc x.pc := by
  obtain ⟨pc, st, idx⟩ := x
  cases pc <;> rfl

theorem wakePc_props (p : PC) : isWaitWpc (wakePc p) = false ∧ ctxOf (wakePc p) = ctxOf p ∧
    (∀ r, wakePc p = .wuWait r → p = .wuWait r) ∧ (∀ b, p = slotPc b → wakePc p = slotPc b) := by
  refine ⟨?_, ?_, ?_, ?_⟩
  · cases p <;> simp [wakePc, isWaitWpc]
  · cases p <;> simp [wakePc, ctxOf]
  · intro r; cases p <;> simp [wakePc]
  · intro b hb; subst hb; cases b <;> simp [slotPc, wakePc]

theorem Inv2.step_disNotify (h2 : Inv2 s) (h : Inv s) (ht : s.thr[t]? = some ⟨.disB1, st, idx⟩) :
    Inv2 ({ s with thr := s.thr.map wakeW }.setPc t .disB2) := by
  have hpt : s.pcOf t = some .disB1 := pcOf_eq ht
  have hlB : s.lockB = some t := (h.loc t _ ht).2.1.mp rfl
  have hpc' : ∀ w, ({ s with thr := s.thr.map wakeW }.setPc t .disB2).pcOf w =
      if t = w then some .disB2 else (s.pcOf w).map wakePc := by
    intro w
    rw [pcOf_setPc]
    have e : ({ s with thr := s.thr.map wakeW } : State).pcOf w = (s.pcOf w).map wakePc := by
      simp only [State.pcOf, List.getElem?_map]
      cases s.thr[w]? with
      | none => rfl
      | some x => simp [wakeW_pc]
    rw [e]
    by_cases h1 : t = w
    · subst h1; simp [hpt]
    · simp [h1]
  have back : ∀ (w : Nat) (q : PC), ({ s with thr := s.thr.map wakeW }.setPc t .disB2).pcOf w = some q → t ≠ w →
      ∃ q0, s.pcOf w = some q0 ∧ q = wakePc q0 := by
    intro w q hq h1
    rw [hpc' w] at hq; simp [h1] at hq
    obtain ⟨q0, h0, h0'⟩ := hq
    exact ⟨q0, h0, h0'.symm⟩
  refine ⟨?_, ?_, ?_, ?_⟩
  · intro i r hi
    by_cases h1 : t = i
    · rw [hpc' i] at hi; simp [h1] at hi
    · obtain ⟨q0, h0, hq⟩ := back i _ hi h1
      have := (wakePc_props q0).2.2.1 r hq.symm
      subst this
      rcases h2.waitN i r h0 with h3 | ⟨b, q, hb, hq', hn⟩
      · left; exact h3
      · exfalso; rw [hlB] at hb; cases hb; rw [hpt] at hq'; cases hq'; simp [isNotifier] at hn
  · intro i q hi hq
    by_cases h1 : t = i
    · rw [hpc' i] at hi; simp [h1] at hi; subst hi; simp [isWaitWpc] at hq
    · obtain ⟨q0, h0, rfl⟩ := back i _ hi h1
      rw [(wakePc_props q0).1] at hq; cases hq
  · intro w q u p hw hc
    by_cases h1 : t = w
    · rw [hpc' w] at hw; simp [h1] at hw; subst hw; simp [ctxOf] at hc
    · obtain ⟨q0, h0, rfl⟩ := back w _ hw h1
      rw [(wakePc_props q0).2.1] at hc
      have hold := h2.ctx w q0 u p h0 hc
      have hut : t ≠ u := by
        intro e; subst e; rw [hpt] at hold; cases p <;> simp [slotPc] at hold
      rw [hpc' u]; simp [hut, hold]
      exact (wakePc_props _).2.2.2 p rfl
  · intro t1 t2 q1 q2 u p1 p2 hq1 hq2 hc1 hc2
    have conv : ∀ (w : Nat) (q : PC) (p : Bool), ({ s with thr := s.thr.map wakeW }.setPc t .disB2).pcOf w = some q →
        ctxOf q = some (u, p) → ∃ q0, s.pcOf w = some q0 ∧ ctxOf q0 = some (u, p) := by
      intro w q p hw hc
      by_cases h1 : t = w
      · rw [hpc' w] at hw; simp [h1] at hw; subst hw; simp [ctxOf] at hc
      · obtain ⟨q0, h0, rfl⟩ := back w _ hw h1
        exact ⟨q0, h0, by rw [← (wakePc_props q0).2.1]; exact hc⟩
    obtain ⟨y1, hy1, hd1⟩ := conv t1 q1 p1 hq1 hc1
    obtain ⟨y2, hy2, hd2⟩ := conv t2 q2 p2 hq2 hc2
    exact h2.uniq t1 t2 y1 y2 u p1 p2 hy1 hy2 hd1 hd2

/-- the wake-up invariants are preserved by every step -/
theorem Inv2.step {s' : State} {pc : PC} (h2 : Inv2 s) (h : Inv s) (ht : s.thr[t]? = some ⟨pc, st, idx⟩)
    (hs : Step s t st idx pc s') : Inv2 s' := by
  have h' : Inv s' := h.step ht hs
  cases hs
  case spLock hb ha => exact h2.step_spLock h ht hb
  case parkLock r hb ha => exact h2.step_parkLock h ht hb
  case spN1none hc => exact h2.step_spN1none h ht hc
  case parkN1none r hc => exact h2.step_parkN1none h ht hc
  case spWaitGo ha => exact h2.step_spWaitGo h ht ha
  case unpWaitGo r ha => exact h2.step_unpWaitGo h ht ha
  case wuWaitGo r hlt => exact h2.step_wuWaitGo h ht hlt
  case arm h1 hb h3 h4 => exact h2.step_arm h ht hb h'
  case disarm k hk hb ha => exact h2.step_disarm h ht hb
  case spN1some i r hi =>
    exact h2.n1some h ht hi h' (quiet_of (by simp) rfl (by simp) rfl) rfl rfl rfl (by simp)
  case parkN1some r i q hi =>
    exact h2.n1some h ht hi h' (quiet_of (by simp) rfl (by simp) rfl) rfl rfl (by simp [ctxOf]) (by simp)
  case addReserve u y hu hy hp => exact h2.step_addReserve ht hu hy
  case addPush u hu => exact h2.step_addPush ht hu
  case spawnGo u hu => exact h2.step_spawnGo ht hu
  case disNotify => exact h2.step_disNotify h ht
  case panic hg => exact absurd hg (fun g => h.no_panic ht g)
  -- frame steps
  -- steps that change nothing but `t`'s own pc / state byte and lock ownership
  case touch => exact h2
  case opSTouch => exact h2
  case opTouch => exact h2
  case beg pc' hb =>
    rcases begTarget_cases hb with rfl | rfl | rfl | rfl | rfl
    · plain2 .poll0 st
    · plain2 (.ps0 .nat) st
    · plain2 (.ps0 .stw) st
    · plain2 .spawnNew st
    · plain2 (.park0 .exit) st
  case pollFast hst => plain2 .mut st
  case pollSlowGo hst => plain2 .pollSlow st
  case spSwap hst => plain2 .spB0 4
  case spSpur => plain2 .spWoken st
  case spRelock hb => plain2 .spB2 st
  case ps0Ok c hr => plain2 (.park0 (.scope c)) st
  case psEndOk c hr =>
    rcases c with _ | _ | u
    · plain2 .mut st
    · plain2 .mut st
    · plain2 (.spawnGo u) st
  case parkFast r hst =>
    have hl0 := h.loc t _ ht
    rcases r with (_ | _ | u) | _ | _ | _
    · plain2 .natIn 1
    · plain2 .stwL0 1
    · plain2 (.addL0 u) 1
    · plain2 .rmL0 1
    · simp [Loc, StOk, parkRet] at hl0
    · simp [Loc, StOk, parkRet] at hl0
  case parkUnlock r =>
    have hl0 := h.loc t _ ht
    rcases r with (_ | _ | u) | _ | _ | _
    · plain2 .natIn st
    · plain2 .stwL0 st
    · plain2 (.addL0 u) st
    · plain2 .rmL0 st
    · simp [Loc, StOk, parkRet] at hl0
    · simp [Loc, StOk, parkRet] at hl0
  case unpFast r hst =>
    have hl0 := h.loc t _ ht
    rcases r with c | _ | _ | _
    · plain2 (.psEnd c) 0
    · simp [Loc, StOk, unpRet] at hl0
    · plain2 .mut 0
    · plain2 .mut 0
  case unpSFast r hst =>
    have hl0 := h.loc t _ ht
    rcases r with c | _ | _ | _
    · plain2 (.psEnd c) 0
    · simp [Loc, StOk, unpRet] at hl0
    · plain2 .mut 0
    · plain2 .mut 0
  case spLeave ha =>
    have hl0 := h.loc t _ ht
    have harm := h.armedIff
    have hst1 : st = 1 := by
      have hidle : s.phase = .idle := by
        cases hp : s.phase <;> simp_all
      simp [Loc, StOk, reqBit_iff, hidle, PhC] at hl0
      omega
    plain2 (.unp0 .slow) st
  case parkSlowGo r hst => plain2 (.parkS r) st
  case parkSlow r hst => plain2 (.parkB0 r) 3
  case natYield => plain2 (.unp0 (.scope .nat)) st
  case unpSlowGo r hst => plain2 (.unpS r) st
  case unpSWait r hst => plain2 (.unpB0 r) st
  case unpLock r hb => plain2 (.unpB1 r) st
  case unpLeave r ha => plain2 (.unpS r) st
  case unpSpur r => plain2 (.unpWoken r) st
  case unpRelock r hb => plain2 (.unpB1 r) st
  case spawnFetch => plain2 .addA st
  case addLock u hlk => plain2 (.addL1 u) st
  case addUnlock u => plain2 (.unp0 (.scope (.add u))) st
  case stwLock hlk => plain2 .stwL1 st
  case armUnlock => plain2 (.fo 0 0) st
  case foLock k r hk hb ha => subst hk; plain2 (.wuB1 r) st
  case wuSpur r => plain2 (.wuWoken r) st
  case wuRelock r hb => plain2 (.wuB1 r) st
  case disUnlock => plain2 .stwUL st
  case stwUnlock => plain2 (.unp0 (.scope .stw)) st
  case rmLock hlk => plain2 .rmL1 st
  case rmLoad hli => plain2 (.rmL1a idx) st
  case rmNotify => plain2 .rmL3 st
  case rmUnlock => plain2 .dead st
  case stwSingle h1 h2' h3 => plain2 .opS st
  case opSEnd h1 => plain2 .stwUL st
  case foRun k r u y hk hu hy => plain2 (.fo (k + 1) (r + 1)) st
  case foPark k r u y hk hu hy => plain2 (.fo (k + 1) r) st
  case wuLeave r hr => plain2 .rtS1 st
  case rtEnter h1 => plain2 .op st
  case opEnd h1 => plain2 (.rs 0) st
  case rsSwap k u y hk hu hy => plain2 (.rs (k + 1)) st
  case rmSwap r last hl' hr => plain2 .rmL2 st
  case rmLast r hr => plain2 .rmL3 st

theorem inv2_init (N : Nat) : Inv2 (init N) := by
  have hpc : ∀ w q, (init N).pcOf w = some q → q = .mut ∨ q = .unborn := by
    intro w q hq
    obtain ⟨x, hx, rfl⟩ := pcOf_get hq
    simp only [init] at hx
    cases w with
    | zero => simp at hx; subst hx; left; rfl
    | succ w =>
      simp at hx
      rw [List.getElem?_replicate] at hx
      split at hx
      · simp at hx; subst hx; right; rfl
      · simp at hx
  refine ⟨?_, ?_, ?_, ?_⟩
  · intro i r hi; rcases hpc i _ hi with h | h <;> cases h
  · intro i q hi hq; rcases hpc i _ hi with h | h <;> subst h <;> simp [isWaitWpc] at hq
  · intro t q u p hq hc; rcases hpc t _ hq with h | h <;> subst h <;> simp [ctxOf] at hc
  · intro t1 t2 q1 q2 u p1 p2 hq1 _ hc1 _; rcases hpc t1 _ hq1 with h | h <;> subst h <;> simp [ctxOf] at hc1

theorem Reach.inv2 {N : Nat} {s : State} (hr : Reach N s) : Inv2 s := by
  induction hr with
  | init => exact inv2_init N
  | step hr' ha ih =>
    obtain ⟨pc, st, idx, ht, hs⟩ := accept_step ha
    exact ih.step hr'.inv ht hs

end Dora.Stw
