import DoraModel.Stw.LiveStep4
/-! # C04 — progress: in every reachable state with a live thread some step other than a spurious wake-up is possible -/
namespace Dora.Stw

/-- the thread exists and has not left -/
def live : PC → Bool
  | .unborn | .embryo | .ready | .dead | .panicked => false
  | _ => true

/-- sleeping in a condition variable -/
def sleeping : PC → Bool
  | .spWait | .unpWait _ | .wuWait _ => true
  | _ => false

/-- next operation is `threads.lock()` -/
def needsL : PC → Bool
  | .addL0 _ | .stwL0 | .rmL0 => true
  | _ => false

theorem en_of {s : State} {w : Nat} {x : Thr} (hx : s.thr[w]? = some x) (a : Act) (ha : a ≠ .spur)
    (hok : (stepAt s w x x.pc a).isOk = true) :
    ∃ (e : Event) (s' : State), e.act ≠ .spur ∧ accept s e = .ok s' := by
  cases hs : stepAt s w x x.pc a with
  | ok s' => exact ⟨⟨w, a⟩, s', ha, by simp [accept, hx, hs]⟩
  | error m => rw [hs] at hok; simp [Except.isOk, Except.toBool] at hok

/-- whoever holds `Barrier::data` can take a step -/
theorem holderB_enabled {s : State} (h : Inv s) {b : Nat} {x : Thr} (hx : s.thr[b]? = some x)
    (hh : holdsB x.pc = true) : ∃ (e : Event) (s' : State), e.act ≠ .spur ∧ accept s e = .ok s' := by
  obtain ⟨pc, st, idx⟩ := x
  have en := en_of hx
  simp only at en hh
  have n1 : ∃ a, a ≠ Act.spur ∧ ∀ pcq, (pcq = PC.spB1 ∨ ∃ r, pcq = PC.parkB1 r) →
      (stepAt s b ⟨pcq, st, idx⟩ pcq a).isOk = true := by
    by_cases hz : s.thr.countP isWaitN = 0
    · refine ⟨.n1N none, by simp, ?_⟩
      rintro pcq (rfl | ⟨r, rfl⟩) <;> simp [stepAt, hz, Except.isOk, Except.toBool]
    · have hpos : 0 < s.thr.countP isWaitN := by omega
      rw [List.countP_pos_iff] at hpos
      obtain ⟨y, hy, hyw⟩ := hpos
      obtain ⟨u, hu⟩ := List.getElem?_of_mem hy
      obtain ⟨pcy, sty, idxy⟩ := y
      cases pcy <;> simp [isWaitN] at hyw
      refine ⟨.n1N (some u), by simp, ?_⟩
      rintro pcq (rfl | ⟨r, rfl⟩) <;> simp [stepAt, State.pcOf, hu, Except.isOk, Except.toBool]
  cases pc <;> simp [holdsB] at hh
  case spB1 => obtain ⟨a, ha, hok⟩ := n1; exact en a ha (hok _ (Or.inl rfl))
  case parkB1 r => obtain ⟨a, ha, hok⟩ := n1; exact en a ha (hok _ (Or.inr ⟨r, rfl⟩))
  case spB2 =>
    cases ha : s.armed
    · exact en .unlockB (by simp) (by simp [stepAt, ha, Except.isOk, Except.toBool])
    · exact en .waitW (by simp) (by simp [stepAt, ha, Except.isOk, Except.toBool])
  case parkB2 r => exact en .unlockB (by simp) (by simp [stepAt, Except.isOk, Except.toBool])
  case unpB1 r =>
    cases ha : s.armed
    · exact en .unlockB (by simp) (by simp [stepAt, ha, Except.isOk, Except.toBool])
    · exact en .waitW (by simp) (by simp [stepAt, ha, Except.isOk, Except.toBool])
  case armB => exact en .unlockB (by simp) (by simp [stepAt, Except.isOk, Except.toBool])
  case wuB1 r =>
    by_cases hlt' : s.stopped < r
    · exact en .waitN (by simp) (by simp [stepAt, hlt', Except.isOk, Except.toBool])
    · exact en .unlockB (by simp) (by simp [stepAt, hlt', Except.isOk, Except.toBool])
  case disB1 => exact en (.naW (s.thr.countP isWaitW)) (by simp) (by simp [stepAt, Except.isOk, Except.toBool])
  case disB2 => exact en .unlockB (by simp) (by simp [stepAt, Except.isOk, Except.toBool])

/-- a live thread that is not asleep, does not hold the barrier mutex (which is free) and does not need the list
lock (or the list lock is free) can take a step -/
theorem enabled_of {s : State} (h : Inv s) (h2 : Inv2 s) (hB : s.lockB = none) {w : Nat} {x : Thr}
    (hx : s.thr[w]? = some x) (hlive : live x.pc = true) (hns : sleeping x.pc = false) (hnb : holdsB x.pc = false)
    (hL : needsL x.pc = true → s.lockL = none)
    (hslot : x.pc = .addA → ∃ (u : Nat) (y : Thr), s.thr[u]? = some y ∧ y.pc = .unborn) :
    ∃ (e : Event) (s' : State), e.act ≠ .spur ∧ accept s e = .ok s' := by
  obtain ⟨l1, l2, l3, l4, l5, l6, l7⟩ := h.loc w x hx
  have hctx := h2.ctx w x.pc
  have hpw := pcOf_eq hx
  obtain ⟨pc, st, idx⟩ := x
  have en := en_of hx
  simp only at en hlive hns hnb hL hslot l3 l4 l7 hctx hpw
  cases pc <;> simp [live, sleeping, holdsB, needsL] at hlive hns hnb hL
  case mut => exact en .touch (by simp) (by simp [stepAt, Except.isOk, Except.toBool])
  case poll0 => exact en (.loadS w st) (by simp) (by simp [stepAt, Except.isOk, Except.toBool])
  case pollSlow =>
    exact en (.swapS w st 4) (by simp) (by by_cases h2' : st = 2 <;> simp [stepAt, h2', Except.isOk, Except.toBool])
  case spB0 =>
    exact en .lockB (by simp) (by cases ha : s.armed <;> simp [stepAt, hB, ha, Except.isOk, Except.toBool])
  case spWoken => exact en .relockB (by simp) (by simp [stepAt, hB, Except.isOk, Except.toBool])
  case ps0 c => exact en (.loadS w st) (by simp) (by simp [stepAt, Except.isOk, Except.toBool])
  case psEnd c => exact en (.loadS w st) (by simp) (by simp [stepAt, Except.isOk, Except.toBool])
  case park0 r =>
    by_cases h0 : st = 0
    · exact en (.casS w st (some 1)) (by simp) (by simp [stepAt, h0, Except.isOk, Except.toBool])
    · exact en (.casS w st none) (by simp) (by simp [stepAt, h0, Except.isOk, Except.toBool])
  case parkS r =>
    by_cases h0 : st = 2
    · exact en (.casS w st (some 3)) (by simp) (by simp [stepAt, h0, Except.isOk, Except.toBool])
    · exact en (.casS w st none) (by simp) (by simp [stepAt, h0, Except.isOk, Except.toBool])
  case parkB0 r =>
    exact en .lockB (by simp) (by cases ha : s.armed <;> simp [stepAt, hB, ha, Except.isOk, Except.toBool])
  case natIn => exact en .yield (by simp) (by simp [stepAt, Except.isOk, Except.toBool])
  case unp0 r =>
    by_cases h0 : st = 1
    · exact en (.casS w st (some 0)) (by simp) (by simp [stepAt, h0, Except.isOk, Except.toBool])
    · exact en (.casS w st none) (by simp) (by simp [stepAt, h0, Except.isOk, Except.toBool])
  case unpS r =>
    by_cases h0 : st = 1
    · exact en (.casS w st (some 0)) (by simp) (by simp [stepAt, h0, Except.isOk, Except.toBool])
    · exact en (.casS w st none) (by simp) (by simp [stepAt, h0, Except.isOk, Except.toBool])
  case unpB0 r => exact en .lockB (by simp) (by simp [stepAt, hB, Except.isOk, Except.toBool])
  case unpWoken r => exact en .relockB (by simp) (by simp [stepAt, hB, Except.isOk, Except.toBool])
  case spawnNew => exact en .fetchX (by simp) (by simp [stepAt, Except.isOk, Except.toBool])
  case addA =>
    obtain ⟨u, y, hu, hy⟩ := hslot rfl
    exact en (.loadS u y.st) (by simp) (by
      by_cases hp : isParkedSt y.st = true <;> simp [stepAt, hu, hy, hp, Except.isOk, Except.toBool])
  case addL0 u => exact en .lockL (by simp) (by simp [stepAt, hL, Except.isOk, Except.toBool])
  case addL1 u =>
    have := hctx u false hpw rfl
    exact en (.storeI u s.list.length) (by simp) (by simp [stepAt, this, slotPc, Except.isOk, Except.toBool])
  case addL2 u => exact en .unlockL (by simp) (by simp [stepAt, Except.isOk, Except.toBool])
  case spawnGo u =>
    have := hctx u true hpw rfl
    exact en (.spawn u) (by simp) (by simp [stepAt, this, slotPc, Except.isOk, Except.toBool])
  case stwL0 => exact en .lockL (by simp) (by simp [stepAt, hL, Except.isOk, Except.toBool])
  case stwL1 =>
    by_cases h1 : s.list.length = 1
    · exact en (.swapRT s.rt 1) (by simp) (by
        by_cases hc : s.list[0]? = some w ∧ s.rt = 0 <;> simp [stepAt, h1, hc, Except.isOk, Except.toBool])
    · exact en .lockB (by simp) (by
        by_cases hc : ¬ s.armed = true ∧ w ∈ s.list <;> simp [stepAt, h1, hB, hc, Except.isOk, Except.toBool])
  case opS => exact en .opTouch (by simp) (by simp [stepAt, Except.isOk, Except.toBool])
  case op => exact en .opTouch (by simp) (by simp [stepAt, Except.isOk, Except.toBool])
  case rtS1 =>
    exact en (.swapRT s.rt 1) (by simp) (by by_cases h0 : s.rt = 0 <;> simp [stepAt, h0, Except.isOk, Except.toBool])
  case wuWoken r => exact en .relockB (by simp) (by simp [stepAt, hB, Except.isOk, Except.toBool])
  case stwUL => exact en .unlockL (by simp) (by simp [stepAt, Except.isOk, Except.toBool])
  case rmL0 => exact en .lockL (by simp) (by simp [stepAt, hL, Except.isOk, Except.toBool])
  case rmL1 => exact en (.loadI w idx) (by simp) (by simp [stepAt, Except.isOk, Except.toBool])
  case rmL2 => exact en (.naJ 0) (by simp) (by simp [stepAt, Except.isOk, Except.toBool])
  case rmL3 => exact en .unlockL (by simp) (by simp [stepAt, Except.isOk, Except.toBool])
  case rmL1a r =>
    simp [PhOk] at l7
    have hlt := lt_of_get (l4 rfl)
    by_cases h1 : r + 1 = s.list.length
    · exact en (.naJ 0) (by simp) (by simp [stepAt, h1, Except.isOk, Except.toBool])
    · have hne : s.list ≠ [] := by intro e; rw [e] at hlt; simp at hlt
      obtain ⟨last, hlast⟩ : ∃ last, s.list.getLast? = some last := by
        cases hq : s.list.getLast? with
        | none => rw [List.getLast?_eq_none_iff] at hq; exact absurd hq hne
        | some v => exact ⟨v, rfl⟩
      exact en (.storeI last r) (by simp) (by simp [stepAt, hlast, h1, Except.isOk, Except.toBool])
  case fo k r =>
    simp [PhOk] at l7
    by_cases hk : k = s.list.length
    · exact en .lockB (by simp) (by
        cases ha : s.armed <;> simp [stepAt, hk, hB, ha, Except.isOk, Except.toBool])
    · have hklt : k < s.list.length := by omega
      have hku : s.list[k]? = some s.list[k] := by simp [hklt]
      obtain ⟨y, hy, -, -⟩ := h.mem k _ hku
      exact en (.forS s.list[k] y.st (y.st ||| 2)) (by simp) (by
        by_cases a0 : y.st = 0 <;> by_cases a1 : y.st = 1 <;>
          simp [stepAt, hklt, hy, a0, a1, Except.isOk, Except.toBool])
  case rs k =>
    simp [PhOk] at l7
    by_cases hk : k = s.list.length
    · exact en .lockB (by simp) (by
        cases ha : s.armed <;> simp [stepAt, hk, hB, ha, Except.isOk, Except.toBool])
    · have hklt : k < s.list.length := by omega
      have hku : s.list[k]? = some s.list[k] := by simp [hklt]
      obtain ⟨y, hy, -, -⟩ := h.mem k _ hku
      exact en (.swapS s.list[k] y.st 1) (by simp) (by
        by_cases a0 : (y.st = 4 ∨ y.st = 3) <;> simp [stepAt, hklt, hy, a0, Except.isOk, Except.toBool])

end Dora.Stw
